import Mathlib
import MV.Props.C08LogGamma
import MV.Props.C08BetaIdentity
/-!
# C05 — the Student-t CDF reference `tCDFgen` at real `ν`

Chain: `lgammaI_sound` ⇒ `lbetaI_sound` ⇒ `betaRegI_encloses` ⇒ `tCDFgen_encloses_beta`
(the model encloses `tCDFviaBeta ν t`, the closed form through the regularised incomplete beta
function).

Real analysis, for the Student-t density
`f_ν(s) = Γ((ν+1)/2)/(√(νπ) Γ(ν/2)) · (1 + s²/ν)^(−(ν+1)/2)` (`tDensity`), real `ν > 0`:
* `tKernel_integral_eq_beta`: the substitution `u = ν/(ν+s²)`,
  `∫₀ᵗ (1+s²/ν)^(−(ν+1)/2) ds = (√ν/2) ∫_x^1 u^(ν/2−1)(1−u)^(−1/2) du`, `x = ν/(ν+t²)`;
* `studentT_cdf_eq_beta` (`t > 0`), `studentT_cdf_eq_beta_all` (all `t`):
  `1/2 + ∫₀ᵗ f_ν = tCDFviaBeta ν t`;
* `studentT_cdf`: `f_ν` is integrable on `(−∞,t]` and `∫_{−∞}^t f_ν = tCDFviaBeta ν t`;
* `tDensity_integral_eq_one`: `f_ν ≥ 0`, integrable, `∫_ℝ f_ν = 1`;
* `tCDFgen_encloses_cdf`: the model's interval contains `∫_{−∞}^t f_ν`.
-/
namespace MV.Special
open MV MV.I MeasureTheory Set intervalIntegral

/-! ## Goal 1: the chain -/

/-- **`lbetaI` encloses `log B(a,b)`.**  For rationals `a, b > 0` such that the series enclosures of
`log Γ` exist at `a`, `b` and `a+b` (no Stirling fallback), the interval `lbetaI a b` contains
`log (Γ(a)Γ(b)/Γ(a+b))`. -/
theorem lbetaI_sound (a b : ℚ) (ha : 0 < a) (hb : 0 < b)
    (hsa : (lgammaS a).isSome) (hsb : (lgammaS b).isSome) (hsab : (lgammaS (a + b)).isSome) :
    Mem (Real.log (Real.Gamma (a : ℝ) * Real.Gamma (b : ℝ) / Real.Gamma ((a : ℝ) + (b : ℝ))))
      (lbetaI a b) := by
  have haR : (0 : ℝ) < (a : ℝ) := by exact_mod_cast ha
  have hbR : (0 : ℝ) < (b : ℝ) := by exact_mod_cast hb
  have h1 := lgammaI_sound a ha hsa
  have h2 := lgammaI_sound b hb hsb
  have h3 := lgammaI_sound (a + b) (by linarith) hsab
  rw [show (((a + b : ℚ)) : ℝ) = (a : ℝ) + (b : ℝ) by push_cast; ring] at h3
  have h := sub_sound (add_sound h1 h2) h3
  unfold lbetaI
  convert h using 1
  rw [Real.log_div (mul_pos (Real.Gamma_pos_of_pos haR) (Real.Gamma_pos_of_pos hbR)).ne'
    (Real.Gamma_pos_of_pos (add_pos haR hbR)).ne',
    Real.log_mul (Real.Gamma_pos_of_pos haR).ne' (Real.Gamma_pos_of_pos hbR).ne']

example : Mem (Real.log (Real.Gamma (((5 / 4 : ℚ)) : ℝ) * Real.Gamma (((1 / 2 : ℚ)) : ℝ) /
    Real.Gamma ((((5 / 4 : ℚ)) : ℝ) + (((1 / 2 : ℚ)) : ℝ)))) (lbetaI (5 / 4) (1 / 2)) :=
  lbetaI_sound (5 / 4) (1 / 2) (by norm_num) (by norm_num) (by decide +kernel) (by decide +kernel)
    (by decide +kernel)

/-- **`betaRegI` encloses the regularised incomplete beta function.**  For rationals `a, b > 0`
such that the series enclosures of `log Γ` exist at `a`, `b`, `a+b`, and rational `0 ≤ x ≤ 1`: any
interval returned by `betaRegI x a b` contains `I_x(a,b) = B_x(a,b)/B_1(a,b)`,
`B_x(a,b) = ∫₀ˣ t^(a−1)(1−t)^(b−1) dt` (no assumption on the enclosure of `log B` is left). -/
theorem betaRegI_encloses (x a b : ℚ) (ha : 0 < a) (hb : 0 < b)
    (hsa : (lgammaS a).isSome) (hsb : (lgammaS b).isSome) (hsab : (lgammaS (a + b)).isSome)
    (hx0 : 0 ≤ x) (hx1 : x ≤ 1) (r : I) (h : betaRegI x a b = some r) :
    Mem (incBeta (a : ℝ) (b : ℝ) (x : ℝ) / incBeta (a : ℝ) (b : ℝ) 1) r := by
  have haR : (0 : ℝ) < (a : ℝ) := by exact_mod_cast ha
  have hbR : (0 : ℝ) < (b : ℝ) := by exact_mod_cast hb
  have hm := betaRegIWith_encloses_closed (lbetaI a b) x a b ha hb hx0 hx1
    (lbetaI_sound a b ha hb hsa hsb hsab) r h
  rw [incBeta_one_eq_Gamma haR hbR]
  exact hm

example : ∃ r, betaRegI (5 / 7) (5 / 4) (1 / 2) = some r ∧
    Mem (incBeta (((5 / 4 : ℚ)) : ℝ) (((1 / 2 : ℚ)) : ℝ) (((5 / 7 : ℚ)) : ℝ) /
      incBeta (((5 / 4 : ℚ)) : ℝ) (((1 / 2 : ℚ)) : ℝ) 1) r := by
  have hs : (betaRegI (5 / 7) (5 / 4) (1 / 2)).isSome = true := by decide +kernel
  obtain ⟨r, hr⟩ := Option.isSome_iff_exists.mp hs
  exact ⟨r, hr, betaRegI_encloses _ _ _ (by norm_num) (by norm_num) (by decide +kernel)
    (by decide +kernel) (by decide +kernel) (by norm_num) (by norm_num) r hr⟩

/-- the closed form of the Student-t CDF through the regularised incomplete beta function
`I_x(a,b) = B_x(a,b)/B_1(a,b)` at `x = ν/(ν+t²)`: `1/2` at `t = 0`, `1 − ½ I_x(ν/2,1/2)` for `t > 0`,
`½ I_x(ν/2,1/2)` for `t < 0`. -/
noncomputable def tCDFviaBeta (ν t : ℝ) : ℝ :=
  if t = 0 then 1 / 2
  else if 0 < t then
    1 - 1 / 2 * (incBeta (ν / 2) (1 / 2) (ν / (ν + t ^ 2)) / incBeta (ν / 2) (1 / 2) 1)
  else 1 / 2 * (incBeta (ν / 2) (1 / 2) (ν / (ν + t ^ 2)) / incBeta (ν / 2) (1 / 2) 1)

/-- **`tCDFgen` encloses the beta-function form of the Student-t CDF.**  For rational `ν > 0` such
that the series enclosures of `log Γ` exist at `ν/2`, `1/2`, `ν/2 + 1/2`, and any rational `t`: any
interval returned by `tCDFgen ν t` contains `tCDFviaBeta ν t` (for `t < 0` the model returns
`1 − (1 − ½ I)`, which contains `½ I`). -/
theorem tCDFgen_encloses_beta (ν t : ℚ) (hν : 0 < ν)
    (hs1 : (lgammaS (ν / 2)).isSome) (hs2 : (lgammaS (1 / 2)).isSome)
    (hs3 : (lgammaS (ν / 2 + 1 / 2)).isSome) (r : I) (h : tCDFgen ν t = some r) :
    Mem (tCDFviaBeta (ν : ℝ) (t : ℝ)) r := by
  unfold tCDFgen at h
  unfold tCDFviaBeta
  by_cases ht0 : t = 0
  · subst ht0
    simp only [beq_self_eq_true, if_true] at h
    obtain rfl := Option.some.inj h
    simpa using ofRat_sound (1 / 2)
  · have ht0R : (t : ℝ) ≠ 0 := by exact_mod_cast ht0
    have hbeq : (t == 0) = false := by simpa using ht0
    rw [hbeq] at h
    simp only [Bool.false_eq_true, if_false] at h
    have htt : 0 ≤ t * t := mul_self_nonneg t
    have hden : 0 < ν + t * t := by linarith
    have hx0 : 0 ≤ ν / (ν + t * t) := div_nonneg hν.le hden.le
    have hx1 : ν / (ν + t * t) ≤ 1 := by rw [div_le_one hden]; linarith
    rw [if_neg ht0R]
    cases hb : betaRegI (ν / (ν + t * t)) (ν / 2) (1 / 2) with
    | none => rw [hb] at h; exact absurd h (by simp)
    | some b =>
      rw [hb] at h
      simp only at h
      have hm := betaRegI_encloses (ν / (ν + t * t)) (ν / 2) (1 / 2) (by linarith) (by norm_num)
        hs1 hs2 hs3 hx0 hx1 b hb
      have hcast : (((ν / (ν + t * t) : ℚ)) : ℝ) = (ν : ℝ) / ((ν : ℝ) + (t : ℝ) ^ 2) := by
        push_cast; ring
      rw [hcast, show (((ν / 2 : ℚ)) : ℝ) = (ν : ℝ) / 2 by push_cast; ring,
        show (((1 / 2 : ℚ)) : ℝ) = 1 / 2 by push_cast; ring] at hm
      have hup := sub_sound (ofRat_sound 1) (scale_sound (1 / 2) hm)
      rw [show (((1 : ℚ)) : ℝ) = 1 by norm_num,
        show (((1 / 2 : ℚ)) : ℝ) = 1 / 2 by push_cast; ring] at hup
      by_cases htpos : 0 < t
      · have htposR : (0 : ℝ) < (t : ℝ) := by exact_mod_cast htpos
        rw [if_pos htpos] at h
        obtain rfl := Option.some.inj h
        rw [if_pos htposR]
        exact hup
      · have htposR : ¬ (0 : ℝ) < (t : ℝ) := by exact_mod_cast htpos
        rw [if_neg htpos] at h
        obtain rfl := Option.some.inj h
        rw [if_neg htposR]
        have := sub_sound (ofRat_sound 1) hup
        rw [show (((1 : ℚ)) : ℝ) = 1 by norm_num] at this
        convert this using 1
        ring

/-- non-vacuity: `ν = 5/2`, `t = 1` (so `x = 5/7`, parameters `5/4`, `1/2`, `7/4`): the model returns
an interval and it contains `tCDFviaBeta (5/2) 1` -/
example : ∃ r, tCDFgen (5 / 2) 1 = some r ∧
    Mem (tCDFviaBeta (((5 / 2 : ℚ)) : ℝ) (((1 : ℚ)) : ℝ)) r := by
  have hs : (tCDFgen (5 / 2) 1).isSome = true := by decide +kernel
  obtain ⟨r, hr⟩ := Option.isSome_iff_exists.mp hs
  exact ⟨r, hr, tCDFgen_encloses_beta _ _ (by norm_num) (by decide +kernel) (by decide +kernel)
    (by decide +kernel) r hr⟩

/-- non-vacuity on the negative side: `ν = 5/2`, `t = −1` -/
example : ∃ r, tCDFgen (5 / 2) (-1) = some r ∧
    Mem (tCDFviaBeta (((5 / 2 : ℚ)) : ℝ) (((-1 : ℚ)) : ℝ)) r := by
  have hs : (tCDFgen (5 / 2) (-1)).isSome = true := by decide +kernel
  obtain ⟨r, hr⟩ := Option.isSome_iff_exists.mp hs
  exact ⟨r, hr, tCDFgen_encloses_beta _ _ (by norm_num) (by decide +kernel) (by decide +kernel)
    (by decide +kernel) r hr⟩


/-! ## Goal 2: the Student-t density integrates to the beta-function form -/

/-- the substitution `φ(s) = ν/(ν+s²)` -/
noncomputable def tPhi (ν s : ℝ) : ℝ := ν / (ν + s ^ 2)

/-- its derivative -/
noncomputable def tPhi' (ν s : ℝ) : ℝ := -(2 * ν * s) / (ν + s ^ 2) ^ 2

lemma tPhi_hasDerivAt {ν : ℝ} (hν : 0 < ν) (s : ℝ) : HasDerivAt (tPhi ν) (tPhi' ν s) s := by
  have hw : ν + s ^ 2 ≠ 0 := by positivity
  have h1 : HasDerivAt (fun s : ℝ => ν + s ^ 2) (2 * s) s := by
    simpa using (hasDerivAt_pow 2 s).const_add ν
  have h2 : HasDerivAt (fun y : ℝ => ν * (ν + y ^ 2)⁻¹) (ν * (-(2 * s) / (ν + s ^ 2) ^ 2)) s :=
    (h1.inv hw).const_mul ν
  have e1 : tPhi ν = fun y : ℝ => ν * (ν + y ^ 2)⁻¹ := by
    funext y; unfold tPhi; rw [div_eq_mul_inv]
  have e2 : tPhi' ν s = ν * (-(2 * s) / (ν + s ^ 2) ^ 2) := by unfold tPhi'; ring
  rw [e1, e2]
  exact h2

lemma tSubst_exp_algebra (Lν Ls Lw n : ℝ) :
    Real.exp ((Lν - Lw) * (n / 2 - 1)) * Real.exp ((2 * Ls - Lw) * (-(1:ℝ) / 2)) *
      (-(2 * Real.exp Lν * Real.exp Ls) / Real.exp Lw ^ 2) =
    -(2 / Real.exp (Lν / 2)) * Real.exp ((Lw - Lν) * (-(n + 1) / 2)) := by
  have : Real.exp ((Lν - Lw) * (n / 2 - 1)) * Real.exp ((2 * Ls - Lw) * (-(1:ℝ) / 2)) *
      (-(2 * Real.exp Lν * Real.exp Ls) / Real.exp Lw ^ 2) =
      -(2 * Real.exp ((Lν - Lw) * (n / 2 - 1) + (2 * Ls - Lw) * (-(1:ℝ) / 2) + Lν + Ls - 2 * Lw)) := by
    rw [Real.exp_sub, Real.exp_add, Real.exp_add, Real.exp_add, two_mul Lw, Real.exp_add]
    field_simp
  rw [this]
  have h2 : -(2 / Real.exp (Lν / 2)) * Real.exp ((Lw - Lν) * (-(n + 1) / 2)) =
      -(2 * Real.exp ((Lw - Lν) * (-(n + 1) / 2) - Lν / 2)) := by
    rw [Real.exp_sub]; field_simp
  rw [h2]
  congr 3
  ring

/-- the algebra of the substitution: `g(φ(s)) φ'(s) = −(2/√ν) (1+s²/ν)^(−(ν+1)/2)` for `s > 0` -/
lemma tSubst_algebra {ν s : ℝ} (hν : 0 < ν) (hs : 0 < s) :
    (tPhi ν s) ^ (ν / 2 - 1) * (1 - tPhi ν s) ^ (-(1 : ℝ) / 2) * tPhi' ν s =
      -(2 / Real.sqrt ν) * (1 + s ^ 2 / ν) ^ (-(ν + 1) / 2) := by
  have hw : 0 < ν + s ^ 2 := by positivity
  have e1 : tPhi ν s = ν / (ν + s ^ 2) := rfl
  have e2 : 1 - tPhi ν s = s ^ 2 / (ν + s ^ 2) := by unfold tPhi; field_simp; ring
  have e3 : 1 + s ^ 2 / ν = (ν + s ^ 2) / ν := by field_simp
  rw [e2, e1, e3, Real.rpow_def_of_pos (div_pos hν hw), Real.rpow_def_of_pos (div_pos (by positivity) hw),
    Real.rpow_def_of_pos (div_pos hw hν), Real.log_div hν.ne' hw.ne', Real.log_div (by positivity) hw.ne',
    Real.log_div hw.ne' hν.ne', Real.log_pow, Real.sqrt_eq_rpow, Real.rpow_def_of_pos hν]
  have := tSubst_exp_algebra (Real.log ν) (Real.log s) (Real.log (ν + s ^ 2)) ν
  rw [Real.exp_log hν, Real.exp_log hs, Real.exp_log hw] at this
  unfold tPhi'
  rw [show Real.log ν * (1 / 2) = Real.log ν / 2 by ring]
  push_cast
  exact this


/-- the integrand of the beta integral at `(ν/2, 1/2)` -/
noncomputable def tG (ν u : ℝ) : ℝ := u ^ (ν / 2 - 1) * (1 - u) ^ (-(1 : ℝ) / 2)

lemma tPhi_pos {ν : ℝ} (hν : 0 < ν) (s : ℝ) : 0 < tPhi ν s := by unfold tPhi; positivity

lemma tPhi_le_one {ν : ℝ} (hν : 0 < ν) (s : ℝ) : tPhi ν s ≤ 1 := by
  unfold tPhi
  rw [div_le_one (by positivity)]
  nlinarith [sq_nonneg s]

lemma tPhi_lt_one {ν : ℝ} (hν : 0 < ν) {s : ℝ} (hs : s ≠ 0) : tPhi ν s < 1 := by
  unfold tPhi
  rw [div_lt_one (by positivity)]
  have : 0 < s ^ 2 := by positivity
  linarith

lemma tPhi_zero {ν : ℝ} (hν : 0 < ν) : tPhi ν 0 = 1 := by
  unfold tPhi; simp [hν.ne']

lemma tG_integrableOn {ν : ℝ} (hν : 0 < ν) : IntegrableOn (tG ν) (Icc 0 1) := by
  have h := betaIntegrand_intervalIntegrable_full (a := ν / 2) (b := 1 / 2) (by positivity)
    (by norm_num)
  rw [intervalIntegrable_iff_integrableOn_Icc_of_le zero_le_one] at h
  have e : tG ν = fun t : ℝ => t ^ (ν / 2 - 1) * (1 - t) ^ ((1 / 2 : ℝ) - 1) := by
    funext u; unfold tG; norm_num
  rw [e]; exact h

lemma tG_continuousOn (ν : ℝ) : ContinuousOn (tG ν) (Ioo 0 1) := by
  intro u hu
  have h1 : ContinuousAt (fun u : ℝ => u ^ (ν / 2 - 1)) u :=
    continuousAt_id.rpow_const (Or.inl hu.1.ne')
  have h2 : ContinuousAt (fun u : ℝ => (1 - u) ^ (-(1 : ℝ) / 2)) u :=
    (show ContinuousAt (fun u : ℝ => 1 - u) u by fun_prop).rpow_const
      (Or.inl (by linarith [hu.2] : 1 - u ≠ 0))
  exact (h1.mul h2).continuousWithinAt

lemma tKernel_continuous {ν : ℝ} (hν : 0 < ν) :
    Continuous fun s : ℝ => (1 + s ^ 2 / ν) ^ (-(ν + 1) / 2) := by
  refine Continuous.rpow_const (by fun_prop) fun s => Or.inl ?_
  positivity

/-- **The substitution `u = ν/(ν+s²)`.**  For real `ν > 0`, `t > 0`:
`∫₀ᵗ (1+s²/ν)^(−(ν+1)/2) ds = (√ν/2) ∫_{ν/(ν+t²)}^1 u^(ν/2−1) (1−u)^(−1/2) du`. -/
theorem tKernel_integral_eq_beta {ν t : ℝ} (hν : 0 < ν) (ht : 0 < t) :
    ∫ s in (0 : ℝ)..t, (1 + s ^ 2 / ν) ^ (-(ν + 1) / 2) =
      Real.sqrt ν / 2 *
        ∫ u in (ν / (ν + t ^ 2))..1, u ^ (ν / 2 - 1) * (1 - u) ^ (-(1 : ℝ) / 2) := by
  have hmin : min 0 t = 0 := min_eq_left ht.le
  have hmax : max 0 t = t := max_eq_right ht.le
  have hf : ContinuousOn (tPhi ν) (uIcc 0 t) := fun s _ =>
    (tPhi_hasDerivAt hν s).continuousAt.continuousWithinAt
  have hff' : ∀ s ∈ Ioo (min 0 t) (max 0 t), HasDerivWithinAt (tPhi ν) (tPhi' ν s) (Ioi s) s :=
    fun s _ => (tPhi_hasDerivAt hν s).hasDerivWithinAt
  have hgc : ContinuousOn (tG ν) (tPhi ν '' Ioo (min 0 t) (max 0 t)) := by
    refine (tG_continuousOn ν).mono ?_
    rintro _ ⟨s, hs, rfl⟩
    rw [hmin] at hs
    exact ⟨tPhi_pos hν s, tPhi_lt_one hν hs.1.ne'⟩
  have hg1 : IntegrableOn (tG ν) (tPhi ν '' uIcc 0 t) := by
    refine (tG_integrableOn hν).mono_set ?_
    rintro _ ⟨s, _, rfl⟩
    exact ⟨(tPhi_pos hν s).le, tPhi_le_one hν s⟩
  have hc : Continuous fun s : ℝ => -(2 / Real.sqrt ν) * (1 + s ^ 2 / ν) ^ (-(ν + 1) / 2) :=
    continuous_const.mul (tKernel_continuous hν)
  have hg2 : IntegrableOn (fun s => (tG ν ∘ tPhi ν) s * tPhi' ν s) (uIcc 0 t) := by
    rw [uIcc_of_le ht.le, integrableOn_Icc_iff_integrableOn_Ioc]
    refine ((hc.integrableOn_Icc (a := 0) (b := t)).mono_set Ioc_subset_Icc_self).congr_fun
      (fun s hs => ?_) measurableSet_Ioc
    exact (tSubst_algebra hν hs.1).symm
  have key := integral_comp_mul_deriv''' hf hff' hgc hg1 hg2
  have lhs : ∫ s in (0 : ℝ)..t, (tG ν ∘ tPhi ν) s * tPhi' ν s =
      ∫ s in (0 : ℝ)..t, -(2 / Real.sqrt ν) * (1 + s ^ 2 / ν) ^ (-(ν + 1) / 2) := by
    refine integral_congr_ae (Filter.Eventually.of_forall fun s hs => ?_)
    rw [uIoc_of_le ht.le] at hs
    exact tSubst_algebra hν hs.1
  rw [lhs, intervalIntegral.integral_const_mul, tPhi_zero hν, integral_symm (tPhi ν t) 1] at key
  have hsq : 0 < Real.sqrt ν := Real.sqrt_pos.mpr hν
  have key' : ∫ u in (ν / (ν + t ^ 2))..1, u ^ (ν / 2 - 1) * (1 - u) ^ (-(1 : ℝ) / 2) =
      2 / Real.sqrt ν * ∫ s in (0 : ℝ)..t, (1 + s ^ 2 / ν) ^ (-(ν + 1) / 2) := by
    have : (∫ u in (tPhi ν t)..1, tG ν u) =
        ∫ u in (ν / (ν + t ^ 2))..1, u ^ (ν / 2 - 1) * (1 - u) ^ (-(1 : ℝ) / 2) := rfl
    rw [← this]; linarith
  rw [key']
  field_simp


/-- the Student-t density `f_ν(s) = Γ((ν+1)/2)/(√(νπ) Γ(ν/2)) · (1 + s²/ν)^(−(ν+1)/2)` -/
noncomputable def tDensity (ν s : ℝ) : ℝ :=
  Real.Gamma ((ν + 1) / 2) / (Real.sqrt (ν * Real.pi) * Real.Gamma (ν / 2)) *
    (1 + s ^ 2 / ν) ^ (-(ν + 1) / 2)

/-- `∫_x^1 u^(ν/2−1)(1−u)^(−1/2) du = B_1(ν/2,1/2) − B_x(ν/2,1/2)` for `0 ≤ x ≤ 1` -/
lemma tBeta_tail {ν x : ℝ} (hν : 0 < ν) (hx0 : 0 ≤ x) (hx1 : x ≤ 1) :
    ∫ u in x..1, u ^ (ν / 2 - 1) * (1 - u) ^ (-(1 : ℝ) / 2) =
      incBeta (ν / 2) (1 / 2) 1 - incBeta (ν / 2) (1 / 2) x := by
  unfold incBeta
  rw [show (1 / 2 : ℝ) - 1 = -(1 : ℝ) / 2 by norm_num]
  have h : ∀ {u v : ℝ}, 0 ≤ u → u ≤ 1 → 0 ≤ v → v ≤ 1 →
      IntervalIntegrable (fun t : ℝ => t ^ (ν / 2 - 1) * (1 - t) ^ (-(1 : ℝ) / 2)) volume u v := by
    intro u v hu0 hu1 hv0 hv1
    have := betaIntegrand_intervalIntegrable_sub (a := ν / 2) (b := 1 / 2) (by positivity)
      (by norm_num) hu0 hu1 hv0 hv1
    rwa [show (1 / 2 : ℝ) - 1 = -(1 : ℝ) / 2 by norm_num] at this
  exact (integral_interval_sub_left (h le_rfl zero_le_one zero_le_one le_rfl)
    (h le_rfl zero_le_one hx0 hx1)).symm

/-- `∫₀ᵗ f_ν = ½ (1 − I_x(ν/2,1/2))`, `x = ν/(ν+t²)`, for `t > 0` -/
lemma tDensity_integral {ν t : ℝ} (hν : 0 < ν) (ht : 0 < t) :
    ∫ s in (0 : ℝ)..t, tDensity ν s =
      1 / 2 * (1 - incBeta (ν / 2) (1 / 2) (ν / (ν + t ^ 2)) / incBeta (ν / 2) (1 / 2) 1) := by
  have hx0 : 0 ≤ ν / (ν + t ^ 2) := (tPhi_pos hν t).le
  have hx1 : ν / (ν + t ^ 2) ≤ 1 := tPhi_le_one hν t
  unfold tDensity
  rw [intervalIntegral.integral_const_mul, tKernel_integral_eq_beta hν ht, tBeta_tail hν hx0 hx1]
  have hB := incBeta_one_eq_Gamma (a := ν / 2) (b := 1 / 2) (by positivity) (by norm_num)
  rw [Real.Gamma_one_half_eq, show ν / 2 + 1 / 2 = (ν + 1) / 2 by ring] at hB
  rw [hB, Real.sqrt_mul hν.le]
  have h1 : 0 < Real.Gamma ((ν + 1) / 2) := Real.Gamma_pos_of_pos (by positivity)
  have h2 : 0 < Real.Gamma (ν / 2) := Real.Gamma_pos_of_pos (by positivity)
  have h3 : 0 < Real.sqrt ν := Real.sqrt_pos.mpr hν
  have h4 : 0 < Real.sqrt Real.pi := Real.sqrt_pos.mpr Real.pi_pos
  field_simp

/-- **The Student-t CDF in beta-function form.**  For real `ν > 0` and `t > 0`, with the density
`f_ν(s) = Γ((ν+1)/2)/(√(νπ) Γ(ν/2)) · (1 + s²/ν)^(−(ν+1)/2)`:
`1/2 + ∫₀ᵗ f_ν(s) ds = 1 − ½ I_x(ν/2,1/2) = tCDFviaBeta ν t`, `x = ν/(ν+t²)`. -/
theorem studentT_cdf_eq_beta {ν t : ℝ} (hν : 0 < ν) (ht : 0 < t) :
    1 / 2 + ∫ s in (0 : ℝ)..t,
        Real.Gamma ((ν + 1) / 2) / (Real.sqrt (ν * Real.pi) * Real.Gamma (ν / 2)) *
          (1 + s ^ 2 / ν) ^ (-(ν + 1) / 2) =
      tCDFviaBeta ν t := by
  have h := tDensity_integral hν ht
  unfold tDensity at h
  rw [h]
  unfold tCDFviaBeta
  rw [if_neg ht.ne', if_pos ht]
  ring

lemma tDensity_even (ν s : ℝ) : tDensity ν (-s) = tDensity ν s := by
  unfold tDensity; rw [neg_sq]

/-- **All `t`.**  For real `ν > 0` and every real `t`: `1/2 + ∫₀ᵗ f_ν = tCDFviaBeta ν t`
(for `t < 0` the interval integral is `−∫_t^0`, and `f_ν` is even). -/
theorem studentT_cdf_eq_beta_all {ν : ℝ} (hν : 0 < ν) (t : ℝ) :
    1 / 2 + ∫ s in (0 : ℝ)..t, tDensity ν s = tCDFviaBeta ν t := by
  rcases lt_trichotomy t 0 with ht | rfl | ht
  · have h := tDensity_integral hν (neg_pos.mpr ht)
    have e : ∫ s in (0 : ℝ)..t, tDensity ν s = -∫ s in (0 : ℝ)..(-t), tDensity ν s := by
      have := intervalIntegral.integral_comp_neg (a := 0) (b := -t) (fun s => tDensity ν s)
      simp only [tDensity_even, neg_neg, neg_zero] at this
      rw [this, integral_symm]
    rw [e, h, neg_sq]
    unfold tCDFviaBeta
    rw [if_neg ht.ne, if_neg (not_lt.mpr ht.le)]
    ring
  · simp [tCDFviaBeta]
  · have h := tDensity_integral hν ht
    rw [h]
    unfold tCDFviaBeta
    rw [if_neg ht.ne', if_pos ht]
    ring

/-- non-vacuity (Cauchy, `ν = 1`, `t = 1`): `tCDFviaBeta 1 1 = 1/2 + arctan(1)/π = 3/4` -/
lemma tCDFviaBeta_one_one : tCDFviaBeta 1 1 = 3 / 4 := by
  rw [← studentT_cdf_eq_beta one_pos one_pos]
  have e : ∀ s : ℝ, Real.Gamma ((1 + 1) / 2) / (Real.sqrt (1 * Real.pi) * Real.Gamma (1 / 2)) *
      (1 + s ^ 2 / 1) ^ (-((1 : ℝ) + 1) / 2) = Real.pi⁻¹ * (1 + s ^ 2)⁻¹ := by
    intro s
    rw [show ((1 : ℝ) + 1) / 2 = 1 by norm_num, show -((1 : ℝ) + 1) / 2 = -1 by norm_num,
      Real.Gamma_one, Real.Gamma_one_half_eq, one_mul, Real.rpow_neg_one, div_one,
      Real.mul_self_sqrt Real.pi_pos.le, one_div]
  simp only [e]
  rw [intervalIntegral.integral_const_mul, integral_inv_one_add_sq, Real.arctan_one,
    Real.arctan_zero]
  have := Real.pi_pos
  field_simp
  ring


/-! ## the actual CDF: `∫_{−∞}^t f_ν` -/

lemma tDensity_nonneg {ν : ℝ} (hν : 0 < ν) (s : ℝ) : 0 ≤ tDensity ν s := by
  unfold tDensity
  have h1 : 0 < Real.Gamma ((ν + 1) / 2) := Real.Gamma_pos_of_pos (by positivity)
  have h2 : 0 < Real.Gamma (ν / 2) := Real.Gamma_pos_of_pos (by positivity)
  have h3 : (0 : ℝ) ≤ 1 + s ^ 2 / ν := by positivity
  have := Real.rpow_nonneg h3 (-(ν + 1) / 2)
  positivity

lemma tDensity_continuous {ν : ℝ} (hν : 0 < ν) : Continuous (tDensity ν) :=
  continuous_const.mul (tKernel_continuous hν)

lemma tPhi_tendsto_atBot (ν : ℝ) : Filter.Tendsto (tPhi ν) Filter.atBot (nhds 0) := by
  have h1 : Filter.Tendsto (fun t : ℝ => t ^ 2) Filter.atBot Filter.atTop := by
    have := (Filter.tendsto_pow_atTop (α := ℝ) two_ne_zero).comp Filter.tendsto_neg_atBot_atTop
    refine this.congr fun t => ?_
    simp
  exact tendsto_const_nhds.div_atTop (Filter.tendsto_atTop_add_const_left _ ν h1)

/-- `tCDFviaBeta ν t → 0` as `t → −∞` -/
lemma tCDFviaBeta_tendsto_atBot {ν : ℝ} (hν : 0 < ν) :
    Filter.Tendsto (tCDFviaBeta ν) Filter.atBot (nhds 0) := by
  have hint : IntegrableOn (fun t : ℝ => t ^ (ν / 2 - 1) * (1 - t) ^ ((1 / 2 : ℝ) - 1))
      (uIcc 0 1) := by
    rw [uIcc_of_le zero_le_one, ← intervalIntegrable_iff_integrableOn_Icc_of_le zero_le_one]
    exact betaIntegrand_intervalIntegrable_full (by positivity) (by norm_num)
  have hc := intervalIntegral.continuousOn_primitive_interval hint
  have hc0 : ContinuousWithinAt (incBeta (ν / 2) (1 / 2)) (uIcc 0 1) 0 := hc 0 left_mem_uIcc
  have hφ : Filter.Tendsto (tPhi ν) Filter.atBot (nhdsWithin 0 (uIcc 0 1)) := by
    rw [tendsto_nhdsWithin_iff]
    refine ⟨tPhi_tendsto_atBot ν, Filter.Eventually.of_forall fun t => ?_⟩
    rw [uIcc_of_le zero_le_one]
    exact ⟨(tPhi_pos hν t).le, tPhi_le_one hν t⟩
  have h1 := hc0.tendsto.comp hφ
  rw [incBeta_zero] at h1
  have h2 := (h1.div_const (incBeta (ν / 2) (1 / 2) 1)).const_mul (1 / 2)
  rw [zero_div, mul_zero] at h2
  refine h2.congr' ?_
  filter_upwards [Filter.eventually_lt_atBot 0] with t ht
  unfold tCDFviaBeta
  rw [if_neg ht.ne, if_neg (not_lt.mpr ht.le)]
  rfl

/-- **The Student-t CDF.**  For real `ν > 0` and every real `t`, the density
`f_ν(s) = Γ((ν+1)/2)/(√(νπ) Γ(ν/2)) · (1 + s²/ν)^(−(ν+1)/2)` is integrable on `(−∞, t]` and
`∫_{−∞}^t f_ν(s) ds = tCDFviaBeta ν t` — the quantity enclosed by the model `tCDFgen`. -/
theorem studentT_cdf {ν : ℝ} (hν : 0 < ν) (t : ℝ) :
    IntegrableOn (tDensity ν) (Iic t) ∧ ∫ s in Iic t, tDensity ν s = tCDFviaBeta ν t := by
  have hcont := tDensity_continuous hν
  have hval : ∀ i : ℝ, ∫ x in i..0, tDensity ν x = 1 / 2 - tCDFviaBeta ν i := by
    intro i
    have := studentT_cdf_eq_beta_all hν i
    rw [integral_symm]
    linarith
  have hint0 : IntegrableOn (tDensity ν) (Iic 0) := by
    refine integrableOn_Iic_of_intervalIntegral_norm_bounded (a := id) (l := Filter.atBot) (1 / 2) 0
      (fun i => (hcont.integrableOn_Icc (a := i) (b := 0)).mono_set Ioc_subset_Icc_self)
      Filter.tendsto_id ?_
    filter_upwards [Filter.eventually_lt_atBot 0] with i hi
    simp only [id, Real.norm_of_nonneg (tDensity_nonneg hν _)]
    rw [hval]
    have : 0 ≤ tCDFviaBeta ν i := by
      unfold tCDFviaBeta
      rw [if_neg hi.ne, if_neg (not_lt.mpr hi.le)]
      have h1 := incBeta_nonneg (ν / 2) (1 / 2) (tPhi_pos hν i).le (tPhi_le_one hν i)
      have h2 := incBeta_one_pos (a := ν / 2) (b := 1 / 2) (by positivity) (by norm_num)
      unfold tPhi at h1
      positivity
    linarith
  have hlim := intervalIntegral_tendsto_integral_Iic (a := id) 0 hint0 Filter.tendsto_id
  simp only [id] at hlim
  have hlim2 : Filter.Tendsto (fun i => ∫ x in i..0, tDensity ν x) Filter.atBot
      (nhds (1 / 2 - 0)) := by
    simp only [hval]
    exact tendsto_const_nhds.sub (tCDFviaBeta_tendsto_atBot hν)
  have h0 : ∫ s in Iic (0 : ℝ), tDensity ν s = 1 / 2 := by
    rw [tendsto_nhds_unique hlim hlim2]; norm_num
  have hintt : IntegrableOn (tDensity ν) (Iic t) := by
    refine (hint0.union (hcont.integrableOn_Icc (a := 0) (b := t))).mono_set ?_
    intro x hx
    rcases le_total x 0 with h | h
    · exact Or.inl h
    · exact Or.inr ⟨h, hx⟩
  refine ⟨hintt, ?_⟩
  have := intervalIntegral.integral_Iic_sub_Iic hint0 hintt
  have h2 := studentT_cdf_eq_beta_all hν t
  linarith


lemma tPhi_tendsto_atTop (ν : ℝ) : Filter.Tendsto (tPhi ν) Filter.atTop (nhds 0) :=
  tendsto_const_nhds.div_atTop (Filter.tendsto_atTop_add_const_left _ ν
    (Filter.tendsto_pow_atTop (α := ℝ) two_ne_zero))

/-- `tCDFviaBeta ν t → 1` as `t → +∞` -/
lemma tCDFviaBeta_tendsto_atTop {ν : ℝ} (hν : 0 < ν) :
    Filter.Tendsto (tCDFviaBeta ν) Filter.atTop (nhds 1) := by
  have hint : IntegrableOn (fun t : ℝ => t ^ (ν / 2 - 1) * (1 - t) ^ ((1 / 2 : ℝ) - 1))
      (uIcc 0 1) := by
    rw [uIcc_of_le zero_le_one, ← intervalIntegrable_iff_integrableOn_Icc_of_le zero_le_one]
    exact betaIntegrand_intervalIntegrable_full (by positivity) (by norm_num)
  have hc := intervalIntegral.continuousOn_primitive_interval hint
  have hc0 : ContinuousWithinAt (incBeta (ν / 2) (1 / 2)) (uIcc 0 1) 0 := hc 0 left_mem_uIcc
  have hφ : Filter.Tendsto (tPhi ν) Filter.atTop (nhdsWithin 0 (uIcc 0 1)) := by
    rw [tendsto_nhdsWithin_iff]
    refine ⟨tPhi_tendsto_atTop ν, Filter.Eventually.of_forall fun t => ?_⟩
    rw [uIcc_of_le zero_le_one]
    exact ⟨(tPhi_pos hν t).le, tPhi_le_one hν t⟩
  have h1 := hc0.tendsto.comp hφ
  rw [incBeta_zero] at h1
  have h2 := ((h1.div_const (incBeta (ν / 2) (1 / 2) 1)).const_mul (1 / 2)).const_sub 1
  rw [zero_div, mul_zero, sub_zero] at h2
  refine h2.congr' ?_
  filter_upwards [Filter.eventually_gt_atTop 0] with t ht
  unfold tCDFviaBeta
  rw [if_neg ht.ne', if_pos ht]
  rfl

/-- **`f_ν` is a probability density.**  For real `ν > 0` the Student-t density is non-negative,
integrable on `ℝ`, and `∫_ℝ f_ν = 1` (so the normalising constant `Γ((ν+1)/2)/(√(νπ) Γ(ν/2))` is
the right one). -/
theorem tDensity_integral_eq_one {ν : ℝ} (hν : 0 < ν) :
    (∀ s, 0 ≤ tDensity ν s) ∧ Integrable (tDensity ν) ∧ ∫ s, tDensity ν s = 1 := by
  have hcont := tDensity_continuous hν
  obtain ⟨hint0, h0⟩ := studentT_cdf hν 0
  have hval : ∀ i : ℝ, ∫ x in (0 : ℝ)..i, tDensity ν x = tCDFviaBeta ν i - 1 / 2 := by
    intro i
    have := studentT_cdf_eq_beta_all hν i
    linarith
  have hintI : IntegrableOn (tDensity ν) (Ioi 0) := by
    refine integrableOn_Ioi_of_intervalIntegral_norm_bounded (b := id) (l := Filter.atTop) (1 / 2) 0
      (fun i => (hcont.integrableOn_Icc (a := 0) (b := i)).mono_set Ioc_subset_Icc_self)
      Filter.tendsto_id ?_
    filter_upwards [Filter.eventually_gt_atTop 0] with i hi
    simp only [id, Real.norm_of_nonneg (tDensity_nonneg hν _)]
    rw [hval]
    have : tCDFviaBeta ν i ≤ 1 := by
      unfold tCDFviaBeta
      rw [if_neg hi.ne', if_pos hi]
      have h1 := incBeta_nonneg (ν / 2) (1 / 2) (tPhi_pos hν i).le (tPhi_le_one hν i)
      have h2 := incBeta_one_pos (a := ν / 2) (b := 1 / 2) (by positivity) (by norm_num)
      unfold tPhi at h1
      have : 0 ≤ 1 / 2 * (incBeta (ν / 2) (1 / 2) (ν / (ν + i ^ 2)) / incBeta (ν / 2) (1 / 2) 1) := by
        positivity
      linarith
    linarith
  have hlim := intervalIntegral_tendsto_integral_Ioi (b := id) 0 hintI Filter.tendsto_id
  simp only [id] at hlim
  have hlim2 : Filter.Tendsto (fun i => ∫ x in (0 : ℝ)..i, tDensity ν x) Filter.atTop
      (nhds (1 - 1 / 2)) := by
    simp only [hval]
    exact (tCDFviaBeta_tendsto_atTop hν).sub tendsto_const_nhds
  have hI : ∫ s in Ioi (0 : ℝ), tDensity ν s = 1 / 2 := by
    rw [tendsto_nhds_unique hlim hlim2]; norm_num
  have hall : Integrable (tDensity ν) := by
    have := hint0.union hintI
    rwa [Iic_union_Ioi, integrableOn_univ] at this
  refine ⟨tDensity_nonneg hν, hall, ?_⟩
  have := setIntegral_union (Iic_disjoint_Ioi le_rfl) measurableSet_Ioi hint0 hintI
  rw [Iic_union_Ioi, Measure.restrict_univ, h0, hI] at this
  rw [this, tCDFviaBeta]
  norm_num


/-! ## non-vacuity of the analytic results, and the model against the true CDF -/

/-- `tKernel_integral_eq_beta` at `ν = 3`, `t = 2` (`x = 3/7`) -/
example : ∫ s in (0 : ℝ)..2, (1 + s ^ 2 / 3) ^ (-((3 : ℝ) + 1) / 2) =
    Real.sqrt 3 / 2 *
      ∫ u in ((3 : ℝ) / (3 + 2 ^ 2))..1, u ^ ((3 : ℝ) / 2 - 1) * (1 - u) ^ (-(1 : ℝ) / 2) :=
  tKernel_integral_eq_beta (by norm_num) (by norm_num)

/-- `studentT_cdf_eq_beta` at `ν = 1`, `t = 1` is the Cauchy CDF: `1/2 + arctan(1)/π = 3/4` -/
example : tCDFviaBeta 1 1 = 3 / 4 := tCDFviaBeta_one_one

/-- `studentT_cdf_eq_beta_all` on the negative side, `ν = 1`, `t = −1`: `½ I_{1/2}(1/2,1/2) = 1/4` -/
lemma tCDFviaBeta_one_neg_one : tCDFviaBeta 1 (-1) = 1 / 4 := by
  have h := tCDFviaBeta_one_one
  unfold tCDFviaBeta at h ⊢
  rw [if_neg (by norm_num), if_pos (by norm_num)] at h
  rw [if_neg (by norm_num), if_neg (by norm_num), neg_sq]
  linarith

example : 1 / 2 + ∫ s in (0 : ℝ)..(-1), tDensity 1 s = 1 / 4 := by
  rw [studentT_cdf_eq_beta_all one_pos, tCDFviaBeta_one_neg_one]

/-- `studentT_cdf` at `ν = 1`: `∫_{−∞}^1 f_1 = 3/4`, `∫_{−∞}^{−1} f_1 = 1/4`, `∫_{−∞}^0 f_ν = 1/2` -/
example : ∫ s in Iic (1 : ℝ), tDensity 1 s = 3 / 4 := by
  rw [(studentT_cdf one_pos 1).2, tCDFviaBeta_one_one]

example : ∫ s in Iic (-1 : ℝ), tDensity 1 s = 1 / 4 := by
  rw [(studentT_cdf one_pos (-1)).2, tCDFviaBeta_one_neg_one]

example (ν : ℝ) (hν : 0 < ν) : ∫ s in Iic (0 : ℝ), tDensity ν s = 1 / 2 := by
  rw [(studentT_cdf hν 0).2]; simp [tCDFviaBeta]

/-- `tDensity_integral_eq_one` at `ν = 5/2` -/
example : ∫ s, tDensity (5 / 2) s = 1 := (tDensity_integral_eq_one (by norm_num)).2.2

/-- **`tCDFgen` encloses the Student-t CDF.**  For rational `ν > 0` such that the series enclosures
of `log Γ` exist at `ν/2`, `1/2`, `ν/2 + 1/2` (no Stirling fallback) and any rational `t`: any
interval returned by `tCDFgen ν t` contains `∫_{−∞}^t f_ν(s) ds`, with
`f_ν(s) = Γ((ν+1)/2)/(√(νπ) Γ(ν/2)) · (1 + s²/ν)^(−(ν+1)/2)` the Student-t density. -/
theorem tCDFgen_encloses_cdf (ν t : ℚ) (hν : 0 < ν)
    (hs1 : (lgammaS (ν / 2)).isSome) (hs2 : (lgammaS (1 / 2)).isSome)
    (hs3 : (lgammaS (ν / 2 + 1 / 2)).isSome) (r : I) (h : tCDFgen ν t = some r) :
    Mem (∫ s in Iic (t : ℝ), tDensity (ν : ℝ) s) r := by
  have hνR : (0 : ℝ) < (ν : ℝ) := by exact_mod_cast hν
  rw [(studentT_cdf hνR (t : ℝ)).2]
  exact tCDFgen_encloses_beta ν t hν hs1 hs2 hs3 r h

/-- non-vacuity: `ν = 5/2`, `t = 1` -/
example : ∃ r, tCDFgen (5 / 2) 1 = some r ∧
    Mem (∫ s in Iic (((1 : ℚ)) : ℝ), tDensity (((5 / 2 : ℚ)) : ℝ) s) r := by
  have hs : (tCDFgen (5 / 2) 1).isSome = true := by decide +kernel
  obtain ⟨r, hr⟩ := Option.isSome_iff_exists.mp hs
  exact ⟨r, hr, tCDFgen_encloses_cdf _ _ (by norm_num) (by decide +kernel) (by decide +kernel)
    (by decide +kernel) r hr⟩

/-- end-to-end check at the Cauchy point `ν = 1`, `t = 1`: the model returns an interval inside
`[0.749999999, 0.750000001]` (kernel evaluation), and that interval contains the true CDF value
`3/4` (the theorems above) -/
example : ∃ r, tCDFgen 1 1 = some r ∧ Mem (3 / 4 : ℝ) r ∧
    (749999999 / 1000000000 : ℚ) ≤ r.lo ∧ r.hi ≤ (750000001 / 1000000000 : ℚ) := by
  have h : ((tCDFgen 1 1).any (fun e => decide ((749999999 / 1000000000 : ℚ) ≤ e.lo) &&
      decide (e.hi ≤ (750000001 / 1000000000 : ℚ)))) = true := by decide +kernel
  rw [Option.any_eq_true] at h
  obtain ⟨e, he, hb⟩ := h
  rw [Bool.and_eq_true, decide_eq_true_eq, decide_eq_true_eq] at hb
  have hm := tCDFgen_encloses_beta 1 1 (by norm_num) (by decide +kernel) (by decide +kernel)
    (by decide +kernel) e he
  rw [Rat.cast_one, tCDFviaBeta_one_one] at hm
  exact ⟨e, he, hm, hb.1, hb.2⟩

end MV.Special
