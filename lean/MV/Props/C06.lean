import Mathlib.Tactic
import MV.Model.Discrete
/-!
# C06 — binomial and hypergeometric distributions (exact rational models)
-/
namespace MV.Discrete
open MV.UDist (chooseFast)
open Finset

/-! ## B0: fast helpers agree with Mathlib -/

lemma foldl_choose (n j : Nat) (hj : j ≤ n) :
    (List.range j).foldl (fun acc i => acc * (n - i) / (i + 1)) 1 = Nat.choose n j := by
  induction j with
  | zero => simp
  | succ j ih =>
    rw [List.range_succ, List.foldl_append, ih (by omega)]
    simp only [List.foldl_cons, List.foldl_nil]
    rw [← Nat.choose_succ_right_eq]
    exact Nat.mul_div_cancel _ (Nat.succ_pos j)

/-- The multiplicative "fast" binomial coefficient used by the executable models equals
Mathlib's `Nat.choose` for all arguments. -/
theorem chooseFast_eq_choose (n k : Nat) : MV.UDist.chooseFast n k = Nat.choose n k := by
  unfold MV.UDist.chooseFast
  split_ifs with h1 h2
  · exact (Nat.choose_eq_zero_of_lt h1).symm
  · simp only []
    rw [foldl_choose n (n - k) (by omega)]
    exact Nat.choose_symm (by omega)
  · exact foldl_choose n k (by omega)

example : MV.UDist.chooseFast 10 7 = 120 := by rw [chooseFast_eq_choose]; decide

/-- Square-and-multiply exponentiation equals the ordinary power `q ^ n`. -/
theorem rpowFast_eq (q : Rat) (n : Nat) : rpowFast q n = q ^ n := by
  induction n using Nat.strong_induction_on with
  | _ n ih =>
    cases n with
    | zero => rw [rpowFast]; simp
    | succ n =>
      rw [rpowFast]
      rw [ih ((n + 1) / 2) (by omega)]
      split_ifs with h
      · rw [← pow_add]; congr 1
        have : (n + 1) % 2 = 0 := by simpa using h
        omega
      · rw [← pow_add, ← pow_succ]; congr 1
        have : ¬ (n + 1) % 2 = 0 := by simpa using h
        omega

example : rpowFast (2/3) 5 = 32/243 := by rw [rpowFast_eq]; norm_num

/-! ## B1: binomial PMF -/

lemma binomPMF_natCast (n : Nat) (p : ℚ) (k : Nat) :
    binomPMF n p (k : Int) = (Nat.choose n k : ℚ) * p ^ k * (1 - p) ^ (n - k) := by
  unfold binomPMF
  split_ifs with h
  · have : n < k := by omega
    rw [Nat.choose_eq_zero_of_lt this]; simp
  · simp only [Int.toNat_natCast, chooseFast_eq_choose, rpowFast_eq]

/-- Inside the support `0 ≤ k ≤ n` the model PMF is the textbook formula
`C(n,k) p^k (1-p)^(n-k)`. -/
theorem binomPMF_eq (n : Nat) (p : ℚ) (k : Nat) (_hk : k ≤ n) :
    binomPMF n p (k : Int) = (Nat.choose n k : ℚ) * p ^ k * (1 - p) ^ (n - k) :=
  binomPMF_natCast n p k

example : binomPMF 4 (1/3) (2 : Nat) = 8/27 := by
  rw [binomPMF_eq 4 (1/3) 2 (by decide)]; norm_num [Nat.choose]

/-- Outside the support (`k < 0` or `k > n`) the model PMF is zero. -/
theorem binomPMF_eq_zero (n : Nat) (p : ℚ) (k : Int) (hk : k < 0 ∨ k > n) :
    binomPMF n p k = 0 := by
  unfold binomPMF; rw [if_pos hk]

example : binomPMF 4 (1/3) 5 = 0 := binomPMF_eq_zero 4 (1/3) 5 (by decide)
example : binomPMF 4 (1/3) (-1) = 0 := binomPMF_eq_zero 4 (1/3) (-1) (by decide)

/-- The binomial PMF sums to one over `0..n` for every rational `p` (binomial theorem). -/
theorem binomPMF_sum (n : Nat) (p : ℚ) :
    ∑ k ∈ range (n + 1), binomPMF n p (k : Int) = 1 := by
  have h := add_pow p (1 - p) n
  rw [show p + (1 - p) = 1 by ring, one_pow] at h
  rw [h]; apply sum_congr rfl; intro k _; rw [binomPMF_natCast]; ring

example : ∑ k ∈ range (5 + 1), binomPMF 5 (2/7) (k : Int) = 1 := binomPMF_sum 5 (2/7)

/-- For a probability `0 ≤ p ≤ 1` the binomial PMF is non-negative at every integer. -/
theorem binomPMF_nonneg (n : Nat) (p : ℚ) (h0 : 0 ≤ p) (h1 : p ≤ 1) (k : Int) :
    0 ≤ binomPMF n p k := by
  by_cases hk : k < 0 ∨ k > n
  · rw [binomPMF_eq_zero n p k hk]
  · obtain ⟨m, rfl⟩ := Int.eq_ofNat_of_zero_le (by omega : 0 ≤ k)
    rw [binomPMF_natCast]
    have := sub_nonneg.2 h1
    exact mul_nonneg (mul_nonneg (Nat.cast_nonneg _) (pow_nonneg h0 _)) (pow_nonneg this _)

example : 0 ≤ binomPMF 7 (3/5) 4 := binomPMF_nonneg 7 (3/5) (by norm_num) (by norm_num) 4

/-! ## B2: binomial CDF -/

lemma foldl_add_eq_sum (f : Nat → ℚ) (m : Nat) :
    ((List.range m).map f).foldl (· + ·) 0 = ∑ i ∈ range m, f i := by
  induction m with
  | zero => simp
  | succ m ih =>
    rw [List.range_succ, List.map_append, List.foldl_append, ih, sum_range_succ]
    simp

lemma binomPMF_sum_ge (n : Nat) (p : ℚ) (m : Nat) (hm : n + 1 ≤ m) :
    ∑ k ∈ range m, binomPMF n p (k : Int) = 1 := by
  rw [← binomPMF_sum n p]
  symm
  apply sum_subset (range_subset_range.2 hm)
  intro x _ hx
  apply binomPMF_eq_zero
  right
  have : ¬ x < n + 1 := by simpa using hx
  omega

/-- uniform description of the CDF at every integer -/
lemma binomCDF_eq_sum_all (n : Nat) (p : ℚ) (k : Int) :
    binomCDF n p k = ∑ i ∈ range (k + 1).toNat, binomPMF n p (i : Int) := by
  unfold binomCDF
  split_ifs with h1 h2
  · have : (k + 1).toNat = 0 := by omega
    rw [this]; simp
  · rw [binomPMF_sum_ge n p _ (by omega)]
  · rw [foldl_add_eq_sum (fun i => binomPMF n p (i : Int))]
    congr 2; omega

/-- For `0 ≤ k` the model CDF is the partial sum of the PMF over `0..k`.  (The model
short-circuits to `1` for `k ≥ n`; the partial-sum formula gives the same value there,
in particular at `k = n`.) -/
theorem binomCDF_eq_sum (n : Nat) (p : ℚ) (k : Int) (h0 : 0 ≤ k) :
    binomCDF n p k = ∑ i ∈ range (k.toNat + 1), binomPMF n p (i : Int) := by
  rw [binomCDF_eq_sum_all]; congr 2; omega

example : binomCDF 4 (1/3) 2 = ∑ i ∈ range 3, binomPMF 4 (1/3) (i : Int) :=
  binomCDF_eq_sum 4 (1/3) 2 (by decide)

/-- The CDF is `0` at negative arguments. -/
theorem binomCDF_of_neg (n : Nat) (p : ℚ) (k : Int) (hk : k < 0) : binomCDF n p k = 0 := by
  unfold binomCDF; rw [if_pos hk]

/-- The CDF is `1` at arguments `k ≥ n`. -/
theorem binomCDF_of_ge (n : Nat) (p : ℚ) (k : Int) (hk : k ≥ n) : binomCDF n p k = 1 := by
  rw [binomCDF_eq_sum_all, binomPMF_sum_ge n p _ (by omega)]

example : binomCDF 4 (1/3) (-3) = 0 := binomCDF_of_neg _ _ _ (by decide)
example : binomCDF 4 (1/3) 4 = 1 := binomCDF_of_ge _ _ _ (by decide)

/-- Consistency at the boundary `k = n`: the partial-sum formula also yields `1`. -/
theorem binomCDF_sum_at_n (n : Nat) (p : ℚ) :
    ∑ i ∈ range ((n : Int).toNat + 1), binomPMF n p (i : Int) = 1 := by
  rw [← binomCDF_eq_sum n p n (by omega), binomCDF_of_ge n p n (le_refl _)]

example : ∑ i ∈ range (((3 : Nat) : Int).toNat + 1), binomPMF 3 (1/2) (i : Int) = 1 :=
  binomCDF_sum_at_n 3 (1/2)

/-- For `0 ≤ k` the CDF jumps by exactly the PMF: `CDF(k) - CDF(k-1) = PMF(k)`
(for every rational `p`, also across the short-circuit boundary `k ≥ n`). -/
theorem binomCDF_step (n : Nat) (p : ℚ) (k : Int) (h0 : 0 ≤ k) :
    binomCDF n p k - binomCDF n p (k - 1) = binomPMF n p k := by
  rw [binomCDF_eq_sum_all, binomCDF_eq_sum_all]
  obtain ⟨m, rfl⟩ := Int.eq_ofNat_of_zero_le h0
  have e1 : ((m : Int) + 1).toNat = m + 1 := by omega
  have e2 : ((m : Int) - 1 + 1).toNat = m := by omega
  rw [e1, e2, sum_range_succ]; ring

example : binomCDF 5 (1/4) 5 - binomCDF 5 (1/4) 4 = binomPMF 5 (1/4) 5 :=
  binomCDF_step 5 (1/4) 5 (by decide)

/-- For a probability `0 ≤ p ≤ 1` the CDF is monotone in `k`. -/
theorem binomCDF_mono (n : Nat) (p : ℚ) (h0 : 0 ≤ p) (h1 : p ≤ 1) (j k : Int) (hjk : j ≤ k) :
    binomCDF n p j ≤ binomCDF n p k := by
  rw [binomCDF_eq_sum_all, binomCDF_eq_sum_all]
  apply sum_le_sum_of_subset_of_nonneg
  · apply range_subset_range.2; omega
  · intro i _ _; exact binomPMF_nonneg n p h0 h1 i

example : binomCDF 6 (2/3) 1 ≤ binomCDF 6 (2/3) 4 :=
  binomCDF_mono 6 (2/3) (by norm_num) (by norm_num) 1 4 (by decide)

/-- For a probability `0 ≤ p ≤ 1` the CDF takes values in `[0,1]`. -/
theorem binomCDF_mem_unit (n : Nat) (p : ℚ) (h0 : 0 ≤ p) (h1 : p ≤ 1) (k : Int) :
    0 ≤ binomCDF n p k ∧ binomCDF n p k ≤ 1 := by
  constructor
  · rw [binomCDF_eq_sum_all]; exact sum_nonneg (fun i _ => binomPMF_nonneg n p h0 h1 i)
  · rw [← binomCDF_of_ge n p (max k n) (le_max_right _ _)]
    exact binomCDF_mono n p h0 h1 _ _ (le_max_left _ _)

example : 0 ≤ binomCDF 6 (2/3) 3 ∧ binomCDF 6 (2/3) 3 ≤ 1 :=
  binomCDF_mem_unit 6 (2/3) (by norm_num) (by norm_num) 3

/-! ## B3: moments -/

lemma binom_absorb (n k : Nat) (p : ℚ) :
    ((k : ℚ) + 1) * binomPMF (n + 1) p ((k + 1 : Nat) : Int)
      = ((n : ℚ) + 1) * p * binomPMF n p (k : Int) := by
  rw [binomPMF_natCast, binomPMF_natCast, Nat.succ_sub_succ]
  have := Nat.add_one_mul_choose_eq n k
  have h : ((n : ℚ) + 1) * (n.choose k) = ((n + 1).choose (k + 1)) * ((k : ℚ) + 1) := by
    exact_mod_cast this
  rw [pow_succ]; linear_combination (-(p ^ k * p * (1 - p) ^ (n - k))) * h

/-- The mean of the binomial PMF is `n p` (for every rational `p`). -/
theorem binom_mean (n : Nat) (p : ℚ) :
    ∑ k ∈ range (n + 1), (k : ℚ) * binomPMF n p (k : Int) = binomMean n p := by
  unfold binomMean
  cases n with
  | zero => simp
  | succ n =>
    rw [sum_range_succ']
    have : ∀ k ∈ range (n + 1), ((k + 1 : Nat) : ℚ) * binomPMF (n + 1) p ((k + 1 : Nat) : Int)
        = ((n : ℚ) + 1) * p * binomPMF n p (k : Int) := by
      intro k _; rw [← binom_absorb]; push_cast; ring
    rw [sum_congr rfl this, ← mul_sum, binomPMF_sum]; push_cast; ring

example : ∑ k ∈ range (5 + 1), (k : ℚ) * binomPMF 5 (2/7) (k : Int) = 10/7 := by
  rw [binom_mean]; norm_num [binomMean]

lemma binom_fact2 (n : Nat) (p : ℚ) :
    ∑ k ∈ range (n + 1), (k : ℚ) * ((k : ℚ) - 1) * binomPMF n p (k : Int)
      = n * ((n : ℚ) - 1) * p ^ 2 := by
  cases n with
  | zero => simp
  | succ n =>
    rw [sum_range_succ']
    have : ∀ k ∈ range (n + 1), ((k + 1 : Nat) : ℚ) * (((k + 1 : Nat) : ℚ) - 1) *
          binomPMF (n + 1) p ((k + 1 : Nat) : Int)
        = (((n : ℚ) + 1) * p) * ((k : ℚ) * binomPMF n p (k : Int)) := by
      intro k _
      have := binom_absorb n k p
      push_cast at this ⊢
      linear_combination (k : ℚ) * this
    rw [sum_congr rfl this, ← mul_sum, binom_mean]; unfold binomMean; push_cast; ring

/-- The variance of the binomial PMF (second central moment about `n p`) is `n p (1-p)`
(for every rational `p`). -/
theorem binom_var (n : Nat) (p : ℚ) :
    ∑ k ∈ range (n + 1), ((k : ℚ) - n * p) ^ 2 * binomPMF n p (k : Int) = binomVar n p := by
  have : ∀ k ∈ range (n + 1), ((k : ℚ) - n * p) ^ 2 * binomPMF n p (k : Int)
      = (k : ℚ) * ((k : ℚ) - 1) * binomPMF n p (k : Int)
        + (1 - 2 * n * p) * ((k : ℚ) * binomPMF n p (k : Int))
        + (n * p) ^ 2 * binomPMF n p (k : Int) := by
    intro k _; ring
  rw [sum_congr rfl this, sum_add_distrib, sum_add_distrib, ← mul_sum, ← mul_sum,
    binom_fact2, binom_mean, binomPMF_sum]
  unfold binomMean binomVar; ring

example : ∑ k ∈ range (5 + 1), ((k : ℚ) - (5 : Nat) * (2/7)) ^ 2 * binomPMF 5 (2/7) (k : Int)
    = 50/49 := by
  rw [binom_var]; norm_num [binomVar]

/-! ## B5: binomial support -/

/-- For `0 < p < 1` the support of the binomial PMF is exactly `0 ≤ k ≤ n`. -/
theorem binomPMF_ne_zero_iff (n : Nat) (p : ℚ) (h0 : 0 < p) (h1 : p < 1) (k : Int) :
    binomPMF n p k ≠ 0 ↔ 0 ≤ k ∧ k ≤ n := by
  constructor
  · intro h
    by_contra hc
    exact h (binomPMF_eq_zero n p k (by omega))
  · rintro ⟨hk0, hkn⟩
    obtain ⟨m, rfl⟩ := Int.eq_ofNat_of_zero_le hk0
    rw [binomPMF_natCast]
    have hm : m ≤ n := by omega
    have hc : (0 : ℚ) < (n.choose m : ℚ) := by exact_mod_cast Nat.choose_pos hm
    have hq : (0 : ℚ) < 1 - p := sub_pos.2 h1
    exact (mul_pos (mul_pos hc (pow_pos h0 _)) (pow_pos hq _)).ne'

example : binomPMF 4 (1/3) 4 ≠ 0 :=
  (binomPMF_ne_zero_iff 4 (1/3) (by norm_num) (by norm_num) 4).2 (by decide)

/-! ## B4: hypergeometric distribution -/

lemma vandermonde (a b D : Nat) :
    ∑ k ∈ range (D + 1), ((a.choose k : ℚ) * (b.choose (D - k))) = ((a + b).choose D : ℚ) := by
  rw [Nat.add_choose_eq, Finset.Nat.sum_antidiagonal_eq_sum_range_succ_mk]; push_cast; rfl

lemma hypPMF_natCast (N K D k : Nat) (hK : K ≤ N) (hkD : k ≤ D) :
    hypPMF N K D (k : Int)
      = (K.choose k : ℚ) * ((N - K).choose (D - k)) / (N.choose D) := by
  unfold hypPMF
  split_ifs with h
  · unfold hypLo hypHi at h
    rcases h with h | h
    · have : N - K < D - k := by omega
      rw [Nat.choose_eq_zero_of_lt this]; simp
    · have : K < k := by omega
      rw [Nat.choose_eq_zero_of_lt this]; simp
  · simp only [Int.toNat_natCast, chooseFast_eq_choose]; push_cast; rfl

/-- With `K ≤ N`, for every `0 ≤ k ≤ D` (in particular on the support
`hypLo ≤ k ≤ hypHi`) the model PMF is the textbook formula
`C(K,k) C(N-K,D-k) / C(N,D)`. -/
theorem hypPMF_eq (N K D k : Nat) (hK : K ≤ N) (hkD : k ≤ D) :
    hypPMF N K D (k : Int)
      = (K.choose k : ℚ) * ((N - K).choose (D - k)) / (N.choose D) :=
  hypPMF_natCast N K D k hK hkD

example : hypPMF 10 4 5 (2 : Nat) = 10/21 := by
  rw [hypPMF_eq 10 4 5 2 (by decide) (by decide)]; norm_num [Nat.choose]

/-- Outside `[hypLo, hypHi]` the model PMF is zero. -/
theorem hypPMF_eq_zero (N K D : Nat) (k : Int)
    (hk : k < hypLo N K D ∨ k > hypHi N K D) : hypPMF N K D k = 0 := by
  unfold hypPMF; rw [if_pos hk]

example : hypPMF 10 8 5 2 = 0 := hypPMF_eq_zero 10 8 5 2 (by decide)

/-- With `K ≤ N`, `D ≤ N` the model PMF is strictly positive on `[hypLo, hypHi]`. -/
theorem hypPMF_pos (N K D : Nat) (hK : K ≤ N) (hD : D ≤ N) (k : Int)
    (hlo : (hypLo N K D : Int) ≤ k) (hhi : k ≤ hypHi N K D) : 0 < hypPMF N K D k := by
  obtain ⟨m, rfl⟩ := Int.eq_ofNat_of_zero_le (by omega : 0 ≤ k)
  unfold hypLo at hlo; unfold hypHi at hhi
  rw [hypPMF_natCast N K D m hK (by omega)]
  have h1 : (0 : ℚ) < (K.choose m : ℚ) := by exact_mod_cast Nat.choose_pos (by omega)
  have h2 : (0 : ℚ) < ((N - K).choose (D - m) : ℚ) := by
    exact_mod_cast Nat.choose_pos (by omega)
  have h3 : (0 : ℚ) < (N.choose D : ℚ) := by exact_mod_cast Nat.choose_pos hD
  exact div_pos (mul_pos h1 h2) h3

example : 0 < hypPMF 10 8 5 3 := hypPMF_pos 10 8 5 (by decide) (by decide) 3 (by decide) (by decide)

/-- With `K ≤ N`, `D ≤ N` the support of the PMF is exactly `[hypLo, hypHi]`. -/
theorem hypPMF_ne_zero_iff (N K D : Nat) (hK : K ≤ N) (hD : D ≤ N) (k : Int) :
    hypPMF N K D k ≠ 0 ↔ (hypLo N K D : Int) ≤ k ∧ k ≤ hypHi N K D := by
  constructor
  · intro h
    by_contra hc
    exact h (hypPMF_eq_zero N K D k (by omega))
  · rintro ⟨h1, h2⟩
    exact (hypPMF_pos N K D hK hD k h1 h2).ne'

example : hypPMF 10 8 5 2 = 0 ∧ hypPMF 10 8 5 3 ≠ 0 :=
  ⟨by
    have := (hypPMF_ne_zero_iff 10 8 5 (by decide) (by decide) 2).not
    rw [not_not] at this; exact this.2 (by decide),
   (hypPMF_ne_zero_iff 10 8 5 (by decide) (by decide) 3).2 (by decide)⟩

/-- any finite index set containing the support gives the same weighted sum -/
lemma hyp_sum_support (N K D : Nat) (f : Nat → ℚ) (s : Finset Nat)
    (hs : Icc (hypLo N K D) (hypHi N K D) ⊆ s) :
    ∑ k ∈ s, f k * hypPMF N K D (k : Int)
      = ∑ k ∈ Icc (hypLo N K D) (hypHi N K D), f k * hypPMF N K D (k : Int) := by
  symm
  apply sum_subset hs
  intro x _ hx
  rw [hypPMF_eq_zero, mul_zero]
  rw [mem_Icc] at hx
  omega

lemma hyp_Icc_subset_range (N K D : Nat) :
    Icc (hypLo N K D) (hypHi N K D) ⊆ range (D + 1) := by
  intro x hx
  rw [mem_Icc] at hx
  unfold hypHi at hx
  rw [mem_range]; omega

lemma hyp_sum_range (N K D : Nat) (hK : K ≤ N) (f : Nat → ℚ) :
    ∑ k ∈ Icc (hypLo N K D) (hypHi N K D), f k * hypPMF N K D (k : Int)
      = (∑ k ∈ range (D + 1), f k * ((K.choose k : ℚ) * ((N - K).choose (D - k))))
          / (N.choose D) := by
  rw [← hyp_sum_support N K D f _ (hyp_Icc_subset_range N K D), sum_div]
  apply sum_congr rfl
  intro k hk
  rw [hypPMF_natCast N K D k hK (by rw [mem_range] at hk; omega)]; ring

/-- With `K ≤ N`, `D ≤ N` the hypergeometric PMF sums to one over its support
(Vandermonde's identity). -/
theorem hypPMF_sum (N K D : Nat) (hK : K ≤ N) (hD : D ≤ N) :
    ∑ k ∈ Icc (hypLo N K D) (hypHi N K D), hypPMF N K D (k : Int) = 1 := by
  have h := hyp_sum_range N K D hK (fun _ => 1)
  simp only [one_mul] at h
  rw [h, vandermonde, Nat.add_sub_cancel' hK]
  have h3 : (0 : ℚ) < (N.choose D : ℚ) := by exact_mod_cast Nat.choose_pos hD
  exact div_self h3.ne'

example : ∑ k ∈ Icc (hypLo 10 8 5) (hypHi 10 8 5), hypPMF 10 8 5 (k : Int) = 1 :=
  hypPMF_sum 10 8 5 (by decide) (by decide)

/-- uniform description of the CDF at every integer -/
lemma hypCDF_eq_sum_all (N K D : Nat) (hK : K ≤ N) (hD : D ≤ N) (k : Int) :
    hypCDF N K D k = ∑ i ∈ range (k + 1).toNat, hypPMF N K D (i : Int) := by
  unfold hypCDF
  split_ifs with h1 h2
  · symm; apply sum_eq_zero
    intro i hi
    rw [mem_range] at hi
    apply hypPMF_eq_zero; left; omega
  · have hs : Icc (hypLo N K D) (hypHi N K D) ⊆ range (k + 1).toNat := by
      intro x hx
      rw [mem_Icc] at hx; rw [mem_range]; omega
    have := hyp_sum_support N K D (fun _ => 1) _ hs
    simp only [one_mul] at this
    rw [this, hypPMF_sum N K D hK hD]
  · rw [foldl_add_eq_sum (fun i => hypPMF N K D (i : Int))]
    congr 2; omega

/-- With `K ≤ N`, `D ≤ N`, for `0 ≤ k` the model CDF is the partial sum of the PMF over `0..k`
(this covers both short-circuit branches `k < hypLo` ↦ 0 and `k ≥ hypHi` ↦ 1). -/
theorem hypCDF_eq_sum (N K D : Nat) (hK : K ≤ N) (hD : D ≤ N) (k : Int) (h0 : 0 ≤ k) :
    hypCDF N K D k = ∑ i ∈ range (k.toNat + 1), hypPMF N K D (i : Int) := by
  rw [hypCDF_eq_sum_all N K D hK hD]; congr 2; omega

example : hypCDF 10 8 5 4 = ∑ i ∈ range 5, hypPMF 10 8 5 (i : Int) :=
  hypCDF_eq_sum 10 8 5 (by decide) (by decide) 4 (by decide)

/-- The CDF is `0` below `hypLo`. -/
theorem hypCDF_of_lt (N K D : Nat) (k : Int) (hk : k < hypLo N K D) : hypCDF N K D k = 0 := by
  unfold hypCDF; rw [if_pos hk]

/-- The CDF is `1` from `hypHi` on (when `hypLo ≤ k`, automatic for `K ≤ N`, `D ≤ N`). -/
theorem hypCDF_of_ge (N K D : Nat) (hK : K ≤ N) (hD : D ≤ N) (k : Int)
    (hk : k ≥ hypHi N K D) : hypCDF N K D k = 1 := by
  unfold hypCDF
  have : ¬ k < hypLo N K D := by
    unfold hypLo; unfold hypHi at hk; omega
  rw [if_neg this, if_pos hk]

example : hypCDF 10 8 5 2 = 0 := hypCDF_of_lt 10 8 5 2 (by decide)
example : hypCDF 10 8 5 5 = 1 := hypCDF_of_ge 10 8 5 (by decide) (by decide) 5 (by decide)

/-- With `K ≤ N`, `D ≤ N`, for `0 ≤ k`: `CDF(k) - CDF(k-1) = PMF(k)`. -/
theorem hypCDF_step (N K D : Nat) (hK : K ≤ N) (hD : D ≤ N) (k : Int) (h0 : 0 ≤ k) :
    hypCDF N K D k - hypCDF N K D (k - 1) = hypPMF N K D k := by
  rw [hypCDF_eq_sum_all N K D hK hD, hypCDF_eq_sum_all N K D hK hD]
  obtain ⟨m, rfl⟩ := Int.eq_ofNat_of_zero_le h0
  have e1 : ((m : Int) + 1).toNat = m + 1 := by omega
  have e2 : ((m : Int) - 1 + 1).toNat = m := by omega
  rw [e1, e2, sum_range_succ]; ring

example : hypCDF 10 8 5 3 - hypCDF 10 8 5 2 = hypPMF 10 8 5 3 :=
  hypCDF_step 10 8 5 (by decide) (by decide) 3 (by decide)

/-- With `K ≤ N`, `D ≤ N` the CDF is monotone. -/
theorem hypCDF_mono (N K D : Nat) (hK : K ≤ N) (hD : D ≤ N) (j k : Int) (hjk : j ≤ k) :
    hypCDF N K D j ≤ hypCDF N K D k := by
  rw [hypCDF_eq_sum_all N K D hK hD, hypCDF_eq_sum_all N K D hK hD]
  apply sum_le_sum_of_subset_of_nonneg
  · apply range_subset_range.2; omega
  · intro i _ _
    by_cases h : ((i : Int) < hypLo N K D ∨ (i : Int) > hypHi N K D)
    · rw [hypPMF_eq_zero N K D i h]
    · exact (hypPMF_pos N K D hK hD i (by omega) (by omega)).le

example : hypCDF 10 8 5 3 ≤ hypCDF 10 8 5 4 :=
  hypCDF_mono 10 8 5 (by decide) (by decide) 3 4 (by decide)

/-! ### hypergeometric moments -/

lemma hyp_M1 (a b d : Nat) :
    ∑ k ∈ range (d + 2), (k : ℚ) * (((a + 1).choose k : ℚ) * (b.choose (d + 1 - k)))
      = ((a : ℚ) + 1) * ((a + b).choose d) := by
  rw [sum_range_succ']
  have : ∀ k ∈ range (d + 1),
      ((k + 1 : Nat) : ℚ) * (((a + 1).choose (k + 1) : ℚ) * (b.choose (d + 1 - (k + 1))))
        = ((a : ℚ) + 1) * ((a.choose k : ℚ) * (b.choose (d - k))) := by
    intro k _
    have h : ((a : ℚ) + 1) * (a.choose k) = ((a + 1).choose (k + 1)) * ((k : ℚ) + 1) := by
      exact_mod_cast Nat.add_one_mul_choose_eq a k
    rw [Nat.add_sub_add_right]; push_cast
    linear_combination (-(b.choose (d - k) : ℚ)) * h
  rw [sum_congr rfl this, ← mul_sum, vandermonde]; simp

lemma hyp_M2 (a b d : Nat) :
    ∑ k ∈ range (d + 3),
        ((k : ℚ) * ((k : ℚ) - 1)) * (((a + 2).choose k : ℚ) * (b.choose (d + 2 - k)))
      = ((a : ℚ) + 2) * ((a : ℚ) + 1) * ((a + b).choose d) := by
  rw [sum_range_succ']
  have : ∀ k ∈ range (d + 2),
      (((k + 1 : Nat) : ℚ) * (((k + 1 : Nat) : ℚ) - 1)) *
          (((a + 2).choose (k + 1) : ℚ) * (b.choose (d + 2 - (k + 1))))
        = ((a : ℚ) + 2) * ((k : ℚ) * (((a + 1).choose k : ℚ) * (b.choose (d + 1 - k)))) := by
    intro k _
    have h : (((a + 1 : Nat) : ℚ) + 1) * ((a + 1).choose k)
        = ((a + 1 + 1).choose (k + 1)) * ((k : ℚ) + 1) := by
      exact_mod_cast Nat.add_one_mul_choose_eq (a + 1) k
    rw [show d + 2 - (k + 1) = d + 1 - k by omega]; push_cast at h ⊢
    linear_combination (-(k : ℚ) * (b.choose (d + 1 - k) : ℚ)) * h
  rw [sum_congr rfl this, ← mul_sum, hyp_M1]; simp; ring

/-- first raw moment numerator, division-free -/
lemma hyp_m1 (K b D : Nat) :
    (∑ k ∈ range (D + 1), (k : ℚ) * ((K.choose k : ℚ) * (b.choose (D - k)))) * ((K : ℚ) + b)
      = (D : ℚ) * K * ((K + b).choose D) := by
  rcases D with _ | d
  · simp
  rcases K with _ | a
  · rw [sum_eq_zero]
    · simp
    · intro k _; rcases k with _ | k <;> simp
  · rw [hyp_M1]
    have h : (((a + b : Nat) : ℚ) + 1) * ((a + b).choose d)
        = ((a + b + 1).choose (d + 1)) * ((d : ℚ) + 1) := by
      exact_mod_cast Nat.add_one_mul_choose_eq (a + b) d
    rw [show a + 1 + b = a + b + 1 by ring]
    push_cast at h ⊢
    linear_combination ((a : ℚ) + 1) * h

/-- second factorial moment numerator, division-free -/
lemma hyp_m2 (K b D : Nat) :
    (∑ k ∈ range (D + 1),
        ((k : ℚ) * ((k : ℚ) - 1)) * ((K.choose k : ℚ) * (b.choose (D - k))))
        * (((K : ℚ) + b) * ((K : ℚ) + b - 1))
      = (D : ℚ) * ((D : ℚ) - 1) * (K * ((K : ℚ) - 1)) * ((K + b).choose D) := by
  rcases D with _ | _ | d
  · simp
  · simp [sum_range_succ]
  rcases K with _ | _ | a
  · rw [sum_eq_zero]
    · simp
    · intro k _; rcases k with _ | k <;> simp
  · rw [sum_eq_zero]
    · simp
    · intro k _
      rcases k with _ | _ | k
      · simp
      · simp
      · rw [Nat.choose_eq_zero_of_lt (by omega : 1 < k + 1 + 1)]; simp
  · rw [hyp_M2]
    have h1 : (((a + b : Nat) : ℚ) + 1) * ((a + b).choose d)
        = ((a + b + 1).choose (d + 1)) * ((d : ℚ) + 1) := by
      exact_mod_cast Nat.add_one_mul_choose_eq (a + b) d
    have h2 : (((a + b + 1 : Nat) : ℚ) + 1) * ((a + b + 1).choose (d + 1))
        = ((a + b + 1 + 1).choose (d + 1 + 1)) * (((d + 1 : Nat) : ℚ) + 1) := by
      exact_mod_cast Nat.add_one_mul_choose_eq (a + b + 1) (d + 1)
    rw [show a + 1 + 1 + b = a + b + 1 + 1 by ring]
    push_cast at h1 h2 ⊢
    linear_combination ((a : ℚ) + 2) * ((a : ℚ) + 1) * ((a : ℚ) + b + 2) * h1
      + ((a : ℚ) + 2) * ((a : ℚ) + 1) * ((d : ℚ) + 1) * h2

/-- With `K ≤ N`, `D ≤ N`, `1 ≤ N` the mean of the hypergeometric PMF is `D K / N`. -/
theorem hyp_mean (N K D : Nat) (hK : K ≤ N) (hD : D ≤ N) (hN : 1 ≤ N) :
    ∑ k ∈ Icc (hypLo N K D) (hypHi N K D), (k : ℚ) * hypPMF N K D (k : Int)
      = hypMean N K D := by
  rw [hyp_sum_range N K D hK]
  unfold hypMean
  obtain ⟨b, rfl⟩ := Nat.exists_eq_add_of_le hK
  rw [Nat.add_sub_cancel_left]
  have h3 : (0 : ℚ) < ((K + b).choose D : ℚ) := by exact_mod_cast Nat.choose_pos hD
  have hN' : (0 : ℚ) < ((K + b : Nat) : ℚ) := by exact_mod_cast hN
  rw [div_eq_div_iff h3.ne' hN'.ne']
  have := hyp_m1 K b D
  push_cast at this ⊢
  linear_combination this

example : ∑ k ∈ Icc (hypLo 10 8 5) (hypHi 10 8 5), (k : ℚ) * hypPMF 10 8 5 (k : Int) = 4 := by
  rw [hyp_mean 10 8 5 (by decide) (by decide) (by decide)]; norm_num [hypMean]

/-- With `K ≤ N`, `D ≤ N`, `2 ≤ N` the variance of the hypergeometric PMF (second central
moment about `hypMean`) is `D K (N-K) (N-D) / (N² (N-1))`. -/
theorem hyp_var (N K D : Nat) (hK : K ≤ N) (hD : D ≤ N) (hN : 2 ≤ N) :
    ∑ k ∈ Icc (hypLo N K D) (hypHi N K D),
        ((k : ℚ) - hypMean N K D) ^ 2 * hypPMF N K D (k : Int)
      = hypVar N K D := by
  have e : ∀ k ∈ Icc (hypLo N K D) (hypHi N K D),
      ((k : ℚ) - hypMean N K D) ^ 2 * hypPMF N K D (k : Int)
        = ((k : ℚ) * ((k : ℚ) - 1)) * hypPMF N K D (k : Int)
          + (1 - 2 * hypMean N K D) * ((k : ℚ) * hypPMF N K D (k : Int))
          + (hypMean N K D) ^ 2 * hypPMF N K D (k : Int) := by
    intro k _; ring
  rw [sum_congr rfl e, sum_add_distrib, sum_add_distrib, ← mul_sum, ← mul_sum,
    hyp_mean N K D hK hD (by omega), hypPMF_sum N K D hK hD, hyp_sum_range N K D hK]
  unfold hypMean hypVar
  obtain ⟨b, rfl⟩ := Nat.exists_eq_add_of_le hK
  rw [Nat.add_sub_cancel_left]
  have h3 : (0 : ℚ) < ((K + b).choose D : ℚ) := by exact_mod_cast Nat.choose_pos hD
  have hN0 : (0 : ℚ) < (K : ℚ) + b := by exact_mod_cast (by omega : 0 < K + b)
  have hN1 : (0 : ℚ) < (K : ℚ) + b - 1 := by
    have : (2 : ℚ) ≤ (K : ℚ) + b := by exact_mod_cast hN
    linarith
  have key := hyp_m2 K b D
  have hS := eq_div_of_mul_eq (mul_pos hN0 hN1).ne' key
  rw [hS]
  push_cast [Nat.cast_sub hD, Nat.cast_sub (by omega : 1 ≤ K + b)]
  field_simp
  ring

example : ∑ k ∈ Icc (hypLo 10 8 5) (hypHi 10 8 5),
    ((k : ℚ) - hypMean 10 8 5) ^ 2 * hypPMF 10 8 5 (k : Int) = 4/9 := by
  rw [hyp_var 10 8 5 (by decide) (by decide) (by decide)]; norm_num [hypVar]

/-- The variance identity also holds in the degenerate cases `N ≤ 1` (where the model's
`hypVar` divides by zero and returns `0`, which is the true variance of a constant). -/
theorem hyp_var_small (N K D : Nat) (hK : K ≤ N) (hD : D ≤ N) (hN : N < 2) :
    ∑ k ∈ Icc (hypLo N K D) (hypHi N K D),
        ((k : ℚ) - hypMean N K D) ^ 2 * hypPMF N K D (k : Int)
      = hypVar N K D := by
  interval_cases N <;> interval_cases K <;> interval_cases D <;>
    simp [hypLo, hypHi, hypMean, hypVar, hypPMF, chooseFast_eq_choose]

/-- The mean identity also holds for `N = 0` (both sides are `0`). -/
theorem hyp_mean_zero :
    ∑ k ∈ Icc (hypLo 0 0 0) (hypHi 0 0 0), (k : ℚ) * hypPMF 0 0 0 (k : Int) = hypMean 0 0 0 := by
  simp [hypLo, hypHi, hypMean]

example : ∑ k ∈ Icc (hypLo 1 1 1) (hypHi 1 1 1),
    ((k : ℚ) - hypMean 1 1 1) ^ 2 * hypPMF 1 1 1 (k : Int) = hypVar 1 1 1 :=
  hyp_var_small 1 1 1 (by decide) (by decide) (by decide)

/-- The reference (linear fold) power `rpow` also equals `q ^ n`, hence equals `rpowFast`. -/
theorem rpow_eq (q : Rat) (n : Nat) : rpow q n = q ^ n := by
  unfold rpow
  induction n with
  | zero => simp
  | succ n ih => rw [List.range_succ, List.foldl_append, ih]; simp [pow_succ]

example : rpow (2/3) 5 = rpowFast (2/3) 5 := by rw [rpow_eq, rpowFast_eq]

end MV.Discrete
