import MV.Props.C08
/-!
# C06 — the binomial CDF as the code computes it: through the incomplete beta function

`BinomialDist.CDF(k)` returns `mathx.BetaInc(1-P, N-k, k+1)` for `0 ≤ k < N`. With the integer-parameter
model of the regularised incomplete beta function (`betaIncInt`, proved in C08 to be the binomial tail sum and
the normalised integral) this wiring is the definitional CDF:

  `binomCDF n p k = betaIncInt (1-p) (n-k) (k+1)`     (`binomCDF_eq_betaIncInt`)

so the C06 clause "CDF = sum of the PMF" and the C08 clauses about `BetaInc` speak of the same number.
-/
namespace MV.Discrete
open Finset MV.Special

/-- **Wiring of `BinomialDist.CDF`.** For `0 ≤ k < n` and every rational `p`, the partial sum of the binomial
point masses up to `k` is the regularised incomplete beta function `I_{1-p}(n-k, k+1)`. -/
theorem binomCDF_eq_betaIncInt (n k : ℕ) (p : ℚ) (hk : k < n) :
    binomCDF n p (k : ℤ) = betaIncInt (1 - p) (n - k) (k + 1) := by
  rw [binomCDF_eq_sum n p (k : ℤ) (by omega), betaIncInt_eq]
  have e0 : ((k : ℤ)).toNat + 1 = k + 1 := by omega
  have e1 : n - k + (k + 1) = n + 1 := by omega
  have e2 : n - k + (k + 1) - 1 = n := by omega
  rw [e0, e1, Nat.add_sub_cancel, sum_Ico_eq_sum_range]
  have e3 : n + 1 - (n - k) = k + 1 := by omega
  rw [e3, ← sum_range_reflect (fun i => binomPMF n p ((i : ℕ) : ℤ)) (k + 1)]
  apply sum_congr rfl
  intro t ht
  rw [mem_range] at ht
  have e4 : k + 1 - 1 - t = k - t := by omega
  rw [e4, binomPMF_natCast n p (k - t)]
  have e5 : n - k + t = n - (k - t) := by omega
  have e6 : n - (n - k + t) = k - t := by omega
  rw [e6, e5, Nat.choose_symm (by omega : k - t ≤ n)]
  have : (1 : ℚ) - (1 - p) = p := by ring
  rw [this]
  ring

example : binomCDF 4 (1/3) 2 = betaIncInt (1 - 1/3) 2 3 := binomCDF_eq_betaIncInt 4 2 (1/3) (by decide)

end MV.Discrete
