import MV.Props.FactsLib
/-! Source facts the C06 model relies on (checked against the facts regenerated from /repo on every run). -/
namespace MV.Facts

def expectedC06 : List (String × String) := [("mathx.smallFactLimit", "20")]

/-- the constants and literals the C06 model mirrors are still what the source says -/
theorem facts_C06 : holdsAll expectedC06 = true := by decide

end MV.Facts
