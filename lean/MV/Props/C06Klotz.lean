import MV.Props.C06
/-!
# C06 — the algorithm of `HypergeometicDist.CDF` equals the definitional CDF, on either side

`HypergeometicDist.CDF(k)` computes `pmf(k) · Σ_{j=0}^{k-L} a_j` with `a_0 = 1` and
`a_j = a_{j-1} · (1+k-j)/(D-k+j) · (N-K-D+k+1-j)/(K-k+j)`, either for the distribution itself or - "using symmetry
to compute the smaller sum" - for the mirrored one (`Draws ↦ N-Draws`, `k ↦ K-k-1`), returning one minus that.

* `hypTerm_eq`: `a_j = pmf(k-j)/pmf(k)` (the ratio recurrence of the binomial coefficients);
* `hypSeries_mul`: `pmf(k) · Σ a_j = CDF(k)` for `k` in the support;
* `hypPMF_mirror`, `hypCDF_mirror`: the mirrored distribution has `pmf'(K-j) = pmf(j)`, hence
  `CDF(k) = 1 - CDF'(K-k-1)`;
* `hypCDFalg_eq`: **whichever side is chosen**, the algorithm's value is `hypCDF N K D k`.

The choice of side is therefore immaterial for the value (finding F16 was an integer division that always chose
the mirrored side: still the right value in exact arithmetic, a NaN in float64 once `pmf' = 0` and `Σ a_j = ∞`).
-/
namespace MV.Discrete
open Finset

/-- ratio recurrence: for `1 ≤ j ≤ K`, `j ≤ D`, `D - j < N - K` is not needed: stated with products -/
lemma choose_ratio_K (K j : ℕ) (hj : 1 ≤ j) (hjK : j ≤ K) :
    (K.choose (j - 1) : ℚ) = (K.choose j : ℚ) * ((j : ℚ) / ((K - j + 1 : ℕ) : ℚ)) := by
  obtain ⟨i, rfl⟩ : ∃ i, j = i + 1 := ⟨j - 1, by omega⟩
  have h := Nat.choose_succ_right_eq K i
  have hpos : ((K - (i + 1) + 1 : ℕ) : ℚ) ≠ 0 := by
    have : 0 < K - (i + 1) + 1 := by omega
    exact_mod_cast this.ne'
  have e : K - (i + 1) + 1 = K - i := by omega
  rw [Nat.add_sub_cancel, e, eq_comm, mul_div_assoc', div_eq_iff (by rw [← e]; exact hpos)]
  exact_mod_cast h

lemma choose_ratio_M (M d : ℕ) (hd : d < M) :
    (M.choose (d + 1) : ℚ) = (M.choose d : ℚ) * (((M - d : ℕ) : ℚ) / ((d + 1 : ℕ) : ℚ)) := by
  have h := Nat.choose_succ_right_eq M d
  have hpos : ((d + 1 : ℕ) : ℚ) ≠ 0 := by exact_mod_cast (Nat.succ_pos d).ne'
  rw [mul_div_assoc', eq_div_iff hpos]
  exact_mod_cast h

/-- one step of the loop, on the unnormalised numerators `C(K,i)·C(N-K,D-i)` -/
lemma hypNum_step (N K D i : ℕ) (hi1 : 1 ≤ i) (hiK : i ≤ K) (hiD : i ≤ D)
    (hL : D - i < N - K) :
    (K.choose (i - 1) : ℚ) * ((N - K).choose (D - (i - 1)))
      = (K.choose i : ℚ) * ((N - K).choose (D - i))
          * (((i : ℕ) : ℚ) / ((D - i + 1 : ℕ) : ℚ)) * ((((N : ℤ) - K - D + i : ℤ) : ℚ) / ((K - i + 1 : ℕ) : ℚ)) := by
  have e1 : D - (i - 1) = (D - i) + 1 := by omega
  rw [e1, choose_ratio_K K i hi1 hiK, choose_ratio_M (N - K) (D - i) hL]
  have hcast : (((N : ℤ) - K - D + i : ℤ) : ℚ) = ((N - K - (D - i) : ℕ) : ℚ) := by
    have : ((N - K - (D - i) : ℕ) : ℤ) = (N : ℤ) - K - D + i := by omega
    rw [← this]; simp
  rw [hcast]
  ring

/-- the unnormalised numerator -/
def hypNum (N K D i : ℕ) : ℚ := (K.choose i : ℚ) * ((N - K).choose (D - i))

/-- `a_j · c(k) = c(k-j)`: the running term of the series is the ratio of the point masses -/
lemma hypTerm_num (N K D k : ℕ) (hK : K ≤ N) (hkK : k ≤ K) (hkD : k ≤ D) (j : ℕ)
    (hj : j ≤ k - hypLo N K D) (hLk : hypLo N K D ≤ k) :
    hypTerm N K D k j * hypNum N K D k = hypNum N K D (k - j) := by
  induction j with
  | zero => simp [hypTerm]
  | succ j ih =>
    have hj' : j ≤ k - hypLo N K D := by omega
    have ihj := ih hj'
    set i := k - j with hi
    have hi1 : 1 ≤ i := by omega
    have hiL : hypLo N K D + 1 ≤ i := by omega
    have hlt : D - i < N - K := by unfold hypLo at hiL; omega
    have hstep := hypNum_step N K D i hi1 (by omega) (by omega) hlt
    have e1 : k - (j + 1) = i - 1 := by omega
    have e2 : (1 + k - (j + 1) : ℕ) = i := by omega
    have e3 : (D - k + (j + 1) : ℕ) = D - i + 1 := by omega
    have e4 : (K - k + (j + 1) : ℕ) = K - i + 1 := by omega
    have e5 : ((N : ℤ) - K - D + k + 1 - ((j + 1 : ℕ) : ℤ)) = (N : ℤ) - K - D + i := by omega
    unfold hypTerm
    rw [e1, e2, e3, e4]
    have e5' : (((N : ℤ) - K - D + k + 1 - (j + 1) : ℤ) : ℚ) = (((N : ℤ) - K - D + i : ℤ) : ℚ) := by
      have h : ((N : ℤ) - K - D + k + 1 - (j + 1) : ℤ) = (N : ℤ) - K - D + i := by omega
      rw [h]
    rw [e5']
    unfold hypNum at ihj hstep ⊢
    calc hypTerm N K D k j * (((i : ℕ) : ℚ) / ((D - i + 1 : ℕ) : ℚ)) * ((((N : ℤ) - K - D + i : ℤ) : ℚ) / ((K - i + 1 : ℕ) : ℚ))
            * ((K.choose k : ℚ) * ((N - K).choose (D - k)))
        = (hypTerm N K D k j * ((K.choose k : ℚ) * ((N - K).choose (D - k))))
            * (((i : ℕ) : ℚ) / ((D - i + 1 : ℕ) : ℚ)) * ((((N : ℤ) - K - D + i : ℤ) : ℚ) / ((K - i + 1 : ℕ) : ℚ)) := by ring
      _ = (K.choose i : ℚ) * ((N - K).choose (D - i))
            * (((i : ℕ) : ℚ) / ((D - i + 1 : ℕ) : ℚ)) * ((((N : ℤ) - K - D + i : ℤ) : ℚ) / ((K - i + 1 : ℕ) : ℚ)) := by rw [ihj]
      _ = (K.choose (i - 1) : ℚ) * ((N - K).choose (D - (i - 1))) := hstep.symm

lemma hypPMF_num (N K D i : ℕ) (hK : K ≤ N) (hiD : i ≤ D) :
    hypPMF N K D (i : ℤ) = hypNum N K D i / (N.choose D : ℚ) := by
  rw [hypPMF_eq N K D i hK hiD]; rfl

/-- **The series times the point mass is the CDF.** For `k` in the support, `pmf(k) · Σ_{j=0}^{k-L} a_j`
(the loop of `sum` run to its end in exact arithmetic) is `Σ_{i ≤ k} pmf(i)`. -/
theorem hypSeries_mul (N K D k : ℕ) (hK : K ≤ N) (hD : D ≤ N)
    (hLk : hypLo N K D ≤ k) (hkh : k ≤ hypHi N K D) :
    hypPMF N K D (k : ℤ) * hypSeries N K D k = hypCDF N K D (k : ℤ) := by
  have hkK : k ≤ K := by unfold hypHi at hkh; omega
  have hkD : k ≤ D := by unfold hypHi at hkh; omega
  set L := hypLo N K D with hL
  set m := k - L + 1 with hm
  unfold hypSeries
  rw [foldl_add_eq_sum, ← hL, ← hm, mul_sum]
  -- each term is a point mass
  have hterm : ∀ j ∈ range m, hypPMF N K D (k : ℤ) * hypTerm N K D k j = hypPMF N K D (((L + (m - 1 - j) : ℕ)) : ℤ) := by
    intro j hj
    rw [mem_range] at hj
    have hjk : j ≤ k - L := by omega
    have e : L + (m - 1 - j) = k - j := by omega
    rw [e, hypPMF_num N K D k hK hkD, hypPMF_num N K D (k - j) hK (by omega),
      ← hypTerm_num N K D k hK hkK hkD j (by rw [← hL]; exact hjk) (by rw [← hL]; exact hLk)]
    ring
  rw [sum_congr rfl hterm, sum_range_reflect (fun t => hypPMF N K D ((L + t : ℕ) : ℤ)) m]
  -- the CDF is the sum over 0..k; the part below L vanishes
  rw [hypCDF_eq_sum_all N K D hK hD]
  have e1 : ((k : ℤ) + 1).toNat = L + m := by omega
  rw [e1]
  have hsplit := sum_range_add (fun i : ℕ => hypPMF N K D (i : ℤ)) L m
  have hz : ∑ x ∈ range L, hypPMF N K D (x : ℤ) = 0 := by
    apply sum_eq_zero
    intro x hx
    rw [mem_range] at hx
    apply hypPMF_eq_zero; left
    rw [← hL]; exact_mod_cast hx
  rw [hsplit, hz, zero_add]

/-- **Mirror identity of the point masses.** Drawing `N-D` instead of `D` items and counting the successes
left behind: `pmf_{N,K,N-D}(K-j) = pmf_{N,K,D}(j)` for every `j ≤ K` (zeros included). -/
theorem hypPMF_mirror (N K D j : ℕ) (hK : K ≤ N) (hD : D ≤ N) (hj : j ≤ K) :
    hypPMF N K (N - D) (((K - j : ℕ)) : ℤ) = hypPMF N K D (j : ℤ) := by
  by_cases hs : hypLo N K D ≤ j ∧ j ≤ hypHi N K D
  · obtain ⟨h1, h2⟩ := hs
    unfold hypLo at h1; unfold hypHi at h2
    have hjD : j ≤ D := by omega
    rw [hypPMF_eq N K (N - D) (K - j) hK (by omega), hypPMF_eq N K D j hK hjD]
    have e1 : (N - D) - (K - j) = (N - K) - (D - j) := by omega
    rw [e1, Nat.choose_symm hj, Nat.choose_symm (by omega : D - j ≤ N - K), Nat.choose_symm hD]
  · have hz : hypPMF N K D (j : ℤ) = 0 := by
      apply hypPMF_eq_zero
      unfold hypLo hypHi at hs ⊢
      by_cases h : D + K - N ≤ j
      · right; have : ¬ j ≤ min D K := fun h' => hs ⟨h, h'⟩
        push_cast; omega
      · left; push_cast; omega
    rw [hz]
    apply hypPMF_eq_zero
    unfold hypLo hypHi at hs ⊢
    by_cases h : D + K - N ≤ j
    · -- then j > min D K, and j ≤ K, so j > D: K - j < K - D = lower end of the mirrored support
      left
      have : ¬ j ≤ min D K := fun h' => hs ⟨h, h'⟩
      push_cast; omega
    · right; push_cast; omega

/-- for any `M` at or beyond the top of the support, `Σ_{i ≤ M} pmf(i) = 1` -/
lemma hyp_total (N K D M : ℕ) (hK : K ≤ N) (hD : D ≤ N) (hM : hypHi N K D ≤ M) :
    ∑ i ∈ range (M + 1), hypPMF N K D (i : ℤ) = 1 := by
  have hs : Icc (hypLo N K D) (hypHi N K D) ⊆ range (M + 1) := by
    intro x hx; rw [mem_Icc] at hx; rw [mem_range]; omega
  have := hyp_sum_support N K D (fun _ => 1) _ hs
  simp only [one_mul] at this
  rw [this, hypPMF_sum N K D hK hD]

/-- **Mirror identity of the CDF.** `CDF_{N,K,D}(k) = 1 - CDF_{N,K,N-D}(K-k-1)` for `k < K`. -/
theorem hypCDF_mirror (N K D k : ℕ) (hK : K ≤ N) (hD : D ≤ N) (hk : k < K) :
    hypCDF N K D (k : ℤ) = 1 - hypCDF N K (N - D) (((K - k - 1 : ℕ)) : ℤ) := by
  have hD' : N - D ≤ N := Nat.sub_le _ _
  rw [hypCDF_eq_sum_all N K D hK hD, hypCDF_eq_sum_all N K (N - D) hK hD']
  have e1 : ((k : ℤ) + 1).toNat = k + 1 := by omega
  have e2 : ((((K - k - 1 : ℕ)) : ℤ) + 1).toNat = K - k := by omega
  rw [e1, e2]
  -- the complement of the lower sum is the sum over k+1..K
  have htot := hyp_total N K D K hK hD (by unfold hypHi; omega)
  have hsplit := sum_range_add (fun i : ℕ => hypPMF N K D (i : ℤ)) (k + 1) (K - k)
  have e3 : k + 1 + (K - k) = K + 1 := by omega
  rw [e3, htot] at hsplit
  -- the mirrored lower sum, read backwards, is the same sum
  have hrefl := sum_range_reflect (fun t : ℕ => hypPMF N K (N - D) (t : ℤ)) (K - k)
  have hterm : ∀ t ∈ range (K - k),
      hypPMF N K (N - D) (((K - k - 1 - t : ℕ)) : ℤ) = hypPMF N K D (((k + 1 + t : ℕ)) : ℤ) := by
    intro t ht
    rw [mem_range] at ht
    have e : K - k - 1 - t = K - (k + 1 + t) := by omega
    rw [e]
    exact hypPMF_mirror N K D (k + 1 + t) hK hD (by omega)
  rw [← hrefl, sum_congr rfl hterm]
  linarith

/-- **Whichever side is summed, the algorithm returns the CDF.** For `k` strictly inside the support
(`lo ≤ k < hi`, the only case in which the code reaches the series), both the direct evaluation and the
mirrored one (`flip = true`) equal `hypCDF N K D k`. -/
theorem hypCDFalg_eq (N K D k : ℕ) (hK : K ≤ N) (hD : D ≤ N)
    (hlo : hypLo N K D ≤ k) (hhi : k < hypHi N K D) (flip : Bool) :
    hypCDFalg N K D k flip = hypCDF N K D (k : ℤ) := by
  unfold hypCDFalg
  cases flip
  · simp only [Bool.false_eq_true, if_false]
    exact hypSeries_mul N K D k hK hD hlo (le_of_lt hhi)
  · simp only [if_true]
    have hkK : k < K := by unfold hypHi at hhi; omega
    have hD' : N - D ≤ N := Nat.sub_le _ _
    rw [hypCDF_mirror N K D k hK hD hkK]
    congr 1
    apply hypSeries_mul N K (N - D) (K - k - 1) hK hD'
    · unfold hypLo hypHi at *; omega
    · unfold hypLo hypHi at *; omega

example : hypCDFalg 10 4 5 2 true = hypCDFalg 10 4 5 2 false := by
  rw [hypCDFalg_eq 10 4 5 2 (by decide) (by decide) (by decide) (by decide),
      hypCDFalg_eq 10 4 5 2 (by decide) (by decide) (by decide) (by decide)]

end MV.Discrete
