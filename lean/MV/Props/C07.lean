import Mathlib.Tactic
import MV.Model.InvCDF
/-!
# C07 — inverse CDF: piecewise CDF, its quantile function, bracketing and bisection

All results are about the exact-rational executable model in `MV/Model/InvCDF.lean`.
-/
namespace MV.InvCDF

/-! ## Unfolding lemmas -/

lemma wf_cons2 {k k2 : Knot} {rest : PW} :
    wf (k :: k2 :: rest) = true ↔
      k.l ≤ k.r ∧ k.r ≤ k2.l ∧ k.x < k2.x ∧ wf (k2 :: rest) = true := by
  simp [wf, and_assoc]

lemma wf_single {k : Knot} : wf [k] = true ↔ k.l ≤ k.r ∧ k.r = 1 := by
  simp [wf]

lemma wf_ne_nil {p : PW} (h : wf p = true) : p ≠ [] := by
  rintro rfl; simp [wf] at h

lemma wf_head_le {k : Knot} {rest : PW} (h : wf (k :: rest) = true) : k.l ≤ k.r := by
  cases rest with
  | nil => exact (wf_single.1 h).1
  | cons k2 rest => exact (wf_cons2.1 h).1

lemma wfTop_iff {p : PW} :
    wfTop p = true ↔ ∃ k rest, p = k :: rest ∧ wf p = true ∧ k.l = 0 := by
  cases p with
  | nil => simp [wfTop, wf]
  | cons k rest => simp [wfTop]

lemma wfTop_wf {p : PW} (h : wfTop p = true) : wf p = true := by
  obtain ⟨k, rest, rfl, h1, -⟩ := wfTop_iff.1 h
  exact h1

lemma cdf_single (k : Knot) (x : Rat) : cdf [k] x = if x < k.x then k.l else k.r := by
  simp [cdf]

lemma cdf_cons2 (k k2 : Knot) (rest : PW) (x : Rat) :
    cdf (k :: k2 :: rest) x =
      if x < k.x then k.l
      else if x < k2.x then k.r + (x - k.x) * (k2.l - k.r) / (k2.x - k.x)
      else cdf (k2 :: rest) x := by
  simp [cdf]

lemma quantile_single (k : Knot) (y : Rat) :
    quantile [k] y = if k.r ≥ y then some k.x else none := by
  simp [quantile]

lemma quantile_cons2 (k k2 : Knot) (rest : PW) (y : Rat) :
    quantile (k :: k2 :: rest) y =
      if k.r ≥ y then some k.x
      else if k2.l ≥ y then some (k.x + (y - k.r) * (k2.x - k.x) / (k2.l - k.r))
      else quantile (k2 :: rest) y := by
  simp [quantile]

/-! ## Linear interpolation arithmetic -/

lemma interp_bounds {a b x0 x1 x : ℚ} (hab : a ≤ b) (hx : x0 < x1) (h0 : x0 ≤ x) (h1 : x ≤ x1) :
    a ≤ a + (x - x0) * (b - a) / (x1 - x0) ∧ a + (x - x0) * (b - a) / (x1 - x0) ≤ b := by
  have hd : 0 < x1 - x0 := sub_pos.2 hx
  constructor
  · have : 0 ≤ (x - x0) * (b - a) / (x1 - x0) :=
      div_nonneg (mul_nonneg (sub_nonneg.2 h0) (sub_nonneg.2 hab)) hd.le
    linarith
  · have : (x - x0) * (b - a) / (x1 - x0) ≤ b - a := by
      rw [div_le_iff₀ hd]
      nlinarith [mul_nonneg (sub_nonneg.2 h1) (sub_nonneg.2 hab)]
    linarith

lemma interp_mono {a b x0 x1 x x' : ℚ} (hab : a ≤ b) (hx : x0 < x1) (h : x ≤ x') :
    a + (x - x0) * (b - a) / (x1 - x0) ≤ a + (x' - x0) * (b - a) / (x1 - x0) := by
  have hd : 0 < x1 - x0 := sub_pos.2 hx
  have : (x - x0) * (b - a) / (x1 - x0) ≤ (x' - x0) * (b - a) / (x1 - x0) := by
    apply div_le_div_of_nonneg_right _ hd.le
    exact mul_le_mul_of_nonneg_right (by linarith) (sub_nonneg.2 hab)
  linarith

lemma interp_inv {a b x0 x1 y : ℚ} (hx : x0 < x1) (ha : a < y) (hb : y ≤ b) :
    x0 < x0 + (y - a) * (x1 - x0) / (b - a) ∧
    x0 + (y - a) * (x1 - x0) / (b - a) ≤ x1 ∧
    a + ((x0 + (y - a) * (x1 - x0) / (b - a)) - x0) * (b - a) / (x1 - x0) = y ∧
    ∀ x, x < x0 + (y - a) * (x1 - x0) / (b - a) → a + (x - x0) * (b - a) / (x1 - x0) < y := by
  have hd : 0 < x1 - x0 := sub_pos.2 hx
  have hl : 0 < b - a := by linarith
  have hya : 0 < y - a := sub_pos.2 ha
  refine ⟨?_, ?_, ?_, ?_⟩
  · have : 0 < (y - a) * (x1 - x0) / (b - a) := div_pos (mul_pos hya hd) hl
    linarith
  · have : (y - a) * (x1 - x0) / (b - a) ≤ x1 - x0 := by
      rw [div_le_iff₀ hl]
      nlinarith [mul_nonneg (sub_nonneg.2 hb) hd.le]
    linarith
  · field_simp
    ring
  · intro x hxq
    have h1 : x - x0 < (y - a) * (x1 - x0) / (b - a) := by linarith
    rw [lt_div_iff₀ hl] at h1
    have : (x - x0) * (b - a) / (x1 - x0) < y - a := by
      rw [div_lt_iff₀ hd]; exact h1
    linarith

/-! ## Concrete test data for the non-vacuity examples -/

/-- A CDF with a jump at `0` (to `1/4`), a ramp to `1/2` on `[0,1]`, a flat piece on `[1,2]`, a jump
at `2` (to `3/4`) and a ramp to `1` on `[2,3]`. -/
def pwEx : PW := [⟨0, 0, 1/4⟩, ⟨1, 1/2, 1/2⟩, ⟨2, 1/2, 3/4⟩, ⟨3, 1, 1⟩]

/-- Well-formed, but the first left limit is `1/8`, not `0` (so `wf` holds and `wfTop` does not). -/
def pwEx' : PW := [⟨0, 1/8, 1/4⟩, ⟨3, 1, 1⟩]

example : wfTop pwEx = true := by decide +kernel
example : wf pwEx' = true ∧ wfTop pwEx' = false := by decide +kernel
example : cdf pwEx (1/2) = 3/8 ∧ cdf pwEx (3/2) = 1/2 ∧ cdf pwEx 2 = 3/4 ∧ cdf pwEx (5/2) = 7/8 := by
  decide +kernel

/-! ## I1: the piecewise function is a CDF -/

lemma cdf_bounds (k : Knot) (rest : PW) (h : wf (k :: rest) = true) (x : Rat) :
    k.l ≤ cdf (k :: rest) x ∧ cdf (k :: rest) x ≤ 1 ∧ (k.x ≤ x → k.r ≤ cdf (k :: rest) x) := by
  induction rest generalizing k with
  | nil =>
    obtain ⟨h1, h2⟩ := wf_single.1 h
    rw [cdf_single]
    split_ifs with hx
    · exact ⟨le_rfl, by linarith, fun h' => absurd hx (not_lt.2 h')⟩
    · exact ⟨h1, h2.le, fun _ => le_rfl⟩
  | cons k2 rest ih =>
    obtain ⟨h1, h2, h3, h4⟩ := wf_cons2.1 h
    obtain ⟨i1, i2, i3⟩ := ih k2 h4
    have hk2 := wf_head_le h4
    rw [cdf_cons2]
    split_ifs with hx hx2
    · refine ⟨le_rfl, ?_, fun h' => absurd hx (not_lt.2 h')⟩
      linarith
    · obtain ⟨b1, b2⟩ := interp_bounds h2 h3 (not_lt.1 hx) hx2.le
      exact ⟨by linarith, by linarith, fun _ => b1⟩
    · have := i3 (not_lt.1 hx2)
      exact ⟨by linarith, i2, fun _ => by linarith⟩

lemma cdf_mono_cons (k : Knot) (rest : PW) (h : wf (k :: rest) = true) :
    Monotone (cdf (k :: rest)) := by
  induction rest generalizing k with
  | nil =>
    obtain ⟨h1, h2⟩ := wf_single.1 h
    intro x x' hxx
    simp only [cdf_single]
    split_ifs with hx hx' hx'
    · exact le_rfl
    · exact h1
    · exact absurd (lt_of_le_of_lt hxx hx') hx
    · exact le_rfl
  | cons k2 rest ih =>
    obtain ⟨h1, h2, h3, h4⟩ := wf_cons2.1 h
    intro x x' hxx
    have hb := cdf_bounds k (k2 :: rest) h x'
    have hb2 := cdf_bounds k2 rest h4 x'
    have hk2 := wf_head_le h4
    show cdf (k :: k2 :: rest) x ≤ cdf (k :: k2 :: rest) x'
    rw [cdf_cons2 k k2 rest x]
    split_ifs with hx hx2
    · exact hb.1
    · rw [cdf_cons2 k k2 rest x']
      have hx' : ¬ x' < k.x := fun hh => hx (lt_of_le_of_lt hxx hh)
      rw [if_neg hx']
      split_ifs with hx2'
      · exact interp_mono h2 h3 hxx
      · obtain ⟨_, b2⟩ := interp_bounds h2 h3 (not_lt.1 hx) hx2.le
        linarith [hb2.1]
    · have hx' : ¬ x' < k.x := fun hh => hx (lt_of_le_of_lt hxx hh)
      have hx2' : ¬ x' < k2.x := fun hh => hx2 (lt_of_le_of_lt hxx hh)
      rw [cdf_cons2 k k2 rest x', if_neg hx', if_neg hx2']
      exact ih k2 h4 hxx

/-- **I1 (monotone).** A well-formed piecewise CDF is a monotone (non-decreasing) function. -/
theorem cdf_mono (p : PW) (hwf : wf p = true) : Monotone (cdf p) := by
  cases p with
  | nil => exact absurd rfl (wf_ne_nil hwf)
  | cons k rest => exact cdf_mono_cons k rest hwf

example : cdf pwEx (1/2) ≤ cdf pwEx (5/2) := cdf_mono pwEx (by decide +kernel) (by norm_num)

/-- **I1 (range).** For a well-formed `p`, every value of `cdf p` lies between the left limit `l` of
the first knot and `1`. -/
theorem cdf_range (p : PW) (hwf : wf p = true) (x : Rat) :
    (p.head (wf_ne_nil hwf)).l ≤ cdf p x ∧ cdf p x ≤ 1 := by
  cases p with
  | nil => exact absurd rfl (wf_ne_nil hwf)
  | cons k rest =>
    obtain ⟨a, b, -⟩ := cdf_bounds k rest hwf x
    exact ⟨a, b⟩

example : (1/8 : Rat) ≤ cdf pwEx' 2 ∧ cdf pwEx' 2 ≤ 1 := cdf_range pwEx' (by decide +kernel) 2

/-- **I1 (range, top-level).** For `wfTop p` (first left limit `0`), `0 ≤ cdf p x ≤ 1` for all `x`. -/
theorem cdf_range_top (p : PW) (hwf : wfTop p = true) (x : Rat) :
    0 ≤ cdf p x ∧ cdf p x ≤ 1 := by
  obtain ⟨k, rest, rfl, h1, h0⟩ := wfTop_iff.1 hwf
  obtain ⟨a, b, -⟩ := cdf_bounds k rest h1 x
  exact ⟨h0 ▸ a, b⟩

example : 0 ≤ cdf pwEx (5/2) ∧ cdf pwEx (5/2) ≤ 1 := cdf_range_top pwEx (by decide +kernel) (5/2)

/-- **I1 (left tail).** Strictly before the first knot the value is the first knot's left limit `l`
(which is `0` under `wfTop`).  Needs only `p ≠ []`. -/
theorem cdf_before (p : PW) (hne : p ≠ []) (x : Rat) (hx : x < (p.head hne).x) :
    cdf p x = (p.head hne).l := by
  match p, hne, hx with
  | [k], _, hx => simpa [cdf_single] using fun h => absurd hx (not_lt.2 h)
  | k :: k2 :: rest, _, hx =>
    rw [cdf_cons2]
    simp only [List.head_cons] at hx
    simp [hx]

/-- Under `wfTop`, the CDF is `0` strictly before the first knot. -/
theorem cdf_before_top (p : PW) (hwf : wfTop p = true) (x : Rat)
    (hx : x < (p.head (wf_ne_nil (wfTop_wf hwf))).x) : cdf p x = 0 := by
  rw [cdf_before p _ x hx]
  obtain ⟨k, rest, rfl, -, h0⟩ := wfTop_iff.1 hwf
  simpa using h0

example : cdf pwEx' (-1) = 1/8 := cdf_before pwEx' (by decide) (-1) (by norm_num [pwEx'])
example : cdf pwEx (-1) = 0 := cdf_before_top pwEx (by decide +kernel) (-1) (by norm_num [pwEx])

lemma wf_head_x_le (k : Knot) (rest : PW) (h : wf (k :: rest) = true) :
    ∀ k' ∈ k :: rest, k.x ≤ k'.x := by
  induction rest generalizing k with
  | nil => intro k' hk'; simp at hk'; subst hk'; exact le_rfl
  | cons k2 rest ih =>
    obtain ⟨-, -, h3, h4⟩ := wf_cons2.1 h
    intro k' hk'
    rcases List.mem_cons.1 hk' with rfl | hk'
    · exact le_rfl
    · exact h3.le.trans (ih k2 h4 k' hk')

lemma wf_head_x_lt (k k2 : Knot) (rest : PW) (h : wf (k :: k2 :: rest) = true) :
    ∀ k' ∈ k2 :: rest, k.x < k'.x := by
  obtain ⟨-, -, h3, h4⟩ := wf_cons2.1 h
  intro k' hk'
  exact lt_of_lt_of_le h3 (wf_head_x_le k2 rest h4 k' hk')

/-- **I1 (value at a knot / right-continuity).** For a well-formed `p`, the value of `cdf p` at the
position of any knot `k ∈ p` is that knot's `r` (the right-hand value, not the left limit `l`). -/
theorem cdf_at_knot (p : PW) (hwf : wf p = true) (k : Knot) (hk : k ∈ p) : cdf p k.x = k.r := by
  induction p with
  | nil => simp at hk
  | cons k0 rest ih =>
    cases rest with
    | nil =>
      simp at hk; subst hk
      simp [cdf_single]
    | cons k2 rest =>
      obtain ⟨-, -, h3, h4⟩ := wf_cons2.1 hwf
      rcases List.mem_cons.1 hk with rfl | hk'
      · rw [cdf_cons2]; simp [h3]
      · have hlt := wf_head_x_lt k0 k2 rest hwf k hk'
        have hle := wf_head_x_le k2 rest h4 k hk'
        rw [cdf_cons2, if_neg (not_lt.2 hlt.le), if_neg (not_lt.2 hle)]
        exact ih h4 hk'

/-- At the jump at `2` the value is the right-hand value `3/4`, not the left limit `1/2`. -/
example : cdf pwEx 2 = 3/4 :=
  cdf_at_knot pwEx (by decide +kernel) ⟨2, 1/2, 3/4⟩ (by simp [pwEx])

/-- **I1 (right tail).** For a well-formed `p`, from the last knot on the value is `1`. -/
theorem cdf_after (p : PW) (hwf : wf p = true) (x : Rat)
    (hx : (p.getLast (wf_ne_nil hwf)).x ≤ x) : cdf p x = 1 := by
  induction p with
  | nil => exact absurd rfl (wf_ne_nil hwf)
  | cons k0 rest ih =>
    cases rest with
    | nil =>
      obtain ⟨-, h2⟩ := wf_single.1 hwf
      simp only [List.getLast_singleton] at hx
      rw [cdf_single, if_neg (not_lt.2 hx), h2]
    | cons k2 rest =>
      obtain ⟨-, -, h3, h4⟩ := wf_cons2.1 hwf
      have hlast : (k0 :: k2 :: rest).getLast (wf_ne_nil hwf) =
          (k2 :: rest).getLast (wf_ne_nil h4) := by simp
      rw [hlast] at hx
      have hle := wf_head_x_le k2 rest h4 _ (List.getLast_mem (wf_ne_nil h4))
      rw [cdf_cons2, if_neg (not_lt.2 (by linarith)), if_neg (not_lt.2 (by linarith))]
      exact ih h4 hx

example : cdf pwEx 7 = 1 := cdf_after pwEx (by decide +kernel) 7 (by norm_num [pwEx])

/-- **I1 (right-continuity proper).** For a well-formed `p` and every `x` there is a `δ > 0` such
that on `[x, x + δ)` the function `cdf p` is affine: `cdf p x' = cdf p x + s * (x' - x)` for a fixed
slope `s ≥ 0`.  In particular `cdf p` is right-continuous at every point. -/
theorem cdf_right_affine (p : PW) (hwf : wf p = true) (x : Rat) :
    ∃ δ s : Rat, 0 < δ ∧ 0 ≤ s ∧ ∀ x', x ≤ x' → x' < x + δ → cdf p x' = cdf p x + s * (x' - x) := by
  induction p with
  | nil => exact absurd rfl (wf_ne_nil hwf)
  | cons k0 rest ih =>
    cases rest with
    | nil =>
      by_cases hx : x < k0.x
      · refine ⟨k0.x - x, 0, by linarith, le_rfl, fun x' h1 h2 => ?_⟩
        rw [cdf_single, cdf_single, if_pos hx, if_pos (by linarith)]; ring
      · refine ⟨1, 0, one_pos, le_rfl, fun x' h1 h2 => ?_⟩
        rw [cdf_single, cdf_single, if_neg hx, if_neg (by linarith [not_lt.1 hx])]; ring
    | cons k2 rest =>
      obtain ⟨-, h2, h3, h4⟩ := wf_cons2.1 hwf
      by_cases hx : x < k0.x
      · refine ⟨k0.x - x, 0, by linarith, le_rfl, fun x' h1 h2 => ?_⟩
        rw [cdf_cons2, cdf_cons2, if_pos hx, if_pos (by linarith)]; ring
      · by_cases hx2 : x < k2.x
        · refine ⟨k2.x - x, (k2.l - k0.r) / (k2.x - k0.x), by linarith,
            div_nonneg (by linarith) (by linarith), fun x' h1 h2 => ?_⟩
          rw [cdf_cons2, cdf_cons2, if_neg hx, if_pos hx2,
            if_neg (by linarith [not_lt.1 hx]), if_pos (by linarith)]
          ring
        · obtain ⟨δ, s, hδ, hs, hh⟩ := ih h4
          refine ⟨δ, s, hδ, hs, fun x' h1 h2 => ?_⟩
          rw [cdf_cons2, cdf_cons2, if_neg hx, if_neg hx2,
            if_neg (by linarith [not_lt.1 hx]), if_neg (by linarith [not_lt.1 hx2])]
          exact hh x' h1 h2

example : ∃ δ s : Rat, 0 < δ ∧ 0 ≤ s ∧
    ∀ x', 2 ≤ x' → x' < 2 + δ → cdf pwEx x' = cdf pwEx 2 + s * (x' - 2) :=
  cdf_right_affine pwEx (by decide +kernel) 2

/-! ## I2: `quantile` is the generalised inverse -/

lemma quantile_core (k : Knot) (rest : PW) (h : wf (k :: rest) = true) (y : Rat)
    (hy0 : k.l < y) (hy1 : y ≤ 1) :
    ∃ q, quantile (k :: rest) y = some q ∧ k.x ≤ q ∧ y ≤ cdf (k :: rest) q ∧
      ∀ x, x < q → cdf (k :: rest) x < y := by
  induction rest generalizing k with
  | nil =>
    obtain ⟨h1, h2⟩ := wf_single.1 h
    refine ⟨k.x, ?_, le_rfl, ?_, ?_⟩
    · rw [quantile_single, if_pos (by rw [h2]; exact hy1)]
    · rw [cdf_single, if_neg (lt_irrefl _), h2]; exact hy1
    · intro x hx; rw [cdf_single, if_pos hx]; exact hy0
  | cons k2 rest ih =>
    obtain ⟨h1, h2, h3, h4⟩ := wf_cons2.1 h
    have hk2 := wf_head_le h4
    by_cases c1 : k.r ≥ y
    · refine ⟨k.x, ?_, le_rfl, ?_, ?_⟩
      · rw [quantile_cons2, if_pos c1]
      · rw [cdf_cons2, if_neg (lt_irrefl _), if_pos h3]; simpa using c1
      · intro x hx; rw [cdf_cons2, if_pos hx]; exact hy0
    · have c1' : k.r < y := not_le.1 c1
      by_cases c2 : k2.l ≥ y
      · obtain ⟨q1, q2, q3, q4⟩ := interp_inv h3 c1' c2
        refine ⟨k.x + (y - k.r) * (k2.x - k.x) / (k2.l - k.r), ?_, q1.le, ?_, ?_⟩
        · rw [quantile_cons2, if_neg c1, if_pos c2]
        · rw [cdf_cons2, if_neg (not_lt.2 q1.le)]
          split_ifs with hq
          · exact q3.ge
          · have := (cdf_bounds k2 rest h4 _).2.2 (not_lt.1 hq)
            linarith
        · intro x hx
          rw [cdf_cons2]
          split_ifs with hx1 hx2
          · exact hy0
          · exact q4 x hx
          · exact absurd (lt_of_lt_of_le hx q2) hx2
      · have c2' : k2.l < y := not_le.1 c2
        obtain ⟨q, e1, e2, e3, e4⟩ := ih k2 h4 c2'
        refine ⟨q, ?_, by linarith, ?_, ?_⟩
        · rw [quantile_cons2, if_neg c1, if_neg c2]; exact e1
        · rw [cdf_cons2, if_neg (not_lt.2 (by linarith)), if_neg (not_lt.2 e2)]; exact e3
        · intro x hx
          rw [cdf_cons2]
          split_ifs with hx1 hx2
          · exact hy0
          · obtain ⟨_, b2⟩ := interp_bounds h2 h3 (not_lt.1 hx1) hx2.le
            linarith
          · exact e4 x hx

/-- **I2 (MAIN).** For a top-level well-formed CDF and every `y ∈ (0, 1]`, `quantile p y` is
defined and returns the smallest `x` with `cdf p x ≥ y`: the returned `q` satisfies `y ≤ cdf p q`,
and every `x < q` has `cdf p x < y`. -/
theorem quantile_spec (p : PW) (hwf : wfTop p = true) (y : Rat) (hy0 : 0 < y) (hy1 : y ≤ 1) :
    ∃ q, quantile p y = some q ∧ y ≤ cdf p q ∧ ∀ x, x < q → cdf p x < y := by
  obtain ⟨k, rest, rfl, h1, h0⟩ := wfTop_iff.1 hwf
  obtain ⟨q, e1, -, e3, e4⟩ := quantile_core k rest h1 y (h0 ▸ hy0) hy1
  exact ⟨q, e1, e3, e4⟩

/-- Values: inside a ramp (`3/8 ↦ 1/2`), on a flat piece the LEFT end (`1/2 ↦ 1`), inside a jump the
jump position (`5/8 ↦ 2`), and `1 ↦ 3`. -/
example : quantile pwEx (3/8) = some (1/2) ∧ quantile pwEx (1/2) = some 1 ∧
    quantile pwEx (5/8) = some 2 ∧ quantile pwEx 1 = some 3 := by decide +kernel
example : ∃ q, quantile pwEx (5/8) = some q ∧ 5/8 ≤ cdf pwEx q ∧ ∀ x, x < q → cdf pwEx x < 5/8 :=
  quantile_spec pwEx (by decide +kernel) (5/8) (by norm_num) (by norm_num)
/-- The hypotheses `0 < y` and `y ≤ 1` cannot be dropped: at `y = 0` the model returns the first
knot although `cdf` is already `≥ 0` to its left (there is no least `x`), and above `1` it returns
`none`. -/
example : quantile pwEx 0 = some 0 ∧ (0 : Rat) ≤ cdf pwEx (-1) ∧ quantile pwEx (9/8) = none := by
  decide +kernel

/-- **I2 (general form).** The same without `first.l = 0`: for `wf p` and any `y` strictly above the
first knot's left limit and at most `1`, `quantile p y` is the least `x` with `cdf p x ≥ y`, and it
is at or after the first knot. -/
theorem quantile_spec_wf (p : PW) (hwf : wf p = true) (y : Rat)
    (hy0 : (p.head (wf_ne_nil hwf)).l < y) (hy1 : y ≤ 1) :
    ∃ q, quantile p y = some q ∧ (p.head (wf_ne_nil hwf)).x ≤ q ∧ y ≤ cdf p q ∧
      ∀ x, x < q → cdf p x < y := by
  cases p with
  | nil => exact absurd rfl (wf_ne_nil hwf)
  | cons k rest => exact quantile_core k rest hwf y hy0 hy1

example : ∃ q, quantile pwEx' (1/2) = some q ∧ 0 ≤ q ∧ 1/2 ≤ cdf pwEx' q ∧
    ∀ x, x < q → cdf pwEx' x < 1/2 :=
  quantile_spec_wf pwEx' (by decide +kernel) (1/2) (by norm_num [pwEx']) (by norm_num)

/-- **I2 (Galois connection).** For `wfTop p`, `y ∈ (0,1]` and `quantile p y = some q`:
`q ≤ x ↔ y ≤ cdf p x`. -/
theorem quantile_galois (p : PW) (hwf : wfTop p = true) (y : Rat) (hy0 : 0 < y) (hy1 : y ≤ 1)
    (q : Rat) (hq : quantile p y = some q) (x : Rat) : q ≤ x ↔ y ≤ cdf p x := by
  obtain ⟨q', e1, e2, e3⟩ := quantile_spec p hwf y hy0 hy1
  rw [hq] at e1
  obtain rfl : q = q' := Option.some.inj e1
  constructor
  · intro h
    exact e2.trans (cdf_mono p (wfTop_wf hwf) h)
  · intro h
    by_contra hlt
    exact absurd (e3 x (not_le.1 hlt)) (not_lt.2 h)

example (x : Rat) : 2 ≤ x ↔ 5/8 ≤ cdf pwEx x :=
  quantile_galois pwEx (by decide +kernel) (5/8) (by norm_num) (by norm_num) 2 (by decide +kernel) x

/-- **I2 (monotone).** The quantile function is monotone on `(0,1]`. -/
theorem quantile_mono (p : PW) (hwf : wfTop p = true) (y y' : Rat) (hy0 : 0 < y) (hyy : y ≤ y')
    (hy1 : y' ≤ 1) (q q' : Rat) (hq : quantile p y = some q) (hq' : quantile p y' = some q') :
    q ≤ q' := by
  rw [quantile_galois p hwf y hy0 (hyy.trans hy1) q hq]
  have := (quantile_galois p hwf y' (hy0.trans_le hyy) hy1 q' hq' q').1 le_rfl
  exact hyy.trans this

example : (1/2 : Rat) ≤ 2 :=
  quantile_mono pwEx (by decide +kernel) (3/8) (5/8) (by norm_num) (by norm_num) (by norm_num)
    (1/2) 2 (by decide +kernel) (by decide +kernel)

/-- **I2 (inverse transform).** For `wfTop p`, the set of `y ∈ (0,1]` whose quantile is `≤ x` is
exactly `(0, cdf p x] ∩ (0,1]` (and `cdf p x ≤ 1`, so this is `(0, cdf p x]`).  Hence if `U` is
uniform on `(0,1]`, `P(quantile p U ≤ x) = cdf p x`: `quantile p U` has CDF `cdf p`. -/
theorem inverse_transform (p : PW) (hwf : wfTop p = true) (x : Rat) :
    {y ∈ Set.Ioc (0 : Rat) 1 | ∃ q, quantile p y = some q ∧ q ≤ x} =
      Set.Ioc 0 (cdf p x) ∩ Set.Ioc 0 1 := by
  ext y
  simp only [Set.mem_ofPred_eq, Set.mem_inter_iff, Set.mem_Ioc]
  constructor
  · rintro ⟨⟨h0, h1⟩, q, hq, hqx⟩
    exact ⟨⟨h0, (quantile_galois p hwf y h0 h1 q hq x).1 hqx⟩, h0, h1⟩
  · rintro ⟨⟨h0, hc⟩, -, h1⟩
    obtain ⟨q, hq, -, -⟩ := quantile_spec p hwf y h0 h1
    exact ⟨⟨h0, h1⟩, q, hq, (quantile_galois p hwf y h0 h1 q hq x).2 hc⟩

/-- The same set is simply `(0, cdf p x]`, because `cdf p x ≤ 1`. -/
theorem inverse_transform' (p : PW) (hwf : wfTop p = true) (x : Rat) :
    {y ∈ Set.Ioc (0 : Rat) 1 | ∃ q, quantile p y = some q ∧ q ≤ x} = Set.Ioc 0 (cdf p x) := by
  rw [inverse_transform p hwf x]
  ext y
  simp only [Set.mem_inter_iff, Set.mem_Ioc]
  have := (cdf_range_top p hwf x).2
  constructor
  · rintro ⟨h, -⟩; exact h
  · rintro ⟨h0, h1⟩; exact ⟨⟨h0, h1⟩, h0, h1.trans this⟩

example : {y ∈ Set.Ioc (0 : Rat) 1 | ∃ q, quantile pwEx y = some q ∧ q ≤ 5/2} = Set.Ioc 0 (7/8) := by
  rw [inverse_transform' pwEx (by decide +kernel), show cdf pwEx (5/2) = 7/8 by decide +kernel]

/-! ## I3: bisection -/

lemma bisect_zero (F : Rat → Rat) (y : Rat) (mid : Rat → Rat → Rat) (tol lo hi : Rat) :
    bisect F y mid tol 0 lo hi = (lo, hi) := rfl

lemma bisect_succ (F : Rat → Rat) (y : Rat) (mid : Rat → Rat → Rat) (tol : Rat) (f : Nat)
    (lo hi : Rat) :
    bisect F y mid tol (f + 1) lo hi =
      if hi - lo ≤ tol then (lo, hi)
      else if mid lo hi = lo ∨ mid lo hi = hi then (lo, hi)
      else if F (mid lo hi) < y then bisect F y mid tol f (mid lo hi) hi
      else bisect F y mid tol f lo (mid lo hi) := by
  simp [bisect]

lemma bisect_inv_aux (F : Rat → Rat) (y : Rat) (mid : Rat → Rat → Rat) (tol : Rat) (fuel : Nat)
    (lo hi : Rat) (h : F lo < y ∧ y ≤ F hi) (hlt : lo < hi)
    (hmid : ∀ a b, a < b → a ≤ mid a b ∧ mid a b ≤ b) :
    F (bisect F y mid tol fuel lo hi).1 < y ∧ y ≤ F (bisect F y mid tol fuel lo hi).2 ∧
      lo ≤ (bisect F y mid tol fuel lo hi).1 ∧
      (bisect F y mid tol fuel lo hi).1 < (bisect F y mid tol fuel lo hi).2 ∧
      (bisect F y mid tol fuel lo hi).2 ≤ hi := by
  induction fuel generalizing lo hi with
  | zero => exact ⟨h.1, h.2, le_rfl, hlt, le_rfl⟩
  | succ f ih =>
    rw [bisect_succ]
    split_ifs with c1 c2 c3
    · exact ⟨h.1, h.2, le_rfl, hlt, le_rfl⟩
    · exact ⟨h.1, h.2, le_rfl, hlt, le_rfl⟩
    · obtain ⟨m1, m2⟩ := hmid lo hi hlt
      have c2 := not_or.1 c2
      have hm : mid lo hi < hi := lt_of_le_of_ne m2 c2.2
      obtain ⟨a, b, c, d, e⟩ := ih (mid lo hi) hi ⟨c3, h.2⟩ hm
      exact ⟨a, b, m1.trans c, d, e⟩
    · obtain ⟨m1, m2⟩ := hmid lo hi hlt
      have c2 := not_or.1 c2
      have hm : lo < mid lo hi := lt_of_le_of_ne m1 (Ne.symm c2.1)
      obtain ⟨a, b, c, d, e⟩ := ih lo (mid lo hi) ⟨h.1, not_lt.1 c3⟩ hm
      exact ⟨a, b, c, d, e.trans m2⟩

/-- **I3 (bisection invariant).** For ANY function `F` and ANY midpoint rule `mid` with
`mid a b ∈ [a,b]`: if `F lo < y ≤ F hi` and `lo < hi`, the pair `(lo', hi')` returned by `bisect`
(for any tolerance and any fuel) still satisfies `F lo' < y ≤ F hi'`, and
`lo ≤ lo' < hi' ≤ hi`. -/
theorem bisect_invariant (F : Rat → Rat) (y : Rat) (mid : Rat → Rat → Rat) (tol : Rat) (fuel : Nat)
    (lo hi : Rat) (h : F lo < y ∧ y ≤ F hi) (hlt : lo < hi)
    (hmid : ∀ a b, a < b → a ≤ mid a b ∧ mid a b ≤ b) :
    let (lo', hi') := bisect F y mid tol fuel lo hi
    F lo' < y ∧ y ≤ F hi' ∧ lo ≤ lo' ∧ lo' < hi' ∧ hi' ≤ hi := by
  have := bisect_inv_aux F y mid tol fuel lo hi h hlt hmid
  revert this
  generalize bisect F y mid tol fuel lo hi = r
  obtain ⟨a, b⟩ := r
  exact fun h => h

example : bisect (cdf pwEx) (5/8) (fun a b => (a + b) / 2) (1/100) 4 0 3 = (15/8, 33/16) := by
  decide +kernel
example :
    let (lo', hi') := bisect (cdf pwEx) (5/8) (fun a b => (a + b) / 2) (1/100) 4 0 3
    cdf pwEx lo' < 5/8 ∧ 5/8 ≤ cdf pwEx hi' ∧ 0 ≤ lo' ∧ lo' < hi' ∧ hi' ≤ 3 :=
  bisect_invariant (cdf pwEx) (5/8) (fun a b => (a + b) / 2) (1/100) 4 0 3 (by decide +kernel)
    (by norm_num) (fun a b h => by constructor <;> linarith)
/-- A non-monotone function and a lopsided midpoint rule, for the next example. -/
def fEx (x : Rat) : Rat := x * x - 2 * x
/-- See `fEx`. -/
def midEx (a b : Rat) : Rat := (3 * a + b) / 4
/-- The invariant also holds for a lopsided midpoint rule and a non-monotone `F`. -/
example :
    let (lo', hi') := bisect fEx 1 midEx 0 9 0 3
    fEx lo' < 1 ∧ 1 ≤ fEx hi' ∧ 0 ≤ lo' ∧ lo' < hi' ∧ hi' ≤ 3 :=
  bisect_invariant fEx 1 midEx 0 9 0 3 (by norm_num [fEx])
    (by norm_num) (fun a b h => by unfold midEx; constructor <;> linarith)

/-- **I3 (bisection brackets the true quantile).** If moreover `F` is monotone and `q` is the least
solution of `y ≤ F x` (`y ≤ F q` and `F x < y` for all `x < q`), then the returned pair brackets it:
`lo' < q ≤ hi'`; so the returned `hi'` over-estimates the true quantile by less than the final
width `hi' - lo'`. -/
theorem bisect_brackets (F : Rat → Rat) (hF : Monotone F) (y : Rat) (mid : Rat → Rat → Rat)
    (tol : Rat) (fuel : Nat) (lo hi : Rat) (h : F lo < y ∧ y ≤ F hi) (hlt : lo < hi)
    (hmid : ∀ a b, a < b → a ≤ mid a b ∧ mid a b ≤ b)
    (q : Rat) (hq : y ≤ F q) (hleast : ∀ x, x < q → F x < y) :
    let (lo', hi') := bisect F y mid tol fuel lo hi
    lo' < q ∧ q ≤ hi' ∧ 0 ≤ hi' - q ∧ hi' - q < hi' - lo' := by
  have := bisect_inv_aux F y mid tol fuel lo hi h hlt hmid
  revert this
  generalize bisect F y mid tol fuel lo hi = r
  obtain ⟨a, b⟩ := r
  rintro ⟨h1, h2, -, -, -⟩
  have hlo : a < q := by
    by_contra hc
    exact absurd (lt_of_le_of_lt (hq.trans (hF (not_lt.1 hc))) h1) (lt_irrefl _)
  have hhi : q ≤ b := by
    by_contra hc
    exact absurd (hleast b (not_le.1 hc)) (not_lt.2 h2)
  exact ⟨hlo, hhi, by linarith, by linarith⟩

example :
    let (lo', hi') := bisect (cdf pwEx) (3/8) (fun a b => (a + b) / 2) (1/100) 4 0 3
    lo' < 1/2 ∧ 1/2 ≤ hi' ∧ 0 ≤ hi' - 1/2 ∧ hi' - 1/2 < hi' - lo' :=
  bisect_brackets (cdf pwEx) (cdf_mono pwEx (by decide +kernel)) (3/8) (fun a b => (a + b) / 2)
    (1/100) 4 0 3 (by decide +kernel) (by norm_num) (fun a b h => by constructor <;> linarith)
    (1/2) (by decide +kernel)
    (fun x hx => lt_of_not_ge ((quantile_galois pwEx (by decide +kernel) (3/8) (by norm_num)
      (by norm_num) (1/2) (by decide +kernel) x).not.1 (not_le.2 hx)))

/-- **I3 (tolerance).** Under the hypotheses of `bisect_brackets`, if the returned interval has width
`≤ tol` (i.e. the loop stopped on the tolerance test) then `hi'` is within `tol` above the true
quantile: `0 ≤ hi' - q ≤ tol` (in fact `< tol`). -/
theorem bisect_tol (F : Rat → Rat) (hF : Monotone F) (y : Rat) (mid : Rat → Rat → Rat)
    (tol : Rat) (fuel : Nat) (lo hi : Rat) (h : F lo < y ∧ y ≤ F hi) (hlt : lo < hi)
    (hmid : ∀ a b, a < b → a ≤ mid a b ∧ mid a b ≤ b)
    (q : Rat) (hq : y ≤ F q) (hleast : ∀ x, x < q → F x < y) :
    let (lo', hi') := bisect F y mid tol fuel lo hi
    hi' - lo' ≤ tol → 0 ≤ hi' - q ∧ hi' - q < tol := by
  have := bisect_brackets F hF y mid tol fuel lo hi h hlt hmid q hq hleast
  revert this
  generalize bisect F y mid tol fuel lo hi = r
  obtain ⟨a, b⟩ := r
  rintro ⟨h1, h2, h3, h4⟩ hw
  exact ⟨h3, by linarith⟩

example : bisect (cdf pwEx) (3/8) (fun a b => (a + b) / 2) (1/2) 40 0 3 = (3/8, 3/4) := by
  decide +kernel

/-- **I3 (progress with the exact midpoint).** With the arithmetic midpoint `(a+b)/2` the final width
is at most `max tol ((hi - lo) / 2 ^ fuel)`: either the tolerance was reached or every unit of fuel
halved the interval. -/
theorem bisect_width_half (F : Rat → Rat) (y : Rat) (tol : Rat) (fuel : Nat) (lo hi : Rat)
    (hlt : lo < hi) :
    (bisect F y (fun a b => (a + b) / 2) tol fuel lo hi).2 -
      (bisect F y (fun a b => (a + b) / 2) tol fuel lo hi).1 ≤ max tol ((hi - lo) / 2 ^ fuel) := by
  induction fuel generalizing lo hi with
  | zero => simp [bisect_zero]
  | succ f ih =>
    rw [bisect_succ]
    have hm1 : (lo + hi) / 2 ≠ lo := by intro e; linarith
    have hm2 : (lo + hi) / 2 ≠ hi := by intro e; linarith
    split_ifs with c1 c2 c3
    · exact le_max_of_le_left c1
    · exact absurd c2 (not_or.2 ⟨hm1, hm2⟩)
    · refine (ih ((lo + hi) / 2) hi (by linarith)).trans (max_le_max le_rfl (le_of_eq ?_))
      rw [pow_succ]; field_simp; ring
    · refine (ih lo ((lo + hi) / 2) (by linarith)).trans (max_le_max le_rfl (le_of_eq ?_))
      rw [pow_succ]; field_simp; ring

example : (bisect (cdf pwEx) (3/8) (fun a b => (a + b) / 2) (1/100) 4 0 3).2 -
    (bisect (cdf pwEx) (3/8) (fun a b => (a + b) / 2) (1/100) 4 0 3).1 ≤ max (1/100) ((3 - 0) / 2 ^ 4) :=
  bisect_width_half (cdf pwEx) (3/8) (1/100) 4 0 3 (by norm_num)

/-- **I3 applied to the piecewise CDF.** Bisection on `cdf p` (for `wfTop p`, `y ∈ (0,1]`) from a valid
bracket returns `(lo', hi')` with `lo' < q ≤ hi'` where `quantile p y = some q`. -/
theorem bisect_cdf_quantile (p : PW) (hwf : wfTop p = true) (y : Rat) (hy0 : 0 < y) (hy1 : y ≤ 1)
    (mid : Rat → Rat → Rat) (tol : Rat) (fuel : Nat) (lo hi : Rat)
    (h : cdf p lo < y ∧ y ≤ cdf p hi) (hlt : lo < hi)
    (hmid : ∀ a b, a < b → a ≤ mid a b ∧ mid a b ≤ b) :
    ∃ q, quantile p y = some q ∧
      (bisect (cdf p) y mid tol fuel lo hi).1 < q ∧ q ≤ (bisect (cdf p) y mid tol fuel lo hi).2 := by
  obtain ⟨q, e1, e2, e3⟩ := quantile_spec p hwf y hy0 hy1
  have := bisect_brackets (cdf p) (cdf_mono p (wfTop_wf hwf)) y mid tol fuel lo hi h hlt hmid q e2 e3
  revert this
  generalize bisect (cdf p) y mid tol fuel lo hi = r
  obtain ⟨a, b⟩ := r
  rintro ⟨h1, h2, -, -⟩
  exact ⟨q, e1, h1, h2⟩

example : ∃ q, quantile pwEx (5/8) = some q ∧
    (bisect (cdf pwEx) (5/8) (fun a b => (a + b) / 2) (1/100) 4 0 3).1 < q ∧
    q ≤ (bisect (cdf pwEx) (5/8) (fun a b => (a + b) / 2) (1/100) 4 0 3).2 :=
  bisect_cdf_quantile pwEx (by decide +kernel) (5/8) (by norm_num) (by norm_num) _ _ _ 0 3
    (by decide +kernel) (by norm_num) (fun a b h => by constructor <;> linarith)

/-! ## I4: bracketing -/

lemma bracketUp_succ (F : Rat → Rat) (y : Rat) (f : Nat) (lo hi d : Rat) :
    bracketUp F y (f + 1) lo hi d =
      if F hi < y then bracketUp F y f hi (hi + d) (2 * d) else some (lo, hi) := rfl

lemma bracketDown_succ (F : Rat → Rat) (y : Rat) (f : Nat) (lo hi d : Rat) :
    bracketDown F y (f + 1) lo hi d =
      if y ≤ F lo then bracketDown F y f (lo - d) lo (2 * d) else some (lo, hi) := rfl

/-- **I4 (upward bracketing).** If `bracketUp F y fuel lo hi d = some (a, b)` where initially
`F lo < y`, `lo ≤ hi` and `d > 0`, then `F a < y ≤ F b`, `a < b` and `lo ≤ a`.
(The code calls `bracketUp F y fuel 0 0 1` when `F 0 < y`: `lo = hi = 0`, so the precondition
holds.)  No assumption on `F`. -/
theorem bracketUp_spec (F : Rat → Rat) (y : Rat) (fuel : Nat) (lo hi d a b : Rat)
    (hlo : F lo < y) (hle : lo ≤ hi) (hd : 0 < d)
    (hres : bracketUp F y fuel lo hi d = some (a, b)) :
    F a < y ∧ y ≤ F b ∧ a < b ∧ lo ≤ a := by
  induction fuel generalizing lo hi d with
  | zero => simp [bracketUp] at hres
  | succ f ih =>
    rw [bracketUp_succ] at hres
    split_ifs at hres with c
    · obtain ⟨h1, h2, h3, h4⟩ := ih hi (hi + d) (2 * d) c (by linarith) (by linarith) hres
      exact ⟨h1, h2, h3, hle.trans h4⟩
    · simp only [Option.some.injEq, Prod.mk.injEq] at hres
      obtain ⟨rfl, rfl⟩ := hres
      have hy : y ≤ F hi := not_lt.1 c
      refine ⟨hlo, hy, lt_of_le_of_ne hle ?_, le_rfl⟩
      rintro rfl
      exact absurd (lt_of_lt_of_le hlo hy) (lt_irrefl _)

/-- **I4 (upward bracketing, as called).** `bracketUp F y fuel 0 0 1 = some (a, b)` with `F 0 < y`
gives a valid bracket `F a < y ≤ F b`, `0 ≤ a < b`. -/
theorem bracketUp_call (F : Rat → Rat) (y : Rat) (fuel : Nat) (a b : Rat) (h0 : F 0 < y)
    (hres : bracketUp F y fuel 0 0 1 = some (a, b)) : F a < y ∧ y ≤ F b ∧ a < b ∧ 0 ≤ a :=
  bracketUp_spec F y fuel 0 0 1 a b h0 le_rfl one_pos hres

example : bracketUp (cdf pwEx) (5/8) 10 0 0 1 = some (1, 3) := by decide +kernel
example : cdf pwEx 1 < 5/8 ∧ 5/8 ≤ cdf pwEx 3 ∧ (1 : Rat) < 3 ∧ (0 : Rat) ≤ 1 :=
  bracketUp_call (cdf pwEx) (5/8) 10 1 3 (by decide +kernel) (by decide +kernel)
/-- The precondition `F lo < y` cannot be dropped: called with `y ≤ F 0`, `bracketUp` returns the
degenerate pair `(0, 0)`, which is not a bracket. -/
example : bracketUp (cdf pwEx) (1/8) 10 0 0 1 = some (0, 0) := by decide +kernel
/-- Running out of fuel yields `none` (the theorem says nothing then). -/
example : bracketUp (cdf pwEx) (5/8) 2 0 0 1 = none := by decide +kernel

/-- **I4 (downward bracketing).** If `bracketDown F y fuel lo hi d = some (a, b)` where initially
`y ≤ F hi`, `lo ≤ hi` and `d > 0`, then `F a < y ≤ F b`, `a < b` and `b ≤ hi`.
(The code calls `bracketDown F y fuel 0 0 1` when `y ≤ F 0`.)  No assumption on `F`. -/
theorem bracketDown_spec (F : Rat → Rat) (y : Rat) (fuel : Nat) (lo hi d a b : Rat)
    (hhi : y ≤ F hi) (hle : lo ≤ hi) (hd : 0 < d)
    (hres : bracketDown F y fuel lo hi d = some (a, b)) :
    F a < y ∧ y ≤ F b ∧ a < b ∧ b ≤ hi := by
  induction fuel generalizing lo hi d with
  | zero => simp [bracketDown] at hres
  | succ f ih =>
    rw [bracketDown_succ] at hres
    split_ifs at hres with c
    · obtain ⟨h1, h2, h3, h4⟩ := ih (lo - d) lo (2 * d) c (by linarith) (by linarith) hres
      exact ⟨h1, h2, h3, h4.trans hle⟩
    · simp only [Option.some.injEq, Prod.mk.injEq] at hres
      obtain ⟨rfl, rfl⟩ := hres
      have hy : F lo < y := not_le.1 c
      refine ⟨hy, hhi, lt_of_le_of_ne hle ?_, le_rfl⟩
      rintro rfl
      exact absurd (lt_of_lt_of_le hy hhi) (lt_irrefl _)

/-- **I4 (downward bracketing, as called).** `bracketDown F y fuel 0 0 1 = some (a, b)` with
`y ≤ F 0` gives a valid bracket `F a < y ≤ F b`, `a < b ≤ 0`. -/
theorem bracketDown_call (F : Rat → Rat) (y : Rat) (fuel : Nat) (a b : Rat) (h0 : y ≤ F 0)
    (hres : bracketDown F y fuel 0 0 1 = some (a, b)) : F a < y ∧ y ≤ F b ∧ a < b ∧ b ≤ 0 :=
  bracketDown_spec F y fuel 0 0 1 a b h0 le_rfl one_pos hres

example : bracketDown (cdf pwEx) (1/8) 10 0 0 1 = some (-1, 0) := by decide +kernel
example : cdf pwEx (-1) < 1/8 ∧ 1/8 ≤ cdf pwEx 0 ∧ (-1 : Rat) < 0 ∧ (0 : Rat) ≤ 0 :=
  bracketDown_call (cdf pwEx) (1/8) 10 (-1) 0 (by decide +kernel) (by decide +kernel)

end MV.InvCDF
