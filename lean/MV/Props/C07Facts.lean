import MV.Props.FactsLib
/-! Source facts the C07 model relies on (checked against the facts regenerated from /repo on every run). -/
namespace MV.Facts

def expectedC07 : List (String × String) := [("lits:stats.InvCDF", "0 0 0 0 0.0 1 1 1 1.0 1e-16 1e100 2 2")]

/-- the constants and literals the C07 model mirrors are still what the source says -/
theorem facts_C07 : holdsAll expectedC07 = true := by decide

end MV.Facts
