import MV.Props.FactsLib
/-! Source facts the C07 model relies on (checked against the facts regenerated from /repo on every run). -/
namespace MV.Facts

def expectedC07 : List (String × String) := [("lits:stats.InvCDF", "0 0 0 0 0.0 1 1 1 1.0 1e-16 1e100 2 2")]

/-- the constants and literals the C07 model mirrors are still what the source says -/
theorem facts_C07 : holdsAll expectedC07 = true := by decide


/-- State that outlives a call, as extracted from the source on this run: the package-level
variables of the packages this property's code lives in, the functions (other than `init`) that
assign to them or call methods on them, and the fields of the property's struct types. The model is
a pure function of the arguments and of these fields; a new variable, writer or field is state the
model does not know of. The digest-valued entries cover, per package: every declared function and
method with its receiver kind (`funcs:`), every function-reads-package-variable pair (`reads:`) and
every write through a parameter or receiver, including in-place `sort.*`/`copy` (`pwrites:`); the
lists behind the digests are in `funcs_expected.txt` and in comments of the generated file. -/
def stateC07 : List (String × String) := [("globals:stats", "ErrMismatchedSamples ErrSampleSize ErrSamplesEqual ErrZeroVariance MannWhitneyExactLimit MannWhitneyTiesExactLimit StdNormal _KDEBoundaryMethod_index _KDEKernel_index _LocationHypothesis_index inf nan quantileCIApproxThreshold"), ("globals:mathx", "nan smallFact"), ("globalwrites:stats", "MannWhitneyUTest:StdNormal.CDF"), ("globalwrites:mathx", ""), ("funcs:stats", "n=117 fnv64a=f105f997db64badb"), ("reads:stats", "n=25 fnv64a=8314b76793c8b23b"), ("pwrites:stats", "n=12 fnv64a=4e7a6b5338e6d373"), ("funcs:mathx", "n=13 fnv64a=721c592b642cc9ba"), ("reads:mathx", "n=2 fnv64a=0b5c58057d585a6b"), ("pwrites:mathx", "n=0 fnv64a=cbf29ce484222325")]

/-- the source has exactly the package-level variables, writers and struct fields the model accounts for -/
theorem state_C07 : holdsAll stateC07 = true := by decide +kernel

end MV.Facts
