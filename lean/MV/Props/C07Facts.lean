import MV.Props.FactsLib
/-! Source facts the C07 model relies on (checked against the facts regenerated from /repo on every run). -/
namespace MV.Facts

def expectedC07 : List (String × String) := [("lits:stats.InvCDF", "0 0 0 0 0.0 1 1 1 1.0 1e-16 1e100 2 2")]

/-- the constants and literals the C07 model mirrors are still what the source says -/
theorem facts_C07 : holdsAll expectedC07 = true := by decide


/-- State that outlives a call, as extracted from the source on this run: the package-level
variables of the packages this property's code lives in, the functions (other than `init`) that
assign to them or call methods on them, and the fields of the property's struct types. The model is
a pure function of the arguments and of these fields; a new variable, writer or field is state the
model does not know of. The digest-valued `shape:` entry covers everything the call graph
(resolved by go/types) reaches from the functions declared in the property's anchor files: per
function, method (with receiver kind), package variable and constant, its numeric literals, its comparison operators, the
package variables it reads and its writes through parameters or the receiver (including in-place
`sort.*`/`copy`/`append`). The entries behind the digest are in `shape_expected.txt` and in a
comment of the generated file. -/
def stateC07 : List (String × String) := [("globals:stats", "ErrMismatchedSamples ErrSampleSize ErrSamplesEqual ErrZeroVariance MannWhitneyExactLimit MannWhitneyTiesExactLimit StdNormal _KDEBoundaryMethod_index _KDEKernel_index _LocationHypothesis_index inf nan quantileCIApproxThreshold"), ("globals:mathx", "nan smallFact"), ("globalwrites:stats", "MannWhitneyUTest:StdNormal.CDF"), ("globalwrites:mathx", ""), ("shape:C07", "n=66 fnv64a=20a2a94f5d6dae36")]

/-- the source has exactly the package-level variables, writers and struct fields the model accounts for -/
theorem state_C07 : holdsAll stateC07 = true := by decide +kernel

end MV.Facts
