import Mathlib
import MV.Model.Special
import MV.Props.C06
import MV.Proofs.Interval
/-!
# C08 — reference values for special functions (closed-form slices)

* B1: `betaIncInt` is the binomial tail sum; values at 0, 1; range; complement identity.
* B2: over ℝ it has derivative `x^(a-1) (1-x)^(b-1) / B(a,b)` (route taken: the telescoping
  derivative of the binomial tail, not the discrete coupling argument), hence it is monotone on
  `[0,1]` and equals the normalised integral of `t^(a-1) (1-t)^(b-1)`; `betaInt` closed form,
  symmetry, and `betaInt a b = ∫₀¹ t^(a-1) (1-t)^(b-1)`.
* B3: `gammaIncInt` encloses `1 − e^{−x} Σ_{k<a} x^k/k!`, whose derivative is
  `e^{−x} x^{a−1}/(a−1)!`, value 0 at 0, monotone on `[0,∞)`, integral representation.
* B4: `lchoose` encloses `log C(n,k)`.
* B5: `tCDF 1 t` encloses `1/2 + arctan t / π`.
-/
namespace MV.Special
open Finset MV MV.I

/-! ## helpers: the model's folds agree with Mathlib -/

lemma ratPowNat_eq (q : ℚ) (n : ℕ) : I.ratPowNat q n = q ^ n := by
  unfold I.ratPowNat
  induction n with
  | zero => simp
  | succ n ih => rw [List.range_succ, List.foldl_append, ih]; simp [pow_succ]

lemma fact_eq (n : ℕ) : fact n = n.factorial := by
  unfold fact
  induction n with
  | zero => simp
  | succ n ih =>
    rw [List.range_succ, List.foldl_append, ih]
    simp [Nat.factorial_succ, Nat.mul_comm]

/-! ## the binomial tail, over any commutative ring -/

/-- `binTail n a x = Σ_{j=a}^{n} C(n,j) x^j (1-x)^(n-j)` : upper tail of Binomial(n, x). -/
def binTail {R : Type*} [CommRing R] (n a : ℕ) (x : R) : R :=
  ∑ j ∈ Ico a (n + 1), (n.choose j : R) * x ^ j * (1 - x) ^ (n - j)

lemma binom_full {R : Type*} [CommRing R] (n : ℕ) (x : R) :
    ∑ j ∈ range (n + 1), (n.choose j : R) * x ^ j * (1 - x) ^ (n - j) = 1 := by
  have h := add_pow x (1 - x) n
  rw [add_sub_cancel, one_pow] at h
  refine Eq.trans ?_ h.symm
  apply sum_congr rfl
  intro j _
  ring

lemma binTail_zero_left {R : Type*} [CommRing R] (n : ℕ) (x : R) : binTail n 0 x = 1 := by
  unfold binTail
  rw [← Finset.range_eq_Ico] at *
  exact binom_full n x

lemma binTail_add_head {R : Type*} [CommRing R] (n a : ℕ) (x : R) (ha : a ≤ n + 1) :
    binTail n a x + ∑ j ∈ range a, (n.choose j : R) * x ^ j * (1 - x) ^ (n - j) = 1 := by
  unfold binTail
  rw [add_comm, sum_range_add_sum_Ico _ ha, binom_full]

lemma binTail_reflect {R : Type*} [CommRing R] (n b : ℕ) (x : R) :
    binTail n b (1 - x) = ∑ j ∈ range (n + 1 - b), (n.choose j : R) * x ^ j * (1 - x) ^ (n - j) := by
  unfold binTail
  have h := sum_Ico_reflect (fun j => (n.choose j : R) * x ^ j * (1 - x) ^ (n - j)) b (le_refl (n + 1))
  rw [Nat.sub_self, ← Finset.range_eq_Ico] at h
  rw [← h]
  apply sum_congr rfl
  intro j hj
  have hj' : j ≤ n := by
    have := (mem_Ico.1 hj).2
    omega
  rw [Nat.choose_symm hj', Nat.sub_sub_self hj', sub_sub_cancel]
  ring

lemma binTail_compl {R : Type*} [CommRing R] (n a b : ℕ) (x : R) (h : a + b = n + 1) :
    binTail n a x + binTail n b (1 - x) = 1 := by
  rw [binTail_reflect]
  have : n + 1 - b = a := by omega
  rw [this]
  exact binTail_add_head n a x (by omega)

lemma binTail_nonneg {R : Type*} [CommRing R] [LinearOrder R] [IsStrictOrderedRing R]
    (n a : ℕ) (x : R) (h0 : 0 ≤ x) (h1 : x ≤ 1) : 0 ≤ binTail n a x := by
  unfold binTail
  apply sum_nonneg
  intro j _
  have : 0 ≤ 1 - x := sub_nonneg.2 h1
  positivity

lemma binTail_le_one {R : Type*} [CommRing R] [LinearOrder R] [IsStrictOrderedRing R]
    (n a : ℕ) (x : R) (h0 : 0 ≤ x) (h1 : x ≤ 1) : binTail n a x ≤ 1 := by
  have h1x : 0 ≤ 1 - x := sub_nonneg.2 h1
  by_cases ha : a ≤ n + 1
  · rw [← binTail_add_head n a x ha]
    apply le_add_of_nonneg_right
    apply sum_nonneg
    intro j _
    positivity
  · unfold binTail
    rw [Ico_eq_empty (by omega)]
    simp

/-! ## B1: `betaIncInt` is the binomial tail -/

/-- `betaIncInt x a b` is exactly the binomial sum
`Σ_{j=a}^{a+b−1} C(a+b−1, j) x^j (1−x)^(a+b−1−j)` (for all naturals `a b`, in particular `a, b ≥ 1`). -/
theorem betaIncInt_eq (x : ℚ) (a b : ℕ) :
    betaIncInt x a b =
      ∑ j ∈ Ico a (a + b), (Nat.choose (a + b - 1) j : ℚ) * x ^ j * (1 - x) ^ (a + b - 1 - j) := by
  unfold betaIncInt
  simp only []
  rw [MV.Discrete.foldl_add_eq_sum, sum_Ico_eq_sum_range]
  simp [ratPowNat_eq, MV.Discrete.chooseFast_eq_choose]

example : betaIncInt (1/3) 2 3 = ∑ j ∈ Ico 2 5, (Nat.choose 4 j : ℚ) * (1/3) ^ j * (1 - 1/3) ^ (4 - j) :=
  betaIncInt_eq (1/3) 2 3

lemma betaIncInt_eq_binTail (x : ℚ) (a b : ℕ) (hb : 1 ≤ b) :
    betaIncInt x a b = binTail (a + b - 1) a x := by
  rw [betaIncInt_eq]
  unfold binTail
  have : a + b - 1 + 1 = a + b := by omega
  rw [this]

lemma betaIncInt_b_zero (x : ℚ) (a : ℕ) : betaIncInt x a 0 = 0 := by
  rw [betaIncInt_eq]; simp

/-- At `x = 0` the integer-parameter incomplete beta vanishes (needs only `a ≥ 1`). -/
theorem betaIncInt_zero (a b : ℕ) (ha : 1 ≤ a) : betaIncInt 0 a b = 0 := by
  rw [betaIncInt_eq]
  apply sum_eq_zero
  intro j hj
  have : j ≠ 0 := by
    have := (mem_Ico.1 hj).1
    omega
  simp [this]

example : betaIncInt 0 2 3 = 0 := betaIncInt_zero 2 3 (by decide)

/-- At `x = 1` the integer-parameter incomplete beta equals one (needs only `b ≥ 1`). -/
theorem betaIncInt_one (a b : ℕ) (hb : 1 ≤ b) : betaIncInt 1 a b = 1 := by
  rw [betaIncInt_eq]
  rw [sum_eq_single (a + b - 1)]
  · simp
  · intro j hj hne
    have : a + b - 1 - j ≠ 0 := by
      have := (mem_Ico.1 hj).2
      omega
    simp [this]
  · intro h
    exfalso
    apply h
    rw [mem_Ico]
    omega

example : betaIncInt 1 2 3 = 1 := betaIncInt_one 2 3 (by decide)

/-- For `0 ≤ x ≤ 1` the value lies in `[0,1]` (a partial sum of the Binomial(a+b−1, x)
probabilities, which sum to one).  Holds for all naturals `a b`. -/
theorem betaIncInt_range (x : ℚ) (a b : ℕ) (h0 : 0 ≤ x) (h1 : x ≤ 1) :
    0 ≤ betaIncInt x a b ∧ betaIncInt x a b ≤ 1 := by
  rcases Nat.eq_zero_or_pos b with hb | hb
  · subst hb
    rw [betaIncInt_b_zero]
    exact ⟨le_refl _, zero_le_one⟩
  · rw [betaIncInt_eq_binTail x a b hb]
    exact ⟨binTail_nonneg _ _ x h0 h1, binTail_le_one _ _ x h0 h1⟩

example : 0 ≤ betaIncInt (2/7) 3 4 ∧ betaIncInt (2/7) 3 4 ≤ 1 :=
  betaIncInt_range (2/7) 3 4 (by norm_num) (by norm_num)

/-- Complement identity `I_x(a,b) + I_{1−x}(b,a) = 1` for `a, b ≥ 1` and every rational `x`. -/
theorem betaIncInt_compl (x : ℚ) (a b : ℕ) (ha : 1 ≤ a) (hb : 1 ≤ b) :
    betaIncInt x a b + betaIncInt (1 - x) b a = 1 := by
  rw [betaIncInt_eq_binTail x a b hb, betaIncInt_eq_binTail (1 - x) b a ha]
  have : b + a - 1 = a + b - 1 := by omega
  rw [this]
  exact binTail_compl (a + b - 1) a b x (by omega)

example : betaIncInt (2/7) 3 4 + betaIncInt (1 - 2/7) 4 3 = 1 :=
  betaIncInt_compl (2/7) 3 4 (by decide) (by decide)

/-! ## B2: derivative, monotonicity, normalising constant -/

/-- closed form of `betaInt`: `B(a,b) = (a−1)!(b−1)!/(a+b−1)!` -/
theorem betaInt_eq (a b : ℕ) :
    betaInt a b = ((a - 1).factorial * (b - 1).factorial : ℚ) / ((a + b - 1).factorial : ℚ) := by
  unfold betaInt
  simp [fact_eq]

example : betaInt 3 4 = (2 * 6 : ℚ) / 720 := by rw [betaInt_eq]; norm_num [Nat.factorial]

/-- `B(a,b) = B(b,a)` -/
theorem betaInt_symm (a b : ℕ) : betaInt a b = betaInt b a := by
  unfold betaInt
  rw [Nat.mul_comm, Nat.add_comm]

example : betaInt 3 4 = betaInt 4 3 := betaInt_symm 3 4

lemma betaInt_pos (a b : ℕ) : 0 < betaInt a b := by
  rw [betaInt_eq]; positivity

/-- the real-variable version of `betaIncInt` (same polynomial) -/
noncomputable def betaIncR (x : ℝ) (a b : ℕ) : ℝ := binTail (a + b - 1) a x

lemma binTail_cast (n a : ℕ) (x : ℚ) : ((binTail n a x : ℚ) : ℝ) = binTail n a (x : ℝ) := by
  unfold binTail
  push_cast
  rfl

/-- The exact rational `betaIncInt`, viewed in ℝ, is the real polynomial `betaIncR`. -/
theorem betaIncInt_cast (x : ℚ) (a b : ℕ) (hb : 1 ≤ b) :
    ((betaIncInt x a b : ℚ) : ℝ) = betaIncR (x : ℝ) a b := by
  rw [betaIncInt_eq_binTail x a b hb, binTail_cast]
  rfl

example : ((betaIncInt (1/3) 2 3 : ℚ) : ℝ) = betaIncR ((1/3 : ℚ) : ℝ) 2 3 :=
  betaIncInt_cast (1/3) 2 3 (by decide)

/-- `g n x j = C(n,j) · j · x^(j−1) (1−x)^(n−j)`: the telescoping quantity -/
noncomputable def teleG (n : ℕ) (x : ℝ) (j : ℕ) : ℝ :=
  (n.choose j : ℝ) * j * x ^ (j - 1) * (1 - x) ^ (n - j)

lemma hasDerivAt_binTerm (n j : ℕ) (x : ℝ) :
    HasDerivAt (fun x : ℝ => (n.choose j : ℝ) * x ^ j * (1 - x) ^ (n - j))
      (-(teleG n x (j + 1) - teleG n x j)) x := by
  have h1 : HasDerivAt (fun x : ℝ => x ^ j) (j * x ^ (j - 1)) x := hasDerivAt_pow j x
  have h2 : HasDerivAt (fun x : ℝ => (1 - x) ^ (n - j))
      (((n - j : ℕ) : ℝ) * (1 - x) ^ (n - j - 1) * (-1)) x := by
    have := ((hasDerivAt_id x).const_sub 1).fun_pow (n - j)
    simpa using this
  have hc : ((n.choose (j + 1) : ℕ) : ℝ) * ((j + 1 : ℕ) : ℝ) = (n.choose j : ℝ) * ((n - j : ℕ) : ℝ) := by
    exact_mod_cast Nat.choose_succ_right_eq n j
  have he : n - (j + 1) = n - j - 1 := by omega
  have h3 : HasDerivAt (fun x : ℝ => (n.choose j : ℝ) * x ^ j * (1 - x) ^ (n - j))
      ((n.choose j : ℝ) * (j * x ^ (j - 1)) * (1 - x) ^ (n - j) +
        (n.choose j : ℝ) * x ^ j * (((n - j : ℕ) : ℝ) * (1 - x) ^ (n - j - 1) * (-1))) x :=
    (h1.const_mul (n.choose j : ℝ)).mul h2
  refine h3.congr_deriv ?_
  unfold teleG
  rw [he, Nat.add_sub_cancel]
  push_cast at hc ⊢
  linear_combination (x ^ j * (1 - x) ^ (n - j - 1)) * hc

lemma hasDerivAt_binTail (n a : ℕ) (x : ℝ) (ha : a ≤ n + 1) :
    HasDerivAt (fun x : ℝ => binTail n a x) (teleG n x a) x := by
  unfold binTail
  have h := HasDerivAt.fun_sum (u := Ico a (n + 1))
    (fun j _ => hasDerivAt_binTerm n j x)
  refine h.congr_deriv ?_
  rw [sum_neg_distrib, sum_Ico_sub (teleG n x) ha]
  have : teleG n x (n + 1) = 0 := by
    unfold teleG
    simp [Nat.choose_succ_self]
  rw [this]; ring

lemma teleG_eq (a b : ℕ) (ha : 1 ≤ a) (hb : 1 ≤ b) (x : ℝ) :
    teleG (a + b - 1) x a = x ^ (a - 1) * (1 - x) ^ (b - 1) / ((betaInt a b : ℚ) : ℝ) := by
  unfold teleG
  have hn : a + b - 1 - a = b - 1 := by omega
  rw [hn, betaInt_eq]
  have hk : a ≤ a + b - 1 := by omega
  have h := Nat.choose_mul_factorial_mul_factorial hk
  rw [hn] at h
  have hfa : a.factorial = a * (a - 1).factorial := by
    obtain ⟨m, rfl⟩ : ∃ m, a = m + 1 := ⟨a - 1, by omega⟩
    simp [Nat.factorial_succ]
  rw [hfa] at h
  have hR : (((a + b - 1).choose a : ℕ) : ℝ) * ((a : ℝ) * ((a - 1).factorial : ℝ)) * ((b - 1).factorial : ℝ)
      = ((a + b - 1).factorial : ℝ) := by exact_mod_cast h
  have p1 : (0 : ℝ) < ((a - 1).factorial : ℝ) := by positivity
  have p2 : (0 : ℝ) < ((b - 1).factorial : ℝ) := by positivity
  push_cast
  rw [← hR]
  field_simp

/-- Over ℝ, the integer-parameter incomplete beta has derivative `x^(a−1) (1−x)^(b−1) / B(a,b)`
with `B(a,b) = betaInt a b`: it is the regularised incomplete beta function. -/
theorem betaIncInt_deriv (a b : ℕ) (ha : 1 ≤ a) (hb : 1 ≤ b) (x : ℝ) :
    HasDerivAt (fun x : ℝ => betaIncR x a b)
      (x ^ (a - 1) * (1 - x) ^ (b - 1) / ((betaInt a b : ℚ) : ℝ)) x := by
  rw [← teleG_eq a b ha hb x]
  exact hasDerivAt_binTail (a + b - 1) a x (by omega)

example : HasDerivAt (fun x : ℝ => betaIncR x 2 3)
    ((1/2 : ℝ) ^ (2 - 1) * (1 - 1/2) ^ (3 - 1) / ((betaInt 2 3 : ℚ) : ℝ)) (1/2) :=
  betaIncInt_deriv 2 3 (by decide) (by decide) (1/2)

/-- `betaIncR` is monotone on `[0,1]` (from the non-negative derivative). -/
theorem betaIncR_mono (a b : ℕ) (ha : 1 ≤ a) (hb : 1 ≤ b) :
    MonotoneOn (fun x : ℝ => betaIncR x a b) (Set.Icc 0 1) := by
  have hd : ∀ x : ℝ, HasDerivAt (fun x : ℝ => betaIncR x a b)
      (x ^ (a - 1) * (1 - x) ^ (b - 1) / ((betaInt a b : ℚ) : ℝ)) x := betaIncInt_deriv a b ha hb
  have hdiff : Differentiable ℝ (fun x : ℝ => betaIncR x a b) := fun x => (hd x).differentiableAt
  apply monotoneOn_of_deriv_nonneg (convex_Icc 0 1) hdiff.continuous.continuousOn
    hdiff.differentiableOn
  intro x hx
  rw [interior_Icc] at hx
  rw [(hd x).deriv]
  have hB : (0 : ℝ) < ((betaInt a b : ℚ) : ℝ) := by exact_mod_cast betaInt_pos a b
  have h0 : 0 ≤ x := hx.1.le
  have h1 : 0 ≤ 1 - x := sub_nonneg.2 hx.2.le
  positivity

example : betaIncR (1/3) 2 3 ≤ betaIncR (1/2) 2 3 :=
  betaIncR_mono 2 3 (by decide) (by decide) (show (1/3 : ℝ) ∈ Set.Icc 0 1 by norm_num [Set.mem_Icc])
    (show (1/2 : ℝ) ∈ Set.Icc 0 1 by norm_num [Set.mem_Icc]) (by norm_num)

/-- The rational function `x ↦ betaIncInt x a b` is monotone on `[0,1] ∩ ℚ`. -/
theorem betaIncInt_mono (a b : ℕ) (ha : 1 ≤ a) (hb : 1 ≤ b) :
    MonotoneOn (fun x : ℚ => betaIncInt x a b) (Set.Icc 0 1) := by
  intro x hx y hy hxy
  have h := @betaIncR_mono a b ha hb (x : ℝ)
    ⟨by exact_mod_cast hx.1, by exact_mod_cast hx.2⟩ (y : ℝ) ⟨by exact_mod_cast hy.1, by exact_mod_cast hy.2⟩
    (by exact_mod_cast hxy)
  simp only [] at h
  rw [← betaIncInt_cast x a b hb, ← betaIncInt_cast y a b hb] at h
  exact_mod_cast h

example : betaIncInt (1/3) 2 3 ≤ betaIncInt (1/2) 2 3 :=
  betaIncInt_mono 2 3 (by decide) (by decide) (by norm_num) (by norm_num) (by norm_num)

/-! ## B4: log-binomial -/

/-- `lchoose n k` encloses `log C(n,k)` for `k ≤ n`. -/
theorem lchoose_sound (n k : ℕ) (hk : k ≤ n) : Mem (Real.log (Nat.choose n k : ℝ)) (lchoose n k) := by
  unfold lchoose
  rw [MV.Discrete.chooseFast_eq_choose]
  have hpos : (0 : ℚ) < (Nat.choose n k : ℚ) := by exact_mod_cast Nat.choose_pos hk
  have h := logQ_sound (Nat.choose n k : ℚ) hpos
  simpa using h

example : Mem (Real.log (Nat.choose 10 3 : ℝ)) (lchoose 10 3) := lchoose_sound 10 3 (by decide)

/-! ## B2 (continued): integral representations -/

lemma betaIncR_zero (a b : ℕ) (ha : 1 ≤ a) (hb : 1 ≤ b) : betaIncR 0 a b = 0 := by
  have h := betaIncInt_cast 0 a b hb
  rw [betaIncInt_zero a b ha] at h
  simpa using h.symm

lemma betaIncR_one (a b : ℕ) (hb : 1 ≤ b) : betaIncR 1 a b = 1 := by
  have h := betaIncInt_cast 1 a b hb
  rw [betaIncInt_one a b hb] at h
  simpa using h.symm

lemma betaKernel_continuous (a b : ℕ) :
    Continuous (fun t : ℝ => t ^ (a - 1) * (1 - t) ^ (b - 1) / ((betaInt a b : ℚ) : ℝ)) := by
  fun_prop

/-- `betaIncR x a b = (∫₀ˣ t^(a−1) (1−t)^(b−1) dt) / B(a,b)`: the polynomial really is the
regularised incomplete beta integral (fundamental theorem of calculus on `betaIncInt_deriv`). -/
theorem betaIncR_eq_integral (a b : ℕ) (ha : 1 ≤ a) (hb : 1 ≤ b) (x : ℝ) :
    betaIncR x a b = (∫ t in (0 : ℝ)..x, t ^ (a - 1) * (1 - t) ^ (b - 1)) / ((betaInt a b : ℚ) : ℝ) := by
  have h := intervalIntegral.integral_eq_sub_of_hasDerivAt (a := (0 : ℝ)) (b := x)
    (f := fun x : ℝ => betaIncR x a b)
    (f' := fun t : ℝ => t ^ (a - 1) * (1 - t) ^ (b - 1) / ((betaInt a b : ℚ) : ℝ))
    (fun t _ => betaIncInt_deriv a b ha hb t)
    ((betaKernel_continuous a b).intervalIntegrable _ _)
  rw [intervalIntegral.integral_div] at h
  rw [h, betaIncR_zero a b ha hb, sub_zero]

example : betaIncR (1/2) 2 3 =
    (∫ t in (0 : ℝ)..(1/2), t ^ (2 - 1) * (1 - t) ^ (3 - 1)) / ((betaInt 2 3 : ℚ) : ℝ) :=
  betaIncR_eq_integral 2 3 (by decide) (by decide) (1/2)

/-- `betaInt a b` is the complete beta integral `∫₀¹ t^(a−1) (1−t)^(b−1) dt`. -/
theorem betaInt_eq_integral (a b : ℕ) (ha : 1 ≤ a) (hb : 1 ≤ b) :
    ((betaInt a b : ℚ) : ℝ) = ∫ t in (0 : ℝ)..1, t ^ (a - 1) * (1 - t) ^ (b - 1) := by
  have h := betaIncR_eq_integral a b ha hb 1
  rw [betaIncR_one a b hb] at h
  have hB : (0 : ℝ) < ((betaInt a b : ℚ) : ℝ) := by exact_mod_cast betaInt_pos a b
  field_simp at h
  linarith

example : ((betaInt 2 3 : ℚ) : ℝ) = ∫ t in (0 : ℝ)..1, t ^ (2 - 1) * (1 - t) ^ (3 - 1) :=
  betaInt_eq_integral 2 3 (by decide) (by decide)

/-! ## B3: regularised incomplete gamma at integer `a` -/

lemma gammaFoldGen (x : ℚ) (f : ℚ × ℚ → ℕ → ℚ × ℚ)
    (hf : ∀ s t k, f (s, t) k = (s + t, t * x / ((k + 1 : ℕ) : ℚ))) (a : ℕ) :
    (List.range a).foldl f ((0 : ℚ), (1 : ℚ)) =
      (∑ k ∈ range a, x ^ k / (k.factorial : ℚ), x ^ a / (a.factorial : ℚ)) := by
  induction a with
  | zero => simp
  | succ a ih =>
    rw [List.range_succ, List.foldl_append, ih]
    simp only [List.foldl_cons, List.foldl_nil, hf]
    rw [sum_range_succ]
    congr 1
    rw [Nat.factorial_succ]
    push_cast
    have : ((a.factorial : ℕ) : ℚ) ≠ 0 := by positivity
    field_simp
    ring

lemma gammaIncInt_eq (a : ℕ) (x : ℚ) :
    gammaIncInt a x =
      I.sub (I.ofRat 1) (I.mul (I.expQ (-x)) (I.ofRat (∑ k ∈ range a, x ^ k / (k.factorial : ℚ)))) := by
  unfold gammaIncInt
  simp only []
  rw [gammaFoldGen x _ (fun s t k => rfl) a]

/-- The interval `gammaIncInt a x` encloses the closed form `1 − e^{−x} Σ_{k<a} x^k/k!`
(every natural `a`, every rational `x`). -/
theorem gammaIncInt_sound (a : ℕ) (x : ℚ) :
    Mem (1 - Real.exp (-(x : ℝ)) * ∑ k ∈ range a, (x : ℝ) ^ k / (k.factorial : ℝ)) (gammaIncInt a x) := by
  rw [gammaIncInt_eq]
  have h := sub_sound (ofRat_sound 1)
    (mul_sound (expQ_sound (-x)) (ofRat_sound (∑ k ∈ range a, x ^ k / (k.factorial : ℚ))))
  have e : (1 - Real.exp (-(x : ℝ)) * ∑ k ∈ range a, (x : ℝ) ^ k / (k.factorial : ℝ))
      = (((1 : ℚ) : ℝ) - Real.exp (((-x : ℚ)) : ℝ) *
          (((∑ k ∈ range a, x ^ k / (k.factorial : ℚ)) : ℚ) : ℝ)) := by
    push_cast; rfl
  rw [e]; exact h

example : Mem (1 - Real.exp (-((5/2 : ℚ) : ℝ)) * ∑ k ∈ range 3, ((5/2 : ℚ) : ℝ) ^ k / (k.factorial : ℝ))
    (gammaIncInt 3 (5/2)) := gammaIncInt_sound 3 (5/2)

lemma hasDerivAt_expSum (a : ℕ) (x : ℝ) :
    HasDerivAt (fun x : ℝ => ∑ k ∈ range (a + 1), x ^ k / (k.factorial : ℝ))
      (∑ k ∈ range a, x ^ k / (k.factorial : ℝ)) x := by
  induction a with
  | zero => simpa using hasDerivAt_const x (1 : ℝ)
  | succ a ih =>
    have h : HasDerivAt (fun x : ℝ => x ^ (a + 1) / ((a + 1).factorial : ℝ))
        (x ^ a / (a.factorial : ℝ)) x := by
      have := (hasDerivAt_pow (a + 1) x).div_const (((a + 1).factorial : ℕ) : ℝ)
      refine this.congr_deriv ?_
      rw [Nat.factorial_succ]
      push_cast
      have : ((a.factorial : ℕ) : ℝ) ≠ 0 := by positivity
      field_simp
    have e1 : (fun x : ℝ => ∑ k ∈ range (a + 1 + 1), x ^ k / (k.factorial : ℝ)) =
        fun x => (∑ k ∈ range (a + 1), x ^ k / (k.factorial : ℝ)) + x ^ (a + 1) / ((a + 1).factorial : ℝ) := by
      funext y; rw [sum_range_succ]
    rw [e1, sum_range_succ]
    exact ih.add h

/-- The closed form `P(a,x) = 1 − e^{−x} Σ_{k<a} x^k/k!` has derivative `e^{−x} x^{a−1}/(a−1)!`
(the Gamma(a) density), for every `a ≥ 1` and real `x`. -/
theorem gammaInt_deriv (a : ℕ) (ha : 1 ≤ a) (x : ℝ) :
    HasDerivAt (fun x : ℝ => 1 - Real.exp (-x) * ∑ k ∈ range a, x ^ k / (k.factorial : ℝ))
      (Real.exp (-x) * x ^ (a - 1) / ((a - 1).factorial : ℝ)) x := by
  obtain ⟨m, rfl⟩ : ∃ m, a = m + 1 := ⟨a - 1, by omega⟩
  have h1 : HasDerivAt (fun x : ℝ => Real.exp (-x)) (Real.exp (-x) * (-1)) x :=
    (hasDerivAt_neg x).exp
  have h2 := hasDerivAt_expSum m x
  have h3 : HasDerivAt (fun x : ℝ => 1 - Real.exp (-x) * ∑ k ∈ range (m + 1), x ^ k / (k.factorial : ℝ))
      (0 - (Real.exp (-x) * (-1) * (∑ k ∈ range (m + 1), x ^ k / (k.factorial : ℝ)) +
        Real.exp (-x) * ∑ k ∈ range m, x ^ k / (k.factorial : ℝ))) x :=
    (hasDerivAt_const x (1 : ℝ)).sub (h1.mul h2)
  refine h3.congr_deriv ?_
  rw [sum_range_succ]
  simp only [Nat.add_sub_cancel]
  ring

example : HasDerivAt (fun x : ℝ => 1 - Real.exp (-x) * ∑ k ∈ range 3, x ^ k / (k.factorial : ℝ))
    (Real.exp (-2) * 2 ^ (3 - 1) / ((3 - 1).factorial : ℝ)) 2 := gammaInt_deriv 3 (by decide) 2

/-- `P(a,0) = 0` for `a ≥ 1`. -/
theorem gammaInt_zero (a : ℕ) (ha : 1 ≤ a) :
    (1 - Real.exp (-(0 : ℝ)) * ∑ k ∈ range a, (0 : ℝ) ^ k / (k.factorial : ℝ)) = 0 := by
  obtain ⟨m, rfl⟩ : ∃ m, a = m + 1 := ⟨a - 1, by omega⟩
  simp [sum_range_succ']

example : (1 - Real.exp (-(0 : ℝ)) * ∑ k ∈ range 3, (0 : ℝ) ^ k / (k.factorial : ℝ)) = 0 :=
  gammaInt_zero 3 (by decide)

lemma gammaKernel_continuous (a : ℕ) :
    Continuous (fun t : ℝ => Real.exp (-t) * t ^ (a - 1) / ((a - 1).factorial : ℝ)) := by
  fun_prop

/-- `P(a,·)` is monotone on `[0,∞)`. -/
theorem gammaInt_mono (a : ℕ) (ha : 1 ≤ a) :
    MonotoneOn (fun x : ℝ => 1 - Real.exp (-x) * ∑ k ∈ range a, x ^ k / (k.factorial : ℝ))
      (Set.Ici 0) := by
  have hd := gammaInt_deriv a ha
  have hdiff : Differentiable ℝ
      (fun x : ℝ => 1 - Real.exp (-x) * ∑ k ∈ range a, x ^ k / (k.factorial : ℝ)) :=
    fun x => (hd x).differentiableAt
  apply monotoneOn_of_deriv_nonneg (convex_Ici 0) hdiff.continuous.continuousOn
    hdiff.differentiableOn
  intro x hx
  rw [interior_Ici] at hx
  rw [(hd x).deriv]
  have h0 : 0 ≤ x := le_of_lt hx
  positivity

example : (1 - Real.exp (-(1 : ℝ)) * ∑ k ∈ range 3, (1 : ℝ) ^ k / (k.factorial : ℝ)) ≤
    (1 - Real.exp (-(2 : ℝ)) * ∑ k ∈ range 3, (2 : ℝ) ^ k / (k.factorial : ℝ)) :=
  gammaInt_mono 3 (by decide) (show (1 : ℝ) ∈ Set.Ici 0 by norm_num [Set.mem_Ici])
    (show (2 : ℝ) ∈ Set.Ici 0 by norm_num [Set.mem_Ici]) (by norm_num)

/-- `P + Q = 1` where `Q(a,x) = e^{−x} Σ_{k<a} x^k/k!` is the regularised upper incomplete gamma. -/
theorem gammaInt_compl (a : ℕ) (x : ℝ) :
    (1 - Real.exp (-x) * ∑ k ∈ range a, x ^ k / (k.factorial : ℝ)) +
      Real.exp (-x) * ∑ k ∈ range a, x ^ k / (k.factorial : ℝ) = 1 := by ring

example : (1 - Real.exp (-(2 : ℝ)) * ∑ k ∈ range 3, (2 : ℝ) ^ k / (k.factorial : ℝ)) +
    Real.exp (-(2 : ℝ)) * ∑ k ∈ range 3, (2 : ℝ) ^ k / (k.factorial : ℝ) = 1 := gammaInt_compl 3 2

/-- `P(a,x) = (∫₀ˣ e^{−t} t^{a−1} dt) / Γ(a)`: the closed form is the regularised lower
incomplete gamma function. -/
theorem gammaInt_eq_integral (a : ℕ) (ha : 1 ≤ a) (x : ℝ) :
    (1 - Real.exp (-x) * ∑ k ∈ range a, x ^ k / (k.factorial : ℝ)) =
      (∫ t in (0 : ℝ)..x, Real.exp (-t) * t ^ (a - 1)) / Real.Gamma a := by
  have h := intervalIntegral.integral_eq_sub_of_hasDerivAt (a := (0 : ℝ)) (b := x)
    (f := fun x : ℝ => 1 - Real.exp (-x) * ∑ k ∈ range a, x ^ k / (k.factorial : ℝ))
    (f' := fun t : ℝ => Real.exp (-t) * t ^ (a - 1) / ((a - 1).factorial : ℝ))
    (fun t _ => gammaInt_deriv a ha t)
    ((gammaKernel_continuous a).intervalIntegrable _ _)
  rw [intervalIntegral.integral_div] at h
  rw [gammaInt_zero a ha, sub_zero] at h
  obtain ⟨m, rfl⟩ : ∃ m, a = m + 1 := ⟨a - 1, by omega⟩
  rw [← h]
  push_cast
  rw [Real.Gamma_nat_eq_factorial]

example : (1 - Real.exp (-(2 : ℝ)) * ∑ k ∈ range 3, (2 : ℝ) ^ k / (k.factorial : ℝ)) =
    (∫ t in (0 : ℝ)..2, Real.exp (-t) * t ^ (3 - 1)) / Real.Gamma (3 : ℕ) :=
  gammaInt_eq_integral 3 (by decide) 2

/-- `Q(a,x) → 0`, i.e. `P(a,x) → 1` as `x → ∞`. -/
theorem gammaInt_tendsto (a : ℕ) :
    Filter.Tendsto (fun x : ℝ => 1 - Real.exp (-x) * ∑ k ∈ range a, x ^ k / (k.factorial : ℝ))
      Filter.atTop (nhds 1) := by
  have h : Filter.Tendsto (fun x : ℝ => ∑ k ∈ range a, (x ^ k * Real.exp (-x)) / (k.factorial : ℝ))
      Filter.atTop (nhds (∑ k ∈ range a, (0 : ℝ) / (k.factorial : ℝ))) := by
    apply tendsto_finsetSum
    intro k _
    exact (Real.tendsto_pow_mul_exp_neg_atTop_nhds_zero k).div_const _
  simp only [zero_div, sum_const_zero] at h
  have h2 := (tendsto_const_nhds (x := (1 : ℝ))).sub h
  rw [sub_zero] at h2
  refine h2.congr ?_
  intro x
  rw [mul_sum]
  congr 1
  apply sum_congr rfl
  intro k _
  ring

example : Filter.Tendsto (fun x : ℝ => 1 - Real.exp (-x) * ∑ k ∈ range 3, x ^ k / (k.factorial : ℝ))
    Filter.atTop (nhds 1) := gammaInt_tendsto 3

/-! ## B5: Student-t CDF at ν = 1 (Cauchy) -/

lemma atanI_sound {x : ℝ} {a : I} (h : Mem x a) : Mem (Real.arctan x) (atanI a) := by
  have hl := (atanQ_sound a.lo).1
  have hh := (atanQ_sound a.hi).2
  exact ⟨hl.trans (Real.arctan_strictMono.monotone h.1),
    (Real.arctan_strictMono.monotone h.2).trans hh⟩

lemma pi_lo_pos : (0 : ℚ) < I.pi.lo := by decide +kernel

lemma tCDFpos_one (t : ℚ) :
    tCDFpos 1 t = I.add (I.ofRat (1 / 2))
      (I.div (I.add (atanI (I.div (I.ofRat t) (I.sqrt (I.ofRat ((1 : ℕ) : ℚ)))))
        (I.mul (I.mul (I.div (I.ofRat t) (I.sqrt (I.ofRat (((1 : ℕ) : ℚ) + t * t))))
          (I.sqrt (I.ofRat (((1 : ℕ) : ℚ) / (((1 : ℕ) : ℚ) + t * t))))) (I.ofRat 0))) I.pi) := by
  rfl

lemma tCDFpos_one_sound (t : ℚ) :
    Mem (1 / 2 + Real.arctan (t : ℝ) / Real.pi) (tCDFpos 1 t) := by
  rw [tCDFpos_one]
  have hs1 : Mem (Real.sqrt (((1 : ℕ) : ℚ) : ℝ)) (I.sqrt (I.ofRat ((1 : ℕ) : ℚ))) :=
    sqrt_sound' _ _ (ofRat_sound _)
  have hs1pos : 0 < (I.sqrt (I.ofRat ((1 : ℕ) : ℚ))).lo := sqrtLo_pos (show (1 : ℚ) ≤ ((1 : ℕ) : ℚ) by norm_num)
  have hth := atanI_sound (div_sound (ofRat_sound t) hs1 (Or.inl hs1pos))
  have hs2 : Mem (Real.sqrt (((((1 : ℕ) : ℚ) + t * t : ℚ)) : ℝ))
      (I.sqrt (I.ofRat (((1 : ℕ) : ℚ) + t * t))) := sqrt_sound' _ _ (ofRat_sound _)
  have hs2pos : 0 < (I.sqrt (I.ofRat (((1 : ℕ) : ℚ) + t * t))).lo :=
    sqrtLo_pos (show (1 : ℚ) ≤ ((1 : ℕ) : ℚ) + t * t by push_cast; nlinarith [mul_self_nonneg t])
  have hsin := div_sound (ofRat_sound t) hs2 (Or.inl hs2pos)
  have hcos : Mem (Real.sqrt ((((1 : ℕ) : ℚ) / (((1 : ℕ) : ℚ) + t * t) : ℚ) : ℝ))
      (I.sqrt (I.ofRat (((1 : ℕ) : ℚ) / (((1 : ℕ) : ℚ) + t * t)))) := sqrt_sound' _ _ (ofRat_sound _)
  have hinner := add_sound hth (mul_sound (mul_sound hsin hcos) (ofRat_sound 0))
  have h := add_sound (ofRat_sound (1 / 2)) (div_sound hinner pi_sound (Or.inl pi_lo_pos))
  convert h using 1
  simp

/-- For ν = 1 and rational `t ≥ 0`, `tCDF 1 t` encloses the Cauchy CDF `1/2 + arctan(t)/π`. -/
theorem tCDF_one (t : ℚ) (ht : 0 ≤ t) :
    Mem (1 / 2 + Real.arctan (t : ℝ) / Real.pi) (tCDF 1 t) := by
  unfold tCDF
  rw [if_pos ht]
  exact tCDFpos_one_sound t

/-- The same for every rational `t` (negative `t` goes through the reflection `1 − F(−t)`). -/
theorem tCDF_one_all (t : ℚ) :
    Mem (1 / 2 + Real.arctan (t : ℝ) / Real.pi) (tCDF 1 t) := by
  by_cases ht : 0 ≤ t
  · exact tCDF_one t ht
  · unfold tCDF
    rw [if_neg ht]
    have h := sub_sound (ofRat_sound 1) (tCDFpos_one_sound (-t))
    convert h using 1
    push_cast
    rw [Real.arctan_neg]
    ring

example : Mem (1 / 2 + Real.arctan ((-3/2 : ℚ) : ℝ) / Real.pi) (tCDF 1 (-3/2)) :=
  tCDF_one_all (-3/2)

example : Mem (1 / 2 + Real.arctan ((3/2 : ℚ) : ℝ) / Real.pi) (tCDF 1 (3/2)) :=
  tCDF_one (3/2) (by norm_num)

end MV.Special
