import Mathlib
import MV.Props.C08HypSeries
/-!
# C08 — the series of `betaRegIWith` IS the regularised incomplete beta function

`betaRegIWith lb x a b` (model, `MV/Model/Special.lean`) evaluates, for `0 < x < 1`,

    direct x a b = (1/a) · exp(a·log x + b·log(1−x) − lb) · hypSeries (a+b) (a+1) x

when `x < (a+1)/(a+b+2)` and `1 − direct (1−x) b a` otherwise; `C08HypSeries` proves that
`hypSeries c d x` encloses `∑ₙ ∏_{j<n} (c+j)·x/(d+j)`.  This file proves (pure real analysis, no
model code) the classical identities behind the formula, for
`B_x(a,b) = incBeta a b x = ∫₀ˣ t^(a−1) (1−t)^(b−1) dt`:

* `incBeta_series`:  `B_x(a,b) = x^a (1−x)^b / a · ∑ₙ ∏_{j<n} (a+b+j)·x/(a+1+j)`  (`a,b > 0`, `0 ≤ x < 1`);
* `incBeta_symm`:  `B_x(a,b) + B_{1−x}(b,a) = B_1(a,b)`  (`0 ≤ x ≤ 1`);
* `incBeta_one_eq_Gamma`:  `B_1(a,b) = Γ(a)Γ(b)/Γ(a+b)`  (from Mathlib's complex `betaIntegral`);

and then the link to the model, `betaRegIWith_encloses`: with `lb ∋ log(Γ(a)Γ(b)/Γ(a+b))`, every
interval returned by `betaRegIWith lb x a b` contains `I_x(a,b) = B_x(a,b)·Γ(a+b)/(Γ(a)Γ(b))`
(both branches; `betaRegIWith_encloses_closed` includes the endpoints `x = 0, 1`).

Proof of the series: differentiating `t^a (1−t)^b` gives
`a·B_x(a,b) = x^a(1−x)^b + (a+b)·B_x(a+1,b)` (`incBeta_succ`); iterating `N` times gives the `N`-th
partial sum plus the remainder `∏_{j<N}(a+b+j)/(a+j) · B_x(a+N,b)` (`incBeta_expand`), which is at
most `max 1 ((1−x)^(b−1)) · x^a/a` times the `N`-th term of the series (`incBeta_remainder_le`); the
series converges by the ratio test (`bT_summable`), so the remainder tends to `0`.
-/
namespace MV.Special
open MeasureTheory Set Finset Filter Topology intervalIntegral

/-- the (unregularised) incomplete beta function `B_x(a,b) = ∫₀ˣ t^(a−1) (1−t)^(b−1) dt` -/
noncomputable def incBeta (a b x : ℝ) : ℝ := ∫ t in (0 : ℝ)..x, t ^ (a - 1) * (1 - t) ^ (b - 1)

section
variable {a b x : ℝ}

/-- the integrand is interval integrable on `[0,x]` for `x < 1` -/
lemma betaIntegrand_intervalIntegrable (ha : 0 < a) (b : ℝ) (hx0 : 0 ≤ x) (hx1 : x < 1) :
    IntervalIntegrable (fun t : ℝ => t ^ (a - 1) * (1 - t) ^ (b - 1)) volume 0 x := by
  refine (intervalIntegrable_rpow' (by linarith)).mul_continuousOn ?_
  apply ContinuousOn.rpow_const (by fun_prop)
  intro t ht
  rw [uIcc_of_le hx0] at ht
  left
  linarith [ht.2]

lemma incBeta_zero (a b : ℝ) : incBeta a b 0 = 0 := by simp [incBeta]

lemma incBeta_nonneg (a b : ℝ) (hx0 : 0 ≤ x) (hx1 : x ≤ 1) : 0 ≤ incBeta a b x :=
  integral_nonneg hx0 fun t ht =>
    mul_nonneg (Real.rpow_nonneg ht.1 _) (Real.rpow_nonneg (by linarith [ht.2]) _)

/-- on `[0,x]`, `x < 1`: `(1−t)^(b−1) ≤ max 1 ((1−x)^(b−1))` -/
lemma one_sub_rpow_le (b : ℝ) (hx1 : x < 1) {t : ℝ} (ht0 : 0 ≤ t) (htx : t ≤ x) :
    (1 - t) ^ (b - 1) ≤ max 1 ((1 - x) ^ (b - 1)) := by
  rcases le_total 1 b with h | h
  · exact le_max_of_le_left (Real.rpow_le_one (by linarith) (by linarith) (by linarith))
  · exact le_max_of_le_right
      (Real.rpow_le_rpow_of_nonpos (by linarith) (by linarith) (by linarith))

/-- `B_x(c,b) ≤ max 1 ((1−x)^(b−1)) · x^c / c` -/
lemma incBeta_le {c : ℝ} (hc : 0 < c) (b : ℝ) (hx0 : 0 ≤ x) (hx1 : x < 1) :
    incBeta c b x ≤ max 1 ((1 - x) ^ (b - 1)) * (x ^ c / c) := by
  have h := integral_mono_on hx0 (betaIntegrand_intervalIntegrable hc b hx0 hx1)
    ((intervalIntegrable_rpow' (r := c - 1) (by linarith)).const_mul
      (max 1 ((1 - x) ^ (b - 1)))) (fun t ht => by
      have h1 := one_sub_rpow_le b hx1 ht.1 ht.2
      rw [mul_comm]
      exact mul_le_mul_of_nonneg_right h1 (Real.rpow_nonneg ht.1 _))
  rw [intervalIntegral.integral_const_mul, integral_rpow (Or.inl (by linarith))] at h
  simpa [incBeta, Real.zero_rpow hc.ne'] using h

/-- differentiating `t^a (1−t)^b`: `a·B_x(a,b) = x^a (1−x)^b + (a+b)·B_x(a+1,b)` -/
lemma incBeta_succ (ha : 0 < a) (hb : 0 < b) (hx0 : 0 ≤ x) (hx1 : x < 1) :
    a * incBeta a b x = x ^ a * (1 - x) ^ b + (a + b) * incBeta (a + 1) b x := by
  have hI1 := betaIntegrand_intervalIntegrable ha b hx0 hx1
  have hI2 := betaIntegrand_intervalIntegrable (a := a + 1) (by linarith) b hx0 hx1
  have hF : ∫ t in (0 : ℝ)..x,
        (a * (t ^ (a - 1) * (1 - t) ^ (b - 1)) - (a + b) * (t ^ (a + 1 - 1) * (1 - t) ^ (b - 1)))
      = x ^ a * (1 - x) ^ b - (0 : ℝ) ^ a * (1 - 0) ^ b := by
    apply integral_eq_sub_of_hasDerivAt_of_le hx0 (f := fun t => t ^ a * (1 - t) ^ b)
    · exact ((Real.continuous_rpow_const ha.le).mul
        ((Real.continuous_rpow_const hb.le).comp (continuous_const.sub continuous_id))).continuousOn
    · intro t ht
      have ht0 : t ≠ 0 := ht.1.ne'
      have ht1 : 1 - t ≠ 0 := by linarith [ht.2]
      have h1 := Real.hasDerivAt_rpow_const (x := t) (p := a) (Or.inl ht0)
      have h2 : HasDerivAt (fun t : ℝ => (1 - t) ^ b) (-1 * b * (1 - t) ^ (b - 1)) t :=
        ((hasDerivAt_id t).const_sub 1).rpow_const (Or.inl ht1)
      refine (h1.mul h2).congr_deriv ?_
      rw [add_sub_cancel_right]
      have e1 : t ^ a = t ^ (a - 1) * t := by
        rw [Real.rpow_sub_one ht0]; field_simp
      have e2 : (1 - t) ^ b = (1 - t) ^ (b - 1) * (1 - t) := by
        rw [Real.rpow_sub_one ht1]; field_simp
      rw [e2, e1]
      ring
    · exact (hI1.const_mul a).sub (hI2.const_mul (a + b))
  rw [integral_sub (hI1.const_mul a) (hI2.const_mul (a + b)),
    intervalIntegral.integral_const_mul, intervalIntegral.integral_const_mul,
    Real.zero_rpow ha.ne'] at hF
  unfold incBeta
  linarith

/-- the ratio `(a+b+j)·x/(a+1+j)` of consecutive terms of the series -/
noncomputable def bq (a b x : ℝ) (j : ℕ) : ℝ := (a + b + j) * x / (a + 1 + j)

/-- the prefactor `∏_{j<N} (a+b+j)/(a+j)` of the remainder -/
noncomputable def bP (a b : ℝ) (N : ℕ) : ℝ := ∏ j ∈ range N, (a + b + j) / (a + j)

lemma bq_pos (ha : 0 < a) (hb : 0 < b) (hx : 0 < x) (j : ℕ) : 0 < bq a b x j := by
  unfold bq; positivity

lemma bT_pos (ha : 0 < a) (hb : 0 < b) (hx : 0 < x) (n : ℕ) : 0 < hT (bq a b x) n :=
  prod_pos fun j _ => bq_pos ha hb hx j

lemma bP_nonneg (ha : 0 < a) (hb : 0 < b) (N : ℕ) : 0 ≤ bP a b N :=
  prod_nonneg fun j _ => by positivity

/-- `∏_{j<N} (a+b+j)/(a+j) · x^N / (a+N) = (N-th term of the series) / a` -/
lemma bP_key (ha : 0 < a) (hb : 0 < b) (x : ℝ) (N : ℕ) :
    bP a b N * x ^ N / (a + N) = hT (bq a b x) N / a := by
  induction N with
  | zero => simp [bP, hT_zero]
  | succ N ih =>
    have h1 : 0 < a + N := by positivity
    have h2 : 0 < a + 1 + N := by positivity
    have e : bP a b (N + 1) * x ^ (N + 1) / (a + (N + 1 : ℕ)) =
        bP a b N * x ^ N / (a + N) * bq a b x N := by
      unfold bP bq
      rw [prod_range_succ]
      push_cast
      field_simp
      ring
    rw [e, ih, hT_succ]
    ring

/-- `N` steps of the recurrence: `B_x(a,b)` is the `N`-th partial sum of the series plus a
remainder -/
lemma incBeta_expand (ha : 0 < a) (hb : 0 < b) (hx0 : 0 < x) (hx1 : x < 1) (N : ℕ) :
    incBeta a b x = x ^ a * (1 - x) ^ b / a * ∑ n ∈ range N, hT (bq a b x) n
      + bP a b N * incBeta (a + N) b x := by
  induction N with
  | zero => simp [bP]
  | succ N ih =>
    have haN : 0 < a + N := by positivity
    have hrec := incBeta_succ haN hb hx0.le hx1
    have hkey := bP_key ha hb x N
    have hpow : x ^ (a + N) = x ^ a * x ^ N := Real.rpow_add_natCast hx0.ne' a N
    have hcast : a + ((N + 1 : ℕ) : ℝ) = a + N + 1 := by push_cast; ring
    have hP : bP a b (N + 1) = bP a b N * ((a + b + N) / (a + N)) := by
      unfold bP; rw [prod_range_succ]
    have key : incBeta (a + N) b x =
        (x ^ a * x ^ N * (1 - x) ^ b + (a + N + b) * incBeta (a + N + 1) b x) / (a + N) := by
      rw [eq_div_iff haN.ne', ← hpow]; linarith
    rw [hcast, ih, sum_range_succ, hP, key]
    have hk2 : bP a b N * x ^ N = hT (bq a b x) N / a * (a + N) := by
      rw [← hkey]; field_simp
    have : bP a b N * ((x ^ a * x ^ N * (1 - x) ^ b + (a + N + b) * incBeta (a + N + 1) b x)
        / (a + N)) = x ^ a * (1 - x) ^ b * (bP a b N * x ^ N) / (a + N)
          + bP a b N * ((a + b + N) / (a + N)) * incBeta (a + N + 1) b x := by
      field_simp
      ring
    rw [this, hk2]
    field_simp
    ring

/-- the remainder is at most a constant times the `N`-th term of the series -/
lemma incBeta_remainder_le (ha : 0 < a) (hb : 0 < b) (hx0 : 0 < x) (hx1 : x < 1) (N : ℕ) :
    bP a b N * incBeta (a + N) b x ≤
      max 1 ((1 - x) ^ (b - 1)) * x ^ a / a * hT (bq a b x) N := by
  have haN : 0 < a + N := by positivity
  have hpow : x ^ (a + N) = x ^ a * x ^ N := Real.rpow_add_natCast hx0.ne' a N
  have hkey := bP_key ha hb x N
  calc bP a b N * incBeta (a + N) b x
      ≤ bP a b N * (max 1 ((1 - x) ^ (b - 1)) * (x ^ (a + N) / (a + N))) :=
        mul_le_mul_of_nonneg_left (incBeta_le haN b hx0.le hx1) (bP_nonneg ha hb N)
    _ = max 1 ((1 - x) ^ (b - 1)) * x ^ a * (bP a b N * x ^ N / (a + N)) := by
        rw [hpow]; ring
    _ = max 1 ((1 - x) ^ (b - 1)) * x ^ a / a * hT (bq a b x) N := by
        rw [hkey]; ring

lemma bq_tendsto (a b x : ℝ) : Tendsto (bq a b x) atTop (𝓝 x) := by
  have h0 : Tendsto (fun n : ℕ => a + 1 + (n : ℝ)) atTop atTop :=
    tendsto_atTop_add_const_left atTop (a + 1) tendsto_natCast_atTop_atTop
  have h1 : Tendsto (fun n : ℕ => ((b - 1) * x) / (a + 1 + (n : ℝ))) atTop (𝓝 0) :=
    tendsto_const_nhds.div_atTop h0
  have h2 : Tendsto (fun n : ℕ => x + ((b - 1) * x) / (a + 1 + (n : ℝ))) atTop (𝓝 (x + 0)) :=
    tendsto_const_nhds.add h1
  rw [add_zero] at h2
  refine h2.congr' ?_
  filter_upwards [h0.eventually_gt_atTop 0] with n hn
  unfold bq
  field_simp
  ring

/-- the series converges for every `0 < x < 1` (ratio test) -/
lemma bT_summable (ha : 0 < a) (hb : 0 < b) (hx0 : 0 < x) (hx1 : x < 1) :
    Summable (hT (bq a b x)) := by
  refine summable_of_ratio_test_tendsto_lt_one hx1
    (Eventually.of_forall fun n => (bT_pos ha hb hx0 n).ne') ?_
  refine (bq_tendsto a b x).congr fun n => ?_
  rw [Real.norm_of_nonneg (bT_pos ha hb hx0 _).le, Real.norm_of_nonneg (bT_pos ha hb hx0 _).le,
    hT_succ, mul_div_cancel_left₀ _ (bT_pos ha hb hx0 n).ne']

lemma incBeta_series_pos (ha : 0 < a) (hb : 0 < b) (hx0 : 0 < x) (hx1 : x < 1) :
    incBeta a b x = x ^ a * (1 - x) ^ b / a * ∑' n : ℕ, hT (bq a b x) n := by
  have hs := bT_summable ha hb hx0 hx1
  have h1 : Tendsto (fun N => ∑ n ∈ range N, hT (bq a b x) n) atTop
      (𝓝 (∑' n, hT (bq a b x) n)) := hs.hasSum.tendsto_sum_nat
  have h2 : Tendsto (fun N : ℕ => bP a b N * incBeta (a + N) b x) atTop (𝓝 0) := by
    refine squeeze_zero (fun N => mul_nonneg (bP_nonneg ha hb N)
      (incBeta_nonneg _ _ hx0.le hx1.le)) (incBeta_remainder_le ha hb hx0 hx1) ?_
    simpa using hs.tendsto_atTop_zero.const_mul (max 1 ((1 - x) ^ (b - 1)) * x ^ a / a)
  have h3 : Tendsto (fun _ : ℕ => incBeta a b x) atTop
      (𝓝 (x ^ a * (1 - x) ^ b / a * ∑' n, hT (bq a b x) n + 0)) :=
    ((h1.const_mul (x ^ a * (1 - x) ^ b / a)).add h2).congr
      fun N => (incBeta_expand ha hb hx0 hx1 N).symm
  simpa using tendsto_nhds_unique tendsto_const_nhds h3

end

/-- **The incomplete beta function equals its series.**  For `a, b > 0` and `0 ≤ x < 1`,
`∫₀ˣ t^(a−1) (1−t)^(b−1) dt = x^a (1−x)^b / a · ∑ₙ ∏_{j<n} (a+b+j)·x/(a+1+j)`. -/
theorem incBeta_series {a b x : ℝ} (ha : 0 < a) (hb : 0 < b) (hx0 : 0 ≤ x) (hx1 : x < 1) :
    incBeta a b x = x ^ a * (1 - x) ^ b / a *
      ∑' n : ℕ, ∏ j ∈ Finset.range n, ((a + b + j) * x / (a + 1 + j)) := by
  rcases hx0.eq_or_lt with rfl | hx0
  · simp [incBeta_zero, Real.zero_rpow ha.ne']
  · exact incBeta_series_pos ha hb hx0 hx1

/-! ## symmetry and the complete beta integral -/

section
variable {a b x : ℝ}

/-- the integrand is interval integrable on `[0,1]` (and hence on every subinterval) -/
lemma betaIntegrand_intervalIntegrable_full (ha : 0 < a) (hb : 0 < b) :
    IntervalIntegrable (fun t : ℝ => t ^ (a - 1) * (1 - t) ^ (b - 1)) volume 0 1 := by
  have h1 := betaIntegrand_intervalIntegrable (x := 1 / 2) ha b (by norm_num) (by norm_num)
  have h2 := (betaIntegrand_intervalIntegrable (x := 1 / 2) hb a (by norm_num)
    (by norm_num)).comp_sub_left 1
  have h3 : IntervalIntegrable (fun t : ℝ => t ^ (a - 1) * (1 - t) ^ (b - 1)) volume (1 / 2) 1 := by
    have := h2.symm
    norm_num at this
    refine this.congr ?_
    intro t _
    simp only
    ring
  exact h1.trans h3

lemma betaIntegrand_intervalIntegrable_sub (ha : 0 < a) (hb : 0 < b) {u v : ℝ}
    (hu0 : 0 ≤ u) (hu1 : u ≤ 1) (hv0 : 0 ≤ v) (hv1 : v ≤ 1) :
    IntervalIntegrable (fun t : ℝ => t ^ (a - 1) * (1 - t) ^ (b - 1)) volume u v := by
  refine (betaIntegrand_intervalIntegrable_full ha hb).mono_set ?_
  rw [Set.uIcc_of_le zero_le_one]
  exact Set.uIcc_subset_Icc ⟨hu0, hu1⟩ ⟨hv0, hv1⟩

end

/-- **Symmetry.**  For `a, b > 0` and `0 ≤ x ≤ 1`: `B_x(a,b) + B_{1−x}(b,a) = B_1(a,b)`
(substitution `t ↦ 1 − t`). -/
theorem incBeta_symm {a b x : ℝ} (ha : 0 < a) (hb : 0 < b) (hx0 : 0 ≤ x) (hx1 : x ≤ 1) :
    incBeta a b x + incBeta b a (1 - x) = incBeta a b 1 := by
  have h : incBeta b a (1 - x) = ∫ t in x..(1 : ℝ), t ^ (a - 1) * (1 - t) ^ (b - 1) := by
    have := intervalIntegral.integral_comp_sub_left (a := x) (b := 1)
      (fun t : ℝ => t ^ (b - 1) * (1 - t) ^ (a - 1)) 1
    simp only [sub_sub_cancel, sub_self] at this
    unfold incBeta
    rw [← this]
    exact intervalIntegral.integral_congr fun t _ => mul_comm _ _
  rw [h]
  exact integral_add_adjacent_intervals
    (betaIntegrand_intervalIntegrable_sub ha hb le_rfl zero_le_one hx0 hx1)
    (betaIntegrand_intervalIntegrable_sub ha hb hx0 hx1 zero_le_one le_rfl)

/-- `B_1(b,a) = B_1(a,b)` -/
theorem incBeta_one_comm {a b : ℝ} (ha : 0 < a) (hb : 0 < b) : incBeta b a 1 = incBeta a b 1 := by
  have := incBeta_symm (x := 0) ha hb le_rfl zero_le_one
  simpa [incBeta_zero] using this

/-- **The complete beta integral.**  For `a, b > 0`:
`∫₀¹ t^(a−1) (1−t)^(b−1) dt = Γ(a) Γ(b) / Γ(a+b)`. -/
theorem incBeta_one_eq_Gamma {a b : ℝ} (ha : 0 < a) (hb : 0 < b) :
    incBeta a b 1 = Real.Gamma a * Real.Gamma b / Real.Gamma (a + b) := by
  have h1 : ((incBeta a b 1 : ℝ) : ℂ) = Complex.betaIntegral a b := by
    unfold incBeta Complex.betaIntegral
    rw [← intervalIntegral.integral_ofReal]
    refine intervalIntegral.integral_congr fun t ht => ?_
    rw [Set.uIcc_of_le zero_le_one] at ht
    rw [Complex.ofReal_mul, Complex.ofReal_cpow ht.1, Complex.ofReal_cpow (by linarith [ht.2])]
    push_cast
    rfl
  have h2 := Complex.betaIntegral_eq_Gamma_mul_div (a : ℂ) (b : ℂ) (by simpa) (by simpa)
  rw [← h1, ← Complex.ofReal_add, Complex.Gamma_ofReal, Complex.Gamma_ofReal,
    Complex.Gamma_ofReal] at h2
  exact_mod_cast h2

lemma incBeta_one_pos {a b : ℝ} (ha : 0 < a) (hb : 0 < b) : 0 < incBeta a b 1 := by
  rw [incBeta_one_eq_Gamma ha hb]
  exact div_pos (mul_pos (Real.Gamma_pos_of_pos ha) (Real.Gamma_pos_of_pos hb))
    (Real.Gamma_pos_of_pos (add_pos ha hb))

/-! ## link to the model `betaRegIWith` -/

open MV MV.I

/-- the local function `direct` of `betaRegIWith`, as a top-level definition -/
def betaDirect (lb : I) (x a b : ℚ) : Option I :=
  match hypSeries (a + b) (a + 1) x with
  | none => none
  | some ser =>
    some (I.mul (I.scale (1 / a) (I.exp (I.sub (I.add (I.scale a (I.logQ x))
      (I.scale b (I.logQ (1 - x)))) lb))) ser)

lemma betaRegIWith_eq (lb : I) (x a b : ℚ) :
    betaRegIWith lb x a b =
      if x ≤ 0 then some (I.ofRat 0) else if x ≥ 1 then some (I.ofRat 1) else
      if x < (a + 1) / (a + b + 2) then betaDirect lb x a b
      else (betaDirect lb (1 - x) b a).map fun v => I.sub (I.ofRat 1) v := rfl

/-- the `direct` formula encloses `B_x(a,b)/B` whenever `lb ∋ log B` -/
lemma betaDirect_sound (lb : I) (x a b : ℚ) (ha : 0 < a) (hb : 0 < b) (hx0 : 0 < x) (hx1 : x < 1)
    (B : ℝ) (hB : 0 < B) (hlb : Mem (Real.log B) lb) (r : I)
    (h : betaDirect lb x a b = some r) :
    Mem (incBeta (a : ℝ) (b : ℝ) (x : ℝ) / B) r := by
  have haR : (0 : ℝ) < (a : ℝ) := by exact_mod_cast ha
  have hbR : (0 : ℝ) < (b : ℝ) := by exact_mod_cast hb
  have hx0R : (0 : ℝ) < (x : ℝ) := by exact_mod_cast hx0
  have hx1R : (x : ℝ) < 1 := by exact_mod_cast hx1
  have h1x : (0 : ℚ) < 1 - x := by linarith
  unfold betaDirect at h
  cases hser : hypSeries (a + b) (a + 1) x with
  | none => rw [hser] at h; exact absurd h (by simp)
  | some ser =>
    rw [hser] at h
    obtain rfl := Option.some.inj h
    have hS := hypSeries_sound (a + b) (a + 1) x (by linarith) (by linarith) hx0 ser hser
    have he := sub_sound (add_sound (scale_sound a (logQ_sound x hx0))
      (scale_sound b (logQ_sound (1 - x) h1x))) hlb
    have hm := mul_sound (scale_sound (1 / a) (exp_sound _ _ he)) hS
    push_cast at hm
    convert hm using 1
    rw [incBeta_series haR hbR hx0R.le hx1R, Real.exp_sub, Real.exp_add, Real.exp_log hB,
      Real.rpow_def_of_pos hx0R, Real.rpow_def_of_pos (by linarith : (0 : ℝ) < 1 - (x : ℝ)),
      mul_comm (a : ℝ) (Real.log _), mul_comm (b : ℝ) (Real.log _)]
    field_simp

/-- **`betaRegIWith` encloses the regularised incomplete beta function, normalised by the beta
integral.**  For rationals `a, b > 0`, `0 < x < 1` and `lb ∋ log B(a,b)` with
`B(a,b) = ∫₀¹ t^(a−1)(1−t)^(b−1) dt`: any interval returned by `betaRegIWith lb x a b` contains
`I_x(a,b) = (∫₀ˣ t^(a−1)(1−t)^(b−1) dt) / B(a,b)` (both branches: the direct series for
`x < (a+1)/(a+b+2)` and `1 −` the series at `(1−x, b, a)` otherwise). -/
theorem betaRegIWith_encloses_incBeta (lb : I) (x a b : ℚ) (ha : 0 < a) (hb : 0 < b)
    (hx0 : 0 < x) (hx1 : x < 1)
    (hlb : Mem (Real.log (incBeta (a : ℝ) (b : ℝ) 1)) lb)
    (r : I) (h : betaRegIWith lb x a b = some r) :
    Mem (incBeta (a : ℝ) (b : ℝ) (x : ℝ) / incBeta (a : ℝ) (b : ℝ) 1) r := by
  have haR : (0 : ℝ) < (a : ℝ) := by exact_mod_cast ha
  have hbR : (0 : ℝ) < (b : ℝ) := by exact_mod_cast hb
  have hx0R : (0 : ℝ) < (x : ℝ) := by exact_mod_cast hx0
  have hx1R : (x : ℝ) < 1 := by exact_mod_cast hx1
  have hBpos := incBeta_one_pos haR hbR
  rw [betaRegIWith_eq, if_neg (not_le.mpr hx0), if_neg (not_le.mpr hx1)] at h
  split_ifs at h with hbr
  · exact betaDirect_sound lb x a b ha hb hx0 hx1 _ hBpos hlb r h
  · rw [Option.map_eq_some_iff] at h
    obtain ⟨v, hv, rfl⟩ := h
    have hm := betaDirect_sound lb (1 - x) b a hb ha (by linarith) (by linarith) _ hBpos hlb v hv
    have hsym := incBeta_symm haR hbR hx0R.le hx1R.le
    have := sub_sound (ofRat_sound 1) hm
    push_cast at this
    convert this using 1
    rw [eq_sub_iff_add_eq, ← add_div, hsym, div_self hBpos.ne']

/-- **`betaRegIWith` encloses the regularised incomplete beta function `I_x(a,b)`.**  For rationals
`a, b > 0`, `0 < x < 1` and `lb ∋ log (Γ(a)Γ(b)/Γ(a+b))`: any interval returned by
`betaRegIWith lb x a b` contains
`I_x(a,b) = (∫₀ˣ t^(a−1)(1−t)^(b−1) dt) · Γ(a+b) / (Γ(a)Γ(b))`. -/
theorem betaRegIWith_encloses (lb : I) (x a b : ℚ) (ha : 0 < a) (hb : 0 < b)
    (hx0 : 0 < x) (hx1 : x < 1)
    (hlb : Mem (Real.log (Real.Gamma a * Real.Gamma b / Real.Gamma ((a : ℝ) + b))) lb)
    (r : I) (h : betaRegIWith lb x a b = some r) :
    Mem ((∫ t in (0 : ℝ)..(x : ℝ), t ^ ((a : ℝ) - 1) * (1 - t) ^ ((b : ℝ) - 1)) /
      (Real.Gamma a * Real.Gamma b / Real.Gamma ((a : ℝ) + b))) r := by
  have haR : (0 : ℝ) < (a : ℝ) := by exact_mod_cast ha
  have hbR : (0 : ℝ) < (b : ℝ) := by exact_mod_cast hb
  rw [← incBeta_one_eq_Gamma haR hbR] at hlb ⊢
  exact betaRegIWith_encloses_incBeta lb x a b ha hb hx0 hx1 hlb r h

/-- **Endpoints included.**  For rationals `a, b > 0`, `0 ≤ x ≤ 1` and
`lb ∋ log (Γ(a)Γ(b)/Γ(a+b))`: any interval returned by `betaRegIWith lb x a b` contains `I_x(a,b)`
(at `x = 0` the model returns `[0,0]`, at `x = 1` it returns `[1,1]`). -/
theorem betaRegIWith_encloses_closed (lb : I) (x a b : ℚ) (ha : 0 < a) (hb : 0 < b)
    (hx0 : 0 ≤ x) (hx1 : x ≤ 1)
    (hlb : Mem (Real.log (Real.Gamma a * Real.Gamma b / Real.Gamma ((a : ℝ) + b))) lb)
    (r : I) (h : betaRegIWith lb x a b = some r) :
    Mem ((∫ t in (0 : ℝ)..(x : ℝ), t ^ ((a : ℝ) - 1) * (1 - t) ^ ((b : ℝ) - 1)) /
      (Real.Gamma a * Real.Gamma b / Real.Gamma ((a : ℝ) + b))) r := by
  have haR : (0 : ℝ) < (a : ℝ) := by exact_mod_cast ha
  have hbR : (0 : ℝ) < (b : ℝ) := by exact_mod_cast hb
  rcases hx0.eq_or_lt with rfl | hx0
  · rw [betaRegIWith_eq, if_pos le_rfl] at h
    obtain rfl := Option.some.inj h
    simpa using ofRat_sound 0
  rcases hx1.eq_or_lt with rfl | hx1
  · rw [betaRegIWith_eq, if_neg (by norm_num), if_pos le_rfl] at h
    obtain rfl := Option.some.inj h
    have h1 := incBeta_one_eq_Gamma haR hbR
    have h2 := incBeta_one_pos haR hbR
    unfold incBeta at h1 h2
    rw [Rat.cast_one, ← h1, div_self h2.ne']
    simpa using ofRat_sound 1
  · exact betaRegIWith_encloses lb x a b ha hb hx0 hx1 hlb r h

/-- **Regularised form of the series.**  For `a, b > 0`, `0 ≤ x < 1`:
`I_x(a,b) = B_x(a,b)/B(a,b) = x^a (1−x)^b / (a·B(a,b)) · ∑ₙ ∏_{j<n} (a+b+j)·x/(a+1+j)` with
`B(a,b) = Γ(a)Γ(b)/Γ(a+b)` — the formula in the comment of the model's `direct`. -/
theorem incBetaReg_series {a b x : ℝ} (ha : 0 < a) (hb : 0 < b) (hx0 : 0 ≤ x) (hx1 : x < 1) :
    (∫ t in (0 : ℝ)..x, t ^ (a - 1) * (1 - t) ^ (b - 1)) /
        (Real.Gamma a * Real.Gamma b / Real.Gamma (a + b)) =
      x ^ a * (1 - x) ^ b / (a * (Real.Gamma a * Real.Gamma b / Real.Gamma (a + b))) *
        ∑' n : ℕ, ∏ j ∈ Finset.range n, ((a + b + j) * x / (a + 1 + j)) := by
  have h := incBeta_series ha hb hx0 hx1
  unfold incBeta at h
  rw [h, ← incBeta_one_eq_Gamma ha hb]
  have := (incBeta_one_pos ha hb).ne'
  field_simp

/-- **Reflection.**  For `a, b > 0`, `0 ≤ x ≤ 1`: `I_x(a,b) = 1 − I_{1−x}(b,a)`. -/
theorem incBetaReg_reflect {a b x : ℝ} (ha : 0 < a) (hb : 0 < b) (hx0 : 0 ≤ x) (hx1 : x ≤ 1) :
    incBeta a b x / incBeta a b 1 = 1 - incBeta b a (1 - x) / incBeta b a 1 := by
  have hB := (incBeta_one_pos ha hb).ne'
  rw [incBeta_one_comm ha hb, eq_sub_iff_add_eq, ← add_div, incBeta_symm ha hb hx0 hx1,
    div_self hB]

/-! ## non-vacuity -/

/-- `B_x(1,1) = x` -/
lemma incBeta_one_one (x : ℝ) : incBeta 1 1 x = x := by simp [incBeta]

/-- `incBeta_series` at `a = b = 1`: the ratios are `(2+j)x/(2+j) = x`, the series is the geometric
series, and the identity reads `x(1−x) · ∑ xⁿ = x`. -/
example (x : ℝ) (hx0 : 0 ≤ x) (hx1 : x < 1) :
    x * (1 - x) * ∑' n : ℕ, ∏ j ∈ Finset.range n, (((1 : ℝ) + 1 + j) * x / ((1 : ℝ) + 1 + j)) = x := by
  have h := incBeta_series (a := 1) (b := 1) one_pos one_pos hx0 hx1
  rw [incBeta_one_one] at h
  simpa using h.symm

/-- the terms of that series are indeed `xⁿ` -/
example (x : ℝ) (n : ℕ) :
    ∏ j ∈ Finset.range n, (((1 : ℝ) + 1 + j) * x / ((1 : ℝ) + 1 + j)) = x ^ n := by
  have : ∀ j : ℕ, ((1 : ℝ) + 1 + j) * x / ((1 : ℝ) + 1 + j) = x := fun j => by
    have : (0 : ℝ) < 1 + 1 + j := by positivity
    field_simp
  simp [this]

/-- `incBeta_series` at non-integer parameters -/
example : incBeta (5 / 2) (3 / 2) (1 / 4) =
    (1 / 4 : ℝ) ^ (5 / 2 : ℝ) * (1 - 1 / 4) ^ (3 / 2 : ℝ) / (5 / 2) *
      ∑' n : ℕ, ∏ j ∈ Finset.range n, (((5 / 2 : ℝ) + 3 / 2 + j) * (1 / 4) / ((5 / 2 : ℝ) + 1 + j)) :=
  incBeta_series (by norm_num) (by norm_num) (by norm_num) (by norm_num)

/-- `incBeta_symm` at `a = b = 1`, `x = 1/3`: `1/3 + 2/3 = 1` -/
example : incBeta 1 1 (1 / 3) + incBeta 1 1 (1 - 1 / 3) = incBeta 1 1 1 :=
  incBeta_symm one_pos one_pos (by norm_num) (by norm_num)

/-- `incBeta_one_eq_Gamma` at `a = b = 1/2`: `∫₀¹ dt/√(t(1−t)) = π` -/
example : ∫ t in (0 : ℝ)..1, t ^ ((1 / 2 : ℝ) - 1) * (1 - t) ^ ((1 / 2 : ℝ) - 1) = Real.pi := by
  have h := incBeta_one_eq_Gamma (a := 1 / 2) (b := 1 / 2) (by norm_num) (by norm_num)
  rw [show (1 / 2 : ℝ) + 1 / 2 = 1 by norm_num, Real.Gamma_one, Real.Gamma_one_half_eq, div_one,
    Real.mul_self_sqrt Real.pi_pos.le] at h
  exact h

/-- `log B(1/2,1/2) = log π` lies in the interval `I.log I.pi` -/
lemma log_beta_half_half_mem :
    Mem (Real.log (Real.Gamma ((1 / 2 : ℚ) : ℝ) * Real.Gamma ((1 / 2 : ℚ) : ℝ) /
      Real.Gamma ((((1 / 2 : ℚ)) : ℝ) + ((1 / 2 : ℚ) : ℝ)))) (I.log I.pi) := by
  have h : Real.Gamma ((1 / 2 : ℚ) : ℝ) * Real.Gamma ((1 / 2 : ℚ) : ℝ) /
      Real.Gamma ((((1 / 2 : ℚ)) : ℝ) + ((1 / 2 : ℚ) : ℝ)) = Real.pi := by
    push_cast
    rw [show (1 / 2 : ℝ) + 1 / 2 = 1 by norm_num, Real.Gamma_one, Real.Gamma_one_half_eq, div_one,
      Real.mul_self_sqrt Real.pi_pos.le]
  rw [h]
  exact log_sound _ _ pi_sound (by decide +kernel)

/-- non-vacuity of `betaRegIWith_encloses`, direct branch: `a = b = 1/2`, `x = 1/4`,
`lb = log [π]`; the model returns an interval and it contains `I_{1/4}(1/2,1/2)` (`= 1/3`) -/
example : ∃ r, betaRegIWith (I.log I.pi) (1 / 4) (1 / 2) (1 / 2) = some r ∧
    Mem ((∫ t in (0 : ℝ)..((1 / 4 : ℚ) : ℝ),
        t ^ (((1 / 2 : ℚ) : ℝ) - 1) * (1 - t) ^ (((1 / 2 : ℚ) : ℝ) - 1)) /
      (Real.Gamma ((1 / 2 : ℚ) : ℝ) * Real.Gamma ((1 / 2 : ℚ) : ℝ) /
        Real.Gamma ((((1 / 2 : ℚ)) : ℝ) + ((1 / 2 : ℚ) : ℝ)))) r := by
  have hs : (betaRegIWith (I.log I.pi) (1 / 4) (1 / 2) (1 / 2)).isSome = true := by decide +kernel
  obtain ⟨r, hr⟩ := Option.isSome_iff_exists.mp hs
  exact ⟨r, hr, betaRegIWith_encloses _ _ _ _ (by norm_num) (by norm_num) (by norm_num)
    (by norm_num) log_beta_half_half_mem r hr⟩

/-- non-vacuity, reflected branch (`x = 3/4 ≥ (a+1)/(a+b+2) = 1/2`) -/
example : ∃ r, betaRegIWith (I.log I.pi) (3 / 4) (1 / 2) (1 / 2) = some r ∧
    Mem ((∫ t in (0 : ℝ)..((3 / 4 : ℚ) : ℝ),
        t ^ (((1 / 2 : ℚ) : ℝ) - 1) * (1 - t) ^ (((1 / 2 : ℚ) : ℝ) - 1)) /
      (Real.Gamma ((1 / 2 : ℚ) : ℝ) * Real.Gamma ((1 / 2 : ℚ) : ℝ) /
        Real.Gamma ((((1 / 2 : ℚ)) : ℝ) + ((1 / 2 : ℚ) : ℝ)))) r := by
  have hs : (betaRegIWith (I.log I.pi) (3 / 4) (1 / 2) (1 / 2)).isSome = true := by decide +kernel
  obtain ⟨r, hr⟩ := Option.isSome_iff_exists.mp hs
  exact ⟨r, hr, betaRegIWith_encloses _ _ _ _ (by norm_num) (by norm_num) (by norm_num)
    (by norm_num) log_beta_half_half_mem r hr⟩

/-- `betaRegIWith_encloses_closed` at the endpoint `x = 1` (`a = b = 1/2`): the model returns `[1,1]`
and `I_1(1/2,1/2) = 1` lies in it -/
example : ∃ r, betaRegIWith (I.log I.pi) 1 (1 / 2) (1 / 2) = some r ∧
    Mem ((∫ t in (0 : ℝ)..((1 : ℚ) : ℝ),
        t ^ (((1 / 2 : ℚ) : ℝ) - 1) * (1 - t) ^ (((1 / 2 : ℚ) : ℝ) - 1)) /
      (Real.Gamma ((1 / 2 : ℚ) : ℝ) * Real.Gamma ((1 / 2 : ℚ) : ℝ) /
        Real.Gamma ((((1 / 2 : ℚ)) : ℝ) + ((1 / 2 : ℚ) : ℝ)))) r :=
  ⟨I.ofRat 1, rfl, betaRegIWith_encloses_closed _ _ _ _ (by norm_num) (by norm_num) (by norm_num)
    (by norm_num) log_beta_half_half_mem _ rfl⟩

/-- `betaRegIWith_encloses_incBeta` at `a = b = 1` (`B(1,1) = 1`, `lb = [0,0]`), reflected branch:
the returned interval contains `I_{3/4}(1,1) = 3/4` -/
example : ∃ r, betaRegIWith (I.ofRat 0) (3 / 4) 1 1 = some r ∧ Mem (3 / 4 : ℝ) r := by
  have hs : (betaRegIWith (I.ofRat 0) (3 / 4) 1 1).isSome = true := by decide +kernel
  obtain ⟨r, hr⟩ := Option.isSome_iff_exists.mp hs
  have h := betaRegIWith_encloses_incBeta (I.ofRat 0) (3 / 4) 1 1 (by norm_num) (by norm_num)
    (by norm_num) (by norm_num)
    (by rw [Rat.cast_one, incBeta_one_one, Real.log_one]; simpa using ofRat_sound 0) r hr
  rw [Rat.cast_one, incBeta_one_one, incBeta_one_one] at h
  exact ⟨r, hr, by simpa using h⟩

/-- `incBeta_one_comm`, `incBetaReg_reflect`, `incBetaReg_series` at non-integer parameters -/
example : incBeta (3 / 2) (5 / 2) 1 = incBeta (5 / 2) (3 / 2) 1 :=
  incBeta_one_comm (by norm_num) (by norm_num)

example : incBeta (5 / 2) (3 / 2) (1 / 4) / incBeta (5 / 2) (3 / 2) 1 =
    1 - incBeta (3 / 2) (5 / 2) (1 - 1 / 4) / incBeta (3 / 2) (5 / 2) 1 :=
  incBetaReg_reflect (by norm_num) (by norm_num) (by norm_num) (by norm_num)

example : (∫ t in (0 : ℝ)..(1 / 4), t ^ ((5 / 2 : ℝ) - 1) * (1 - t) ^ ((3 / 2 : ℝ) - 1)) /
      (Real.Gamma (5 / 2) * Real.Gamma (3 / 2) / Real.Gamma (5 / 2 + 3 / 2)) =
    (1 / 4 : ℝ) ^ (5 / 2 : ℝ) * (1 - 1 / 4) ^ (3 / 2 : ℝ) /
        (5 / 2 * (Real.Gamma (5 / 2) * Real.Gamma (3 / 2) / Real.Gamma (5 / 2 + 3 / 2))) *
      ∑' n : ℕ, ∏ j ∈ Finset.range n, (((5 / 2 : ℝ) + 3 / 2 + j) * (1 / 4) / ((5 / 2 : ℝ) + 1 + j)) :=
  incBetaReg_series (by norm_num) (by norm_num) (by norm_num) (by norm_num)

/-- a concrete numerical consequence: `0.33333 ≤ (∫₀^{1/4} dt/√(t(1−t))) / π ≤ 0.33334`
(the true value is `(2/π)·arcsin(1/2) = 1/3`) -/
example :
    (33333 / 100000 : ℝ) ≤ (∫ t in (0 : ℝ)..(1 / 4),
        t ^ ((1 / 2 : ℝ) - 1) * (1 - t) ^ ((1 / 2 : ℝ) - 1)) / Real.pi ∧
      (∫ t in (0 : ℝ)..(1 / 4),
        t ^ ((1 / 2 : ℝ) - 1) * (1 - t) ^ ((1 / 2 : ℝ) - 1)) / Real.pi ≤ 33334 / 100000 := by
  have h : ((betaRegIWith (I.log I.pi) (1 / 4) (1 / 2) (1 / 2)).any
      (fun e => decide ((33333 / 100000 : ℚ) ≤ e.lo) && decide (e.hi ≤ (33334 / 100000 : ℚ)))) = true := by
    decide +kernel
  rw [Option.any_eq_true] at h
  obtain ⟨e, he, hb⟩ := h
  rw [Bool.and_eq_true, decide_eq_true_eq, decide_eq_true_eq] at hb
  have hm := betaRegIWith_encloses _ _ _ _ (by norm_num) (by norm_num) (by norm_num)
    (by norm_num) log_beta_half_half_mem e he
  have hG : Real.Gamma ((1 / 2 : ℚ) : ℝ) * Real.Gamma ((1 / 2 : ℚ) : ℝ) /
      Real.Gamma ((((1 / 2 : ℚ)) : ℝ) + ((1 / 2 : ℚ) : ℝ)) = Real.pi := by
    push_cast
    rw [show (1 / 2 : ℝ) + 1 / 2 = 1 by norm_num, Real.Gamma_one, Real.Gamma_one_half_eq, div_one,
      Real.mul_self_sqrt Real.pi_pos.le]
  rw [hG] at hm
  push_cast at hm
  obtain ⟨m1, m2⟩ := hm
  have l1 : ((33333 / 100000 : ℚ) : ℝ) ≤ (e.lo : ℝ) := by exact_mod_cast hb.1
  have l2 : (e.hi : ℝ) ≤ ((33334 / 100000 : ℚ) : ℝ) := by exact_mod_cast hb.2
  push_cast at l1 l2
  exact ⟨l1.trans m1, m2.trans l2⟩

end MV.Special
