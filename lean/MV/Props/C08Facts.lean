import MV.Props.FactsLib
/-! Source facts the C08 model relies on (checked against the facts regenerated from /repo on every run). -/
namespace MV.Facts

def expectedC08 : List (String × String) := [("mathx.smallFactLimit", "20"), ("lits:mathx.Choose", "0 0 0 1 1 1")]

/-- the constants and literals the C08 model mirrors are still what the source says -/
theorem facts_C08 : holdsAll expectedC08 = true := by decide


/-- State that outlives a call, as extracted from the source on this run: the package-level
variables of the packages this property's code lives in, the functions (other than `init`) that
assign to them or call methods on them, and the fields of the property's struct types. The model is
a pure function of the arguments and of these fields; a new variable, writer or field is state the
model does not know of. The digest-valued entries cover, per package: every declared function and
method with its receiver kind (`funcs:`), every function-reads-package-variable pair (`reads:`) and
every write through a parameter or receiver, including in-place `sort.*`/`copy` (`pwrites:`); the
lists behind the digests are in `funcs_expected.txt` and in comments of the generated file. -/
def stateC08 : List (String × String) := [("globals:mathx", "nan smallFact"), ("globalwrites:mathx", ""), ("funcs:mathx", "n=13 fnv64a=721c592b642cc9ba"), ("reads:mathx", "n=2 fnv64a=0b5c58057d585a6b"), ("pwrites:mathx", "n=0 fnv64a=cbf29ce484222325")]

/-- the source has exactly the package-level variables, writers and struct fields the model accounts for -/
theorem state_C08 : holdsAll stateC08 = true := by decide +kernel

end MV.Facts
