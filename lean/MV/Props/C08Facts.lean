import MV.Props.FactsLib
/-! Source facts the C08 model relies on (checked against the facts regenerated from /repo on every run). -/
namespace MV.Facts

def expectedC08 : List (String × String) := [("mathx.smallFactLimit", "20"), ("lits:mathx.Choose", "0 0 0 1 1 1")]

/-- the constants and literals the C08 model mirrors are still what the source says -/
theorem facts_C08 : holdsAll expectedC08 = true := by decide

end MV.Facts
