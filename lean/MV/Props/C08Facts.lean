import MV.Props.FactsLib
/-! Source facts the C08 model relies on (checked against the facts regenerated from /repo on every run). -/
namespace MV.Facts

def expectedC08 : List (String × String) := [("mathx.smallFactLimit", "20"), ("lits:mathx.Choose", "0 0 0 1 1 1")]

/-- the constants and literals the C08 model mirrors are still what the source says -/
theorem facts_C08 : holdsAll expectedC08 = true := by decide


/-- State that outlives a call, as extracted from the source on this run: the package-level
variables of the packages this property's code lives in, the functions (other than `init`) that
assign to them or call methods on them, and the fields of the property's struct types. The model is
a pure function of the arguments and of these fields; a new variable, writer or field is state the
model does not know of. The digest-valued `shape:` entry covers everything the call graph
(resolved by go/types) reaches from the functions declared in the property's anchor files: per
function, method (with receiver kind), package variable and constant, its numeric literals, its comparison operators, the
package variables it reads and its writes through parameters or the receiver (including in-place
`sort.*`/`copy`/`append`). The entries behind the digest are in `shape_expected.txt` and in a
comment of the generated file. -/
def stateC08 : List (String × String) := [("globals:mathx", "nan smallFact"), ("globalwrites:mathx", ""), ("shape:C08", "n=16 fnv64a=a72e5871399fc7af")]

/-- the source has exactly the package-level variables, writers and struct fields the model accounts for -/
theorem state_C08 : holdsAll stateC08 = true := by decide +kernel

end MV.Facts
