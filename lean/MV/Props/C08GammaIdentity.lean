import Mathlib
import MV.Props.C08GammaSeries
import MV.Props.C08GammaTail
/-!
# C08 — the series of `C08GammaSeries` IS the regularised lower incomplete gamma function

`C08GammaSeries` proves that the series branch of `gammaRegIWith` encloses

    x^a · e^(−x) / Γ(a+1) · S(a,x),   S(a,x) = ∑' n, x^n / ∏ j < n, (a + j + 1).

This file proves the classical identity (pure real analysis, no model code)

    γ(a,x) = ∫₀ˣ t^(a−1) e^(−t) dt = x^a e^(−x) / a · S(a,x)        (`lowerGamma_series`)

for `a > 0`, `x ≥ 0`, its regularised form (`lowerGammaReg_series`), the splitting
`γ(a,x) + Γ(a,x) = Γ(a)` (`lower_add_upper`) and hence `P = 1 − Q` with `Q = upperGammaQ` of
`C08GammaTail` (`lowerGammaReg_eq_one_sub_upperGammaQ`, `gammaSeries_eq_one_sub_upperGammaQ`).

Proof of the identity: integration by parts gives `a·γ(a,x) = x^a e^(−x) + γ(a+1,x)`
(`lowerGamma_succ`); iterating `N` times gives the `N`-th partial sum of the series plus the
remainder `γ(a+N,x) / (a(a+1)…(a+N−1))` (`lowerGamma_expand`), which is at most `x^a/a` times the
`N`-th term of the (summable) series (`lowerGamma_remainder_le`) and hence tends to `0`.
-/
namespace MV.Special
open MeasureTheory Set Finset Filter Topology intervalIntegral

/-- the (unregularised) lower incomplete gamma function `γ(a,x) = ∫₀ˣ t^(a−1) e^(−t) dt` -/
noncomputable def lowerGamma (a x : ℝ) : ℝ := ∫ t in (0 : ℝ)..x, t ^ (a - 1) * Real.exp (-t)

section
variable {a x : ℝ}

/-- the integrand `t^(a−1) e^(−t)` is interval integrable on every interval when `a > 0` -/
lemma lowerIntegrand_intervalIntegrable (ha : 0 < a) (u v : ℝ) :
    IntervalIntegrable (fun t : ℝ => t ^ (a - 1) * Real.exp (-t)) volume u v :=
  (intervalIntegrable_rpow' (by linarith)).mul_continuousOn
    (Real.continuous_exp.comp continuous_neg).continuousOn

lemma lowerGamma_zero (a : ℝ) : lowerGamma a 0 = 0 := by simp [lowerGamma]

lemma lowerGamma_nonneg (a : ℝ) (hx : 0 ≤ x) : 0 ≤ lowerGamma a x :=
  integral_nonneg hx fun _ ht => mul_nonneg (Real.rpow_nonneg ht.1 _) (Real.exp_pos _).le

/-- `γ(b,x) ≤ x^b / b` (bound `e^(−t) ≤ 1`) -/
lemma lowerGamma_le {b : ℝ} (hb : 0 < b) (hx : 0 ≤ x) : lowerGamma b x ≤ x ^ b / b := by
  have h := integral_mono_on hx (lowerIntegrand_intervalIntegrable hb 0 x)
    (intervalIntegrable_rpow' (r := b - 1) (by linarith)) (fun t ht => by
      have h1 : Real.exp (-t) ≤ 1 := Real.exp_le_one_iff.mpr (by linarith [ht.1])
      exact mul_le_of_le_one_right (Real.rpow_nonneg ht.1 _) h1)
  rw [integral_rpow (Or.inl (by linarith))] at h
  simpa [lowerGamma, Real.zero_rpow hb.ne'] using h

/-- integration by parts: `a·γ(a,x) = x^a e^(−x) + γ(a+1,x)` -/
lemma lowerGamma_succ (ha : 0 < a) (hx : 0 ≤ x) :
    a * lowerGamma a x = x ^ a * Real.exp (-x) + lowerGamma (a + 1) x := by
  have hF : ∫ t in (0 : ℝ)..x,
        (a * (t ^ (a - 1) * Real.exp (-t)) - t ^ (a + 1 - 1) * Real.exp (-t))
      = x ^ a * Real.exp (-x) - (0 : ℝ) ^ a * Real.exp (-0) := by
    apply integral_eq_sub_of_hasDerivAt_of_le hx (f := fun t => t ^ a * Real.exp (-t))
    · exact ((Real.continuous_rpow_const ha.le).mul
        (Real.continuous_exp.comp continuous_neg)).continuousOn
    · intro t ht
      have h1 := Real.hasDerivAt_rpow_const (x := t) (p := a) (Or.inl ht.1.ne')
      have h2 : HasDerivAt (fun t => Real.exp (-t)) (-Real.exp (-t)) t := by
        simpa using (hasDerivAt_neg t).exp
      refine (h1.mul h2).congr_deriv ?_
      rw [add_sub_cancel_right]
      ring
    · exact ((lowerIntegrand_intervalIntegrable ha 0 x).const_mul a).sub
        (lowerIntegrand_intervalIntegrable (by linarith) 0 x)
  rw [integral_sub ((lowerIntegrand_intervalIntegrable ha 0 x).const_mul a)
    (lowerIntegrand_intervalIntegrable (by linarith) 0 x), intervalIntegral.integral_const_mul,
    Real.zero_rpow ha.ne'] at hF
  unfold lowerGamma
  linarith

lemma gprod_shift (a : ℝ) (N : ℕ) :
    a * ∏ j ∈ range N, (a + j + 1) = (∏ j ∈ range N, (a + j)) * (a + N) := by
  induction N with
  | zero => simp
  | succ N ih =>
    rw [prod_range_succ, prod_range_succ (fun j : ℕ => a + (j : ℝ)), ← ih]
    push_cast
    ring

lemma gprod0_pos (ha : 0 < a) (N : ℕ) : 0 < ∏ j ∈ range N, (a + (j : ℝ)) :=
  prod_pos fun j _ => by positivity

/-- `N` integrations by parts: `γ(a,x)` is the `N`-th partial sum of the series plus a remainder -/
lemma lowerGamma_expand (ha : 0 < a) (hx : 0 < x) (N : ℕ) :
    lowerGamma a x = x ^ a * Real.exp (-x) / a * ∑ n ∈ range N, gT a x n
      + lowerGamma (a + N) x / ∏ j ∈ range N, (a + (j : ℝ)) := by
  induction N with
  | zero => simp
  | succ N ih =>
    have haN : 0 < a + N := by positivity
    have hrec := lowerGamma_succ haN hx.le
    have hP := gprod0_pos ha N
    have hQ := gprod_pos ha N
    have hPQ := gprod_shift a N
    have hpow : x ^ (a + N) = x ^ a * x ^ N := Real.rpow_add_natCast hx.ne' a N
    have hcast : a + ((N + 1 : ℕ) : ℝ) = a + N + 1 := by push_cast; ring
    rw [hcast, ih, sum_range_succ, prod_range_succ]
    have key : lowerGamma (a + N) x =
        (x ^ a * x ^ N * Real.exp (-x) + lowerGamma (a + N + 1) x) / (a + N) := by
      rw [eq_div_iff haN.ne', ← hpow]; linarith
    rw [key, div_div, mul_comm (a + N), ← hPQ]
    unfold gT
    field_simp
    ring

/-- the remainder after `N` integrations by parts is at most `x^a/a` times the `N`-th term -/
lemma lowerGamma_remainder_le (ha : 0 < a) (hx : 0 < x) (N : ℕ) :
    lowerGamma (a + N) x / ∏ j ∈ range N, (a + (j : ℝ)) ≤ x ^ a / a * gT a x N := by
  have haN : 0 < a + N := by positivity
  have hP := gprod0_pos ha N
  have hQ := gprod_pos ha N
  have hPQ := gprod_shift a N
  have hpow : x ^ (a + N) = x ^ a * x ^ N := Real.rpow_add_natCast hx.ne' a N
  calc lowerGamma (a + N) x / ∏ j ∈ range N, (a + (j : ℝ))
      ≤ x ^ (a + N) / (a + N) / ∏ j ∈ range N, (a + (j : ℝ)) :=
        div_le_div_of_nonneg_right (lowerGamma_le haN hx.le) hP.le
    _ = x ^ a / a * gT a x N := by
        rw [div_div, mul_comm (a + N), ← hPQ, hpow]
        unfold gT
        field_simp

/-- the series `S(a,x)` converges for every `x > 0` -/
lemma gT_summable_all (ha : 0 < a) (hx : 0 < x) : Summable (gT a x) := by
  obtain ⟨n, hn⟩ := exists_nat_ge (2 * x)
  apply gT_summable ha hx (n := n)
  unfold gq
  rw [div_le_iff₀ (gden_pos ha n)]
  linarith

lemma lowerGamma_series_pos (ha : 0 < a) (hx : 0 < x) :
    lowerGamma a x = x ^ a * Real.exp (-x) / a * ∑' n : ℕ, gT a x n := by
  have hs := gT_summable_all ha hx
  have h1 : Tendsto (fun N => ∑ n ∈ range N, gT a x n) atTop (𝓝 (∑' n, gT a x n)) :=
    hs.hasSum.tendsto_sum_nat
  have h2 : Tendsto (fun N : ℕ => lowerGamma (a + N) x / ∏ j ∈ range N, (a + (j : ℝ))) atTop
      (𝓝 0) := by
    refine squeeze_zero (fun N => div_nonneg (lowerGamma_nonneg _ hx.le) (gprod0_pos ha N).le)
      (lowerGamma_remainder_le ha hx) ?_
    simpa using hs.tendsto_atTop_zero.const_mul (x ^ a / a)
  have h3 : Tendsto (fun _ : ℕ => lowerGamma a x) atTop
      (𝓝 (x ^ a * Real.exp (-x) / a * ∑' n, gT a x n + 0)) :=
    ((h1.const_mul (x ^ a * Real.exp (-x) / a)).add h2).congr
      fun N => (lowerGamma_expand ha hx N).symm
  simpa using tendsto_nhds_unique tendsto_const_nhds h3

end

/-- **The lower incomplete gamma function equals its series.**  For `a > 0` and `x ≥ 0`,
`∫₀ˣ t^(a−1) e^(−t) dt = x^a e^(−x) / a · ∑ₙ x^n / ((a+1)(a+2)…(a+n))`. -/
theorem lowerGamma_series {a x : ℝ} (ha : 0 < a) (hx : 0 ≤ x) :
    ∫ t in (0 : ℝ)..x, t ^ (a - 1) * Real.exp (-t) =
      x ^ a * Real.exp (-x) / a * ∑' n : ℕ, x ^ n / ∏ j ∈ Finset.range n, (a + j + 1) := by
  rcases hx.eq_or_lt with rfl | hx
  · simp [Real.zero_rpow ha.ne']
  · exact lowerGamma_series_pos ha hx

/-- **Regularised form.**  For `a > 0`, `x ≥ 0`:
`γ(a,x)/Γ(a) = x^a e^(−x) / Γ(a+1) · ∑ₙ x^n / ((a+1)…(a+n))` — the right-hand side is exactly the
quantity enclosed by the series branch of `gammaRegIWith` (`gammaRegIWith_series_sound`). -/
theorem lowerGammaReg_series {a x : ℝ} (ha : 0 < a) (hx : 0 ≤ x) :
    (∫ t in (0 : ℝ)..x, t ^ (a - 1) * Real.exp (-t)) / Real.Gamma a =
      x ^ a * Real.exp (-x) / Real.Gamma (a + 1) *
        ∑' n : ℕ, x ^ n / ∏ j ∈ Finset.range n, (a + j + 1) := by
  have hG := (Real.Gamma_pos_of_pos ha).ne'
  rw [lowerGamma_series ha hx, Real.Gamma_add_one ha.ne']
  field_simp

/-- **Lower + upper = complete.**  For `a > 0`, `x ≥ 0`:
`∫₀ˣ t^(a−1) e^(−t) dt + ∫ₓ^∞ t^(a−1) e^(−t) dt = Γ(a)`. -/
theorem lower_add_upper {a x : ℝ} (ha : 0 < a) (hx : 0 ≤ x) :
    (∫ t in (0 : ℝ)..x, t ^ (a - 1) * Real.exp (-t)) +
      (∫ t in Set.Ioi x, t ^ (a - 1) * Real.exp (-t)) = Real.Gamma a := by
  have hI : IntegrableOn (fun t : ℝ => t ^ (a - 1) * Real.exp (-t)) (Ioi 0) := by
    simpa [mul_comm] using Real.GammaIntegral_convergent ha
  rw [integral_interval_add_Ioi hI (hI.mono_set (Ioi_subset_Ioi hx)), Real.Gamma_eq_integral ha]
  simp [mul_comm]

/-- **`P = 1 − Q`.**  The regularised lower incomplete gamma function is one minus the regularised
upper one (`upperGammaQ` of `C08GammaTail`). -/
theorem lowerGammaReg_eq_one_sub_upperGammaQ {a x : ℝ} (ha : 0 < a) (hx : 0 ≤ x) :
    (∫ t in (0 : ℝ)..x, t ^ (a - 1) * Real.exp (-t)) / Real.Gamma a = 1 - upperGammaQ a x := by
  have hG := (Real.Gamma_pos_of_pos ha).ne'
  unfold upperGammaQ
  rw [eq_sub_iff_add_eq, ← add_div, lower_add_upper ha hx, div_self hG]

/-- **The series branch and the far-tail branch compute the same function.**  The quantity
enclosed by the series branch, `x^a e^(−x)/Γ(a+1) · S(a,x)`, equals `1 − Q(a,x)`. -/
theorem gammaSeries_eq_one_sub_upperGammaQ {a x : ℝ} (ha : 0 < a) (hx : 0 ≤ x) :
    x ^ a * Real.exp (-x) / Real.Gamma (a + 1) *
        ∑' n : ℕ, x ^ n / ∏ j ∈ Finset.range n, (a + j + 1) = 1 - upperGammaQ a x := by
  rw [← lowerGammaReg_series ha hx, lowerGammaReg_eq_one_sub_upperGammaQ ha hx]

/-! ## consequence for the model: the series branch encloses the true `P(a,x)` -/

open MV MV.I in
/-- **The series branch of `gammaRegIWith` encloses the regularised lower incomplete gamma
function itself.**  For rationals `a > 0`, `0 < x ≤ 2a+100` and `lg ∋ log Γ(a+1)`: any interval
returned by `gammaRegIWith lg a x` contains `P(a,x) = (∫₀ˣ t^(a−1)e^(−t)dt)/Γ(a)`. -/
theorem gammaRegIWith_series_encloses_P (lg : I) (a x : ℚ) (ha : 0 < a) (hx0 : 0 < x)
    (hx : ¬ x > 2 * a + 100) (hlg : Mem (Real.log (Real.Gamma ((a : ℝ) + 1))) lg)
    (r : I) (h : gammaRegIWith lg a x = some r) :
    Mem ((∫ t in (0 : ℝ)..(x : ℝ), t ^ ((a : ℝ) - 1) * Real.exp (-t)) / Real.Gamma (a : ℝ)) r := by
  have haR : (0 : ℝ) < (a : ℝ) := by exact_mod_cast ha
  have hxR : (0 : ℝ) < (x : ℝ) := by exact_mod_cast hx0
  rw [lowerGammaReg_series haR hxR.le]
  exact gammaRegIWith_series_sound lg a x ha hx0 hx hlg r h

open MV MV.I in
/-- **Both branches of `gammaRegIWith` enclose the same function `P(a,x) = 1 − Q(a,x)`.**  For
rationals `a > 0`, `x > 0` and `lg ∋ log Γ(a+1)`: any interval returned by `gammaRegIWith lg a x`
contains `1 − upperGammaQ a x` (series branch for `x ≤ 2a+100`, far-tail branch otherwise). -/
theorem gammaRegIWith_encloses_P (lg : I) (a x : ℚ) (ha : 0 < a) (hx0 : 0 < x)
    (hlg : Mem (Real.log (Real.Gamma ((a : ℝ) + 1))) lg)
    (r : I) (h : gammaRegIWith lg a x = some r) :
    Mem (1 - upperGammaQ (a : ℝ) (x : ℝ)) r := by
  have haR : (0 : ℝ) < (a : ℝ) := by exact_mod_cast ha
  have hxR : (0 : ℝ) < (x : ℝ) := by exact_mod_cast hx0
  by_cases hx : x > 2 * a + 100
  · obtain ⟨r', hr', hm⟩ := gammaRegIWith_farTail_sound lg a x ha hx hlg
    rw [h] at hr'
    injection hr' with hr'
    rw [hr']
    exact hm
  · rw [← gammaSeries_eq_one_sub_upperGammaQ haR hxR.le]
    exact gammaRegIWith_series_sound lg a x ha hx0 hx hlg r h

open MV MV.I in
/-- non-vacuity: `a = 5/2`, `x = 3`, `lg = [1, 2] ∋ log Γ(7/2)`: the model returns an interval and
it contains `P(5/2, 3) = 1 − Q(5/2, 3)` -/
example : ∃ r, gammaRegIWith ⟨1, 2⟩ (5 / 2) 3 = some r ∧
    Mem (1 - upperGammaQ (((5 / 2 : ℚ)) : ℝ) (((3 : ℚ)) : ℝ)) r ∧
    Mem ((∫ t in (0 : ℝ)..(((3 : ℚ)) : ℝ), t ^ ((((5 / 2 : ℚ)) : ℝ) - 1) * Real.exp (-t)) /
      Real.Gamma (((5 / 2 : ℚ)) : ℝ)) r := by
  have hs : (gammaSer (5 / 2) 3).isSome = true := by decide +kernel
  obtain ⟨ser, hser⟩ := Option.isSome_iff_exists.mp hs
  have h1 := (gammaSeries_sound ⟨1, 2⟩ (5 / 2) 3 (by norm_num) (by norm_num) (by norm_num)
    ser hser).1
  exact ⟨_, h1,
    gammaRegIWith_encloses_P ⟨1, 2⟩ (5 / 2) 3 (by norm_num) (by norm_num)
      log_Gamma_seven_halves_mem _ h1,
    gammaRegIWith_series_encloses_P ⟨1, 2⟩ (5 / 2) 3 (by norm_num) (by norm_num)
      (by norm_num) log_Gamma_seven_halves_mem _ h1⟩

/-! ## non-vacuity: the case `a = 1`, where everything is elementary -/

/-- `γ(1,x) = 1 − e^(−x)` -/
lemma lowerGamma_one_eq (x : ℝ) :
    ∫ t in (0 : ℝ)..x, t ^ ((1 : ℝ) - 1) * Real.exp (-t) = 1 - Real.exp (-x) := by
  simp

/-- `lowerGamma_series` at `a = 1`: `x e^(−x) ∑ₙ x^n/(n+1)! = 1 − e^(−x)` (denominators written as
the products `2·3·…·(n+1)`). -/
example (x : ℝ) (hx : 0 ≤ x) :
    x * Real.exp (-x) * ∑' n : ℕ, x ^ n / ∏ j ∈ Finset.range n, ((1 : ℝ) + j + 1) =
      1 - Real.exp (-x) := by
  have h := lowerGamma_series (a := 1) one_pos hx
  rw [lowerGamma_one_eq] at h
  simpa using h.symm

/-- the instance `a = 1`, `x = 1`: `e^(−1) · ∑ₙ 1/(n+1)! = 1 − e^(−1)`, i.e. `∑ₙ 1/(n+1)! = e − 1`. -/
example : Real.exp (-1) * ∑' n : ℕ, (1 : ℝ) ^ n / ∏ j ∈ Finset.range n, ((1 : ℝ) + j + 1) =
    1 - Real.exp (-1) := by
  have h := lowerGamma_series (a := 1) (x := 1) one_pos zero_le_one
  rw [lowerGamma_one_eq] at h
  simpa using h.symm

/-- `lowerGammaReg_series` at the parameters of the other C08 examples (`a = 5/2`, `x = 3`) -/
example : (∫ t in (0 : ℝ)..3, t ^ ((5 / 2 : ℝ) - 1) * Real.exp (-t)) / Real.Gamma (5 / 2) =
    (3 : ℝ) ^ (5 / 2 : ℝ) * Real.exp (-3) / Real.Gamma (5 / 2 + 1) *
      ∑' n : ℕ, (3 : ℝ) ^ n / ∏ j ∈ Finset.range n, ((5 / 2 : ℝ) + j + 1) :=
  lowerGammaReg_series (by norm_num) (by norm_num)

/-- `lower_add_upper` at `a = 1`, `x = 1` computes the upper integral: `∫₁^∞ e^(−t) dt = e^(−1)` -/
example : ∫ t in Set.Ioi (1 : ℝ), t ^ ((1 : ℝ) - 1) * Real.exp (-t) = Real.exp (-1) := by
  have h := lower_add_upper (a := 1) (x := 1) one_pos zero_le_one
  rw [lowerGamma_one_eq, Real.Gamma_one] at h
  linarith

/-- hence `Q(1,1) = e^(−1)` and the series value `1 − e^(−1)` is `P(1,1) = 1 − Q(1,1)` -/
example : upperGammaQ 1 1 = Real.exp (-1) := by
  have h := lowerGammaReg_eq_one_sub_upperGammaQ (a := 1) (x := 1) one_pos zero_le_one
  rw [lowerGamma_one_eq, Real.Gamma_one] at h
  linarith

example : (1 : ℝ) ^ (1 : ℝ) * Real.exp (-1) / Real.Gamma (1 + 1) *
    ∑' n : ℕ, (1 : ℝ) ^ n / ∏ j ∈ Finset.range n, ((1 : ℝ) + j + 1) = 1 - upperGammaQ 1 1 :=
  gammaSeries_eq_one_sub_upperGammaQ one_pos zero_le_one

end MV.Special
