import Mathlib
import MV.Model.Special
import MV.Proofs.Interval
/-!
# C08 — series branch of the regularised incomplete gamma reference

For `0 < x ≤ 2a + 100` the executable reference `MV.Special.gammaRegIWith lg a x` evaluates in
fixed point (unit `one = 2^128`, every term rounded UP) the power series

    S(a,x) = Σ_{n≥0} T_n,   T_0 = 1,  T_{n+1} = T_n · q_n,  q_n = x/(a+n+1),

and returns `exp(e) · ser` where `e ∋ a·log x − x − log Γ(a+1)` and

    ser = [ max 1 ((s − m²)/(1 + m/one)/one),  (s + 2t + 1)/one ],   m = n + 2,

`(s, t, n)` being the running sum, the last term and the last index of the loop.  This file proves
that `ser` contains the real number `S(a,x)` (`gammaSeries_sound`) and that the returned interval
contains `x^a e^(−x)/Γ(a+1) · S(a,x)` (`gammaRegIWith_series_sound`).
-/
namespace MV.Special
open MV MV.I Finset

/-! ## the model, spelled out -/

/-- the enclosure of the exponent `a·log x − x − log Γ(a+1)` used by the series branch -/
def gammaSeriesExp (lg : I) (a x : ℚ) : I :=
  I.sub (I.sub (I.scale a (I.logQ x)) (I.ofRat x)) lg

/-- the series branch of `gammaRegIWith`, spelled out -/
lemma gammaRegIWith_series_eq (lg : I) (a x : ℚ) (hx0 : 0 < x) (hx : ¬ x > 2 * a + 100) :
    gammaRegIWith lg a x =
      (gammaSer a x).map (fun ser => I.mul (I.exp (gammaSeriesExp lg a x)) ser) := by
  unfold gammaRegIWith
  rw [if_neg (not_le.mpr hx0), if_neg hx]
  unfold gammaSer gammaLoop gammaSerOf gammaSeriesExp
  dsimp only
  split_ifs <;> rfl

/-! ## the exact terms and their elementary properties -/

/-- the ratio `q_n = x/(a+n+1)` of consecutive terms -/
noncomputable def gq (a x : ℝ) (n : ℕ) : ℝ := x / (a + n + 1)

/-- the exact term `T_n = x^n / ((a+1)(a+2)…(a+n))` -/
noncomputable def gT (a x : ℝ) (n : ℕ) : ℝ := x ^ n / ∏ j ∈ range n, (a + j + 1)

section real
variable {a x : ℝ}

lemma gden_pos (ha : 0 < a) (n : ℕ) : 0 < a + n + 1 := by
  have : (0 : ℝ) ≤ n := Nat.cast_nonneg n
  linarith

lemma gprod_pos (ha : 0 < a) (n : ℕ) : 0 < ∏ j ∈ range n, (a + j + 1) :=
  prod_pos fun j _ => gden_pos ha j

lemma gT_zero : gT a x 0 = 1 := by simp [gT]

lemma gT_succ (ha : 0 < a) (n : ℕ) : gT a x (n + 1) = gT a x n * gq a x n := by
  unfold gT gq
  rw [pow_succ, prod_range_succ]
  have h1 := (gprod_pos ha n).ne'
  have h2 := (gden_pos ha n).ne'
  field_simp

lemma gT_pos (ha : 0 < a) (hx : 0 < x) (n : ℕ) : 0 < gT a x n :=
  div_pos (pow_pos hx n) (gprod_pos ha n)

lemma gq_pos (ha : 0 < a) (hx : 0 < x) (n : ℕ) : 0 < gq a x n :=
  div_pos hx (gden_pos ha n)

/-- the ratios decrease -/
lemma gq_anti (ha : 0 < a) (hx : 0 < x) {m n : ℕ} (h : m ≤ n) : gq a x n ≤ gq a x m := by
  unfold gq
  apply div_le_div_of_nonneg_left hx.le (gden_pos ha m)
  have : (m : ℝ) ≤ n := by exact_mod_cast h
  linarith

/-- while the ratio is still `≥ 1`, the terms have only grown: `T_j ≥ T_0 = 1` -/
lemma one_le_gT (ha : 0 < a) (hx : 0 < x) {k : ℕ} (hk : 1 ≤ gq a x k) :
    ∀ j, j ≤ k → 1 ≤ gT a x j := by
  intro j
  induction j with
  | zero => intro _; rw [gT_zero]
  | succ j ih =>
    intro hj
    rw [gT_succ ha]
    have h1 := ih (by omega)
    have h2 : 1 ≤ gq a x j := hk.trans (gq_anti ha hx (by omega))
    calc (1 : ℝ) = 1 * 1 := by ring
      _ ≤ gT a x j * gq a x j := mul_le_mul h1 h2 zero_le_one (by linarith)

/-! ### tail of the series once the ratio is at most `1/2` -/

lemma gT_add_le (ha : 0 < a) (hx : 0 < x) {n : ℕ} (hq : gq a x n ≤ 1 / 2) (k : ℕ) :
    gT a x (k + (n + 1)) ≤ gT a x n / 2 / 2 ^ k := by
  induction k with
  | zero =>
    rw [zero_add, gT_succ ha]
    have := (gT_pos ha hx n).le
    have h := mul_le_mul_of_nonneg_left hq this
    simpa using by linarith
  | succ k ih =>
    have e : k + 1 + (n + 1) = (k + (n + 1)) + 1 := by omega
    rw [e, gT_succ ha, pow_succ]
    have hq' : gq a x (k + (n + 1)) ≤ 1 / 2 := (gq_anti ha hx (by omega)).trans hq
    have h0 := (gT_pos ha hx (k + (n + 1))).le
    have h1 := (gq_pos ha hx (k + (n + 1))).le
    have hb : 0 ≤ gT a x n / 2 / 2 ^ k := by
      have := (gT_pos ha hx n).le
      positivity
    calc gT a x (k + (n + 1)) * gq a x (k + (n + 1))
        ≤ (gT a x n / 2 / 2 ^ k) * (1 / 2) := mul_le_mul ih hq' h1 hb
      _ = gT a x n / 2 / (2 ^ k * 2) := by ring

lemma gT_summable (ha : 0 < a) (hx : 0 < x) {n : ℕ} (hq : gq a x n ≤ 1 / 2) :
    Summable (gT a x) :=
  (summable_nat_add_iff (n + 1)).mp
    (Summable.of_nonneg_of_le (fun _ => (gT_pos ha hx _).le) (gT_add_le ha hx hq)
      (hasSum_geometric_two' _).summable)

/-- geometric tail bound: `Σ_k T_k ≤ Σ_{k≤n} T_k + T_n` once `q_n ≤ 1/2` -/
lemma gT_tsum_le (ha : 0 < a) (hx : 0 < x) {n : ℕ} (hq : gq a x n ≤ 1 / 2) :
    ∑' k, gT a x k ≤ ∑ k ∈ range (n + 1), gT a x k + gT a x n := by
  have hs := gT_summable ha hx hq
  rw [← hs.sum_add_tsum_nat_add (n + 1)]
  have h2 : ∑' k, gT a x (k + (n + 1)) ≤ gT a x n :=
    hasSum_le (gT_add_le ha hx hq) ((summable_nat_add_iff (n + 1)).mpr hs).hasSum
      (hasSum_geometric_two' _)
  linarith

lemma gT_sum_le_tsum (ha : 0 < a) (hx : 0 < x) {n : ℕ} (hq : gq a x n ≤ 1 / 2) (m : ℕ) :
    ∑ k ∈ range m, gT a x k ≤ ∑' k, gT a x k :=
  (gT_summable ha hx hq).sum_le_tsum _ fun k _ => (gT_pos ha hx k).le

lemma one_le_gT_sum (ha : 0 < a) (hx : 0 < x) (n : ℕ) : 1 ≤ ∑ k ∈ range (n + 1), gT a x k := by
  rw [sum_range_succ']
  have : 0 ≤ ∑ k ∈ range n, gT a x (k + 1) := sum_nonneg fun k _ => (gT_pos ha hx _).le
  rw [gT_zero]; linarith

/-! ### the rounded-up recursion, abstractly

`N` is the fixed-point unit, `t k` the computed (scaled) terms: `t 0 = N` and each step multiplies
by `q_k` and rounds up by at most one unit. -/

section abstractError
variable (N : ℝ) (t : ℕ → ℝ)

lemma NT_le_t (ha : 0 < a) (hx : 0 < x) (ht0 : t 0 = N)
    (hts : ∀ k, t k * gq a x k ≤ t (k + 1) ∧ t (k + 1) ≤ t k * gq a x k + 1) (k : ℕ) :
    N * gT a x k ≤ t k := by
  induction k with
  | zero => rw [gT_zero, ht0, mul_one]
  | succ k ih =>
    rw [gT_succ ha, ← mul_assoc]
    exact (mul_le_mul_of_nonneg_right ih (gq_pos ha hx k).le).trans (hts k).1

/-- the excess of the computed term over the exact scaled term is at most `k·max(T_k, 1)` units -/
lemma t_sub_le (ha : 0 < a) (hx : 0 < x) (ht0 : t 0 = N)
    (hts : ∀ k, t k * gq a x k ≤ t (k + 1) ∧ t (k + 1) ≤ t k * gq a x k + 1) (k : ℕ) :
    t k - N * gT a x k ≤ k * max (gT a x k) 1 := by
  induction k with
  | zero => simp [ht0, gT_zero]
  | succ k ih =>
    have hq0 := (gq_pos ha hx k).le
    have hT0 := (gT_pos ha hx k).le
    have hM : max (gT a x k) 1 * gq a x k ≤ max (gT a x (k + 1)) 1 := by
      rw [max_mul_of_nonneg _ _ hq0, one_mul, ← gT_succ ha]
      apply max_le (le_max_left _ _)
      rcases le_total (gq a x k) 1 with h | h
      · exact h.trans (le_max_right _ _)
      · have h1 := one_le_gT ha hx h k le_rfl
        refine le_trans ?_ (le_max_left _ _)
        rw [gT_succ ha]
        calc gq a x k = 1 * gq a x k := (one_mul _).symm
          _ ≤ gT a x k * gq a x k := mul_le_mul_of_nonneg_right h1 hq0
    have e1 : (t k - N * gT a x k) * gq a x k ≤ k * max (gT a x k) 1 * gq a x k :=
      mul_le_mul_of_nonneg_right ih hq0
    have e2 : (k : ℝ) * max (gT a x k) 1 * gq a x k ≤ k * max (gT a x (k + 1)) 1 := by
      rw [mul_assoc]; exact mul_le_mul_of_nonneg_left hM (Nat.cast_nonneg k)
    have e3 : (1 : ℝ) ≤ max (gT a x (k + 1)) 1 := le_max_right _ _
    have e4 := (hts k).2
    rw [gT_succ ha]
    rw [gT_succ ha] at e2 e3
    push_cast
    nlinarith

/-- summed over `k ≤ n`: `s − N·P_n ≤ n·P_n + n(n+1)` with `P_n` the exact partial sum -/
lemma sum_t_sub_le (ha : 0 < a) (hx : 0 < x) (ht0 : t 0 = N)
    (hts : ∀ k, t k * gq a x k ≤ t (k + 1) ∧ t (k + 1) ≤ t k * gq a x k + 1) (n : ℕ) :
    ∑ k ∈ range (n + 1), t k - N * ∑ k ∈ range (n + 1), gT a x k ≤
      n * ∑ k ∈ range (n + 1), gT a x k + n * (n + 1) := by
  rw [mul_sum, ← sum_sub_distrib]
  calc ∑ k ∈ range (n + 1), (t k - N * gT a x k)
      ≤ ∑ k ∈ range (n + 1), ((n : ℝ) * (gT a x k + 1)) := by
        apply sum_le_sum
        intro k hk
        refine (t_sub_le N t ha hx ht0 hts k).trans ?_
        have hkn : (k : ℝ) ≤ n := by
          exact_mod_cast Nat.lt_succ_iff.mp (mem_range.mp hk)
        have hT := (gT_pos ha hx k).le
        have hmax : max (gT a x k) 1 ≤ gT a x k + 1 := max_le (by linarith) (by linarith)
        exact mul_le_mul hkn hmax (le_trans zero_le_one (le_max_right _ _)) (Nat.cast_nonneg n)
    _ = n * ∑ k ∈ range (n + 1), gT a x k + n * (n + 1) := by
        rw [← mul_sum, sum_add_distrib]
        simp
        ring

end abstractError
end real

/-! ## the natural-number loop -/

lemma go_zero (aN aD xN xD n s t : ℕ) :
    gammaRegIWith.go aN aD xN xD 0 n s t = (s, t, n) := rfl

/-- unfolding equation of the model's local loop -/
lemma go_succ (aN aD xN xD f n s t : ℕ) :
    gammaRegIWith.go aN aD xN xD (f + 1) n s t =
      if t ≤ 2 ∧ 2 * (xN * aD) ≤ (aN + (n + 1) * aD) * xD then (s, t, n)
      else gammaRegIWith.go aN aD xN xD f (n + 1)
        (s + (t * (xN * aD) + (aN + (n + 1) * aD) * xD - 1) / ((aN + (n + 1) * aD) * xD))
        ((t * (xN * aD) + (aN + (n + 1) * aD) * xD - 1) / ((aN + (n + 1) * aD) * xD)) := rfl

/-- the sequence of scaled, rounded-up terms computed by the loop -/
def gtn (aN aD xN xD : ℕ) : ℕ → ℕ
  | 0 => I.scaleN
  | k + 1 => (gtn aN aD xN xD k * (xN * aD) + (aN + (k + 1) * aD) * xD - 1) /
      ((aN + (k + 1) * aD) * xD)

/-- the running sum of the loop -/
def gsn (aN aD xN xD k : ℕ) : ℕ := ∑ i ∈ range (k + 1), gtn aN aD xN xD i

/-- loop invariant: started on the sequences `gsn`, `gtn` at index `k`, the loop returns them at
some later index `K` -/
lemma go_spec (aN aD xN xD f k : ℕ) :
    ∃ K, k ≤ K ∧ K ≤ k + f ∧
      gammaRegIWith.go aN aD xN xD f k (gsn aN aD xN xD k) (gtn aN aD xN xD k) =
        (gsn aN aD xN xD K, gtn aN aD xN xD K, K) := by
  induction f generalizing k with
  | zero => exact ⟨k, le_rfl, le_rfl, rfl⟩
  | succ f ih =>
    rw [go_succ]
    split_ifs with h
    · exact ⟨k, le_rfl, by omega, rfl⟩
    · obtain ⟨K, h1, h2, h3⟩ := ih (k + 1)
      refine ⟨K, by omega, by omega, ?_⟩
      rw [← h3]
      have : gsn aN aD xN xD (k + 1) = gsn aN aD xN xD k + gtn aN aD xN xD (k + 1) := by
        unfold gsn; rw [sum_range_succ _ (k + 1)]
      rw [this]
      rfl

lemma gtn_succ_bounds (aN aD xN xD : ℕ) (haD : 0 < aD) (hxD : 0 < xD) (k : ℕ) :
    (gtn aN aD xN xD k : ℝ) * (((xN * aD : ℕ) : ℝ) / (((aN + (k + 1) * aD) * xD : ℕ) : ℝ)) ≤
        (gtn aN aD xN xD (k + 1) : ℝ) ∧
      (gtn aN aD xN xD (k + 1) : ℝ) ≤
        (gtn aN aD xN xD k : ℝ) * (((xN * aD : ℕ) : ℝ) / (((aN + (k + 1) * aD) * xD : ℕ) : ℝ)) + 1 := by
  have hd : 0 < (aN + (k + 1) * aD) * xD := by positivity
  obtain ⟨h1, h2⟩ := ceilDiv_bounds (gtn aN aD xN xD k * (xN * aD)) _ hd
  have hdR : (0 : ℝ) < (((aN + (k + 1) * aD) * xD : ℕ) : ℝ) := by exact_mod_cast hd
  have e : gtn aN aD xN xD (k + 1) =
      (gtn aN aD xN xD k * (xN * aD) + (aN + (k + 1) * aD) * xD - 1) /
        ((aN + (k + 1) * aD) * xD) := rfl
  rw [← e] at h1 h2
  have h1R : ((gtn aN aD xN xD k : ℝ) * ((xN * aD : ℕ) : ℝ)) ≤
      (gtn aN aD xN xD (k + 1) : ℝ) * (((aN + (k + 1) * aD) * xD : ℕ) : ℝ) := by
    exact_mod_cast h1
  have h2R : (gtn aN aD xN xD (k + 1) : ℝ) * (((aN + (k + 1) * aD) * xD : ℕ) : ℝ) <
      (gtn aN aD xN xD k : ℝ) * ((xN * aD : ℕ) : ℝ) + (((aN + (k + 1) * aD) * xD : ℕ) : ℝ) := by
    exact_mod_cast h2
  constructor
  · rw [← mul_div_assoc, div_le_iff₀ hdR]; exact h1R
  · rw [← mul_div_assoc, ← sub_le_iff_le_add, le_div_iff₀ hdR]
    nlinarith

/-- the integer form of the ratio is the ratio -/
lemma gratio (a x : ℚ) (ha : 0 < a) (hx : 0 < x) (k : ℕ) :
    ((x.num.toNat * a.den : ℕ) : ℝ) / (((a.num.toNat + (k + 1) * a.den) * x.den : ℕ) : ℝ) =
      gq (a : ℝ) (x : ℝ) k := by
  have hxn : ((x.num.toNat : ℕ) : ℝ) = ((x.num : ℤ) : ℝ) := by
    rw [← Int.cast_natCast, Int.toNat_of_nonneg (Rat.num_nonneg.mpr hx.le)]
  have han : ((a.num.toNat : ℕ) : ℝ) = ((a.num : ℤ) : ℝ) := by
    rw [← Int.cast_natCast, Int.toNat_of_nonneg (Rat.num_nonneg.mpr ha.le)]
  have hxd : (0 : ℝ) < (x.den : ℝ) := by exact_mod_cast x.den_pos
  have had : (0 : ℝ) < (a.den : ℝ) := by exact_mod_cast a.den_pos
  have haR : (0 : ℝ) < (a : ℝ) := by exact_mod_cast ha
  have hden := gden_pos haR k
  unfold gq
  rw [Rat.cast_def x, Rat.cast_def a] at *
  push_cast
  rw [hxn, han]
  field_simp
  ring

/-- what the loop's result satisfies, in terms of the exact partial sums -/
lemma gammaLoop_facts (a x : ℚ) (ha : 0 < a) (hx : 0 < x) :
    ∃ sN tN K : ℕ, gammaLoop a x = (sN, tN, K) ∧
      ((I.scaleN : ℕ) : ℝ) * ∑ k ∈ range (K + 1), gT (a : ℝ) (x : ℝ) k ≤ (sN : ℝ) ∧
      (sN : ℝ) - ((I.scaleN : ℕ) : ℝ) * ∑ k ∈ range (K + 1), gT (a : ℝ) (x : ℝ) k ≤
        K * ∑ k ∈ range (K + 1), gT (a : ℝ) (x : ℝ) k + K * (K + 1) ∧
      ((I.scaleN : ℕ) : ℝ) * gT (a : ℝ) (x : ℝ) K ≤ (tN : ℝ) := by
  set aN := a.num.toNat with haN
  set aD := a.den with haD
  set xN := x.num.toNat with hxN
  set xD := x.den with hxD
  have haR : (0 : ℝ) < (a : ℝ) := by exact_mod_cast ha
  have hxR : (0 : ℝ) < (x : ℝ) := by exact_mod_cast hx
  obtain ⟨K, -, -, hloop⟩ := go_spec aN aD xN xD 100000 0
  have h00 : gsn aN aD xN xD 0 = I.scaleN := by simp [gsn, gtn]
  have h01 : gtn aN aD xN xD 0 = I.scaleN := rfl
  rw [h00, h01] at hloop
  refine ⟨gsn aN aD xN xD K, gtn aN aD xN xD K, K, hloop, ?_⟩
  have ht0 : ((gtn aN aD xN xD 0 : ℕ) : ℝ) = ((I.scaleN : ℕ) : ℝ) := by rw [h01]
  have hts : ∀ k : ℕ,
      (gtn aN aD xN xD k : ℝ) * gq (a : ℝ) (x : ℝ) k ≤ (gtn aN aD xN xD (k + 1) : ℝ) ∧
      (gtn aN aD xN xD (k + 1) : ℝ) ≤ (gtn aN aD xN xD k : ℝ) * gq (a : ℝ) (x : ℝ) k + 1 := by
    intro k
    have := gtn_succ_bounds aN aD xN xD a.den_pos x.den_pos k
    rwa [gratio a x ha hx k] at this
  have hsum : ((gsn aN aD xN xD K : ℕ) : ℝ) = ∑ k ∈ range (K + 1), (gtn aN aD xN xD k : ℝ) := by
    unfold gsn; push_cast; rfl
  refine ⟨?_, ?_, ?_⟩
  · rw [hsum, mul_sum]
    exact sum_le_sum fun k _ =>
      NT_le_t _ (fun k => (gtn aN aD xN xD k : ℝ)) haR hxR ht0 hts k
  · rw [hsum]
    exact sum_t_sub_le _ (fun k => (gtn aN aD xN xD k : ℝ)) haR hxR ht0 hts K
  · exact NT_le_t _ (fun k => (gtn aN aD xN xD k : ℝ)) haR hxR ht0 hts K

/-! ## assembly -/

/-- the interval formed from a triple with the properties of `gammaLoop_facts` and final ratio
`≤ 1/2` contains the sum of the series -/
lemma gammaSerOf_sound {a x : ℝ} (ha : 0 < a) (hx : 0 < x) (sN tN K : ℕ)
    (hq : gq a x K ≤ 1 / 2)
    (h1 : ((I.scaleN : ℕ) : ℝ) * ∑ k ∈ range (K + 1), gT a x k ≤ (sN : ℝ))
    (h2 : (sN : ℝ) - ((I.scaleN : ℕ) : ℝ) * ∑ k ∈ range (K + 1), gT a x k ≤
        K * ∑ k ∈ range (K + 1), gT a x k + K * (K + 1))
    (h3 : ((I.scaleN : ℕ) : ℝ) * gT a x K ≤ (tN : ℝ)) :
    Mem (∑' k, gT a x k) (gammaSerOf (sN, tN, K)) := by
  set N : ℝ := ((I.scaleN : ℕ) : ℝ) with hNdef
  have hN : 0 < N := by
    have := FI.SR_pos; rwa [← FI.SR_nat] at this
  set P : ℝ := ∑ k ∈ range (K + 1), gT a x k with hP
  set S : ℝ := ∑' k, gT a x k with hS
  have hP1 : 1 ≤ P := one_le_gT_sum ha hx K
  have hPS : P ≤ S := gT_sum_le_tsum ha hx hq _
  have hSP : S ≤ P + gT a x K := gT_tsum_le ha hx hq
  have hK0 : (0 : ℝ) ≤ K := Nat.cast_nonneg _
  have ht0 : (0 : ℝ) ≤ tN := Nat.cast_nonneg _
  unfold gammaSerOf
  simp only
  constructor
  · show ((ratMax 1 (((sN : ℚ) - ((K + 2 : ℕ) : ℚ) * ((K + 2 : ℕ) : ℚ)) /
        (1 + ((K + 2 : ℕ) : ℚ) / ((I.scaleN : ℕ) : ℚ)) / ((I.scaleN : ℕ) : ℚ)) : ℚ) : ℝ) ≤ S
    rw [ratMax_eq]
    push_cast
    apply max_le (hP1.trans hPS)
    rw [← hNdef]
    have hpos : 0 < 1 + ((K : ℝ) + 2) / N := by positivity
    rw [div_le_iff₀ hN, div_le_iff₀ hpos]
    have e : S * N * (1 + ((K : ℝ) + 2) / N) = S * (N + K + 2) := by
      field_simp
      ring
    rw [e]
    have h4 : (N + K) * P ≤ (N + K) * S := mul_le_mul_of_nonneg_left hPS (by linarith)
    nlinarith
  · show S ≤ ((((sN : ℚ) + 2 * (tN : ℚ) + 1) / ((I.scaleN : ℕ) : ℚ) : ℚ) : ℝ)
    push_cast
    rw [← hNdef, le_div_iff₀ hN]
    have h4 : S * N ≤ (P + gT a x K) * N := mul_le_mul_of_nonneg_right hSP hN.le
    linarith

/-- **Soundness of the series enclosure.**  For rationals `a > 0` and `0 < x ≤ 2a + 100`: whenever
the series part of `gammaRegIWith` yields an interval `ser` (i.e. the loop ended with ratio
`x/(a+n+1) ≤ 1/2`), then (i) `gammaRegIWith lg a x` is `some (exp(e) · ser)` with `e` the enclosure
of the exponent, and (ii) the real number `Σ_{n≥0} x^n / ((a+1)(a+2)…(a+n))` lies in `ser`:
the lower end `max 1 ((s − m²)/(1 + m/one)/one)` and the upper end `(s + 2t + 1)/one` of the model
are both valid.  (Part (ii) does not use `x ≤ 2a + 100`.) -/
theorem gammaSeries_sound (lg : I) (a x : ℚ) (ha : 0 < a) (hx0 : 0 < x) (hx : ¬ x > 2 * a + 100)
    (ser : I) (h : gammaSer a x = some ser) :
    gammaRegIWith lg a x = some (I.mul (I.exp (gammaSeriesExp lg a x)) ser) ∧
      Mem (∑' n : ℕ, (x : ℝ) ^ n / ∏ j ∈ Finset.range n, ((a : ℝ) + j + 1)) ser := by
  refine ⟨by rw [gammaRegIWith_series_eq lg a x hx0 hx, h]; rfl, ?_⟩
  have haR : (0 : ℝ) < (a : ℝ) := by exact_mod_cast ha
  have hxR : (0 : ℝ) < (x : ℝ) := by exact_mod_cast hx0
  obtain ⟨sN, tN, K, hloop, h1, h2, h3⟩ := gammaLoop_facts a x ha hx0
  unfold gammaSer at h
  rw [hloop] at h
  split_ifs at h with hq
  injection h with h
  subst h
  have hq' : gq (a : ℝ) (x : ℝ) K ≤ 1 / 2 := by
    have h5 : x / (a + ((K + 1 : ℕ) : ℚ)) ≤ 1 / 2 := not_lt.mp hq
    have h6 : ((x / (a + ((K + 1 : ℕ) : ℚ)) : ℚ) : ℝ) ≤ ((1 / 2 : ℚ) : ℝ) := by exact_mod_cast h5
    push_cast at h6
    unfold gq
    rw [add_assoc]
    exact h6
  exact gammaSerOf_sound haR hxR sN tN K hq' h1 h2 h3

/-- non-vacuity: `a = 5/2`, `x = 3` — the loop stops after 45 terms with ratio `≤ 1/2`, the series
part returns an interval, and that interval contains `Σ 3^n/((7/2)(9/2)…(5/2+n))` -/
example : ∃ ser, gammaSer (5 / 2) 3 = some ser ∧
    gammaRegIWith (lgammaI (5 / 2 + 1)) (5 / 2) 3 =
      some (I.mul (I.exp (gammaSeriesExp (lgammaI (5 / 2 + 1)) (5 / 2) 3)) ser) ∧
    Mem (∑' n : ℕ, (((3 : ℚ) : ℝ)) ^ n / ∏ j ∈ Finset.range n, ((((5 / 2 : ℚ)) : ℝ) + j + 1))
      ser := by
  have hs : (gammaSer (5 / 2) 3).isSome = true := by decide +kernel
  obtain ⟨ser, hser⟩ := Option.isSome_iff_exists.mp hs
  exact ⟨ser, hser, gammaSeries_sound _ (5 / 2) 3 (by norm_num) (by norm_num) (by norm_num) ser hser⟩

/-- non-vacuity with growing terms first: `a = 1/2`, `x = 100` (ratios `> 1` for the first 98 steps) -/
example : ∃ ser, gammaSer (1 / 2) 100 = some ser ∧
    Mem (∑' n : ℕ, (((100 : ℚ) : ℝ)) ^ n / ∏ j ∈ Finset.range n, ((((1 / 2 : ℚ)) : ℝ) + j + 1))
      ser := by
  have hs : (gammaSer (1 / 2) 100).isSome = true := by decide +kernel
  obtain ⟨ser, hser⟩ := Option.isSome_iff_exists.mp hs
  exact ⟨ser, hser,
    (gammaSeries_sound (I.ofRat 0) (1 / 2) 100 (by norm_num) (by norm_num) (by norm_num) ser hser).2⟩

/-! ## the whole series branch -/

lemma gammaSeriesExp_sound (lg : I) (a x : ℚ) (hx0 : 0 < x)
    (hlg : Mem (Real.log (Real.Gamma ((a : ℝ) + 1))) lg) :
    Mem ((a : ℝ) * Real.log x - x - Real.log (Real.Gamma ((a : ℝ) + 1)))
      (gammaSeriesExp lg a x) := by
  unfold gammaSeriesExp
  exact sub_sound (sub_sound (scale_sound a (logQ_sound x hx0)) (ofRat_sound x)) hlg

lemma exp_gammaExponent {a x : ℝ} (ha : 0 < a) (hx : 0 < x) :
    Real.exp (a * Real.log x - x - Real.log (Real.Gamma (a + 1))) =
      x ^ a * Real.exp (-x) / Real.Gamma (a + 1) := by
  have hG : 0 < Real.Gamma (a + 1) := Real.Gamma_pos_of_pos (by linarith)
  rw [Real.exp_sub, Real.exp_log hG, sub_eq_add_neg, Real.exp_add, Real.rpow_def_of_pos hx,
    mul_comm a]

/-- **Soundness of the series branch of `gammaRegIWith`.**  For rationals `a > 0`, `0 < x ≤ 2a+100`
and any interval `lg` containing `log Γ(a+1)`: whenever `gammaRegIWith lg a x` returns an interval
`r`, that interval contains `x^a e^(−x)/Γ(a+1) · Σ_{n≥0} x^n/((a+1)…(a+n))` (which is the
regularised lower incomplete gamma function `P(a,x)`; that identity is not proved here). -/
theorem gammaRegIWith_series_sound (lg : I) (a x : ℚ) (ha : 0 < a) (hx0 : 0 < x)
    (hx : ¬ x > 2 * a + 100) (hlg : Mem (Real.log (Real.Gamma ((a : ℝ) + 1))) lg)
    (r : I) (h : gammaRegIWith lg a x = some r) :
    Mem ((x : ℝ) ^ (a : ℝ) * Real.exp (-(x : ℝ)) / Real.Gamma ((a : ℝ) + 1) *
      ∑' n : ℕ, (x : ℝ) ^ n / ∏ j ∈ Finset.range n, ((a : ℝ) + j + 1)) r := by
  have haR : (0 : ℝ) < (a : ℝ) := by exact_mod_cast ha
  have hxR : (0 : ℝ) < (x : ℝ) := by exact_mod_cast hx0
  rw [gammaRegIWith_series_eq lg a x hx0 hx] at h
  cases hs : gammaSer a x with
  | none => rw [hs] at h; simp at h
  | some ser =>
    rw [hs] at h
    simp only [Option.map_some] at h
    injection h with h
    subst h
    refine mul_sound ?_ (gammaSeries_sound lg a x ha hx0 hx ser hs).2
    rw [← exp_gammaExponent haR hxR]
    exact exp_sound _ _ (gammaSeriesExp_sound lg a x hx0 hlg)

/-- `log Γ(7/2) = log (15√π/8) ∈ [1, 2]` -/
lemma log_Gamma_seven_halves_mem :
    Mem (Real.log (Real.Gamma ((((5 / 2 : ℚ)) : ℝ) + 1))) ⟨1, 2⟩ := by
  have hG : Real.Gamma ((((5 / 2 : ℚ)) : ℝ) + 1) = 15 / 8 * Real.sqrt Real.pi := by
    rw [show ((((5 / 2 : ℚ)) : ℝ)) = 1 / 2 + 1 + 1 by norm_num,
      Real.Gamma_add_one (by norm_num), Real.Gamma_add_one (by norm_num),
      Real.Gamma_add_one (by norm_num), Real.Gamma_one_half_eq]
    ring
  rw [hG]
  have hpi1 : (17 / 10 : ℝ) ≤ Real.sqrt Real.pi := by
    apply Real.le_sqrt_of_sq_le
    nlinarith [Real.pi_gt_three]
  have hpi2 : Real.sqrt Real.pi ≤ 2 := by
    rw [Real.sqrt_le_left (by norm_num)]; nlinarith [Real.pi_le_four]
  have he1 := Real.exp_one_lt_d9
  have he2 := Real.exp_one_gt_d9
  constructor
  · show (((1 : ℚ)) : ℝ) ≤ _
    push_cast
    rw [Real.le_log_iff_exp_le (by positivity)]
    linarith
  · show _ ≤ (((2 : ℚ)) : ℝ)
    push_cast
    rw [Real.log_le_iff_le_exp (by positivity), show (2 : ℝ) = 1 + 1 by norm_num, Real.exp_add]
    nlinarith

/-- non-vacuity: `a = 5/2`, `x = 3`, `lg = [1, 2] ∋ log Γ(7/2)`: the model returns an interval and
it contains `3^(5/2) e^(−3)/Γ(7/2) · S(5/2, 3)` -/
example : ∃ r, gammaRegIWith ⟨1, 2⟩ (5 / 2) 3 = some r ∧
    Mem ((((3 : ℚ)) : ℝ) ^ (((5 / 2 : ℚ)) : ℝ) * Real.exp (-(((3 : ℚ)) : ℝ)) /
        Real.Gamma ((((5 / 2 : ℚ)) : ℝ) + 1) *
      ∑' n : ℕ, (((3 : ℚ)) : ℝ) ^ n / ∏ j ∈ Finset.range n, ((((5 / 2 : ℚ)) : ℝ) + j + 1)) r := by
  have hs : (gammaSer (5 / 2) 3).isSome = true := by decide +kernel
  obtain ⟨ser, hser⟩ := Option.isSome_iff_exists.mp hs
  have h1 := (gammaSeries_sound ⟨1, 2⟩ (5 / 2) 3 (by norm_num) (by norm_num) (by norm_num)
    ser hser).1
  exact ⟨_, h1, gammaRegIWith_series_sound ⟨1, 2⟩ (5 / 2) 3 (by norm_num) (by norm_num)
    (by norm_num) log_Gamma_seven_halves_mem _ h1⟩

end MV.Special
