import Mathlib
import MV.Model.Special
import MV.Proofs.Interval
/-!
# C08 — far upper tail of the regularised incomplete gamma reference

`MV.Special.gammaRegIWith lg a x` takes, for `x > 2a + 100`, the branch

    P(a,x) ∈ [max 0 (1 − 2·exp(e).hi), 1],   e ∋ (a−1) log x − x − (log Γ(a+1) − log a).

This file proves the analytic fact behind it (`upperGamma_le`: `Γ(a,x) ≤ 2 x^(a−1) e^(−x)` for
`x ≥ 2a`), its regularised form (`upperGammaReg_le`, `upperGammaQ_nonneg`, `upperGammaQ_le_one`)
and the soundness of that branch of the executable definition (`gammaRegIWith_farTail_sound`).
-/
namespace MV.Special
open MeasureTheory Set MV MV.I

/-! ## the analytic bound -/

/-- the integrand of the (upper) incomplete gamma function -/
noncomputable def gammaIntegrand (a : ℝ) (t : ℝ) : ℝ := t ^ (a - 1) * Real.exp (-t)

/-- pointwise: for `t ≥ x ≥ 2a`, `t^(a-1) e^(-t/2) ≤ x^(a-1) e^(-x/2)`, in the log form -/
lemma log_form_le {a x t : ℝ} (hx : 0 < x) (hax : 2 * a ≤ x) (hxt : x ≤ t) :
    (a - 1) * Real.log t - t / 2 ≤ (a - 1) * Real.log x - x / 2 := by
  have ht : 0 < t := lt_of_lt_of_le hx hxt
  have hlog : Real.log x ≤ Real.log t := Real.log_le_log hx hxt
  rcases le_or_gt a 1 with h1 | h1
  · have : (a - 1) * (Real.log t - Real.log x) ≤ 0 :=
      mul_nonpos_of_nonpos_of_nonneg (by linarith) (by linarith)
    nlinarith
  · -- log t − log x = log (t/x) ≤ t/x − 1
    have h2 : Real.log t - Real.log x ≤ t / x - 1 := by
      rw [← Real.log_div ht.ne' hx.ne']
      exact Real.log_le_sub_one_of_pos (div_pos ht hx)
    have h3 : (a - 1) * (Real.log t - Real.log x) ≤ (a - 1) * (t / x - 1) :=
      mul_le_mul_of_nonneg_left h2 (by linarith)
    have h4 : (a - 1) * (t / x - 1) ≤ (t - x) / 2 := by
      have : t / x - 1 = (t - x) / x := by field_simp
      rw [this, ← mul_div_assoc, div_le_div_iff₀ hx (by norm_num)]
      nlinarith
    nlinarith

lemma gammaIntegrand_le {a x t : ℝ} (hx : 0 < x) (hax : 2 * a ≤ x) (hxt : x ≤ t) :
    gammaIntegrand a t ≤ x ^ (a - 1) * Real.exp (-x / 2) * Real.exp (-(1 / 2) * t) := by
  have ht : 0 < t := lt_of_lt_of_le hx hxt
  unfold gammaIntegrand
  rw [Real.rpow_def_of_pos ht, Real.rpow_def_of_pos hx, ← Real.exp_add, ← Real.exp_add,
    ← Real.exp_add]
  apply Real.exp_le_exp.mpr
  have := log_form_le (a := a) hx hax hxt
  linarith

lemma gammaIntegrand_nonneg {a t : ℝ} (ht : 0 ≤ t) : 0 ≤ gammaIntegrand a t :=
  mul_nonneg (Real.rpow_nonneg ht _) (Real.exp_pos _).le

lemma gammaIntegrand_integrableOn_zero {a : ℝ} (ha : 0 < a) :
    IntegrableOn (gammaIntegrand a) (Ioi 0) := by
  have := Real.GammaIntegral_convergent ha
  refine this.congr_fun (fun t _ => ?_) measurableSet_Ioi
  simp only [gammaIntegrand]; ring

lemma gammaIntegrand_integrableOn {a x : ℝ} (ha : 0 < a) (hx : 0 ≤ x) :
    IntegrableOn (gammaIntegrand a) (Ioi x) :=
  (gammaIntegrand_integrableOn_zero ha).mono_set (Ioi_subset_Ioi hx)

/-- **Upper incomplete gamma, far tail.**  For real `a > 0`, `x > 0` with `2a ≤ x`:
`Γ(a,x) = ∫_{t>x} t^(a−1) e^(−t) dt ≤ 2 x^(a−1) e^(−x)`. -/
theorem upperGamma_le {a x : ℝ} (ha : 0 < a) (hx : 0 < x) (hax : 2 * a ≤ x) :
    ∫ t in Ioi x, t ^ (a - 1) * Real.exp (-t) ≤ 2 * x ^ (a - 1) * Real.exp (-x) := by
  have hI : IntegrableOn (fun t : ℝ => Real.exp (-(1 / 2) * t)) (Ioi x) :=
    integrableOn_exp_mul_Ioi (by norm_num) x
  have h1 : ∫ t in Ioi x, gammaIntegrand a t ≤
      ∫ t in Ioi x, x ^ (a - 1) * Real.exp (-x / 2) * Real.exp (-(1 / 2) * t) :=
    setIntegral_mono_on (gammaIntegrand_integrableOn ha hx.le) (hI.const_mul _) measurableSet_Ioi
      (fun t ht => gammaIntegrand_le hx hax (le_of_lt ht))
  have h2 : ∫ t in Ioi x, x ^ (a - 1) * Real.exp (-x / 2) * Real.exp (-(1 / 2) * t)
      = 2 * x ^ (a - 1) * Real.exp (-x) := by
    rw [integral_const_mul, integral_exp_mul_Ioi (by norm_num) x]
    have : Real.exp (-x) = Real.exp (-x / 2) * Real.exp (-(1 / 2) * x) := by
      rw [← Real.exp_add]; congr 1; ring
    rw [this]; ring
  exact h1.trans_eq h2

example : ∫ t in Ioi (200 : ℝ), t ^ ((1 / 2 : ℝ) - 1) * Real.exp (-t)
    ≤ 2 * (200 : ℝ) ^ ((1 / 2 : ℝ) - 1) * Real.exp (-200) :=
  upperGamma_le (by norm_num) (by norm_num) (by norm_num)

example : ∫ t in Ioi (7 : ℝ), t ^ ((7 / 2 : ℝ) - 1) * Real.exp (-t)
    ≤ 2 * (7 : ℝ) ^ ((7 / 2 : ℝ) - 1) * Real.exp (-7) :=
  upperGamma_le (by norm_num) (by norm_num) (by norm_num)

/-! ## the regularised form -/

/-- regularised upper incomplete gamma function `Q(a,x) = Γ(a,x)/Γ(a)` -/
noncomputable def upperGammaQ (a x : ℝ) : ℝ :=
  (∫ t in Ioi x, t ^ (a - 1) * Real.exp (-t)) / Real.Gamma a

lemma upperGamma_nonneg (a : ℝ) {x : ℝ} (hx : 0 ≤ x) :
    0 ≤ ∫ t in Ioi x, t ^ (a - 1) * Real.exp (-t) :=
  setIntegral_nonneg measurableSet_Ioi
    (fun _ ht => gammaIntegrand_nonneg (a := a) (hx.trans (le_of_lt ht)))

lemma upperGamma_le_Gamma {a x : ℝ} (ha : 0 < a) (hx : 0 ≤ x) :
    ∫ t in Ioi x, t ^ (a - 1) * Real.exp (-t) ≤ Real.Gamma a := by
  have h0 : Real.Gamma a = ∫ t in Ioi (0 : ℝ), gammaIntegrand a t := by
    rw [Real.Gamma_eq_integral ha]
    refine setIntegral_congr_fun measurableSet_Ioi (fun t _ => ?_)
    simp only [gammaIntegrand]; ring
  rw [h0]
  refine setIntegral_mono_set (gammaIntegrand_integrableOn_zero ha) ?_
    (Filter.Eventually.of_forall (Ioi_subset_Ioi hx))
  exact (ae_restrict_iff' measurableSet_Ioi).mpr
    (Filter.Eventually.of_forall fun t ht => gammaIntegrand_nonneg (le_of_lt ht))

/-- `0 ≤ Q(a,x)` for `a > 0`, `x ≥ 0`. -/
theorem upperGammaQ_nonneg {a x : ℝ} (ha : 0 < a) (hx : 0 ≤ x) : 0 ≤ upperGammaQ a x :=
  div_nonneg (upperGamma_nonneg a hx) (Real.Gamma_pos_of_pos ha).le

/-- `Q(a,x) ≤ 1` for `a > 0`, `x ≥ 0`: the integral over `(x,∞)` is at most the one over
`(0,∞)`, which is `Γ(a)`. -/
theorem upperGammaQ_le_one {a x : ℝ} (ha : 0 < a) (hx : 0 ≤ x) : upperGammaQ a x ≤ 1 :=
  (div_le_one (Real.Gamma_pos_of_pos ha)).mpr (upperGamma_le_Gamma ha hx)

example : 0 ≤ upperGammaQ (7 / 2) 3 ∧ upperGammaQ (7 / 2) 3 ≤ 1 :=
  ⟨upperGammaQ_nonneg (by norm_num) (by norm_num), upperGammaQ_le_one (by norm_num) (by norm_num)⟩

/-- `log Γ(a) = log Γ(a+1) − log a` for `a > 0`. -/
lemma log_Gamma_eq {a : ℝ} (ha : 0 < a) :
    Real.log (Real.Gamma a) = Real.log (Real.Gamma (a + 1)) - Real.log a := by
  rw [Real.Gamma_add_one ha.ne', Real.log_mul ha.ne' (Real.Gamma_pos_of_pos ha).ne']
  ring

/-- **Regularised far tail.**  For real `a > 0`, `x > 0` with `2a ≤ x`:
`Q(a,x) = Γ(a,x)/Γ(a) ≤ 2 exp((a−1) log x − x − (log Γ(a+1) − log a))`, and `0 ≤ Q(a,x) ≤ 1`. -/
theorem upperGammaReg_le {a x : ℝ} (ha : 0 < a) (hx : 0 < x) (hax : 2 * a ≤ x) :
    upperGammaQ a x ≤
        2 * Real.exp ((a - 1) * Real.log x - x - (Real.log (Real.Gamma (a + 1)) - Real.log a))
      ∧ 0 ≤ upperGammaQ a x ∧ upperGammaQ a x ≤ 1 := by
  refine ⟨?_, upperGammaQ_nonneg ha hx.le, upperGammaQ_le_one ha hx.le⟩
  have hG := Real.Gamma_pos_of_pos ha
  unfold upperGammaQ
  rw [div_le_iff₀ hG]
  refine (upperGamma_le ha hx hax).trans_eq ?_
  rw [← log_Gamma_eq ha, sub_sub, Real.exp_sub, Real.exp_add, Real.exp_log hG,
    Real.rpow_def_of_pos hx, mul_comm (Real.log x)]
  field_simp
  rw [← Real.exp_add]; simp

example : upperGammaQ (1 / 2) 200 ≤
    2 * Real.exp (((1 / 2 : ℝ) - 1) * Real.log 200 - 200
      - (Real.log (Real.Gamma ((1 / 2 : ℝ) + 1)) - Real.log (1 / 2)))
    ∧ 0 ≤ upperGammaQ (1 / 2) 200 ∧ upperGammaQ (1 / 2) 200 ≤ 1 :=
  upperGammaReg_le (by norm_num) (by norm_num) (by norm_num)

/-! ## soundness of the far-tail branch of `gammaRegIWith` -/

/-- the enclosure of the exponent used by the far-tail branch -/
def farTailExp (lg : I) (a x : ℚ) : I :=
  I.sub (I.sub (I.scale (a - 1) (I.logQ x)) (I.ofRat x)) (I.sub lg (I.logQ a))

/-- the far-tail branch, spelled out -/
lemma gammaRegIWith_farTail_eq (lg : I) (a x : ℚ) (hx0 : 0 < x) (hx : 2 * a + 100 < x) :
    gammaRegIWith lg a x =
      some ⟨ratMax 0 (1 - 2 * (I.exp ⟨(farTailExp lg a x).hi, (farTailExp lg a x).hi⟩).hi), 1⟩ := by
  unfold gammaRegIWith
  rw [if_neg (not_le.mpr hx0), if_pos hx]
  rfl

lemma farTailExp_sound (lg : I) (a x : ℚ) (ha : 0 < a) (hx0 : 0 < x)
    (hlg : Mem (Real.log (Real.Gamma ((a : ℝ) + 1))) lg) :
    Mem (((a : ℝ) - 1) * Real.log x - x - (Real.log (Real.Gamma ((a : ℝ) + 1)) - Real.log a))
      (farTailExp lg a x) := by
  unfold farTailExp
  have h1 := scale_sound (a - 1) (logQ_sound x hx0)
  rw [show (((a - 1 : ℚ)) : ℝ) = (a : ℝ) - 1 by push_cast; ring] at h1
  exact sub_sound (sub_sound h1 (ofRat_sound x)) (sub_sound hlg (logQ_sound a ha))

/-- **Soundness of the far-tail branch.**  For rational `a > 0`, rational `x > 2a + 100` and any
interval `lg` that contains `log Γ(a+1)`, `gammaRegIWith lg a x` returns an interval `r` that
contains the regularised lower incomplete gamma value `P(a,x) = 1 − Q(a,x)`. -/
theorem gammaRegIWith_farTail_sound (lg : I) (a x : ℚ) (ha : 0 < a) (hx : 2 * a + 100 < x)
    (hlg : Mem (Real.log (Real.Gamma ((a : ℝ) + 1))) lg) :
    ∃ r, gammaRegIWith lg a x = some r ∧ Mem (1 - upperGammaQ (a : ℝ) (x : ℝ)) r := by
  have hx0 : 0 < x := by linarith
  refine ⟨_, gammaRegIWith_farTail_eq lg a x hx0 hx, ?_⟩
  have haR : (0 : ℝ) < (a : ℝ) := by exact_mod_cast ha
  have hxR : (0 : ℝ) < (x : ℝ) := by exact_mod_cast hx0
  have haxR : 2 * (a : ℝ) ≤ (x : ℝ) := by
    have : ((2 * a + 100 : ℚ) : ℝ) < (x : ℝ) := by exact_mod_cast hx
    push_cast at this; linarith
  obtain ⟨hQ, hQ0, hQ1⟩ := upperGammaReg_le haR hxR haxR
  have hE := farTailExp_sound lg a x ha hx0 hlg
  set e := farTailExp lg a x with he
  set E : ℝ := ((a : ℝ) - 1) * Real.log x - x - (Real.log (Real.Gamma ((a : ℝ) + 1)) - Real.log a)
    with hEdef
  have hexp : Real.exp E ≤ (((I.exp ⟨e.hi, e.hi⟩).hi : ℚ) : ℝ) :=
    (Real.exp_le_exp.mpr hE.2).trans
      (exp_sound ⟨e.hi, e.hi⟩ ((e.hi : ℚ) : ℝ) ⟨le_refl _, le_refl _⟩).2
  constructor
  · show ((ratMax 0 (1 - 2 * (I.exp ⟨e.hi, e.hi⟩).hi) : ℚ) : ℝ) ≤ _
    rw [ratMax_eq]
    push_cast
    apply max_le
    · linarith
    · linarith
  · show _ ≤ (((1 : ℚ)) : ℝ)
    push_cast
    linarith

/-- non-vacuity: `a = 1`, `x = 200`, `log Γ(2) = 0 ∈ [0,0]` -/
example : ∃ r, gammaRegIWith (I.ofRat 0) 1 200 = some r ∧
    Mem (1 - upperGammaQ ((1 : ℚ) : ℝ) ((200 : ℚ) : ℝ)) r := by
  refine gammaRegIWith_farTail_sound (I.ofRat 0) 1 200 (by norm_num) (by norm_num) ?_
  have : Real.log (Real.Gamma (((1 : ℚ) : ℝ) + 1)) = ((0 : ℚ) : ℝ) := by
    norm_num [Real.Gamma_two]
  rw [this]; exact ofRat_sound 0

/-- `log Γ(3/2) = log (√π / 2) ∈ [-1, 0]` -/
lemma log_Gamma_three_halves_mem :
    Mem (Real.log (Real.Gamma (((1 / 2 : ℚ) : ℝ) + 1))) ⟨-1, 0⟩ := by
  have h12 : (((1 / 2 : ℚ) : ℝ)) = 1 / 2 := by norm_num
  rw [h12, Real.Gamma_add_one (by norm_num), Real.Gamma_one_half_eq]
  have hpi1 : (1 : ℝ) ≤ Real.sqrt Real.pi := by
    rw [Real.one_le_sqrt]; linarith [Real.pi_gt_three]
  have hpi2 : Real.sqrt Real.pi ≤ 2 := by
    rw [Real.sqrt_le_left (by norm_num)]; nlinarith [Real.pi_le_four]
  constructor
  · show (((-1 : ℚ)) : ℝ) ≤ _
    push_cast
    rw [Real.le_log_iff_exp_le (by positivity), Real.exp_neg]
    have : (2 : ℝ) ≤ Real.exp 1 := by linarith [Real.add_one_le_exp (1 : ℝ)]
    have h3 : (Real.exp 1)⁻¹ ≤ 2⁻¹ := inv_anti₀ (by norm_num) this
    linarith
  · show _ ≤ (((0 : ℚ)) : ℝ)
    push_cast
    apply Real.log_nonpos (by positivity)
    linarith

/-- non-vacuity: `a = 1/2`, `x = 200`, with `lg = [-1, 0] ∋ log Γ(3/2)` -/
example : ∃ r, gammaRegIWith ⟨-1, 0⟩ (1 / 2) 200 = some r ∧
    Mem (1 - upperGammaQ ((1 / 2 : ℚ) : ℝ) ((200 : ℚ) : ℝ)) r :=
  gammaRegIWith_farTail_sound ⟨-1, 0⟩ (1 / 2) 200 (by norm_num) (by norm_num)
    log_Gamma_three_halves_mem

/-- direct form: the result of the far-tail branch brackets `1 − Q(a,x)`. -/
theorem gammaRegIWith_farTail_bounds (lg : I) (a x : ℚ) (ha : 0 < a) (hx : 2 * a + 100 < x)
    (hlg : Mem (Real.log (Real.Gamma ((a : ℝ) + 1))) lg) :
    ∃ r, gammaRegIWith lg a x = some r ∧
      ((r.lo : ℚ) : ℝ) ≤ 1 - upperGammaQ (a : ℝ) (x : ℝ) ∧
      1 - upperGammaQ (a : ℝ) (x : ℝ) ≤ ((r.hi : ℚ) : ℝ) :=
  gammaRegIWith_farTail_sound lg a x ha hx hlg

example : ∃ r, gammaRegIWith ⟨-1, 0⟩ (1 / 2) 200 = some r ∧
    ((r.lo : ℚ) : ℝ) ≤ 1 - upperGammaQ ((1 / 2 : ℚ) : ℝ) ((200 : ℚ) : ℝ) ∧
    1 - upperGammaQ ((1 / 2 : ℚ) : ℝ) ((200 : ℚ) : ℝ) ≤ ((r.hi : ℚ) : ℝ) :=
  gammaRegIWith_farTail_bounds ⟨-1, 0⟩ (1 / 2) 200 (by norm_num) (by norm_num)
    log_Gamma_three_halves_mem

end MV.Special

