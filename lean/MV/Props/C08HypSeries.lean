import Mathlib
import MV.Model.Special
import MV.Proofs.Interval
/-!
# C08 — soundness of the hypergeometric-type power series `MV.Special.hypSeries`

`hypSeries c d x` evaluates `S(c,d,x) = Σ_{n≥0} ∏_{j<n} (c+j)·x/(d+j)` on the integer grid
`2^-128`, rounding every term up, and returns the interval

    [ max 1 ((s − 200000/(1−r))/2^128),  (s + t·r/(1−r) + 1)/2^128 ],   r = max x (c·x/d),

where `s` is the sum of the computed terms and `t` the last computed term.  This file proves that
for positive rational `c d x` the real value of the series lies in the returned interval
(`hypSeries_sound`) and that the series is summable whenever `r < 1` (`hypSeries_summable`).
-/
namespace MV.Special
open MV MV.I Finset

section HypSeries

/-! ## real analysis: products of ratios bounded by `r < 1` -/

/-- the `n`-th term `∏_{j<n} q j` -/
noncomputable def hT (q : ℕ → ℝ) (n : ℕ) : ℝ := ∏ j ∈ range n, q j

lemma hT_zero (q : ℕ → ℝ) : hT q 0 = 1 := by simp [hT]

lemma hT_succ (q : ℕ → ℝ) (n : ℕ) : hT q (n + 1) = hT q n * q n := prod_range_succ _ _

lemma hT_nonneg {q : ℕ → ℝ} (h0 : ∀ n, 0 ≤ q n) (n : ℕ) : 0 ≤ hT q n :=
  prod_nonneg (fun j _ => h0 j)

lemma hT_add_le {q : ℕ → ℝ} {r : ℝ} (h0 : ∀ n, 0 ≤ q n) (hr : ∀ n, q n ≤ r) (K m : ℕ) :
    hT q (K + m) ≤ hT q K * r ^ m := by
  have hr0 : 0 ≤ r := (h0 0).trans (hr 0)
  induction m with
  | zero => simp
  | succ m ih =>
    rw [← add_assoc, hT_succ, pow_succ, ← mul_assoc]
    exact mul_le_mul ih (hr _) (h0 _) (mul_nonneg (hT_nonneg h0 K) (pow_nonneg hr0 m))

lemma hT_le_pow {q : ℕ → ℝ} {r : ℝ} (h0 : ∀ n, 0 ≤ q n) (hr : ∀ n, q n ≤ r) (n : ℕ) :
    hT q n ≤ r ^ n := by
  simpa [hT_zero] using hT_add_le h0 hr 0 n

lemma hT_summable {q : ℕ → ℝ} {r : ℝ} (h0 : ∀ n, 0 ≤ q n) (hr : ∀ n, q n ≤ r) (hr1 : r < 1) :
    Summable (hT q) :=
  Summable.of_nonneg_of_le (hT_nonneg h0) (hT_le_pow h0 hr)
    (summable_geometric_of_lt_one ((h0 0).trans (hr 0)) hr1)

/-- geometric bound of the tail after index `K` -/
lemma hT_tail_le {q : ℕ → ℝ} {r : ℝ} (h0 : ∀ n, 0 ≤ q n) (hr : ∀ n, q n ≤ r) (hr1 : r < 1)
    (K : ℕ) : ∑' k, hT q (k + (K + 1)) ≤ hT q K * (r / (1 - r)) := by
  have hr0 : 0 ≤ r := (h0 0).trans (hr 0)
  have hs : Summable (fun k => hT q (k + (K + 1))) :=
    (summable_nat_add_iff (K + 1)).mpr (hT_summable h0 hr hr1)
  have hg : HasSum (fun k : ℕ => hT q K * (r * r ^ k)) (hT q K * (r * (1 - r)⁻¹)) :=
    ((hasSum_geometric_of_lt_one hr0 hr1).mul_left r).mul_left (hT q K)
  have := hasSum_le (fun k => ?_) hs.hasSum hg
  · rwa [div_eq_mul_inv]
  · have := hT_add_le h0 hr K (k + 1)
    rw [pow_succ'] at this
    rwa [show k + (K + 1) = K + (k + 1) by ring]

lemma hT_tail_nonneg {q : ℕ → ℝ} (h0 : ∀ n, 0 ≤ q n) (K : ℕ) :
    0 ≤ ∑' k, hT q (k + K) :=
  tsum_nonneg (fun _ => hT_nonneg h0 _)

/-- the value of the series lies between the partial sum up to `K` and that partial sum plus
the geometric tail bound -/
lemma hT_tsum_bounds {q : ℕ → ℝ} {r : ℝ} (h0 : ∀ n, 0 ≤ q n) (hr : ∀ n, q n ≤ r) (hr1 : r < 1)
    (K : ℕ) :
    ∑ k ∈ range (K + 1), hT q k ≤ ∑' n, hT q n ∧
      ∑' n, hT q n ≤ ∑ k ∈ range (K + 1), hT q k + hT q K * (r / (1 - r)) := by
  have hsplit := (hT_summable h0 hr hr1).sum_add_tsum_nat_add (K + 1)
  have h1 := hT_tail_le h0 hr hr1 K
  have h2 := hT_tail_nonneg h0 (K + 1)
  constructor <;> linarith

/-! ## the ratios of `hypSeries` -/

/-- `(c+n)/(d+n)·x ≤ max x (c·x/d)` for positive `c d x` -/
lemma hyp_ratio_le {c d x : ℝ} (_hc : 0 < c) (hd : 0 < d) (hx : 0 < x) (n : ℕ) :
    (c + n) * x / (d + n) ≤ max x (c * x / d) := by
  have hn : (0 : ℝ) ≤ n := Nat.cast_nonneg n
  have hdn : 0 < d + n := by linarith
  rcases le_total c d with h | h
  · refine le_max_of_le_left ?_
    rw [div_le_iff₀ hdn]
    nlinarith
  · refine le_max_of_le_right ?_
    rw [div_le_div_iff₀ hdn hd]
    nlinarith [mul_le_mul_of_nonneg_left h (mul_nonneg hn hx.le)]

lemma hyp_ratio_pos {c d x : ℝ} (hc : 0 < c) (hd : 0 < d) (hx : 0 < x) (n : ℕ) :
    0 < (c + n) * x / (d + n) := by
  have hn : (0 : ℝ) ≤ n := Nat.cast_nonneg n
  exact div_pos (mul_pos (by linarith) hx) (by linarith)

/-- The series `Σ_n ∏_{j<n} (c+j)·x/(d+j)` is summable when `max x (c·x/d) < 1`
(positive rational `c d x`). -/
theorem hypSeries_summable (c d x : ℚ) (hc : 0 < c) (hd : 0 < d) (hx : 0 < x)
    (hr : max x (c * x / d) < 1) :
    Summable (fun n : ℕ => ∏ j ∈ Finset.range n, (((c : ℝ) + j) * x / ((d : ℝ) + j))) := by
  have hcR : (0 : ℝ) < c := by exact_mod_cast hc
  have hdR : (0 : ℝ) < d := by exact_mod_cast hd
  have hxR : (0 : ℝ) < x := by exact_mod_cast hx
  have hrR : max (x : ℝ) ((c : ℝ) * x / d) < 1 := by exact_mod_cast hr
  exact hT_summable (q := fun j : ℕ => ((c : ℝ) + j) * x / ((d : ℝ) + j))
    (fun n => (hyp_ratio_pos hcR hdR hxR n).le) (fun n => hyp_ratio_le hcR hdR hxR n) hrR

example : Summable (fun n : ℕ => ∏ j ∈ Finset.range n,
    ((((5 / 2 : ℚ) : ℝ) + j) * ((1 / 4 : ℚ) : ℝ) / (((3 / 2 : ℚ) : ℝ) + j))) :=
  hypSeries_summable (5 / 2) (3 / 2) (1 / 4) (by norm_num) (by norm_num) (by norm_num)
    (by norm_num)

/-! ## the integer loop -/

lemma hyp_go_zero (cN cD dN dD xN xD n s t : ℕ) :
    hypSeries.go cN cD dN dD xN xD 0 n s t = (s, t) := rfl

lemma hyp_go_succ (cN cD dN dD xN xD f n s t : ℕ) :
    hypSeries.go cN cD dN dD xN xD (f + 1) n s t =
      if t ≤ 1 then (s, t) else
      if (t * ((cN + n * cD) * xN * dD) + (dN + n * dD) * xD * cD - 1) / ((dN + n * dD) * xD * cD) ≥ t
      then (s, t)
      else hypSeries.go cN cD dN dD xN xD f (n + 1)
        (s + (t * ((cN + n * cD) * xN * dD) + (dN + n * dD) * xD * cD - 1) / ((dN + n * dD) * xD * cD))
        ((t * ((cN + n * cD) * xN * dD) + (dN + n * dD) * xD * cD - 1) / ((dN + n * dD) * xD * cD)) :=
  rfl

/-- `(a + d − 1)/d` is the ceiling of `a/d` -/
lemma nat_ceil_div_spec (a d : ℕ) (hd : 0 < d) :
    a ≤ (a + d - 1) / d * d ∧ (a + d - 1) / d * d < a + d := by
  have h1 := Nat.div_mul_le_self (a + d - 1) d
  have h2 := Nat.lt_div_mul_add (a := a + d - 1) hd
  generalize (a + d - 1) / d * d = k at *
  omega

/-- loop invariant: `t` is the `n`-th term rounded up with error `< 1/(1−r)` grid units, `s` is the
`n`-th partial sum (terms `0..n`) with accumulated excess at most `n/(1−r)` grid units -/
def HInv (q : ℕ → ℝ) (r one : ℝ) (n s t : ℕ) : Prop :=
  one * hT q n ≤ t ∧ ((t : ℝ) - one * hT q n) * (1 - r) ≤ 1 ∧
    one * (∑ k ∈ range (n + 1), hT q k) ≤ s ∧
    ((s : ℝ) - one * ∑ k ∈ range (n + 1), hT q k) * (1 - r) ≤ n

lemma HInv_step {q : ℕ → ℝ} {r one : ℝ} (h0 : ∀ n, 0 ≤ q n) (hr : ∀ n, q n ≤ r) (hr1 : r < 1)
    {n s t t' : ℕ} (h : HInv q r one n s t) (h1 : (t : ℝ) * q n ≤ t') (h2 : (t' : ℝ) < t * q n + 1) :
    HInv q r one (n + 1) (s + t') t' := by
  obtain ⟨a1, a2, a3, a4⟩ := h
  have hr0 : 0 ≤ r := (h0 0).trans (hr 0)
  have hE0 : 0 ≤ (t : ℝ) - one * hT q n := by linarith
  have g1 : one * hT q (n + 1) ≤ t' := by
    rw [hT_succ]
    nlinarith [mul_le_mul_of_nonneg_right a1 (h0 n)]
  have g2 : ((t' : ℝ) - one * hT q (n + 1)) * (1 - r) ≤ 1 := by
    have b1 : (t' : ℝ) - one * hT q (n + 1) ≤ ((t : ℝ) - one * hT q n) * r + 1 := by
      rw [hT_succ]
      nlinarith [mul_le_mul_of_nonneg_left (hr n) hE0]
    have b2 := mul_le_mul_of_nonneg_right b1 (by linarith : (0 : ℝ) ≤ 1 - r)
    have b3 := mul_le_mul_of_nonneg_right a2 hr0
    nlinarith
  refine ⟨g1, g2, ?_, ?_⟩
  · rw [sum_range_succ]; push_cast; linarith
  · rw [sum_range_succ]; push_cast; linarith

lemma hyp_go_inv (cN cD dN dD xN xD : ℕ) {q : ℕ → ℝ} {r one : ℝ}
    (hden : ∀ n, 0 < (dN + n * dD) * xD * cD)
    (hq : ∀ n, q n = (((cN + n * cD) * xN * dD : ℕ) : ℝ) / (((dN + n * dD) * xD * cD : ℕ) : ℝ))
    (h0 : ∀ n, 0 ≤ q n) (hr : ∀ n, q n ≤ r) (hr1 : r < 1) :
    ∀ fuel n s t, HInv q r one n s t →
      ∃ n', n' ≤ n + fuel ∧ HInv q r one n' (hypSeries.go cN cD dN dD xN xD fuel n s t).1
        (hypSeries.go cN cD dN dD xN xD fuel n s t).2 := by
  intro fuel
  induction fuel with
  | zero => intro n s t h; exact ⟨n, le_rfl, h⟩
  | succ f ih =>
    intro n s t h
    rw [hyp_go_succ]
    split_ifs with c1 c2
    · exact ⟨n, by omega, h⟩
    · exact ⟨n, by omega, h⟩
    · obtain ⟨k1, k2⟩ := nat_ceil_div_spec (t * ((cN + n * cD) * xN * dD)) _ (hden n)
      have hD : (0 : ℝ) < (((dN + n * dD) * xD * cD : ℕ) : ℝ) := by exact_mod_cast hden n
      have k1R : (t : ℝ) * (((cN + n * cD) * xN * dD : ℕ) : ℝ) ≤
          (((t * ((cN + n * cD) * xN * dD) + (dN + n * dD) * xD * cD - 1) / ((dN + n * dD) * xD * cD) : ℕ) : ℝ)
            * (((dN + n * dD) * xD * cD : ℕ) : ℝ) := by exact_mod_cast k1
      have k2R : (((t * ((cN + n * cD) * xN * dD) + (dN + n * dD) * xD * cD - 1) / ((dN + n * dD) * xD * cD) : ℕ) : ℝ)
            * (((dN + n * dD) * xD * cD : ℕ) : ℝ) <
          (t : ℝ) * (((cN + n * cD) * xN * dD : ℕ) : ℝ) + (((dN + n * dD) * xD * cD : ℕ) : ℝ) := by
        exact_mod_cast k2
      have step := HInv_step (one := one) h0 hr hr1 h
        (t' := (t * ((cN + n * cD) * xN * dD) + (dN + n * dD) * xD * cD - 1) / ((dN + n * dD) * xD * cD))
        (by rw [hq, ← mul_div_assoc, div_le_iff₀ hD]; exact k1R)
        (by rw [hq, ← mul_div_assoc, ← sub_lt_iff_lt_add, lt_div_iff₀ hD, sub_mul, one_mul,
              sub_lt_iff_lt_add]; exact k2R)
      obtain ⟨n', hn', hI⟩ := ih (n + 1) _ _ step
      exact ⟨n', by omega, hI⟩

/-! ## assembling -/

lemma rat_cast_toNat_div (c : ℚ) (hc : 0 < c) :
    (c : ℝ) = ((c.num.toNat : ℕ) : ℝ) / ((c.den : ℕ) : ℝ) := by
  have h : ((c.num.toNat : ℕ) : ℤ) = c.num := Int.toNat_of_nonneg (Rat.num_pos.mpr hc).le
  have h2 : ((c.num.toNat : ℕ) : ℝ) = ((c.num : ℤ) : ℝ) := by rw [← Int.cast_natCast, h]
  rw [h2]
  exact Rat.cast_def c

lemma rat_toNat_pos (c : ℚ) (hc : 0 < c) : 0 < c.num.toNat := by
  have := Rat.num_pos.mpr hc
  omega

lemma hyp_ratio_eq (c d x : ℚ) (hc : 0 < c) (hd : 0 < d) (hx : 0 < x) (n : ℕ) :
    ((c : ℝ) + n) * x / ((d : ℝ) + n) =
      (((c.num.toNat + n * c.den) * x.num.toNat * d.den : ℕ) : ℝ) /
        (((d.num.toNat + n * d.den) * x.den * c.den : ℕ) : ℝ) := by
  rw [rat_cast_toNat_div c hc, rat_cast_toNat_div d hd, rat_cast_toNat_div x hx]
  have h1 : (0 : ℝ) < ((c.den : ℕ) : ℝ) := by exact_mod_cast c.den_pos
  have h2 : (0 : ℝ) < ((d.den : ℕ) : ℝ) := by exact_mod_cast d.den_pos
  have h3 : (0 : ℝ) < ((x.den : ℕ) : ℝ) := by exact_mod_cast x.den_pos
  have h4 : (0 : ℝ) < ((d.num.toNat : ℕ) : ℝ) := by exact_mod_cast rat_toNat_pos d hd
  have h5 : (0 : ℝ) ≤ (n : ℝ) := Nat.cast_nonneg n
  have h6 : (0 : ℝ) < (d.num.toNat : ℝ) + n * d.den := by positivity
  have h7 : (0 : ℝ) < (d.num.toNat : ℝ) / d.den + n := by positivity
  push_cast
  field_simp

/-- Soundness of `hypSeries`: for positive rationals `c d x`, whenever `hypSeries c d x` returns an
interval `e`, the real value of the series `Σ_{n≥0} ∏_{j<n} (c+j)·x/(d+j)` lies in `e`
(`e.lo ≤ value ≤ e.hi` over `ℝ`). -/
theorem hypSeries_sound (c d x : ℚ) (hc : 0 < c) (hd : 0 < d) (hx : 0 < x) (e : I)
    (h : hypSeries c d x = some e) :
    Mem (∑' n : ℕ, ∏ j ∈ Finset.range n, (((c : ℝ) + j) * x / ((d : ℝ) + j))) e := by
  unfold hypSeries at h
  simp only at h
  split_ifs at h with hcond
  push_neg at hcond
  obtain ⟨hr1, -⟩ := hcond
  obtain rfl := Option.some.inj h
  clear h
  simp only [ratMax_eq] at hr1 ⊢
  have hcR : (0 : ℝ) < c := by exact_mod_cast hc
  have hdR : (0 : ℝ) < d := by exact_mod_cast hd
  have hxR : (0 : ℝ) < x := by exact_mod_cast hx
  set q : ℕ → ℝ := fun j => ((c : ℝ) + j) * x / ((d : ℝ) + j) with hqdef
  have hrcast : ((max x (c * x / d) : ℚ) : ℝ) = max (x : ℝ) ((c : ℝ) * x / d) := by push_cast; rfl
  set r : ℝ := max (x : ℝ) ((c : ℝ) * x / d) with hrdef
  have hr1R : r < 1 := by rw [← hrcast]; exact_mod_cast hr1
  have h0 : ∀ n, 0 ≤ q n := fun n => (hyp_ratio_pos hcR hdR hxR n).le
  have hr : ∀ n, q n ≤ r := fun n => hyp_ratio_le hcR hdR hxR n
  have hr0 : 0 ≤ r := (h0 0).trans (hr 0)
  have h1r : 0 < 1 - r := by linarith
  have hS : (0 : ℝ) < ((scaleN : ℕ) : ℝ) := by exact_mod_cast scaleN_posR
  have init : HInv q r ((scaleN : ℕ) : ℝ) 0 scaleN scaleN := by
    simp [HInv, hT_zero]
  have hden : ∀ n, 0 < (d.num.toNat + n * d.den) * x.den * c.den := fun n =>
    Nat.mul_pos (Nat.mul_pos (by have := rat_toNat_pos d hd; omega) x.den_pos) c.den_pos
  obtain ⟨K, hK, hI⟩ : ∃ n', n' ≤ 0 + 200000 ∧ HInv q r ((scaleN : ℕ) : ℝ) n'
      (hypSeries.go c.num.toNat c.den d.num.toNat d.den x.num.toNat x.den 200000 0 scaleN scaleN).1
      (hypSeries.go c.num.toNat c.den d.num.toNat d.den x.num.toNat x.den 200000 0 scaleN scaleN).2 :=
    hyp_go_inv c.num.toNat c.den d.num.toNat d.den x.num.toNat x.den
      hden (fun n => hyp_ratio_eq c d x hc hd hx n) h0 hr hr1R 200000 0 scaleN scaleN init
  obtain ⟨a1, a2, a3, a4⟩ := hI
  obtain ⟨b1, b2⟩ := hT_tsum_bounds h0 hr hr1R K
  obtain ⟨b0, -⟩ := hT_tsum_bounds h0 hr hr1R 0
  generalize hypSeries.go c.num.toNat c.den d.num.toNat d.den x.num.toNat x.den 200000 0 scaleN scaleN
    = p at *
  have hsum : (∑' n : ℕ, ∏ j ∈ Finset.range n, (((c : ℝ) + j) * x / ((d : ℝ) + j))) = ∑' n, hT q n := rfl
  rw [hsum]
  set S : ℝ := ∑' n, hT q n with hSdef
  have hKR : (K : ℝ) ≤ 200000 := by
    have : K ≤ 200000 := by omega
    exact_mod_cast this
  constructor
  · show ((max 1 _ : ℚ) : ℝ) ≤ S
    rw [Rat.cast_max]
    apply max_le
    · simpa [hT_zero] using b0
    · push_cast
      rw [← hrdef, div_le_iff₀ hS]
      have e1 : (p.1 : ℝ) - ((scaleN : ℕ) : ℝ) * ∑ k ∈ range (K + 1), hT q k ≤ 200000 / (1 - r) := by
        rw [le_div_iff₀ h1r]; linarith
      have e2 := mul_le_mul_of_nonneg_left b1 hS.le
      linarith
  · show S ≤ ((_ : ℚ) : ℝ)
    push_cast
    rw [← hrdef, le_div_iff₀ hS, mul_div_assoc]
    have hrr : 0 ≤ r / (1 - r) := div_nonneg hr0 h1r.le
    have e1 := mul_le_mul_of_nonneg_left b2 hS.le
    have e2 := mul_le_mul_of_nonneg_right a1 hrr
    nlinarith

/-- non-vacuity: on `c = 5/2, d = 3/2, x = 1/4` the function returns an interval
(`#eval` gives `[1.6296327…, 1.6296327…]`, width about `2.4·10⁶/2^128`) -/
example : (hypSeries (5 / 2) (3 / 2) (1 / 4)).isSome = true := by decide +kernel

/-- non-vacuity of `hypSeries_sound`: the hypotheses are satisfiable and the conclusion is about an
actual returned interval -/
example : ∃ e, hypSeries (5 / 2) (3 / 2) (1 / 4) = some e ∧
    Mem (∑' n : ℕ, ∏ j ∈ Finset.range n,
      ((((5 / 2 : ℚ) : ℝ) + j) * ((1 / 4 : ℚ) : ℝ) / (((3 / 2 : ℚ) : ℝ) + j))) e := by
  have h : (hypSeries (5 / 2) (3 / 2) (1 / 4)).isSome = true := by decide +kernel
  obtain ⟨e, he⟩ := Option.isSome_iff_exists.mp h
  exact ⟨e, he, hypSeries_sound _ _ _ (by norm_num) (by norm_num) (by norm_num) e he⟩

/-- a concrete numerical consequence: `1.6296 ≤ Σ_n ∏_{j<n} (5/2+j)/(3/2+j)·(1/4) ≤ 1.6297` -/
example :
    (16296 / 10000 : ℝ) ≤ ∑' n : ℕ, ∏ j ∈ Finset.range n,
        ((((5 / 2 : ℚ) : ℝ) + j) * ((1 / 4 : ℚ) : ℝ) / (((3 / 2 : ℚ) : ℝ) + j)) ∧
      ∑' n : ℕ, ∏ j ∈ Finset.range n,
        ((((5 / 2 : ℚ) : ℝ) + j) * ((1 / 4 : ℚ) : ℝ) / (((3 / 2 : ℚ) : ℝ) + j)) ≤ 16297 / 10000 := by
  have h : ((hypSeries (5 / 2) (3 / 2) (1 / 4)).any
      (fun e => decide ((16296 / 10000 : ℚ) ≤ e.lo) && decide (e.hi ≤ (16297 / 10000 : ℚ)))) = true := by
    decide +kernel
  rw [Option.any_eq_true] at h
  obtain ⟨e, he, hb⟩ := h
  rw [Bool.and_eq_true, decide_eq_true_eq, decide_eq_true_eq] at hb
  obtain ⟨m1, m2⟩ := hypSeries_sound _ _ _ (by norm_num) (by norm_num) (by norm_num) e he
  have l1 : ((16296 / 10000 : ℚ) : ℝ) ≤ (e.lo : ℝ) := by exact_mod_cast hb.1
  have l2 : (e.hi : ℝ) ≤ ((16297 / 10000 : ℚ) : ℝ) := by exact_mod_cast hb.2
  push_cast at l1 l2
  exact ⟨l1.trans m1, m2.trans l2⟩


/-- `hypSeries c d x` returns an interval exactly when `max x (c·x/d) < 1` and `0 < x`
(so, together with `hypSeries_sound`, every positive input with ratio bound below one is enclosed). -/
theorem hypSeries_isSome_iff (c d x : ℚ) :
    (hypSeries c d x).isSome = true ↔ max x (c * x / d) < 1 ∧ 0 < x := by
  unfold hypSeries
  simp only [ratMax_eq]
  split_ifs with hcond
  · simp only [Option.isSome_none, Bool.false_eq_true, false_iff]
    rintro ⟨h1, h2⟩
    rcases hcond with h | h
    · exact absurd h1 (not_lt.mpr h)
    · exact absurd h2 (not_lt.mpr h)
  · push_neg at hcond
    simpa using hcond

example : (hypSeries (5 / 2) (3 / 2) (1 / 4)).isSome = true :=
  (hypSeries_isSome_iff _ _ _).mpr (by norm_num)


end HypSeries

end MV.Special
