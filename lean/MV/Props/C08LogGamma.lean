import Mathlib
import MV.Props.C08GammaIdentity
/-!
# C08 — `lgammaS`: the enclosure of `log Γ(a)` from the incomplete gamma series is sound

`MV.Special.lgammaS a` (rational `a > 0`) evaluates at `X = ⌈2a⌉ + 100`

    L  ∋ a·log X − X − log a + log S(a,X)                     (= log γ(a,X))
    e2 ∋ (a−1)·log X − X + log 2 − log γ(a,X)
    u  = upper end of exp(e2.hi)
    result = [L.lo, L.hi + u]

This file proves that the result contains `log Γ(a)` (`lgammaS_sound`), using
`Γ(a) = γ(a,X) + Γ(a,X)` (`lower_add_upper`), `γ(a,X) = X^a e^(−X)/a · S(a,X)`
(`lowerGamma_series`), `0 ≤ Γ(a,X) ≤ 2 X^(a−1) e^(−X)` (`upperGamma_le`) and the soundness of the
series enclosure (`gammaSerOf_sound`, `gammaLoop_facts`).  Consequences: `lgammaI_sound`,
`gammaRegI_encloses_P`.
-/
namespace MV.Special
open MV MV.I Finset

/-! ## the analytic fact -/

/-- For real `a > 0`, `X > 0` with `2a ≤ X`, and `S = S(a,X) > 0` the series: with
`lg = a log X − X − log a + log S` (`= log γ(a,X)`),
`lg ≤ log Γ(a) ≤ lg + exp((a−1) log X − X + log 2 − lg)`. -/
lemma log_Gamma_bracket {a X : ℝ} (ha : 0 < a) (hX : 0 < X) (haX : 2 * a ≤ X)
    (hS : 0 < ∑' n : ℕ, X ^ n / ∏ j ∈ Finset.range n, (a + j + 1)) :
    a * Real.log X - X - Real.log a +
        Real.log (∑' n : ℕ, X ^ n / ∏ j ∈ Finset.range n, (a + j + 1)) ≤
      Real.log (Real.Gamma a) ∧
    Real.log (Real.Gamma a) ≤
      (a * Real.log X - X - Real.log a +
        Real.log (∑' n : ℕ, X ^ n / ∏ j ∈ Finset.range n, (a + j + 1))) +
      Real.exp ((a - 1) * Real.log X - X + Real.log 2 -
        (a * Real.log X - X - Real.log a +
          Real.log (∑' n : ℕ, X ^ n / ∏ j ∈ Finset.range n, (a + j + 1)))) := by
  set S : ℝ := ∑' n : ℕ, X ^ n / ∏ j ∈ Finset.range n, (a + j + 1) with hSdef
  set g : ℝ := ∫ t in (0 : ℝ)..X, t ^ (a - 1) * Real.exp (-t) with hg
  set T : ℝ := ∫ t in Set.Ioi X, t ^ (a - 1) * Real.exp (-t) with hT
  have hgS : g = X ^ a * Real.exp (-X) / a * S := lowerGamma_series ha hX.le
  have hXa : 0 < X ^ a := Real.rpow_pos_of_pos hX a
  have hgpos : 0 < g := by
    rw [hgS]
    have := Real.exp_pos (-X)
    positivity
  have hT0 : 0 ≤ T := upperGamma_nonneg a hX.le
  have hTle : T ≤ 2 * X ^ (a - 1) * Real.exp (-X) := upperGamma_le ha hX haX
  have hsum : g + T = Real.Gamma a := lower_add_upper ha hX.le
  have hlogg : Real.log g = a * Real.log X - X - Real.log a + Real.log S := by
    rw [hgS, Real.log_mul (by positivity) hS.ne',
      Real.log_div (by positivity) ha.ne',
      Real.log_mul hXa.ne' (Real.exp_pos _).ne', Real.log_rpow hX, Real.log_exp]
    ring
  rw [← hlogg, ← hsum]
  constructor
  · exact Real.log_le_log hgpos (by linarith)
  · have h1 : Real.log (g + T) - Real.log g ≤ T / g := by
      rw [← Real.log_div (by linarith) hgpos.ne']
      have h2 := Real.log_le_sub_one_of_pos (div_pos (by linarith : 0 < g + T) hgpos)
      have h3 : (g + T) / g - 1 = T / g := by field_simp; ring
      linarith
    have h4 : T / g ≤ Real.exp ((a - 1) * Real.log X - X + Real.log 2 - Real.log g) := by
      rw [Real.exp_sub, Real.exp_log hgpos, Real.exp_add, Real.exp_log (by norm_num : (0:ℝ) < 2),
        sub_eq_add_neg, Real.exp_add, mul_comm (a - 1), ← Real.rpow_def_of_pos hX]
      apply div_le_div_of_nonneg_right _ hgpos.le
      linarith
    linarith

/-! ## the model, spelled out -/

/-- the evaluation point `X = ⌈2a⌉ + 100` of `lgammaS` -/
def lgX (a : ℚ) : ℚ := (((2 * a).ceil + 100 : Int) : Rat)

/-- the enclosure `L` of `log γ(a,X)` formed by `lgammaS` -/
def lgL (a : ℚ) (ser : I) : I :=
  I.add (I.sub (I.sub (I.scale a (I.logQ (lgX a))) (I.ofRat (lgX a))) (I.logQ a)) (I.log ser)

/-- the enclosure `e2` of `log (2 X^(a−1) e^(−X)) − log γ(a,X)` formed by `lgammaS` -/
def lgE2 (a : ℚ) (ser : I) : I :=
  I.sub (I.add (I.sub (I.scale (a - 1) (I.logQ (lgX a))) (I.ofRat (lgX a))) (I.logQ 2)) (lgL a ser)

/-- `lgammaS`, spelled out -/
lemma lgammaS_eq (a : ℚ) (ha : 0 < a) :
    lgammaS a = (gammaSer a (lgX a)).map fun ser =>
      ⟨(lgL a ser).lo, (lgL a ser).hi + (I.exp ⟨(lgE2 a ser).hi, (lgE2 a ser).hi⟩).hi⟩ := by
  unfold lgammaS
  rw [if_neg (not_le.mpr ha)]
  show (match gammaSer a (lgX a) with
    | none => none
    | some ser => _) = _
  cases gammaSer a (lgX a) <;> rfl

lemma lgX_ge (a : ℚ) : 2 * a + 100 ≤ lgX a := by
  unfold lgX
  have h := Rat.le_ceil (x := 2 * a)
  push_cast
  linarith

/-- membership of the real series in the interval returned by `gammaSer` (no upper bound on `x`),
and positivity of its lower end -/
lemma gammaSer_mem (a x : ℚ) (ha : 0 < a) (hx0 : 0 < x) (ser : I) (h : gammaSer a x = some ser) :
    Mem (∑' n : ℕ, (x : ℝ) ^ n / ∏ j ∈ Finset.range n, ((a : ℝ) + j + 1)) ser ∧ 1 ≤ ser.lo := by
  have haR : (0 : ℝ) < (a : ℝ) := by exact_mod_cast ha
  have hxR : (0 : ℝ) < (x : ℝ) := by exact_mod_cast hx0
  obtain ⟨sN, tN, K, hloop, h1, h2, h3⟩ := gammaLoop_facts a x ha hx0
  unfold gammaSer at h
  rw [hloop] at h
  split_ifs at h with hq
  injection h with h
  subst h
  have hq' : gq (a : ℝ) (x : ℝ) K ≤ 1 / 2 := by
    have h5 : x / (a + ((K + 1 : ℕ) : ℚ)) ≤ 1 / 2 := not_lt.mp hq
    have h6 : ((x / (a + ((K + 1 : ℕ) : ℚ)) : ℚ) : ℝ) ≤ ((1 / 2 : ℚ) : ℝ) := by exact_mod_cast h5
    push_cast at h6
    unfold gq
    rw [add_assoc]
    exact h6
  refine ⟨gammaSerOf_sound haR hxR sN tN K hq' h1 h2 h3, ?_⟩
  unfold gammaSerOf
  simp only
  rw [ratMax_eq]
  exact le_max_left _ _

/-! ## soundness -/

/-- **Soundness of `lgammaS`.**  For rational `a > 0`: whenever `lgammaS a` returns an interval `e`
(i.e. the series loop at `X = ⌈2a⌉+100` ended with ratio `≤ 1/2`), that interval contains
`log Γ(a)`.  No Stirling series is involved: only `Γ(a) = γ(a,X) + Γ(a,X)`, the series of `γ` and
the far-tail bound on `Γ(a,X)`. -/
theorem lgammaS_sound (a : ℚ) (ha : 0 < a) (e : I) (h : lgammaS a = some e) :
    Mem (Real.log (Real.Gamma (a : ℝ))) e := by
  have haR : (0 : ℝ) < (a : ℝ) := by exact_mod_cast ha
  have hXge := lgX_ge a
  have hX0 : 0 < lgX a := by linarith
  have hXR : (0 : ℝ) < (lgX a : ℝ) := by exact_mod_cast hX0
  have haX : 2 * (a : ℝ) ≤ (lgX a : ℝ) := by
    have : ((2 * a + 100 : ℚ) : ℝ) ≤ (lgX a : ℝ) := by exact_mod_cast hXge
    push_cast at this
    linarith
  rw [lgammaS_eq a ha] at h
  cases hs : gammaSer a (lgX a) with
  | none => rw [hs] at h; simp at h
  | some ser =>
    rw [hs] at h
    simp only [Option.map_some] at h
    injection h with h
    subst h
    obtain ⟨hmem, hlo⟩ := gammaSer_mem a (lgX a) ha hX0 ser hs
    have hlo0 : 0 < ser.lo := lt_of_lt_of_le one_pos hlo
    set S : ℝ := ∑' n : ℕ, (lgX a : ℝ) ^ n / ∏ j ∈ Finset.range n, ((a : ℝ) + j + 1) with hSdef
    have hSpos : 0 < S := by
      have : (0 : ℝ) < ((ser.lo : ℚ) : ℝ) := by exact_mod_cast hlo0
      exact this.trans_le hmem.1
    obtain ⟨hlow, hupp⟩ := log_Gamma_bracket haR hXR haX hSpos
    -- the interval `L` contains `log γ(a,X)`
    have hlx := logQ_sound (lgX a) hX0
    have hL : Mem ((a : ℝ) * Real.log (lgX a : ℝ) - (lgX a : ℝ) - Real.log (a : ℝ) + Real.log S)
        (lgL a ser) := by
      unfold lgL
      exact add_sound (sub_sound (sub_sound (scale_sound a hlx) (ofRat_sound _))
        (logQ_sound a ha)) (log_sound ser S hmem hlo0)
    have h2 : Mem (Real.log (((2 : ℚ)) : ℝ)) (I.logQ 2) := logQ_sound 2 (by norm_num)
    rw [show (((2 : ℚ)) : ℝ) = 2 by norm_num] at h2
    have hs1 := scale_sound (a - 1) hlx
    rw [show (((a - 1 : ℚ)) : ℝ) = (a : ℝ) - 1 by push_cast; ring] at hs1
    have hE2 := sub_sound (add_sound (sub_sound hs1 (ofRat_sound (lgX a))) h2) hL
    have hexp := (Real.exp_le_exp.mpr hE2.2).trans
      (exp_sound ⟨(lgE2 a ser).hi, (lgE2 a ser).hi⟩ (((lgE2 a ser).hi : ℚ) : ℝ)
        ⟨le_refl _, le_refl _⟩).2
    constructor
    · exact hL.1.trans hlow
    · show _ ≤ ((((lgL a ser).hi + (I.exp ⟨(lgE2 a ser).hi, (lgE2 a ser).hi⟩).hi : ℚ)) : ℝ)
      push_cast
      have := hL.2
      unfold lgE2 at hexp ⊢
      linarith

/- `#eval` (not part of the proofs): `lgammaS 1 ≈ [-1.1e-35, 1.5e-35]` (loop index 348 at `X = 102`),
`lgammaS (5/2) ≈ 0.284683 ± 1.4e-35` (loop index 350 at `X = 105`; `log Γ(5/2) = log(3√π/4)`). -/

/-- non-vacuity: `lgammaS` returns an interval at `a = 5/2` (`X = 105`; checked by kernel
evaluation of the series loop) and that interval contains `log Γ(5/2)` -/
example : ∃ e, lgammaS (5 / 2) = some e ∧ Mem (Real.log (Real.Gamma (((5 / 2 : ℚ)) : ℝ))) e := by
  have hs : (lgammaS (5 / 2)).isSome = true := by decide +kernel
  obtain ⟨e, he⟩ := Option.isSome_iff_exists.mp hs
  exact ⟨e, he, lgammaS_sound (5 / 2) (by norm_num) e he⟩

/-- non-vacuity at `a = 1` (`X = 102`): the interval returned by `lgammaS 1` contains
`log Γ(1) = 0` -/
example : ∃ e, lgammaS 1 = some e ∧ ((e.lo : ℚ) : ℝ) ≤ 0 ∧ (0 : ℝ) ≤ ((e.hi : ℚ) : ℝ) := by
  have hs : (lgammaS 1).isSome = true := by decide +kernel
  obtain ⟨e, he⟩ := Option.isSome_iff_exists.mp hs
  have h := lgammaS_sound 1 (by norm_num) e he
  rw [show (((1 : ℚ)) : ℝ) = 1 by norm_num, Real.Gamma_one, Real.log_one] at h
  exact ⟨e, he, h.1, h.2⟩

/-- **Soundness of `lgammaI` on its series branch.**  For rational `a > 0` such that the series
enclosure exists (`(lgammaS a).isSome`, i.e. no Stirling fallback), `lgammaI a` contains
`log Γ(a)`. -/
theorem lgammaI_sound (a : ℚ) (ha : 0 < a) (hs : (lgammaS a).isSome) :
    Mem (Real.log (Real.Gamma (a : ℝ))) (lgammaI a) := by
  obtain ⟨e, he⟩ := Option.isSome_iff_exists.mp hs
  unfold lgammaI
  rw [he]
  exact lgammaS_sound a ha e he

example : Mem (Real.log (Real.Gamma (((5 / 2 : ℚ)) : ℝ))) (lgammaI (5 / 2)) :=
  lgammaI_sound (5 / 2) (by norm_num) (by decide +kernel)

/-- `lgammaI_sound` at the shifted argument, in the form needed by `gammaRegIWith_*` -/
lemma lgammaI_succ_sound (a : ℚ) (ha : 0 < a) (hs : (lgammaS (a + 1)).isSome) :
    Mem (Real.log (Real.Gamma ((a : ℝ) + 1))) (lgammaI (a + 1)) := by
  have h := lgammaI_sound (a + 1) (by linarith) hs
  rwa [show (((a + 1 : ℚ)) : ℝ) = (a : ℝ) + 1 by push_cast; ring] at h

/-- **`gammaRegI` encloses the regularised lower incomplete gamma function.**  For rationals
`a > 0`, `x > 0` such that the series enclosure of `log Γ(a+1)` exists: any interval returned by
`gammaRegI a x` contains `P(a,x) = 1 − Q(a,x)`, `Q = upperGammaQ` (both branches; the enclosure of
`log Γ(a+1)` it uses is now proved, not assumed). -/
theorem gammaRegI_encloses_P (a x : ℚ) (ha : 0 < a) (hx0 : 0 < x)
    (hs : (lgammaS (a + 1)).isSome) (r : I) (h : gammaRegI a x = some r) :
    Mem (1 - upperGammaQ (a : ℝ) (x : ℝ)) r :=
  gammaRegIWith_encloses_P (lgammaI (a + 1)) a x ha hx0 (lgammaI_succ_sound a ha hs) r h

/-- the same with `P(a,x)` written as the integral: for `0 < x` any interval returned by
`gammaRegI a x` contains `(∫₀ˣ t^(a−1) e^(−t) dt)/Γ(a)`. -/
theorem gammaRegI_encloses_integral (a x : ℚ) (ha : 0 < a) (hx0 : 0 < x)
    (hs : (lgammaS (a + 1)).isSome) (r : I) (h : gammaRegI a x = some r) :
    Mem ((∫ t in (0 : ℝ)..(x : ℝ), t ^ ((a : ℝ) - 1) * Real.exp (-t)) / Real.Gamma (a : ℝ)) r := by
  have haR : (0 : ℝ) < (a : ℝ) := by exact_mod_cast ha
  have hxR : (0 : ℝ) < (x : ℝ) := by exact_mod_cast hx0
  rw [lowerGammaReg_eq_one_sub_upperGammaQ haR hxR.le]
  exact gammaRegI_encloses_P a x ha hx0 hs r h

/-- non-vacuity: `a = 5/2`, `x = 3` (series branch) and `x = 200` (far-tail branch): `gammaRegI`
returns an interval, and it contains `P(5/2, x)` -/
example : ∃ r, gammaRegI (5 / 2) 3 = some r ∧
    Mem (1 - upperGammaQ (((5 / 2 : ℚ)) : ℝ) (((3 : ℚ)) : ℝ)) r := by
  have hs : (gammaSer (5 / 2) 3).isSome = true := by decide +kernel
  obtain ⟨ser, hser⟩ := Option.isSome_iff_exists.mp hs
  have h1 := (gammaSeries_sound (lgammaI (5 / 2 + 1)) (5 / 2) 3 (by norm_num) (by norm_num)
    (by norm_num) ser hser).1
  exact ⟨_, h1, gammaRegI_encloses_P (5 / 2) 3 (by norm_num) (by norm_num)
    (by decide +kernel) _ h1⟩

example : ∃ r, gammaRegI (5 / 2) 200 = some r ∧
    Mem (1 - upperGammaQ (((5 / 2 : ℚ)) : ℝ) (((200 : ℚ)) : ℝ)) r := by
  have h1 := gammaRegIWith_farTail_eq (lgammaI (5 / 2 + 1)) (5 / 2) 200 (by norm_num) (by norm_num)
  exact ⟨_, h1, gammaRegI_encloses_P (5 / 2) 200 (by norm_num) (by norm_num)
    (by decide +kernel) _ h1⟩

end MV.Special
