import Mathlib.Tactic
import MV.Model.Sample
/-!
# C09 — descriptive statistics on slices and (weighted) samples: exact-rational models
-/
namespace MV.Sample

/-! ## `sum` -/

lemma foldl_add (xs : List Rat) (a : Rat) : xs.foldl (· + ·) a = a + xs.sum := by
  induction xs generalizing a with
  | nil => simp
  | cons x xs ih => simp [ih, add_assoc]

lemma sum_eq (xs : List Rat) : sum xs = xs.sum := by
  unfold sum; rw [foldl_add]; simp

@[simp] lemma sum_nil : sum [] = 0 := rfl
@[simp] lemma sum_cons (x : Rat) (xs : List Rat) : sum (x :: xs) = x + sum xs := by
  simp [sum_eq]
lemma sum_append (xs ys : List Rat) : sum (xs ++ ys) = sum xs + sum ys := by
  simp [sum_eq]

/-! ## A1: incremental mean / Welford variance -/

lemma meanFold_aux (f : Rat × Nat → Rat → Rat × Nat)
    (hf : ∀ m i x, f (m, i) x = (m + (x - m) / ((i + 1 : Nat) : Rat), i + 1))
    (xs : List Rat) (m : Rat) (i : Nat) :
    (xs.foldl f (m, i)).2 = i + xs.length ∧
    (xs.foldl f (m, i)).1 * ((i + xs.length : Nat) : Rat) = m * (i : Rat) + xs.sum := by
  induction xs generalizing m i with
  | nil => simp
  | cons x xs ih =>
    rw [List.foldl_cons, hf]
    obtain ⟨h1, h2⟩ := ih (m + (x - m) / ((i + 1 : Nat) : Rat)) (i + 1)
    refine ⟨by rw [h1]; simp; omega, ?_⟩
    have e : i + (x :: xs).length = i + 1 + xs.length := by simp; omega
    rw [e, h2]
    have : ((i + 1 : Nat) : Rat) ≠ 0 := by positivity
    rw [List.sum_cons]
    field_simp
    push_cast
    ring

/-- The incremental mean `m += (x-m)/(i+1)` (Go `stats.Mean`) equals `Σx / n` on every
non-empty list. -/
theorem meanInc_eq (xs : List Rat) (h : xs ≠ []) : meanInc xs = meanSpec xs := by
  unfold meanInc meanSpec
  have key : ∀ f : Rat × Nat → Rat → Rat × Nat,
      (∀ m i x, f (m, i) x = (m + (x - m) / ((i + 1 : Nat) : Rat), i + 1)) →
      (xs.foldl f (0, 0)).1 * (xs.length : Rat) = xs.sum := by
    intro f hf
    simpa using (meanFold_aux f hf xs 0 0).2
  have hn : (xs.length : Rat) ≠ 0 := by
    have : xs.length ≠ 0 := by simpa using h
    exact_mod_cast this
  rw [eq_div_iff hn, sum_eq]
  apply key
  intros; rfl

example : meanInc [1, 2, 4, 9] = meanSpec [1, 2, 4, 9] := meanInc_eq _ (by simp)
example : meanInc [1, 2, 4, 9] = 4 := by decide +kernel

lemma varFold_aux (f : Rat × Rat × Nat → Rat → Rat × Rat × Nat)
    (hf : ∀ mean m2 n x, f (mean, m2, n) x =
      (mean + (x - mean) / ((n + 1 : Nat) : Rat),
       m2 + (x - mean) * (x - (mean + (x - mean) / ((n + 1 : Nat) : Rat))), n + 1))
    (xs : List Rat) (mean m2 : Rat) (n : Nat) (S Q : Rat)
    (hS : mean * (n : Rat) = S) (hQ : m2 = Q - mean * S) :
    (xs.foldl f (mean, m2, n)).2.2 = n + xs.length ∧
    (xs.foldl f (mean, m2, n)).1 * ((n + xs.length : Nat) : Rat) = S + xs.sum ∧
    (xs.foldl f (mean, m2, n)).2.1 =
      (Q + (xs.map fun x => x * x).sum) - (xs.foldl f (mean, m2, n)).1 * (S + xs.sum) := by
  induction xs generalizing mean m2 n S Q with
  | nil => simp [hS, hQ]
  | cons x xs ih =>
    rw [List.foldl_cons, hf]
    have hn : ((n + 1 : Nat) : Rat) ≠ 0 := by positivity
    obtain ⟨h1, h2, h3⟩ := ih (mean + (x - mean) / ((n + 1 : Nat) : Rat))
      (m2 + (x - mean) * (x - (mean + (x - mean) / ((n + 1 : Nat) : Rat)))) (n + 1)
      (S + x) (Q + x * x)
      (by subst hS; field_simp; push_cast; ring)
      (by subst hQ; subst hS; field_simp; push_cast; ring)
    refine ⟨by rw [h1]; simp; omega, ?_, ?_⟩
    · have e : n + (x :: xs).length = n + 1 + xs.length := by simp; omega
      rw [e, h2, List.sum_cons]; ring
    · rw [h3, List.map_cons, List.sum_cons, List.sum_cons]; ring

lemma sum_sq_dev (xs : List Rat) (m : Rat) :
    (xs.map fun x => (x - m) * (x - m)).sum =
      (xs.map fun x => x * x).sum - 2 * m * xs.sum + (xs.length : Rat) * m * m := by
  induction xs with
  | nil => simp
  | cons x xs ih => simp only [List.map_cons, List.sum_cons, ih, List.length_cons]; push_cast; ring

/-- Welford's incremental variance (Go `stats.Variance`) equals the textbook
`Σ(x - mean)² / (n - 1)` for every list with at least two elements. -/
theorem varInc_eq (xs : List Rat) (h : 2 ≤ xs.length) : varInc xs = varSpec xs := by
  unfold varInc varSpec meanSpec
  generalize hfold : List.foldl _ _ xs = r
  obtain ⟨a, b, c⟩ := r
  have key : ∀ f : Rat × Rat × Nat → Rat → Rat × Rat × Nat, (∀ mean m2 n x, f (mean, m2, n) x =
      (mean + (x - mean) / ((n + 1 : Nat) : Rat),
       m2 + (x - mean) * (x - (mean + (x - mean) / ((n + 1 : Nat) : Rat))), n + 1)) →
      xs.foldl f (0, 0, 0) = (a, b, c) →
      a * ((0 + xs.length : Nat) : Rat) = 0 + xs.sum ∧
        b = (0 + (xs.map fun x => x * x).sum) - a * (0 + xs.sum) := by
    intro f hf hfold
    obtain ⟨_, h2, h3⟩ := varFold_aux f hf xs 0 0 0 0 0 (by simp) (by simp)
    rw [hfold] at h2 h3
    exact ⟨h2, h3⟩
  obtain ⟨h2, h3⟩ := key _ (by intros; rfl) hfold
  simp only [zero_add] at h2 h3
  have hn : (xs.length : Rat) ≠ 0 := by
    have : xs.length ≠ 0 := by omega
    exact_mod_cast this
  simp only []
  congr 1
  rw [h3, sum_eq, sum_eq, sum_sq_dev]
  have ha : a = xs.sum / (xs.length : Rat) := by rw [eq_div_iff hn]; simpa using h2
  rw [ha]
  field_simp
  ring

example : varInc [1, 2, 4, 9] = varSpec [1, 2, 4, 9] := varInc_eq _ (by simp)
example : varInc [1, 2, 4, 9] = 38 / 3 := by decide +kernel

/-! ## A2: weighted incremental mean -/

lemma map_mul_pair (ps : List (Rat × Rat)) :
    (ps.map fun (x, w) => x * w) = ps.map fun p => p.1 * p.2 := rfl

lemma wmeanFold_aux (f : Rat × Rat → Rat × Rat → Rat × Rat)
    (hf : ∀ m wsum x w, f (m, wsum) (x, w) =
      if w == 0 then (m, wsum) else (m + (x - m) * w / (wsum + w), wsum + w))
    (ps : List (Rat × Rat)) (hw : ∀ p ∈ ps, 0 ≤ p.2) (m wsum : Rat) (h0 : 0 ≤ wsum) :
    (ps.foldl f (m, wsum)).2 = wsum + (ps.map (·.2)).sum ∧
    (ps.foldl f (m, wsum)).1 * (wsum + (ps.map (·.2)).sum) =
      m * wsum + (ps.map fun p => p.1 * p.2).sum := by
  induction ps generalizing m wsum with
  | nil => simp
  | cons p ps ih =>
    obtain ⟨x, w⟩ := p
    have hw' : ∀ p ∈ ps, 0 ≤ p.2 := fun p hp => hw p (List.mem_cons_of_mem _ hp)
    have hwx : 0 ≤ w := hw (x, w) (by simp)
    rw [List.foldl_cons, hf]
    by_cases hz : w = 0
    · subst hz
      obtain ⟨h1, h2⟩ := ih hw' m wsum h0
      simp only [beq_self_eq_true, if_true, List.map_cons, List.sum_cons, zero_add, mul_zero]
      exact ⟨h1, h2⟩
    · have hpos : 0 < wsum + w := by
        have : 0 < w := lt_of_le_of_ne hwx (Ne.symm hz)
        linarith
      obtain ⟨h1, h2⟩ := ih hw' (m + (x - m) * w / (wsum + w)) (wsum + w) hpos.le
      have hb : (w == 0) = false := by simpa using hz
      simp only [hb, Bool.false_eq_true, if_false, List.map_cons, List.sum_cons]
      refine ⟨by rw [h1]; ring, ?_⟩
      rw [← add_assoc, h2]
      have := hpos.ne'
      field_simp
      ring

/-- With non-negative weights of non-zero total, the weighted incremental mean
(Go `Sample.Mean`, which skips zero weights) equals `Σ x·w / Σ w`. -/
theorem wmeanInc_eq (xs ws : List Rat) (hlen : xs.length = ws.length)
    (hw : ∀ w ∈ ws, 0 ≤ w) (hW : sum ws ≠ 0) :
    wmeanInc xs ws = some (wmeanSpec xs ws) := by
  unfold wmeanInc wmeanSpec
  generalize hfold : List.foldl _ _ (xs.zip ws) = r
  obtain ⟨m, wsum⟩ := r
  have key : ∀ f : Rat × Rat → Rat × Rat → Rat × Rat, (∀ m wsum x w, f (m, wsum) (x, w) =
      if w == 0 then (m, wsum) else (m + (x - m) * w / (wsum + w), wsum + w)) →
      (xs.zip ws).foldl f (0, 0) = (m, wsum) →
      wsum = ws.sum ∧ m * ws.sum = ((xs.zip ws).map fun p => p.1 * p.2).sum := by
    intro f hf hfold
    have hpos : ∀ p ∈ xs.zip ws, 0 ≤ p.2 := by
      intro p hp
      exact hw _ (List.of_mem_zip hp).2
    obtain ⟨h1, h2⟩ := wmeanFold_aux f hf (xs.zip ws) hpos 0 0 le_rfl
    rw [hfold] at h1 h2
    have e : (xs.zip ws).map (·.2) = ws := List.map_snd_zip (by omega)
    simp only [e, zero_add, zero_mul] at h1 h2
    exact ⟨h1, h2⟩
  obtain ⟨h1, h2⟩ := key _ (by intros; rfl) hfold
  rw [sum_eq] at hW
  have hb : (wsum == 0) = false := by rw [h1]; simpa using hW
  simp only [hb, Bool.false_eq_true, if_false, Option.some.injEq]
  rw [sum_eq, sum_eq, map_mul_pair, eq_div_iff hW, h2]

example : wmeanInc [1, 2, 4] [3, 0, 1] = some (wmeanSpec [1, 2, 4] [3, 0, 1]) :=
  wmeanInc_eq _ _ rfl (by decide) (by decide +kernel)
example : wmeanInc [1, 2, 4] [3, 0, 1] = some (7 / 4) := by decide +kernel

lemma wmeanFold_zero (f : Rat × Rat → Rat × Rat → Rat × Rat)
    (hf : ∀ m wsum x w, f (m, wsum) (x, w) =
      if w == 0 then (m, wsum) else (m + (x - m) * w / (wsum + w), wsum + w))
    (ps : List (Rat × Rat)) (hw : ∀ p ∈ ps, p.2 = 0) (st : Rat × Rat) :
    ps.foldl f st = st := by
  induction ps with
  | nil => rfl
  | cons p ps ih =>
    obtain ⟨x, w⟩ := p
    obtain ⟨m, wsum⟩ := st
    have : w = 0 := hw (x, w) (by simp)
    subst this
    rw [List.foldl_cons, hf]
    simpa using ih (fun p hp => hw p (List.mem_cons_of_mem _ hp))

/-- When every weight is zero the weighted mean is NaN (`none`). -/
theorem wmeanInc_zero (xs ws : List Rat) (hw : ∀ w ∈ ws, w = 0) : wmeanInc xs ws = none := by
  unfold wmeanInc
  have key : ∀ f : Rat × Rat → Rat × Rat → Rat × Rat, (∀ m wsum x w, f (m, wsum) (x, w) =
      if w == 0 then (m, wsum) else (m + (x - m) * w / (wsum + w), wsum + w)) →
      (xs.zip ws).foldl f (0, 0) = (0, 0) := by
    intro f hf
    exact wmeanFold_zero f hf _ (fun p hp => hw _ (List.of_mem_zip hp).2) _
  rw [key _ (by intros; rfl)]
  rfl

example : wmeanInc [1, 2, 4] [0, 0, 0] = none := wmeanInc_zero _ _ (by decide)

/-! ## A3: permutation invariance -/

lemma foldl_min_spec (xs : List Rat) (a : Rat) :
    (xs.foldl (fun a b => if b < a then b else a) a = a ∨
      xs.foldl (fun a b => if b < a then b else a) a ∈ xs) ∧
    xs.foldl (fun a b => if b < a then b else a) a ≤ a ∧
    ∀ y ∈ xs, xs.foldl (fun a b => if b < a then b else a) a ≤ y := by
  induction xs generalizing a with
  | nil => simp
  | cons b xs ih =>
    rw [List.foldl_cons]
    obtain ⟨h1, h2, h3⟩ := ih (if b < a then b else a)
    split_ifs at h1 h2 h3 ⊢ with hba
    · refine ⟨?_, h2.trans hba.le, ?_⟩
      · rcases h1 with h1 | h1
        · right; rw [h1]; simp
        · right; exact List.mem_cons_of_mem _ h1
      · intro y hy
        rcases List.mem_cons.1 hy with rfl | hy
        · exact h2
        · exact h3 y hy
    · refine ⟨?_, h2, ?_⟩
      · rcases h1 with h1 | h1
        · left; exact h1
        · right; exact List.mem_cons_of_mem _ h1
      · intro y hy
        rcases List.mem_cons.1 hy with rfl | hy
        · exact h2.trans (not_lt.1 hba)
        · exact h3 y hy

lemma foldl_max_spec (xs : List Rat) (a : Rat) :
    (xs.foldl (fun a b => if b > a then b else a) a = a ∨
      xs.foldl (fun a b => if b > a then b else a) a ∈ xs) ∧
    a ≤ xs.foldl (fun a b => if b > a then b else a) a ∧
    ∀ y ∈ xs, y ≤ xs.foldl (fun a b => if b > a then b else a) a := by
  induction xs generalizing a with
  | nil => simp
  | cons b xs ih =>
    rw [List.foldl_cons]
    obtain ⟨h1, h2, h3⟩ := ih (if b > a then b else a)
    split_ifs at h1 h2 h3 ⊢ with hba
    · refine ⟨?_, hba.le.trans h2, ?_⟩
      · rcases h1 with h1 | h1
        · right; rw [h1]; simp
        · right; exact List.mem_cons_of_mem _ h1
      · intro y hy
        rcases List.mem_cons.1 hy with rfl | hy
        · exact h2
        · exact h3 y hy
    · refine ⟨?_, h2, ?_⟩
      · rcases h1 with h1 | h1
        · left; exact h1
        · right; exact List.mem_cons_of_mem _ h1
      · intro y hy
        rcases List.mem_cons.1 hy with rfl | hy
        · exact (not_lt.1 hba).trans h2
        · exact h3 y hy

lemma minL_mem (xs : List Rat) (h : xs ≠ []) : minL xs ∈ xs := by
  cases xs with
  | nil => exact absurd rfl h
  | cons x xs =>
    rcases (foldl_min_spec xs x).1 with h1 | h1
    · show List.foldl _ x xs ∈ _
      rw [h1]; simp
    · exact List.mem_cons_of_mem _ h1

lemma minL_le (xs : List Rat) (y : Rat) (hy : y ∈ xs) : minL xs ≤ y := by
  cases xs with
  | nil => simp at hy
  | cons x xs =>
    rcases List.mem_cons.1 hy with rfl | hy
    · exact (foldl_min_spec xs y).2.1
    · exact (foldl_min_spec xs x).2.2 y hy

lemma maxL_mem (xs : List Rat) (h : xs ≠ []) : maxL xs ∈ xs := by
  cases xs with
  | nil => exact absurd rfl h
  | cons x xs =>
    rcases (foldl_max_spec xs x).1 with h1 | h1
    · show List.foldl _ x xs ∈ _
      rw [h1]; simp
    · exact List.mem_cons_of_mem _ h1

lemma le_maxL (xs : List Rat) (y : Rat) (hy : y ∈ xs) : y ≤ maxL xs := by
  cases xs with
  | nil => simp at hy
  | cons x xs =>
    rcases List.mem_cons.1 hy with rfl | hy
    · exact (foldl_max_spec xs y).2.1
    · exact (foldl_max_spec xs x).2.2 y hy

lemma minL_unique (xs : List Rat) (m : Rat) (hm : m ∈ xs) (hle : ∀ y ∈ xs, m ≤ y) :
    minL xs = m :=
  le_antisymm (minL_le xs m hm) (hle _ (minL_mem xs (List.ne_nil_of_mem hm)))

lemma maxL_unique (xs : List Rat) (m : Rat) (hm : m ∈ xs) (hle : ∀ y ∈ xs, y ≤ m) :
    maxL xs = m :=
  le_antisymm (hle _ (maxL_mem xs (List.ne_nil_of_mem hm))) (le_maxL xs m hm)

/-- `minL` only depends on the set of members of the list. -/
lemma minL_congr (l₁ l₂ : List Rat) (h : ∀ y, y ∈ l₁ ↔ y ∈ l₂) : minL l₁ = minL l₂ := by
  cases l₁ with
  | nil =>
    have : l₂ = [] := List.eq_nil_iff_forall_not_mem.2 fun y hy => by simpa using (h y).2 hy
    rw [this]
  | cons x l₁ =>
    have hne : l₂ ≠ [] := List.ne_nil_of_mem ((h x).1 (by simp))
    apply minL_unique
    · exact (h _).2 (minL_mem l₂ hne)
    · intro y hy; exact minL_le l₂ y ((h y).1 hy)

lemma maxL_congr (l₁ l₂ : List Rat) (h : ∀ y, y ∈ l₁ ↔ y ∈ l₂) : maxL l₁ = maxL l₂ := by
  cases l₁ with
  | nil =>
    have : l₂ = [] := List.eq_nil_iff_forall_not_mem.2 fun y hy => by simpa using (h y).2 hy
    rw [this]
  | cons x l₁ =>
    have hne : l₂ ≠ [] := List.ne_nil_of_mem ((h x).1 (by simp))
    apply maxL_unique
    · exact (h _).2 (maxL_mem l₂ hne)
    · intro y hy; exact le_maxL l₂ y ((h y).1 hy)

/-- `sum` is invariant under permutation. -/
theorem sum_perm {xs ys : List Rat} (h : xs.Perm ys) : sum xs = sum ys := by
  rw [sum_eq, sum_eq]; exact h.sum_eq

/-- `meanSpec` is invariant under permutation. -/
theorem meanSpec_perm {xs ys : List Rat} (h : xs.Perm ys) : meanSpec xs = meanSpec ys := by
  unfold meanSpec; rw [sum_perm h, h.length_eq]

/-- `varSpec` is invariant under permutation. -/
theorem varSpec_perm {xs ys : List Rat} (h : xs.Perm ys) : varSpec xs = varSpec ys := by
  unfold varSpec
  simp only [meanSpec_perm h, h.length_eq]
  rw [sum_perm (h.map _)]

/-- `minL` is invariant under permutation. -/
theorem minL_perm {xs ys : List Rat} (h : xs.Perm ys) : minL xs = minL ys :=
  minL_congr _ _ fun _ => h.mem_iff

/-- `maxL` is invariant under permutation. -/
theorem maxL_perm {xs ys : List Rat} (h : xs.Perm ys) : maxL xs = maxL ys :=
  maxL_congr _ _ fun _ => h.mem_iff

example : sum [3, 1, 2] = sum [1, 2, 3] ∧ meanSpec [3, 1, 2] = meanSpec [1, 2, 3] ∧
    varSpec [3, 1, 2] = varSpec [1, 2, 3] ∧ minL [3, 1, 2] = minL [1, 2, 3] ∧
    maxL [3, 1, 2] = maxL [1, 2, 3] := by
  have h : [(3 : Rat), 1, 2].Perm [1, 2, 3] := by decide
  exact ⟨sum_perm h, meanSpec_perm h, varSpec_perm h, minL_perm h, maxL_perm h⟩

/-- The weighted mean is invariant under permuting the (value, weight) pairs. -/
theorem wmeanSpec_perm {ps qs : List (Rat × Rat)} (h : ps.Perm qs) :
    wmeanSpec ps.unzip.1 ps.unzip.2 = wmeanSpec qs.unzip.1 qs.unzip.2 := by
  unfold wmeanSpec
  rw [List.zip_unzip, List.zip_unzip, sum_perm (h.map _)]
  congr 1
  simp only [List.unzip_snd]
  exact sum_perm (h.map _)

/-- `Sample.Sum` (weighted) is invariant under permuting the (value, weight) pairs. -/
theorem total_perm {ps qs : List (Rat × Rat)} (h : ps.Perm qs) (b b' : Bool) :
    S.total ⟨ps.unzip.1, some ps.unzip.2, b⟩ = S.total ⟨qs.unzip.1, some qs.unzip.2, b'⟩ := by
  unfold S.total
  simp only [List.zip_unzip]
  exact sum_perm (h.map _)

/-- `Sample.Weight` is invariant under permuting the (value, weight) pairs. -/
theorem weight_perm {ps qs : List (Rat × Rat)} (h : ps.Perm qs) (b b' : Bool) :
    S.weight ⟨ps.unzip.1, some ps.unzip.2, b⟩ = S.weight ⟨qs.unzip.1, some qs.unzip.2, b'⟩ := by
  unfold S.weight
  simp only [List.unzip_snd]
  exact sum_perm (h.map _)

example : wmeanSpec [3, 1, 2] [5, 0, 7] = wmeanSpec [1, 2, 3] [0, 7, 5] :=
  wmeanSpec_perm (ps := [(3, 5), (1, 0), (2, 7)]) (qs := [(1, 0), (2, 7), (3, 5)]) (by decide)
example : S.total ⟨[3, 1, 2], some [5, 0, 7], false⟩ = S.total ⟨[1, 2, 3], some [0, 7, 5], true⟩ :=
  total_perm (ps := [(3, 5), (1, 0), (2, 7)]) (qs := [(1, 0), (2, 7), (3, 5)]) (by decide) _ _
example : S.weight ⟨[3, 1, 2], some [5, 0, 7], false⟩ = S.weight ⟨[1, 2, 3], some [0, 7, 5], true⟩ :=
  weight_perm (ps := [(3, 5), (1, 0), (2, 7)]) (qs := [(1, 0), (2, 7), (3, 5)]) (by decide) _ _

/-! ## A4: integer weights behave as repetition -/

/-- `xs[i]` repeated `ks[i]` times. -/
def expand (xs : List Rat) (ks : List Nat) : List Rat :=
  (xs.zip ks).flatMap fun (x, k) => List.replicate k x

lemma expand_nil_left (ks : List Nat) : expand [] ks = [] := by simp [expand]
lemma expand_nil_right (xs : List Rat) : expand xs [] = [] := by simp [expand]
lemma expand_cons (x : Rat) (xs : List Rat) (k : Nat) (ks : List Nat) :
    expand (x :: xs) (k :: ks) = List.replicate k x ++ expand xs ks := by
  simp [expand]

lemma sum_expand (xs : List Rat) (ks : List Nat) :
    (expand xs ks).sum = ((xs.zip (ks.map fun (k : Nat) => (k : Rat))).map fun p => p.1 * p.2).sum := by
  induction xs generalizing ks with
  | nil => simp [expand_nil_left]
  | cons x xs ih =>
    cases ks with
    | nil => simp [expand_nil_right]
    | cons k ks =>
      rw [expand_cons, List.sum_append, ih]
      simp [List.sum_replicate, mul_comm]

lemma length_expand (xs : List Rat) (ks : List Nat) (hlen : xs.length = ks.length) :
    (expand xs ks).length = ks.sum := by
  induction xs generalizing ks with
  | nil =>
    cases ks with
    | nil => simp [expand_nil_left]
    | cons k ks => simp at hlen
  | cons x xs ih =>
    cases ks with
    | nil => simp at hlen
    | cons k ks =>
      rw [expand_cons, List.length_append, ih ks (by simpa using hlen)]
      simp

lemma sum_map_cast (ks : List Nat) : (ks.map fun (k : Nat) => (k : Rat)).sum = ((ks.sum : Nat) : Rat) := by
  induction ks with
  | nil => simp
  | cons k ks ih => rw [List.map_cons, List.sum_cons, List.sum_cons, ih]; push_cast; rfl

lemma mem_expand (xs : List Rat) (ks : List Nat) (y : Rat) :
    y ∈ expand xs ks ↔ ∃ k, (y, k) ∈ xs.zip ks ∧ k ≠ 0 := by
  unfold expand
  simp only [List.mem_flatMap, Prod.exists, List.mem_replicate]
  constructor
  · rintro ⟨a, k, hm, hk, rfl⟩
    exact ⟨k, hm, hk⟩
  · rintro ⟨k, hm, hk⟩
    exact ⟨y, k, hm, hk, rfl⟩

lemma mem_nz (xs ws : List Rat) (y : Rat) :
    y ∈ ((xs.zip ws).filter fun (_, w) => w != 0).map (·.1) ↔ ∃ w, (y, w) ∈ xs.zip ws ∧ w ≠ 0 := by
  simp only [List.mem_map, List.mem_filter, Prod.exists]
  constructor
  · rintro ⟨a, w, ⟨hm, hw⟩, rfl⟩
    exact ⟨w, hm, by simpa using hw⟩
  · rintro ⟨w, hm, hw⟩
    exact ⟨y, w, ⟨hm, by simpa using hw⟩, rfl⟩

lemma mem_zip_cast (xs : List Rat) (ks : List Nat) (y w : Rat) :
    (y, w) ∈ xs.zip (ks.map fun (k : Nat) => (k : Rat)) ↔ ∃ k : Nat, (y, k) ∈ xs.zip ks ∧ (k : Rat) = w := by
  rw [List.zip_map_right]
  simp only [List.mem_map, Prod.exists, Prod.map_apply, id_eq, Prod.mk.injEq]
  constructor
  · rintro ⟨a, k, hm, rfl, rfl⟩; exact ⟨k, hm, rfl⟩
  · rintro ⟨k, hm, rfl⟩; exact ⟨y, k, hm, rfl, rfl⟩

/-- A sample with natural-number weights has the same weighted mean as the unweighted sample in
which each value is repeated according to its weight.  (Also true, as `0 = 0`, when all weights
vanish, so the hypothesis `Σk ≠ 0` is not needed.) -/
theorem wmeanSpec_expand (xs : List Rat) (ks : List Nat) (hlen : xs.length = ks.length) :
    wmeanSpec xs (ks.map fun (k : Nat) => (k : Rat)) = meanSpec (expand xs ks) := by
  unfold wmeanSpec meanSpec
  rw [sum_eq, sum_eq, sum_eq, map_mul_pair, ← sum_expand, sum_map_cast, length_expand xs ks hlen]

/-- `Sample.Sum` with natural-number weights equals the plain sum of the expanded sample. -/
theorem total_expand (xs : List Rat) (ks : List Nat) (b : Bool) :
    S.total ⟨xs, some (ks.map fun (k : Nat) => (k : Rat)), b⟩ = sum (expand xs ks) := by
  unfold S.total
  simp only
  rw [sum_eq, sum_eq, map_mul_pair, ← sum_expand]

/-- `Sample.Weight` with natural-number weights equals the length of the expanded sample. -/
theorem weight_expand (xs : List Rat) (ks : List Nat) (hlen : xs.length = ks.length) (b : Bool) :
    S.weight ⟨xs, some (ks.map fun (k : Nat) => (k : Rat)), b⟩ = ((expand xs ks).length : Rat) := by
  unfold S.weight
  simp only
  rw [sum_eq, sum_map_cast, length_expand xs ks hlen]

/-- `Sample.Bounds` with natural-number weights equals the bounds of the expanded sample: values
with weight zero are ignored. -/
theorem bounds_expand (xs : List Rat) (ks : List Nat) :
    S.bounds ⟨xs, some (ks.map fun (k : Nat) => (k : Rat)), false⟩ = S.bounds ⟨expand xs ks, none, false⟩ := by
  have hmem : ∀ y, y ∈ ((xs.zip (ks.map fun (k : Nat) => (k : Rat))).filter fun (_, w) => w != 0).map (·.1) ↔
      y ∈ expand xs ks := by
    intro y
    rw [mem_nz, mem_expand]
    constructor
    · rintro ⟨w, hm, hw⟩
      obtain ⟨k, hk, rfl⟩ := (mem_zip_cast _ _ _ _).1 hm
      exact ⟨k, hk, by simpa using hw⟩
    · rintro ⟨k, hk, hk0⟩
      exact ⟨(k : Rat), (mem_zip_cast _ _ _ _).2 ⟨k, hk, rfl⟩, by exact_mod_cast hk0⟩
  unfold S.bounds
  simp only [Bool.false_eq_true, if_false]
  by_cases hx : xs = []
  · subst hx; simp [expand_nil_left]
  · have hx' : xs.isEmpty = false := by simpa using hx
    simp only [hx', Bool.false_eq_true, if_false]
    rw [minL_congr _ _ hmem, maxL_congr _ _ hmem]
    by_cases he : expand xs ks = []
    · have : ((xs.zip (ks.map fun (k : Nat) => (k : Rat))).filter fun (_, w) => w != 0).map (·.1) = [] :=
        List.eq_nil_iff_forall_not_mem.2 fun y hy => by
          have := (hmem y).1 hy
          rw [he] at this
          simp at this
      rw [this, he]
    · have hne : ((xs.zip (ks.map fun (k : Nat) => (k : Rat))).filter fun (_, w) => w != 0).map (·.1) ≠ [] := by
        obtain ⟨y, hy⟩ := List.exists_mem_of_ne_nil _ he
        exact List.ne_nil_of_mem ((hmem y).2 hy)
      have h1 : (((xs.zip (ks.map fun (k : Nat) => (k : Rat))).filter fun (_, w) => w != 0).map (·.1)).isEmpty
          = false := by simpa using hne
      have h2 : (expand xs ks).isEmpty = false := by simpa using he
      rw [h1, h2]

example : wmeanSpec [5, 7, 9] [2, 0, 1] = meanSpec [5, 5, 9] :=
  wmeanSpec_expand [5, 7, 9] [2, 0, 1] rfl
example : S.total ⟨[5, 7, 9], some [2, 0, 1], true⟩ = sum [5, 5, 9] :=
  total_expand [5, 7, 9] [2, 0, 1] true
example : S.weight ⟨[5, 7, 9], some [2, 0, 1], true⟩ = 3 :=
  weight_expand [5, 7, 9] [2, 0, 1] rfl true
example : S.bounds ⟨[5, 7, 9, 11], some [2, 0, 1, 0], false⟩ = S.bounds ⟨[5, 5, 9], none, false⟩ :=
  bounds_expand [5, 7, 9, 11] [2, 0, 1, 0]
example : S.bounds ⟨[5, 7, 9, 11], some [2, 0, 1, 0], false⟩ = some (5, 9) := by decide +kernel

/-! ## A5: Sort -/

lemma insertP_perm (p : Rat × Rat) (l : List (Rat × Rat)) : (insertP p l).Perm (p :: l) := by
  induction l with
  | nil => simp [insertP]
  | cons q r ih =>
    unfold insertP
    split_ifs
    · exact List.Perm.refl _
    · exact (ih.cons q).trans (List.Perm.swap p q r)

/-- `sortP` returns a permutation of its input. -/
theorem sortP_perm (l : List (Rat × Rat)) : (sortP l).Perm l := by
  induction l with
  | nil => exact List.Perm.refl _
  | cons p l ih =>
    show (insertP p (sortP l)).Perm (p :: l)
    exact (insertP_perm p _).trans (ih.cons p)

lemma insertP_sorted (p : Rat × Rat) (l : List (Rat × Rat))
    (h : l.Pairwise (fun a b => a.1 ≤ b.1)) : (insertP p l).Pairwise (fun a b => a.1 ≤ b.1) := by
  induction l with
  | nil => simp [insertP]
  | cons q r ih =>
    rw [List.pairwise_cons] at h
    unfold insertP
    split_ifs with hpq
    · refine List.pairwise_cons.2 ⟨?_, List.pairwise_cons.2 h⟩
      intro a ha
      rcases List.mem_cons.1 ha with rfl | ha
      · exact hpq.le
      · exact hpq.le.trans (h.1 a ha)
    · refine List.pairwise_cons.2 ⟨?_, ih h.2⟩
      intro a ha
      rcases List.mem_cons.1 ((insertP_perm p r).mem_iff.1 ha) with rfl | ha
      · exact not_lt.1 hpq
      · exact h.1 a ha

/-- `sortP` returns a list ascending in the first (value) component. -/
theorem sortP_sorted (l : List (Rat × Rat)) : (sortP l).Pairwise (fun a b => a.1 ≤ b.1) := by
  induction l with
  | nil => exact List.Pairwise.nil
  | cons p l ih => exact insertP_sorted p _ ih

example : sortP [(3, 1), (1, 2), (2, 3), (1, 4)] = [(1, 4), (1, 2), (2, 3), (3, 1)] := by
  decide +kernel
/-- Remark: despite the doc comment of `sortP` in the model ("stable"), pairs with equal values come
out in REVERSED input order (elements are inserted from the right, after their equals). -/
example : sortP [(1, 2), (1, 4)] = [(1, 4), (1, 2)] := by decide +kernel
example : (sortP [(3, 1), (1, 2), (2, 3), (1, 4)]).Perm [(3, 1), (1, 2), (2, 3), (1, 4)] :=
  sortP_perm _
example : (sortP [(3, 1), (1, 2), (2, 3), (1, 4)]).Pairwise (fun a b => a.1 ≤ b.1) :=
  sortP_sorted _

lemma isAscending_iff (l : List Rat) : isAscending l = true ↔ l.Pairwise (· ≤ ·) := by
  induction l with
  | nil => simp [isAscending]
  | cons x l ih =>
    cases l with
    | nil => simp [isAscending]
    | cons y r =>
      simp only [isAscending, Bool.and_eq_true, decide_eq_true_eq, ih]
      constructor
      · rintro ⟨hxy, hp⟩
        refine List.pairwise_cons.2 ⟨?_, hp⟩
        intro z hz
        rcases List.mem_cons.1 hz with rfl | hz
        · exact hxy
        · exact hxy.trans ((List.pairwise_cons.1 hp).1 z hz)
      · intro hp
        rw [List.pairwise_cons] at hp
        exact ⟨hp.1 y (by simp), hp.2⟩

lemma pairwise_map_fst (l : List (Rat × Rat)) (h : l.Pairwise (fun a b => a.1 ≤ b.1)) :
    (l.map (·.1)).Pairwise (· ≤ ·) := by
  rw [List.pairwise_map]; exact h

/-- `Sort` always sets the `Sorted` flag. -/
lemma sort_sorted (s : S) : s.sort.sorted = true := by
  unfold S.sort
  split_ifs
  · rfl
  · cases s.ws <;> rfl

lemma sort_of_sorted (t : S) (h : t.sorted = true) : t.sort = t := by
  obtain ⟨xs, ws, b⟩ := t
  simp only at h
  subst h
  simp [S.sort]

/-- `Sort` is idempotent. -/
theorem sort_idem (s : S) : s.sort.sort = s.sort := sort_of_sorted _ (sort_sorted s)

example : (S.sort ⟨[3, 1, 2], some [5, 6, 7], false⟩).sort = S.sort ⟨[3, 1, 2], some [5, 6, 7], false⟩ :=
  sort_idem _

/-- After `Sort` the values are ascending and the flag is set, provided the flag of the input was
not lying.  (The length hypothesis is not needed for this conclusion.) -/
theorem sort_ascending' (s : S) (hflag : s.sorted = true → isAscending s.xs = true) :
    isAscending s.sort.xs = true ∧ s.sort.sorted = true := by
  refine ⟨?_, sort_sorted s⟩
  unfold S.sort
  split_ifs with h
  · rcases Bool.or_eq_true_iff.1 h with h | h
    · exact hflag h
    · exact h
  · cases s.ws with
    | none => exact (isAscending_iff _).2 (pairwise_map_fst _ (sortP_sorted _))
    | some ws => exact (isAscending_iff _).2 (pairwise_map_fst _ (sortP_sorted _))

example : isAscending (S.sort ⟨[3, 1, 2], some [5, 6], false⟩).xs = true ∧
    (S.sort ⟨[3, 1, 2], some [5, 6], false⟩).sorted = true :=
  sort_ascending' _ (by simp)

/-- After `Sort` the values are ascending and the flag is set, provided the flag of the input was
not lying. -/
theorem sort_ascending (s : S) (_hlen : ∀ ws, s.ws = some ws → ws.length = s.xs.length)
    (hflag : s.sorted = true → isAscending s.xs = true) :
    isAscending s.sort.xs = true ∧ s.sort.sorted = true := sort_ascending' s hflag

example : isAscending (S.sort ⟨[3, 1, 2], some [5, 6, 7], false⟩).xs = true ∧
    (S.sort ⟨[3, 1, 2], some [5, 6, 7], false⟩).sorted = true :=
  sort_ascending _ (by simp) (by simp)
example : (S.sort ⟨[3, 1, 2], some [5, 6, 7], false⟩).xs = [1, 2, 3] ∧
    (S.sort ⟨[3, 1, 2], some [5, 6, 7], false⟩).ws = some [6, 7, 5] := by
  decide +kernel

/-- The (value, weight) pairs of a sample (weight 1 when unweighted). -/
def S.pairs (s : S) : List (Rat × Rat) := s.xs.zip s.weightsD

lemma zip_map_one (l : List Rat) : l.zip (l.map fun _ => (1 : Rat)) = l.map fun x => (x, (1 : Rat)) := by
  induction l with
  | nil => rfl
  | cons x l ih => simp only [List.map_cons, List.zip_cons_cons, ih]

lemma map_fst_map_one (xs : List Rat) : (xs.map fun x => (x, (1 : Rat))).map (·.1) = xs := by
  induction xs with
  | nil => rfl
  | cons x xs ih => simp only [List.map_cons, ih]

/-- `Sort` permutes the (value, weight) pairs: every weight stays attached to its value. -/
theorem sort_pairs_perm (s : S) : s.sort.pairs.Perm s.pairs := by
  unfold S.sort
  split_ifs with h
  · exact List.Perm.refl _
  · obtain ⟨xs, ws, b⟩ := s
    cases ws with
    | none =>
      simp only [S.pairs, S.weightsD, Option.getD_none, zip_map_one]
      apply List.Perm.map
      have := (sortP_perm (xs.map fun x => (x, (1 : Rat)))).map (·.1)
      rw [map_fst_map_one] at this
      exact this
    | some ws =>
      simp only [S.pairs, S.weightsD, Option.getD_some]
      rw [← List.zip_of_prod rfl rfl]
      exact sortP_perm _

example : (S.sort ⟨[3, 1, 2], some [5, 6, 7], false⟩).pairs.Perm [(3, 5), (1, 6), (2, 7)] :=
  sort_pairs_perm ⟨[3, 1, 2], some [5, 6, 7], false⟩

/-- `Sort` permutes the values (for weighted samples: when there is a weight for every value). -/
theorem sort_xs_perm (s : S) (hlen : ∀ ws, s.ws = some ws → s.xs.length ≤ ws.length) :
    s.sort.xs.Perm s.xs := by
  unfold S.sort
  split_ifs with h
  · exact List.Perm.refl _
  · obtain ⟨xs, ws, b⟩ := s
    cases ws with
    | none =>
      have := (sortP_perm (xs.map fun x => (x, (1 : Rat)))).map (·.1)
      rw [map_fst_map_one] at this
      exact this
    | some ws =>
      have := (sortP_perm (xs.zip ws)).map (·.1)
      rw [List.map_fst_zip (hlen ws rfl)] at this
      exact this

example : (S.sort ⟨[3, 1, 2], some [5, 6, 7], false⟩).xs.Perm [3, 1, 2] :=
  sort_xs_perm ⟨[3, 1, 2], some [5, 6, 7], false⟩ (by simp)

/-! ## A6: the `Sorted` fast path of `Bounds` -/

lemma head!_eq_minL (l : List Rat) (h : l.Pairwise (· ≤ ·)) (hne : l ≠ []) : l.head! = minL l := by
  cases l with
  | nil => exact absurd rfl hne
  | cons x r =>
    symm
    apply minL_unique
    · simp
    · intro y hy
      rcases List.mem_cons.1 hy with rfl | hy
      · exact le_rfl
      · exact (List.pairwise_cons.1 h).1 y hy

lemma getLast!_eq_getLast (l : List Rat) (hne : l ≠ []) : l.getLast! = l.getLast hne :=
  List.getLast!_of_getLast? (List.getLast?_eq_some_getLast hne)

lemma getLast!_eq_maxL (l : List Rat) (h : l.Pairwise (· ≤ ·)) (hne : l ≠ []) :
    l.getLast! = maxL l := by
  rw [getLast!_eq_getLast l hne]
  symm
  apply maxL_unique
  · exact List.getLast_mem hne
  · intro y hy
    have hsplit := List.dropLast_concat_getLast hne
    rw [← hsplit] at h hy
    rcases List.mem_append.1 hy with hy | hy
    · exact (List.pairwise_append.1 h).2.2 y hy _ (by simp)
    · simp at hy; exact hy.le

lemma map_fst_zip_sublist (xs ws : List Rat) : ((xs.zip ws).map (·.1)).Sublist xs := by
  induction xs generalizing ws with
  | nil => simp
  | cons x xs ih =>
    cases ws with
    | nil => simp
    | cons w ws => simpa using ih ws

lemma nz_sublist (xs ws : List Rat) :
    (((xs.zip ws).filter fun (_, w) => w != 0).map (·.1)).Sublist xs :=
  ((List.filter_sublist).map _).trans (map_fst_zip_sublist xs ws)

/-- On ascending data the `Sorted` fast path of `Bounds` (first/last element) returns the same as
the general path (min/max), unweighted or weighted. -/
theorem bounds_sorted_flag (s : S) (h : isAscending s.xs = true) :
    S.bounds { s with sorted := true } = S.bounds { s with sorted := false } := by
  obtain ⟨xs, ws, b⟩ := s
  simp only at h
  rw [isAscending_iff] at h
  unfold S.bounds
  simp only [Bool.false_eq_true, if_false, if_true]
  by_cases hx : xs = []
  · subst hx; simp
  · have hx' : xs.isEmpty = false := by simpa using hx
    simp only [hx', Bool.false_eq_true, if_false]
    cases ws with
    | none => simp only; rw [head!_eq_minL xs h hx, getLast!_eq_maxL xs h hx]
    | some ws =>
      simp only
      split_ifs with hnz
      · rfl
      · have hne : ((xs.zip ws).filter fun (_, w) => w != 0).map (·.1) ≠ [] := by
          simpa using hnz
        have hp := h.sublist (nz_sublist xs ws)
        rw [head!_eq_minL _ hp hne, getLast!_eq_maxL _ hp hne]

example : S.bounds ⟨[1, 2, 2, 5], some [0, 1, 3, 0], true⟩ =
    S.bounds ⟨[1, 2, 2, 5], some [0, 1, 3, 0], false⟩ :=
  bounds_sorted_flag ⟨[1, 2, 2, 5], some [0, 1, 3, 0], true⟩ (by decide +kernel)
example : S.bounds ⟨[1, 2, 2, 5], none, true⟩ = S.bounds ⟨[1, 2, 2, 5], none, false⟩ :=
  bounds_sorted_flag ⟨[1, 2, 2, 5], none, false⟩ (by decide +kernel)

/-! ## A7: `linspace` -/

/-- `linspace lo hi n` has exactly `n` points. -/
theorem linspace_length (lo hi : Rat) (n : Nat) : (linspace lo hi n).length = n := by
  unfold linspace
  split_ifs with h
  · simp [h]
  · simp

lemma linspace_getElem? (lo hi : Rat) (n i : Nat) (hn : 2 ≤ n) (hi' : i < n) :
    (linspace lo hi n)[i]? = some (lo + (i : Rat) * (hi - lo) / ((n : Rat) - 1)) := by
  unfold linspace
  have h1 : n ≠ 1 := by omega
  simp only [h1, if_false]
  rw [List.getElem?_map, List.getElem?_range hi']
  simp only [Option.map_some]
  have : ((n - 1 : Nat) : Rat) = (n : Rat) - 1 := by
    rw [Nat.cast_sub (by omega)]; simp
  rw [this]

/-- The first point of `linspace` is `lo` (for `n ≥ 1`). -/
theorem linspace_head (lo hi : Rat) (n : Nat) (hn : 1 ≤ n) : (linspace lo hi n).head? = some lo := by
  by_cases h1 : n = 1
  · subst h1; simp [linspace]
  · rw [List.head?_eq_getElem?, linspace_getElem? lo hi n 0 (by omega) (by omega)]
    simp

/-- The last point of `linspace` is `hi` (for `n ≥ 2`). -/
theorem linspace_last (lo hi : Rat) (n : Nat) (hn : 2 ≤ n) : (linspace lo hi n).getLast? = some hi := by
  rw [List.getLast?_eq_getElem?, linspace_length, linspace_getElem? lo hi n (n - 1) hn (by omega)]
  have hne : (n : Rat) - 1 ≠ 0 := by
    have : (2 : Rat) ≤ (n : Rat) := by exact_mod_cast hn
    linarith
  have : ((n - 1 : Nat) : Rat) = (n : Rat) - 1 := by
    rw [Nat.cast_sub (by omega)]; simp
  rw [this]
  congr 1
  field_simp
  ring

/-- Consecutive points of `linspace` all differ by `(hi - lo) / (n - 1)`. -/
theorem linspace_diff (lo hi : Rat) (n i : Nat) (hi' : i + 1 < n) :
    (linspace lo hi n).getD (i + 1) 0 - (linspace lo hi n).getD i 0 = (hi - lo) / ((n : Rat) - 1) := by
  rw [List.getD_eq_getElem?_getD, List.getD_eq_getElem?_getD,
    linspace_getElem? lo hi n (i + 1) (by omega) hi', linspace_getElem? lo hi n i (by omega) (by omega)]
  simp only [Option.getD_some]
  push_cast
  ring

example : linspace 1 3 5 = [1, 3 / 2, 2, 5 / 2, 3] := by decide +kernel
example : (linspace 1 3 5).length = 5 ∧ (linspace 1 3 5).head? = some 1 ∧
    (linspace 1 3 5).getLast? = some 3 ∧
    (linspace 1 3 5).getD 3 0 - (linspace 1 3 5).getD 2 0 = (3 - 1) / ((5 : Nat) - 1) :=
  ⟨linspace_length _ _ _, linspace_head _ _ _ (by omega), linspace_last _ _ _ (by omega),
    linspace_diff 1 3 5 2 (by omega)⟩

end MV.Sample
