import MV.Props.FactsLib
/-! Structural facts C09 relies on, re-extracted from /repo on every run. -/
namespace MV.Facts

/-- State that outlives a call, as extracted from the source on this run: the package-level
variables of the packages this property's code lives in, the functions (other than `init`) that
assign to them or call methods on them, and the fields of the property's struct types. The model is
a pure function of the arguments and of these fields; a new variable, writer or field is state the
model does not know of. The digest-valued `shape:` entry covers everything the call graph
(resolved by go/types) reaches from the functions declared in the property's anchor files: per
function, method (with receiver kind), package variable and constant, its numeric literals, its comparison operators, the
package variables it reads and its writes through parameters or the receiver (including in-place
`sort.*`/`copy`/`append`). The entries behind the digest are in `shape_expected.txt` and in a
comment of the generated file. -/
def stateC09 : List (String × String) := [("globals:stats", "ErrMismatchedSamples ErrSampleSize ErrSamplesEqual ErrZeroVariance MannWhitneyExactLimit MannWhitneyTiesExactLimit StdNormal _KDEBoundaryMethod_index _KDEKernel_index _LocationHypothesis_index inf nan quantileCIApproxThreshold"), ("globals:vec", ""), ("globalwrites:stats", "MannWhitneyUTest:StdNormal.CDF"), ("globalwrites:vec", ""), ("fields:stats.Sample", "Xs:[]float64 Weights:[]float64 Sorted:bool"), ("fields:stats.sampleSorter", "xs:[]float64 weights:[]float64"), ("shape:C09", "n=80 fnv64a=97f898572a73f48c")]

/-- the source has exactly the package-level variables, writers and struct fields the model accounts for -/
theorem state_C09 : holdsAll stateC09 = true := by decide +kernel

end MV.Facts
