import Mathlib.Tactic
import MV.Props.C09
/-!
# C10 — quantiles: Hyndman–Fan type 8 (`r8`), `Sample.Quantile`, weighted quantile
-/
namespace MV.Sample

/-! ## order statistics on ascending lists -/

lemma getD_eq (xs : List Rat) (i : Nat) (hi : i < xs.length) : xs.getD i 0 = xs[i] := by
  rw [List.getD_eq_getElem?_getD, List.getElem?_eq_getElem hi]; rfl

lemma asc_getD (xs : List Rat) (h : xs.Pairwise (· ≤ ·)) (i j : Nat) (hij : i ≤ j)
    (hj : j < xs.length) : xs.getD i 0 ≤ xs.getD j 0 := by
  rw [getD_eq _ _ hj, getD_eq _ _ (lt_of_le_of_lt hij hj)]
  rcases Nat.eq_or_lt_of_le hij with rfl | hlt
  · exact le_rfl
  · exact List.pairwise_iff_getElem.1 h i j _ hj hlt

lemma head!_eq_getD (xs : List Rat) (hne : xs ≠ []) : xs.head! = xs.getD 0 0 := by
  cases xs with
  | nil => exact absurd rfl hne
  | cons x r => simp

lemma getLast!_eq_getD (xs : List Rat) (hne : xs ≠ []) :
    xs.getLast! = xs.getD (xs.length - 1) 0 := by
  have hl : 0 < xs.length := List.length_pos_of_ne_nil hne
  rw [getLast!_eq_getLast xs hne, List.getLast_eq_getElem, getD_eq _ _ (by omega)]

/-- 1-based order statistic `x_(j)` with the index clamped to `[1, n]`. -/
def ordC (xs : List Rat) (j : Int) : Rat :=
  xs.getD ((max 1 (min j (xs.length : Int))).toNat - 1) 0

lemma ordC_mono (xs : List Rat) (h : xs.Pairwise (· ≤ ·)) (hne : xs ≠ []) (j j' : Int)
    (hjj : j ≤ j') : ordC xs j ≤ ordC xs j' := by
  have hl : 0 < xs.length := List.length_pos_of_ne_nil hne
  unfold ordC
  apply asc_getD xs h <;> omega

/-- `r8` as a function of the real position `h = 1/3 + q (n + 1/3)`. -/
def r8h (xs : List Rat) (h : Rat) : Rat :=
  if h.floor ≤ 0 then xs.head!
  else if h.floor ≥ (xs.length : Int) then xs.getLast!
  else xs.getD (h.floor.toNat - 1) 0 +
    (h - h.floor) * (xs.getD h.floor.toNat 0 - xs.getD (h.floor.toNat - 1) 0)

lemma r8_eq_r8h (xs : List Rat) (q : Rat) :
    r8 xs q = r8h xs (1 / 3 + q * ((xs.length : Rat) + 1 / 3)) := rfl

lemma floor_le' (h : Rat) : (h.floor : Rat) ≤ h := Int.floor_le h
lemma lt_floor_add_one' (h : Rat) : h < (h.floor : Rat) + 1 := Int.lt_floor_add_one h
lemma floor_mono' {h h' : Rat} (hh : h ≤ h') : h.floor ≤ h'.floor := Int.floor_mono hh

/-- `x_(⌊h⌋) ≤ r8h h ≤ x_(⌊h⌋+1)` with clamped order statistics. -/
lemma r8h_bracket (xs : List Rat) (hasc : xs.Pairwise (· ≤ ·)) (hne : xs ≠ []) (h : Rat) :
    ordC xs h.floor ≤ r8h xs h ∧ r8h xs h ≤ ordC xs (h.floor + 1) := by
  have hl : 0 < xs.length := List.length_pos_of_ne_nil hne
  unfold r8h
  split_ifs with h1 h2
  · rw [head!_eq_getD xs hne]
    unfold ordC
    have e1 : (max 1 (min h.floor (xs.length : Int))).toNat - 1 = 0 := by omega
    have e2 : (max 1 (min (h.floor + 1) (xs.length : Int))).toNat - 1 = 0 := by omega
    rw [e1, e2]
    exact ⟨le_rfl, le_rfl⟩
  · rw [getLast!_eq_getD xs hne]
    unfold ordC
    have e1 : (max 1 (min h.floor (xs.length : Int))).toNat - 1 = xs.length - 1 := by omega
    have e2 : (max 1 (min (h.floor + 1) (xs.length : Int))).toNat - 1 = xs.length - 1 := by omega
    rw [e1, e2]
    exact ⟨le_rfl, le_rfl⟩
  · unfold ordC
    have e1 : (max 1 (min h.floor (xs.length : Int))).toNat - 1 = h.floor.toNat - 1 := by omega
    have e2 : (max 1 (min (h.floor + 1) (xs.length : Int))).toNat - 1 = h.floor.toNat := by omega
    rw [e1, e2]
    have hab : xs.getD (h.floor.toNat - 1) 0 ≤ xs.getD h.floor.toNat 0 :=
      asc_getD xs hasc _ _ (by omega) (by omega)
    have t0 : 0 ≤ h - (h.floor : Rat) := sub_nonneg.2 (floor_le' h)
    have t1 : h - (h.floor : Rat) ≤ 1 := by linarith [lt_floor_add_one' h]
    constructor
    · have := mul_nonneg t0 (sub_nonneg.2 hab)
      linarith
    · have := mul_le_mul_of_nonneg_right t1 (sub_nonneg.2 hab)
      linarith

lemma r8h_mono (xs : List Rat) (hasc : xs.Pairwise (· ≤ ·)) (hne : xs ≠ []) (h h' : Rat)
    (hh : h ≤ h') : r8h xs h ≤ r8h xs h' := by
  have hk : h.floor ≤ h'.floor := floor_mono' hh
  rcases eq_or_lt_of_le hk with heq | hlt
  · unfold r8h
    rw [← heq]
    split_ifs with h1 h2
    · exact le_rfl
    · exact le_rfl
    · have hl : 0 < xs.length := List.length_pos_of_ne_nil hne
      have hab : xs.getD (h.floor.toNat - 1) 0 ≤ xs.getD h.floor.toNat 0 :=
        asc_getD xs hasc _ _ (by omega) (by omega)
      have := mul_le_mul_of_nonneg_right (sub_le_sub_right hh (h.floor : Rat)) (sub_nonneg.2 hab)
      linarith
  · calc r8h xs h ≤ ordC xs (h.floor + 1) := (r8h_bracket xs hasc hne h).2
      _ ≤ ordC xs h'.floor := ordC_mono xs hasc hne _ _ (by omega)
      _ ≤ r8h xs h' := (r8h_bracket xs hasc hne h').1

/-! ## Q1: `r8` -/

/-- On ascending non-empty data the R8 quantile lies between the first and the last element
(for every `q`, in particular for `0 < q < 1`). -/
theorem r8_bounds (xs : List Rat) (hasc : isAscending xs = true) (hne : xs ≠ []) (q : Rat) :
    xs.head! ≤ r8 xs q ∧ r8 xs q ≤ xs.getLast! := by
  rw [isAscending_iff] at hasc
  have hl : 0 < xs.length := List.length_pos_of_ne_nil hne
  rw [r8_eq_r8h]
  obtain ⟨h1, h2⟩ := r8h_bracket xs hasc hne (1 / 3 + q * ((xs.length : Rat) + 1 / 3))
  rw [head!_eq_getD xs hne, getLast!_eq_getD xs hne]
  constructor
  · refine le_trans ?_ h1
    unfold ordC
    exact asc_getD xs hasc _ _ (by omega) (by omega)
  · refine le_trans h2 ?_
    unfold ordC
    exact asc_getD xs hasc _ _ (by omega) (by omega)

example : (2 : Rat) ≤ r8 [2, 3, 5, 9] (1 / 2) ∧ r8 [2, 3, 5, 9] (1 / 2) ≤ 9 :=
  r8_bounds [2, 3, 5, 9] (by decide +kernel) (by simp) (1 / 2)

/-- On ascending non-empty data the R8 quantile is non-decreasing in `q` (in particular across the
break points where the interpolation switches segment). -/
theorem r8_mono (xs : List Rat) (hasc : isAscending xs = true) (hne : xs ≠ []) (q q' : Rat)
    (hq : q ≤ q') : r8 xs q ≤ r8 xs q' := by
  rw [isAscending_iff] at hasc
  rw [r8_eq_r8h, r8_eq_r8h]
  apply r8h_mono xs hasc hne
  have : (0 : Rat) ≤ (xs.length : Rat) + 1 / 3 := by positivity
  have := mul_le_mul_of_nonneg_right hq this
  linarith

example : r8 [2, 3, 5, 9] (1 / 4) ≤ r8 [2, 3, 5, 9] (3 / 4) :=
  r8_mono [2, 3, 5, 9] (by decide +kernel) (by simp) _ _ (by norm_num)
example : r8 [2, 3, 5, 9] (1 / 4) = 29 / 12 ∧ r8 [2, 3, 5, 9] (3 / 4) = 22 / 3 := by
  decide +kernel

/-- 1-based order statistic `x_(j)` of a list (0 outside the range). -/
def ord (xs : List Rat) (j : Nat) : Rat := xs.getD (j - 1) 0

/-- Definition of the type-8 quantile: with `h = (n + 1/3) q + 1/3`, if `1 ≤ ⌊h⌋ < n` then
`r8 xs q = x_(⌊h⌋) + (h - ⌊h⌋) (x_(⌊h⌋+1) - x_(⌊h⌋))` on 1-based order statistics; the value is the
first element if `⌊h⌋ < 1` and the last element if `⌊h⌋ ≥ n`. -/
theorem r8_def (xs : List Rat) (q : Rat) :
    let n : Nat := xs.length
    let h : Rat := ((n : Rat) + 1 / 3) * q + 1 / 3
    (1 ≤ ⌊h⌋ → ⌊h⌋ < (n : Int) →
      r8 xs q = ord xs ⌊h⌋.toNat + (h - (⌊h⌋ : Rat)) * (ord xs (⌊h⌋.toNat + 1) - ord xs ⌊h⌋.toNat)) ∧
    (⌊h⌋ < 1 → r8 xs q = xs.head!) ∧
    ((n : Int) ≤ ⌊h⌋ → r8 xs q = xs.getLast!) := by
  intro n h
  have hh : 1 / 3 + q * ((xs.length : Rat) + 1 / 3) = h := by simp only [h, n]; ring
  have hf : ⌊h⌋ = h.floor := rfl
  rw [r8_eq_r8h, hh, hf]
  unfold r8h ord
  refine ⟨fun h1 h2 => ?_, fun h1 => ?_, fun h1 => ?_⟩
  · rw [if_neg (by omega), if_neg (by omega)]
    simp
  · rw [if_pos (by omega)]
  · by_cases h2 : 1 ≤ h.floor
    · rw [if_neg (by omega), if_pos (by omega)]
    · have hn : xs.length = 0 := by omega
      have : xs = [] := List.length_eq_zero_iff.1 hn
      subst this
      rw [if_pos (by omega)]
      rfl

example : r8 [2, 3, 5, 9] (1 / 2) = 3 + (1 / 2) * (5 - 3) := by decide +kernel
example : r8 [2, 3, 5, 9] (1 / 2) = ord [2, 3, 5, 9] 2 + ((4 + 1 / 3) * (1 / 2) + 1 / 3 - 2) *
    (ord [2, 3, 5, 9] 3 - ord [2, 3, 5, 9] 2) := by
  have hfl : ⌊(((4 : Nat) : Rat) + 1 / 3) * (1 / 2) + 1 / 3⌋ = 2 := by
    rw [Int.floor_eq_iff]; norm_num
  have := (r8_def [2, 3, 5, 9] (1 / 2)).1
  simp only [List.length_cons, List.length_nil, Nat.reduceAdd, hfl] at this
  have := this (by norm_num) (by norm_num)
  rw [this]
  norm_num [Int.toNat]
example : r8 [2, 3, 5, 9] (1 / 100) = 2 ∧ r8 [2, 3, 5, 9] (99 / 100) = 9 := by decide +kernel

/-! ## Q2/Q3: `Sample.Quantile` -/

lemma sort_none_ws (xs : List Rat) (b : Bool) : (S.sort ⟨xs, none, b⟩).ws = none := by
  unfold S.sort
  split_ifs <;> rfl

lemma sort_none_xs_asc (xs : List Rat) : (S.sort ⟨xs, none, false⟩).xs.Pairwise (· ≤ ·) := by
  rw [← isAscending_iff]
  exact (sort_ascending' ⟨xs, none, false⟩ (by simp)).1

lemma sort_none_xs_perm (xs : List Rat) : (S.sort ⟨xs, none, false⟩).xs.Perm xs :=
  sort_xs_perm ⟨xs, none, false⟩ (by simp)

lemma quantile_none_false (xs : List Rat) (q : Rat) :
    S.quantile ⟨xs, none, false⟩ q =
      if xs.isEmpty then none
      else if q ≤ 0 then some (minL xs)
      else if q ≥ 1 then some (maxL xs)
      else some (r8 (S.sort ⟨xs, none, false⟩).xs q) := by
  unfold S.quantile
  simp only [S.bounds, Bool.false_eq_true, if_false]
  split_ifs with h1 h2 h3
  · rfl
  · rfl
  · rfl
  · have := sort_none_ws xs false
    generalize S.sort ⟨xs, none, false⟩ = t at this ⊢
    obtain ⟨txs, tws, tb⟩ := t
    simp only at this
    subst this
    rfl

lemma quantile_none_true (xs : List Rat) (q : Rat) :
    S.quantile ⟨xs, none, true⟩ q =
      if xs.isEmpty then none
      else if q ≤ 0 then some xs.head!
      else if q ≥ 1 then some xs.getLast!
      else some (r8 xs q) := by
  unfold S.quantile
  simp only [S.bounds, if_true]
  split_ifs <;> rfl

/-- End points of `Quantile` for non-empty unweighted samples: `q ≤ 0` gives the minimum and
`q ≥ 1` the maximum, both on the general path (`sorted = false`) and, for ascending data, on the
fast path (`sorted = true`). -/
theorem quantile_ends (xs : List Rat) (hne : xs ≠ []) (q : Rat) :
    (q ≤ 0 → S.quantile ⟨xs, none, false⟩ q = some (minL xs)) ∧
    (1 ≤ q → S.quantile ⟨xs, none, false⟩ q = some (maxL xs)) ∧
    (isAscending xs = true →
      (q ≤ 0 → S.quantile ⟨xs, none, true⟩ q = some (minL xs)) ∧
      (1 ≤ q → S.quantile ⟨xs, none, true⟩ q = some (maxL xs))) := by
  have he : xs.isEmpty = false := by simpa using hne
  refine ⟨fun h => ?_, fun h => ?_, fun hasc => ⟨fun h => ?_, fun h => ?_⟩⟩
  · rw [quantile_none_false, he]; simp [h]
  · have h0 : ¬ q ≤ 0 := by linarith
    rw [quantile_none_false, he]; simp [h0, h]
  · rw [isAscending_iff] at hasc
    rw [quantile_none_true, he, head!_eq_minL xs hasc hne]; simp [h]
  · rw [isAscending_iff] at hasc
    have h0 : ¬ q ≤ 0 := by linarith
    rw [quantile_none_true, he, getLast!_eq_maxL xs hasc hne]; simp [h0, h]

example : S.quantile ⟨[3, 1, 2], none, false⟩ 0 = some 1 ∧
    S.quantile ⟨[3, 1, 2], none, false⟩ 1 = some 3 := by
  have := quantile_ends [3, 1, 2] (by simp)
  exact ⟨by rw [(this 0).1 le_rfl]; decide +kernel, by rw [(this 1).2.1 le_rfl]; decide +kernel⟩

/-- `Quantile` of an unweighted, not-flagged sample does not depend on the order of the data. -/
theorem quantile_perm {xs ys : List Rat} (h : xs.Perm ys) (q : Rat) :
    S.quantile ⟨xs, none, false⟩ q = S.quantile ⟨ys, none, false⟩ q := by
  rw [quantile_none_false, quantile_none_false, minL_perm h, maxL_perm h]
  have he : xs.isEmpty = ys.isEmpty := by
    cases xs <;> cases ys <;> simp_all
  have hs : (S.sort ⟨xs, none, false⟩).xs = (S.sort ⟨ys, none, false⟩).xs :=
    List.Perm.eq_of_pairwise' (sort_none_xs_asc xs) (sort_none_xs_asc ys)
      ((sort_none_xs_perm xs).trans (h.trans (sort_none_xs_perm ys).symm))
  rw [he, hs]

example : S.quantile ⟨[3, 1, 4, 2], none, false⟩ (1 / 3) = S.quantile ⟨[1, 2, 3, 4], none, false⟩ (1 / 3) :=
  quantile_perm (by decide) _
example : S.quantile ⟨[3, 1, 4, 2], none, false⟩ (1 / 3) = some (16 / 9) := by decide +kernel

/-- On ascending data the `Sorted` flag does not change `Quantile` (unweighted). -/
theorem quantile_sorted_flag (xs : List Rat) (hasc : isAscending xs = true) (q : Rat) :
    S.quantile ⟨xs, none, true⟩ q = S.quantile ⟨xs, none, false⟩ q := by
  rw [quantile_none_false, quantile_none_true]
  by_cases hne : xs = []
  · subst hne; rfl
  · have hs : (S.sort ⟨xs, none, false⟩).xs = xs := by
      unfold S.sort; simp [hasc]
    rw [isAscending_iff] at hasc
    rw [hs, head!_eq_minL xs hasc hne, getLast!_eq_maxL xs hasc hne]

example : S.quantile ⟨[1, 2, 3, 4], none, true⟩ (1 / 3) = S.quantile ⟨[1, 2, 3, 4], none, false⟩ (1 / 3) :=
  quantile_sorted_flag _ (by decide +kernel) _

/-- `Quantile` of an empty sample is NaN. -/
theorem quantile_empty (w : Option (List Rat)) (b : Bool) (q : Rat) :
    S.quantile ⟨[], w, b⟩ q = none := by
  unfold S.quantile; rfl

example : S.quantile ⟨[], some [1], true⟩ (1 / 2) = none := quantile_empty _ _ _

/-! ## Q4: weighted quantile -/

/-- cumulative weight of the first `m` pairs -/
def cumw (ps : List (Rat × Rat)) (m : Nat) : Rat := ((ps.take m).map (·.2)).sum

lemma cumw_zero (ps : List (Rat × Rat)) : cumw ps 0 = 0 := by simp [cumw]
lemma cumw_cons_succ (p : Rat × Rat) (ps : List (Rat × Rat)) (m : Nat) :
    cumw (p :: ps) (m + 1) = p.2 + cumw ps m := by simp [cumw]

lemma go_spec (r : List (Rat × Rat)) (t last : Rat) :
    (∀ i (hi : i < r.length), (∀ j < i, cumw r (j + 1) ≤ t) → t < cumw r (i + 1) →
      wquant.go r t last = r[i].1) ∧
    ((∀ j < r.length, cumw r (j + 1) ≤ t) →
      wquant.go r t last = (r.getLast?.map (·.1)).getD last) := by
  induction r generalizing t last with
  | nil => simp [wquant.go]
  | cons p r ih =>
    obtain ⟨x, w⟩ := p
    constructor
    · intro i hi hbefore hat
      cases i with
      | zero =>
        rw [cumw_cons_succ, cumw_zero] at hat
        simp only [add_zero] at hat
        have : t - w < 0 := by linarith
        simp [wquant.go, this]
      | succ i =>
        have h0 := hbefore 0 (by omega)
        rw [cumw_cons_succ, cumw_zero] at h0
        simp only [add_zero] at h0
        have hnot : ¬ t - w < 0 := by linarith
        simp only [wquant.go, hnot, if_false, List.getElem_cons_succ]
        apply (ih (t - w) x).1 i (by simpa using hi)
        · intro j hj
          have := hbefore (j + 1) (by omega)
          rw [cumw_cons_succ] at this
          simp only at this
          linarith
        · rw [cumw_cons_succ] at hat
          simp only at hat
          linarith
    · intro hall
      have h0 := hall 0 (by simp)
      rw [cumw_cons_succ, cumw_zero] at h0
      simp only [add_zero] at h0
      have hnot : ¬ t - w < 0 := by linarith
      simp only [wquant.go, hnot, if_false]
      rw [(ih (t - w) x).2]
      · cases r with
        | nil => simp
        | cons p' r' =>
          rw [List.getLast?_cons_cons, List.getLast?_eq_some_getLast (List.cons_ne_nil p' r')]
          simp
      · intro j hj
        have := hall (j + 1) (by simpa using hj)
        rw [cumw_cons_succ] at this
        simp only at this
        linarith

/-- Specification of the weighted quantile scan: `wquant ps t` is the value of the first pair at
which the inclusive cumulative weight exceeds `t`; if no cumulative weight exceeds `t` it is the
last value; and it is `0` on the empty list.  (No sign condition on the weights is needed for
this "first index" form; see `wquant_spec_pos` for the bracketing form with positive weights.) -/
theorem wquant_spec (ps : List (Rat × Rat)) (t : Rat) :
    (ps = [] → wquant ps t = 0) ∧
    (∀ i (hi : i < ps.length), (∀ j < i, cumw ps (j + 1) ≤ t) → t < cumw ps (i + 1) →
      wquant ps t = ps[i].1) ∧
    (∀ hne : ps ≠ [], (∀ j < ps.length, cumw ps (j + 1) ≤ t) →
      wquant ps t = (ps.getLast hne).1) := by
  refine ⟨?_, ?_, ?_⟩
  · rintro rfl; rfl
  · exact (go_spec ps t 0).1
  · intro hne hall
    show wquant.go ps t 0 = _
    rw [(go_spec ps t 0).2 hall, List.getLast?_eq_some_getLast hne]
    rfl

example : wquant [(1, 2), (4, -1), (6, 3)] (3 / 2) = 1 :=
  (wquant_spec [(1, 2), (4, -1), (6, 3)] (3 / 2)).2.1 0 (by simp) (by simp) (by decide +kernel)
example : wquant [] 5 = 0 := (wquant_spec [] 5).1 rfl

lemma cumw_succ (ps : List (Rat × Rat)) (m : Nat) (hm : m < ps.length) :
    cumw ps (m + 1) = cumw ps m + ps[m].2 := by
  unfold cumw
  rw [List.take_add_one, List.getElem?_eq_getElem hm, List.map_append, List.sum_append]
  simp

lemma cumw_mono (ps : List (Rat × Rat)) (hpos : ∀ p ∈ ps, 0 < p.2) (a b : Nat) (hab : a ≤ b)
    (hb : b ≤ ps.length) : cumw ps a ≤ cumw ps b := by
  induction b with
  | zero =>
    have : a = 0 := by omega
    subst this; exact le_rfl
  | succ b ih =>
    rcases Nat.eq_or_lt_of_le hab with rfl | hlt
    · exact le_rfl
    · have := ih (by omega) (by omega)
      rw [cumw_succ ps b (by omega)]
      have := hpos ps[b] (List.getElem_mem _)
      linarith

/-- With positive weights: if `cumw i ≤ t < cumw (i+1)` then `wquant ps t` is the `i`-th value,
and if `t` is at least the total weight it is the last value. -/
theorem wquant_spec_pos (ps : List (Rat × Rat)) (hpos : ∀ p ∈ ps, 0 < p.2) (t : Rat) :
    (∀ i (hi : i < ps.length), cumw ps i ≤ t → t < cumw ps (i + 1) → wquant ps t = ps[i].1) ∧
    (∀ hne : ps ≠ [], cumw ps ps.length ≤ t → wquant ps t = (ps.getLast hne).1) := by
  obtain ⟨_, h2, h3⟩ := wquant_spec ps t
  constructor
  · intro i hi hle hlt
    apply h2 i hi _ hlt
    intro j hj
    exact (cumw_mono ps hpos (j + 1) i (by omega) (by omega)).trans hle
  · intro hne hle
    apply h3 hne
    intro j hj
    exact (cumw_mono ps hpos (j + 1) ps.length (by omega) le_rfl).trans hle

example : wquant [(1, 2), (4, 1), (6, 3)] (5 / 2) = 4 :=
  (wquant_spec_pos [(1, 2), (4, 1), (6, 3)] (by decide +kernel) (5 / 2)).1 1 (by simp)
    (by decide +kernel) (by decide +kernel)
example : wquant [(1, 2), (4, 1), (6, 3)] 6 = 6 :=
  (wquant_spec_pos [(1, 2), (4, 1), (6, 3)] (by decide +kernel) 6).2 (by simp) (by decide +kernel)

end MV.Sample
