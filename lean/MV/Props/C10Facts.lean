import MV.Props.FactsLib
/-! Source facts the C10 model relies on (checked against the facts regenerated from /repo on every run). -/
namespace MV.Facts

def expectedC10 : List (String × String) := [("lits:stats.Sample.Quantile", "0 0 0 0 0 1 1 1 1 1 1 1 3.0 3.0")]

/-- the constants and literals the C10 model mirrors are still what the source says -/
theorem facts_C10 : holdsAll expectedC10 = true := by decide

end MV.Facts
