import Mathlib.Tactic
import MV.Model.QCI
import MV.Props.C06
/-!
# C11 — greedy quantile confidence interval (exact rational model)

`R := qci n q c`.  We prove: ordering/bounds of the interval (G1), the reported confidence is
exactly the binomial mass of the interval (G2), it reaches the requested confidence unless the
interval is the whole range (G3), it contains the mode `startBucket` which is a true mode (G4),
the last bucket added was needed (G5), nesting in `c` (G6) and the meaning of the `amb` flag (G7).

None of the results needs `n ≥ 1`; they hold for every `n`.
-/
namespace MV.QCI
open MV.Discrete Finset

/-! ## `mass` -/

lemma mass_eq_sum (n : Nat) (q : ℚ) (l r : Int) :
    mass n q l r = ∑ i ∈ range (r - l).toNat, binomPMF n q (l + (i : Int)) := by
  unfold mass
  exact foldl_add_eq_sum (fun i : Nat => binomPMF n q (l + (i : Int))) _

lemma mass_self (n : Nat) (q : ℚ) (l : Int) : mass n q l l = 0 := by
  rw [mass_eq_sum]; simp

lemma mass_succ_right (n : Nat) (q : ℚ) (l r : Int) (h : l ≤ r) :
    mass n q l (r + 1) = mass n q l r + binomPMF n q r := by
  rw [mass_eq_sum, mass_eq_sum]
  have e : (r + 1 - l).toNat = (r - l).toNat + 1 := by omega
  rw [e, sum_range_succ]
  have e2 : l + (((r - l).toNat : Nat) : Int) = r := by omega
  rw [e2]

lemma mass_pred_left (n : Nat) (q : ℚ) (l r : Int) (h : l ≤ r) :
    mass n q (l - 1) r = binomPMF n q (l - 1) + mass n q l r := by
  rw [mass_eq_sum, mass_eq_sum]
  have e : (r - (l - 1)).toNat = (r - l).toNat + 1 := by omega
  rw [e, sum_range_succ', add_comm]
  congr 1
  · simp
  · apply sum_congr rfl
    intro i _
    congr 1
    push_cast
    ring

lemma mass_single (n : Nat) (q : ℚ) (x : Int) : mass n q x (x + 1) = binomPMF n q x := by
  rw [mass_succ_right n q x x le_rfl, mass_self, zero_add]

lemma mass_shift (n : Nat) (q : ℚ) (l r : Int) (h : l ≤ r) :
    mass n q (l + 1) (r + 1) = mass n q l r - binomPMF n q l + binomPMF n q r := by
  have h1 := mass_succ_right n q l r h
  have h2 := mass_pred_left n q (l + 1) (r + 1) (by omega)
  rw [show l + 1 - 1 = l by ring] at h2
  linarith

lemma mass_full (n : Nat) (q : ℚ) : mass n q 0 ((n : Int) + 1) = 1 := by
  rw [mass_eq_sum]
  have e : ((n : Int) + 1 - 0).toNat = n + 1 := by omega
  rw [e, ← binomPMF_sum n q]
  apply sum_congr rfl
  intro i _
  rw [zero_add]

/-! ## the loop -/

lemma loop_succ (n : Nat) (q c : ℚ) (f : Nat) (l r : Int) (acc : ℚ) (amb : Bool) :
    loop n q c (f + 1) l r acc amb =
      if acc < c ∧ (binomPMF n q (l - 1) > 0 ∨ binomPMF n q r > 0) then
        if binomPMF n q (l - 1) ≥ binomPMF n q r then
          loop n q c f (l - 1) r (acc + binomPMF n q (l - 1))
            (binomPMF n q (l - 1) == binomPMF n q r)
        else loop n q c f l (r + 1) (acc + binomPMF n q r)
            (binomPMF n q (l - 1) == binomPMF n q r)
      else (l, r, acc, amb) := rfl

/-- generic invariant principle for the greedy loop -/
lemma loop_induct (n : Nat) (q c : ℚ) (P : Int → Int → ℚ → Bool → Prop)
    (hL : ∀ l r acc amb, P l r acc amb → acc < c → binomPMF n q r ≤ binomPMF n q (l - 1) →
      0 < binomPMF n q (l - 1) →
      P (l - 1) r (acc + binomPMF n q (l - 1)) (binomPMF n q (l - 1) == binomPMF n q r))
    (hR : ∀ l r acc amb, P l r acc amb → acc < c → binomPMF n q (l - 1) < binomPMF n q r →
      0 < binomPMF n q r →
      P l (r + 1) (acc + binomPMF n q r) (binomPMF n q (l - 1) == binomPMF n q r)) :
    ∀ f l r acc amb, P l r acc amb →
      P (loop n q c f l r acc amb).1 (loop n q c f l r acc amb).2.1
        (loop n q c f l r acc amb).2.2.1 (loop n q c f l r acc amb).2.2.2 := by
  intro f
  induction f with
  | zero => intro l r acc amb h; exact h
  | succ f ih =>
    intro l r acc amb h
    rw [loop_succ]
    split_ifs with h1 h2
    · apply ih
      apply hL l r acc amb h h1.1 h2
      rcases h1.2 with h3 | h3
      · exact h3
      · exact lt_of_lt_of_le h3 h2
    · apply ih
      have h2' := not_le.1 h2
      apply hR l r acc amb h h1.1 h2'
      rcases h1.2 with h3 | h3
      · exact lt_trans h3 h2'
      · exact h3
    · exact h

/-- when the loop returns, either its guard is false or all the fuel was used, in which case
the interval grew by exactly `f` buckets -/
lemma loop_stop (n : Nat) (q c : ℚ) : ∀ (f : Nat) (l r : Int) (acc : ℚ) (amb : Bool),
    ¬ ((loop n q c f l r acc amb).2.2.1 < c ∧
        (0 < binomPMF n q ((loop n q c f l r acc amb).1 - 1) ∨
         0 < binomPMF n q (loop n q c f l r acc amb).2.1)) ∨
    (loop n q c f l r acc amb).2.1 - (loop n q c f l r acc amb).1 = r - l + (f : Int) := by
  intro f
  induction f with
  | zero => intro l r acc amb; right; show r - l = r - l + ((0 : Nat) : Int); simp
  | succ f ih =>
    intro l r acc amb
    rw [loop_succ]
    split_ifs with h1 h2
    · rcases ih (l - 1) r (acc + binomPMF n q (l - 1))
        (binomPMF n q (l - 1) == binomPMF n q r) with h | h
      · left; exact h
      · right; rw [h]; push_cast; ring
    · rcases ih l (r + 1) (acc + binomPMF n q r)
        (binomPMF n q (l - 1) == binomPMF n q r) with h | h
      · left; exact h
      · right; rw [h]; push_cast; ring
    · left; exact h1

lemma loop_expands (n : Nat) (q c : ℚ) (f : Nat) (l r : Int) (acc : ℚ) (amb : Bool) :
    (loop n q c f l r acc amb).1 ≤ l ∧ r ≤ (loop n q c f l r acc amb).2.1 := by
  refine loop_induct n q c (fun l' r' _ _ => l' ≤ l ∧ r ≤ r') ?_ ?_ f l r acc amb ⟨le_rfl, le_rfl⟩
  · intro l' r' _ _ h _ _ _
    obtain ⟨a, b⟩ := h
    exact ⟨by omega, b⟩
  · intro l' r' _ _ h _ _ _
    obtain ⟨a, b⟩ := h
    exact ⟨a, by omega⟩

/-- the chain of intervals does not depend on `c`; a larger `c` only stops later -/
lemma loop_mono (n : Nat) (q c c' : ℚ) (hc : c ≤ c') : ∀ (f : Nat) (l r : Int) (acc : ℚ)
    (amb : Bool),
    (loop n q c' f l r acc amb).1 ≤ (loop n q c f l r acc amb).1 ∧
    (loop n q c f l r acc amb).2.1 ≤ (loop n q c' f l r acc amb).2.1 := by
  intro f
  induction f with
  | zero => intro l r acc amb; exact ⟨le_rfl, le_rfl⟩
  | succ f ih =>
    intro l r acc amb
    by_cases h : acc < c ∧ (binomPMF n q (l - 1) > 0 ∨ binomPMF n q r > 0)
    · have h' : acc < c' ∧ (binomPMF n q (l - 1) > 0 ∨ binomPMF n q r > 0) :=
        ⟨lt_of_lt_of_le h.1 hc, h.2⟩
      rw [loop_succ n q c, loop_succ n q c', if_pos h, if_pos h']
      split_ifs with h2
      · exact ih _ _ _ _
      · exact ih _ _ _ _
    · rw [loop_succ n q c, if_neg h]
      exact loop_expands n q c' (f + 1) l r acc amb

/-! ## the start bucket -/

lemma startBucket_spec (n : Nat) (q : ℚ) :
    (∀ k : Int, 0 ≤ k → k + 1 ≤ startBucket n q → ((k : ℚ) + 1) < ((n : ℚ) + 1) * q) ∧
    (∀ k : Int, 0 ≤ k → startBucket n q ≤ k → ((n : ℚ) + 1) * q ≤ (k : ℚ) + 1) := by
  unfold startBucket
  split_ifs with h
  · have hq : q = 0 := by simpa using h
    subst hq
    constructor
    · intro k hk0 hk; omega
    · intro k hk0 _
      have : (0 : ℚ) ≤ (k : ℚ) := by exact_mod_cast hk0
      simp only [mul_zero]; linarith
  · constructor
    · intro k _ hk
      have h1 : k + 1 < (((n + 1 : Nat) : ℚ) * q).ceil := by omega
      have h2 := Rat.lt_ceil_iff.1 h1
      push_cast at h2
      exact h2
    · intro k _ hk
      have h1 : (((n + 1 : Nat) : ℚ) * q).ceil ≤ k + 1 := by omega
      have h2 := Rat.ceil_le_iff.1 h1
      push_cast at h2
      exact h2

lemma startBucket_bounds (n : Nat) (q : ℚ) (h0 : 0 ≤ q) (h1 : q ≤ 1) :
    0 ≤ startBucket n q ∧ startBucket n q ≤ n := by
  unfold startBucket
  split_ifs with h
  · constructor <;> omega
  · have hq : q ≠ 0 := by simpa using h
    have hq0 : 0 < q := lt_of_le_of_ne h0 (Ne.symm hq)
    have hn : (0 : ℚ) < ((n + 1 : Nat) : ℚ) := by exact_mod_cast Nat.succ_pos n
    have a : (0 : Int) < (((n + 1 : Nat) : ℚ) * q).ceil := by
      apply Rat.lt_ceil_iff.2
      simpa using mul_pos hn hq0
    have b : (((n + 1 : Nat) : ℚ) * q).ceil ≤ ((n + 1 : Nat) : Int) := by
      apply Rat.ceil_le_iff.2
      have : ((n + 1 : Nat) : ℚ) * q ≤ ((n + 1 : Nat) : ℚ) * 1 :=
        mul_le_mul_of_nonneg_left h1 hn.le
      simpa using this
    constructor
    · omega
    · omega

lemma pmf_ratio (n k : Nat) (q : ℚ) (hk : k < n) :
    binomPMF n q ((k : Int) + 1) * (((k : ℚ) + 1) * (1 - q))
      = binomPMF n q (k : Int) * (((n : ℚ) - k) * q) := by
  have hc : ((k : Int) + 1) = ((k + 1 : Nat) : Int) := by push_cast; rfl
  rw [hc, binomPMF_natCast, binomPMF_natCast]
  have h := Nat.choose_succ_right_eq n k
  have h' : (n.choose (k + 1) : ℚ) * ((k : ℚ) + 1) = n.choose k * ((n : ℚ) - k) := by
    have := congrArg (Nat.cast : Nat → ℚ) h
    push_cast [Nat.cast_sub hk.le] at this
    exact this
  have e : n - k = (n - (k + 1)) + 1 := by omega
  rw [e, pow_succ, pow_succ]
  linear_combination (q ^ k * q * (1 - q) ^ (n - (k + 1)) * (1 - q)) * h'

lemma pmf_step_up (n : Nat) (q : ℚ) (h0 : 0 ≤ q) (h1 : q ≤ 1) (k : Int) (hk0 : 0 ≤ k)
    (hk : k + 1 ≤ startBucket n q) : binomPMF n q k ≤ binomPMF n q (k + 1) := by
  have hb := (startBucket_bounds n q h0 h1).2
  have hlt := (startBucket_spec n q).1 k hk0 hk
  obtain ⟨m, rfl⟩ := Int.eq_ofNat_of_zero_le hk0
  have hmn : m < n := by omega
  have hr := pmf_ratio n m q hmn
  have hmn' : (m : ℚ) + 1 ≤ n := by exact_mod_cast hmn
  simp only [Int.cast_natCast] at hlt
  have hA : 0 ≤ ((m : ℚ) + 1) * (1 - q) := mul_nonneg (by positivity) (by linarith)
  have hAB : ((m : ℚ) + 1) * (1 - q) < ((n : ℚ) - m) * q := by linarith
  have hB : 0 < ((n : ℚ) - m) * q := lt_of_le_of_lt hA hAB
  have hp := binomPMF_nonneg n q h0 h1 ((m : Int) + 1)
  apply le_of_mul_le_mul_right _ hB
  rw [← hr]
  exact mul_le_mul_of_nonneg_left hAB.le hp

lemma pmf_step_down (n : Nat) (q : ℚ) (h0 : 0 ≤ q) (h1 : q ≤ 1) (k : Int)
    (hk : startBucket n q ≤ k) : binomPMF n q (k + 1) ≤ binomPMF n q k := by
  have hb := (startBucket_bounds n q h0 h1).1
  have hk0 : 0 ≤ k := by omega
  by_cases hkn : k < n
  · have hge := (startBucket_spec n q).2 k hk0 hk
    obtain ⟨m, rfl⟩ := Int.eq_ofNat_of_zero_le hk0
    have hmn : m < n := by omega
    have hr := pmf_ratio n m q hmn
    have hmn' : (m : ℚ) + 1 ≤ n := by exact_mod_cast hmn
    simp only [Int.cast_natCast] at hge
    have hq1 : q < 1 := by
      rcases h1.lt_or_eq with h | h
      · exact h
      · exfalso; rw [h] at hge; linarith
    have hA : 0 < ((m : ℚ) + 1) * (1 - q) := mul_pos (by positivity) (by linarith)
    have hBA : ((n : ℚ) - m) * q ≤ ((m : ℚ) + 1) * (1 - q) := by linarith
    have hp := binomPMF_nonneg n q h0 h1 (m : Int)
    apply le_of_mul_le_mul_right _ hA
    rw [hr]
    exact mul_le_mul_of_nonneg_left hBA hp
  · rw [binomPMF_eq_zero n q (k + 1) (by omega)]
    exact binomPMF_nonneg n q h0 h1 k

lemma pmf_le_up (n : Nat) (q : ℚ) (h0 : 0 ≤ q) (h1 : q ≤ 1) :
    ∀ (d : Nat) (k : Int), 0 ≤ k → k + d ≤ startBucket n q →
      binomPMF n q k ≤ binomPMF n q (k + d) := by
  intro d
  induction d with
  | zero => intro k _ _; simp
  | succ d ih =>
    intro k hk0 hk
    push_cast at hk ⊢
    have := ih k hk0 (by omega)
    have h2 := pmf_step_up n q h0 h1 (k + d) (by omega) (by omega)
    rw [← add_assoc]
    exact le_trans this h2

lemma pmf_le_down (n : Nat) (q : ℚ) (h0 : 0 ≤ q) (h1 : q ≤ 1) :
    ∀ (d : Nat), binomPMF n q (startBucket n q + d) ≤ binomPMF n q (startBucket n q) := by
  intro d
  induction d with
  | zero => simp
  | succ d ih =>
    push_cast
    have h2 := pmf_step_down n q h0 h1 (startBucket n q + d) (by omega)
    rw [← add_assoc]
    exact le_trans h2 ih

/-- **G4b.** For `0 ≤ q ≤ 1` the start bucket `⌈(n+1)q⌉ − 1` (resp. `0` for `q = 0`) is a mode
of the binomial distribution: no bucket has larger mass. -/
theorem startBucket_is_mode (n : Nat) (q : ℚ) (h0 : 0 ≤ q) (h1 : q ≤ 1) :
    ∀ k : Int, binomPMF n q k ≤ binomPMF n q (startBucket n q) := by
  intro k
  by_cases hk0 : k < 0
  · rw [binomPMF_eq_zero n q k (Or.inl hk0)]
    exact binomPMF_nonneg n q h0 h1 _
  · rcases le_total k (startBucket n q) with h | h
    · have := pmf_le_up n q h0 h1 (startBucket n q - k).toNat k (by omega) (by omega)
      have e : k + (((startBucket n q - k).toNat : Nat) : Int) = startBucket n q := by omega
      rwa [e] at this
    · have := pmf_le_down n q h0 h1 (k - startBucket n q).toNat
      have e : startBucket n q + (((k - startBucket n q).toNat : Nat) : Int) = k := by omega
      rwa [e] at this

example : ∀ k : Int, binomPMF 5 (1/2) k ≤ binomPMF 5 (1/2) (startBucket 5 (1/2)) :=
  startBucket_is_mode 5 (1/2) (by norm_num) (by norm_num)

/-! ## the raw loop output -/

/-- the raw loop output that `greedy` clamps -/
def raw (n : Nat) (q c : ℚ) : Int × Int × ℚ × Bool :=
  loop n q c (n + 2) (startBucket n q) (startBucket n q + 1) (binomPMF n q (startBucket n q))
    (binomPMF n q (startBucket n q + 1) == binomPMF n q (startBucket n q))

/-- bounds and the accumulated mass: every bucket that is added has positive mass, hence lies
in `[0,n]` -/
lemma raw_inv (n : Nat) (q c : ℚ) (h0 : 0 ≤ q) (h1 : q ≤ 1) :
    0 ≤ (raw n q c).1 ∧ (raw n q c).1 < (raw n q c).2.1 ∧ (raw n q c).2.1 ≤ (n : Int) + 1 ∧
      (raw n q c).2.2.1 = mass n q (raw n q c).1 (raw n q c).2.1 := by
  obtain ⟨b0, b1⟩ := startBucket_bounds n q h0 h1
  refine loop_induct n q c
    (fun l r acc _ => 0 ≤ l ∧ l < r ∧ r ≤ (n : Int) + 1 ∧ acc = mass n q l r) ?_ ?_ _ _ _ _ _
    ⟨b0, by omega, by omega, (mass_single n q _).symm⟩
  · intro l r acc _ h _ _ hpos
    obtain ⟨a, b, c', d⟩ := h
    have hl : 0 ≤ l - 1 := by
      by_contra hneg
      rw [binomPMF_eq_zero n q (l - 1) (Or.inl (by omega))] at hpos
      exact lt_irrefl _ hpos
    refine ⟨hl, by omega, c', ?_⟩
    rw [mass_pred_left n q l r b.le, d, add_comm]
  · intro l r acc _ h _ _ hpos
    obtain ⟨a, b, c', d⟩ := h
    have hr : r ≤ n := by
      by_contra hneg
      rw [binomPMF_eq_zero n q r (Or.inr (by omega))] at hpos
      exact lt_irrefl _ hpos
    refine ⟨a, by omega, by omega, ?_⟩
    rw [mass_succ_right n q l r b.le, d]

lemma raw_contains (n : Nat) (q c : ℚ) :
    (raw n q c).1 ≤ startBucket n q ∧ startBucket n q + 1 ≤ (raw n q c).2.1 :=
  loop_expands n q c _ _ _ _ _

lemma greedy_eq (n : Nat) (q c : ℚ) (h0 : 0 ≤ q) (h1 : q ≤ 1) :
    greedy n q c = ⟨(raw n q c).1, (raw n q c).2.1, (raw n q c).2.2.1, (raw n q c).2.2.2⟩ := by
  obtain ⟨a, _, b, _⟩ := raw_inv n q c h0 h1
  unfold raw at a b ⊢
  simp only [greedy]
  rw [if_neg (not_lt.2 a), if_neg (not_lt.2 b)]

lemma qci_of_lt (n : Nat) (q c : ℚ) (hc : c < 1) : qci n q c = greedy n q c := by
  unfold qci; rw [if_neg (not_le.2 hc)]

lemma qci_of_ge (n : Nat) (q c : ℚ) (hc : 1 ≤ c) : qci n q c = ⟨0, (n : Int) + 1, 1, false⟩ := by
  unfold qci; rw [if_pos hc]

/-! ## G1 -/

/-- **G1.** For `0 ≤ q ≤ 1` and every `c`, the interval returned by `qci` satisfies
`0 ≤ lo < hi ≤ n+1`. -/
theorem qci_orders (n : Nat) (q c : ℚ) (h0 : 0 ≤ q) (h1 : q ≤ 1) :
    0 ≤ (qci n q c).lo ∧ (qci n q c).lo < (qci n q c).hi ∧ (qci n q c).hi ≤ (n : Int) + 1 := by
  by_cases hc : 1 ≤ c
  · rw [qci_of_ge n q c hc]
    refine ⟨le_rfl, ?_, le_rfl⟩
    show (0 : Int) < (n : Int) + 1
    omega
  · rw [qci_of_lt n q c (not_le.1 hc), greedy_eq n q c h0 h1]
    obtain ⟨a, b, c', _⟩ := raw_inv n q c h0 h1
    exact ⟨a, b, c'⟩

example : 0 ≤ (qci 5 (1/2) (7/8)).lo ∧ (qci 5 (1/2) (7/8)).lo < (qci 5 (1/2) (7/8)).hi ∧
    (qci 5 (1/2) (7/8)).hi ≤ ((5 : Nat) : Int) + 1 :=
  qci_orders 5 (1/2) (7/8) (by norm_num) (by norm_num)

/-- concrete values (kernel-evaluated) used by the non-vacuity examples below -/
example : (qci 5 (1/2) (7/8)).lo = 1 ∧ (qci 5 (1/2) (7/8)).hi = 5 ∧
    (qci 5 (1/2) (7/8)).conf = 15/16 ∧ (qci 5 (1/2) (7/8)).amb = false ∧
    startBucket 5 (1/2) = 2 := by decide +kernel

example : (qci 5 (1/2) (1/2)).lo = 2 ∧ (qci 5 (1/2) (1/2)).hi = 4 := by decide +kernel

/-! ## G2 -/

/-- **G2.** For `0 ≤ q ≤ 1` and every `c`, the reported confidence is exactly the binomial
probability of the buckets `lo .. hi-1`. -/
theorem qci_conf_mass (n : Nat) (q c : ℚ) (h0 : 0 ≤ q) (h1 : q ≤ 1) :
    (qci n q c).conf = mass n q (qci n q c).lo (qci n q c).hi := by
  by_cases hc : 1 ≤ c
  · rw [qci_of_ge n q c hc]
    exact (mass_full n q).symm
  · rw [qci_of_lt n q c (not_le.1 hc), greedy_eq n q c h0 h1]
    exact (raw_inv n q c h0 h1).2.2.2

example : (qci 5 (1/2) (7/8)).conf = mass 5 (1/2) (qci 5 (1/2) (7/8)).lo (qci 5 (1/2) (7/8)).hi :=
  qci_conf_mass 5 (1/2) (7/8) (by norm_num) (by norm_num)

/-! ## G3 -/

lemma pmf_pos (n : Nat) (q : ℚ) (h0 : 0 < q) (h1 : q < 1) (k : Int) (hk0 : 0 ≤ k) (hkn : k ≤ n) :
    0 < binomPMF n q k :=
  lt_of_le_of_ne (binomPMF_nonneg n q h0.le h1.le k)
    (Ne.symm ((binomPMF_ne_zero_iff n q h0 h1 k).2 ⟨hk0, hkn⟩))

lemma raw_of_start_one (n : Nat) (q c : ℚ) (hc : c < 1)
    (hx : binomPMF n q (startBucket n q) = 1) : (raw n q c).2.2.1 = 1 := by
  unfold raw
  rw [show n + 2 = (n + 1) + 1 from rfl, loop_succ, if_neg]
  · exact hx
  · rw [hx]; intro h; linarith [h.1]

lemma start_zero (n : Nat) : binomPMF n 0 (startBucket n 0) = 1 := by
  have e : startBucket n 0 = ((0 : Nat) : Int) := by unfold startBucket; simp
  rw [e, binomPMF_natCast]; simp

lemma start_one (n : Nat) : binomPMF n 1 (startBucket n 1) = 1 := by
  have hb := startBucket_bounds n 1 (by norm_num) (by norm_num)
  have hs := (startBucket_spec n 1).2 (startBucket n 1) hb.1 le_rfl
  have e : startBucket n 1 = ((n : Nat) : Int) := by
    have : ((n : Int) : ℚ) ≤ ((startBucket n 1 : Int) : ℚ) := by push_cast; linarith
    have := Int.cast_le.1 this
    omega
  rw [e, binomPMF_natCast]; simp

/-- **G3.** For `0 ≤ q ≤ 1` and `c < 1`, the reported confidence is at least the requested `c`,
unless the interval is the whole range `[0, n+1)`. -/
theorem qci_conf_ge (n : Nat) (q c : ℚ) (h0 : 0 ≤ q) (h1 : q ≤ 1) (hc : c < 1) :
    (qci n q c).conf ≥ c ∨ ((qci n q c).lo = 0 ∧ (qci n q c).hi = (n : Int) + 1) := by
  rw [qci_of_lt n q c hc, greedy_eq n q c h0 h1]
  show (raw n q c).2.2.1 ≥ c ∨ ((raw n q c).1 = 0 ∧ (raw n q c).2.1 = (n : Int) + 1)
  rcases h0.eq_or_lt with hq | hq0
  · left; subst hq; rw [raw_of_start_one n 0 c hc (start_zero n)]; exact hc.le
  rcases h1.eq_or_lt with hq | hq1
  · left; subst hq; rw [raw_of_start_one n 1 c hc (start_one n)]; exact hc.le
  obtain ⟨i1, i2, i3, _⟩ := raw_inv n q c h0 h1
  have hs : ¬ ((raw n q c).2.2.1 < c ∧
        (0 < binomPMF n q ((raw n q c).1 - 1) ∨ 0 < binomPMF n q (raw n q c).2.1)) ∨
      (raw n q c).2.1 - (raw n q c).1
        = (startBucket n q + 1) - startBucket n q + ((n + 2 : Nat) : Int) :=
    loop_stop n q c (n + 2) _ _ _ _
  rcases hs with hs | hs
  · by_cases hacc : (raw n q c).2.2.1 < c
    · right
      have hz : ¬ (0 < binomPMF n q ((raw n q c).1 - 1) ∨ 0 < binomPMF n q (raw n q c).2.1) :=
        fun hh => hs ⟨hacc, hh⟩
      constructor
      · by_contra hne
        exact hz (Or.inl (pmf_pos n q hq0 hq1 _ (by omega) (by omega)))
      · by_contra hne
        exact hz (Or.inr (pmf_pos n q hq0 hq1 _ (by omega) (by omega)))
    · left; exact not_lt.1 hacc
  · exfalso; push_cast at hs; omega

example : (qci 5 (1/2) (7/8)).conf ≥ 7/8 ∨
    ((qci 5 (1/2) (7/8)).lo = 0 ∧ (qci 5 (1/2) (7/8)).hi = ((5 : Nat) : Int) + 1) :=
  qci_conf_ge 5 (1/2) (7/8) (by norm_num) (by norm_num) (by norm_num)

/-- **G3, strengthened.** For `0 ≤ q ≤ 1` and `c < 1` the reported confidence is always at
least `c` (in the whole-range case of `qci_conf_ge` the confidence is the total mass `1 > c`). -/
theorem qci_conf_ge_strong (n : Nat) (q c : ℚ) (h0 : 0 ≤ q) (h1 : q ≤ 1) (hc : c < 1) :
    (qci n q c).conf ≥ c := by
  rcases qci_conf_ge n q c h0 h1 hc with h | ⟨hl, hh⟩
  · exact h
  · rw [qci_conf_mass n q c h0 h1, hl, hh, mass_full]; exact hc.le

example : (qci 6 (1/3) (99/100)).conf ≥ 99/100 :=
  qci_conf_ge_strong 6 (1/3) (99/100) (by norm_num) (by norm_num) (by norm_num)

example : (qci 6 (1/3) (99/100)).lo = 0 ∧ (qci 6 (1/3) (99/100)).hi = 6 ∧
    (qci 6 (1/3) (99/100)).conf = 728/729 := by decide +kernel

/-! ## G4 -/

/-- **G4a.** For `0 ≤ q ≤ 1` and `c < 1` the interval contains the start bucket (the mode). -/
theorem qci_contains_mode (n : Nat) (q c : ℚ) (h0 : 0 ≤ q) (h1 : q ≤ 1) (hc : c < 1) :
    (qci n q c).lo ≤ startBucket n q ∧ startBucket n q < (qci n q c).hi := by
  rw [qci_of_lt n q c hc, greedy_eq n q c h0 h1]
  obtain ⟨a, b⟩ := raw_contains n q c
  exact ⟨a, by show startBucket n q < (raw n q c).2.1; omega⟩

example : (qci 5 (1/2) (7/8)).lo ≤ startBucket 5 (1/2) ∧
    startBucket 5 (1/2) < (qci 5 (1/2) (7/8)).hi :=
  qci_contains_mode 5 (1/2) (7/8) (by norm_num) (by norm_num) (by norm_num)

/-! ## G5 -/

/-- **G5.** For `0 ≤ q ≤ 1`, `c < 1`: if the interval has at least two buckets then removing
one of its two end buckets drops the confidence strictly below `c` (the last bucket added was
needed). -/
theorem qci_end_needed (n : Nat) (q c : ℚ) (h0 : 0 ≤ q) (h1 : q ≤ 1) (hc : c < 1)
    (hw : (qci n q c).hi - (qci n q c).lo ≥ 2) :
    (qci n q c).conf - binomPMF n q (qci n q c).lo < c ∨
      (qci n q c).conf - binomPMF n q ((qci n q c).hi - 1) < c := by
  rw [qci_of_lt n q c hc, greedy_eq n q c h0 h1] at hw ⊢
  have key : ((raw n q c).1 = startBucket n q ∧ (raw n q c).2.1 = startBucket n q + 1) ∨
      ((raw n q c).2.2.1 - binomPMF n q (raw n q c).1 < c ∨
        (raw n q c).2.2.1 - binomPMF n q ((raw n q c).2.1 - 1) < c) := by
    refine loop_induct n q c
      (fun l r acc _ => (l = startBucket n q ∧ r = startBucket n q + 1) ∨
        (acc - binomPMF n q l < c ∨ acc - binomPMF n q (r - 1) < c)) ?_ ?_ _ _ _ _ _
      (Or.inl ⟨rfl, rfl⟩)
    · intro l r acc _ _ hacc _ _
      right; left
      rw [add_sub_cancel_right]; exact hacc
    · intro l r acc _ _ hacc _ _
      right; right
      rw [add_sub_cancel_right, add_sub_cancel_right]; exact hacc
  rcases key with ⟨e1, e2⟩ | key
  · exfalso
    have : (raw n q c).2.1 - (raw n q c).1 ≥ 2 := hw
    omega
  · exact key

example : (qci 5 (1/2) (7/8)).conf - binomPMF 5 (1/2) (qci 5 (1/2) (7/8)).lo < 7/8 ∨
    (qci 5 (1/2) (7/8)).conf - binomPMF 5 (1/2) ((qci 5 (1/2) (7/8)).hi - 1) < 7/8 :=
  qci_end_needed 5 (1/2) (7/8) (by norm_num) (by norm_num) (by norm_num) (by decide +kernel)

/-! ## G6 -/

/-- **G6.** For `0 ≤ q ≤ 1` and `c ≤ c'` the interval for `c` is contained in the one for `c'`. -/
theorem qci_nested (n : Nat) (q c c' : ℚ) (h0 : 0 ≤ q) (h1 : q ≤ 1) (hcc : c ≤ c') :
    (qci n q c').lo ≤ (qci n q c).lo ∧ (qci n q c).hi ≤ (qci n q c').hi := by
  by_cases hc' : 1 ≤ c'
  · obtain ⟨a, _, b⟩ := qci_orders n q c h0 h1
    rw [qci_of_ge n q c' hc']
    exact ⟨a, b⟩
  · have hc'1 : c' < 1 := not_le.1 hc'
    have hc1 : c < 1 := lt_of_le_of_lt hcc hc'1
    rw [qci_of_lt n q c hc1, qci_of_lt n q c' hc'1, greedy_eq n q c h0 h1, greedy_eq n q c' h0 h1]
    exact loop_mono n q c c' hcc _ _ _ _ _

example : (qci 5 (1/2) (7/8)).lo ≤ (qci 5 (1/2) (1/2)).lo ∧
    (qci 5 (1/2) (1/2)).hi ≤ (qci 5 (1/2) (7/8)).hi :=
  qci_nested 5 (1/2) (1/2) (7/8) (by norm_num) (by norm_num) (by norm_num)

/-! ## G7 -/

/-- **G7.** For `0 ≤ q ≤ 1` and every `c`: when the `amb` flag is set, the interval shifted up
by one bucket has exactly the same confidence. -/
theorem qci_ambiguous (n : Nat) (q c : ℚ) (h0 : 0 ≤ q) (h1 : q ≤ 1)
    (hamb : (qci n q c).amb = true) :
    mass n q ((qci n q c).lo + 1) ((qci n q c).hi + 1) = (qci n q c).conf := by
  by_cases hc : 1 ≤ c
  · rw [qci_of_ge n q c hc] at hamb
    simp at hamb
  · rw [qci_of_lt n q c (not_le.1 hc), greedy_eq n q c h0 h1] at hamb ⊢
    have key : (raw n q c).2.2.2 = true →
        binomPMF n q (raw n q c).1 = binomPMF n q (raw n q c).2.1 := by
      refine loop_induct n q c
        (fun l r _ amb => amb = true → binomPMF n q l = binomPMF n q r) ?_ ?_ _ _ _ _ _ ?_
      · intro l r _ _ _ _ _ _ hb
        exact eq_of_beq hb
      · intro l r _ _ _ _ hlt _ hb
        exact absurd (eq_of_beq hb) (ne_of_lt hlt)
      · intro hb
        exact (eq_of_beq hb).symm
    obtain ⟨_, i2, _, i4⟩ := raw_inv n q c h0 h1
    have hk := key hamb
    show mass n q ((raw n q c).1 + 1) ((raw n q c).2.1 + 1) = (raw n q c).2.2.1
    rw [mass_shift n q _ _ i2.le, ← i4, hk]; ring

example : (qci 3 (1/2) (1/4)).amb = true ∧ (qci 3 (1/2) (1/4)).lo = 1 ∧
    (qci 3 (1/2) (1/4)).hi = 2 ∧ (qci 3 (1/2) (1/4)).conf = 3/8 := by decide +kernel

example : mass 3 (1/2) ((qci 3 (1/2) (1/4)).lo + 1) ((qci 3 (1/2) (1/4)).hi + 1)
    = (qci 3 (1/2) (1/4)).conf :=
  qci_ambiguous 3 (1/2) (1/4) (by norm_num) (by norm_num) (by decide +kernel)

end MV.QCI
