import MV.Props.FactsLib
/-! Source facts the C11 model relies on (checked against the facts regenerated from /repo on every run). -/
namespace MV.Facts

def expectedC11 : List (String × String) := [("stats.quantileCIApproxThreshold", "30")]

/-- the constants and literals the C11 model mirrors are still what the source says -/
theorem facts_C11 : holdsAll expectedC11 = true := by decide

end MV.Facts
