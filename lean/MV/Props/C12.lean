import Mathlib.Tactic
import Mathlib.MeasureTheory.Integral.IntervalIntegral.FundThmCalculus
import Mathlib.Analysis.Calculus.Deriv.Mul
import Mathlib.Analysis.Calculus.Deriv.Add
import MV.Model.KDE
/-!
# C12 — kernel density estimates

Property theorems about the executable model `MV/Model/KDE.lean`.
-/
namespace MV.KDE

/-! ## K1 — kernel facts over ℚ -/

/-- the cubic `(1/4)(2 + 3t − t³)` that the Epanechnikov CDF follows on `[-1,1]` -/
def cubic {K : Type*} [Field K] (t : K) : K := (1 / 4) * (2 + 3 * t - t * t * t)

lemma cubic_mono_on {K : Type*} [Field K] [LinearOrder K] [IsStrictOrderedRing K]
    {s t : K} (hs : -1 ≤ s) (hst : s ≤ t) (ht : t ≤ 1) :
    cubic s ≤ cubic t := by
  unfold cubic
  have h1 : 0 ≤ (t - s) * (3 - (t * t + t * s + s * s)) := by
    apply mul_nonneg (by linarith)
    nlinarith [mul_nonneg (by linarith : (0:K) ≤ 1 - t) (by linarith : (0:K) ≤ 1 + t),
      mul_nonneg (by linarith : (0:K) ≤ 1 - s) (by linarith : (0:K) ≤ 1 + s),
      mul_nonneg (by linarith : (0:K) ≤ 1 - s) (by linarith : (0:K) ≤ 1 - t),
      mul_nonneg (by linarith : (0:K) ≤ 1 + s) (by linarith : (0:K) ≤ 1 + t)]
  nlinarith [h1]

/-- clamp to `[-1,1]` -/
def clamp1 {K : Type*} [Field K] [LinearOrder K] (t : K) : K := max (-1) (min 1 t)

lemma clamp1_mono {K : Type*} [Field K] [LinearOrder K] [IsStrictOrderedRing K] :
    Monotone (clamp1 : K → K) := by
  intro a b hab
  unfold clamp1
  exact max_le_max le_rfl (min_le_min le_rfl hab)

lemma clamp1_mem {K : Type*} [Field K] [LinearOrder K] [IsStrictOrderedRing K] (t : K) :
    -1 ≤ clamp1 t ∧ clamp1 t ≤ 1 := by
  unfold clamp1
  refine ⟨le_max_left _ _, max_le (by norm_num) (min_le_left _ _)⟩

lemma epanCDF_eq_cubic {h : ℚ} (hh : 0 < h) (u : ℚ) :
    epanCDF h u = cubic (clamp1 (u / h)) := by
  unfold epanCDF clamp1
  by_cases h1 : u > h
  · have : 1 < u / h := by rw [lt_div_iff₀ hh]; linarith
    rw [if_pos h1, min_eq_left this.le, max_eq_right (by norm_num)]
    unfold cubic; norm_num
  · rw [if_neg h1]
    have hle : u / h ≤ 1 := by rw [div_le_iff₀ hh]; linarith
    by_cases h2 : u > -h
    · have : -1 < u / h := by rw [lt_div_iff₀ hh]; linarith
      rw [if_pos h2, min_eq_right hle, max_eq_right this.le]
      unfold cubic; ring
    · have : u / h ≤ -1 := by rw [div_le_iff₀ hh]; linarith
      rw [if_neg h2, min_eq_right hle, max_eq_left this]
      unfold cubic; norm_num

/-- The Epanechnikov kernel density is nonnegative everywhere (bandwidth `h > 0`). -/
theorem epanPDF_nonneg {h : ℚ} (hh : 0 < h) (u : ℚ) : 0 ≤ epanPDF h u := by
  unfold epanPDF
  split_ifs with hc
  · obtain ⟨h1, h2⟩ := hc
    have hu : u * u / (h * h) ≤ 1 := by
      rw [div_le_one (by positivity)]; nlinarith
    have : 0 ≤ 3 / 4 / h := by positivity
    exact mul_nonneg this (by linarith)
  · exact le_rfl

example : 0 ≤ epanPDF 2 (1/2) ∧ epanPDF 2 (1/2) = 45/128 := by
  refine ⟨epanPDF_nonneg (by norm_num) _, by decide +kernel⟩

/-- The Epanechnikov kernel density vanishes outside `(-h, h)`. -/
theorem epanPDF_eq_zero {h u : ℚ} (hu : u ≤ -h ∨ h ≤ u) : epanPDF h u = 0 := by
  unfold epanPDF
  rw [if_neg]
  rintro ⟨h1, h2⟩
  rcases hu with hu | hu <;> linarith

example : epanPDF 2 (-2) = 0 := epanPDF_eq_zero (Or.inl le_rfl)

/-- The Epanechnikov kernel CDF is monotone (bandwidth `h > 0`). -/
theorem epanCDF_mono {h : ℚ} (hh : 0 < h) : Monotone (epanCDF h) := by
  intro a b hab
  rw [epanCDF_eq_cubic hh, epanCDF_eq_cubic hh]
  have hc : clamp1 (a / h) ≤ clamp1 (b / h) :=
    clamp1_mono (div_le_div_of_nonneg_right hab hh.le)
  exact cubic_mono_on (clamp1_mem _).1 hc (clamp1_mem _).2

example : epanCDF 2 (-1) ≤ epanCDF 2 (1/2) := epanCDF_mono (by norm_num) (by norm_num)

/-- The Epanechnikov kernel CDF is `0` at and below `-h`. -/
theorem epanCDF_eq_zero {h u : ℚ} (hh : 0 < h) (hu : u ≤ -h) : epanCDF h u = 0 := by
  unfold epanCDF
  rw [if_neg (by linarith), if_neg (by linarith)]

example : epanCDF 2 (-2) = 0 := epanCDF_eq_zero (by norm_num) le_rfl

/-- The Epanechnikov kernel CDF is `1` at and above `h` (the value at the join `u = h`,
which is computed by the cubic branch, is `1` too). -/
theorem epanCDF_eq_one {h u : ℚ} (hh : 0 < h) (hu : h ≤ u) : epanCDF h u = 1 := by
  rw [epanCDF_eq_cubic hh]
  have : 1 ≤ u / h := by rw [le_div_iff₀ hh]; linarith
  unfold clamp1
  rw [min_eq_left this, max_eq_right (by norm_num)]
  unfold cubic; norm_num

example : epanCDF 2 2 = 1 ∧ epanCDF 2 5 = 1 :=
  ⟨epanCDF_eq_one (by norm_num) le_rfl, epanCDF_eq_one (by norm_num) (by norm_num)⟩

/-- The Epanechnikov kernel CDF takes values in `[0,1]`. -/
theorem epanCDF_range {h : ℚ} (hh : 0 < h) (u : ℚ) : 0 ≤ epanCDF h u ∧ epanCDF h u ≤ 1 := by
  constructor
  · rcases le_total u (-h) with hu | hu
    · rw [epanCDF_eq_zero hh hu]
    · rw [← epanCDF_eq_zero hh (le_refl (-h))]; exact epanCDF_mono hh hu
  · rcases le_total u h with hu | hu
    · rw [← epanCDF_eq_one hh (le_refl h)]; exact epanCDF_mono hh hu
    · rw [epanCDF_eq_one hh hu]

example : 0 ≤ epanCDF 2 (1/2) ∧ epanCDF 2 (1/2) ≤ 1 := epanCDF_range (by norm_num) _

/-- Continuity at the joins: the cubic branch of the CDF evaluates to `0` at `u = -h` and to
`1` at `u = h`, i.e. it agrees with the constant branches on both sides, and the density's
parabola branch evaluates to `0` at both joins. -/
theorem epan_joins {h : ℚ} (hh : 0 < h) :
    (1 / 4 : ℚ) * (2 + 3 * (-h / h) - (-h / h) * (-h / h) * (-h / h)) = 0 ∧
    (1 / 4 : ℚ) * (2 + 3 * (h / h) - (h / h) * (h / h) * (h / h)) = 1 ∧
    epanCDF h (-h) = 0 ∧ epanCDF h h = 1 ∧
    (3 / 4 : ℚ) / h * (1 - (-h) * (-h) / (h * h)) = 0 ∧ (3 / 4 : ℚ) / h * (1 - h * h / (h * h)) = 0 ∧
    epanPDF h (-h) = 0 ∧ epanPDF h h = 0 := by
  have hne : h ≠ 0 := hh.ne'
  refine ⟨?_, ?_, epanCDF_eq_zero hh le_rfl, epanCDF_eq_one hh le_rfl, ?_, ?_,
    epanPDF_eq_zero (Or.inl le_rfl), epanPDF_eq_zero (Or.inr le_rfl)⟩
  · rw [neg_div, div_self hne]; norm_num
  · rw [div_self hne]; norm_num
  · field_simp; ring
  · field_simp; ring

example : epanCDF 3 (-3) = 0 ∧ epanCDF 3 3 = 1 :=
  ⟨(epan_joins (by norm_num)).2.2.1, (epan_joins (by norm_num)).2.2.2.1⟩

/-! ## K1 — the same kernel over ℝ and the fundamental theorem of calculus -/

/-- `epanPDF` with the same formula over ℝ -/
noncomputable def epanPDFr (h u : ℝ) : ℝ :=
  if -h < u ∧ u < h then (3 / 4) / h * (1 - u * u / (h * h)) else 0

/-- `epanCDF` with the same formula over ℝ -/
noncomputable def epanCDFr (h u : ℝ) : ℝ :=
  if u > h then 1 else if u > -h then (1 / 4) * (2 + 3 * (u / h) - (u / h) * (u / h) * (u / h)) else 0

/-- The real-valued density `epanPDFr` restricted to rational arguments is the cast of the
model's `epanPDF`. -/
theorem epanPDFr_cast (h u : ℚ) : ((epanPDF h u : ℚ) : ℝ) = epanPDFr h u := by
  unfold epanPDF epanPDFr
  by_cases hc : -h < u ∧ u < h
  · have hc' : -(h : ℝ) < u ∧ (u : ℝ) < h := by exact_mod_cast hc
    rw [if_pos hc, if_pos hc']; push_cast; ring
  · have hc' : ¬ (-(h : ℝ) < u ∧ (u : ℝ) < h) := by exact_mod_cast hc
    rw [if_neg hc, if_neg hc']; simp

example : epanPDFr 2 (1/2) = 45/128 := by
  have := epanPDFr_cast 2 (1/2)
  have e : epanPDF 2 (1/2) = 45/128 := by decide +kernel
  rw [e] at this; push_cast at this; rw [← this]

/-- The real-valued CDF `epanCDFr` restricted to rational arguments is the cast of the
model's `epanCDF`. -/
theorem epanCDFr_cast (h u : ℚ) : ((epanCDF h u : ℚ) : ℝ) = epanCDFr h u := by
  unfold epanCDF epanCDFr
  by_cases h1 : u > h
  · have h1' : (u : ℝ) > h := by exact_mod_cast h1
    rw [if_pos h1, if_pos h1']; simp
  · have h1' : ¬ (u : ℝ) > h := by exact_mod_cast h1
    rw [if_neg h1, if_neg h1']
    by_cases h2 : u > -h
    · have h2' : (u : ℝ) > -h := by exact_mod_cast h2
      rw [if_pos h2, if_pos h2']; push_cast; ring
    · have h2' : ¬ (u : ℝ) > -h := by exact_mod_cast h2
      rw [if_neg h2, if_neg h2']; simp

example : epanCDFr 2 (1/2) = 175/256 := by
  have := epanCDFr_cast 2 (1/2)
  have e : epanCDF 2 (1/2) = 175/256 := by unfold epanCDF; norm_num
  rw [e] at this; push_cast at this; rw [← this]

lemma epanCDFr_eq_cubic {h : ℝ} (hh : 0 < h) (u : ℝ) :
    epanCDFr h u = cubic (clamp1 (u / h)) := by
  unfold epanCDFr clamp1
  by_cases h1 : u > h
  · have : 1 < u / h := by rw [lt_div_iff₀ hh]; linarith
    rw [if_pos h1, min_eq_left this.le, max_eq_right (by norm_num)]
    unfold cubic; norm_num
  · rw [if_neg h1]
    have hle : u / h ≤ 1 := by rw [div_le_iff₀ hh]; linarith
    by_cases h2 : u > -h
    · have : -1 < u / h := by rw [lt_div_iff₀ hh]; linarith
      rw [if_pos h2, min_eq_right hle, max_eq_right this.le]
      unfold cubic; ring
    · have : u / h ≤ -1 := by rw [div_le_iff₀ hh]; linarith
      rw [if_neg h2, min_eq_right hle, max_eq_left this]
      unfold cubic; norm_num

lemma epanPDFr_eq_max {h : ℝ} (hh : 0 < h) (u : ℝ) :
    epanPDFr h u = max 0 ((3 / 4) / h * (1 - u * u / (h * h))) := by
  unfold epanPDFr
  have hpos : 0 < 3 / 4 / h := by positivity
  have hh2 : 0 < h * h := by positivity
  split_ifs with hc
  · obtain ⟨h1, h2⟩ := hc
    have hu : u * u / (h * h) ≤ 1 := by rw [div_le_one hh2]; nlinarith
    rw [max_eq_right]; exact mul_nonneg hpos.le (by linarith)
  · have hu : 1 ≤ u * u / (h * h) := by
      rw [le_div_iff₀ hh2]
      rw [not_and_or, not_lt, not_lt] at hc
      rcases hc with hc | hc <;> nlinarith
    rw [max_eq_left]; exact mul_nonpos_of_nonneg_of_nonpos hpos.le (by linarith)

/-- The real-valued Epanechnikov CDF is continuous (in particular at the joins `u = ±h`). -/
theorem epanCDFr_continuous {h : ℝ} (hh : 0 < h) : Continuous (epanCDFr h) := by
  have : epanCDFr h = fun u => cubic (clamp1 (u / h)) := funext (epanCDFr_eq_cubic hh)
  rw [this]; unfold cubic clamp1
  fun_prop

example : Continuous (epanCDFr 2) := epanCDFr_continuous (by norm_num)

/-- The real-valued Epanechnikov density is continuous (in particular at the joins `u = ±h`). -/
theorem epanPDFr_continuous {h : ℝ} (hh : 0 < h) : Continuous (epanPDFr h) := by
  have : epanPDFr h = fun u => max 0 ((3 / 4) / h * (1 - u * u / (h * h))) :=
    funext (epanPDFr_eq_max hh)
  rw [this]
  fun_prop

example : Continuous (epanPDFr 2) := epanPDFr_continuous (by norm_num)

lemma hasDerivAt_cubic_div (h u : ℝ) :
    HasDerivAt (fun u : ℝ => (1 / 4 : ℝ) * (2 + 3 * (u / h) - (u / h) * (u / h) * (u / h)))
      ((3 / 4) / h * (1 - u * u / (h * h))) u := by
  have d : HasDerivAt (fun u : ℝ => u / h) (1 / h) u := by
    simpa using (hasDerivAt_id u).div_const h
  have := (((d.const_mul 3).const_add 2).sub ((d.fun_mul d).fun_mul d)).const_mul (1/4 : ℝ)
  have h2 : HasDerivAt (fun u : ℝ => (1 / 4 : ℝ) * (2 + 3 * (u / h) - (u / h) * (u / h) * (u / h))) _ u :=
    this
  refine h2.congr_deriv ?_
  by_cases hh : h = 0
  · subst hh; simp
  · field_simp; ring

lemma epanCDFr_of_mid {h u : ℝ} (h1 : -h < u) (h2 : u ≤ h) :
    epanCDFr h u = (1 / 4) * (2 + 3 * (u / h) - (u / h) * (u / h) * (u / h)) := by
  unfold epanCDFr; rw [if_neg (by linarith), if_pos h1]

lemma epanCDFr_of_ge {h u : ℝ} (hh : 0 < h) (h2 : h ≤ u) : epanCDFr h u = 1 := by
  rcases h2.lt_or_eq with h2 | h2
  · unfold epanCDFr; rw [if_pos h2]
  · subst h2; rw [epanCDFr_of_mid (by linarith) le_rfl, div_self hh.ne']; norm_num

lemma epanCDFr_of_le {h u : ℝ} (hh : 0 < h) (h2 : u ≤ -h) : epanCDFr h u = 0 := by
  unfold epanCDFr; rw [if_neg (by linarith), if_neg (by linarith)]

/-- Fundamental theorem, pointwise form, away from the joins: for `u ≠ ±h` the real-valued
Epanechnikov CDF is differentiable at `u` with derivative the density. (`h > 0`.) -/
theorem epanCDFr_hasDerivAt_of_ne {h : ℝ} (hh : 0 < h) {u : ℝ} (h1 : u ≠ -h) (h2 : u ≠ h) :
    HasDerivAt (epanCDFr h) (epanPDFr h u) u := by
  rcases lt_or_gt_of_ne h1 with h1 | h1
  · -- left of the support
    have hp : epanPDFr h u = 0 := by unfold epanPDFr; rw [if_neg]; rintro ⟨a, b⟩; linarith
    rw [hp]
    refine (hasDerivAt_const u (0 : ℝ)).congr_of_eventuallyEq ?_
    filter_upwards [eventually_lt_nhds h1] with y hy
    exact epanCDFr_of_le hh hy.le
  rcases lt_or_gt_of_ne h2 with h2 | h2
  · -- inside the support
    have hp : epanPDFr h u = (3 / 4) / h * (1 - u * u / (h * h)) := by
      unfold epanPDFr; rw [if_pos ⟨h1, h2⟩]
    rw [hp]
    refine (hasDerivAt_cubic_div h u).congr_of_eventuallyEq ?_
    filter_upwards [eventually_gt_nhds h1, eventually_lt_nhds h2] with y hy1 hy2
    exact epanCDFr_of_mid hy1 hy2.le
  · -- right of the support
    have hp : epanPDFr h u = 0 := by unfold epanPDFr; rw [if_neg]; rintro ⟨a, b⟩; linarith
    rw [hp]
    refine (hasDerivAt_const u (1 : ℝ)).congr_of_eventuallyEq ?_
    filter_upwards [eventually_gt_nhds h2] with y hy
    exact epanCDFr_of_ge hh hy.le

example : HasDerivAt (epanCDFr 2) (epanPDFr 2 3) 3 :=
  epanCDFr_hasDerivAt_of_ne (by norm_num) (by norm_num) (by norm_num)

/-- Fundamental theorem, pointwise form, everywhere: the real-valued Epanechnikov CDF is
differentiable at every `u` (including the joins `u = ±h`, where both one-sided derivatives
are `0`) with derivative the density. (`h > 0`.) -/
theorem epanCDFr_hasDerivAt {h : ℝ} (hh : 0 < h) (u : ℝ) :
    HasDerivAt (epanCDFr h) (epanPDFr h u) u := by
  by_cases h1 : u = -h
  · subst h1
    have hp : epanPDFr h (-h) = 0 := by unfold epanPDFr; rw [if_neg]; rintro ⟨a, b⟩; linarith
    rw [hp, ← hasDerivWithinAt_univ, ← Set.Iic_union_Ici (a := -h)]
    refine HasDerivWithinAt.union ?_ ?_
    · refine (hasDerivAt_const (-h) (0 : ℝ)).hasDerivWithinAt.congr ?_ ?_
      · intro y hy; exact epanCDFr_of_le hh hy
      · exact epanCDFr_of_le hh le_rfl
    · have hd := (hasDerivAt_cubic_div h (-h)).hasDerivWithinAt (s := Set.Ici (-h))
      have hz : (3 / 4) / h * (1 - (-h) * (-h) / (h * h)) = 0 := by
        have := hh.ne'; field_simp; ring
      rw [hz] at hd
      refine hd.congr_of_eventuallyEq ?_ ?_
      · have e1 : ∀ᶠ y in nhdsWithin (-h) (Set.Ici (-h)), y < h :=
          eventually_nhdsWithin_of_eventually_nhds (eventually_lt_nhds (by linarith))
        filter_upwards [e1, self_mem_nhdsWithin] with y hy1 hy2
        rcases (Set.mem_Ici.mp hy2).lt_or_eq with hy2 | hy2
        · exact epanCDFr_of_mid hy2 hy1.le
        · subst hy2; rw [epanCDFr_of_le hh le_rfl, neg_div, div_self hh.ne']; norm_num
      · rw [epanCDFr_of_le hh le_rfl, neg_div, div_self hh.ne']; norm_num
  by_cases h2 : u = h
  · subst h2
    have hp : epanPDFr u u = 0 := by unfold epanPDFr; rw [if_neg]; rintro ⟨a, b⟩; linarith
    rw [hp, ← hasDerivWithinAt_univ, ← Set.Iic_union_Ici (a := u)]
    refine HasDerivWithinAt.union ?_ ?_
    · have hd := (hasDerivAt_cubic_div u u).hasDerivWithinAt (s := Set.Iic u)
      have hz : (3 / 4) / u * (1 - u * u / (u * u)) = 0 := by
        have := hh.ne'; field_simp; ring
      rw [hz] at hd
      refine hd.congr_of_eventuallyEq ?_ ?_
      · have e1 : ∀ᶠ y in nhdsWithin u (Set.Iic u), -u < y :=
          eventually_nhdsWithin_of_eventually_nhds (eventually_gt_nhds (by linarith))
        filter_upwards [e1, self_mem_nhdsWithin] with y hy1 hy2
        exact epanCDFr_of_mid hy1 hy2
      · exact epanCDFr_of_mid (by linarith) le_rfl
    · refine (hasDerivAt_const u (1 : ℝ)).hasDerivWithinAt.congr ?_ ?_
      · intro y hy; exact epanCDFr_of_ge hh hy
      · exact epanCDFr_of_ge hh le_rfl
  exact epanCDFr_hasDerivAt_of_ne hh h1 h2

example : HasDerivAt (epanCDFr 2) (epanPDFr 2 (1/2)) (1/2) := epanCDFr_hasDerivAt (by norm_num) _

/-- The integral of the Epanechnikov density over any interval equals the difference of the
CDF at the endpoints (interval integral over ℝ; `a ≤ b` is not even needed). -/
theorem epan_integral {h : ℝ} (hh : 0 < h) (a b : ℝ) :
    ∫ u in a..b, epanPDFr h u = epanCDFr h b - epanCDFr h a :=
  intervalIntegral.integral_eq_sub_of_hasDerivAt (fun x _ => epanCDFr_hasDerivAt hh x)
    ((epanPDFr_continuous hh).intervalIntegrable a b)

/-- The Epanechnikov density integrates to one over its support `[-h, h]`. -/
theorem epan_integral_support {h : ℝ} (hh : 0 < h) : ∫ u in (-h)..h, epanPDFr h u = 1 := by
  rw [epan_integral hh, epanCDFr_of_ge hh le_rfl, epanCDFr_of_le hh le_rfl]; norm_num

example : ∫ u in (-1 : ℝ)..(1/2), epanPDFr 2 u = 175/256 - 5/32 := by
  rw [epan_integral (by norm_num)]
  have e1 := epanCDFr_cast 2 (1/2)
  have e2 := epanCDFr_cast 2 (-1)
  have v1 : epanCDF 2 (1/2) = 175/256 := by unfold epanCDF; norm_num
  have v2 : epanCDF 2 (-1) = 5/32 := by unfold epanCDF; norm_num
  rw [v1] at e1; rw [v2] at e2; push_cast at e1 e2
  rw [← e1, ← e2]

/-! ## K2 — weighted averages -/

lemma foldl_add_init (xs : List ℚ) (a : ℚ) :
    xs.foldl (· + ·) a = a + xs.foldl (· + ·) 0 := by
  induction xs generalizing a with
  | nil => simp
  | cons x xs ih => simp only [List.foldl_cons]; rw [ih (a + x), ih (0 + x)]; ring

lemma sum_eq (xs : List ℚ) : sum xs = xs.sum := by
  induction xs with
  | nil => rfl
  | cons x xs ih =>
    unfold sum at ih ⊢
    simp only [List.foldl_cons, List.sum_cons]; rw [foldl_add_init, ih]; ring

lemma wavg_eq (f : ℚ → ℚ) (xs ws : List ℚ) (x : ℚ) :
    wavg f xs ws x = ((xs.zip ws).map (fun p => p.2 * f (x - p.1))).sum / ws.sum := by
  unfold wavg; rw [sum_eq, sum_eq]

lemma zip_w_nonneg {xs ws : List ℚ} (hw : ∀ w ∈ ws, 0 ≤ w) : ∀ p ∈ xs.zip ws, 0 ≤ p.2 := by
  rintro ⟨a, b⟩ hp; exact hw b (List.of_mem_zip hp).2

lemma zip_snd_sum_le {ws : List ℚ} (hw : ∀ w ∈ ws, 0 ≤ w) (xs : List ℚ) :
    ((xs.zip ws).map Prod.snd).sum ≤ ws.sum := by
  induction xs generalizing ws with
  | nil => simpa using List.sum_nonneg hw
  | cons a xs ih =>
    cases ws with
    | nil => simp
    | cons w ws =>
      simp only [List.zip_cons_cons, List.map_cons, List.sum_cons]
      have := ih (ws := ws) (fun w hw' => hw w (List.mem_cons_of_mem _ hw'))
      linarith

/-- weights are all positive (decidable) -/
def PosW (ws : List ℚ) : Prop := ∀ w ∈ ws, 0 < w

instance (ws : List ℚ) : Decidable (PosW ws) := by unfold PosW; infer_instance

lemma PosW.nonneg {ws : List ℚ} (h : PosW ws) : ∀ w ∈ ws, 0 ≤ w := fun w hw => (h w hw).le

lemma sum_pos_of_posW {ws : List ℚ} (h : PosW ws) (hne : ws ≠ []) : 0 < sum ws := by
  rw [sum_eq]
  cases ws with
  | nil => exact absurd rfl hne
  | cons w ws =>
    rw [List.sum_cons]
    have h1 : 0 < w := h w (List.mem_cons_self)
    have h2 : 0 ≤ ws.sum := List.sum_nonneg fun v hv => (h v (List.mem_cons_of_mem _ hv)).le
    linarith

example : PosW [1, 2, (1/2 : ℚ)] := by decide +kernel

/-- A weighted average (nonnegative weights) of a nonnegative function is nonnegative. -/
theorem wavg_nonneg {f : ℚ → ℚ} {xs ws : List ℚ} (hw : ∀ w ∈ ws, 0 ≤ w) (hf : ∀ u, 0 ≤ f u)
    (x : ℚ) : 0 ≤ wavg f xs ws x := by
  rw [wavg_eq]
  refine div_nonneg (List.sum_nonneg ?_) (List.sum_nonneg hw)
  intro v hv
  obtain ⟨p, hp, rfl⟩ := List.mem_map.mp hv
  exact mul_nonneg (zip_w_nonneg hw p hp) (hf _)

example : 0 ≤ wavg (fun u => u * u) [0, 1, 3] [1, 2, 1] 2 :=
  wavg_nonneg (by decide) (fun u => mul_self_nonneg u) _

/-- A weighted average (nonnegative weights) of a monotone function is monotone in `x`. -/
theorem wavg_mono {f : ℚ → ℚ} {xs ws : List ℚ} (hw : ∀ w ∈ ws, 0 ≤ w) (hf : Monotone f) :
    Monotone (wavg f xs ws) := by
  intro a b hab
  rw [wavg_eq, wavg_eq]
  refine div_le_div_of_nonneg_right (List.sum_le_sum ?_) (List.sum_nonneg hw)
  intro p hp
  exact mul_le_mul_of_nonneg_left (hf (by linarith)) (zip_w_nonneg hw p hp)

example : wavg (fun u => 2 * u) [0, 1, 3] [1, 2, 1] 1 ≤ wavg (fun u => 2 * u) [0, 1, 3] [1, 2, 1] 2 :=
  wavg_mono (by decide) (fun a b h => by show (2:ℚ) * a ≤ 2 * b; linarith) (by norm_num)

/-- A weighted average (nonnegative weights) of a function with values in `[0,1]` has values
in `[0,1]`. (No length or nonemptiness assumption needed: the model's `0/0 = 0`.) -/
theorem wavg_range {f : ℚ → ℚ} {xs ws : List ℚ} (hw : ∀ w ∈ ws, 0 ≤ w)
    (hf : ∀ u, 0 ≤ f u ∧ f u ≤ 1) (x : ℚ) : 0 ≤ wavg f xs ws x ∧ wavg f xs ws x ≤ 1 := by
  refine ⟨wavg_nonneg hw (fun u => (hf u).1) x, ?_⟩
  rw [wavg_eq]
  have h0 : 0 ≤ ws.sum := List.sum_nonneg hw
  refine div_le_one_of_le₀ ?_ h0
  refine le_trans (List.sum_le_sum (g := Prod.snd) ?_) (zip_snd_sum_le hw xs)
  intro p hp
  have := zip_w_nonneg hw p hp
  nlinarith [(hf (x - p.1)).2]

example : 0 ≤ wavg deltaCDF [0, 1, 3] [1, 2, 1] 2 ∧ wavg deltaCDF [0, 1, 3] [1, 2, 1] 2 ≤ 1 :=
  wavg_range (by decide) (fun u => by unfold deltaCDF; split_ifs <;> norm_num) _

/-- If `f (x − xᵢ) = g (x − xᵢ)` at every data point then the weighted averages agree at `x`. -/
theorem wavg_congr_at {f g : ℚ → ℚ} {xs : List ℚ} (ws : List ℚ) {x : ℚ}
    (hfg : ∀ xi ∈ xs, f (x - xi) = g (x - xi)) : wavg f xs ws x = wavg g xs ws x := by
  rw [wavg_eq, wavg_eq]
  congr 1
  congr 1
  refine List.map_congr_left ?_
  rintro ⟨a, b⟩ hp
  simp only
  rw [hfg a (List.of_mem_zip hp).1]

example : wavg (fun u => u * u) [0, 1, 3] [1, 2, 1] 2 = wavg (fun u => |u| * |u|) [0, 1, 3] [1, 2, 1] 2 :=
  wavg_congr_at _ (fun xi _ => by simp)

/-- If `f (x − xᵢ) = c` at every data point (equal-length lists, nonzero total weight) then
the weighted average at `x` is `c`. -/
theorem wavg_const_at {f : ℚ → ℚ} {xs ws : List ℚ} {x c : ℚ} (hlen : xs.length = ws.length)
    (hs : sum ws ≠ 0) (hf : ∀ xi ∈ xs, f (x - xi) = c) : wavg f xs ws x = c := by
  rw [wavg_congr_at (g := fun _ => c) ws hf, wavg_eq]
  rw [sum_eq] at hs
  have : ((xs.zip ws).map (fun p => p.2 * c)).sum = c * ws.sum := by
    calc ((xs.zip ws).map (fun p => p.2 * c)).sum = c * ((xs.zip ws).map Prod.snd).sum := by
          rw [← List.sum_map_mul_left]; simp only [mul_comm]
      _ = c * ws.sum := by rw [List.map_snd_zip hlen.ge]
  rw [this]; field_simp

example : wavg deltaCDF [0, 1, 3] [1, 2, 1] 4 = 1 :=
  wavg_const_at (xs := [0, 1, 3]) (ws := [1, 2, 1]) rfl (by decide +kernel) (by decide +kernel)

/-- A weighted average (equal-length lists, nonzero total weight) of the constant function `c`
is `c`. -/
theorem wavg_const {f : ℚ → ℚ} {xs ws : List ℚ} {c : ℚ} (hlen : xs.length = ws.length)
    (hs : sum ws ≠ 0) (hf : ∀ u, f u = c) (x : ℚ) : wavg f xs ws x = c :=
  wavg_const_at hlen hs (fun _ _ => hf _)

example : wavg (fun _ => 7) [0, 1, 3] [1, 2, 1] 2 = 7 :=
  wavg_const (xs := [0, 1, 3]) (ws := [1, 2, 1]) rfl (by decide +kernel) (fun _ => rfl) _

/-- If `f (x − xᵢ) = 0` at every data point, the weighted average at `x` is `0`
(no side conditions). -/
theorem wavg_zero_at {f : ℚ → ℚ} {xs : List ℚ} (ws : List ℚ) {x : ℚ}
    (hf : ∀ xi ∈ xs, f (x - xi) = 0) : wavg f xs ws x = 0 := by
  rw [wavg_congr_at (g := fun _ => 0) ws hf, wavg_eq]
  simp

example : wavg deltaCDF [0, 1, 3] [1, 2, 1] (-1) = 0 :=
  wavg_zero_at _ (by decide +kernel)

/-- The unbounded Epanechnikov density estimate is nonnegative. -/
theorem epanKDEpdf_none_nonneg {xs ws : List ℚ} {h : ℚ} (hh : 0 < h) (hw : ∀ w ∈ ws, 0 ≤ w)
    (n : ℕ) (x : ℚ) : 0 ≤ epanKDEpdf xs ws h .none n x :=
  wavg_nonneg hw (epanPDF_nonneg hh) x

example : 0 ≤ epanKDEpdf [0, 1, 3] [1, 2, 1] 2 .none 0 (3/2) :=
  epanKDEpdf_none_nonneg (by norm_num) (by decide) _ _

/-- The unbounded Epanechnikov CDF estimate is monotone. -/
theorem epanKDEcdf_none_mono {xs ws : List ℚ} {h : ℚ} (hh : 0 < h) (hw : ∀ w ∈ ws, 0 ≤ w)
    (n : ℕ) : Monotone (epanKDEcdf xs ws h .none n) :=
  wavg_mono hw (epanCDF_mono hh)

example : epanKDEcdf [0, 1, 3] [1, 2, 1] 2 .none 0 1 ≤ epanKDEcdf [0, 1, 3] [1, 2, 1] 2 .none 0 (3/2) :=
  epanKDEcdf_none_mono (by norm_num) (by decide) _ (by norm_num)

/-- The unbounded Epanechnikov CDF estimate has values in `[0,1]`. -/
theorem epanKDEcdf_none_range {xs ws : List ℚ} {h : ℚ} (hh : 0 < h) (hw : ∀ w ∈ ws, 0 ≤ w)
    (n : ℕ) (x : ℚ) :
    0 ≤ epanKDEcdf xs ws h .none n x ∧ epanKDEcdf xs ws h .none n x ≤ 1 :=
  wavg_range hw (epanCDF_range hh) x

example : 0 ≤ epanKDEcdf [0, 1, 3] [1, 2, 1] 2 .none 0 1 ∧ epanKDEcdf [0, 1, 3] [1, 2, 1] 2 .none 0 1 ≤ 1 :=
  epanKDEcdf_none_range (by norm_num) (by decide) _ _

/-- The unbounded Epanechnikov CDF estimate is `0` for `x ≤ min xs − h`
(stated as: `x ≤ xᵢ − h` for every data point). -/
theorem epanKDEcdf_none_eq_zero {xs : List ℚ} (ws : List ℚ) {h : ℚ} (hh : 0 < h) (n : ℕ) {x : ℚ}
    (hx : ∀ xi ∈ xs, x ≤ xi - h) : epanKDEcdf xs ws h .none n x = 0 :=
  wavg_zero_at ws fun xi hxi => epanCDF_eq_zero hh (by linarith [hx xi hxi])

example : epanKDEcdf [0, 1, 3] [1, 2, 1] 2 .none 0 (-2) = 0 :=
  epanKDEcdf_none_eq_zero _ (by norm_num) _ (by decide +kernel)

/-- The unbounded Epanechnikov CDF estimate is `1` for `x ≥ max xs + h`
(stated as: `xᵢ + h ≤ x` for every data point; equal-length lists, nonzero total weight). -/
theorem epanKDEcdf_none_eq_one {xs ws : List ℚ} {h : ℚ} (hh : 0 < h) (hlen : xs.length = ws.length)
    (hs : sum ws ≠ 0) (n : ℕ) {x : ℚ}
    (hx : ∀ xi ∈ xs, xi + h ≤ x) : epanKDEcdf xs ws h .none n x = 1 :=
  wavg_const_at hlen hs fun xi hxi => epanCDF_eq_one hh (by linarith [hx xi hxi])

example : epanKDEcdf [0, 1, 3] [1, 2, 1] 2 .none 0 5 = 1 :=
  epanKDEcdf_none_eq_one (xs := [0, 1, 3]) (ws := [1, 2, 1]) (h := 2) (by norm_num) rfl
    (by decide +kernel) _ (by decide +kernel)

/-- The unbounded Epanechnikov density estimate vanishes for `x ≤ min xs − h` or
`x ≥ max xs + h`. -/
theorem epanKDEpdf_none_eq_zero {xs : List ℚ} (ws : List ℚ) {h : ℚ} (n : ℕ) {x : ℚ}
    (hx : (∀ xi ∈ xs, x ≤ xi - h) ∨ (∀ xi ∈ xs, xi + h ≤ x)) :
    epanKDEpdf xs ws h .none n x = 0 := by
  refine wavg_zero_at ws fun xi hxi => epanPDF_eq_zero ?_
  rcases hx with hx | hx
  · left; linarith [hx xi hxi]
  · right; linarith [hx xi hxi]

example : epanKDEpdf [0, 1, 3] [1, 2, 1] 2 .none 0 5 = 0 :=
  epanKDEpdf_none_eq_zero _ _ (Or.inr (by decide +kernel))

/-! ## K3 — reflection at one boundary -/

/-- With a lower boundary the reflected CDF is exactly `0` at the boundary, for every `Y`. -/
theorem cdfB_lower_at_min (Y : ℚ → ℚ) (mn : ℚ) (n : ℕ) : cdfB ratOps Y (.lower mn) n mn = 0 := by
  simp only [cdfB, lt_self_iff_false, if_false, ratOps]
  rw [show 2 * mn - mn = mn by ring]; ring

example : cdfB ratOps (fun x => x * x + 1) (.lower 3) 2 3 = 0 := cdfB_lower_at_min _ _ _

/-- With a lower boundary the reflected CDF is `0` below the boundary (any value type). -/
theorem cdfB_lower_of_lt {α} (o : Ops α) (Y : ℚ → α) {mn x : ℚ} (n : ℕ) (hx : x < mn) :
    cdfB o Y (.lower mn) n x = o.zero := by
  simp only [cdfB, hx, if_true]

example : cdfB ratOps (fun x => x) (.lower 3) 2 1 = 0 := cdfB_lower_of_lt _ _ _ (by norm_num)

lemma cdfB_lower_of_ge (Y : ℚ → ℚ) {mn x : ℚ} (n : ℕ) (hx : mn ≤ x) :
    cdfB ratOps Y (.lower mn) n x = Y x - Y (2 * mn - x) := by
  simp only [cdfB, not_lt.mpr hx, if_false, ratOps]

/-- With a lower boundary and monotone `Y`, the reflected CDF is nonnegative everywhere. -/
theorem cdfB_lower_nonneg {Y : ℚ → ℚ} (hY : Monotone Y) (mn : ℚ) (n : ℕ) (x : ℚ) :
    0 ≤ cdfB ratOps Y (.lower mn) n x := by
  rcases lt_or_ge x mn with hx | hx
  · rw [cdfB_lower_of_lt _ _ _ hx]; exact le_rfl
  · rw [cdfB_lower_of_ge _ _ hx]
    have := hY (show 2 * mn - x ≤ x by linarith); linarith

example : 0 ≤ cdfB ratOps (epanCDF 2) (.lower 1) 0 (3/2) :=
  cdfB_lower_nonneg (epanCDF_mono (by norm_num)) _ _ _

/-- With a lower boundary and monotone `Y`, the reflected CDF is monotone on all of ℚ (it is `0`
below `mn`; on `[mn, ∞)` both `Y x` increases and `Y (2 mn − x)` decreases). -/
theorem cdfB_lower_mono {Y : ℚ → ℚ} (hY : Monotone Y) (mn : ℚ) (n : ℕ) :
    Monotone (cdfB ratOps Y (.lower mn) n) := by
  intro a b hab
  rcases lt_or_ge a mn with ha | ha
  · rw [cdfB_lower_of_lt _ _ _ ha]; exact cdfB_lower_nonneg hY mn n b
  · rw [cdfB_lower_of_ge _ _ ha, cdfB_lower_of_ge _ _ (ha.trans hab)]
    have h1 := hY hab
    have h2 := hY (show 2 * mn - b ≤ 2 * mn - a by linarith)
    linarith

/-- `cdfB_lower_mono` restricted to `[mn, ∞)` as requested. -/
theorem cdfB_lower_monoOn {Y : ℚ → ℚ} (hY : Monotone Y) (mn : ℚ) (n : ℕ) :
    MonotoneOn (cdfB ratOps Y (.lower mn) n) (Set.Ici mn) :=
  (cdfB_lower_mono hY mn n).monotoneOn _

example : cdfB ratOps (epanCDF 2) (.lower 1) 0 (3/2) ≤ cdfB ratOps (epanCDF 2) (.lower 1) 0 2 :=
  cdfB_lower_mono (epanCDF_mono (by norm_num)) _ _ (by norm_num)

/-- With a lower boundary and `Y` with values in `[0,1]`, the reflected CDF is at most `1`. -/
theorem cdfB_lower_le_one {Y : ℚ → ℚ} (hY : ∀ u, 0 ≤ Y u ∧ Y u ≤ 1) (mn : ℚ) (n : ℕ) (x : ℚ) :
    cdfB ratOps Y (.lower mn) n x ≤ 1 := by
  rcases lt_or_ge x mn with hx | hx
  · rw [cdfB_lower_of_lt _ _ _ hx]; exact zero_le_one
  · rw [cdfB_lower_of_ge _ _ hx]; linarith [(hY x).2, (hY (2 * mn - x)).1]

example : cdfB ratOps (epanCDF 2) (.lower 1) 0 (3/2) ≤ 1 :=
  cdfB_lower_le_one (epanCDF_range (by norm_num)) _ _ _

/-- With a lower boundary the reflected density is `0` below the boundary (any value type). -/
theorem pdfB_lower_of_lt {α} (o : Ops α) (y : ℚ → α) {mn x : ℚ} (n : ℕ) (hx : x < mn) :
    pdfB o y (.lower mn) n x = o.zero := by
  simp only [pdfB, hx, if_true]

example : pdfB ratOps (fun x => x) (.lower 3) 2 1 = 0 := pdfB_lower_of_lt _ _ _ (by norm_num)

/-- With a lower boundary and `y ≥ 0`, the reflected density is nonnegative. -/
theorem pdfB_lower_nonneg {y : ℚ → ℚ} (hy : ∀ u, 0 ≤ y u) (mn : ℚ) (n : ℕ) (x : ℚ) :
    0 ≤ pdfB ratOps y (.lower mn) n x := by
  simp only [pdfB, ratOps]
  split_ifs
  · exact le_rfl
  · exact add_nonneg (hy _) (hy _)

example : 0 ≤ pdfB ratOps (epanPDF 2) (.lower 1) 0 (3/2) :=
  pdfB_lower_nonneg (epanPDF_nonneg (by norm_num)) _ _ _

/-- With an upper boundary the reflected CDF is `1` from the boundary on (any value type). -/
theorem cdfB_upper_of_ge {α} (o : Ops α) (Y : ℚ → α) {mx x : ℚ} (n : ℕ) (hx : mx ≤ x) :
    cdfB o Y (.upper mx) n x = o.one := by
  simp only [cdfB, ge_iff_le, hx, if_true]

example : cdfB ratOps (fun x => x) (.upper 3) 2 3 = 1 := cdfB_upper_of_ge _ _ _ le_rfl

lemma cdfB_upper_of_lt (Y : ℚ → ℚ) {mx x : ℚ} (n : ℕ) (hx : x < mx) :
    cdfB ratOps Y (.upper mx) n x = Y x + (1 - Y (2 * mx - x)) := by
  simp only [cdfB, ge_iff_le, not_le.mpr hx, if_false, ratOps]

/-- With an upper boundary and monotone `Y`, the reflected CDF is at most `1` everywhere
(`Y x + 1 − Y (2 mx − x) ≤ 1` for `x ≤ mx`). -/
theorem cdfB_upper_le_one {Y : ℚ → ℚ} (hY : Monotone Y) (mx : ℚ) (n : ℕ) (x : ℚ) :
    cdfB ratOps Y (.upper mx) n x ≤ 1 := by
  rcases lt_or_ge x mx with hx | hx
  · rw [cdfB_upper_of_lt _ _ hx]
    have := hY (show x ≤ 2 * mx - x by linarith); linarith
  · rw [cdfB_upper_of_ge _ _ _ hx]; exact le_rfl

example : cdfB ratOps (epanCDF 2) (.upper 1) 0 (1/2) ≤ 1 :=
  cdfB_upper_le_one (epanCDF_mono (by norm_num)) _ _ _

/-- With an upper boundary and monotone `Y`, the reflected CDF is monotone on all of ℚ. -/
theorem cdfB_upper_mono {Y : ℚ → ℚ} (hY : Monotone Y) (mx : ℚ) (n : ℕ) :
    Monotone (cdfB ratOps Y (.upper mx) n) := by
  intro a b hab
  rcases lt_or_ge b mx with hb | hb
  · rw [cdfB_upper_of_lt _ _ hb, cdfB_upper_of_lt _ _ (lt_of_le_of_lt hab hb)]
    have h1 := hY hab
    have h2 := hY (show 2 * mx - b ≤ 2 * mx - a by linarith)
    linarith
  · rw [cdfB_upper_of_ge _ _ _ hb]; exact cdfB_upper_le_one hY mx n a

example : cdfB ratOps (epanCDF 2) (.upper 1) 0 0 ≤ cdfB ratOps (epanCDF 2) (.upper 1) 0 (1/2) :=
  cdfB_upper_mono (epanCDF_mono (by norm_num)) _ _ (by norm_num)

/-- With an upper boundary and `Y` with values in `[0,1]`, the reflected CDF is nonnegative. -/
theorem cdfB_upper_nonneg {Y : ℚ → ℚ} (hY : ∀ u, 0 ≤ Y u ∧ Y u ≤ 1) (mx : ℚ) (n : ℕ) (x : ℚ) :
    0 ≤ cdfB ratOps Y (.upper mx) n x := by
  rcases lt_or_ge x mx with hx | hx
  · rw [cdfB_upper_of_lt _ _ hx]; linarith [(hY x).1, (hY (2 * mx - x)).2]
  · rw [cdfB_upper_of_ge _ _ _ hx]; exact zero_le_one

example : 0 ≤ cdfB ratOps (epanCDF 2) (.upper 1) 0 (1/2) :=
  cdfB_upper_nonneg (epanCDF_range (by norm_num)) _ _ _

/-- With an upper boundary the reflected density is `0` from the boundary on (any value type). -/
theorem pdfB_upper_of_ge {α} (o : Ops α) (y : ℚ → α) {mx x : ℚ} (n : ℕ) (hx : mx ≤ x) :
    pdfB o y (.upper mx) n x = o.zero := by
  simp only [pdfB, ge_iff_le, hx, if_true]

example : pdfB ratOps (fun x => x) (.upper 3) 2 3 = 0 := pdfB_upper_of_ge _ _ _ le_rfl

/-- With an upper boundary and `y ≥ 0`, the reflected density is nonnegative. -/
theorem pdfB_upper_nonneg {y : ℚ → ℚ} (hy : ∀ u, 0 ≤ y u) (mx : ℚ) (n : ℕ) (x : ℚ) :
    0 ≤ pdfB ratOps y (.upper mx) n x := by
  simp only [pdfB, ratOps]
  split_ifs
  · exact le_rfl
  · exact add_nonneg (hy _) (hy _)

example : 0 ≤ pdfB ratOps (epanPDF 2) (.upper 1) 0 (1/2) :=
  pdfB_upper_nonneg (epanPDF_nonneg (by norm_num)) _ _ _

/-! ## K4 — two boundaries -/

lemma sumN_rat (n : ℕ) (f : ℕ → ℚ) : sumN ratOps n f = ∑ i ∈ Finset.range n, f i := by
  induction n with
  | zero => simp [sumN, ratOps]
  | succ n ih =>
    rw [Finset.sum_range_succ, ← ih]
    simp [sumN, List.range_succ, ratOps]

/-- the `k`-th term of the first (right-going) image sum of `cdfB … (.both mn mx)` -/
def bothT1 (Y : ℚ → ℚ) (mn mx x : ℚ) (k : ℕ) : ℚ :=
  Y (x + k * (2 * (mx - mn))) - Y (x + k * (2 * (mx - mn)) - 2 * (x - mn))

/-- the `k`-th term of the second (left-going) image sum of `cdfB … (.both mn mx)` -/
def bothT2 (Y : ℚ → ℚ) (mn mx x : ℚ) (k : ℕ) : ℚ :=
  Y (x - (k + 1 : ℕ) * (2 * (mx - mn))) - Y (x - (k + 1 : ℕ) * (2 * (mx - mn)) - 2 * (x - mn))

/-- the two-sided image-sum formula used by `cdfB … (.both mn mx)` inside `[mn, mx)` -/
def bothFormula (Y : ℚ → ℚ) (mn mx : ℚ) (n : ℕ) (x : ℚ) : ℚ :=
  ∑ k ∈ Finset.range n, bothT1 Y mn mx x k + ∑ k ∈ Finset.range n, bothT2 Y mn mx x k

/-- Inside `[mn, mx)` the two-boundary CDF is the image-sum formula `bothFormula`. -/
theorem cdfB_both_eq (Y : ℚ → ℚ) {mn mx x : ℚ} (n : ℕ) (h1 : mn ≤ x) (h2 : x < mx) :
    cdfB ratOps Y (.both mn mx) n x = bothFormula Y mn mx n x := by
  simp only [cdfB, not_lt.mpr h1, ge_iff_le, not_le.mpr h2, if_false, sumN_rat]
  rfl

example : cdfB ratOps (epanCDF 2) (.both 0 1) 2 (1/2) = bothFormula (epanCDF 2) 0 1 2 (1/2) :=
  cdfB_both_eq _ _ (by norm_num) (by norm_num)

/-- With two boundaries the CDF is `0` below `mn` (any value type). -/
theorem cdfB_both_of_lt {α} (o : Ops α) (Y : ℚ → α) {mn mx x : ℚ} (n : ℕ) (hx : x < mn) :
    cdfB o Y (.both mn mx) n x = o.zero := by
  simp only [cdfB, hx, if_true]

example : cdfB ratOps (fun x => x) (.both 0 1) 2 (-1) = 0 := cdfB_both_of_lt _ _ _ (by norm_num)

lemma cdfB_both_of_ge' {α} (o : Ops α) (Y : ℚ → α) {mn mx x : ℚ} (n : ℕ) (h1 : mn ≤ x)
    (hx : mx ≤ x) : cdfB o Y (.both mn mx) n x = o.one := by
  simp only [cdfB, not_lt.mpr h1, ge_iff_le, hx, if_true, if_false]

/-- With two boundaries `mn ≤ mx` the CDF is `1` from `mx` on (any value type). -/
theorem cdfB_both_of_ge {α} (o : Ops α) (Y : ℚ → α) {mn mx x : ℚ} (n : ℕ) (hmm : mn ≤ mx)
    (hx : mx ≤ x) : cdfB o Y (.both mn mx) n x = o.one :=
  cdfB_both_of_ge' o Y n (hmm.trans hx) hx

example : cdfB ratOps (fun x => x) (.both 0 1) 2 1 = 1 :=
  cdfB_both_of_ge _ _ _ (by norm_num) le_rfl

/-- With two boundaries `mn < mx` the CDF is exactly `0` at `mn`, for every `Y` and every number
of images: every term `Y(a) − Y(a − 0)` vanishes. -/
theorem cdfB_both_at_min (Y : ℚ → ℚ) {mn mx : ℚ} (n : ℕ) (hmm : mn < mx) :
    cdfB ratOps Y (.both mn mx) n mn = 0 := by
  rw [cdfB_both_eq Y n le_rfl hmm]
  unfold bothFormula bothT1 bothT2
  simp

example : cdfB ratOps (fun x => x * x) (.both 0 1) 3 0 = 0 := cdfB_both_at_min _ _ (by norm_num)

/-- For monotone `Y` and `mn ≤ x`, every term of both image sums is nonnegative. -/
theorem cdfB_both_terms_nonneg {Y : ℚ → ℚ} (hY : Monotone Y) {mn x : ℚ} (mx : ℚ) (h1 : mn ≤ x)
    (k : ℕ) : 0 ≤ bothT1 Y mn mx x k ∧ 0 ≤ bothT2 Y mn mx x k := by
  unfold bothT1 bothT2
  constructor
  · have := hY (show x + k * (2 * (mx - mn)) - 2 * (x - mn) ≤ x + k * (2 * (mx - mn)) by linarith)
    linarith
  · have := hY (show x - (k + 1 : ℕ) * (2 * (mx - mn)) - 2 * (x - mn)
      ≤ x - (k + 1 : ℕ) * (2 * (mx - mn)) by linarith)
    linarith

example : 0 ≤ bothT1 (epanCDF 2) 0 1 (1/2) 1 :=
  (cdfB_both_terms_nonneg (epanCDF_mono (by norm_num)) _ (by norm_num) _).1

lemma bothFormula_nonneg {Y : ℚ → ℚ} (hY : Monotone Y) {mn x : ℚ} (mx : ℚ) (n : ℕ) (h1 : mn ≤ x) :
    0 ≤ bothFormula Y mn mx n x :=
  add_nonneg (Finset.sum_nonneg fun k _ => (cdfB_both_terms_nonneg hY mx h1 k).1)
    (Finset.sum_nonneg fun k _ => (cdfB_both_terms_nonneg hY mx h1 k).2)

/-- For monotone `Y`, every term of both image sums is monotone in `x`. -/
theorem cdfB_both_terms_mono {Y : ℚ → ℚ} (hY : Monotone Y) (mn mx : ℚ) (k : ℕ) :
    Monotone (fun x => bothT1 Y mn mx x k) ∧ Monotone (fun x => bothT2 Y mn mx x k) := by
  constructor
  · intro a b hab
    simp only [bothT1]
    have h1 := hY (show a + k * (2 * (mx - mn)) ≤ b + k * (2 * (mx - mn)) by linarith)
    have h2 := hY (show b + k * (2 * (mx - mn)) - 2 * (b - mn)
      ≤ a + k * (2 * (mx - mn)) - 2 * (a - mn) by linarith)
    linarith
  · intro a b hab
    simp only [bothT2]
    have h1 := hY (show a - (k + 1 : ℕ) * (2 * (mx - mn)) ≤ b - (k + 1 : ℕ) * (2 * (mx - mn)) by
      linarith)
    have h2 := hY (show b - (k + 1 : ℕ) * (2 * (mx - mn)) - 2 * (b - mn)
      ≤ a - (k + 1 : ℕ) * (2 * (mx - mn)) - 2 * (a - mn) by linarith)
    linarith

example : bothT2 (epanCDF 2) 0 1 (1/4) 1 ≤ bothT2 (epanCDF 2) 0 1 (1/2) 1 :=
  (cdfB_both_terms_mono (epanCDF_mono (by norm_num)) 0 1 1).2 (by norm_num)

lemma bothFormula_mono {Y : ℚ → ℚ} (hY : Monotone Y) (mn mx : ℚ) (n : ℕ) :
    Monotone (bothFormula Y mn mx n) := by
  intro a b hab
  unfold bothFormula
  exact add_le_add (Finset.sum_le_sum fun k _ => (cdfB_both_terms_mono hY mn mx k).1 hab)
    (Finset.sum_le_sum fun k _ => (cdfB_both_terms_mono hY mn mx k).2 hab)

/-- For monotone `Y` the two-boundary CDF is nonnegative everywhere. -/
theorem cdfB_both_nonneg {Y : ℚ → ℚ} (hY : Monotone Y) (mn mx : ℚ) (n : ℕ) (x : ℚ) :
    0 ≤ cdfB ratOps Y (.both mn mx) n x := by
  rcases lt_or_ge x mn with h1 | h1
  · rw [cdfB_both_of_lt _ _ _ h1]; exact le_rfl
  rcases lt_or_ge x mx with h2 | h2
  · rw [cdfB_both_eq Y n h1 h2]; exact bothFormula_nonneg hY mx n h1
  · rw [cdfB_both_of_ge' _ _ _ h1 h2]; exact zero_le_one

example : 0 ≤ cdfB ratOps (epanCDF 2) (.both 0 1) 2 (1/2) :=
  cdfB_both_nonneg (epanCDF_mono (by norm_num)) _ _ _ _

/-- For monotone `Y` the two-boundary CDF is monotone in `x` on `[mn, mx)`. -/
theorem cdfB_both_monoOn {Y : ℚ → ℚ} (hY : Monotone Y) (mn mx : ℚ) (n : ℕ) :
    MonotoneOn (cdfB ratOps Y (.both mn mx) n) (Set.Ico mn mx) := by
  intro a ha b hb hab
  rw [cdfB_both_eq Y n ha.1 ha.2, cdfB_both_eq Y n hb.1 hb.2]
  exact bothFormula_mono hY mn mx n hab

example : cdfB ratOps (epanCDF 2) (.both 0 1) 2 (1/4) ≤ cdfB ratOps (epanCDF 2) (.both 0 1) 2 (1/2) :=
  cdfB_both_monoOn (epanCDF_mono (by norm_num)) 0 1 2 (by norm_num) (by norm_num) (by norm_num)

lemma bothT1_sum_le {Y : ℚ → ℚ} (hY : Monotone Y) {mn mx x : ℚ} (h2 : x ≤ mx) (n : ℕ) :
    ∑ k ∈ Finset.range n, bothT1 Y mn mx x k + Y (2 * mn - x)
      ≤ Y (2 * mn - x + n * (2 * (mx - mn))) := by
  induction n with
  | zero => simp
  | succ n ih =>
    rw [Finset.sum_range_succ]
    unfold bothT1 at ih ⊢
    have e : x + n * (2 * (mx - mn)) - 2 * (x - mn) = 2 * mn - x + n * (2 * (mx - mn)) := by ring
    rw [e]
    have := hY (show x + n * (2 * (mx - mn)) ≤ 2 * mn - x + ((n + 1 : ℕ) : ℚ) * (2 * (mx - mn)) by
      push_cast; linarith)
    linarith

lemma bothT2_sum_le {Y : ℚ → ℚ} (hY : Monotone Y) {mn mx x : ℚ} (h2 : x ≤ mx) (n : ℕ) :
    ∑ k ∈ Finset.range n, bothT2 Y mn mx x k
      ≤ Y (2 * mn - x) - Y (2 * mn - x - n * (2 * (mx - mn))) := by
  induction n with
  | zero => simp
  | succ n ih =>
    rw [Finset.sum_range_succ]
    unfold bothT2 at ih ⊢
    have e : x - ((n + 1 : ℕ) : ℚ) * (2 * (mx - mn)) - 2 * (x - mn)
        = 2 * mn - x - ((n + 1 : ℕ) : ℚ) * (2 * (mx - mn)) := by ring
    rw [e]
    have := hY (show x - ((n + 1 : ℕ) : ℚ) * (2 * (mx - mn)) ≤ 2 * mn - x - n * (2 * (mx - mn)) by
      push_cast; linarith)
    linarith

/-- Disjointness of the image intervals: for monotone `Y` and `mn ≤ x < mx` the two-boundary
CDF with `n` image pairs is at most the `Y`-mass of the single interval
`(2 mn − x − n d, 2 mn − x + n d]`, `d = 2 (mx − mn)`. -/
theorem cdfB_both_le_mass {Y : ℚ → ℚ} (hY : Monotone Y) {mn mx x : ℚ} (n : ℕ)
    (h1 : mn ≤ x) (h2 : x < mx) :
    cdfB ratOps Y (.both mn mx) n x
      ≤ Y (2 * mn - x + n * (2 * (mx - mn))) - Y (2 * mn - x - n * (2 * (mx - mn))) := by
  rw [cdfB_both_eq Y n h1 h2]
  unfold bothFormula
  linarith [bothT1_sum_le hY (mn := mn) h2.le n, bothT2_sum_le hY (mn := mn) h2.le n]

example : cdfB ratOps (epanCDF 2) (.both 0 1) 2 (1/2)
    ≤ epanCDF 2 (2 * 0 - 1/2 + (2 : ℕ) * (2 * (1 - 0))) - epanCDF 2 (2 * 0 - 1/2 - (2 : ℕ) * (2 * (1 - 0))) :=
  cdfB_both_le_mass (epanCDF_mono (by norm_num)) 2 (by norm_num) (by norm_num)

/-- For monotone `Y` with values in `[0,1]` the two-boundary CDF is at most `1` everywhere. -/
theorem cdfB_both_le_one {Y : ℚ → ℚ} (hY : Monotone Y) (hr : ∀ u, 0 ≤ Y u ∧ Y u ≤ 1)
    (mn mx : ℚ) (n : ℕ) (x : ℚ) : cdfB ratOps Y (.both mn mx) n x ≤ 1 := by
  rcases lt_or_ge x mn with h1 | h1
  · rw [cdfB_both_of_lt _ _ _ h1]; exact zero_le_one
  rcases lt_or_ge x mx with h2 | h2
  · refine (cdfB_both_le_mass hY n h1 h2).trans ?_
    linarith [(hr (2 * mn - x + n * (2 * (mx - mn)))).2, (hr (2 * mn - x - n * (2 * (mx - mn)))).1]
  · rw [cdfB_both_of_ge' _ _ _ h1 h2]; exact le_rfl

example : cdfB ratOps (epanCDF 2) (.both 0 1) 2 (1/2) ≤ 1 :=
  cdfB_both_le_one (epanCDF_mono (by norm_num)) (epanCDF_range (by norm_num)) _ _ _ _

/-- For monotone `Y` with values in `[0,1]` the two-boundary CDF is monotone on all of ℚ
(`0` below `mn`, the image sums on `[mn, mx)`, `1` from `mx` on). -/
theorem cdfB_both_mono {Y : ℚ → ℚ} (hY : Monotone Y) (hr : ∀ u, 0 ≤ Y u ∧ Y u ≤ 1)
    (mn mx : ℚ) (n : ℕ) : Monotone (cdfB ratOps Y (.both mn mx) n) := by
  intro a b hab
  rcases lt_or_ge a mn with ha | ha
  · rw [cdfB_both_of_lt _ _ _ ha]; exact cdfB_both_nonneg hY mn mx n b
  rcases lt_or_ge b mx with hb | hb
  · exact cdfB_both_monoOn hY mn mx n ⟨ha, lt_of_le_of_lt hab hb⟩ ⟨ha.trans hab, hb⟩ hab
  · rcases lt_or_ge a mx with ha2 | ha2
    · rw [cdfB_both_of_ge' _ _ _ (ha.trans hab) hb]; exact cdfB_both_le_one hY hr mn mx n a
    · rw [cdfB_both_of_ge' _ _ _ (ha.trans hab) hb, cdfB_both_of_ge' _ _ _ ha ha2]

example : cdfB ratOps (epanCDF 2) (.both 0 1) 2 (1/2) ≤ cdfB ratOps (epanCDF 2) (.both 0 1) 2 3 :=
  cdfB_both_mono (epanCDF_mono (by norm_num)) (epanCDF_range (by norm_num)) _ _ _ (by norm_num)

/-- Telescoping at the upper boundary: evaluated at `x = mx` the image-sum formula collapses to
the `Y`-mass of one interval of length `2 n d` (`d = 2 (mx − mn)`):
`Y (mx + (n − 1) d) − Y (mx − (n + 1) d)`. So as `x → mx` the finite sums collect all the mass
within `n d` of the reflected point `mx − d = 2 mn − mx`. -/
theorem bothFormula_at_max (Y : ℚ → ℚ) (mn mx : ℚ) (n : ℕ) :
    bothFormula Y mn mx n mx
      = Y (mx + ((n : ℚ) - 1) * (2 * (mx - mn))) - Y (mx - ((n : ℚ) + 1) * (2 * (mx - mn))) := by
  have e1 : ∀ m : ℕ, ∑ k ∈ Finset.range m, bothT1 Y mn mx mx k
      = Y (mx + ((m : ℚ) - 1) * (2 * (mx - mn))) - Y (mx - 2 * (mx - mn)) := by
    intro m
    induction m with
    | zero => simp [← sub_eq_add_neg]
    | succ m ih =>
      rw [Finset.sum_range_succ, ih]; unfold bothT1; push_cast
      rw [show mx + (m : ℚ) * (2 * (mx - mn)) - 2 * (mx - mn)
        = mx + ((m : ℚ) - 1) * (2 * (mx - mn)) by ring,
        show mx + ((m : ℚ) + 1 - 1) * (2 * (mx - mn)) = mx + (m : ℚ) * (2 * (mx - mn)) by ring]
      ring
  have e2 : ∀ m : ℕ, ∑ k ∈ Finset.range m, bothT2 Y mn mx mx k
      = Y (mx - 2 * (mx - mn)) - Y (mx - ((m : ℚ) + 1) * (2 * (mx - mn))) := by
    intro m
    induction m with
    | zero => simp
    | succ m ih =>
      rw [Finset.sum_range_succ, ih]; unfold bothT2; push_cast
      rw [show mx - ((m : ℚ) + 1) * (2 * (mx - mn)) - 2 * (mx - mn)
        = mx - ((m : ℚ) + 1 + 1) * (2 * (mx - mn)) by ring]
      ring
  unfold bothFormula; rw [e1, e2]; ring

example : bothFormula (fun x => x * x * x) 0 1 2 1 = (1 + 2) ^ 3 - (1 - 6 : ℚ) ^ 3 := by
  rw [bothFormula_at_max]; norm_num

/-- With two boundaries the reflected density is `0` outside `[mn, mx)` (any value type). -/
theorem pdfB_both_of_out {α} (o : Ops α) (y : ℚ → α) {mn mx x : ℚ} (n : ℕ)
    (hx : x < mn ∨ mx ≤ x) : pdfB o y (.both mn mx) n x = o.zero := by
  simp only [pdfB, ge_iff_le, hx, if_true]

example : pdfB ratOps (fun x => x) (.both 0 1) 2 1 = 0 := pdfB_both_of_out _ _ _ (Or.inr le_rfl)

/-- With two boundaries and `y ≥ 0`, the reflected density is nonnegative. -/
theorem pdfB_both_nonneg {y : ℚ → ℚ} (hy : ∀ u, 0 ≤ y u) (mn mx : ℚ) (n : ℕ) (x : ℚ) :
    0 ≤ pdfB ratOps y (.both mn mx) n x := by
  simp only [pdfB]
  split_ifs
  · exact le_rfl
  · rw [sumN_rat, sumN_rat]
    simp only [ratOps]
    exact add_nonneg (Finset.sum_nonneg fun k _ => add_nonneg (hy _) (hy _))
      (Finset.sum_nonneg fun k _ => add_nonneg (hy _) (hy _))

example : 0 ≤ pdfB ratOps (epanPDF 2) (.both 0 1) 2 (1/2) :=
  pdfB_both_nonneg (epanPDF_nonneg (by norm_num)) _ _ _ _

/-! ## K5 — the delta-kernel estimate is the weighted empirical CDF -/

lemma delta_sum (l : List (ℚ × ℚ)) (x : ℚ) :
    (l.map (fun p => p.2 * deltaCDF (x - p.1))).sum
      = ((l.filter (fun p => decide (p.1 ≤ x))).map Prod.snd).sum := by
  induction l with
  | nil => simp
  | cons p l ih =>
    rw [List.map_cons, List.sum_cons, ih, List.filter_cons]
    unfold deltaCDF
    by_cases hp : p.1 ≤ x
    · rw [if_pos (by linarith : x - p.1 ≥ 0)]; simp [hp]
    · rw [if_neg (by linarith : ¬ x - p.1 ≥ 0)]; simp [hp]

/-- The unbounded delta-kernel CDF estimate is the weighted empirical CDF:
`(Σ_{xᵢ ≤ x} wᵢ) / Σ w`. -/
theorem deltaKDEcdf_none (xs ws : List ℚ) (n : ℕ) (x : ℚ) :
    deltaKDEcdf xs ws .none n x
      = sum (((xs.zip ws).filter (fun p => decide (p.1 ≤ x))).map Prod.snd) / sum ws := by
  show wavg deltaCDF xs ws x = _
  rw [wavg_eq, delta_sum, sum_eq, sum_eq]

example : deltaKDEcdf [0, 1, 3] [1, 2, 1] .none 0 2 = 3 / 4 := by
  rw [deltaKDEcdf_none]; decide +kernel

/-! ## Consequences for the Epanechnikov estimate with any boundary specification -/

/-- The Epanechnikov density estimate is nonnegative for every boundary specification. -/
theorem epanKDEpdf_nonneg {xs ws : List ℚ} {h : ℚ} (hh : 0 < h) (hw : ∀ w ∈ ws, 0 ≤ w)
    (b : Bnd) (n : ℕ) (x : ℚ) : 0 ≤ epanKDEpdf xs ws h b n x := by
  have hy : ∀ u, 0 ≤ wavg (epanPDF h) xs ws u := wavg_nonneg hw (epanPDF_nonneg hh)
  cases b with
  | none => exact hy x
  | lower mn => exact pdfB_lower_nonneg hy mn n x
  | upper mx => exact pdfB_upper_nonneg hy mx n x
  | both mn mx => exact pdfB_both_nonneg hy mn mx n x

example : 0 ≤ epanKDEpdf [0, 1, 3] [1, 2, 1] 2 (.both 0 3) 2 (3/2) :=
  epanKDEpdf_nonneg (by norm_num) (by decide +kernel) _ _ _

/-- The Epanechnikov CDF estimate is monotone for every boundary specification. -/
theorem epanKDEcdf_mono {xs ws : List ℚ} {h : ℚ} (hh : 0 < h) (hw : ∀ w ∈ ws, 0 ≤ w)
    (b : Bnd) (n : ℕ) : Monotone (epanKDEcdf xs ws h b n) := by
  have hY : Monotone (wavg (epanCDF h) xs ws) := wavg_mono hw (epanCDF_mono hh)
  have hr : ∀ u, 0 ≤ wavg (epanCDF h) xs ws u ∧ wavg (epanCDF h) xs ws u ≤ 1 :=
    wavg_range hw (epanCDF_range hh)
  cases b with
  | none => exact hY
  | lower mn => exact cdfB_lower_mono hY mn n
  | upper mx => exact cdfB_upper_mono hY mx n
  | both mn mx => exact cdfB_both_mono hY hr mn mx n

example : epanKDEcdf [0, 1, 3] [1, 2, 1] 2 (.both 0 3) 2 1 ≤ epanKDEcdf [0, 1, 3] [1, 2, 1] 2 (.both 0 3) 2 2 :=
  epanKDEcdf_mono (by norm_num) (by decide +kernel) _ _ (by norm_num)

/-- The Epanechnikov CDF estimate has values in `[0,1]` for every boundary specification. -/
theorem epanKDEcdf_range {xs ws : List ℚ} {h : ℚ} (hh : 0 < h) (hw : ∀ w ∈ ws, 0 ≤ w)
    (b : Bnd) (n : ℕ) (x : ℚ) : 0 ≤ epanKDEcdf xs ws h b n x ∧ epanKDEcdf xs ws h b n x ≤ 1 := by
  have hY : Monotone (wavg (epanCDF h) xs ws) := wavg_mono hw (epanCDF_mono hh)
  have hr : ∀ u, 0 ≤ wavg (epanCDF h) xs ws u ∧ wavg (epanCDF h) xs ws u ≤ 1 :=
    wavg_range hw (epanCDF_range hh)
  cases b with
  | none => exact hr x
  | lower mn => exact ⟨cdfB_lower_nonneg hY mn n x, cdfB_lower_le_one hr mn n x⟩
  | upper mx => exact ⟨cdfB_upper_nonneg hr mx n x, cdfB_upper_le_one hY mx n x⟩
  | both mn mx => exact ⟨cdfB_both_nonneg hY mn mx n x, cdfB_both_le_one hY hr mn mx n x⟩

example : 0 ≤ epanKDEcdf [0, 1, 3] [1, 2, 1] 2 (.upper 3) 2 1 ∧
    epanKDEcdf [0, 1, 3] [1, 2, 1] 2 (.upper 3) 2 1 ≤ 1 :=
  epanKDEcdf_range (by norm_num) (by decide +kernel) _ _ _

/-- Lower boundary with all data `≥ mn`: the reflected Epanechnikov CDF estimate reaches `1`
for `x ≥ max xs + h` (the reflected image `2 mn − x` is then left of every kernel). -/
theorem epanKDEcdf_lower_eq_one {xs ws : List ℚ} {h mn : ℚ} (hh : 0 < h)
    (hlen : xs.length = ws.length) (hs : sum ws ≠ 0) (hd : ∀ xi ∈ xs, mn ≤ xi) (n : ℕ) {x : ℚ}
    (hx : ∀ xi ∈ xs, xi + h ≤ x) : epanKDEcdf xs ws h (.lower mn) n x = 1 := by
  cases xs with
  | nil =>
    cases ws with
    | nil => exact absurd rfl hs
    | cons w ws => simp at hlen
  | cons x0 xs =>
    have hx0 : mn ≤ x := by
      have := hd x0 List.mem_cons_self; have := hx x0 List.mem_cons_self; linarith
    unfold epanKDEcdf
    rw [cdfB_lower_of_ge _ _ hx0,
      wavg_const_at hlen hs fun xi hxi => epanCDF_eq_one hh (by linarith [hx xi hxi]),
      wavg_zero_at ws fun xi hxi => epanCDF_eq_zero hh (by linarith [hx xi hxi, hd xi hxi])]
    ring

example : epanKDEcdf [0, 1, 3] [1, 2, 1] 2 (.lower 0) 0 5 = 1 :=
  epanKDEcdf_lower_eq_one (xs := [0, 1, 3]) (ws := [1, 2, 1]) (h := 2) (by norm_num) rfl
    (by decide +kernel) (by decide +kernel) _ (by decide +kernel)

/-- Upper boundary with all data `≤ mx`: the reflected Epanechnikov CDF estimate is `0`
for `x ≤ min xs − h`. -/
theorem epanKDEcdf_upper_eq_zero {xs ws : List ℚ} {h mx : ℚ} (hh : 0 < h)
    (hlen : xs.length = ws.length) (hs : sum ws ≠ 0) (hd : ∀ xi ∈ xs, xi ≤ mx) (n : ℕ) {x : ℚ}
    (hx : ∀ xi ∈ xs, x ≤ xi - h) : epanKDEcdf xs ws h (.upper mx) n x = 0 := by
  cases xs with
  | nil =>
    cases ws with
    | nil => exact absurd rfl hs
    | cons w ws => simp at hlen
  | cons x0 xs =>
    have hx0 : x < mx := by
      have := hd x0 List.mem_cons_self; have := hx x0 List.mem_cons_self; linarith
    unfold epanKDEcdf
    rw [cdfB_upper_of_lt _ _ hx0,
      wavg_zero_at ws fun xi hxi => epanCDF_eq_zero hh (by linarith [hx xi hxi]),
      wavg_const_at hlen hs fun xi hxi => epanCDF_eq_one hh (by linarith [hx xi hxi, hd xi hxi])]
    ring

example : epanKDEcdf [0, 1, 3] [1, 2, 1] 2 (.upper 3) 0 (-2) = 0 :=
  epanKDEcdf_upper_eq_zero (xs := [0, 1, 3]) (ws := [1, 2, 1]) (h := 2) (by norm_num) rfl
    (by decide +kernel) (by decide +kernel) _ (by decide +kernel)

end MV.KDE
