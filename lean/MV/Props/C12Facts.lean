import MV.Props.FactsLib
/-! Source facts the C12 model relies on (checked against the facts regenerated from /repo on every run). -/
namespace MV.Facts

def expectedC12 : List (String × String) := [("lits:stats.BandwidthScott", "0.25 0.75 1.0 1.06 1.349 1.349 5"), ("lits:stats.BandwidthSilverman", "1.0 1.06 5"), ("lits:stats.KDE.Bounds", "0.001 0.005 0.1 0.1 0.995 1 1")]

/-- the constants and literals the C12 model mirrors are still what the source says -/
theorem facts_C12 : holdsAll expectedC12 = true := by decide

end MV.Facts
