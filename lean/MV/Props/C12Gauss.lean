import MV.Proofs.Interval
import MV.Model.KDE
/-!
# C12 — the reference of the relative clauses for the unbounded Gaussian estimate is sound

The judge holds the density and the lower-tail CDF of an unbounded Gaussian kernel estimate to relative
accuracy, comparing them with `wavgExact (gaussPDFX h)` resp. `wavgExact (fun u => I.Phi (u/h))`.
These theorems say that those intervals enclose the mathematical values

  f̂(x) = Σ wᵢ φ((x−xᵢ)/h)/h / Σ wᵢ ,   F̂(x) = Σ wᵢ Φ((x−xᵢ)/h) / Σ wᵢ

for every sample, every non-negative weight vector of positive total and every bandwidth h > 0
(φ, Φ as in `MV/Proofs/Interval.lean`: the standard normal density and the integral of it over (−∞, z]).
-/
namespace MV.KDE
open MV MV.I

/-- the real-valued weighted sum the fold of `wavgExact` encloses -/
noncomputable def wsumR (g : ℝ → ℝ) (x : ℚ) : List (ℚ × ℚ) → ℝ
  | [] => 0
  | p :: ps => (p.2 : ℝ) * g (((x - p.1 : ℚ)) : ℝ) + wsumR g x ps

lemma fold_bounds (f : ℚ → I) (g : ℝ → ℝ) (hf : ∀ u : ℚ, Mem (g (u : ℝ)) (f u)) (x : ℚ)
    (ps : List (ℚ × ℚ)) (hw : ∀ p ∈ ps, 0 ≤ p.2) (a b : ℚ) (r : ℝ) (ha : (a : ℝ) ≤ r) (hb : r ≤ (b : ℝ)) :
    let s := ps.foldl (fun (s : ℚ × ℚ) (p : ℚ × ℚ) => let e := f (x - p.1); (s.1 + p.2 * e.lo, s.2 + p.2 * e.hi)) (a, b)
    ((s.1 : ℚ) : ℝ) ≤ r + wsumR g x ps ∧ r + wsumR g x ps ≤ ((s.2 : ℚ) : ℝ) := by
  induction ps generalizing a b r with
  | nil => simp [wsumR, ha, hb]
  | cons p ps ih =>
    have hp : (0 : ℝ) ≤ (p.2 : ℝ) := by exact_mod_cast hw p (List.mem_cons_self ..)
    have hm := hf (x - p.1)
    have h1 : ((a + p.2 * (f (x - p.1)).lo : ℚ) : ℝ) ≤ r + (p.2 : ℝ) * g ((x - p.1 : ℚ) : ℝ) := by
      rw [Rat.cast_add, Rat.cast_mul]
      have := mul_le_mul_of_nonneg_left hm.1 hp
      linarith
    have h2 : r + (p.2 : ℝ) * g ((x - p.1 : ℚ) : ℝ) ≤ ((b + p.2 * (f (x - p.1)).hi : ℚ) : ℝ) := by
      rw [Rat.cast_add, Rat.cast_mul]
      have := mul_le_mul_of_nonneg_left hm.2 hp
      linarith
    have := ih (fun q hq => hw q (List.mem_cons_of_mem _ hq)) _ _ _ h1 h2
    simp only [List.foldl_cons, wsumR]
    constructor
    · have := this.1; linarith
    · have := this.2; linarith

lemma sum_eq_list_sum (l : List ℚ) : sum l = l.sum := by
  unfold sum
  have : ∀ (a : ℚ), l.foldl (· + ·) a = a + l.sum := by
    induction l with
    | nil => intro a; simp
    | cons x l ih => intro a; simp [ih, add_assoc]
  simpa using this 0

/-- **Soundness of the exact-end-point average.** If `f u` encloses `g u` for every rational `u`, the
weights are non-negative and their total is positive, then `wavgExact f xs ws x` encloses
`(Σ wᵢ g(x − xᵢ)) / Σ wᵢ`. -/
theorem wavgExact_sound (f : ℚ → I) (g : ℝ → ℝ) (hf : ∀ u : ℚ, Mem (g (u : ℝ)) (f u))
    (xs ws : List ℚ) (hw : ∀ w ∈ ws, 0 ≤ w) (hW : 0 < sum ws) (x : ℚ) :
    Mem (wsumR g x (xs.zip ws) / ((sum ws : ℚ) : ℝ)) (wavgExact f xs ws x) := by
  have hps : ∀ p ∈ xs.zip ws, 0 ≤ p.2 := by
    intro p hp
    exact hw _ (List.of_mem_zip hp).2
  have hb := fold_bounds f g hf x (xs.zip ws) hps 0 0 0 (by simp) (by simp)
  simp only [zero_add] at hb
  have hWr : (0 : ℝ) < ((sum ws : ℚ) : ℝ) := by exact_mod_cast hW
  unfold wavgExact Mem
  simp only [Rat.cast_div]
  exact ⟨(div_le_div_iff_of_pos_right hWr).2 hb.1, (div_le_div_iff_of_pos_right hWr).2 hb.2⟩

/-- the Gaussian kernel density enclosure: φ(u/h)/h ∈ `gaussPDFX h u` for h > 0 -/
theorem gaussPDFX_sound (h : ℚ) (hh : 0 < h) (u : ℚ) :
    Mem (phiR (((u / h : ℚ)) : ℝ) / (h : ℝ)) (gaussPDFX h u) := by
  have hm := phi_soundR (u / h)
  simp only [Mem, Rat.cast_div] at hm
  have hhr : (0 : ℝ) < (h : ℝ) := by exact_mod_cast hh
  unfold gaussPDFX Mem
  simp only [Rat.cast_div]
  exact ⟨(div_le_div_iff_of_pos_right hhr).2 hm.1, (div_le_div_iff_of_pos_right hhr).2 hm.2⟩

/-- **Density reference.** `wavgExact (gaussPDFX h)` encloses the Gaussian kernel density estimate. -/
theorem gaussKDE_pdf_enclosed (h : ℚ) (hh : 0 < h) (xs ws : List ℚ) (hw : ∀ w ∈ ws, 0 ≤ w) (hW : 0 < sum ws) (x : ℚ) :
    Mem (wsumR (fun t => phiR (t / (h : ℝ)) / (h : ℝ)) x (xs.zip ws) / ((sum ws : ℚ) : ℝ))
      (wavgExact (gaussPDFX h) xs ws x) := by
  apply wavgExact_sound (gaussPDFX h) (fun t => phiR (t / (h : ℝ)) / (h : ℝ)) _ xs ws hw hW x
  intro u
  have := gaussPDFX_sound h hh u
  simpa [Rat.cast_div] using this

/-- **CDF reference.** `wavgExact (fun u => I.Phi (u/h))` encloses the Gaussian kernel CDF estimate. -/
theorem gaussKDE_cdf_enclosed (h : ℚ) (xs ws : List ℚ) (hw : ∀ w ∈ ws, 0 ≤ w) (hW : 0 < sum ws) (x : ℚ) :
    Mem (wsumR (fun t => Φ (t / (h : ℝ))) x (xs.zip ws) / ((sum ws : ℚ) : ℝ))
      (wavgExact (fun u => I.Phi (u / h)) xs ws x) := by
  apply wavgExact_sound (fun u => I.Phi (u / h)) (fun t => Φ (t / (h : ℝ))) _ xs ws hw hW x
  intro u
  have := Phi_sound (u / h)
  simpa [Rat.cast_div] using this

/-- the hypotheses are satisfiable and the enclosure is tight far below the 2⁻¹²⁸ grid -/
example : (wavgExact (gaussPDFX 1) [0, 1] [1, 1] (-38)).lo > 0 := by decide +kernel

end MV.KDE
