import Mathlib.Tactic
import MV.Model.Stream
/-!
# C13 — StreamStats equals batch statistics for every stream and every split

Property theorems only (helper lemmas are `private`/`lemma`).  The model
(`MV.Stream.St.add`, `St.combine`, `run`) is the executable definition the
driver runs against the Go code.
-/
namespace MV.Stream

/-! ## helper lemmas -/

lemma foldl_add_init (xs : List Rat) (a : Rat) : xs.foldl (· + ·) a = a + xs.foldl (· + ·) 0 := by
  induction xs generalizing a with
  | nil => simp
  | cons x xs ih => simp only [List.foldl_cons]; rw [ih (a + x), ih (0 + x)]; ring

lemma sum_nil : sum [] = 0 := rfl
lemma sum_cons (x : Rat) (xs : List Rat) : sum (x :: xs) = x + sum xs := by
  unfold sum; simp only [List.foldl_cons]; rw [foldl_add_init]; ring
lemma sum_append (xs ys : List Rat) : sum (xs ++ ys) = sum xs + sum ys := by
  induction xs with
  | nil => simp [sum_nil]
  | cons x xs ih => simp only [List.cons_append, sum_cons, ih]; ring

/-- sum of squares -/
def sumSq (xs : List Rat) : Rat := sum (xs.map fun x => x * x)

lemma sumSq_append (xs ys : List Rat) : sumSq (xs ++ ys) = sumSq xs + sumSq ys := by
  unfold sumSq; rw [List.map_append, sum_append]

lemma sum_sq_dev (xs : List Rat) (c : Rat) :
    sum (xs.map fun x => (x - c) * (x - c)) = sumSq xs - 2 * c * sum xs + (xs.length : Rat) * c * c := by
  induction xs with
  | nil => simp [sum_nil, sumSq]
  | cons x xs ih =>
    simp only [List.map_cons, sum_cons, sumSq, List.length_cons] at *
    rw [ih]; push_cast; ring

lemma batchM2_eq (xs : List Rat) (h : xs ≠ []) :
    batchM2 xs = sumSq xs - sum xs * sum xs / (xs.length : Rat) := by
  have hn : (xs.length : Rat) ≠ 0 := by
    have : xs.length ≠ 0 := by simpa [List.length_eq_zero_iff] using h
    exact_mod_cast this
  unfold batchM2 batchMean
  rw [sum_sq_dev]
  field_simp
  ring

lemma ite_lt_eq_min (a b : Rat) : (if b < a then b else a) = min a b := by
  split
  · rename_i h; exact (min_eq_right (le_of_lt h)).symm
  · rename_i h; exact (min_eq_left (not_lt.mp h)).symm

lemma ite_gt_eq_max (a b : Rat) : (if b > a then b else a) = max a b := by
  split
  · rename_i h; exact (max_eq_right (le_of_lt h)).symm
  · rename_i h; exact (max_eq_left (not_lt.mp h)).symm

/-- `listMin` as a minimum over the list (for non-empty lists). -/
lemma foldl_min_eq (xs : List Rat) (a : Rat) :
    xs.foldl (fun a b => if b < a then b else a) a = xs.foldl min a := by
  induction xs generalizing a with
  | nil => rfl
  | cons x xs ih =>
    simp only [List.foldl_cons]
    rw [← ih]
    congr 1
    split
    · rename_i h; exact (min_eq_right (le_of_lt h)).symm
    · rename_i h; exact (min_eq_left (not_lt.mp h)).symm

lemma foldl_max_eq (xs : List Rat) (a : Rat) :
    xs.foldl (fun a b => if b > a then b else a) a = xs.foldl max a := by
  induction xs generalizing a with
  | nil => rfl
  | cons x xs ih =>
    simp only [List.foldl_cons]
    rw [← ih]
    congr 1
    split
    · rename_i h; exact (max_eq_right (le_of_lt h)).symm
    · rename_i h; exact (max_eq_left (not_lt.mp h)).symm

lemma foldl_min_assoc (xs : List Rat) (a b : Rat) : xs.foldl min (min a b) = min a (xs.foldl min b) := by
  induction xs generalizing b with
  | nil => rfl
  | cons x xs ih => simp only [List.foldl_cons]; rw [min_assoc, ih]

lemma foldl_max_assoc (xs : List Rat) (a b : Rat) : xs.foldl max (max a b) = max a (xs.foldl max b) := by
  induction xs generalizing b with
  | nil => rfl
  | cons x xs ih => simp only [List.foldl_cons]; rw [max_assoc, ih]

lemma listMin_cons_append (x : Rat) (xs : List Rat) (y : Rat) (ys : List Rat) :
    listMin ((x :: xs) ++ (y :: ys)) = min (listMin (x :: xs)) (listMin (y :: ys)) := by
  simp only [listMin, List.cons_append, foldl_min_eq]
  rw [List.foldl_append, List.foldl_cons, foldl_min_assoc]

lemma listMax_cons_append (x : Rat) (xs : List Rat) (y : Rat) (ys : List Rat) :
    listMax ((x :: xs) ++ (y :: ys)) = max (listMax (x :: xs)) (listMax (y :: ys)) := by
  simp only [listMax, List.cons_append, foldl_max_eq]
  rw [List.foldl_append, List.foldl_cons, foldl_max_assoc]

/-- The state invariant: the accumulator holds the batch statistics of `d`. -/
def Good (p : St × List Rat) : Prop := p.1 = batch p.2

lemma batch_nonempty (d : List Rat) (h : d ≠ []) :
    batch d = ⟨d.length, sum d, listMin d, listMax d, batchMean d, batchMeanSq d, batchM2 d⟩ := by
  unfold batch; cases d with
  | nil => exact absurd rfl h
  | cons x xs => simp

/-! ## property theorems -/

/-- Combining two accumulators that hold batch statistics yields the batch
statistics of the union — for every pair, including empty operands. -/
theorem combine_batch (d e : List Rat) : (batch d).combine (batch e) = batch (d ++ e) := by
  cases e with
  | nil => simp [St.combine, batch, St.zero]
  | cons y ys =>
    cases d with
    | nil => simp [St.combine, batch, St.zero]
    | cons x xs =>
      have hd : (x :: xs) ≠ [] := by simp
      have he : (y :: ys) ≠ [] := by simp
      have hde : (x :: xs) ++ (y :: ys) ≠ [] := by simp
      rw [batch_nonempty _ hd, batch_nonempty _ he, batch_nonempty _ hde]
      have hn : ((x :: xs).length : Rat) ≠ 0 := by simp; positivity
      have hm : ((y :: ys).length : Rat) ≠ 0 := by simp; positivity
      have hnm : ((x :: xs).length : Rat) + ((y :: ys).length : Rat) ≠ 0 := by
        have h1 : (0 : Rat) < ((x :: xs).length : Rat) := by simp; positivity
        have h2 : (0 : Rat) < ((y :: ys).length : Rat) := by simp; positivity
        positivity
      unfold St.combine
      simp only [List.length_cons, Nat.add_eq_zero_iff, one_ne_zero, and_false, ↓reduceIte]
      rw [St.mk.injEq]
      refine ⟨by simp only [List.length_append, List.length_cons], by rw [sum_append], ?_, ?_, ?_, ?_, ?_⟩
      · rw [listMin_cons_append, ite_lt_eq_min]
      · rw [listMax_cons_append, ite_gt_eq_max]
      · simp only [batchMean, sum_append, List.length_append, List.length_cons] at *
        push_cast at *
        field_simp
        ring
      · simp only [batchMeanSq, List.map_append, sum_append, List.length_append, List.length_cons] at *
        push_cast at *
        field_simp
        ring
      · rw [batchM2_eq _ hd, batchM2_eq _ he, batchM2_eq _ hde]
        simp only [batchMean, sumSq_append, sum_append, List.length_append, List.length_cons] at *
        push_cast at *
        field_simp
        ring

/-- Adding one value to an accumulator that holds batch statistics yields the
batch statistics of the extended stream. -/
theorem add_batch (d : List Rat) (x : Rat) : (batch d).add x = batch (d ++ [x]) := by
  cases d with
  | nil =>
    simp [St.add, batch, St.zero, listMin, listMax, batchMean, batchMeanSq, batchM2, sum]
  | cons y ys =>
    have hd : (y :: ys) ≠ [] := by simp
    have hde : (y :: ys) ++ [x] ≠ [] := by simp
    rw [batch_nonempty _ hd, batch_nonempty _ hde]
    have hn : ((y :: ys).length : Rat) ≠ 0 := by simp; positivity
    have hn1 : ((y :: ys).length : Rat) + 1 ≠ 0 := by
      have h1 : (0 : Rat) < ((y :: ys).length : Rat) := by simp; positivity
      positivity
    unfold St.add
    simp only [List.length_cons, Nat.add_eq_zero_iff, one_ne_zero, and_false, ↓reduceIte]
    rw [St.mk.injEq]
    refine ⟨by simp only [List.length_append, List.length_cons, List.length_nil], by simp only [sum_append, sum_cons, sum_nil]; ring, ?_, ?_, ?_, ?_, ?_⟩
    · rw [listMin_cons_append, ite_lt_eq_min]; rfl
    · rw [listMax_cons_append, ite_gt_eq_max]; rfl
    · simp only [batchMean, sum_append, sum_cons, sum_nil, List.length_append, List.length_cons, List.length_nil] at *
      push_cast at *
      field_simp
      ring
    · simp only [batchMeanSq, List.map_append, List.map_cons, List.map_nil, sum_append, sum_cons, sum_nil,
        List.length_append, List.length_cons, List.length_nil] at *
      push_cast at *
      field_simp
      ring
    · rw [batchM2_eq _ hd, batchM2_eq _ hde]
      simp only [batchMean, sumSq, List.map_append, List.map_cons, List.map_nil, sum_append, sum_cons, sum_nil,
        List.length_append, List.length_cons, List.length_nil] at *
      push_cast at *
      field_simp
      ring

/-- One history step preserves "every accumulator holds the batch statistics of
its denotation" (the multiset of values that flowed into it). -/
theorem step_good (h : Heap) (op : Op) (hg : ∀ p ∈ h, Good p) : ∀ p ∈ step h op, Good p := by
  have hget : ∀ i, Good (getD h i) := by
    intro i
    unfold getD
    rw [List.getD_eq_getElem?_getD]
    cases hi : h[i]? with
    | none => simp [Good, batch, St.zero]
    | some p => simp only [Option.getD_some]; exact hg p (List.mem_of_getElem? hi)
  intro p hp
  cases op with
  | read i => exact hg p hp
  | add i x =>
    simp only [step] at hp
    rcases List.mem_or_eq_of_mem_set hp with hp | hp
    · exact hg p hp
    · have := hget i
      unfold Good at this ⊢
      rw [hp]; simp only; rw [this]; exact add_batch _ _
  | comb i j =>
    simp only [step] at hp
    rcases List.mem_or_eq_of_mem_set hp with hp | hp
    · exact hg p hp
    · have h1 := hget i
      have h2 := hget j
      unfold Good at h1 h2 ⊢
      rw [hp]; simp only; rw [h1, h2]; exact combine_batch _ _

/-- **Main theorem.** After any history of Add and Combine over any number of
accumulators — every split, every merge tree, empty operands, self-combine —
each accumulator's state equals the batch statistics (count, total, min, max,
mean, mean of squares, sum of squared deviations) of the values that flowed
into it. -/
theorem run_good (n : Nat) (ops : List Op) : ∀ p ∈ run n ops, Good p := by
  unfold run
  have h0 : ∀ p ∈ List.replicate n (St.zero, ([] : List Rat)), Good p := by
    intro p hp; rw [List.eq_of_mem_replicate hp]; simp [Good, batch]
  generalize List.replicate n (St.zero, ([] : List Rat)) = h at h0
  induction ops generalizing h with
  | nil => simpa using h0
  | cons op ops ih => simp only [List.foldl_cons]; exact ih _ (step_good h op h0)

/-- The denotation is order-insensitive: batch statistics of a permutation agree
(so "however the sequence is split and in whatever order parts are combined"). -/
theorem batch_perm (d e : List Rat) (h : d.Perm e) : batch d = batch e := by
  have hsum : ∀ {a b : List Rat}, a.Perm b → sum a = sum b := by
    intro a b hab
    induction hab with
    | nil => rfl
    | cons x _ ih => simp [sum_cons, ih]
    | swap x y l => simp only [sum_cons]; ring
    | trans _ _ ih1 ih2 => exact ih1.trans ih2
  have hmin : ∀ {a b : List Rat}, a.Perm b → ∀ c, a.foldl min c = b.foldl min c := by
    intro a b hab
    induction hab with
    | nil => intro c; rfl
    | cons x _ ih => intro c; simp [ih]
    | swap x y l => intro c; simp only [List.foldl_cons]; rw [min_assoc, min_comm y x, ← min_assoc]
    | trans _ _ ih1 ih2 => intro c; exact (ih1 c).trans (ih2 c)
  have hmax : ∀ {a b : List Rat}, a.Perm b → ∀ c, a.foldl max c = b.foldl max c := by
    intro a b hab
    induction hab with
    | nil => intro c; rfl
    | cons x _ ih => intro c; simp [ih]
    | swap x y l => intro c; simp only [List.foldl_cons]; rw [max_assoc, max_comm y x, ← max_assoc]
    | trans _ _ ih1 ih2 => intro c; exact (ih1 c).trans (ih2 c)
  have keymin : ∀ (x : Rat) (xs : List Rat) (y : Rat) (ys : List Rat), (x :: xs).Perm (y :: ys) →
      xs.foldl min x = min x (ys.foldl min y) := by
    intro x xs y ys h
    have : (x :: xs).foldl min x = (y :: ys).foldl min x := hmin h x
    simp only [List.foldl_cons, min_self] at this
    rw [this, foldl_min_assoc]
  have keymax : ∀ (x : Rat) (xs : List Rat) (y : Rat) (ys : List Rat), (x :: xs).Perm (y :: ys) →
      xs.foldl max x = max x (ys.foldl max y) := by
    intro x xs y ys h
    have : (x :: xs).foldl max x = (y :: ys).foldl max x := hmax h x
    simp only [List.foldl_cons, max_self] at this
    rw [this, foldl_max_assoc]
  by_cases hd : d = []
  · subst hd; rw [List.nil_perm.mp h]
  · have he : e ≠ [] := fun he => hd (by subst he; exact List.perm_nil.mp h)
    rw [batch_nonempty _ hd, batch_nonempty _ he, St.mk.injEq]
    have hs := hsum h
    have hq : sumSq d = sumSq e := hsum (h.map _)
    refine ⟨h.length_eq, hs, ?_, ?_, ?_, ?_, ?_⟩
    · cases d with
      | nil => exact absurd rfl hd
      | cons x xs =>
        cases e with
        | nil => exact absurd rfl he
        | cons y ys =>
          simp only [listMin, foldl_min_eq]
          have a := keymin x xs y ys h
          have b := keymin y ys x xs h.symm
          apply le_antisymm
          · rw [a]; exact min_le_right _ _
          · rw [b]; exact min_le_right _ _
    · cases d with
      | nil => exact absurd rfl hd
      | cons x xs =>
        cases e with
        | nil => exact absurd rfl he
        | cons y ys =>
          simp only [listMax, foldl_max_eq]
          have a := keymax x xs y ys h
          have b := keymax y ys x xs h.symm
          apply le_antisymm
          · rw [b]; exact le_max_right _ _
          · rw [a]; exact le_max_right _ _
    · simp only [batchMean, hs, h.length_eq]
    · have : sum (d.map fun x => x * x) = sum (e.map fun x => x * x) := hq
      simp only [batchMeanSq, this, h.length_eq]
    · rw [batchM2_eq _ hd, batchM2_eq _ he, hs, hq, h.length_eq]

/-- Variance reported for `count ≥ 2` is the (n−1)-denominator sample variance of the denotation. -/
theorem variance_batch (d : List Rat) :
    (batch d).variance = batchM2 d / ((d.length : Rat) - 1) := by
  cases d with
  | nil => simp [St.variance, batch, St.zero, batchM2, batchMean, sum]
  | cons x xs => simp [St.variance, batch]

/-- Non-vacuity: a concrete history with an empty operand, a merge and a self-combine. -/
example : (run 3 [.add 0 5, .add 0 7, .comb 1 0, .comb 1 2, .add 2 1, .comb 0 0, .read 0]).map (·.1.count) = [4, 2, 1] := by
  decide

end MV.Stream
