import Mathlib.Tactic
import MV.Model.Hist
/-!
# C14 — linear histogram binning, counter conservation, and the quantile rank walk

All results are about the exact-rational executable model in `MV/Model/Hist.lean`.
Throughout, `mn < mx` and `0 < n` (a non-degenerate `LinearHist`).
-/
namespace MV.Hist

/-! ## H1 / H4: binning rule versus bin edges -/

section lin
variable {mn mx : ℚ} {n : ℕ} {x : ℚ}

lemma ratFloor_eq (q : ℚ) : q.floor = ⌊q⌋ := rfl

lemma linBinToValue_zero : linBinToValue mn mx n 0 = mn := by
  simp [linBinToValue]

lemma linBinToValue_n (hn : 0 < n) : linBinToValue mn mx n (n : ℚ) = mx := by
  have hN : (n : ℚ) ≠ 0 := by exact_mod_cast hn.ne'
  unfold linBinToValue
  field_simp
  ring

/-- Galois-connection form of the binning rule: the integer `i` is at most the bin index of `x`
exactly when the lower edge `BinToValue(i)` is at most `x`. -/
theorem le_linBin_iff (hm : mn < mx) (hn : 0 < n) (i : ℤ) :
    i ≤ linBin mn mx n x ↔ linBinToValue mn mx n (i : ℚ) ≤ x := by
  have hd : (0 : ℚ) < mx - mn := sub_pos.mpr hm
  have hN : (0 : ℚ) < (n : ℚ) := by exact_mod_cast hn
  unfold linBin linBinToValue
  rw [ratFloor_eq, Int.le_floor, le_div_iff₀ hd, ← le_sub_iff_add_le', div_le_iff₀ hN]
  constructor <;> intro h <;> linarith

/-- The bin index of `x` is below the integer `i` exactly when `x` is strictly below the edge
`BinToValue(i)`. -/
theorem linBin_lt_iff (hm : mn < mx) (hn : 0 < n) (i : ℤ) :
    linBin mn mx n x < i ↔ x < linBinToValue mn mx n (i : ℚ) := by
  rw [← not_le, le_linBin_iff hm hn, not_le]

example : (1 : ℤ) ≤ linBin (0 : ℚ) 10 5 (7 / 2) :=
  (le_linBin_iff (by norm_num) (by norm_num) 1).2 (by norm_num [linBinToValue])
example : linBin (0 : ℚ) 10 5 (7 / 2) < (2 : ℤ) :=
  (linBin_lt_iff (by norm_num) (by norm_num) 2).2 (by norm_num [linBinToValue])

/-- H1. A value lands in bin `i` (any integer, including out-of-range indices) exactly when it lies
in the half-open interval between the edges `BinToValue(i)` and `BinToValue(i+1)`. -/
theorem linBin_iff (hm : mn < mx) (hn : 0 < n) (i : ℤ) :
    linBin mn mx n x = i ↔
      linBinToValue mn mx n (i : ℚ) ≤ x ∧ x < linBinToValue mn mx n ((i : ℚ) + 1) := by
  rw [← le_linBin_iff hm hn, show ((i : ℚ) + 1) = ((i + 1 : ℤ) : ℚ) by push_cast; ring,
    ← linBin_lt_iff hm hn]
  omega

example : linBin (0 : ℚ) 10 5 (7 / 2) = 1 :=
  (linBin_iff (by norm_num) (by norm_num) 1).2 (by norm_num [linBinToValue])

example : linBinToValue (0 : ℚ) 10 5 1 ≤ 7 / 2 ∧ (7 / 2 : ℚ) < linBinToValue (0 : ℚ) 10 5 ((1 : ℤ) + 1) :=
  (linBin_iff (mn := 0) (mx := 10) (n := 5) (by norm_num) (by norm_num) 1).1 (by norm_num [linBin, ratFloor_eq])

/-- H4a. `BinToValue` is strictly increasing in the (fractional) bin position. -/
theorem linBinToValue_strictMono (hm : mn < mx) (hn : 0 < n) :
    StrictMono (linBinToValue mn mx n) := by
  have hd : (0 : ℚ) < mx - mn := sub_pos.mpr hm
  have hN : (0 : ℚ) < (n : ℚ) := by exact_mod_cast hn
  intro a b hab
  unfold linBinToValue
  have : a * (mx - mn) / n < b * (mx - mn) / n :=
    div_lt_div_of_pos_right (mul_lt_mul_of_pos_right hab hd) hN
  linarith

example : linBinToValue (0 : ℚ) 10 5 (3 / 2) < linBinToValue (0 : ℚ) 10 5 (7 / 4) :=
  linBinToValue_strictMono (by norm_num) (by norm_num) (by norm_num)

/-- H4b. `BinToValue` is affine: moving the bin position by `d` moves the value by `d` bin widths
`(mx − mn)/n`, so it interpolates linearly inside a bin.  (No hypotheses needed.) -/
theorem linBinToValue_add (mn mx : ℚ) (n : ℕ) (b d : ℚ) :
    linBinToValue mn mx n (b + d) = linBinToValue mn mx n b + d * (mx - mn) / n := by
  unfold linBinToValue
  ring

example : linBinToValue (0 : ℚ) 10 5 (1 + 1 / 2) = linBinToValue (0 : ℚ) 10 5 1 + 1 / 2 * (10 - 0) / (5 : ℕ) :=
  linBinToValue_add 0 10 5 1 (1 / 2)

/-- H4c. Inside bin `i`, position `i + t` with `0 ≤ t ≤ 1` is the convex combination of the two
edges of the bin. -/
theorem linBinToValue_interp (mn mx : ℚ) (n : ℕ) (i t : ℚ) :
    linBinToValue mn mx n (i + t) =
      (1 - t) * linBinToValue mn mx n i + t * linBinToValue mn mx n (i + 1) := by
  unfold linBinToValue
  ring

example : linBinToValue (0 : ℚ) 10 5 (1 + 1 / 4) =
    (1 - 1 / 4) * linBinToValue (0 : ℚ) 10 5 1 + 1 / 4 * linBinToValue (0 : ℚ) 10 5 (1 + 1) :=
  linBinToValue_interp 0 10 5 1 (1 / 4)

/-! ## H2: slots -/

lemma slotOf_under_iff {n : ℕ} {b : ℤ} : slotOf n b = .under ↔ b < 0 := by
  unfold slotOf; split_ifs <;> simp_all

lemma slotOf_over_iff {n : ℕ} {b : ℤ} : slotOf n b = .over ↔ (n : ℤ) ≤ b := by
  unfold slotOf; split_ifs <;> simp_all <;> omega

lemma slotOf_bin_iff {n : ℕ} {b : ℤ} {i : ℕ} (hi : i < n) : slotOf n b = .bin i ↔ b = i := by
  unfold slotOf; split_ifs <;> simp_all <;> omega

lemma slotOf_bin_lt {n : ℕ} {b : ℤ} {i : ℕ} (h : slotOf n b = .bin i) : i < n := by
  unfold slotOf at h
  split_ifs at h with h1 h2
  injection h with h
  omega

/-- H2a. A value is counted as underflow exactly when it is below `min`. -/
theorem slot_under_iff (hm : mn < mx) (hn : 0 < n) :
    slotOf n (linBin mn mx n x) = .under ↔ x < mn := by
  rw [slotOf_under_iff, linBin_lt_iff hm hn 0]
  simp [linBinToValue_zero]

example : slotOf 5 (linBin (0 : ℚ) 10 5 (-1 / 3)) = .under :=
  (slot_under_iff (by norm_num) (by norm_num)).2 (by norm_num)

/-- H2b. A value is counted as overflow exactly when it is at least `max`. -/
theorem slot_over_iff (hm : mn < mx) (hn : 0 < n) :
    slotOf n (linBin mn mx n x) = .over ↔ mx ≤ x := by
  rw [slotOf_over_iff, le_linBin_iff hm hn]
  simp [linBinToValue_n hn]

example : slotOf 5 (linBin (0 : ℚ) 10 5 10) = .over :=
  (slot_over_iff (by norm_num) (by norm_num)).2 (by norm_num)

/-- H2c. For an in-range bin `i < n`, a value is counted in bin `i` exactly when it lies between the
edges `BinToValue(i)` (inclusive) and `BinToValue(i+1)` (exclusive). -/
theorem slot_bin_iff (hm : mn < mx) (hn : 0 < n) (i : ℕ) (hi : i < n) :
    slotOf n (linBin mn mx n x) = .bin i ↔
      linBinToValue mn mx n (i : ℚ) ≤ x ∧ x < linBinToValue mn mx n ((i : ℚ) + 1) := by
  rw [slotOf_bin_iff hi, linBin_iff hm hn]
  simp

example : slotOf 5 (linBin (0 : ℚ) 10 5 (7 / 2)) = .bin 1 :=
  (slot_bin_iff (by norm_num) (by norm_num) 1 (by norm_num)).2 (by norm_num [linBinToValue])

end lin

/-! ## H3: conservation of counts -/

lemma foldl_add_eq (l : List ℕ) (a : ℕ) : l.foldl (· + ·) a = a + l.sum := by
  induction l generalizing a with
  | nil => simp
  | cons h t ih => simp [ih, Nat.add_assoc]

/-- The model's `total` is `under + Σ bins + over`. -/
theorem total_eq (c : Counts) : c.total = c.under + c.bins.sum + c.over := by
  simp [Counts.total, foldl_add_eq]

example : (Counts.mk 2 [1, 0, 3] 4).total = 2 + [1, 0, 3].sum + 4 := total_eq _

lemma sum_set_succ (l : List ℕ) (i : ℕ) (hi : i < l.length) :
    (l.set i (l.getD i 0 + 1)).sum = l.sum + 1 := by
  induction l generalizing i with
  | nil => simp at hi
  | cons h t ih =>
    cases i with
    | zero => simp; omega
    | succ i =>
      have := ih i (by simpa using hi)
      simp only [List.getD_eq_getElem?_getD, List.getElem?_cons_succ, List.set_cons_succ,
        List.sum_cons] at this ⊢
      omega

/-- H3a. Every `add` into a valid slot increases the total by exactly one. -/
theorem add_total (c : Counts) (s : Slot) (h : ∀ i, s = .bin i → i < c.bins.length) :
    (c.add s).total = c.total + 1 := by
  rcases s with _ | i | _
  · simp only [Counts.add, total_eq]; omega
  · have hi := h i rfl
    simp only [Counts.add, total_eq, sum_set_succ _ _ hi]
    omega
  · simp only [Counts.add, total_eq]; omega

example : ((Counts.mk 2 [1, 0, 3] 4).add (.bin 1)).total = (Counts.mk 2 [1, 0, 3] 4).total + 1 :=
  add_total _ _ (by intro i h; cases h; decide)

/-- H3b. Adding to the underflow slot bumps `under` by one and changes nothing else. -/
theorem add_under_eq (c : Counts) :
    (c.add .under).under = c.under + 1 ∧ (c.add .under).bins = c.bins ∧
      (c.add .under).over = c.over := ⟨rfl, rfl, rfl⟩

/-- H3c. Adding to the overflow slot bumps `over` by one and changes nothing else. -/
theorem add_over_eq (c : Counts) :
    (c.add .over).under = c.under ∧ (c.add .over).bins = c.bins ∧
      (c.add .over).over = c.over + 1 := ⟨rfl, rfl, rfl⟩

example : ((Counts.mk 2 [1, 0, 3] 4).add .under).under = 3 ∧
    ((Counts.mk 2 [1, 0, 3] 4).add .over).over = 5 :=
  ⟨(add_under_eq _).1, (add_over_eq _).2.2⟩

/-- H3d. Adding to a valid bin `i` leaves `under`, `over` and the number of bins unchanged, bumps
bin `i` by one, and leaves every other bin unchanged: exactly one counter changes. -/
theorem add_bin_eq (c : Counts) (i : ℕ) (hi : i < c.bins.length) :
    (c.add (.bin i)).under = c.under ∧ (c.add (.bin i)).over = c.over ∧
      (c.add (.bin i)).bins.length = c.bins.length ∧
      ∀ j, (c.add (.bin i)).bins.getD j 0 =
        if j = i then c.bins.getD i 0 + 1 else c.bins.getD j 0 := by
  refine ⟨rfl, rfl, by simp [Counts.add], fun j => ?_⟩
  simp only [Counts.add, List.getD_eq_getElem?_getD, List.getElem?_set]
  by_cases hji : j = i
  · subst hji; simp [hi]
  · have : ¬ i = j := fun h => hji h.symm
    simp [hji, this]

example : ((Counts.mk 2 [1, 0, 3] 4).add (.bin 2)).bins.getD 2 0 = 4 ∧
    ((Counts.mk 2 [1, 0, 3] 4).add (.bin 2)).bins.getD 0 0 = 1 := by
  have h := (add_bin_eq (Counts.mk 2 [1, 0, 3] 4) 2 (by decide)).2.2.2
  exact ⟨by simpa using h 2, by simpa using h 0⟩

lemma add_bins_length (c : Counts) (s : Slot) : (c.add s).bins.length = c.bins.length := by
  cases s <;> simp [Counts.add]

lemma linRun_aux (mn mx : ℚ) (n : ℕ) (xs : List ℚ) (c : Counts) (hc : c.bins.length = n) :
    (xs.foldl (fun c x => c.add (slotOf n (linBin mn mx n x))) c).total = c.total + xs.length ∧
    (xs.foldl (fun c x => c.add (slotOf n (linBin mn mx n x))) c).bins.length = n := by
  induction xs generalizing c with
  | nil => simp [hc]
  | cons x xs ih =>
    simp only [List.foldl_cons, List.length_cons]
    have hlen : (c.add (slotOf n (linBin mn mx n x))).bins.length = n := by
      rw [add_bins_length, hc]
    have htot := add_total c (slotOf n (linBin mn mx n x))
      (fun i h => by rw [hc]; exact slotOf_bin_lt h)
    obtain ⟨h1, h2⟩ := ih _ hlen
    exact ⟨by rw [h1, htot]; omega, h2⟩

/-- H3e. After any history of `Add`s to a linear histogram, the counters sum to the number of values
added (nothing is lost or double counted; needs no hypothesis on `mn`, `mx`, `n`). -/
theorem linRun_total (mn mx : ℚ) (n : ℕ) (xs : List ℚ) :
    (linRun mn mx n xs).total = xs.length := by
  have := (linRun_aux mn mx n xs (Counts.empty n) (by simp [Counts.empty])).1
  rw [linRun, this, total_eq]
  simp [Counts.empty]

/-- H3f. The number of bins never changes. -/
theorem linRun_bins_length (mn mx : ℚ) (n : ℕ) (xs : List ℚ) :
    (linRun mn mx n xs).bins.length = n :=
  (linRun_aux mn mx n xs (Counts.empty n) (by simp [Counts.empty])).2

example : (linRun 0 10 5 [-1, 0, 7 / 2, 3, 10, 99 / 10]).total = 6 := linRun_total _ _ _ _
example : (linRun 0 10 5 [-1, 0, 7 / 2, 3, 10, 99 / 10]).bins.length = 5 :=
  linRun_bins_length _ _ _ _

/-! ## H5: the rank walk -/

/-- H5a. Rank walk, general start index `i0`.  If `1 ≤ goal ≤ Σ bins`, the walk returns
`(i0 + i, g, cnt)` where `i` is a valid bin, `cnt` is its count, `1 ≤ g ≤ cnt`, and the bins strictly
before `i` hold exactly `goal − g` samples: bin `i` holds the `goal`-th smallest binned sample and
`g` is its rank inside that bin. -/
theorem walk_spec (bins : List ℕ) (i0 goal : ℕ) (h1 : 1 ≤ goal) (h2 : goal ≤ bins.sum) :
    ∃ i g cnt, walk bins i0 goal = some (i0 + i, g, cnt) ∧ i < bins.length ∧
      bins[i]? = some cnt ∧ 1 ≤ g ∧ g ≤ cnt ∧ (bins.take i).sum + g = goal := by
  induction bins generalizing i0 goal with
  | nil => simp at h2; omega
  | cons c cs ih =>
    rw [walk]
    split_ifs with hc
    · exact ⟨0, goal, c, by simp, by simp, by simp, h1, hc, by simp⟩
    · simp only [List.sum_cons] at h2
      obtain ⟨i, g, cnt, hw, hi, hget, hg1, hg2, hs⟩ :=
        ih (i0 + 1) (goal - c) (by omega) (by omega)
      refine ⟨i + 1, g, cnt, ?_, by simp; omega, by simpa using hget, hg1, hg2, ?_⟩
      · rw [hw, Nat.add_assoc, Nat.add_comm 1 i]
      · simp only [List.take_succ_cons, List.sum_cons]; omega

/-- H5b. Rank walk from index 0: returns `some (i, g, cnt)` with `i < bins.length`, `cnt = bins[i]`,
`1 ≤ g ≤ cnt` and `Σ_{j<i} bins[j] + g = goal`. -/
theorem walk_zero_spec (bins : List ℕ) (goal : ℕ) (h1 : 1 ≤ goal) (h2 : goal ≤ bins.sum) :
    ∃ i g cnt, walk bins 0 goal = some (i, g, cnt) ∧ i < bins.length ∧
      bins[i]? = some cnt ∧ 1 ≤ g ∧ g ≤ cnt ∧ (bins.take i).sum + g = goal := by
  simpa using walk_spec bins 0 goal h1 h2

example : walk [2, 0, 3, 1] 0 4 = some (2, 2, 3) := by decide
example : ∃ i g cnt, walk [2, 0, 3, 1] 0 4 = some (i, g, cnt) ∧ i < 4 ∧
    [2, 0, 3, 1][i]? = some cnt ∧ 1 ≤ g ∧ g ≤ cnt ∧ ([2, 0, 3, 1].take i).sum + g = 4 :=
  walk_zero_spec [2, 0, 3, 1] 4 (by decide) (by decide)

/-- H5c. If the goal exceeds the number of binned samples, the walk fails (any start index). -/
theorem walk_none (bins : List ℕ) (i0 goal : ℕ) (h : bins.sum < goal) :
    walk bins i0 goal = none := by
  induction bins generalizing i0 goal with
  | nil => rw [walk]
  | cons c cs ih =>
    simp only [List.sum_cons] at h
    rw [walk, if_neg (by omega)]
    exact ih _ _ (by omega)

example : walk [2, 0, 3, 1] 0 7 = none := walk_none _ _ _ (by decide)

/-- H5d. For a positive goal the walk fails exactly when the goal exceeds the binned total. -/
theorem walk_eq_none_iff (bins : List ℕ) (i0 goal : ℕ) (h1 : 1 ≤ goal) :
    walk bins i0 goal = none ↔ bins.sum < goal := by
  constructor
  · intro h
    by_contra hc
    obtain ⟨i, g, cnt, hw, -⟩ := walk_spec bins i0 goal h1 (by omega)
    rw [hw] at h; cases h
  · exact walk_none bins i0 goal

example : walk [2, 0, 3, 1] 5 6 ≠ none := by
  rw [Ne, walk_eq_none_iff _ _ _ (by decide)]; decide

/-! ### `histQuantilePos` -/

/-- H5e. The quantile position is NaN (`none`) exactly when the goal is 0 or falls in the underflow
counter (`goal ≤ under`) or in the overflow counter (`goal > total − over`); in particular the inner
walk never fails otherwise. -/
theorem histQuantilePos_none_iff (c : Counts) (goal : ℕ) :
    histQuantilePos c goal = none ↔ goal ≤ c.under ∨ goal > c.total - c.over := by
  unfold histQuantilePos
  split_ifs with h
  · simp [h]
  · have ht := total_eq c
    obtain ⟨i, g, cnt, hw, -⟩ := walk_zero_spec c.bins (goal - c.under) (by omega) (by omega)
    rw [hw]
    simp [h]

example : histQuantilePos (Counts.mk 2 [1, 0, 3] 4) 2 = none :=
  (histQuantilePos_none_iff _ _).2 (Or.inl (by decide))
example : histQuantilePos (Counts.mk 2 [1, 0, 3] 4) 7 = none :=
  (histQuantilePos_none_iff _ _).2 (Or.inr (by decide))
example : histQuantilePos (Counts.mk 2 [1, 0, 3] 4) 6 ≠ none := by
  rw [Ne, histQuantilePos_none_iff]; decide

/-- Full description of a successful quantile position: the goal is strictly past the underflow and
not in the overflow, the walk lands in a valid bin `i` with count `cnt` and in-bin rank `g`
(`1 ≤ g ≤ cnt`), `under + Σ_{j<i} bins[j] + g = goal`, and the position is `i + g / cnt`. -/
theorem histQuantilePos_some_spec (c : Counts) (goal : ℕ) (pos : ℚ)
    (h : histQuantilePos c goal = some pos) :
    ∃ i g cnt, walk c.bins 0 (goal - c.under) = some (i, g, cnt) ∧ i < c.bins.length ∧
      c.bins[i]? = some cnt ∧ 1 ≤ g ∧ g ≤ cnt ∧ c.under + (c.bins.take i).sum + g = goal ∧
      pos = (i : ℚ) + (g : ℚ) / (cnt : ℚ) := by
  unfold histQuantilePos at h
  split_ifs at h with hcond
  have ht := total_eq c
  obtain ⟨i, g, cnt, hw, hi, hget, hg1, hg2, hs⟩ :=
    walk_zero_spec c.bins (goal - c.under) (by omega) (by omega)
  rw [hw] at h
  simp only [Option.some.injEq] at h
  exact ⟨i, g, cnt, hw, hi, hget, hg1, hg2, by omega, h.symm⟩

example : ∃ i g cnt, walk [1, 0, 3] 0 (5 - 2) = some (i, g, cnt) ∧ i < 3 ∧
    [1, 0, 3][i]? = some cnt ∧ 1 ≤ g ∧ g ≤ cnt ∧ 2 + ([1, 0, 3].take i).sum + g = 5 ∧
    (2 + 2 / 3 : ℚ) = (i : ℚ) + (g : ℚ) / (cnt : ℚ) :=
  histQuantilePos_some_spec (Counts.mk 2 [1, 0, 3] 4) 5 (2 + 2 / 3) (by norm_num [histQuantilePos, walk, Counts.total])

/-- H5f. A successful quantile position lies in the half-open-on-the-left bin interval
`(i, i+1]` of the bin `i` found by the walk, so `BinToValue(pos)` lies within bin `i`'s edges. -/
theorem histQuantilePos_in_bin (c : Counts) (goal : ℕ) (pos : ℚ)
    (h : histQuantilePos c goal = some pos) :
    ∃ i g cnt, walk c.bins 0 (goal - c.under) = some (i, g, cnt) ∧ i < c.bins.length ∧
      (i : ℚ) < pos ∧ pos ≤ (i : ℚ) + 1 := by
  obtain ⟨i, g, cnt, hw, hi, -, hg1, hg2, -, hpos⟩ := histQuantilePos_some_spec c goal pos h
  refine ⟨i, g, cnt, hw, hi, ?_, ?_⟩
  · have hc : (0 : ℚ) < cnt := by exact_mod_cast (by omega : 0 < cnt)
    have hg : (0 : ℚ) < g := by exact_mod_cast (by omega : 0 < g)
    have : (0 : ℚ) < (g : ℚ) / cnt := div_pos hg hc
    linarith
  · have hc : (0 : ℚ) < cnt := by exact_mod_cast (by omega : 0 < cnt)
    have hgc : (g : ℚ) ≤ cnt := by exact_mod_cast hg2
    have : (g : ℚ) / cnt ≤ 1 := (div_le_one hc).2 hgc
    linarith

example : ∃ i g cnt, walk [1, 0, 3] 0 (5 - 2) = some (i, g, cnt) ∧ i < 3 ∧
    (i : ℚ) < 2 + 2 / 3 ∧ (2 + 2 / 3 : ℚ) ≤ (i : ℚ) + 1 :=
  histQuantilePos_in_bin (Counts.mk 2 [1, 0, 3] 4) 5 (2 + 2 / 3) (by norm_num [histQuantilePos, walk, Counts.total])

lemma take_sum_mono (l : List ℕ) {i j : ℕ} (h : i ≤ j) : (l.take i).sum ≤ (l.take j).sum := by
  induction l generalizing i j with
  | nil => simp
  | cons a t ih =>
    cases i with
    | zero => simp
    | succ i =>
      cases j with
      | zero => omega
      | succ j =>
        simp only [List.take_succ_cons, List.sum_cons]
        have := ih (i := i) (j := j) (by omega)
        omega

lemma take_succ_sum (l : List ℕ) (i cnt : ℕ) (h : l[i]? = some cnt) :
    (l.take (i + 1)).sum = (l.take i).sum + cnt := by
  induction l generalizing i with
  | nil => simp at h
  | cons a t ih =>
    cases i with
    | zero => simp at h; simp [h]
    | succ i =>
      have := ih i (by simpa using h)
      simp only [List.take_succ_cons, List.sum_cons] at this ⊢
      omega

/-- H5g. The quantile position is non-decreasing in the goal rank (hence in `q`): for goals
`g1 ≤ g2` that both yield a position, `pos1 ≤ pos2`. -/
theorem histQuantilePos_mono (c : Counts) (g1 g2 : ℕ) (p1 p2 : ℚ) (hg : g1 ≤ g2)
    (h1 : histQuantilePos c g1 = some p1) (h2 : histQuantilePos c g2 = some p2) : p1 ≤ p2 := by
  obtain ⟨i1, r1, c1, -, hi1, hget1, hr1, hrc1, hs1, hp1⟩ := histQuantilePos_some_spec c g1 p1 h1
  obtain ⟨i2, r2, c2, -, hi2, hget2, hr2, hrc2, hs2, hp2⟩ := histQuantilePos_some_spec c g2 p2 h2
  have hle : i1 ≤ i2 := by
    by_contra hlt
    have hm := take_sum_mono c.bins (i := i2 + 1) (j := i1) (by omega)
    rw [take_succ_sum c.bins i2 c2 hget2] at hm
    omega
  have hc1 : (0 : ℚ) < c1 := by exact_mod_cast (by omega : 0 < c1)
  have hc2 : (0 : ℚ) < c2 := by exact_mod_cast (by omega : 0 < c2)
  rcases Nat.eq_or_lt_of_le hle with heq | hlt
  · subst heq
    rw [hget1] at hget2
    obtain rfl : c1 = c2 := by simpa using hget2
    have hr : (r1 : ℚ) ≤ r2 := by exact_mod_cast (by omega : r1 ≤ r2)
    have : (r1 : ℚ) / c1 ≤ (r2 : ℚ) / c1 := div_le_div_of_nonneg_right hr hc1.le
    rw [hp1, hp2]; linarith
  · have ha : (r1 : ℚ) / c1 ≤ 1 := (div_le_one hc1).2 (by exact_mod_cast hrc1)
    have hb : (0 : ℚ) < (r2 : ℚ) / c2 :=
      div_pos (by exact_mod_cast (by omega : 0 < r2)) hc2
    have hi : (i1 : ℚ) + 1 ≤ i2 := by exact_mod_cast hlt
    rw [hp1, hp2]; linarith

example : (1 / 1 : ℚ) ≤ 2 + 2 / 3 :=
  histQuantilePos_mono (Counts.mk 2 [1, 0, 3] 4) 3 5 _ _ (by decide)
    (by norm_num [histQuantilePos, walk, Counts.total]) (by norm_num [histQuantilePos, walk, Counts.total])

end MV.Hist
