import Mathlib.Tactic
import MV.Model.Hist
/-!
# C14 — the float-to-int conversion of the bin position (finding F15 and its repair)

The model of C14 works with the unbounded integer `⌊position⌋`. The code converts a float64 position to a
machine `int`; beyond the int range that conversion is implementation-defined. These theorems say that the
repaired `clampBin` selects the slot of `⌊position⌋` *whatever* the conversion does out of range
(`clampBin_slot`), and that the pinned code did not (`oldBin_wrong`: with the amd64 behaviour a sample far
above the range is counted as under).
-/
namespace MV.Hist

/-- **Repair is right for every conversion.** If `conv` is the floor on `[0, nbins)` — the only region where
`clampBinM` calls it — then the slot chosen is the slot of the exact integer position `⌊p⌋`, for every rational
position `p` (however large) and every behaviour of `conv` elsewhere. -/
theorem clampBin_slot (conv : ℚ → ℤ) (nbins : ℕ)
    (hconv : ∀ p : ℚ, 0 ≤ p → p < nbins → conv p = ⌊p⌋) (p : ℚ) :
    slotOf nbins (clampBinM conv (⌊p⌋ : ℚ) nbins) = slotOf nbins ⌊p⌋ := by
  unfold clampBinM
  by_cases h0 : (0 : ℚ) ≤ (⌊p⌋ : ℚ)
  · have h0' : (0 : ℤ) ≤ ⌊p⌋ := by exact_mod_cast h0
    rw [if_neg (by simpa using h0)]
    by_cases h1 : ((nbins : ℚ)) ≤ (⌊p⌋ : ℚ)
    · have h1' : (nbins : ℤ) ≤ ⌊p⌋ := by exact_mod_cast h1
      rw [if_pos h1]
      unfold slotOf
      have : ¬ ((nbins : ℤ) < 0) := by omega
      simp [this, h1']
      omega
    · rw [if_neg h1]
      have hlt : (⌊p⌋ : ℚ) < nbins := lt_of_not_ge h1
      rw [hconv _ h0 hlt]
      simp
  · have hneg : ⌊p⌋ < 0 := by
      by_contra hc
      exact h0 (by exact_mod_cast (not_lt.mp hc))
    rw [if_pos (by simpa using h0)]
    unfold slotOf
    simp [hneg]

/-- the amd64 conversion: floor inside the int64 range, the most negative int outside -/
def convAmd64 (p : ℚ) : ℤ := if -(2 : ℚ) ^ 63 ≤ p ∧ p < (2 : ℚ) ^ 63 then ⌊p⌋ else -(2 : ℤ) ^ 63

/-- **The pinned code was wrong (F15).** With the amd64 conversion, a position of 10¹⁹ (the sample 10¹⁸ in
`NewLinearHist(0,1,10)`) lands in the *under* slot although its integer position is far above the last bin. -/
theorem oldBin_wrong :
    slotOf 10 (oldBinM convAmd64 ((10 : ℚ) ^ 19)) = .under ∧ slotOf 10 ⌊((10 : ℚ) ^ 19)⌋ = .over := by
  constructor
  · unfold oldBinM convAmd64 slotOf
    norm_num
  · unfold slotOf
    have : ⌊((10 : ℚ) ^ 19)⌋ = (10 : ℤ) ^ 19 := by
      have : ((10 : ℚ) ^ 19) = (((10 : ℤ) ^ 19 : ℤ) : ℚ) := by norm_num
      rw [this, Int.floor_intCast]
    rw [this]
    norm_num

/-- and the repaired code is right on the same input, with the same conversion -/
example : slotOf 10 (clampBinM convAmd64 ((10 : ℚ) ^ 19) 10) = .over := by
  unfold clampBinM slotOf
  norm_num

end MV.Hist
