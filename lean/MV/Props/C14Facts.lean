import MV.Props.FactsLib
/-! Structural facts C14 relies on, re-extracted from /repo on every run. -/
namespace MV.Facts

/-- State that outlives a call, as extracted from the source on this run: the package-level
variables of the packages this property's code lives in, the functions (other than `init`) that
assign to them or call methods on them, and the fields of the property's struct types. The model is
a pure function of the arguments and of these fields; a new variable, writer or field is state the
model does not know of. The digest-valued entries cover, per package: every declared function and
method with its receiver kind (`funcs:`), every function-reads-package-variable pair (`reads:`) and
every write through a parameter or receiver, including in-place `sort.*`/`copy` (`pwrites:`); the
lists behind the digests are in `funcs_expected.txt` and in comments of the generated file. -/
def stateC14 : List (String × String) := [("globals:stats", "ErrMismatchedSamples ErrSampleSize ErrSamplesEqual ErrZeroVariance MannWhitneyExactLimit MannWhitneyTiesExactLimit StdNormal _KDEBoundaryMethod_index _KDEKernel_index _LocationHypothesis_index inf nan quantileCIApproxThreshold"), ("globalwrites:stats", "MannWhitneyUTest:StdNormal.CDF"), ("fields:stats.LinearHist", "min:float64 max:float64 delta:float64 low:uint high:uint bins:[]uint"), ("fields:stats.LogHist", "b:int m:float64 mOverLogb:float64 low:uint high:uint bins:[]uint"), ("funcs:stats", "n=117 fnv64a=f105f997db64badb"), ("reads:stats", "n=25 fnv64a=8314b76793c8b23b"), ("pwrites:stats", "n=12 fnv64a=4e7a6b5338e6d373")]

/-- the source has exactly the package-level variables, writers and struct fields the model accounts for -/
theorem state_C14 : holdsAll stateC14 = true := by decide +kernel

end MV.Facts
