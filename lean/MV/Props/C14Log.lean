import Mathlib
import MV.Model.Hist
import MV.Proofs.Interval
import MV.Props.C14
/-!
# C14 (log) — the real-valued specification of `LogHist` and the soundness of the judge

`LogHist` has no exact rational model (logarithms are irrational).  This file states its
specification over ℝ (`logBinR`, `logBinToValueR`), proves the structural facts the property relies
on, and links the specification to what the driver `handleLog` (MV/Driver/Hist.lean) accepts: the
interval `pos x` really encloses `m·log_b x` and the true bin index lies between the two candidate
bins computed from that enclosure.
-/
namespace MV.Hist

open MV

/-- Real specification of the `LogHist` bin index: `⌊m · log_b x⌋`. -/
noncomputable def logBinR (b : ℕ) (m x : ℝ) : ℤ := ⌊m * Real.logb b x⌋

/-- Real specification of `LogHist.BinToValue`: `b^(v/m)`. -/
noncomputable def logBinToValueR (b : ℕ) (m v : ℝ) : ℝ := (b : ℝ) ^ (v / m)

section spec
variable {b : ℕ} {m x y : ℝ}

lemma base_gt_one (hb : 2 ≤ b) : (1 : ℝ) < (b : ℝ) := by
  have : (2 : ℝ) ≤ (b : ℝ) := by exact_mod_cast hb
  linarith

lemma base_pos (hb : 2 ≤ b) : (0 : ℝ) < (b : ℝ) := lt_trans one_pos (base_gt_one hb)

lemma logBinToValue_pos (hb : 2 ≤ b) (m v : ℝ) : 0 < logBinToValueR b m v :=
  Real.rpow_pos_of_pos (base_pos hb) _

/-- Galois-connection form of the log binning rule: the integer `i` is at most the bin index of `x`
exactly when the lower edge `BinToValue(i) = b^(i/m)` is at most `x`. -/
theorem le_logBin_iff (hb : 2 ≤ b) (hm : 0 < m) (hx : 0 < x) (i : ℤ) :
    i ≤ logBinR b m x ↔ logBinToValueR b m (i : ℝ) ≤ x := by
  unfold logBinR logBinToValueR
  rw [Int.le_floor, ← Real.le_logb_iff_rpow_le (base_gt_one hb) hx, div_le_iff₀ hm, mul_comm]

/-- The bin index of `x` is below the integer `i` exactly when `x` is strictly below the edge
`BinToValue(i)`. -/
theorem logBin_lt_iff (hb : 2 ≤ b) (hm : 0 < m) (hx : 0 < x) (i : ℤ) :
    logBinR b m x < i ↔ x < logBinToValueR b m (i : ℝ) := by
  rw [← not_le, le_logBin_iff hb hm hx, not_le]

/-- Goal 1. A positive sample lands in bin `i` (any integer, also out-of-range ones) exactly when it
lies in the half-open interval between the consecutive bin values `b^(i/m)` and `b^((i+1)/m)`. -/
theorem logBin_iff (hb : 2 ≤ b) (hm : 0 < m) (hx : 0 < x) (i : ℤ) :
    logBinR b m x = i ↔
      logBinToValueR b m (i : ℝ) ≤ x ∧ x < logBinToValueR b m ((i : ℝ) + 1) := by
  rw [← le_logBin_iff hb hm hx, show ((i : ℝ) + 1) = ((i + 1 : ℤ) : ℝ) by push_cast; ring,
    ← logBin_lt_iff hb hm hx]
  omega

/-- Goal 2a. `BinToValue` is strictly increasing in the (fractional) bin position, is `1` at
position `0`, and position `m·k` has value `b^k` (there are `m` bins per power of `b`). -/
theorem logBinToValue_strictMono (hb : 2 ≤ b) (hm : 0 < m) :
    StrictMono (logBinToValueR b m) ∧ logBinToValueR b m 0 = 1 ∧
      ∀ k : ℕ, logBinToValueR b m (m * k) = (b : ℝ) ^ k := by
  refine ⟨?_, ?_, ?_⟩
  · intro u v huv
    unfold logBinToValueR
    exact Real.rpow_lt_rpow_of_exponent_lt (base_gt_one hb) (div_lt_div_of_pos_right huv hm)
  · simp [logBinToValueR]
  · intro k
    unfold logBinToValueR
    rw [mul_div_cancel_left₀ _ hm.ne', Real.rpow_natCast]

/-- Goal 2b. `m · log_b` is the inverse of `BinToValue`: the (fractional) bin position of the value
of position `v` is `v`. -/
theorem logBinToValue_logBin_inverse (hb : 2 ≤ b) (hm : 0 < m) (v : ℝ) :
    m * Real.logb b (logBinToValueR b m v) = v := by
  unfold logBinToValueR
  rw [Real.logb_rpow (base_pos hb) (base_gt_one hb).ne', mul_div_cancel₀ _ hm.ne']

/-- The other direction of the inverse: the value of the fractional position of `x` is `x`. -/
theorem logBinToValue_pos_inverse (hb : 2 ≤ b) (hm : 0 < m) (hx : 0 < x) :
    logBinToValueR b m (m * Real.logb b x) = x := by
  unfold logBinToValueR
  rw [mul_div_cancel_left₀ _ hm.ne', Real.rpow_logb (base_pos hb) (base_gt_one hb).ne' hx]

/-- Goal 3a. The bin index is non-decreasing in the sample. -/
theorem logBin_mono (hb : 2 ≤ b) (hm : 0 < m) (hx : 0 < x) (hxy : x ≤ y) :
    logBinR b m x ≤ logBinR b m y := by
  rw [le_logBin_iff hb hm (hx.trans_le hxy)]
  exact ((le_logBin_iff hb hm hx _).1 le_rfl).trans hxy

/-- Goal 3b. A positive sample has a negative bin index (is counted as underflow) exactly when it is
below `1`. -/
theorem logBin_under_iff (hb : 2 ≤ b) (hm : 0 < m) (hx : 0 < x) :
    logBinR b m x < 0 ↔ x < 1 := by
  rw [logBin_lt_iff hb hm hx 0]
  simp [logBinToValueR]

/-- Goal 3c. A positive sample has bin index at least `n` (is counted as overflow in a histogram of
`n` bins) exactly when it is at least the value `b^(n/m)` of position `n`. -/
theorem logBin_over_iff (hb : 2 ≤ b) (hm : 0 < m) (hx : 0 < x) (n : ℕ) :
    (n : ℤ) ≤ logBinR b m x ↔ logBinToValueR b m (n : ℝ) ≤ x := by
  rw [le_logBin_iff hb hm hx]
  simp

/-- Slot form of 3b/3c and of Goal 1 for an in-range bin. -/
theorem logSlot_iff (hb : 2 ≤ b) (hm : 0 < m) (hx : 0 < x) (n : ℕ) :
    (slotOf n (logBinR b m x) = .under ↔ x < 1) ∧
    (slotOf n (logBinR b m x) = .over ↔ logBinToValueR b m (n : ℝ) ≤ x) ∧
    ∀ i : ℕ, i < n → (slotOf n (logBinR b m x) = .bin i ↔
      logBinToValueR b m (i : ℝ) ≤ x ∧ x < logBinToValueR b m ((i : ℝ) + 1)) := by
  refine ⟨?_, ?_, fun i hi => ?_⟩
  · rw [slotOf_under_iff, logBin_under_iff hb hm hx]
  · rw [slotOf_over_iff, logBin_over_iff hb hm hx]
  · rw [slotOf_bin_iff hi, logBin_iff hb hm hx]
    simp

end spec

/-! ## Conservation -/

/-- Counters after adding, one by one, samples classified by an arbitrary function `f`. -/
def classRun {α : Type} (f : α → ℤ) (n : ℕ) (xs : List α) (c : Counts) : Counts :=
  xs.foldl (fun c x => c.add (slotOf n (f x))) c

/-- Conservation for any classification function and any starting counters with `n` bins: the total
grows by exactly the number of samples, and the number of bins stays `n`. -/
theorem classRun_total {α : Type} (f : α → ℤ) (n : ℕ) (xs : List α) (c : Counts)
    (hc : c.bins.length = n) :
    (classRun f n xs c).total = c.total + xs.length ∧ (classRun f n xs c).bins.length = n := by
  unfold classRun
  induction xs generalizing c with
  | nil => simp [hc]
  | cons x xs ih =>
    simp only [List.foldl_cons, List.length_cons]
    have hlen : (c.add (slotOf n (f x))).bins.length = n := by rw [add_bins_length, hc]
    have htot := add_total c (slotOf n (f x)) (fun i h => by rw [hc]; exact slotOf_bin_lt h)
    obtain ⟨h1, h2⟩ := ih _ hlen
    exact ⟨by rw [h1, htot]; omega, h2⟩

/-- All adds of a `LogHist` history, by the real specification, from given counters. -/
noncomputable def logRunFromR (b : ℕ) (m : ℝ) (n : ℕ) (xs : List ℝ) (c : Counts) : Counts :=
  xs.foldl (fun c x => c.add (slotOf n (logBinR b m x))) c

/-- All adds of a `LogHist` history, by the real specification, from empty counters. -/
noncomputable def logRunR (b : ℕ) (m : ℝ) (n : ℕ) (xs : List ℝ) : Counts :=
  logRunFromR b m n xs (Counts.empty n)

/-- Goal 4 (general start). From any counters whose bin list has length `n`, a history of `Add`s
raises the total by the number of samples and keeps `n` bins. -/
theorem logRunFrom_total (b : ℕ) (m : ℝ) (n : ℕ) (xs : List ℝ) (c : Counts)
    (hc : c.bins.length = n) :
    (logRunFromR b m n xs c).total = c.total + xs.length ∧
      (logRunFromR b m n xs c).bins.length = n :=
  classRun_total (logBinR b m) n xs c hc

/-- Goal 4. After any history of `Add`s to a log histogram the counters (underflow, bins, overflow)
sum to the number of samples added; needs no hypothesis on `b`, `m`, `n` or the samples. -/
theorem logRun_total (b : ℕ) (m : ℝ) (n : ℕ) (xs : List ℝ) :
    (logRunR b m n xs).total = xs.length := by
  have := (logRunFrom_total b m n xs (Counts.empty n) (by simp [Counts.empty])).1
  rw [logRunR, this, total_eq]
  simp [Counts.empty]

/-- The number of bins never changes. -/
theorem logRun_bins_length (b : ℕ) (m : ℝ) (n : ℕ) (xs : List ℝ) :
    (logRunR b m n xs).bins.length = n :=
  (logRunFrom_total b m n xs (Counts.empty n) (by simp [Counts.empty])).2

/-! ## Soundness of the judge -/

lemma ratFloor_cast (q : ℚ) : ⌊(q : ℝ)⌋ = q.floor := by
  rw [ratFloor_eq]; exact Rat.floor_cast q

/-- If the interval `p` contains the real `y` and `d ≥ 0`, then `⌊y⌋` lies between the floors of the
widened end points. -/
lemma floor_between {y : ℝ} {p : I} (hp : I.Mem y p) {d : ℚ} (hd : 0 ≤ d) :
    (p.lo - d).floor ≤ ⌊y⌋ ∧ ⌊y⌋ ≤ (p.hi + d).floor := by
  have hdR : (0 : ℝ) ≤ (d : ℝ) := by exact_mod_cast hd
  constructor
  · rw [← ratFloor_cast]
    apply Int.floor_le_floor
    push_cast
    linarith [hp.1]
  · rw [← ratFloor_cast]
    apply Int.floor_le_floor
    push_cast
    linarith [hp.2]

/-- Goal 5a. If the rational interval `p` contains `m·log_b x` and `d ≥ 0`, then the true bin index
of `x` lies between the judge's two candidate bins `⌊p.lo − d⌋` and `⌊p.hi + d⌋` (inclusive). -/
theorem cands_sound (b : ℕ) (m x : ℝ) (p : I) (d : ℚ) (hd : 0 ≤ d)
    (hp : I.Mem (m * Real.logb b x) p) :
    (p.lo - d).floor ≤ logBinR b m x ∧ logBinR b m x ≤ (p.hi + d).floor :=
  floor_between hp hd

/-- The candidate list exactly as the driver's `candsOf` builds it from the enclosure `p` and the
tolerance `d`. -/
def candsList (p : I) (d : ℚ) : List ℤ :=
  let a := (p.lo - d).floor; let c := (p.hi + d).floor
  if a == c then [a] else [a, c]

/-- Goal 5a, list form. The driver only lists the two END candidates.  When the widened enclosure is
shorter than one bin (`p.hi + d − (p.lo − d) < 1`; in the driver its length is about `2⁻⁴⁷·(|p|+1)`)
the two candidates are equal or adjacent, so the true bin index is a member of the list. -/
theorem cands_list_sound (b : ℕ) (m x : ℝ) (p : I) (d : ℚ) (hd : 0 ≤ d)
    (hp : I.Mem (m * Real.logb b x) p) (hw : (p.hi + d) - (p.lo - d) < 1) :
    logBinR b m x ∈ candsList p d := by
  obtain ⟨h1, h2⟩ := cands_sound b m x p d hd hp
  have h3 : (p.hi + d).floor ≤ (p.lo - d).floor + 1 := by
    rw [ratFloor_eq, ratFloor_eq]
    have ha := Int.lt_floor_add_one (p.lo - d)
    have hc := Int.floor_le (p.hi + d)
    have : ((⌊p.hi + d⌋ : ℤ) : ℚ) < ((⌊p.lo - d⌋ + 1 + 1 : ℤ) : ℚ) := by
      push_cast; linarith
    have := Int.cast_lt.mp this
    omega
  unfold candsList
  simp only [beq_iff_eq]
  split_ifs with h
  · simp; omega
  · simp; omega

/-- Ceiling analogue (used for the number of bins `⌈m·log_b max⌉`): the true ceiling lies between
the ceilings of the widened end points. -/
theorem nbins_sound (b : ℕ) (m x : ℝ) (p : I) (d : ℚ) (hd : 0 ≤ d)
    (hp : I.Mem (m * Real.logb b x) p) :
    (p.lo - d).ceil ≤ ⌈m * Real.logb b x⌉ ∧ ⌈m * Real.logb b x⌉ ≤ (p.hi + d).ceil := by
  have hdR : (0 : ℝ) ≤ (d : ℝ) := by exact_mod_cast hd
  have e : ∀ q : ℚ, ⌈(q : ℝ)⌉ = q.ceil := fun q => by
    rw [Rat.ceil_cast]
    exact le_antisymm (Int.ceil_le.2 Rat.le_ceil) (Rat.ceil_le_iff.2 (Int.le_ceil q))
  constructor
  · rw [← e]
    apply Int.ceil_le_ceil
    push_cast
    linarith [hp.1]
  · rw [← e]
    apply Int.ceil_le_ceil
    push_cast
    linarith [hp.2]

end MV.Hist

/-! ## The enclosure of `log q` is strictly positive for `q ≥ 2`

`I.div` is sound only when the divisor interval excludes zero.  The divisor in the driver is
`logQ b`; `Interval.lean` has no width bounds, so positivity of its lower end is proved here from a
crude, width-free magnitude analysis of the fixed-point `atanh` fold. -/

namespace MV.I
open FI

/-- both end points of a fixed-point interval have magnitude at most `M` (in grid units) -/
def FI.Bd (a : FI) (M : ℝ) : Prop := |((a.lo : ℤ) : ℝ)| ≤ M ∧ |((a.hi : ℤ) : ℝ)| ≤ M

lemma FI.Bd.mono {a : FI} {M N : ℝ} (h : FI.Bd a M) (hMN : M ≤ N) : FI.Bd a N :=
  ⟨h.1.trans hMN, h.2.trans hMN⟩

lemma FI.Bd.nonneg {a : FI} {M : ℝ} (h : FI.Bd a M) : 0 ≤ M := (abs_nonneg _).trans h.1

lemma fdivP_gt (x : ℤ) : (x : ℝ) / SR - 1 < ((fdivP x : ℤ) : ℝ) := by
  have h := cdivP_lt (-x)
  have e : cdivP (-x) = -fdivP x := by unfold cdivP fdivP; simp
  rw [e] at h
  push_cast at h
  rw [neg_div] at h
  linarith

lemma abs_fdivP_le (x : ℤ) {B : ℝ} (h : |(x : ℝ)| ≤ B) : |((fdivP x : ℤ) : ℝ)| ≤ B / SR + 1 := by
  have h1 := fdivP_le x
  have h2 := fdivP_gt x
  have h3 := abs_le.mp h
  have hS := SR_pos
  have a1 : (x : ℝ) / SR ≤ B / SR := div_le_div_of_nonneg_right h3.2 hS.le
  have a2 : -B / SR ≤ (x : ℝ) / SR := div_le_div_of_nonneg_right h3.1 hS.le
  rw [neg_div] at a2
  rw [abs_le]; constructor <;> linarith

lemma abs_cdivP_le (x : ℤ) {B : ℝ} (h : |(x : ℝ)| ≤ B) : |((cdivP x : ℤ) : ℝ)| ≤ B / SR + 1 := by
  have h1 := le_cdivP x
  have h2 := cdivP_lt x
  have h3 := abs_le.mp h
  have hS := SR_pos
  have a1 : (x : ℝ) / SR ≤ B / SR := div_le_div_of_nonneg_right h3.2 hS.le
  have a2 : -B / SR ≤ (x : ℝ) / SR := div_le_div_of_nonneg_right h3.1 hS.le
  rw [neg_div] at a2
  rw [abs_le]; constructor <;> linarith

lemma abs_min_le {a b B : ℝ} (ha : |a| ≤ B) (hb : |b| ≤ B) : |min a b| ≤ B := by
  rcases min_choice a b with h | h <;> rw [h] <;> assumption

lemma abs_max_le {a b B : ℝ} (ha : |a| ≤ B) (hb : |b| ≤ B) : |max a b| ≤ B := by
  rcases max_choice a b with h | h <;> rw [h] <;> assumption

lemma abs_mul_le {a b M N : ℝ} (ha : |a| ≤ M) (hb : |b| ≤ N) : |a * b| ≤ M * N := by
  rw [abs_mul]; exact mul_le_mul ha hb (abs_nonneg _) ((abs_nonneg _).trans ha)

lemma FI.Bd_mul {a b : FI} {M N : ℝ} (ha : FI.Bd a M) (hb : FI.Bd b N) :
    FI.Bd (FI.mul a b) (M * N / SR + 1) := by
  unfold FI.mul; simp only [imin_eq, imax_eq]
  constructor
  · apply abs_fdivP_le
    push_cast
    exact abs_min_le (abs_min_le (abs_mul_le ha.1 hb.1) (abs_mul_le ha.1 hb.2))
      (abs_min_le (abs_mul_le ha.2 hb.1) (abs_mul_le ha.2 hb.2))
  · apply abs_cdivP_le
    push_cast
    exact abs_max_le (abs_max_le (abs_mul_le ha.1 hb.1) (abs_mul_le ha.1 hb.2))
      (abs_max_le (abs_mul_le ha.2 hb.1) (abs_mul_le ha.2 hb.2))

lemma FI.Bd_sq {a : FI} {M : ℝ} (ha : FI.Bd a M) : FI.Bd (FI.sq a) (M * M / SR + 1) := by
  have hS := SR_pos
  have h0 : 0 ≤ M * M / SR + 1 := by
    have := mul_self_nonneg M
    positivity
  unfold FI.sq
  split_ifs
  · exact ⟨abs_fdivP_le _ (by push_cast; exact abs_mul_le ha.1 ha.1),
      abs_cdivP_le _ (by push_cast; exact abs_mul_le ha.2 ha.2)⟩
  · exact ⟨abs_fdivP_le _ (by push_cast; exact abs_mul_le ha.2 ha.2),
      abs_cdivP_le _ (by push_cast; exact abs_mul_le ha.1 ha.1)⟩
  · refine ⟨by simpa using h0, abs_cdivP_le _ ?_⟩
    rw [imax_eq]; push_cast
    exact abs_max_le (abs_mul_le ha.1 ha.1) (abs_mul_le ha.2 ha.2)

lemma fdiv_gt_real (x : ℤ) {d : ℤ} (hd : 0 < d) : (x : ℝ) / (d : ℝ) - 1 < ((Int.fdiv x d : ℤ) : ℝ) := by
  have h := neg_fdiv_neg_lt_real (-x) hd
  rw [neg_neg] at h
  push_cast at h
  rw [neg_div] at h
  linarith

lemma SR_large : (1000000 : ℝ) ≤ SR := by rw [SR_eq_pow]; norm_num

/-- magnitude of the running power in the `atanh` fold: it decays at least like `8^-j` -/
lemma atanhFoldF_pw_bd {z : FI} (hz : FI.Bd z (SR / 4)) (j : ℕ) :
    FI.Bd (atanhFoldF z j).2 (SR / 4 * (1 / 8) ^ j + 3) := by
  have hS := SR_pos
  have hL := SR_large
  induction j with
  | zero => rw [atanhFoldF_zero]; exact hz.mono (by simp)
  | succ j ih =>
    rw [atanhFoldF_succ]
    refine (FI.Bd_mul ih (FI.Bd_sq hz)).mono ?_
    have ht0 : (0 : ℝ) < (1 / 8) ^ j := by positivity
    have ht1 : ((1 : ℝ) / 8) ^ j ≤ 1 := pow_le_one₀ (by norm_num) (by norm_num)
    rw [pow_succ]
    generalize ((1 : ℝ) / 8) ^ j = t at ht0 ht1 ⊢
    have key : (SR / 4 * t + 3) * (SR / 4 * (SR / 4) / SR + 1) / SR + 1
        = SR / 64 * t + t / 4 + 3 / 16 + 3 / SR + 1 := by
      field_simp; ring
    rw [key]
    have h3 : 3 / SR ≤ 1 := by rw [div_le_one hS]; linarith
    have h4 := mul_pos hS ht0
    linarith

/-- lower bound on the running partial sum of the `atanh` fold -/
lemma atanhFoldF_s_lo {z : FI} (hz : FI.Bd z (SR / 4)) (j : ℕ) :
    -(SR * (4 / 7) * (1 - (1 / 8) ^ j) + 8 * j) ≤ (((atanhFoldF z j).1.lo : ℤ) : ℝ) := by
  have hS := SR_pos
  induction j with
  | zero => rw [atanhFoldF_zero]; simp
  | succ j ih =>
    rw [atanhFoldF_succ]
    have hpw := (atanhFoldF_pw_bd hz j).1
    generalize atanhFoldF z j = r at ih hpw ⊢
    obtain ⟨s, pw⟩ := r
    simp only at ih hpw ⊢
    have e1 : (FI.add s (FI.divNat (FI.mulInt pw 2) (2 * j + 1))).lo
        = s.lo + Int.fdiv (pw.lo * 2) ((2 * j + 1 : ℕ) : ℤ) := by
      unfold FI.add FI.divNat FI.mulInt; simp
    rw [e1]
    have hd : (0 : ℤ) < ((2 * j + 1 : ℕ) : ℤ) := by positivity
    have h1 := fdiv_gt_real (pw.lo * 2) hd
    have hdR : (1 : ℝ) ≤ (((2 * j + 1 : ℕ) : ℤ) : ℝ) := by push_cast; linarith [(Nat.cast_nonneg j : (0:ℝ) ≤ j)]
    have h2 : -(2 * (SR / 4 * (1 / 8) ^ j + 3)) ≤ ((pw.lo * 2 : ℤ) : ℝ) / (((2 * j + 1 : ℕ) : ℤ) : ℝ) := by
      have habs : |((pw.lo * 2 : ℤ) : ℝ) / (((2 * j + 1 : ℕ) : ℤ) : ℝ)| ≤ 2 * (SR / 4 * (1 / 8) ^ j + 3) := by
        rw [abs_div, abs_of_pos (by linarith : (0:ℝ) < (((2 * j + 1 : ℕ) : ℤ) : ℝ))]
        refine (div_le_self (abs_nonneg _) hdR).trans ?_
        push_cast
        rw [abs_mul, abs_of_pos (by norm_num : (0:ℝ) < 2)]
        linarith
      exact (abs_le.mp habs).1
    push_cast at h1 h2 ih ⊢
    rw [pow_succ]
    nlinarith

lemma atanh2F_lo_ge {z : FI} (hz : FI.Bd z (SR / 4)) :
    -(58 / 100 * SR) ≤ (((atanh2F z).lo : ℤ) : ℝ) := by
  rw [atanh2F_eq]
  have hs := atanhFoldF_s_lo hz 46
  have hp := atanhFoldF_pw_bd hz 46
  have hL := SR_large
  generalize atanhFoldF z 46 = r at hs hp ⊢
  have hpa : |((FI.imax (-r.2.lo) r.2.hi : ℤ) : ℝ)| ≤ SR / 4 * (1 / 8) ^ 46 + 3 := by
    rw [imax_eq]; push_cast
    exact abs_max_le (by rw [abs_neg]; exact hp.1) hp.2
  generalize FI.imax (-r.2.lo) r.2.hi = pa at hpa ⊢
  have hrem := neg_fdiv_neg_lt_real (pa * 9) (d := 372) (by norm_num)
  have hd : (4 * ((2 * 45 + 3 : ℕ) : ℤ)) = 372 := by norm_num
  rw [hd]
  unfold FI.widen
  simp only
  have hpa' := (abs_le.mp hpa).2
  have hsmall : ((1 : ℝ) / 8) ^ 46 ≤ 1 / 100 := by norm_num
  push_cast at hrem hs ⊢
  nlinarith


lemma ofRat_Bd (q : ℚ) (hq : |q| ≤ 1 / 5) : FI.Bd (FI.ofRat q) (SR / 4) := by
  have hL := SR_large
  have hS : (0 : ℚ) < (scaleN : ℚ) := scaleN_pos
  obtain ⟨h1, h2⟩ := abs_le.mp hq
  have hqR1 : -(1 / 5 : ℝ) ≤ (q : ℝ) := by
    have := (Rat.cast_le (K := ℝ)).mpr h1; push_cast at this; exact this
  have hqR2 : (q : ℝ) ≤ (1 / 5 : ℝ) := by
    have := (Rat.cast_le (K := ℝ)).mpr h2; push_cast at this; exact this
  have hSR : ((q * (scaleN : ℚ) : ℚ) : ℝ) = (q : ℝ) * SR := by unfold SR; push_cast; ring
  have f1 : (((q * (scaleN : ℚ)).floor : ℤ) : ℝ) ≤ (q : ℝ) * SR := by
    rw [← hSR]; exact_mod_cast Rat.floor_le (q * (scaleN : ℚ))
  have f2 : (q : ℝ) * SR < (((q * (scaleN : ℚ)).floor : ℤ) : ℝ) + 1 := by
    rw [← hSR]; exact_mod_cast Rat.lt_floor_add_one (q * (scaleN : ℚ))
  have c1 : (q : ℝ) * SR ≤ (((q * (scaleN : ℚ)).ceil : ℤ) : ℝ) := by
    rw [← hSR]; exact_mod_cast Rat.le_ceil (x := q * (scaleN : ℚ))
  have c2 : (((q * (scaleN : ℚ)).ceil : ℤ) : ℝ) < (q : ℝ) * SR + 1 := by
    rw [← hSR]; exact_mod_cast Rat.ceil_lt (x := q * (scaleN : ℚ))
  have hSp := SR_pos
  unfold FI.ofRat FI.Bd
  simp only
  constructor <;> rw [abs_le] <;> constructor <;> nlinarith

/-- `atanh2 z` is not below `-0.58` when `|z| ≤ 1/5` (a crude but width-free bound). -/
lemma atanh2_lo_ge (z : ℚ) (hz : |z| ≤ 1 / 5) : -(58 / 100 : ℚ) ≤ (atanh2 z).lo := by
  have h := atanh2F_lo_ge (ofRat_Bd z hz)
  have hS := SR_pos
  unfold atanh2 FI.toI
  simp only
  have : (-(58 / 100 : ℝ)) ≤ (((atanh2F (FI.ofRat z)).lo : ℤ) : ℝ) / SR := by
    rw [le_div_iff₀ hS]; linarith
  apply (Rat.cast_le (K := ℝ)).mp
  unfold SR at this
  push_cast at this ⊢
  exact this

lemma ln2_lo_ge : (69 / 100 : ℚ) ≤ ln2.lo ∧ ln2.lo ≤ ln2.hi := by decide +kernel

lemma inv_scaleN_le : 1 / (scaleN : ℚ) ≤ 1 / 100 := by
  have : (100 : ℚ) ≤ (scaleN : ℚ) := by
    have : (100 : ℕ) ≤ scaleN := by unfold scaleN prec; norm_num
    exact_mod_cast this
  exact one_div_le_one_div_of_le (by norm_num) this

lemma scale_ln2_lo_ge (e : ℤ) (he : 1 ≤ e) : (68 / 100 : ℚ) ≤ (scale (e : ℚ) ln2).lo := by
  obtain ⟨h1, h2⟩ := ln2_lo_ge
  have heQ : (1 : ℚ) ≤ (e : ℚ) := by exact_mod_cast he
  have p1 : (69 / 100 : ℚ) ≤ (e : ℚ) * ln2.lo := by nlinarith
  have p2 : (69 / 100 : ℚ) ≤ (e : ℚ) * ln2.hi := by nlinarith
  unfold scale mul mk' ofRat
  simp only [ratMin_eq]
  have hmin : (69 / 100 : ℚ) ≤ min (min ((e : ℚ) * ln2.lo) ((e : ℚ) * ln2.hi))
      (min ((e : ℚ) * ln2.lo) ((e : ℚ) * ln2.hi)) := le_min (le_min p1 p2) (le_min p1 p2)
  have := lt_rdn_add (min (min ((e : ℚ) * ln2.lo) ((e : ℚ) * ln2.hi))
      (min ((e : ℚ) * ln2.lo) ((e : ℚ) * ln2.hi)))
  have := inv_scaleN_le
  linarith

lemma logCore_lo_pos (m : ℚ) (e : ℤ) (h1 : 2 / 3 ≤ m) (h2 : m ≤ 3 / 2) (he : 1 ≤ e) :
    0 < (logCore m e).lo := by
  have hm1 : 0 < m + 1 := by linarith
  have hz : |(m - 1) / (m + 1)| ≤ 1 / 5 := by
    rw [abs_le]; constructor
    · rw [le_div_iff₀ hm1]; linarith
    · rw [div_le_iff₀ hm1]; linarith
  have ha := atanh2_lo_ge _ hz
  have hs := scale_ln2_lo_ge e he
  unfold logCore add mk'
  simp only
  have := lt_rdn_add ((atanh2 ((m - 1) / (m + 1))).lo + (scale (e : ℚ) ln2).lo)
  have := inv_scaleN_le
  linarith

/-- The enclosure of `log q` computed by `logQ` is strictly positive for every rational `q ≥ 2`. -/
theorem logQ_lo_pos (q : ℚ) (hq : 2 ≤ q) : 0 < (logQ q).lo := by
  have hq0 : 0 < q := by linarith
  obtain ⟨h1, h2⟩ := ilog2_spec q hq0
  rw [logQ_eq q hq0]
  rw [pow2_eq] at h1 h2
  simp only [pow2_eq]
  generalize ilog2 q = e0 at h1 h2 ⊢
  have he0 : 1 ≤ e0 := by
    by_contra hc
    have : e0 + 1 ≤ 1 := by omega
    have h3 : (2 : ℚ) ^ (e0 + 1) ≤ 2 ^ (1 : ℤ) := zpow_le_zpow_right₀ (by norm_num) this
    norm_num at h3
    linarith
  have hp : (0 : ℚ) < 2 ^ e0 := by positivity
  rw [zpow_add_one₀ two_ne_zero] at h2
  have hm1 : 1 ≤ q / 2 ^ e0 := by rw [le_div_iff₀ hp]; linarith
  have hm2 : q / 2 ^ e0 < 2 := by rw [div_lt_iff₀ hp]; linarith
  split_ifs with h
  · exact logCore_lo_pos _ _ (by linarith) (by linarith) (by omega)
  · exact logCore_lo_pos _ _ (by linarith) (by linarith [not_lt.mp h]) he0

example : 0 < (logQ 10).lo := logQ_lo_pos 10 (by norm_num)

end MV.I

namespace MV.Hist

open MV

/-- Goal 5b. For rational `m`, `x > 0` and a base `b` the driver's enclosure
`pos x = (m · logQ x) / logQ b` contains `m·log_b x`, provided the enclosure of `log b` is strictly
positive (the side condition of interval division; see `logQ_nat_lo_pos` for its discharge). -/
theorem pos_sound_of_pos (b : ℕ) (m x : ℚ) (hx : 0 < x) (hb : 0 < (b : ℚ))
    (hlb : 0 < (I.logQ (b : ℚ)).lo) :
    I.Mem ((m : ℝ) * Real.logb b (x : ℝ)) (I.div (I.scale m (I.logQ x)) (I.logQ (b : ℚ))) := by
  have h1 := I.scale_sound m (I.logQ_sound x hx)
  have h2 := I.logQ_sound (b : ℚ) hb
  have h3 := I.div_sound h1 h2 (Or.inl hlb)
  have e : (m : ℝ) * Real.logb b (x : ℝ) = (m : ℝ) * Real.log (x : ℝ) / Real.log (((b : ℚ)) : ℝ) := by
    rw [Real.logb, Rat.cast_natCast, mul_div_assoc]
  rw [e]
  exact h3


/-- The driver's enclosure of `m·log_b x` (the local `pos` of `handleLog`). -/
def posI (b : ℕ) (m x : ℚ) : I := I.div (I.scale m (I.logQ x)) (I.logQ (b : ℚ))

/-- The driver's float tolerance around an enclosure `p` (the local `d` of `candsOf`). -/
def judgeTol (p : I) : ℚ := 16 * pow2 (-52) * (ratMax (ratAbs p.lo) (ratAbs p.hi) + 1)

lemma judgeTol_nonneg (p : I) : 0 ≤ judgeTol p := by
  unfold judgeTol
  rw [I.pow2_eq, I.ratMax_eq, I.ratAbs_eq, I.ratAbs_eq]
  have : (0 : ℚ) ≤ max |p.lo| |p.hi| := le_max_of_le_left (abs_nonneg _)
  positivity

/-- Goal 5b. For rational `m`, rational `x > 0` and a natural base `b ≥ 2`, the driver's enclosure
`pos x = (m · logQ x) / logQ b` contains the real number `m·log_b x`.  (No side condition is left:
positivity of `logQ b` is `I.logQ_lo_pos`.  `0 < m` is not needed.) -/
theorem pos_sound (b : ℕ) (hb : 2 ≤ b) (m x : ℚ) (hx : 0 < x) :
    I.Mem ((m : ℝ) * Real.logb b (x : ℝ)) (I.div (I.scale m (I.logQ x)) (I.logQ (b : ℚ))) := by
  have hbQ : (2 : ℚ) ≤ (b : ℚ) := by exact_mod_cast hb
  exact pos_sound_of_pos b m x hx (by linarith) (I.logQ_lo_pos _ hbQ)

/-- Goal 5, combined. The true bin index of a rational sample `x > 0` lies between the two candidate
bins the driver computes from its own enclosure and tolerance, and it is one of the two listed
candidates whenever the widened enclosure is shorter than one bin. -/
theorem judge_sound (b : ℕ) (hb : 2 ≤ b) (m x : ℚ) (hx : 0 < x) :
    ((posI b m x).lo - judgeTol (posI b m x)).floor ≤ logBinR b m x ∧
    logBinR b m x ≤ ((posI b m x).hi + judgeTol (posI b m x)).floor ∧
    (((posI b m x).hi + judgeTol (posI b m x)) - ((posI b m x).lo - judgeTol (posI b m x)) < 1 →
      logBinR b m x ∈ candsList (posI b m x) (judgeTol (posI b m x))) := by
  have hp := pos_sound b hb m x hx
  have hd := judgeTol_nonneg (posI b m x)
  obtain ⟨h1, h2⟩ := cands_sound b m x (posI b m x) _ hd hp
  exact ⟨h1, h2, fun hw => cands_list_sound b m x (posI b m x) _ hd hp hw⟩

/-- The driver's enclosure of `BinToValue(v) = b^(v/m)`, `exp ((v/m) · logQ b)`, contains the real
value, for every natural base `b ≥ 1` and rationals `m`, `v`. -/
theorem b2v_sound (b : ℕ) (hb : 0 < b) (m v : ℚ) :
    I.Mem (logBinToValueR b m v) (I.exp (I.mul (I.ofRat (v / m)) (I.logQ (b : ℚ)))) := by
  have hbQ : (0 : ℚ) < (b : ℚ) := by exact_mod_cast hb
  have hbR : (0 : ℝ) < (b : ℝ) := by exact_mod_cast hb
  have h := I.exp_sound _ _ (I.mul_sound (I.ofRat_sound (v / m)) (I.logQ_sound _ hbQ))
  have e : logBinToValueR b m v
      = Real.exp (((v / m : ℚ) : ℝ) * Real.log (((b : ℚ)) : ℝ)) := by
    unfold logBinToValueR
    rw [Real.rpow_def_of_pos hbR, Rat.cast_natCast, mul_comm]
    push_cast
    rfl
  rw [e]
  exact h

/-! ## Non-vacuity -/

lemma binToValue_pow (b k i : ℕ) (hk : 0 < k) :
    (logBinToValueR b (k : ℝ) (i : ℝ)) ^ k = (b : ℝ) ^ i := by
  have hkR : (k : ℝ) ≠ 0 := by exact_mod_cast hk.ne'
  unfold logBinToValueR
  rw [← Real.rpow_natCast, ← Real.rpow_mul (Nat.cast_nonneg b), div_mul_cancel₀ _ hkR,
    Real.rpow_natCast]

lemma binToValue_le_of_pow (b k i : ℕ) (hk : 0 < k) (hb : 2 ≤ b) {x : ℝ} (hx : 0 ≤ x)
    (h : (b : ℝ) ^ i ≤ x ^ k) : logBinToValueR b (k : ℝ) (i : ℝ) ≤ x := by
  rw [← binToValue_pow b k i hk] at h
  exact (pow_le_pow_iff_left₀ (logBinToValue_pos hb _ _).le hx hk.ne').1 h

lemma lt_binToValue_of_pow (b k i : ℕ) (hk : 0 < k) (hb : 2 ≤ b) {x : ℝ} (hx : 0 ≤ x)
    (h : x ^ k < (b : ℝ) ^ i) : x < logBinToValueR b (k : ℝ) (i : ℝ) := by
  rw [← binToValue_pow b k i hk] at h
  exact (pow_lt_pow_iff_left₀ hx (logBinToValue_pos hb _ _).le hk.ne').1 h

/-- base 10, 3 bins per decade: 250 lies in bin 7 = [10^(7/3), 10^(8/3)) ≈ [215.4, 464.2). -/
example : logBinR 10 3 250 = 7 := by
  rw [logBin_iff (by norm_num) (by norm_num) (by norm_num)]
  constructor
  · have := binToValue_le_of_pow 10 3 7 (by norm_num) (by norm_num) (x := 250) (by norm_num)
      (by norm_num)
    norm_num at this ⊢
    exact this
  · have := lt_binToValue_of_pow 10 3 8 (by norm_num) (by norm_num) (x := 250) (by norm_num)
      (by norm_num)
    norm_num at this ⊢
    exact this

example : logBinToValueR 10 3 (7 : ℤ) ≤ 250 ∧ (250 : ℝ) < logBinToValueR 10 3 ((7 : ℤ) + 1) :=
  (logBin_iff (b := 10) (m := 3) (x := 250) (by norm_num) (by norm_num) (by norm_num) 7).1
    (by
      rw [logBin_iff (by norm_num) (by norm_num) (by norm_num)]
      constructor
      · have := binToValue_le_of_pow 10 3 7 (by norm_num) (by norm_num) (x := 250) (by norm_num)
          (by norm_num)
        norm_num at this ⊢
        exact this
      · have := lt_binToValue_of_pow 10 3 8 (by norm_num) (by norm_num) (x := 250) (by norm_num)
          (by norm_num)
        norm_num at this ⊢
        exact this)

example : logBinToValueR 10 3 (3 / 2) < logBinToValueR 10 3 (7 / 4) :=
  (logBinToValue_strictMono (b := 10) (m := 3) (by norm_num) (by norm_num)).1 (by norm_num)

example : logBinToValueR 10 3 (3 * (2 : ℕ)) = 10 ^ 2 :=
  (logBinToValue_strictMono (b := 10) (m := 3) (by norm_num) (by norm_num)).2.2 2

example : (3 : ℝ) * Real.logb (10 : ℕ) (logBinToValueR 10 3 (22 / 3)) = 22 / 3 :=
  logBinToValue_logBin_inverse (b := 10) (m := 3) (by norm_num) (by norm_num) _

example : logBinR 10 3 2 ≤ logBinR 10 3 250 :=
  logBin_mono (by norm_num) (by norm_num) (by norm_num) (by norm_num)

example : logBinR 10 3 (1 / 2) < 0 :=
  (logBin_under_iff (by norm_num) (by norm_num) (by norm_num)).2 (by norm_num)

/-- with 6 bins (max = 100 = 10^(6/3)) the sample 250 is an overflow -/
example : ((6 : ℕ) : ℤ) ≤ logBinR 10 3 250 := by
  rw [logBin_over_iff (by norm_num) (by norm_num) (by norm_num)]
  have := binToValue_le_of_pow 10 3 6 (by norm_num) (by norm_num) (x := 250) (by norm_num)
    (by norm_num)
  norm_num at this ⊢
  exact this

example : slotOf 6 (logBinR 10 3 (1 / 2)) = .under :=
  ((logSlot_iff (by norm_num) (by norm_num) (by norm_num) 6).1).2 (by norm_num)

example : (logRunR 10 3 6 [1 / 2, 2, 250, 1000, 7]).total = 5 := logRun_total _ _ _ _
example : (logRunR 10 3 6 [1 / 2, 2, 250, 1000, 7]).bins.length = 6 := logRun_bins_length _ _ _ _

example : ((classRun (fun x : ℤ => x) 3 [-1, 0, 2, 5, 1] (Counts.mk 2 [1, 0, 3] 4)).total) = 10 + 5 :=
  (classRun_total _ 3 _ _ rfl).1

/-- the interval `[7, 8]` contains `3·log₁₀ 250`; with tolerance `1/4` the candidates are 6 and 8 -/
example : ((7 : ℚ) - 1 / 4).floor ≤ logBinR 10 3 250 ∧ logBinR 10 3 250 ≤ ((8 : ℚ) + 1 / 4).floor := by
  have hfl : logBinR 10 3 250 = 7 := by
    rw [logBin_iff (by norm_num) (by norm_num) (by norm_num)]
    constructor
    · have := binToValue_le_of_pow 10 3 7 (by norm_num) (by norm_num) (x := 250) (by norm_num)
        (by norm_num)
      norm_num at this ⊢
      exact this
    · have := lt_binToValue_of_pow 10 3 8 (by norm_num) (by norm_num) (x := 250) (by norm_num)
        (by norm_num)
      norm_num at this ⊢
      exact this
  have hmem : I.Mem ((3 : ℝ) * Real.logb (10 : ℕ) 250) ⟨7, 8⟩ := by
    have h := Int.floor_eq_iff.1 hfl
    constructor
    · show ((7 : ℚ) : ℝ) ≤ _
      push_cast at h ⊢; exact h.1
    · show _ ≤ ((8 : ℚ) : ℝ)
      push_cast at h ⊢; linarith [h.2]
  exact cands_sound 10 3 250 ⟨7, 8⟩ (1 / 4) (by norm_num) hmem

example : I.Mem (((3 : ℚ) : ℝ) * Real.logb (10 : ℕ) ((250 : ℚ) : ℝ))
    (I.div (I.scale 3 (I.logQ 250)) (I.logQ ((10 : ℕ) : ℚ))) :=
  pos_sound 10 (by norm_num) 3 250 (by norm_num)

/-- the driver's own computation for b = 10, m = 3, x = 250 yields the single candidate 7 -/
lemma cands_250 : candsList (posI 10 3 250) (judgeTol (posI 10 3 250)) = [7] := by
  decide +kernel

lemma width_250 : ((posI 10 3 250).hi + judgeTol (posI 10 3 250)) -
    ((posI 10 3 250).lo - judgeTol (posI 10 3 250)) < 1 := by
  decide +kernel

/-- End to end: the judge's machinery alone determines the real-specification bin of 250. -/
example : logBinR 10 ((3 : ℚ) : ℝ) ((250 : ℚ) : ℝ) = 7 := by
  have h := (judge_sound 10 (by norm_num) 3 250 (by norm_num)).2.2 width_250
  rw [cands_250] at h
  simpa using h

example : I.Mem (logBinToValueR 10 ((3 : ℚ) : ℝ) ((7 : ℚ) : ℝ))
    (I.exp (I.mul (I.ofRat (7 / 3)) (I.logQ ((10 : ℕ) : ℚ)))) :=
  b2v_sound 10 (by norm_num) 3 7

example : (((13 : ℚ) / 2 - 1 / 4).ceil : ℤ) ≤ ⌈(3 : ℝ) * Real.logb (10 : ℕ) 250⌉ := by
  have hmem : I.Mem ((3 : ℝ) * Real.logb (10 : ℕ) 250) ⟨13 / 2, 8⟩ := by
    have hfl : logBinR 10 3 250 = 7 := by
      rw [logBin_iff (by norm_num) (by norm_num) (by norm_num)]
      constructor
      · have := binToValue_le_of_pow 10 3 7 (by norm_num) (by norm_num) (x := 250) (by norm_num)
          (by norm_num)
        norm_num at this ⊢
        exact this
      · have := lt_binToValue_of_pow 10 3 8 (by norm_num) (by norm_num) (x := 250) (by norm_num)
          (by norm_num)
        norm_num at this ⊢
        exact this
    have h := Int.floor_eq_iff.1 hfl
    constructor
    · show ((13 / 2 : ℚ) : ℝ) ≤ _
      push_cast at h ⊢; linarith [h.1]
    · show _ ≤ ((8 : ℚ) : ℝ)
      push_cast at h ⊢; linarith [h.2]
  exact (nbins_sound 10 3 250 ⟨13 / 2, 8⟩ (1 / 4) (by norm_num) hmem).1

example : (7 : ℤ) ≤ logBinR 10 3 250 := by
  rw [le_logBin_iff (by norm_num) (by norm_num) (by norm_num)]
  have := binToValue_le_of_pow 10 3 7 (by norm_num) (by norm_num) (x := 250) (by norm_num)
    (by norm_num)
  norm_num at this ⊢
  exact this

example : logBinR 10 3 250 < (8 : ℤ) := by
  rw [logBin_lt_iff (by norm_num) (by norm_num) (by norm_num)]
  have := lt_binToValue_of_pow 10 3 8 (by norm_num) (by norm_num) (x := 250) (by norm_num)
    (by norm_num)
  norm_num at this ⊢
  exact this

example : logBinToValueR 10 3 (3 * Real.logb (10 : ℕ) 250) = 250 :=
  logBinToValue_pos_inverse (b := 10) (m := 3) (by norm_num) (by norm_num) (by norm_num)

example : (logRunFromR 10 3 3 [1 / 2, 2, 250] (Counts.mk 2 [1, 0, 3] 4)).total = 10 + 3 :=
  (logRunFrom_total 10 3 3 _ (Counts.mk 2 [1, 0, 3] 4) rfl).1

example : I.Mem (((3 : ℚ) : ℝ) * Real.logb (2 : ℕ) ((5 : ℚ) : ℝ))
    (I.div (I.scale 3 (I.logQ 5)) (I.logQ ((2 : ℕ) : ℚ))) :=
  pos_sound_of_pos 2 3 5 (by norm_num) (by norm_num) (I.logQ_lo_pos _ (by norm_num))

/-- `cands_list_sound` on a hand-made enclosure: `[7, 15/2]` contains `3·log₁₀ 250 ≈ 7.19`
(`250² ≤ 10⁵`), tolerance `1/8`: the list is `[6, 7]` and the true bin 7 is in it. -/
example : logBinR 10 3 250 ∈ candsList ⟨7, 15 / 2⟩ (1 / 8) := by
  have hfl : logBinR 10 3 250 = 7 := by
    rw [logBin_iff (by norm_num) (by norm_num) (by norm_num)]
    constructor
    · have := binToValue_le_of_pow 10 3 7 (by norm_num) (by norm_num) (x := 250) (by norm_num)
        (by norm_num)
      norm_num at this ⊢
      exact this
    · have := lt_binToValue_of_pow 10 3 8 (by norm_num) (by norm_num) (x := 250) (by norm_num)
        (by norm_num)
      norm_num at this ⊢
      exact this
  have hlo := (Int.floor_eq_iff.1 hfl).1
  have hhi : (3 : ℝ) * Real.logb (10 : ℕ) 250 ≤ 15 / 2 := by
    have h10 : (1 : ℝ) < ((10 : ℕ) : ℝ) := by norm_num
    have : Real.logb (10 : ℕ) 250 ≤ 5 / 2 := by
      rw [Real.logb_le_iff_le_rpow h10 (by norm_num)]
      have h := binToValue_pow 10 2 5 (by norm_num)
      have hp := logBinToValue_pos (b := 10) (by norm_num) ((2 : ℕ) : ℝ) ((5 : ℕ) : ℝ)
      unfold logBinToValueR at h hp
      norm_num at h hp ⊢
      nlinarith
    linarith
  have hmem : I.Mem ((3 : ℝ) * Real.logb (10 : ℕ) 250) ⟨7, 15 / 2⟩ := by
    constructor
    · show ((7 : ℚ) : ℝ) ≤ _
      push_cast at hlo ⊢; exact hlo
    · show _ ≤ ((15 / 2 : ℚ) : ℝ)
      push_cast; exact hhi
  exact cands_list_sound 10 3 250 ⟨7, 15 / 2⟩ (1 / 8) (by norm_num) hmem (by norm_num)

/-- The judge's candidate list (`candsRange`, used by the driver for every sample) contains the floor of
every real number between its rational end points — in particular the true bin `logBinR b m x` whenever
the widened enclosure `[p.lo − d, p.hi + d]` contains `m · log_b x`, whatever its width. -/
theorem candsRange_sound (lo hi : ℚ) (r : ℝ) (h1 : (lo : ℝ) ≤ r) (h2 : r ≤ (hi : ℝ)) :
    ⌊r⌋ ∈ candsRange lo hi := by
  have ha : lo.floor ≤ ⌊r⌋ := by
    have : ((lo.floor : ℤ) : ℝ) ≤ r := le_trans (by exact_mod_cast (Rat.floor_le lo)) h1
    exact Int.le_floor.mpr this
  have hc : ⌊r⌋ ≤ hi.floor := by
    have : ((⌊r⌋ : ℤ) : ℚ) ≤ hi := by
      have h3 : ((⌊r⌋ : ℤ) : ℝ) ≤ (hi : ℝ) := le_trans (Int.floor_le r) h2
      exact_mod_cast h3
    exact Rat.le_floor_iff.mpr this
  unfold candsRange
  simp only [List.mem_map, List.mem_range]
  refine ⟨(⌊r⌋ - lo.floor).toNat, by omega, by omega⟩

example : (7 : ℤ) ∈ candsRange (20/3) (22/3) := by
  have := candsRange_sound (20/3) (22/3) 7 (by norm_num) (by norm_num)
  simpa using this

end MV.Hist
