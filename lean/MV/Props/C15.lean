import Mathlib.Tactic
import Mathlib.Data.List.GetD
import MV.Model.Fit
/-!
# C15 — exact-rational least squares (`MV/Model/Fit.lean`)

* L1: the normal equations characterise the weighted least-squares minimiser
  (`sse_decomp`, `quad_nonneg`, `normal_eq_minimises`, `normal_eq_iff_orthogonal`);
* L2: `polyEval` is the polynomial `Σ cᵢ xⁱ`, `rpow` is `^`;
* L3: polynomial data are reproduced (`poly_data_normal_eq`) and, with enough distinct
  positively weighted abscissae, uniquely so (`poly_data_unique`);
* L4: Gauss–Jordan `solve` is sound (`solve_sound`), hence `solve_normal_minimises`;
* L5: tricube weights; L6: the LOESS window holds the `q` nearest neighbours.

All list entries are read with `List.getD · 0`, so rows of `XT` shorter than `n` are zero-padded
and longer ones are truncated exactly as the model's `zip`-based `dot` does; this is why the L1
results only need `w.length = y.length` and no hypothesis on the row lengths of `XT`.
-/
namespace MV.Fit
open Finset

/-! ## Bridging lists to finite sums -/

lemma foldl_dot_aux (l : List (ℚ × ℚ)) (s : ℚ) :
    l.foldl (fun s (p : ℚ × ℚ) => s + p.1 * p.2) s = s + l.foldl (fun s (p : ℚ × ℚ) => s + p.1 * p.2) 0 := by
  induction l generalizing s with
  | nil => simp
  | cons a l ih => simp only [List.foldl_cons]; rw [ih, ih (0 + _)]; ring

lemma dot_nil_left (b : Vec) : dot [] b = 0 := by simp [dot]
lemma dot_nil_right (a : Vec) : dot a [] = 0 := by simp [dot]
lemma dot_cons (x y : ℚ) (a b : Vec) : dot (x :: a) (y :: b) = x * y + dot a b := by
  unfold dot
  simp only [List.zip_cons_cons, List.foldl_cons]
  rw [foldl_dot_aux]; ring

/-- `dot` as a finite sum (out-of-range entries read as 0). -/
lemma dot_eq_sum (a b : Vec) (N : ℕ) (h : min a.length b.length ≤ N) :
    dot a b = ∑ k ∈ range N, a.getD k 0 * b.getD k 0 := by
  induction a generalizing b N with
  | nil => simp [dot_nil_left]
  | cons x a ih =>
    cases b with
    | nil => simp [dot_nil_right]
    | cons y b =>
      cases N with
      | zero => simp at h
      | succ N =>
        rw [dot_cons, Finset.sum_range_succ', ih b N (by simpa using h)]
        simp [add_comm]

lemma foldl_add_eq_sum (l : List ℚ) : l.foldl (· + ·) 0 = l.sum := by
  rw [List.sum_eq_foldl]

lemma sum_map_range (f : ℕ → ℚ) (n : ℕ) : ((List.range n).map f).sum = ∑ k ∈ range n, f k := by
  induction n with
  | zero => simp
  | succ n ih => rw [List.sum_range_succ, Finset.sum_range_succ, ih]


/-! ## Abstract (function-level) least-squares algebra -/

section Abstract
variable (m n : ℕ) (X : ℕ → ℕ → ℚ) (W y : ℕ → ℚ)

/-- entry `(i,j)` of the abstract normal matrix -/
def nm (i j : ℕ) : ℚ := ∑ k ∈ range n, X i k * W k * X j k
/-- abstract fitted value at data point `k` -/
def fitF (b : ℕ → ℚ) (k : ℕ) : ℚ := ∑ i ∈ range m, X i k * b i

lemma orth_iff_abs (b : ℕ → ℚ) (i : ℕ) :
    (∑ k ∈ range n, X i k * W k * (y k - fitF m X b k)) = 0 ↔
      ∑ j ∈ range m, nm n X W i j * b j = ∑ k ∈ range n, X i k * W k * y k := by
  have : (∑ k ∈ range n, X i k * W k * (y k - fitF m X b k)) =
      (∑ k ∈ range n, X i k * W k * y k) - ∑ j ∈ range m, nm n X W i j * b j := by
    simp only [mul_sub, Finset.sum_sub_distrib, nm, fitF, Finset.mul_sum, Finset.sum_mul]
    congr 1
    rw [Finset.sum_comm]
    refine Finset.sum_congr rfl fun j _ => Finset.sum_congr rfl fun k _ => ?_
    ring
  rw [this, sub_eq_zero, eq_comm]

lemma quad_abs (d : ℕ → ℚ) :
    ∑ i ∈ range m, d i * ∑ j ∈ range m, nm n X W i j * d j =
      ∑ k ∈ range n, W k * (fitF m X d k) ^ 2 := by
  simp only [nm, fitF, pow_two, Finset.mul_sum, Finset.sum_mul]
  symm
  rw [Finset.sum_comm]
  refine Finset.sum_congr rfl fun a _ => ?_
  rw [Finset.sum_comm]
  refine Finset.sum_congr rfl fun b _ => Finset.sum_congr rfl fun k _ => ?_
  ring

lemma fitF_sub (b b' : ℕ → ℚ) (k : ℕ) :
    fitF m X b' k = fitF m X b k + fitF m X (fun i => b' i - b i) k := by
  simp only [fitF, ← Finset.sum_add_distrib]
  exact Finset.sum_congr rfl fun i _ => by ring

lemma cross_abs (b d : ℕ → ℚ)
    (hne : ∀ i < m, ∑ j ∈ range m, nm n X W i j * b j = ∑ k ∈ range n, X i k * W k * y k) :
    ∑ k ∈ range n, W k * (y k - fitF m X b k) * fitF m X d k = 0 := by
  have h1 : ∑ k ∈ range n, W k * (y k - fitF m X b k) * fitF m X d k =
      ∑ i ∈ range m, d i * ∑ k ∈ range n, X i k * W k * (y k - fitF m X b k) := by
    have hd : ∀ k, fitF m X d k = ∑ i ∈ range m, X i k * d i := fun _ => rfl
    simp only [hd, Finset.mul_sum]
    rw [Finset.sum_comm]
    refine Finset.sum_congr rfl fun i _ => Finset.sum_congr rfl fun k _ => ?_
    ring
  rw [h1]
  refine Finset.sum_eq_zero fun i hi => ?_
  rw [(orth_iff_abs m n X W y b i).2 (hne i (Finset.mem_range.1 hi)), mul_zero]

lemma decomp_abs (b b' : ℕ → ℚ)
    (hne : ∀ i < m, ∑ j ∈ range m, nm n X W i j * b j = ∑ k ∈ range n, X i k * W k * y k) :
    (∑ k ∈ range n, W k * (y k - fitF m X b' k) ^ 2) - ∑ k ∈ range n, W k * (y k - fitF m X b k) ^ 2 =
      ∑ i ∈ range m, (b' i - b i) * ∑ j ∈ range m, nm n X W i j * (b' j - b j) := by
  rw [quad_abs m n X W (fun i => b' i - b i)]
  have hc := cross_abs m n X W y b (fun i => b' i - b i) hne
  rw [← Finset.sum_sub_distrib]
  have : ∀ k ∈ range n, W k * (y k - fitF m X b' k) ^ 2 - W k * (y k - fitF m X b k) ^ 2 =
      W k * fitF m X (fun i => b' i - b i) k ^ 2
        - 2 * (W k * (y k - fitF m X b k) * fitF m X (fun i => b' i - b i) k) := by
    intro k _
    rw [fitF_sub m X b b' k]; ring
  rw [Finset.sum_congr rfl this, Finset.sum_sub_distrib, ← Finset.mul_sum, hc]
  ring

end Abstract

/-! ## Bridging the model definitions -/

/-- matrix entry, out-of-range read as 0 -/
def ent (XT : Mat) (i k : ℕ) : ℚ := (XT.getD i []).getD k 0

/-- fitted value at data point `k`: literally the inner expression of `sse` -/
def fitAt (XT : Mat) (β : Vec) (k : ℕ) : ℚ := dot (XT.map fun row => row.getD k 0) β

/-- componentwise difference `a - b` -/
def vsub (a b : Vec) : Vec := List.zipWith (· - ·) a b

lemma getD_map_zero {α : Type} (l : List α) (f : α → ℚ) (d : α) (hf : f d = 0) (i : ℕ) :
    (l.map f).getD i 0 = f (l.getD i d) := by
  simp only [List.getD_eq_getElem?_getD, List.getElem?_map]
  cases l[i]? <;> simp [hf]

lemma fitAt_eq (XT : Mat) (β : Vec) (k : ℕ) :
    fitAt XT β k = fitF XT.length (ent XT) (fun i => β.getD i 0) k := by
  unfold fitAt fitF
  rw [dot_eq_sum _ _ XT.length (by simp)]
  refine Finset.sum_congr rfl fun i _ => ?_
  rw [getD_map_zero XT _ [] (by simp)]; rfl

lemma sse_eq (XT : Mat) (w y β : Vec) :
    sse XT w y β = ∑ k ∈ range y.length, w.getD k 1 * (y.getD k 0 - fitAt XT β k) ^ 2 := by
  have : sse XT w y β = (((List.range y.length).map fun i =>
      w.getD i 1 * (y.getD i 0 - fitAt XT β i) * (y.getD i 0 - fitAt XT β i)).foldl (· + ·) 0) := rfl
  rw [this, foldl_add_eq_sum, sum_map_range]
  exact Finset.sum_congr rfl fun k _ => by ring

lemma getD_one_eq_zero (w : Vec) (k : ℕ) (h : k < w.length) : w.getD k 1 = w.getD k 0 := by
  simp [List.getD_eq_getElem?_getD, h]

/-- row scaled by weights -/
def wrow (r w : Vec) : Vec := (r.zip w).map fun (a, b) => a * b

lemma wrow_getD (r w : Vec) (k : ℕ) : (wrow r w).getD k 0 = r.getD k 0 * w.getD k 0 := by
  unfold wrow
  induction r generalizing w k with
  | nil => simp
  | cons a r ih =>
    cases w with
    | nil => simp
    | cons b w =>
      cases k with
      | zero => simp
      | succ k => simpa using ih w k

lemma wrow_length (r w : Vec) : (wrow r w).length = min r.length w.length := by simp [wrow]

lemma dot_wrow (r w c : Vec) (n : ℕ) (h : w.length ≤ n) :
    dot (wrow r w) c = ∑ k ∈ range n, r.getD k 0 * w.getD k 0 * c.getD k 0 := by
  rw [dot_eq_sum _ _ n (by rw [wrow_length]; omega)]
  exact Finset.sum_congr rfl fun k _ => by rw [wrow_getD]

lemma normalMatrix_length (XT : Mat) (w : Vec) : (normalMatrix XT w).length = XT.length := by
  simp [normalMatrix]

lemma matVec_normal_getD (XT : Mat) (w v : Vec) (n : ℕ) (hw : w.length ≤ n) (i : ℕ) (hi : i < XT.length) :
    (matVec (normalMatrix XT w) v).getD i 0 =
      ∑ j ∈ range XT.length, nm n (ent XT) (fun k => w.getD k 0) i j * v.getD j 0 := by
  have h1 : (matVec (normalMatrix XT w) v).getD i 0 =
      dot (XT.map fun rj => dot (wrow XT[i] w) rj) v := by
    simp [matVec, normalMatrix, List.getD_eq_getElem?_getD, hi, wrow]
  rw [h1, dot_eq_sum _ _ XT.length (by simp)]
  refine Finset.sum_congr rfl fun j _ => ?_
  rw [getD_map_zero XT _ [] (dot_nil_right _), dot_wrow _ _ _ n hw]
  unfold nm ent
  simp [List.getD_eq_getElem?_getD, hi]

lemma normalRhs_getD (XT : Mat) (w y : Vec) (n : ℕ) (hw : w.length ≤ n) (i : ℕ) (hi : i < XT.length) :
    (normalRhs XT w y).getD i 0 = ∑ k ∈ range n, ent XT i k * w.getD k 0 * y.getD k 0 := by
  have h1 : (normalRhs XT w y).getD i 0 = dot (wrow XT[i] w) y := by
    simp [normalRhs, List.getD_eq_getElem?_getD, hi, wrow]
  rw [h1, dot_wrow _ _ _ n hw]
  unfold ent
  simp [List.getD_eq_getElem?_getD, hi]

lemma list_eq_iff_getD (a b : Vec) (m : ℕ) (ha : a.length = m) (hb : b.length = m) :
    a = b ↔ ∀ i < m, a.getD i 0 = b.getD i 0 := by
  constructor
  · rintro rfl; simp
  · intro h
    refine List.ext_getElem (by omega) fun i h1 h2 => ?_
    have := h i (by omega)
    simpa [List.getD_eq_getElem?_getD, h1, h2] using this

lemma normal_eq_iff_abs (XT : Mat) (w y β : Vec) (hw : w.length = y.length) :
    matVec (normalMatrix XT w) β = normalRhs XT w y ↔
      ∀ i < XT.length, ∑ j ∈ range XT.length,
        nm y.length (ent XT) (fun k => w.getD k 0) i j * β.getD j 0 =
          ∑ k ∈ range y.length, ent XT i k * w.getD k 0 * y.getD k 0 := by
  rw [list_eq_iff_getD _ _ XT.length (by simp [matVec, normalMatrix]) (by simp [normalRhs])]
  refine forall_congr' fun i => forall_congr' fun hi => ?_
  rw [matVec_normal_getD XT w β y.length hw.le i hi, normalRhs_getD XT w y y.length hw.le i hi]


lemma vsub_getD (a b : Vec) (h : a.length = b.length) (i : ℕ) :
    (vsub a b).getD i 0 = a.getD i 0 - b.getD i 0 := by
  unfold vsub
  simp only [List.getD_eq_getElem?_getD, List.getElem?_zipWith]
  by_cases hi : i < a.length
  · have hi' : i < b.length := by omega
    simp [hi, hi']
  · have hi' : ¬ i < b.length := by omega
    simp [hi, hi']

lemma vsub_length (a b : Vec) : (vsub a b).length = min a.length b.length := by simp [vsub]

lemma quad_eq (XT : Mat) (w v : Vec) :
    dot v (matVec (normalMatrix XT w) v) =
      ∑ k ∈ range w.length, w.getD k 0 * (fitF XT.length (ent XT) (fun i => v.getD i 0) k) ^ 2 := by
  rw [← quad_abs, dot_eq_sum _ _ XT.length (by simp [matVec, normalMatrix])]
  refine Finset.sum_congr rfl fun i hi => ?_
  rw [matVec_normal_getD XT w v w.length le_rfl i (Finset.mem_range.1 hi)]

/-! ## L1: the normal equations characterise the least-squares minimiser -/

/-- **Quadratic form.** `v · (XᵀWX) v = Σ_k w_k (Σ_i v_i XT[i][k])²` (out-of-range entries read as 0;
the inner sum is the model's own fitted value `fitAt XT v k`). No shape hypotheses are needed. -/
theorem quad_eq_sum_sq (XT : Mat) (w v : Vec) :
    dot v (matVec (normalMatrix XT w) v) =
      ∑ k ∈ range w.length, w.getD k 0 * (fitAt XT v k) ^ 2 := by
  rw [quad_eq]; exact Finset.sum_congr rfl fun k _ => by rw [fitAt_eq]

/-- With non-negative weights the normal matrix `XᵀWX` is positive semi-definite:
`0 ≤ v · (XᵀWX) v` for every vector `v`. -/
theorem quad_nonneg (XT : Mat) (w v : Vec) (hw : ∀ x ∈ w, 0 ≤ x) :
    0 ≤ dot v (matVec (normalMatrix XT w) v) := by
  rw [quad_eq]
  refine Finset.sum_nonneg fun k hk => mul_nonneg ?_ (sq_nonneg _)
  have hk' : k < w.length := Finset.mem_range.1 hk
  have : w.getD k 0 = w[k] := by simp [List.getD_eq_getElem?_getD, hk']
  rw [this]
  exact hw _ (List.getElem_mem _)

/-- **Main decomposition.** If `β` solves the normal equations `(XᵀWX) β = XᵀW y`, then for every
other parameter vector `β'` the weighted sums of squared residuals differ by exactly the quadratic
form of the normal matrix at `β' − β`:
`sse β' − sse β = (β'−β) · (XᵀWX)(β'−β)`.
Shapes: `w` and `y` have the same length `n`, `β` and `β'` have one entry per basis row of `XT`.
(Rows of `XT` are read with default 0, so the row-length hypothesis is not needed.) -/
theorem sse_decomp (XT : Mat) (w y β β' : Vec) (hw : w.length = y.length)
    (hβ : β.length = XT.length) (hβ' : β'.length = XT.length)
    (hne : matVec (normalMatrix XT w) β = normalRhs XT w y) :
    sse XT w y β' - sse XT w y β =
      dot (vsub β' β) (matVec (normalMatrix XT w) (vsub β' β)) := by
  have habs := (normal_eq_iff_abs XT w y β hw).1 hne
  have key := decomp_abs XT.length y.length (ent XT) (fun k => w.getD k 0) (fun k => y.getD k 0)
    (fun i => β.getD i 0) (fun i => β'.getD i 0) habs
  have hs : ∀ b : Vec, sse XT w y b = ∑ k ∈ range y.length,
      w.getD k 0 * (y.getD k 0 - fitF XT.length (ent XT) (fun i => b.getD i 0) k) ^ 2 := by
    intro b
    rw [sse_eq]
    refine Finset.sum_congr rfl fun k hk => ?_
    rw [getD_one_eq_zero w k (by rw [hw]; exact Finset.mem_range.1 hk), fitAt_eq]
  rw [hs β', hs β, key, dot_eq_sum _ _ XT.length (by simp [matVec, normalMatrix])]
  refine Finset.sum_congr rfl fun i hi => ?_
  rw [matVec_normal_getD XT w _ y.length hw.le i (Finset.mem_range.1 hi),
    vsub_getD β' β (by omega)]
  congr 1
  exact Finset.sum_congr rfl fun j _ => by rw [vsub_getD β' β (by omega)]

/-- **Normal equations ⇒ least-squares minimiser.** With non-negative weights, a solution `β` of the
normal equations has weighted SSE no larger than that of any other parameter vector `β'`. -/
theorem normal_eq_minimises (XT : Mat) (w y β β' : Vec) (hw : w.length = y.length)
    (hβ : β.length = XT.length) (hβ' : β'.length = XT.length) (hpos : ∀ x ∈ w, 0 ≤ x)
    (hne : matVec (normalMatrix XT w) β = normalRhs XT w y) :
    sse XT w y β ≤ sse XT w y β' := by
  have h := sse_decomp XT w y β β' hw hβ hβ' hne
  have := quad_nonneg XT w (vsub β' β) hpos
  linarith

/-- **Orthogonality.** The normal equations hold iff the weighted residual is orthogonal to every
basis function: for every basis row `i`, `Σ_k XT[i][k] · w[k] · (y[k] − fit_k(β)) = 0`, where
`fit_k(β) = fitAt XT β k` is exactly the fitted value used inside `sse`. -/
theorem normal_eq_iff_orthogonal (XT : Mat) (w y β : Vec) (hw : w.length = y.length) :
    matVec (normalMatrix XT w) β = normalRhs XT w y ↔
      ∀ i < XT.length, ∑ k ∈ range y.length,
        (XT.getD i []).getD k 0 * w.getD k 0 * (y.getD k 0 - fitAt XT β k) = 0 := by
  rw [normal_eq_iff_abs XT w y β hw]
  refine forall_congr' fun i => forall_congr' fun _ => ?_
  rw [← orth_iff_abs]
  simp only [fitAt_eq]; rfl

/-- `fitAt` is definitionally the fitted value computed inside `sse`. -/
theorem sse_eq_sum (XT : Mat) (w y β : Vec) :
    sse XT w y β = ∑ k ∈ range y.length, w.getD k 1 * (y.getD k 0 - fitAt XT β k) ^ 2 :=
  sse_eq XT w y β

section Examples
def exXT : Mat := [[1, 1, 1], [0, 1, 2]]
def exW : Vec := [1, 2, 1]
def exY : Vec := [1, 2, 4]
def exβ : Vec := [3/4, 3/2]

/-- evaluate closed rational list expressions built from the model functions -/
macro "fit_eval" : tactic =>
  `(tactic| norm_num [exXT, exW, exY, exβ, matVec, normalMatrix, normalRhs, dot, sse, vsub, fitAt,
      List.range, List.range.loop, Finset.sum_range_succ])

example : matVec (normalMatrix exXT exW) exβ = normalRhs exXT exW exY := by fit_eval
example : sse exXT exW exY exβ ≤ sse exXT exW exY [1, 1] :=
  normal_eq_minimises exXT exW exY exβ [1, 1] rfl rfl rfl (by fit_eval) (by fit_eval)
example : sse exXT exW exY [1, 1] - sse exXT exW exY exβ =
    dot (vsub [1, 1] exβ) (matVec (normalMatrix exXT exW) (vsub [1, 1] exβ)) :=
  sse_decomp exXT exW exY exβ [1, 1] rfl rfl rfl (by fit_eval)
example : sse exXT exW exY [1, 1] = 1 ∧ sse exXT exW exY exβ = 1/4 := by fit_eval
example : 0 ≤ dot [1, -2] (matVec (normalMatrix exXT exW) [1, -2]) :=
  quad_nonneg exXT exW [1, -2] (by fit_eval)
example : ∀ i < exXT.length, ∑ k ∈ range exY.length,
    (exXT.getD i []).getD k 0 * exW.getD k 0 * (exY.getD k 0 - fitAt exXT exβ k) = 0 :=
  (normal_eq_iff_orthogonal exXT exW exY exβ rfl).1 (by fit_eval)
end Examples


/-! ## L2: `polyEval` and `rpow` -/

/-- `rpow x k` is the ordinary power `x ^ k`. -/
theorem rpow_eq_pow (x : ℚ) (k : ℕ) : rpow x k = x ^ k := by
  unfold rpow
  induction k with
  | zero => simp
  | succ k ih => rw [List.range_succ, List.foldl_append, ih]; simp [pow_succ]

example : rpow (2/3) 3 = 8/27 := by rw [rpow_eq_pow]; norm_num

lemma polyEval_foldl (cs : Vec) (x y xp : ℚ) :
    cs.foldl (fun (p : ℚ × ℚ) c => (p.1 + p.2 * c, p.2 * x)) (y, xp) =
      (y + ∑ i ∈ range cs.length, cs.getD i 0 * (xp * x ^ i), xp * x ^ cs.length) := by
  induction cs generalizing y xp with
  | nil => simp
  | cons c cs ih =>
    rw [List.foldl_cons, ih, List.length_cons, Finset.sum_range_succ']
    refine Prod.ext ?_ ?_
    · simp only [List.getD_cons_succ, List.getD_cons_zero, pow_zero, mul_one, pow_succ]
      rw [add_assoc, add_comm (xp * c), mul_comm xp c]
      congr 2
      exact Finset.sum_congr rfl fun i _ => by ring
    · simp only [pow_succ]; ring

/-- `polyEval` (the Go loop `y = c0; xp = x; for c in coeffs[1:] { y += xp*c; xp *= x }`) computes
the polynomial `Σ_{i < len} coeffs[i] · x^i`. -/
theorem polyEval_eq (coeffs : Vec) (x : ℚ) :
    polyEval coeffs x = ∑ i ∈ range coeffs.length, coeffs.getD i 0 * x ^ i := by
  cases coeffs with
  | nil => simp [polyEval]
  | cons c0 cs =>
    have : polyEval (c0 :: cs) x =
        (cs.foldl (fun (p : ℚ × ℚ) c => (p.1 + p.2 * c, p.2 * x)) (c0, x)).1 := rfl
    rw [this, polyEval_foldl, List.length_cons, Finset.sum_range_succ']
    simp only [List.getD_cons_succ, List.getD_cons_zero, pow_zero, mul_one, pow_succ]
    rw [add_comm]
    congr 1
    exact Finset.sum_congr rfl fun i _ => by ring

/-- The same with the model's own power function `rpow`. -/
theorem polyEval_eq_rpow (coeffs : Vec) (x : ℚ) :
    polyEval coeffs x = ∑ i ∈ range coeffs.length, coeffs.getD i 0 * rpow x i := by
  rw [polyEval_eq]; exact Finset.sum_congr rfl fun i _ => by rw [rpow_eq_pow]

example : polyEval [1, -2, 3] (1/2) = 1 * (1/2)^0 + (-2) * (1/2)^1 + 3 * (1/2)^2 := by
  rw [polyEval_eq]; simp [Finset.sum_range_succ]

/-! ## L5: tricube weights -/

/-- At the window radius the tricube weight vanishes. -/
theorem tricube_zero_at_radius (d : ℚ) (hd : d ≠ 0) : tricube d d = 0 := by
  simp [tricube, div_self hd]

/-- At distance 0 the tricube weight is 1. -/
theorem tricube_zero (d : ℚ) : tricube 0 d = 1 := by
  simp [tricube]

/-- Inside the window (`0 ≤ a ≤ d`, `0 < d`) the tricube weight lies in `[0, 1]`. -/
theorem tricube_range (a d : ℚ) (ha : 0 ≤ a) (had : a ≤ d) (hd : 0 < d) :
    0 ≤ tricube a d ∧ tricube a d ≤ 1 := by
  have hu0 : 0 ≤ a / d := div_nonneg ha hd.le
  have hu1 : a / d ≤ 1 := (div_le_one hd).2 had
  have hc0 : 0 ≤ a / d * (a / d) * (a / d) := by positivity
  have hc1 : a / d * (a / d) * (a / d) ≤ 1 := by
    have := pow_le_one₀ hu0 hu1 (n := 3)
    calc a / d * (a / d) * (a / d) = (a / d) ^ 3 := by ring
      _ ≤ 1 := this
  have ht0 : 0 ≤ 1 - a / d * (a / d) * (a / d) := by linarith
  have ht1 : 1 - a / d * (a / d) * (a / d) ≤ 1 := by linarith
  show 0 ≤ (1 - a / d * (a / d) * (a / d)) * (1 - a / d * (a / d) * (a / d)) * (1 - a / d * (a / d) * (a / d)) ∧
    (1 - a / d * (a / d) * (a / d)) * (1 - a / d * (a / d) * (a / d)) * (1 - a / d * (a / d) * (a / d)) ≤ 1
  constructor
  · positivity
  · have := pow_le_one₀ ht0 ht1 (n := 3)
    calc _ = (1 - a / d * (a / d) * (a / d)) ^ 3 := by ring
      _ ≤ 1 := this

/-- The tricube weight is antitone in the distance on `[0, d]`. -/
theorem tricube_antitone (a b d : ℚ) (ha : 0 ≤ a) (hab : a ≤ b) (hbd : b ≤ d) (hd : 0 < d) :
    tricube b d ≤ tricube a d := by
  have hua : 0 ≤ a / d := div_nonneg ha hd.le
  have hub : b / d ≤ 1 := (div_le_one hd).2 hbd
  have hab' : a / d ≤ b / d := div_le_div_of_nonneg_right hab hd.le
  have h3 : (a / d) ^ 3 ≤ (b / d) ^ 3 := pow_le_pow_left₀ hua hab' 3
  have hb1 : (b / d) ^ 3 ≤ 1 := pow_le_one₀ (hua.trans hab') hub
  have := pow_le_pow_left₀ (a := 1 - (b / d) ^ 3) (b := 1 - (a / d) ^ 3) (by linarith) (by linarith) 3
  calc tricube b d = (1 - (b / d) ^ 3) ^ 3 := by unfold tricube; ring
    _ ≤ (1 - (a / d) ^ 3) ^ 3 := this
    _ = tricube a d := by unfold tricube; ring

example : tricube 1 2 = 343 / 512 ∧ tricube 2 2 = 0 ∧ tricube 0 2 = 1 := by
  norm_num [tricube]
example : 0 ≤ tricube 1 2 ∧ tricube 1 2 ≤ 1 := tricube_range 1 2 (by norm_num) (by norm_num) (by norm_num)


/-! ## L6: the LOESS window -/

lemma windowStart_spec (xs : Vec) (q : ℕ) (x : ℚ) :
    windowStart xs q x ≤ xs.length - q ∧
    (∀ j < windowStart xs q x, xs.getD j 0 + xs.getD (j + q) 0 < 2 * x) ∧
    (windowStart xs q x < xs.length - q →
      2 * x ≤ xs.getD (windowStart xs q x) 0 + xs.getD (windowStart xs q x + q) 0) := by
  unfold windowStart
  cases h : (List.range (xs.length - q)).find?
      (fun i => decide (xs.getD i 0 + xs.getD (i + q) 0 ≥ 2 * x)) with
  | none =>
    rw [List.find?_eq_none] at h
    simp only [Option.getD_none]
    refine ⟨le_rfl, fun j hj => ?_, fun h' => absurd h' (lt_irrefl _)⟩
    have := h j (List.mem_range.2 hj)
    simpa using this
  | some s =>
    rw [List.find?_range_eq_some] at h
    obtain ⟨h1, h2, h3⟩ := h
    simp only [Option.getD_some]
    refine ⟨(List.mem_range.1 h2).le, fun j hj => ?_, fun _ => by simpa using h1⟩
    have := h3 j hj
    simpa using this

/-- The window start leaves room for a full window of `q` points. -/
theorem windowStart_le (xs : Vec) (q : ℕ) (x : ℚ) : windowStart xs q x ≤ xs.length - q :=
  (windowStart_spec xs q x).1

lemma sorted_getD (xs : Vec) (hs : xs.Pairwise (· ≤ ·)) (a b : ℕ) (hab : a ≤ b) (hb : b < xs.length) :
    xs.getD a 0 ≤ xs.getD b 0 := by
  have ha : a < xs.length := by omega
  simp only [List.getD_eq_getElem?_getD, List.getElem?_eq_getElem ha, List.getElem?_eq_getElem hb,
    Option.getD_some]
  rcases hab.eq_or_lt with rfl | hlt
  · exact le_rfl
  · exact (List.pairwise_iff_getElem.1 hs) a b ha hb hlt

/-- **The LOESS window consists of the `q` nearest neighbours.** For ascending `xs` and `q ≤ n`, with
`s = windowStart xs q x`, every point `xs[i]` inside the window `[s, s+q)` is at least as close to `x`
as every point `xs[j]` (`j < n`) outside it. -/
theorem window_nearest (xs : Vec) (q : ℕ) (x : ℚ) (hs : xs.Pairwise (· ≤ ·)) (hq : q ≤ xs.length)
    (i j : ℕ) (hi : windowStart xs q x ≤ i) (hi' : i < windowStart xs q x + q)
    (hj : j < xs.length) (hout : j < windowStart xs q x ∨ windowStart xs q x + q ≤ j) :
    |xs.getD i 0 - x| ≤ |xs.getD j 0 - x| := by
  obtain ⟨hle, hbefore, hat⟩ := windowStart_spec xs q x
  set s := windowStart xs q x with hsdef
  have hiN : i < xs.length := by omega
  rcases hout with hjs | hjs
  · -- j below the window
    have hp := hbefore (s - 1) (by omega)
    have e : s - 1 + q = s + q - 1 := by omega
    rw [e] at hp
    have h1 : xs.getD j 0 ≤ xs.getD (s - 1) 0 := sorted_getD xs hs _ _ (by omega) (by omega)
    have h2 : xs.getD (s - 1) 0 ≤ xs.getD i 0 := sorted_getD xs hs _ _ (by omega) hiN
    have h3 : xs.getD i 0 ≤ xs.getD (s + q - 1) 0 := sorted_getD xs hs _ _ (by omega) (by omega)
    rw [abs_le]
    constructor
    · have := neg_abs_le (xs.getD j 0 - x)
      have := neg_le_abs (xs.getD j 0 - x)
      linarith
    · have := neg_le_abs (xs.getD j 0 - x)
      linarith
  · -- j above the window
    have hp := hat (by omega)
    have h1 : xs.getD (s + q) 0 ≤ xs.getD j 0 := sorted_getD xs hs _ _ hjs hj
    have h2 : xs.getD i 0 ≤ xs.getD (s + q) 0 := sorted_getD xs hs _ _ (by omega) (by omega)
    have h3 : xs.getD s 0 ≤ xs.getD i 0 := sorted_getD xs hs _ _ hi hiN
    rw [abs_le]
    have := le_abs_self (xs.getD j 0 - x)
    constructor <;> linarith

/-- The window is a set of `q` valid indices. -/
theorem window_in_range (xs : Vec) (q : ℕ) (x : ℚ) (hq : q ≤ xs.length) :
    windowStart xs q x + q ≤ xs.length := by
  have := windowStart_le xs q x; omega

example : windowStart [0, 1, 2, 4, 7, 8] 3 (5/2) = 1 := by
  simp [windowStart, List.range, List.range.loop, List.find?]; norm_num
example : |([0, 1, 2, 4, 7, 8] : Vec).getD 3 0 - 5/2| ≤ |([0, 1, 2, 4, 7, 8] : Vec).getD 0 0 - 5/2| := by
  have e : windowStart [0, 1, 2, 4, 7, 8] 3 (5/2) = 1 := by
    simp [windowStart, List.range, List.range.loop, List.find?]; norm_num
  exact window_nearest [0, 1, 2, 4, 7, 8] 3 (5/2) (by norm_num) (by simp) 3 0
    (by rw [e]; norm_num) (by rw [e]; norm_num) (by simp) (Or.inl (by rw [e]; norm_num))


/-! ## L3: polynomial reproduction -/

lemma monomials_length (xs : Vec) (degree : ℕ) : (monomials xs degree).length = degree + 1 := by
  simp [monomials]

lemma ent_monomials (xs : Vec) (degree i k : ℕ) (hi : i < degree + 1) :
    ent (monomials xs degree) i k = if k < xs.length then (xs.getD k 0) ^ i else 0 := by
  unfold ent monomials
  have : ((List.range (degree + 1)).map fun d => xs.map fun x => rpow x d).getD i [] =
      xs.map fun x => rpow x i := by
    simp [List.getD_eq_getElem?_getD, hi]
  rw [this]
  by_cases hk : k < xs.length
  · simp [List.getD_eq_getElem?_getD, hk, rpow_eq_pow]
  · simp [List.getD_eq_getElem?_getD, hk]

lemma fitAt_monomials (xs β : Vec) (degree k : ℕ) (hk : k < xs.length) :
    fitAt (monomials xs degree) β k = ∑ i ∈ range (degree + 1), β.getD i 0 * (xs.getD k 0) ^ i := by
  rw [fitAt_eq, fitF, monomials_length]
  refine Finset.sum_congr rfl fun i hi => ?_
  rw [ent_monomials xs degree i k (Finset.mem_range.1 hi), if_pos hk, mul_comm]

lemma polyData_getD (xs c : Vec) (degree k : ℕ) (hk : k < xs.length) :
    (xs.map fun x => ∑ i ∈ range (degree + 1), c.getD i 0 * x ^ i).getD k 0 =
      ∑ i ∈ range (degree + 1), c.getD i 0 * (xs.getD k 0) ^ i := by
  simp [List.getD_eq_getElem?_getD, hk]

/-- **Polynomial reproduction.** If the data are exactly polynomial, `ys[k] = Σ_i c_i · xs[k]^i` with
`degree+1` coefficients, then the true coefficient vector `c` satisfies the normal equations of the
monomial design `monomials xs degree`, for any weights. -/
theorem poly_data_normal_eq (xs w c : Vec) (degree : ℕ) (hw : w.length = xs.length) :
    matVec (normalMatrix (monomials xs degree) w) c =
      normalRhs (monomials xs degree) w
        (xs.map fun x => ∑ i ∈ range (degree + 1), c.getD i 0 * x ^ i) := by
  rw [normal_eq_iff_orthogonal _ _ _ _ (by simpa using hw)]
  intro i _
  refine Finset.sum_eq_zero fun k hk => ?_
  have hk' : k < xs.length := by simpa using hk
  rw [polyData_getD xs c degree k hk', fitAt_monomials xs c degree k hk', sub_self, mul_zero]

/-- The same statement with the data generated by the model's own `polyEval`. -/
theorem poly_data_normal_eq_polyEval (xs w c : Vec) (degree : ℕ) (hc : c.length = degree + 1)
    (hw : w.length = xs.length) :
    matVec (normalMatrix (monomials xs degree) w) c =
      normalRhs (monomials xs degree) w (xs.map fun x => polyEval c x) := by
  have : (fun x => polyEval c x) = fun x => ∑ i ∈ range (degree + 1), c.getD i 0 * x ^ i := by
    funext x; rw [polyEval_eq, hc]
  rw [this]; exact poly_data_normal_eq xs w c degree hw

/-- Exactly polynomial data are fitted with zero SSE by the true coefficients. -/
theorem poly_data_sse_zero (xs w c : Vec) (degree : ℕ) :
    sse (monomials xs degree) w
      (xs.map fun x => ∑ i ∈ range (degree + 1), c.getD i 0 * x ^ i) c = 0 := by
  rw [sse_eq]
  refine Finset.sum_eq_zero fun k hk => ?_
  have hk' : k < xs.length := by simpa using hk
  rw [polyData_getD xs c degree k hk', fitAt_monomials xs c degree k hk', sub_self]
  simp

example : matVec (normalMatrix (monomials [0, 1, 2, 3] 2) [1, 2, 1, 3]) [1, -1, 2] =
    normalRhs (monomials [0, 1, 2, 3] 2) [1, 2, 1, 3] (([0, 1, 2, 3] : Vec).map fun x => polyEval [1, -1, 2] x) :=
  poly_data_normal_eq_polyEval [0, 1, 2, 3] [1, 2, 1, 3] [1, -1, 2] 2 rfl rfl

/-- **Uniqueness of polynomial reproduction.** With non-negative weights, exactly polynomial data, and
at least `degree+1` distinct abscissae carrying a strictly positive weight, *any* solution `β` of the
normal equations has zero SSE and is equal to the true coefficient vector `c`. -/
theorem poly_data_unique (xs w c β : Vec) (degree : ℕ) (hc : c.length = degree + 1)
    (hβ : β.length = degree + 1) (hw : w.length = xs.length) (hpos : ∀ x ∈ w, 0 ≤ x)
    (hdist : degree + 1 ≤
      (((xs.zip w).filter fun p => decide (0 < p.2)).map Prod.fst).toFinset.card)
    (hne : matVec (normalMatrix (monomials xs degree) w) β =
      normalRhs (monomials xs degree) w
        (xs.map fun x => ∑ i ∈ range (degree + 1), c.getD i 0 * x ^ i)) :
    sse (monomials xs degree) w
      (xs.map fun x => ∑ i ∈ range (degree + 1), c.getD i 0 * x ^ i) β = 0 ∧ β = c := by
  set ys := xs.map fun x => ∑ i ∈ range (degree + 1), c.getD i 0 * x ^ i with hys
  have hylen : ys.length = xs.length := by simp [hys]
  have hle : sse (monomials xs degree) w ys β ≤ sse (monomials xs degree) w ys c :=
    normal_eq_minimises _ w ys β c (by omega) (by rw [monomials_length, hβ])
      (by rw [monomials_length, hc]) hpos hne
  rw [poly_data_sse_zero] at hle
  have hwk : ∀ k, k < xs.length → 0 ≤ w.getD k 1 := by
    intro k hk
    have hk' : k < w.length := by omega
    have : w.getD k 1 = w[k] := by simp [List.getD_eq_getElem?_getD, hk']
    rw [this]; exact hpos _ (List.getElem_mem _)
  have hterm : ∀ k ∈ range ys.length,
      0 ≤ w.getD k 1 * (ys.getD k 0 - fitAt (monomials xs degree) β k) ^ 2 := by
    intro k hk
    exact mul_nonneg (hwk k (by rw [← hylen]; exact Finset.mem_range.1 hk)) (sq_nonneg _)
  have hsse0 : sse (monomials xs degree) w ys β = 0 := by
    refine le_antisymm hle ?_
    rw [sse_eq]; exact Finset.sum_nonneg hterm
  refine ⟨hsse0, ?_⟩
  rw [sse_eq] at hsse0
  have hzero := (Finset.sum_eq_zero_iff_of_nonneg hterm).1 hsse0
  -- the difference polynomial
  let p : Polynomial ℚ := ∑ i ∈ range (degree + 1),
    Polynomial.C (c.getD i 0 - β.getD i 0) * Polynomial.X ^ i
  have hdeg : p.natDegree ≤ degree := by
    refine Polynomial.natDegree_sum_le_of_forall_le _ _ fun i hi => ?_
    exact (Polynomial.natDegree_C_mul_X_pow_le _ _).trans (by have := Finset.mem_range.1 hi; omega)
  have heval : ∀ x ∈ (((xs.zip w).filter fun p => decide (0 < p.2)).map Prod.fst).toFinset,
      p.eval x = 0 := by
    intro x hx
    simp only [List.mem_toFinset, List.mem_map, List.mem_filter, decide_eq_true_eq] at hx
    obtain ⟨⟨a, b⟩, ⟨hmem, hb⟩, rfl⟩ := hx
    obtain ⟨k, hk, hkeq⟩ := List.mem_iff_getElem.1 hmem
    have hkx : k < xs.length := by simp at hk; omega
    have hkw : k < w.length := by simp at hk; omega
    rw [List.getElem_zip] at hkeq
    have ha : xs.getD k 0 = a := by
      simp only [List.getD_eq_getElem?_getD, List.getElem?_eq_getElem hkx, Option.getD_some]
      exact (Prod.ext_iff.1 hkeq).1
    have hbw : w.getD k 1 = b := by
      simp only [List.getD_eq_getElem?_getD, List.getElem?_eq_getElem hkw, Option.getD_some]
      exact (Prod.ext_iff.1 hkeq).2
    have hz := hzero k (Finset.mem_range.2 (by omega))
    rw [hbw, polyData_getD xs c degree k hkx, fitAt_monomials xs β degree k hkx, ha] at hz
    have hb' : b ≠ 0 := ne_of_gt hb
    have hz' := (mul_eq_zero.1 hz).resolve_left hb'
    have hz'' := pow_eq_zero_iff (two_ne_zero) |>.1 hz'
    simp only [p, Polynomial.eval_finsetSum, Polynomial.eval_mul, Polynomial.eval_C,
      Polynomial.eval_pow, Polynomial.eval_X]
    rw [← Finset.sum_sub_distrib] at hz''
    exact Eq.trans (Finset.sum_congr rfl fun i _ => by ring) hz''
  have hp0 : p = 0 :=
    Polynomial.eq_zero_of_natDegree_lt_card_of_eval_eq_zero' p _ heval (by omega)
  rw [list_eq_iff_getD β c (degree + 1) hβ hc]
  intro i hi
  have hcoef : p.coeff i = c.getD i 0 - β.getD i 0 := by
    simp only [p, Polynomial.finsetSum_coeff, Polynomial.coeff_C_mul_X_pow]
    rw [Finset.sum_eq_single i]
    · simp
    · intro j _ hji; simp [Ne.symm hji]
    · intro h; exact absurd (Finset.mem_range.2 hi) h
  rw [hp0, Polynomial.coeff_zero] at hcoef
  linarith

example : (([0, 1, 2, 3] : Vec).zip ([1, 2, 0, 3] : Vec) |>.filter (fun p => decide (0 < p.2))
    |>.map Prod.fst).toFinset.card = 3 := by
  simp

/-- the hypotheses of `poly_data_unique` are satisfiable on a concrete input (one weight is 0) -/
example : sse (monomials [0, 1, 2, 3] 2) [1, 2, 0, 3]
      (([0, 1, 2, 3] : Vec).map fun x => ∑ i ∈ range (2 + 1), ([1, -1, 2] : Vec).getD i 0 * x ^ i)
      [1, -1, 2] = 0 ∧ ([1, -1, 2] : Vec) = [1, -1, 2] :=
  poly_data_unique [0, 1, 2, 3] [1, 2, 0, 3] [1, -1, 2] [1, -1, 2] 2 rfl rfl rfl
    (by norm_num) (by simp) (poly_data_normal_eq _ _ _ 2 rfl)


/-! ## L4: Gauss–Jordan soundness -/

/-- `M` has `n` rows, each of length `L` -/
def Shape (M : Mat) (n L : ℕ) : Prop := M.length = n ∧ ∀ r ∈ M, r.length = L

def swapRows (M : Mat) (r c : ℕ) : Mat := (M.set r (M.getD c [])).set c (M.getD r [])

def stepMat (M : Mat) (c r : ℕ) : Mat :=
  (List.range (swapRows M r c).length).map fun i =>
    if i == c then (M.getD r []).map (· / (M.getD r []).getD c 0)
    else
      (((swapRows M r c).getD i []).zip ((M.getD r []).map (· / (M.getD r []).getD c 0))).map
        fun (a, b) => a - ((swapRows M r c).getD i []).getD c 0 * b

lemma pivotStep_eq (M : Mat) (c : ℕ) :
    pivotStep M c =
      match (List.range M.length).find? (fun r => r ≥ c && (M.getD r []).getD c 0 != 0) with
      | none => none
      | some r => some (stepMat M c r) := rfl

/-- index permutation realised by the row swap -/
def sw (r c i : ℕ) : ℕ := if i = c then r else if i = r then c else i

lemma swapRows_getD (M : Mat) (r c i : ℕ) (hr : r < M.length) (hc : c < M.length) :
    (swapRows M r c).getD i [] = M.getD (sw r c i) [] := by
  unfold swapRows sw
  simp only [List.getD_eq_getElem?_getD, List.getElem?_set, List.length_set]
  by_cases h1 : i = c
  · subst h1; simp [hc]
  · by_cases h2 : i = r
    · subst h2; simp [h1, Ne.symm h1, hr]
    · simp [h1, h2, Ne.symm h1, Ne.symm h2]

lemma swapRows_length (M : Mat) (r c : ℕ) : (swapRows M r c).length = M.length := by
  simp [swapRows]

lemma sw_lt (r c i n : ℕ) (hr : r < n) (hc : c < n) (hi : i < n) : sw r c i < n := by
  unfold sw; split_ifs <;> assumption

lemma Shape.row_len {M : Mat} {n L : ℕ} (h : Shape M n L) (i : ℕ) (hi : i < n) :
    (M.getD i []).length = L := by
  have hi' : i < M.length := by rw [h.1]; exact hi
  have : M.getD i [] = M[i] := by simp [List.getD_eq_getElem?_getD, hi']
  rw [this]; exact h.2 _ (List.getElem_mem _)

lemma getD_map_div (l : Vec) (p : ℚ) (j : ℕ) : (l.map (· / p)).getD j 0 = l.getD j 0 / p :=
  getD_map_zero l (· / p) 0 (by simp) j

lemma getD_zip_map_sub (a b : Vec) (f : ℚ) (j : ℕ) (ha : j < a.length) (hb : j < b.length) :
    ((a.zip b).map fun (x, y) => x - f * y).getD j 0 = a.getD j 0 - f * b.getD j 0 := by
  simp [List.getD_eq_getElem?_getD, ha, hb]

lemma stepMat_spec (M : Mat) (n L c r : ℕ) (hS : Shape M n L) (hc : c < n) (hr : r < n) :
    Shape (stepMat M c r) n L ∧
    ∀ i < n, ∀ j < L, ent (stepMat M c r) i j =
      if i = c then ent M r j / ent M r c
      else ent M (sw r c i) j - ent M (sw r c i) c * (ent M r j / ent M r c) := by
  have hrM : r < M.length := by rw [hS.1]; exact hr
  have hcM : c < M.length := by rw [hS.1]; exact hc
  have hrow : ∀ i < n, (stepMat M c r).getD i [] =
      if i = c then (M.getD r []).map (· / (M.getD r []).getD c 0)
      else ((M.getD (sw r c i) []).zip ((M.getD r []).map (· / (M.getD r []).getD c 0))).map
        fun (a, b) => a - (M.getD (sw r c i) []).getD c 0 * b := by
    intro i hi
    have hi' : i < (swapRows M r c).length := by rw [swapRows_length, hS.1]; exact hi
    unfold stepMat
    simp only [List.getD_eq_getElem?_getD, List.getElem?_map, List.getElem?_range hi',
      Option.map_some, Option.getD_some, beq_iff_eq]
    simp only [← List.getD_eq_getElem?_getD, swapRows_getD M r c i hrM hcM]
  constructor
  · refine ⟨by simp [stepMat, swapRows_length, hS.1], ?_⟩
    intro row hmem
    obtain ⟨i, hi, rfl⟩ := List.mem_iff_getElem.1 hmem
    have hin : i < n := by simpa [stepMat, swapRows_length, hS.1] using hi
    have : (stepMat M c r)[i] = (stepMat M c r).getD i [] := by
      simp [List.getD_eq_getElem?_getD, hi]
    rw [this, hrow i hin]
    split_ifs with h
    · rw [List.length_map, hS.row_len r hr]
    · rw [List.length_map, List.length_zip, List.length_map, hS.row_len r hr,
        hS.row_len _ (sw_lt r c i n hr hc hin), min_self]
  · intro i hi j hj
    unfold ent
    rw [hrow i hi]
    split_ifs with h
    · rw [getD_map_div]
    · rw [getD_zip_map_sub _ _ _ _ (by rw [hS.row_len _ (sw_lt r c i n hr hc hi)]; exact hj)
        (by rw [List.length_map, hS.row_len r hr]; exact hj), getD_map_div]

lemma pivotStep_spec (M M' : Mat) (n L c : ℕ) (hS : Shape M n L) (hc : c < n)
    (h : pivotStep M c = some M') :
    ∃ r, c ≤ r ∧ r < n ∧ ent M r c ≠ 0 ∧ Shape M' n L ∧
      ∀ i < n, ∀ j < L, ent M' i j =
        if i = c then ent M r j / ent M r c
        else ent M (sw r c i) j - ent M (sw r c i) c * (ent M r j / ent M r c) := by
  rw [pivotStep_eq] at h
  split at h
  · exact absurd h (by simp)
  · rename_i r hfind
    rw [List.find?_range_eq_some] at hfind
    obtain ⟨hp, hmem, _⟩ := hfind
    simp only [ge_iff_le, Bool.and_eq_true, decide_eq_true_eq, bne_iff_ne, ne_eq] at hp
    have hr : r < n := by rw [← hS.1]; exact List.mem_range.1 hmem
    have := stepMat_spec M n L c r hS hc hr
    simp only [Option.some.injEq] at h
    subst h
    exact ⟨r, hp.1, hr, hp.2, this.1, this.2⟩

/-- `v` solves the augmented system `M` (left `n×n` block, right-hand side in column `n`) -/
def Sat (n : ℕ) (M : Mat) (v : ℕ → ℚ) : Prop :=
  ∀ i < n, ∑ j ∈ range n, ent M i j * v j = ent M i n

/-- the first `c` columns of the left block are identity columns -/
def IdCols (n : ℕ) (M : Mat) (c : ℕ) : Prop :=
  ∀ i < n, ∀ j < c, ent M i j = if i = j then 1 else 0

lemma step_sat (M M' : Mat) (n L c r : ℕ) (hL : n < L) (hc : c < n) (hr : r < n)
    (hp : ent M r c ≠ 0)
    (hE : ∀ i < n, ∀ j < L, ent M' i j =
        if i = c then ent M r j / ent M r c
        else ent M (sw r c i) j - ent M (sw r c i) c * (ent M r j / ent M r c))
    (v : ℕ → ℚ) (hsat : Sat n M' v) : Sat n M v := by
  have hrow_r : ∑ j ∈ range n, ent M r j * v j = ent M r n := by
    have h := hsat c hc
    rw [hE c hc n hL, if_pos rfl] at h
    have h2 : ∑ j ∈ range n, ent M' c j * v j = (∑ j ∈ range n, ent M r j * v j) / ent M r c := by
      rw [Finset.sum_div]
      refine Finset.sum_congr rfl fun j hj => ?_
      rw [hE c hc j (lt_trans (Finset.mem_range.1 hj) hL), if_pos rfl]; ring
    rw [h2] at h
    exact (div_left_inj' hp).1 h
  have hrow_o : ∀ i < n, i ≠ c →
      ∑ j ∈ range n, ent M (sw r c i) j * v j = ent M (sw r c i) n := by
    intro i hi hic
    have h := hsat i hi
    rw [hE i hi n hL, if_neg hic] at h
    have h2 : ∑ j ∈ range n, ent M' i j * v j =
        (∑ j ∈ range n, ent M (sw r c i) j * v j) -
          ent M (sw r c i) c / ent M r c * ∑ j ∈ range n, ent M r j * v j := by
      rw [Finset.mul_sum, ← Finset.sum_sub_distrib]
      refine Finset.sum_congr rfl fun j hj => ?_
      rw [hE i hi j (lt_trans (Finset.mem_range.1 hj) hL), if_neg hic]; ring
    rw [h2, hrow_r] at h
    linarith [h, show ent M (sw r c i) c / ent M r c * ent M r n =
      ent M (sw r c i) c * (ent M r n / ent M r c) by ring]
  intro i hi
  by_cases h1 : i = r
  · subst h1; exact hrow_r
  · by_cases h2 : i = c
    · subst h2
      have := hrow_o r hr (Ne.symm h1)
      have e : sw r i r = i := by unfold sw; simp [Ne.symm h1]
      rwa [e] at this
    · have := hrow_o i hi h2
      have e : sw r c i = i := by unfold sw; simp [h1, h2]
      rwa [e] at this

lemma step_id (M M' : Mat) (n L c r : ℕ) (hL : n < L) (hc : c < n) (hcr : c ≤ r) (hr : r < n)
    (hp : ent M r c ≠ 0)
    (hE : ∀ i < n, ∀ j < L, ent M' i j =
        if i = c then ent M r j / ent M r c
        else ent M (sw r c i) j - ent M (sw r c i) c * (ent M r j / ent M r c))
    (hid : IdCols n M c) : IdCols n M' (c + 1) := by
  intro i hi j hj
  have hjL : j < L := by omega
  rw [hE i hi j hjL]
  rcases Nat.lt_succ_iff_lt_or_eq.1 hj with hjc | rfl
  · have hrj : ent M r j = 0 := by rw [hid r hr j hjc, if_neg (by omega)]
    rw [hrj]
    by_cases hic : i = c
    · rw [if_pos hic, if_neg (by omega)]; simp
    · rw [if_neg hic]
      have hsw : sw r c i < n := sw_lt r c i n hr hc hi
      rw [hid _ hsw j hjc]
      unfold sw
      rw [if_neg hic]
      by_cases hir : i = r
      · rw [if_pos hir, if_neg (by omega), if_neg (by omega)]; simp
      · rw [if_neg hir]; simp
  · by_cases hic : i = j
    · rw [if_pos hic, if_pos hic, div_self hp]
    · rw [if_neg hic, if_neg hic, div_self hp]; ring

/-- the elimination loop of `gaussJordan`, run for `k` columns -/
def gjFold (aug : Mat) (k : ℕ) : Option Mat :=
  (List.range k).foldl (fun (m : Option Mat) c => m.bind fun M => pivotStep M c) (some aug)

lemma gjFold_succ (aug : Mat) (k : ℕ) :
    gjFold aug (k + 1) = (gjFold aug k).bind fun M => pivotStep M k := by
  simp [gjFold, List.range_succ, List.foldl_append]

lemma gj_inv (aug : Mat) (n L : ℕ) (hL : n < L) (hS : Shape aug n L) (k : ℕ) (hk : k ≤ n)
    (Mk : Mat) (h : gjFold aug k = some Mk) :
    Shape Mk n L ∧ IdCols n Mk k ∧ ∀ v, Sat n Mk v → Sat n aug v := by
  induction k generalizing Mk with
  | zero =>
    simp only [gjFold, List.range_zero, List.foldl_nil, Option.some.injEq] at h
    subst h
    exact ⟨hS, fun i _ j hj => absurd hj (Nat.not_lt_zero _), fun v hv => hv⟩
  | succ k ih =>
    rw [gjFold_succ] at h
    cases hprev : gjFold aug k with
    | none => rw [hprev] at h; exact absurd h (by simp)
    | some Mp =>
      rw [hprev] at h
      simp only [Option.bind_some] at h
      obtain ⟨hSp, hIp, hSatp⟩ := ih (by omega) Mp hprev
      obtain ⟨r, hcr, hr, hp, hS', hE⟩ := pivotStep_spec Mp Mk n L k hSp (by omega) h
      exact ⟨hS', step_id Mp Mk n L k r hL (by omega) hcr hr hp hE hIp,
        fun v hv => hSatp v (step_sat Mp Mk n L k r hL (by omega) hr hp hE v hv)⟩


/-- the augmented matrix `[A | B]` built by `gaussJordan` -/
def augOf (A B : Mat) : Mat := (A.zip B).map fun (a, b) => a ++ b

lemma gaussJordan_eq (A B : Mat) :
    gaussJordan A B =
      (gjFold (augOf A B) A.length).map fun M => M.map fun row => row.drop A.length := rfl

lemma augOf_getD (A : Mat) (b : Vec) (n i : ℕ) (hA : A.length = n) (hb : b.length = n) (hi : i < n) :
    (augOf A (b.map fun x => [x])).getD i [] = A.getD i [] ++ [b.getD i 0] := by
  have h1 : i < A.length := by omega
  have h2 : i < b.length := by omega
  simp [augOf, List.getD_eq_getElem?_getD, h1, h2]

lemma augOf_shape (A : Mat) (b : Vec) (n : ℕ) (hA : A.length = n)
    (hrows : ∀ r ∈ A, r.length = n) (hb : b.length = n) :
    Shape (augOf A (b.map fun x => [x])) n (n + 1) := by
  refine ⟨by simp [augOf, hA, hb], ?_⟩
  intro row hmem
  simp only [augOf, List.mem_map] at hmem
  obtain ⟨⟨a, c⟩, hz, rfl⟩ := hmem
  have := List.of_mem_zip hz
  obtain ⟨x, _, rfl⟩ := List.mem_map.1 this.2
  simp [hrows a this.1]

lemma solve_spec (A : Mat) (b β : Vec) (n : ℕ) (hA : A.length = n)
    (hrows : ∀ r ∈ A, r.length = n) (hb : b.length = n) (h : solve A b = some β) :
    β.length = n ∧ matVec A β = b := by
  unfold solve at h
  rw [gaussJordan_eq, Option.map_map, Option.map_eq_some_iff] at h
  obtain ⟨Mf, hfold, hβ⟩ := h
  rw [hA] at hfold
  have hS := augOf_shape A b n hA hrows hb
  obtain ⟨hSf, hId, hSat⟩ := gj_inv _ n (n + 1) (Nat.lt_succ_self n) hS n le_rfl Mf hfold
  -- entries of β
  have hβi : ∀ i, β.getD i 0 = ent Mf i n := by
    intro i
    rw [← hβ]
    simp only [Function.comp, List.map_map, hA]
    rw [getD_map_zero Mf _ [] (by simp)]
    simp [ent, List.getD_eq_getElem?_getD]
  have hβlen : β.length = n := by rw [← hβ]; simp [hSf.1]
  have hsatf : Sat n Mf (fun i => β.getD i 0) := by
    intro i hi
    have : ∀ j ∈ range n, ent Mf i j * β.getD j 0 = if i = j then ent Mf i n else 0 := by
      intro j hj
      rw [hId i hi j (Finset.mem_range.1 hj), hβi j]
      split_ifs with hij
      · subst hij; ring
      · ring
    rw [Finset.sum_congr rfl this, Finset.sum_ite_eq]
    simp [hi]
  have hsat0 := hSat _ hsatf
  refine ⟨hβlen, ?_⟩
  rw [list_eq_iff_getD _ _ n (by simp [matVec, hA]) hb]
  intro i hi
  have hiA : i < A.length := by omega
  have hrow : (A.getD i []).length = n := by
    have : A.getD i [] = A[i] := by simp [List.getD_eq_getElem?_getD, hiA]
    rw [this]; exact hrows _ (List.getElem_mem _)
  have h1 : (matVec A β).getD i 0 = dot (A.getD i []) β := by
    simp [matVec, List.getD_eq_getElem?_getD, hiA]
  rw [h1, dot_eq_sum _ _ n (by rw [hrow]; exact min_le_left _ _)]
  have h2 := hsat0 i hi
  have hentj : ∀ j ∈ range n, ent (augOf A (b.map fun x => [x])) i j * β.getD j 0 =
      (A.getD i []).getD j 0 * β.getD j 0 := by
    intro j hj
    have hj' : j < (A.getD i []).length := by rw [hrow]; exact Finset.mem_range.1 hj
    unfold ent
    rw [augOf_getD A b n i hA hb hi, List.getD_append _ _ _ _ hj']
  have hentn : ent (augOf A (b.map fun x => [x])) i n = b.getD i 0 := by
    unfold ent
    rw [augOf_getD A b n i hA hb hi, List.getD_append_right _ _ _ _ (by rw [hrow]), hrow]
    simp
  rw [Finset.sum_congr rfl hentj, hentn] at h2
  exact h2

/-- **Soundness of the Gauss–Jordan solver.** If `solve A b` returns `some β` for a square system
(`A` has `n` rows of length `n`, `b` has length `n`), then `β` really solves it: `A β = b`. -/
theorem solve_sound (A : Mat) (b β : Vec) (n : ℕ) (hA : A.length = n)
    (hrows : ∀ r ∈ A, r.length = n) (hb : b.length = n) (h : solve A b = some β) :
    matVec A β = b :=
  (solve_spec A b β n hA hrows hb h).2

/-- A successful `solve` returns one unknown per equation. -/
theorem solve_length (A : Mat) (b β : Vec) (n : ℕ) (hA : A.length = n)
    (hrows : ∀ r ∈ A, r.length = n) (hb : b.length = n) (h : solve A b = some β) :
    β.length = n :=
  (solve_spec A b β n hA hrows hb h).1

/-- **End to end.** If the Gauss–Jordan solver succeeds on the normal equations, the returned `β`
minimises the weighted SSE over all parameter vectors of the right length (non-negative weights). -/
theorem solve_normal_minimises (XT : Mat) (w y β β' : Vec) (hw : w.length = y.length)
    (hpos : ∀ x ∈ w, 0 ≤ x) (hβ' : β'.length = XT.length)
    (h : solve (normalMatrix XT w) (normalRhs XT w y) = some β) :
    sse XT w y β ≤ sse XT w y β' := by
  have hsq : ∀ r ∈ normalMatrix XT w, r.length = XT.length := by
    intro r hr
    simp only [normalMatrix, List.mem_map] at hr
    obtain ⟨_, _, rfl⟩ := hr
    simp
  obtain ⟨hlen, hne⟩ := solve_spec _ _ β XT.length (normalMatrix_length XT w) hsq
    (by simp [normalRhs]) h
  exact normal_eq_minimises XT w y β β' hw hlen hβ' hpos hne


macro "solve_eval" : tactic =>
  `(tactic| norm_num [solve, gaussJordan, pivotStep, List.range, List.range.loop, List.find?, bne,
      beq_eq_decide])

example : solve [[2, 1], [1, 3]] [3, 5] = some [4/5, 7/5] := by solve_eval
/-- an instance that needs a row swap (zero pivot in column 0) -/
example : solve [[0, 1], [1, 1]] [2, 3] = some [1, 2] := by solve_eval
/-- a singular system is rejected -/
example : solve [[1, 2], [2, 4]] [1, 1] = none := by solve_eval

example : matVec [[0, 1], [1, 1]] [1, 2] = [2, 3] :=
  solve_sound [[0, 1], [1, 1]] [2, 3] [1, 2] 2 rfl (by simp) rfl (by solve_eval)

example : sse exXT exW exY exβ ≤ sse exXT exW exY [0, 2] :=
  solve_normal_minimises exXT exW exY exβ [0, 2] rfl (by fit_eval) rfl
    (by norm_num [exXT, exW, exY, exβ, normalMatrix, normalRhs, dot, solve, gaussJordan, pivotStep,
      List.range, List.range.loop, List.find?, bne, beq_eq_decide])

example : dot [1, -2] (matVec (normalMatrix exXT exW) [1, -2]) =
    ∑ k ∈ range exW.length, exW.getD k 0 * (fitAt exXT [1, -2] k) ^ 2 :=
  quad_eq_sum_sq exXT exW [1, -2]
example : tricube 2 4 ≤ tricube 1 4 :=
  tricube_antitone 1 2 4 (by norm_num) (by norm_num) (by norm_num) (by norm_num)
example : ([1, 2] : Vec).length = 2 :=
  solve_length [[0, 1], [1, 1]] [2, 3] [1, 2] 2 rfl (by simp) rfl (by solve_eval)
example : windowStart [0, 1, 2, 4, 7, 8] 3 (5/2) + 3 ≤ 6 :=
  window_in_range [0, 1, 2, 4, 7, 8] 3 (5/2) (by simp)

end MV.Fit
