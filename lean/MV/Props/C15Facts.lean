import MV.Props.FactsLib
/-! Source facts the C15 model relies on (checked against the facts regenerated from /repo on every run). -/
namespace MV.Facts

def expectedC15 : List (String × String) := [("lits:fit.LOESS", "0 0 0 0 1 1 1 2")]

/-- the constants and literals the C15 model mirrors are still what the source says -/
theorem facts_C15 : holdsAll expectedC15 = true := by decide

end MV.Facts
