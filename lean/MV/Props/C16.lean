import Mathlib.Tactic
import Mathlib.Analysis.SpecialFunctions.Log.Basic
import MV.Model.Scale
/-!
# C16 — scales: linear map/unmap laws, clamping, `NewLog` range check, QQ round trip,
and the real-valued Log-scale laws

The rational results are about the executable model in `MV/Model/Scale.lean`; the Log-scale laws
(L5) are about real-valued definitions made in this file (the model evaluates the transcendental
part through interval enclosures in the driver).
-/
namespace MV.Scale

/-! ## L1: unclamped, non-degenerate linear scale -/

lemma map_unclamped (s : Lin) (h : s.min ≠ s.max) (hc : s.clampOn = false) (x : ℚ) :
    s.map x = (x - s.min) / (s.max - s.min) := by
  simp [Lin.map, h, hc]

/-- `Map(min) = 0` on an unclamped non-degenerate linear scale. -/
theorem map_min (s : Lin) (h : s.min ≠ s.max) (hc : s.clampOn = false) : s.map s.min = 0 := by
  rw [map_unclamped s h hc]; simp

/-- `Map(max) = 1` on an unclamped non-degenerate linear scale. -/
theorem map_max (s : Lin) (h : s.min ≠ s.max) (hc : s.clampOn = false) : s.map s.max = 1 := by
  rw [map_unclamped s h hc]
  exact div_self (sub_ne_zero.2 (Ne.symm h))

/-- `Unmap ∘ Map = id` on an unclamped non-degenerate linear scale. -/
theorem unmap_map (s : Lin) (h : s.min ≠ s.max) (hc : s.clampOn = false) (x : ℚ) :
    s.unmap (s.map x) = x := by
  rw [map_unclamped s h hc, Lin.unmap]
  have : s.max - s.min ≠ 0 := sub_ne_zero.2 (Ne.symm h)
  field_simp
  ring

/-- `Map ∘ Unmap = id` on an unclamped non-degenerate linear scale. -/
theorem map_unmap (s : Lin) (h : s.min ≠ s.max) (hc : s.clampOn = false) (y : ℚ) :
    s.map (s.unmap y) = y := by
  rw [map_unclamped s h hc, Lin.unmap]
  have : s.max - s.min ≠ 0 := sub_ne_zero.2 (Ne.symm h)
  field_simp
  ring

/-- The unclamped linear map is affine in `x` with slope `1 / (max - min)`. -/
theorem map_affine (s : Lin) (h : s.min ≠ s.max) (hc : s.clampOn = false) (x : ℚ) :
    s.map x = x / (s.max - s.min) - s.min / (s.max - s.min) := by
  rw [map_unclamped s h hc, sub_div]

example : (Lin.mk 2 6 false).map 3 = 1 / 4 ∧ (Lin.mk 2 6 false).unmap (1 / 4) = 3 := by
  decide +kernel
example : (Lin.mk 2 6 false).map 3 = 3 / (6 - 2) - 2 / (6 - 2) :=
  map_affine (Lin.mk 2 6 false) (by decide) rfl 3
example : (Lin.mk 2 6 false).unmap ((Lin.mk 2 6 false).map 17) = 17 :=
  unmap_map (Lin.mk 2 6 false) (by decide) rfl 17
example : (Lin.mk 6 2 false).map ((Lin.mk 6 2 false).unmap 17) = 17 :=
  map_unmap (Lin.mk 6 2 false) (by decide) rfl 17
example : (Lin.mk 2 6 false).map 2 = 0 := map_min (Lin.mk 2 6 false) (by decide) rfl
example : (Lin.mk 2 6 false).map 6 = 1 := map_max (Lin.mk 2 6 false) (by decide) rfl

lemma map_lt_map_iff_of_lt (s : Lin) (h : s.min < s.max) (hc : s.clampOn = false) (x y : ℚ) :
    s.map x < s.map y ↔ x < y := by
  rw [map_unclamped s h.ne hc, map_unclamped s h.ne hc, div_lt_div_iff_of_pos_right (sub_pos.2 h)]
  constructor <;> intro <;> linarith

lemma map_lt_map_iff_of_gt (s : Lin) (h : s.max < s.min) (hc : s.clampOn = false) (x y : ℚ) :
    s.map x < s.map y ↔ y < x := by
  rw [map_unclamped s h.ne' hc, map_unclamped s h.ne' hc,
    div_lt_div_right_of_neg (sub_neg.2 h)]
  constructor <;> intro <;> linarith

/-- An unclamped non-degenerate linear scale is strictly increasing iff `min < max`. -/
theorem map_strictMono_iff (s : Lin) (h : s.min ≠ s.max) (hc : s.clampOn = false) :
    StrictMono s.map ↔ s.min < s.max := by
  constructor
  · intro hm
    rcases lt_or_gt_of_ne h with h' | h'
    · exact h'
    · have := hm (show (0 : ℚ) < 1 by norm_num)
      rw [map_lt_map_iff_of_gt s h' hc] at this
      norm_num at this
  · intro h' x y hxy
    exact (map_lt_map_iff_of_lt s h' hc x y).2 hxy

/-- An unclamped non-degenerate linear scale is strictly decreasing iff `max < min`. -/
theorem map_strictAnti_iff (s : Lin) (h : s.min ≠ s.max) (hc : s.clampOn = false) :
    StrictAnti s.map ↔ s.max < s.min := by
  constructor
  · intro hm
    rcases lt_or_gt_of_ne h with h' | h'
    · have := hm (show (0 : ℚ) < 1 by norm_num)
      rw [map_lt_map_iff_of_lt s h' hc] at this
      norm_num at this
    · exact h'
  · intro h' x y hxy
    exact (map_lt_map_iff_of_gt s h' hc y x).2 hxy

example : StrictMono (Lin.mk 2 6 false).map :=
  (map_strictMono_iff _ (by decide) rfl).2 (by decide +kernel)
example : StrictAnti (Lin.mk 6 2 false).map :=
  (map_strictAnti_iff _ (by decide) rfl).2 (by decide +kernel)

/-! ## L2: clamping and the degenerate scale -/

lemma clamp_mem (y : ℚ) : 0 ≤ clamp y ∧ clamp y ≤ 1 := by
  unfold clamp
  split_ifs with h1 h2
  · exact ⟨le_refl _, zero_le_one⟩
  · exact ⟨zero_le_one, le_refl _⟩
  · exact ⟨not_lt.1 h1, not_lt.1 h2⟩

lemma clamp_of_mem (y : ℚ) (h0 : 0 ≤ y) (h1 : y ≤ 1) : clamp y = y := by
  unfold clamp
  rw [if_neg (not_lt.2 h0), if_neg (not_lt.2 h1)]

/-- A clamped linear scale always maps into `[0, 1]` (including the degenerate case). -/
theorem map_clamped_mem (s : Lin) (hc : s.clampOn = true) (x : ℚ) :
    0 ≤ s.map x ∧ s.map x ≤ 1 := by
  unfold Lin.map
  split_ifs with h
  · norm_num
  · simp only [hc, if_true]
    exact clamp_mem _

/-- Inside the domain (bounds in either order) clamping has no effect: the clamped map equals the
unclamped affine map. -/
theorem map_clamped_eq (s : Lin) (h : s.min ≠ s.max) (x : ℚ)
    (hx : (s.min ≤ x ∧ x ≤ s.max) ∨ (s.max ≤ x ∧ x ≤ s.min)) :
    s.map x = (x - s.min) / (s.max - s.min) := by
  cases hc : s.clampOn
  · exact map_unclamped s h hc x
  · have e : s.map x = clamp ((x - s.min) / (s.max - s.min)) := by
      simp [Lin.map, h, hc]
    rw [e]
    apply clamp_of_mem
    · rcases hx with hx | hx
      · exact div_nonneg (by linarith) (by linarith)
      · exact div_nonneg_of_nonpos (by linarith) (by linarith)
    · rcases lt_or_gt_of_ne h with h' | h'
      · rw [div_le_one (sub_pos.2 h')]
        rcases hx with hx | hx <;> linarith
      · rw [div_le_one_of_neg (sub_neg.2 h')]
        rcases hx with hx | hx <;> linarith

/-- Same statement phrased against the scale with clamping switched off. -/
theorem map_clamped_eq_unclamped (s : Lin) (h : s.min ≠ s.max) (x : ℚ)
    (hx : (s.min ≤ x ∧ x ≤ s.max) ∨ (s.max ≤ x ∧ x ≤ s.min)) :
    s.map x = ({ s with clampOn := false } : Lin).map x := by
  rw [map_clamped_eq s h x hx, map_unclamped { s with clampOn := false } h rfl]

/-- The degenerate scale `min = max` maps everything to `1/2` (clamped or not). -/
theorem map_degenerate (s : Lin) (h : s.min = s.max) (x : ℚ) : s.map x = 1 / 2 := by
  simp [Lin.map, h]

example : (Lin.mk 2 6 true).map 100 = 1 ∧ (Lin.mk 2 6 true).map (-100) = 0 ∧
    (Lin.mk 6 2 true).map 5 = 1 / 4 := by decide +kernel
example : 0 ≤ (Lin.mk 2 6 true).map 100 ∧ (Lin.mk 2 6 true).map 100 ≤ 1 :=
  map_clamped_mem _ rfl 100
example : (Lin.mk 6 2 true).map 5 = (5 - 6) / (2 - 6) :=
  map_clamped_eq (Lin.mk 6 2 true) (by decide) 5 (Or.inr (by decide +kernel))
example : (Lin.mk 6 2 true).map 5 = (Lin.mk 6 2 false).map 5 :=
  map_clamped_eq_unclamped (Lin.mk 6 2 true) (by decide) 5 (Or.inr (by decide +kernel))
example : (Lin.mk 3 3 true).map 77 = 1 / 2 := map_degenerate _ rfl 77

/-! ## L3: `NewLog` -/

lemma newLog_eq (a b : ℚ) (base : ℤ) :
    newLog a b base =
      if base ≤ 1 then none
      else if min a b ≤ 0 ∧ 0 ≤ max a b then none else some (min a b, max a b) := by
  unfold newLog
  by_cases h : a > b
  · have h1 : min a b = b := min_eq_right h.le
    have h2 : max a b = a := max_eq_left h.le
    simp only [h, if_true, h1, h2, ge_iff_le]
  · have h' : a ≤ b := not_lt.1 h
    have h1 : min a b = a := min_eq_left h'
    have h2 : max a b = b := max_eq_right h'
    simp only [h, if_false, h1, h2, ge_iff_le]

/-- `NewLog` succeeds exactly when the base is at least 2 and the (ordered) domain does not
contain 0. -/
theorem newLog_some_iff (a b : ℚ) (base : ℤ) :
    (newLog a b base).isSome ↔ 2 ≤ base ∧ ¬ (min a b ≤ 0 ∧ 0 ≤ max a b) := by
  rw [newLog_eq]
  split_ifs with h1 h2
  · simp only [Option.isSome_none, Bool.false_eq_true, false_iff]
    rintro ⟨h, _⟩; omega
  · simp only [Option.isSome_none, Bool.false_eq_true, false_iff]
    rintro ⟨_, h⟩; exact h h2
  · simp only [Option.isSome_some, true_iff]
    exact ⟨by omega, h2⟩

/-- When `NewLog` succeeds the stored bounds are the ordered pair `(min a b, max a b)`. -/
theorem newLog_eq_some (a b : ℚ) (base : ℤ) (p : ℚ × ℚ) (h : newLog a b base = some p) :
    p = (min a b, max a b) := by
  rw [newLog_eq] at h
  split_ifs at h
  exact (Option.some.inj h).symm

example : newLog 100 1 10 = some (1, 100) := by decide +kernel
example : (newLog 100 1 10).isSome := (newLog_some_iff 100 1 10).2 (by norm_num)
example : newLog (-1) 100 10 = none ∧ newLog 1 100 1 = none ∧ newLog 0 5 10 = none := by
  decide +kernel

/-! ## L4: QQ on linear scales -/

/-- `QQ.Unmap ∘ QQ.Map = id` for unclamped non-degenerate linear source and destination:
`QQ.Map x = dst.Unmap (src.Map x)` and `QQ.Unmap y = src.Unmap (dst.Map y)`. -/
theorem qq_unmap_map (src dst : Lin) (hs : src.min ≠ src.max) (hsc : src.clampOn = false)
    (hd : dst.min ≠ dst.max) (hdc : dst.clampOn = false) (x : ℚ) :
    src.unmap (dst.map (dst.unmap (src.map x))) = x := by
  rw [map_unmap dst hd hdc, unmap_map src hs hsc]

/-- `QQ.Map ∘ QQ.Unmap = id` for unclamped non-degenerate linear source and destination. -/
theorem qq_map_unmap (src dst : Lin) (hs : src.min ≠ src.max) (hsc : src.clampOn = false)
    (hd : dst.min ≠ dst.max) (hdc : dst.clampOn = false) (y : ℚ) :
    dst.unmap (src.map (src.unmap (dst.map y))) = y := by
  rw [map_unmap src hs hsc, unmap_map dst hd hdc]

example : (Lin.mk 2 6 false).unmap ((Lin.mk 10 0 false).map
    ((Lin.mk 10 0 false).unmap ((Lin.mk 2 6 false).map 3))) = 3 :=
  qq_unmap_map (Lin.mk 2 6 false) (Lin.mk 10 0 false) (by decide) rfl (by decide) rfl 3
example : (Lin.mk 10 0 false).unmap ((Lin.mk 2 6 false).map 3) = 15 / 2 := by decide +kernel

/-! ## L5: real-valued Log scale -/

/-- The Log-scale map on a positive domain. -/
noncomputable def logMap (mn mx x : ℝ) : ℝ :=
  (Real.log x - Real.log mn) / (Real.log mx - Real.log mn)

/-- The Log-scale inverse map on a positive domain. -/
noncomputable def logUnmap (mn mx y : ℝ) : ℝ :=
  Real.exp (y * (Real.log mx - Real.log mn) + Real.log mn)

lemma log_sub_ne_zero {mn mx : ℝ} (h1 : 0 < mn) (h2 : 0 < mx) (h : mn ≠ mx) :
    Real.log mx - Real.log mn ≠ 0 := by
  intro e
  exact h (Real.log_injOn_pos (Set.mem_Ioi.2 h1) (Set.mem_Ioi.2 h2) (sub_eq_zero.1 e).symm)

/-- Log scale: `Map(min) = 0`. -/
theorem logMap_min (mn mx : ℝ) : logMap mn mx mn = 0 := by
  simp [logMap]

/-- Log scale: `Map(max) = 1`. -/
theorem logMap_max (mn mx : ℝ) (h1 : 0 < mn) (h2 : 0 < mx) (h : mn ≠ mx) : logMap mn mx mx = 1 :=
  div_self (log_sub_ne_zero h1 h2 h)

/-- Log scale: `Unmap (Map x) = x` for positive `x`. -/
theorem logUnmap_logMap (mn mx x : ℝ) (h1 : 0 < mn) (h2 : 0 < mx) (h : mn ≠ mx) (hx : 0 < x) :
    logUnmap mn mx (logMap mn mx x) = x := by
  unfold logUnmap logMap
  rw [div_mul_cancel₀ _ (log_sub_ne_zero h1 h2 h), sub_add_cancel, Real.exp_log hx]

/-- Log scale: `Map (Unmap y) = y`. -/
theorem logMap_logUnmap (mn mx y : ℝ) (h1 : 0 < mn) (h2 : 0 < mx) (h : mn ≠ mx) :
    logMap mn mx (logUnmap mn mx y) = y := by
  unfold logUnmap logMap
  rw [Real.log_exp, add_sub_cancel_right, mul_div_cancel_right₀ _ (log_sub_ne_zero h1 h2 h)]

/-- `Unmap` always lands in the positive reals. -/
theorem logUnmap_pos (mn mx y : ℝ) : 0 < logUnmap mn mx y := Real.exp_pos _

/-- Log scale map is affine in `log x`. -/
theorem logMap_affine (mn mx x : ℝ) :
    logMap mn mx x =
      Real.log x / (Real.log mx - Real.log mn) - Real.log mn / (Real.log mx - Real.log mn) := by
  unfold logMap; rw [sub_div]

lemma logMap_lt_iff_of_lt (mn mx x y : ℝ) (h1 : 0 < mn) (h : mn < mx) (hx : 0 < x) (hy : 0 < y) :
    logMap mn mx x < logMap mn mx y ↔ x < y := by
  unfold logMap
  have : 0 < Real.log mx - Real.log mn := sub_pos.2 (Real.log_lt_log h1 h)
  rw [div_lt_div_iff_of_pos_right this, sub_lt_sub_iff_right, Real.log_lt_log_iff hx hy]

lemma logMap_lt_iff_of_gt (mn mx x y : ℝ) (h2 : 0 < mx) (h : mx < mn) (hx : 0 < x) (hy : 0 < y) :
    logMap mn mx x < logMap mn mx y ↔ y < x := by
  unfold logMap
  have : Real.log mx - Real.log mn < 0 := sub_neg.2 (Real.log_lt_log h2 h)
  rw [div_lt_div_right_of_neg this, sub_lt_sub_iff_right, Real.log_lt_log_iff hy hx]

/-- The Log-scale map is strictly increasing on the positive reals iff `mn < mx`. -/
theorem logMap_strictMonoOn_iff (mn mx : ℝ) (h1 : 0 < mn) (h2 : 0 < mx) (h : mn ≠ mx) :
    StrictMonoOn (logMap mn mx) (Set.Ioi 0) ↔ mn < mx := by
  constructor
  · intro hm
    rcases lt_or_gt_of_ne h with h' | h'
    · exact h'
    · have := hm (Set.mem_Ioi.2 h2) (Set.mem_Ioi.2 h1) h'
      rw [logMap_lt_iff_of_gt mn mx mx mn h2 h' h2 h1] at this
      exact absurd this (lt_asymm h')
  · intro h' x hx y hy hxy
    exact (logMap_lt_iff_of_lt mn mx x y h1 h' hx hy).2 hxy

/-- The Log-scale map is strictly decreasing on the positive reals iff `mx < mn`. -/
theorem logMap_strictAntiOn_iff (mn mx : ℝ) (h1 : 0 < mn) (h2 : 0 < mx) (h : mn ≠ mx) :
    StrictAntiOn (logMap mn mx) (Set.Ioi 0) ↔ mx < mn := by
  constructor
  · intro hm
    rcases lt_or_gt_of_ne h with h' | h'
    · have := hm (Set.mem_Ioi.2 h1) (Set.mem_Ioi.2 h2) h'
      rw [logMap_lt_iff_of_lt mn mx mx mn h1 h' h2 h1] at this
      exact absurd this (lt_asymm h')
    · exact h'
  · intro h' x hx y hy hxy
    exact (logMap_lt_iff_of_gt mn mx y x h2 h' hy hx).2 hxy

example : logMap 1 100 100 = 1 := logMap_max 1 100 (by norm_num) (by norm_num) (by norm_num)
example : logUnmap 1 100 (logMap 1 100 10) = 10 :=
  logUnmap_logMap 1 100 10 (by norm_num) (by norm_num) (by norm_num) (by norm_num)
example : logMap 1 100 (logUnmap 1 100 (1 / 2)) = 1 / 2 :=
  logMap_logUnmap 1 100 (1 / 2) (by norm_num) (by norm_num) (by norm_num)
example : StrictMonoOn (logMap 1 100) (Set.Ioi 0) :=
  (logMap_strictMonoOn_iff 1 100 (by norm_num) (by norm_num) (by norm_num)).2 (by norm_num)
example : StrictAntiOn (logMap 100 1) (Set.Ioi 0) :=
  (logMap_strictAntiOn_iff 100 1 (by norm_num) (by norm_num) (by norm_num)).2 (by norm_num)

/-- The folded Log-scale map for a negative domain `mn, mx < 0`. -/
noncomputable def logMapNeg (mn mx x : ℝ) : ℝ := 1 - logMap (-mx) (-mn) (-x)

/-- Its inverse. -/
noncomputable def logUnmapNeg (mn mx y : ℝ) : ℝ := -logUnmap (-mx) (-mn) (1 - y)

/-- Negative-domain Log scale: `Map(min) = 0`. -/
theorem logMapNeg_min (mn mx : ℝ) (h1 : mn < 0) (h2 : mx < 0) (h : mn ≠ mx) :
    logMapNeg mn mx mn = 0 := by
  unfold logMapNeg
  rw [logMap_max (-mx) (-mn) (by linarith) (by linarith) (by intro e; exact h (by linarith))]
  ring

/-- Negative-domain Log scale: `Map(max) = 1`. -/
theorem logMapNeg_max (mn mx : ℝ) : logMapNeg mn mx mx = 1 := by
  unfold logMapNeg
  rw [logMap_min]; ring

/-- Negative-domain Log scale: `Unmap (Map x) = x` for negative `x`. -/
theorem logUnmapNeg_logMapNeg (mn mx x : ℝ) (h1 : mn < 0) (h2 : mx < 0) (h : mn ≠ mx)
    (hx : x < 0) : logUnmapNeg mn mx (logMapNeg mn mx x) = x := by
  unfold logUnmapNeg logMapNeg
  rw [sub_sub_cancel, logUnmap_logMap (-mx) (-mn) (-x) (by linarith) (by linarith)
    (by intro e; exact h (by linarith)) (by linarith)]
  ring

/-- Negative-domain Log scale: `Map (Unmap y) = y`. -/
theorem logMapNeg_logUnmapNeg (mn mx y : ℝ) (h1 : mn < 0) (h2 : mx < 0) (h : mn ≠ mx) :
    logMapNeg mn mx (logUnmapNeg mn mx y) = y := by
  unfold logUnmapNeg logMapNeg
  rw [neg_neg, logMap_logUnmap (-mx) (-mn) (1 - y) (by linarith) (by linarith)
    (by intro e; exact h (by linarith))]
  ring

/-- `Unmap` on a negative domain always lands in the negative reals. -/
theorem logUnmapNeg_neg (mn mx y : ℝ) : logUnmapNeg mn mx y < 0 := by
  unfold logUnmapNeg
  have := logUnmap_pos (-mx) (-mn) (1 - y)
  linarith

/-- The folded negative-domain Log map is strictly increasing on the negative reals iff
`mn < mx`. -/
theorem logMapNeg_strictMonoOn_iff (mn mx : ℝ) (h1 : mn < 0) (h2 : mx < 0) (h : mn ≠ mx) :
    StrictMonoOn (logMapNeg mn mx) (Set.Iio 0) ↔ mn < mx := by
  have hne : -mx ≠ -mn := by intro e; exact h (by linarith)
  constructor
  · intro hm
    rcases lt_or_gt_of_ne h with h' | h'
    · exact h'
    · have := hm (Set.mem_Iio.2 h2) (Set.mem_Iio.2 h1) h'
      unfold logMapNeg at this
      have h3 : logMap (-mx) (-mn) (-mn) < logMap (-mx) (-mn) (-mx) := by linarith
      rw [logMap_lt_iff_of_gt (-mx) (-mn) (-mn) (-mx) (by linarith) (by linarith) (by linarith)
        (by linarith)] at h3
      linarith
  · intro h' x hx y hy hxy
    unfold logMapNeg
    have hx' : x < 0 := hx
    have hy' : y < 0 := hy
    have : logMap (-mx) (-mn) (-y) < logMap (-mx) (-mn) (-x) :=
      (logMap_lt_iff_of_lt (-mx) (-mn) (-y) (-x) (by linarith) (by linarith) (by linarith)
        (by linarith)).2 (by linarith)
    linarith

/-- The folded negative-domain Log map is strictly decreasing on the negative reals iff
`mx < mn`. -/
theorem logMapNeg_strictAntiOn_iff (mn mx : ℝ) (h1 : mn < 0) (h2 : mx < 0) (h : mn ≠ mx) :
    StrictAntiOn (logMapNeg mn mx) (Set.Iio 0) ↔ mx < mn := by
  constructor
  · intro hm
    rcases lt_or_gt_of_ne h with h' | h'
    · have := hm (Set.mem_Iio.2 h1) (Set.mem_Iio.2 h2) h'
      unfold logMapNeg at this
      have h3 : logMap (-mx) (-mn) (-mn) < logMap (-mx) (-mn) (-mx) := by linarith
      rw [logMap_lt_iff_of_lt (-mx) (-mn) (-mn) (-mx) (by linarith) (by linarith) (by linarith)
        (by linarith)] at h3
      linarith
    · exact h'
  · intro h' x hx y hy hxy
    unfold logMapNeg
    have hx' : x < 0 := hx
    have hy' : y < 0 := hy
    have : logMap (-mx) (-mn) (-x) < logMap (-mx) (-mn) (-y) :=
      (logMap_lt_iff_of_gt (-mx) (-mn) (-x) (-y) (by linarith) (by linarith) (by linarith)
        (by linarith)).2 (by linarith)
    linarith

/-- The folded negative-domain map is affine in `log (-x)`. -/
theorem logMapNeg_affine (mn mx x : ℝ) :
    logMapNeg mn mx x =
      1 + Real.log (-mx) / (Real.log (-mn) - Real.log (-mx)) -
        Real.log (-x) / (Real.log (-mn) - Real.log (-mx)) := by
  unfold logMapNeg; rw [logMap_affine]; ring

example : logMapNeg (-100) (-1) (-100) = 0 :=
  logMapNeg_min (-100) (-1) (by norm_num) (by norm_num) (by norm_num)
example : logUnmapNeg (-100) (-1) (logMapNeg (-100) (-1) (-10)) = -10 :=
  logUnmapNeg_logMapNeg (-100) (-1) (-10) (by norm_num) (by norm_num) (by norm_num) (by norm_num)
example : StrictMonoOn (logMapNeg (-100) (-1)) (Set.Iio 0) :=
  (logMapNeg_strictMonoOn_iff (-100) (-1) (by norm_num) (by norm_num) (by norm_num)).2
    (by norm_num)

end MV.Scale
