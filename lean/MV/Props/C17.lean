import Mathlib.Tactic
import MV.Model.Scale
/-!
# C17 — tick levels: `FindLevel` finds the least fitting level; linear tick arithmetic

All results are about the exact-rational executable model in `MV/Model/Scale.lean`.
-/
namespace MV.Scale

/-! ## T1: `findLevel = leastLevel` -/

/-- The effective level range used by `FindLevel`: `[-1000, 1000]` when both limits are `0`,
otherwise `[minL, maxL]`. -/
def effRange (minL maxL : Int) : Int × Int :=
  if minL == 0 && maxL == 0 then ((-1000 : Int), (1000 : Int)) else (minL, maxL)

lemma find_range_map_eq_some (p : Int → Bool) (lo : Int) (n : Nat) (l : Int) :
    (((List.range n).map fun (i : Nat) => lo + (i : Int)).find? p) = some l ↔
      lo ≤ l ∧ l < lo + n ∧ p l = true ∧ ∀ l', lo ≤ l' → l' < l → p l' = false := by
  rw [List.find?_map]
  simp only [Option.map_eq_some_iff, List.find?_range_eq_some, Function.comp, List.mem_range]
  constructor
  · rintro ⟨i, ⟨hp, hi, hj⟩, rfl⟩
    refine ⟨by omega, by omega, hp, ?_⟩
    intro l' h1 h2
    have := hj (l' - lo).toNat (by omega)
    have e : lo + ((l' - lo).toNat : Int) = l' := by omega
    rw [e] at this
    simpa using this
  · rintro ⟨h1, h2, hp, hj⟩
    refine ⟨(l - lo).toNat, ⟨?_, by omega, ?_⟩, by omega⟩
    · have e : lo + ((l - lo).toNat : Int) = l := by omega
      rw [e]; exact hp
    · intro j hj'
      have := hj (lo + j) (by omega) (by omega)
      simp [this]

/-- Characterisation of the specification `leastLevel`: it returns `some l` exactly when the
effective range `[lo, hi]` is non-empty, `Max ≥ 1`, `l` lies in the range, the count at `l` fits
(`count l ≤ Max`) and the count at every lower level of the range does not fit. -/
theorem leastLevel_spec (count : Int → Int) (mx minL maxL l : Int) :
    leastLevel count mx minL maxL = some l ↔
      (effRange minL maxL).1 ≤ (effRange minL maxL).2 ∧ 1 ≤ mx ∧
      (effRange minL maxL).1 ≤ l ∧ l ≤ (effRange minL maxL).2 ∧ count l ≤ mx ∧
      ∀ l', (effRange minL maxL).1 ≤ l' → l' < l → mx < count l' := by
  unfold leastLevel
  change (match effRange minL maxL with
    | (minL, maxL) => if minL > maxL ∨ mx < 1 then none
      else ((List.range (maxL - minL + 1).toNat).map fun (i : Nat) => minL + (i : Int)).find?
        fun l => count l ≤ mx) = some l ↔ _
  rcases effRange minL maxL with ⟨lo, hi⟩
  simp only
  split_ifs with h
  · simp only [reduceCtorEq, false_iff]
    rcases h with h | h <;> omega
  · push Not at h
    rw [find_range_map_eq_some]
    simp only [decide_eq_true_eq, decide_eq_false_iff_not, not_le]
    constructor
    · rintro ⟨h1, h2, h3, h4⟩
      exact ⟨h.1, h.2, h1, by omega, h3, h4⟩
    · rintro ⟨_, _, h1, h2, h3, h4⟩
      exact ⟨h1, by omega, h3, h4⟩

example : leastLevel (fun l => 10 - l) 3 2 20 = some 7 := by decide
example : ∀ l', (effRange 2 20).1 ≤ l' → l' < 7 → (3 : ℤ) < (fun l => 10 - l) l' :=
  ((leastLevel_spec (fun l => 10 - l) 3 2 20 7).1 (by decide)).2.2.2.2.2

lemma walkDown_spec (count : Int → Int) (mx minL : Int) :
    ∀ (f : Nat) (l : Int), minL ≤ l → l - minL ≤ f → count l ≤ mx →
      minL ≤ walkDown count mx minL f l ∧ walkDown count mx minL f l ≤ l ∧
      count (walkDown count mx minL f l) ≤ mx ∧
      (minL ≤ walkDown count mx minL f l - 1 → mx < count (walkDown count mx minL f l - 1)) := by
  intro f
  induction f with
  | zero =>
    intro l h1 h2 h3
    simp only [walkDown]
    refine ⟨h1, le_refl _, h3, ?_⟩
    intro h; simp at h2; omega
  | succ f ih =>
    intro l h1 h2 h3
    simp only [walkDown]
    split_ifs with h
    · obtain ⟨a, b, c, d⟩ := ih (l - 1) h.1 (by push_cast at h2; omega) h.2
      exact ⟨a, by omega, c, d⟩
    · refine ⟨h1, le_refl _, h3, ?_⟩
      intro h'
      by_contra hc
      exact h ⟨h', by omega⟩

lemma walkUp_spec (count : Int → Int) (mx maxL : Int) :
    ∀ (f : Nat) (l : Int), maxL - l + 1 ≤ f → ∀ r,
      (walkUp count mx maxL f l = some r ↔
        l ≤ r ∧ r ≤ maxL ∧ count r ≤ mx ∧ ∀ l', l ≤ l' → l' < r → mx < count l') := by
  intro f
  induction f with
  | zero =>
    intro l h r
    simp only [walkUp, reduceCtorEq, false_iff]
    simp at h
    omega
  | succ f ih =>
    intro l h r
    simp only [walkUp]
    split_ifs with h1 h2
    · simp only [reduceCtorEq, false_iff]; omega
    · rw [ih (l + 1) (by push_cast at h; omega) r]
      constructor
      · rintro ⟨a, b, c, d⟩
        refine ⟨by omega, b, c, ?_⟩
        intro l' h3 h4
        rcases eq_or_lt_of_le h3 with rfl | h5
        · exact h2
        · exact d l' (by omega) h4
      · rintro ⟨a, b, c, d⟩
        have : l ≠ r := by rintro rfl; omega
        exact ⟨by omega, b, c, fun l' h3 h4 => d l' (by omega) h4⟩
    · constructor
      · intro e
        have e' : l = r := by simpa using e
        subst e'
        exact ⟨le_refl _, by omega, by omega, fun l' a b => by omega⟩
      · rintro ⟨a, b, c, d⟩
        rcases eq_or_lt_of_le a with rfl | h5
        · rfl
        · have := d l (le_refl _) h5; omega

/-- **FindLevel is correct for every monotone ticker and every starting guess.**  If the tick
count is non-increasing in the level, `findLevel` (the fuel-based mirror of
`TickOptions.FindLevel`) returns exactly `leastLevel`: the lowest level of the effective range
whose count is at most `Max`, and `none` exactly when no such level exists (or `Max < 1`, or the
range is empty).  In particular the fuel `maxL - minL + 2` is always sufficient. -/
theorem findLevel_eq_leastLevel (count : Int → Int) (hmono : ∀ a b, a ≤ b → count b ≤ count a)
    (mx minL maxL guess : Int) :
    findLevel count mx minL maxL guess = leastLevel count mx minL maxL := by
  apply Option.ext
  intro r
  rw [leastLevel_spec]
  unfold findLevel
  change (match effRange minL maxL with
    | (minL, maxL) => if minL > maxL then none else if mx < 1 then none else
      let l := if guess < minL then minL else if guess > maxL then maxL else guess
      let fuel := (maxL - minL + 2).toNat
      if count l ≤ mx then some (walkDown count mx minL fuel l)
      else walkUp count mx maxL fuel (l + 1)) = some r ↔ _
  rcases effRange minL maxL with ⟨lo, hi⟩
  simp only
  by_cases h1 : lo > hi
  · rw [if_pos h1]; simp only [reduceCtorEq, false_iff]; omega
  rw [if_neg h1]
  by_cases h2 : mx < 1
  · rw [if_pos h2]; simp only [reduceCtorEq, false_iff]; omega
  rw [if_neg h2]
  generalize hl : (if guess < lo then lo else if guess > hi then hi else guess) = l
  have hl1 : lo ≤ l := by rw [← hl]; split_ifs <;> omega
  have hl2 : l ≤ hi := by rw [← hl]; split_ifs <;> omega
  by_cases h3 : count l ≤ mx
  on_goal 2 => rw [if_neg h3]
  on_goal 1 => rw [if_pos h3]
  · -- walk down
    obtain ⟨a, b, c, d⟩ := walkDown_spec count mx lo (hi - lo + 2).toNat l hl1 (by omega) h3
    set w := walkDown count mx lo (hi - lo + 2).toNat l
    simp only [Option.some.injEq]
    constructor
    · rintro rfl
      refine ⟨by omega, by omega, a, by omega, c, ?_⟩
      intro l' h4 h5
      have := d (by omega)
      have := hmono l' (w - 1) (by omega)
      omega
    · rintro ⟨_, _, h4, h5, h6, h7⟩
      by_contra hne
      rcases lt_or_gt_of_ne hne with h | h
      · have := h7 w a h
        omega
      · have := d (by omega)
        have := hmono r (w - 1) (by omega)
        omega
  · -- walk up
    rw [walkUp_spec count mx hi (hi - lo + 2).toNat (l + 1) (by omega) r]
    constructor
    · rintro ⟨a, b, c, d⟩
      refine ⟨by omega, by omega, by omega, b, c, ?_⟩
      intro l' h4 h5
      by_cases h6 : l + 1 ≤ l'
      · exact d l' h6 h5
      · have := hmono l' l (by omega)
        omega
    · rintro ⟨_, _, h4, h5, h6, h7⟩
      have : l + 1 ≤ r := by
        by_contra hc
        have := hmono r l (by omega)
        omega
      exact ⟨this, h5, h6, fun l' a b => h7 l' (by omega) b⟩

example : findLevel (fun l => 10 - l) 3 2 20 15 = some 7 := by
  rw [findLevel_eq_leastLevel _ (by intro a b h; omega)]; decide

/-- The monotonicity hypothesis cannot be dropped: for a non-monotone count, `FindLevel` started
at guess 5 stops at level 5 although level 3 also fits and is lower. -/
example : findLevel (fun l => if l = 5 ∨ l = 3 then 0 else 10) 3 2 20 5 = some 5 ∧
    leastLevel (fun l => if l = 5 ∨ l = 3 then 0 else 10) 3 2 20 = some 3 := by decide

/-- The specification fails (`none`) exactly when the effective range is empty, or `Max < 1`, or
no level of the range has a fitting count. -/
theorem leastLevel_eq_none_iff (count : Int → Int) (mx minL maxL : Int) :
    leastLevel count mx minL maxL = none ↔
      (effRange minL maxL).2 < (effRange minL maxL).1 ∨ mx < 1 ∨
      ∀ l, (effRange minL maxL).1 ≤ l → l ≤ (effRange minL maxL).2 → mx < count l := by
  unfold leastLevel
  change (match effRange minL maxL with
    | (minL, maxL) => if minL > maxL ∨ mx < 1 then none
      else ((List.range (maxL - minL + 1).toNat).map fun (i : Nat) => minL + (i : Int)).find?
        fun l => count l ≤ mx) = none ↔ _
  rcases effRange minL maxL with ⟨lo, hi⟩
  simp only
  split_ifs with h
  · simp only [true_iff]
    rcases h with h | h
    · exact Or.inl h
    · exact Or.inr (Or.inl h)
  · push Not at h
    rw [List.find?_eq_none]
    simp only [List.mem_map, List.mem_range, decide_eq_true_eq, not_le]
    constructor
    · intro H
      refine Or.inr (Or.inr fun l h1 h2 => H l ⟨(l - lo).toNat, by omega, by omega⟩)
    · rintro (H | H | H)
      · omega
      · omega
      · rintro l ⟨i, hi', rfl⟩
        exact H _ (by omega) (by omega)

/-- `FindLevel` on a monotone ticker returns `some l` exactly for the least fitting level. -/
theorem findLevel_eq_some_iff (count : Int → Int) (hmono : ∀ a b, a ≤ b → count b ≤ count a)
    (mx minL maxL guess l : Int) :
    findLevel count mx minL maxL guess = some l ↔
      (effRange minL maxL).1 ≤ (effRange minL maxL).2 ∧ 1 ≤ mx ∧
      (effRange minL maxL).1 ≤ l ∧ l ≤ (effRange minL maxL).2 ∧ count l ≤ mx ∧
      ∀ l', (effRange minL maxL).1 ≤ l' → l' < l → mx < count l' := by
  rw [findLevel_eq_leastLevel count hmono, leastLevel_spec]

/-- `FindLevel` on a monotone ticker fails exactly when `MinLevel > MaxLevel`, or `Max < 1`, or no
level in range fits. -/
theorem findLevel_eq_none_iff (count : Int → Int) (hmono : ∀ a b, a ≤ b → count b ≤ count a)
    (mx minL maxL guess : Int) :
    findLevel count mx minL maxL guess = none ↔
      (effRange minL maxL).2 < (effRange minL maxL).1 ∨ mx < 1 ∨
      ∀ l, (effRange minL maxL).1 ≤ l → l ≤ (effRange minL maxL).2 → mx < count l := by
  rw [findLevel_eq_leastLevel count hmono, leastLevel_eq_none_iff]

example : findLevel (fun l => 10 - l) 3 2 5 4 = none := by
  rw [findLevel_eq_none_iff _ (by intro a b h; omega)]
  refine Or.inr (Or.inr ?_)
  intro l h1 h2
  simp only [effRange] at h1 h2
  simp at h1 h2
  omega

example : effRange 0 0 = (-1000, 1000) ∧ effRange 2 20 = (2, 20) := by decide
example : leastLevel (fun l => 10 - l) 3 2 5 = none :=
  (leastLevel_eq_none_iff _ 3 2 5).2 (Or.inr (Or.inr (by
    intro l h1 h2
    simp only [effRange] at h1 h2
    simp at h1 h2
    omega)))
example : findLevel (fun l => 10 - l) 3 2 20 (-4) = some 7 :=
  (findLevel_eq_some_iff _ (by intro a b h; omega) 3 2 20 (-4) 7).2
    ((leastLevel_spec (fun l => 10 - l) 3 2 20 7).1 (by decide))

/-! ## T2: spacing and monotonicity of linear tick counts -/

lemma foldl_mul_const (b : ℚ) (n : ℕ) : (List.range n).foldl (fun a _ => a * b) 1 = b ^ n := by
  induction n with
  | zero => simp
  | succ n ih => rw [List.range_succ, List.foldl_append, ih]; simp [pow_succ]

lemma ratPowInt_eq (b : ℚ) (e : ℤ) : ratPowInt b e = b ^ e := by
  unfold ratPowInt
  split_ifs with h
  · rw [foldl_mul_const]
    conv_rhs => rw [← Int.toNat_of_nonneg h]
    rw [zpow_natCast]
  · rw [foldl_mul_const]
    have : e = -(((-e).toNat : ℕ) : ℤ) := by omega
    conv_rhs => rw [this]
    rw [zpow_neg, zpow_natCast, one_div]

lemma ebase_pos (base : ℕ) : (0 : ℚ) < (ebase base : ℚ) := by
  unfold ebase
  split_ifs with h
  · norm_num
  · have : base ≠ 0 := by simpa using h
    exact_mod_cast Nat.pos_of_ne_zero this

lemma spacing_eq (base : ℕ) (l : ℤ) :
    spacing base l = (ebase base : ℚ) ^ (l / 2) * (if l % 2 ≠ 0 ∧ base = 0 then 5 else 1) := by
  unfold spacing
  simp only [ratPowInt_eq, Int.fdiv_eq_ediv_of_nonneg l (by norm_num : (0:ℤ) ≤ 2)]
  congr 1
  by_cases h1 : l % 2 = 0 <;> by_cases h2 : base = 0 <;> simp [h1, h2]

/-- Tick spacings are strictly positive at every level, for every base. -/
theorem spacing_pos (base : ℕ) (l : ℤ) : 0 < spacing base l := by
  rw [spacing_eq]
  apply mul_pos (zpow_pos (ebase_pos base) _)
  split_ifs <;> norm_num

example : spacing 0 3 = 50 := by decide +kernel
example : 0 < spacing 0 (-7) := spacing_pos 0 (-7)

/-- The spacing of the next coarser level is a positive integer multiple (1, 2, 5 or `base`) of
the spacing of the current level.  (Holds for every base, including `base = 1`.) -/
theorem spacing_succ_dvd (base : ℕ) (l : ℤ) :
    ∃ k : ℕ, 0 < k ∧ spacing base (l + 1) = k * spacing base l := by
  rw [spacing_eq, spacing_eq]
  have hpos := ebase_pos base
  rcases Int.emod_two_eq_zero_or_one l with h | h
  · -- l even: exponent unchanged
    have e1 : (l + 1) / 2 = l / 2 := by omega
    have e2 : (l + 1) % 2 ≠ 0 := by omega
    rw [e1]
    by_cases hb : base = 0
    · refine ⟨5, by norm_num, ?_⟩
      simp [h, e2, hb]; ring
    · refine ⟨1, by norm_num, ?_⟩
      simp [hb]
  · have e1 : (l + 1) / 2 = l / 2 + 1 := by omega
    have e2 : (l + 1) % 2 = 0 := by omega
    have e3 : l % 2 ≠ 0 := by omega
    rw [e1, zpow_add_one₀ hpos.ne']
    by_cases hb : base = 0
    · refine ⟨2, by norm_num, ?_⟩
      simp [e2, e3, hb, ebase]; ring
    · refine ⟨base, Nat.pos_of_ne_zero hb, ?_⟩
      simp [e2, hb, ebase]; ring

example : ∃ k : ℕ, 0 < k ∧ spacing 0 (-3 + 1) = k * spacing 0 (-3) := spacing_succ_dvd 0 (-3)

lemma floor_ceil_step_in (u v : ℚ) (k : ℕ) (hk : 0 < k) (huv : u ≤ v) :
    (v / k).floor - (u / k).ceil ≤ v.floor - u.ceil := by
  have hkq : (0:ℚ) < k := by exact_mod_cast hk
  have h1 : u.ceil ≤ (k:ℤ) * (u/k).ceil := by
    rw [Rat.ceil_le_iff]
    have := Rat.le_ceil (x := u / k)
    rw [div_le_iff₀ hkq] at this
    push_cast; linarith
  have h2 : (k:ℤ) * (v/k).floor ≤ v.floor := by
    rw [Rat.le_floor_iff]
    have := Rat.floor_le (v / k)
    rw [le_div_iff₀ hkq] at this
    push_cast; linarith
  have h3 : u.ceil - 1 ≤ v.floor := by
    have a := Rat.ceil_lt (x := u)
    have b := Rat.lt_floor_add_one v
    have : ((u.ceil : ℤ) : ℚ) < ((v.floor + 2 : ℤ) : ℚ) := by
      push_cast; push_cast at b; linarith
    have := Int.cast_lt.mp this
    omega
  have hk1 : (1:ℤ) ≤ k := by exact_mod_cast hk
  by_cases h : (u/k).ceil ≤ (v/k).floor
  · have : (v/k).floor - (u/k).ceil ≤ (k:ℤ) * ((v/k).floor - (u/k).ceil) :=
      le_mul_of_one_le_left (by omega) hk1
    nlinarith
  · omega

lemma floor_ceil_step_out (u v : ℚ) (k : ℕ) (hk : 0 < k) (huv : u < v) :
    (v / k).ceil - (u / k).floor ≤ v.ceil - u.floor := by
  have hkq : (0:ℚ) < k := by exact_mod_cast hk
  have h1 : (k:ℤ) * ((v/k).ceil - 1) < v.ceil := by
    rw [Rat.lt_ceil_iff]
    have : (((v/k).ceil - 1 : ℤ) : ℚ) < v / k := by
      rw [← Rat.lt_ceil_iff]; omega
    rw [lt_div_iff₀ hkq] at this
    push_cast; push_cast at this; linarith
  have h2 : u.floor < (k:ℤ) * ((u/k).floor + 1) := by
    rw [Rat.floor_lt_iff]
    have := Rat.lt_floor_add_one (u / k)
    rw [div_lt_iff₀ hkq] at this
    push_cast; push_cast at this; linarith
  have h3 : u.floor + 1 ≤ v.ceil := by
    have a := Rat.floor_le u
    have b := Rat.le_ceil (x := v)
    have : ((u.floor : ℤ) : ℚ) < ((v.ceil : ℤ) : ℚ) := by linarith
    have := Int.cast_lt.mp this
    omega
  have hk1 : (1:ℤ) ≤ k := by exact_mod_cast hk
  by_cases h : 0 ≤ (v/k).ceil - (u/k).floor - 2
  · have : (v/k).ceil - (u/k).floor - 2 ≤ (k:ℤ) * ((v/k).ceil - (u/k).floor - 2) :=
      le_mul_of_one_le_left h hk1
    nlinarith
  · omega

lemma linCount_false (mn mx : ℚ) (base : ℕ) (sf : ℚ) (l : ℤ) :
    linCount mn mx base false sf l =
      ((mx + (mx - mn) * sf) / spacing base l).floor -
        ((mn - (mx - mn) * sf) / spacing base l).ceil + 1 := rfl

lemma linCount_true (mn mx : ℚ) (base : ℕ) (sf : ℚ) (l : ℤ) :
    linCount mn mx base true sf l =
      ((mx - (mx - mn) * sf) / spacing base l).ceil -
        ((mn + (mx - mn) * sf) / spacing base l).floor + 1 := rfl

lemma linCount_succ_le_in (mn mx : ℚ) (h : mn ≤ mx) (base : ℕ) (sf : ℚ) (hsf : 0 ≤ sf) (l : ℤ) :
    linCount mn mx base false sf (l + 1) ≤ linCount mn mx base false sf l := by
  obtain ⟨k, hk, e⟩ := spacing_succ_dvd base l
  have hs := spacing_pos base l
  have hsl : 0 ≤ (mx - mn) * sf := mul_nonneg (sub_nonneg.2 h) hsf
  rw [linCount_false, linCount_false, e, div_mul_eq_div_div_swap, div_mul_eq_div_div_swap]
  have := floor_ceil_step_in ((mn - (mx - mn) * sf) / spacing base l)
    ((mx + (mx - mn) * sf) / spacing base l) k hk
    (div_le_div_of_nonneg_right (by linarith) hs.le)
  omega

lemma linCount_succ_le_out (mn mx : ℚ) (base : ℕ) (sf : ℚ)
    (hlt : mn + (mx - mn) * sf < mx - (mx - mn) * sf) (l : ℤ) :
    linCount mn mx base true sf (l + 1) ≤ linCount mn mx base true sf l := by
  obtain ⟨k, hk, e⟩ := spacing_succ_dvd base l
  have hs := spacing_pos base l
  rw [linCount_true, linCount_true, e, div_mul_eq_div_div_swap, div_mul_eq_div_div_swap]
  have := floor_ceil_step_out ((mn + (mx - mn) * sf) / spacing base l)
    ((mx - (mx - mn) * sf) / spacing base l) k hk
    (div_lt_div_of_pos_right hlt hs)
  omega

/-- **Linear tick counts are non-increasing in the level** (ticks inside the domain,
`roundOut = false`): for `mn ≤ mx` and a non-negative slack factor, a coarser level never has more
ticks, because every multiple of the coarser spacing is a multiple of the finer one.  Holds for
every base (the hypothesis `base ≠ 1` of the informal statement is not needed). -/
theorem linCount_antitone (mn mx : ℚ) (h : mn ≤ mx) (base : ℕ) (sf : ℚ) (hsf : 0 ≤ sf)
    (a b : ℤ) (hab : a ≤ b) :
    linCount mn mx base false sf b ≤ linCount mn mx base false sf a :=
  antitone_int_of_succ_le (linCount_succ_le_in mn mx h base sf hsf) hab

example : linCount 3 47 0 false slackFactor 2 ≤ linCount 3 47 0 false slackFactor (-1) :=
  linCount_antitone 3 47 (by norm_num) 0 slackFactor (by norm_num [slackFactor]) (-1) 2 (by norm_num)

example : linCount 3 47 0 false slackFactor 2 = 4 ∧ linCount 3 47 0 false slackFactor (-1) = 89 := by
  decide +kernel

/-- Round-out counts (`roundOut = true`, used by `Nice`) are also non-increasing in the level,
**provided the slack-shrunk domain is a proper interval**, i.e. `mn + slack < mx - slack`
(equivalently `mn < mx` and `sf < 1/2`).  The requested statement with only `mn ≤ mx`, `0 ≤ sf` is
FALSE for `roundOut = true`: for the degenerate domain `mn = mx = 25` (base 0, `sf = 0`) level 1
(spacing 5) has count 1 but level 2 (spacing 10) has count 2 — see the `example` below; the same
happens for `mn = 0, mx = 50, sf = 1/2`. -/
theorem linCount_antitone_roundOut_partial (mn mx : ℚ) (base : ℕ) (sf : ℚ)
    (hlt : mn + (mx - mn) * sf < mx - (mx - mn) * sf) (a b : ℤ) (hab : a ≤ b) :
    linCount mn mx base true sf b ≤ linCount mn mx base true sf a :=
  antitone_int_of_succ_le (linCount_succ_le_out mn mx base sf hlt) hab

/-- Convenience form of the round-out monotonicity: `mn < mx`, `0 ≤ sf < 1/2`. -/
theorem linCount_antitone_roundOut (mn mx : ℚ) (h : mn < mx) (base : ℕ) (sf : ℚ) (_hsf : 0 ≤ sf)
    (hsf2 : sf < 1 / 2) (a b : ℤ) (hab : a ≤ b) :
    linCount mn mx base true sf b ≤ linCount mn mx base true sf a := by
  apply linCount_antitone_roundOut_partial _ _ _ _ _ a b hab
  have : (mx - mn) * sf < (mx - mn) * (1 / 2) := mul_lt_mul_of_pos_left hsf2 (sub_pos.2 h)
  linarith

example : linCount 3 47 0 true slackFactor 3 ≤ linCount 3 47 0 true slackFactor 0 :=
  linCount_antitone_roundOut 3 47 (by norm_num) 0 slackFactor (by norm_num [slackFactor])
    (by norm_num [slackFactor]) 0 3 (by norm_num)

/-- Counterexample: round-out counts are NOT monotone on a degenerate domain. -/
example : ¬ (linCount 25 25 0 true 0 2 ≤ linCount 25 25 0 true 0 1) := by decide +kernel
/-- Counterexample with `mn < mx` but slack factor `1/2`. -/
example : ¬ (linCount 0 50 0 true (1/2) 2 ≤ linCount 0 50 0 true (1/2) 1) := by decide +kernel

/-- Both variants of the count, as one statement over `roundOut : Bool`, for a proper domain and a
small slack factor. -/
theorem linCount_antitone_bool (mn mx : ℚ) (h : mn < mx) (base : ℕ) (ro : Bool) (sf : ℚ)
    (hsf : 0 ≤ sf) (hsf2 : sf < 1 / 2) (a b : ℤ) (hab : a ≤ b) :
    linCount mn mx base ro sf b ≤ linCount mn mx base ro sf a := by
  cases ro
  · exact linCount_antitone mn mx h.le base sf hsf a b hab
  · exact linCount_antitone_roundOut mn mx h base sf hsf hsf2 a b hab

example : linCount 3 47 0 true slackFactor 3 ≤ linCount 3 47 0 true slackFactor 0 :=
  linCount_antitone_bool 3 47 (by norm_num) 0 true slackFactor (by norm_num [slackFactor])
    (by norm_num [slackFactor]) 0 3 (by norm_num)

/-! ## T3: the ticks at a level -/

lemma linTicksAt_eq (mn mx : ℚ) (base : ℕ) (l : ℤ) (sf : ℚ) :
    linTicksAt mn mx base l sf =
      (List.range (((mx + (mx - mn) * sf) / spacing base l).floor -
        ((mn - (mx - mn) * sf) / spacing base l).ceil + 1).toNat).map
        fun (i : ℕ) => ((((mn - (mx - mn) * sf) / spacing base l).ceil + (i : ℤ) : ℤ) : ℚ) *
          spacing base l := rfl

/-- `CountTicks(l) = len(TicksAtLevel(l))`. -/
theorem linTicksAt_length (mn mx : ℚ) (base : ℕ) (l : ℤ) (sf : ℚ) :
    (linTicksAt mn mx base l sf).length = (linCount mn mx base false sf l).toNat := by
  rw [linTicksAt_eq, linCount_false]; simp

example : (linTicksAt 3 47 0 2 slackFactor).length = 4 := by
  rw [linTicksAt_length]; decide +kernel

/-- The ticks at a level are strictly ascending. -/
theorem linTicksAt_sorted (mn mx : ℚ) (base : ℕ) (l : ℤ) (sf : ℚ) :
    (linTicksAt mn mx base l sf).Pairwise (· < ·) := by
  rw [linTicksAt_eq]
  apply List.Pairwise.map _ _ List.pairwise_lt_range
  intro i j hij
  apply mul_lt_mul_of_pos_right _ (spacing_pos base l)
  exact_mod_cast (by omega : ((mn - (mx - mn) * sf) / spacing base l).ceil + (i : ℤ) <
    ((mn - (mx - mn) * sf) / spacing base l).ceil + (j : ℤ))

example : (linTicksAt 3 47 0 2 slackFactor).Pairwise (· < ·) := linTicksAt_sorted _ _ _ _ _
example : linTicksAt 3 47 0 2 slackFactor = [10, 20, 30, 40] := by decide +kernel

/-- Exact membership: the ticks at level `l` are precisely the integer multiples of the spacing
that lie in the slack-extended domain `[mn - slack, mx + slack]`. -/
theorem linTicksAt_mem_iff (mn mx : ℚ) (base : ℕ) (l : ℤ) (sf t : ℚ) :
    t ∈ linTicksAt mn mx base l sf ↔
      ∃ k : ℤ, t = k * spacing base l ∧ mn - (mx - mn) * sf ≤ t ∧ t ≤ mx + (mx - mn) * sf := by
  have hs := spacing_pos base l
  rw [linTicksAt_eq]
  simp only [List.mem_map, List.mem_range]
  constructor
  · rintro ⟨i, hi, rfl⟩
    refine ⟨_, rfl, ?_, ?_⟩
    · rw [← div_le_iff₀ hs, ← Rat.ceil_le_iff]; omega
    · rw [← le_div_iff₀ hs, ← Rat.le_floor_iff]; omega
  · rintro ⟨k, rfl, h1, h2⟩
    rw [← div_le_iff₀ hs, ← Rat.ceil_le_iff] at h1
    rw [← le_div_iff₀ hs, ← Rat.le_floor_iff] at h2
    refine ⟨(k - ((mn - (mx - mn) * sf) / spacing base l).ceil).toNat, by omega, ?_⟩
    congr 2
    omega

/-- Every tick is a "nice" value (an integer multiple of the level's spacing) inside the
slack-extended domain. -/
theorem linTicksAt_mem (mn mx : ℚ) (base : ℕ) (l : ℤ) (sf t : ℚ)
    (ht : t ∈ linTicksAt mn mx base l sf) :
    ∃ k : ℤ, t = k * spacing base l ∧ mn - (mx - mn) * sf ≤ t ∧ t ≤ mx + (mx - mn) * sf :=
  (linTicksAt_mem_iff mn mx base l sf t).1 ht

example : ∃ k : ℤ, (30 : ℚ) = k * spacing 0 2 ∧ 3 - (47 - 3) * slackFactor ≤ (30 : ℚ) ∧
    (30 : ℚ) ≤ 47 + (47 - 3) * slackFactor :=
  linTicksAt_mem 3 47 0 2 slackFactor 30 (by decide +kernel)

/-- Major ticks are minor ticks: every tick of level `l` is also a tick of level `l - 1`. -/
theorem linTicks_major_subset_minor (mn mx : ℚ) (base : ℕ) (l : ℤ) (sf t : ℚ)
    (ht : t ∈ linTicksAt mn mx base l sf) : t ∈ linTicksAt mn mx base (l - 1) sf := by
  rw [linTicksAt_mem_iff] at ht ⊢
  obtain ⟨k, rfl, h1, h2⟩ := ht
  obtain ⟨m, _, e⟩ := spacing_succ_dvd base (l - 1)
  rw [sub_add_cancel] at e
  refine ⟨k * m, ?_, h1, h2⟩
  rw [e]; push_cast; ring

example : (30 : ℚ) ∈ linTicksAt 3 47 0 1 slackFactor :=
  linTicks_major_subset_minor 3 47 0 2 slackFactor 30 (by decide +kernel)

/-! ## T4: `Linear.Ticks` -/

/-- If `Linear.Ticks` succeeds with level `l`, then the major ticks are the ticks of level `l`, the
minor ticks those of level `l - 1`, there are at most `maxT` major ticks, and `l` is the finest
(lowest) level of the effective level range that fits: every lower level in range has more than
`maxT` ticks. -/
theorem linTicks_count_le (mn mx : ℚ) (h : mn ≤ mx) (base : ℕ) (maxT minL maxL : ℤ) (sf : ℚ)
    (hsf : 0 ≤ sf) (l : ℤ) (major minor : List ℚ)
    (hT : linTicks mn mx base maxT minL maxL sf = some (l, major, minor)) :
    major = linTicksAt mn mx base l sf ∧ minor = linTicksAt mn mx base (l - 1) sf ∧
    (major.length : ℤ) ≤ maxT ∧
    (effRange minL maxL).1 ≤ l ∧ l ≤ (effRange minL maxL).2 ∧
    ∀ l', (effRange minL maxL).1 ≤ l' → l' < l →
      maxT < ((linTicksAt mn mx base l' sf).length : ℤ) := by
  unfold linTicks at hT
  rw [findLevel_eq_leastLevel _ (linCount_antitone mn mx h base sf hsf)] at hT
  cases hL : leastLevel (linCount mn mx base false sf) maxT minL maxL with
  | none => rw [hL] at hT; simp at hT
  | some l0 =>
    rw [hL] at hT
    simp only [Option.some.injEq, Prod.mk.injEq] at hT
    obtain ⟨rfl, rfl, rfl⟩ := hT
    rw [leastLevel_spec] at hL
    obtain ⟨_, h1, h2, h3, h4, h5⟩ := hL
    refine ⟨rfl, rfl, ?_, h2, h3, ?_⟩
    · rw [linTicksAt_length]; omega
    · intro l' a b
      have := h5 l' a b
      rw [linTicksAt_length]; omega

example : linTicks 3 47 0 5 0 0 slackFactor = some (2, [10, 20, 30, 40],
    [5, 10, 15, 20, 25, 30, 35, 40, 45]) := by decide +kernel
example : ((([10, 20, 30, 40] : List ℚ).length : ℤ) ≤ 5) ∧
    (5 : ℤ) < ((linTicksAt 3 47 0 1 slackFactor).length : ℤ) :=
  let h := linTicks_count_le 3 47 (by norm_num) 0 5 0 0 slackFactor (by norm_num [slackFactor]) 2
    [10, 20, 30, 40] [5, 10, 15, 20, 25, 30, 35, 40, 45] (by decide +kernel)
  ⟨h.2.2.1, h.2.2.2.2.2 1 (by decide) (by decide)⟩

/-! ## T5: `Linear.Nice` -/

/-- `Nice` never shrinks the domain beyond the slack, its new bounds are integer multiples of the
chosen level's spacing, and it extends the domain by less than one spacing at each end. -/
theorem linNice_covers (mn mx : ℚ) (h : mn ≤ mx) (base : ℕ) (maxT minL maxL : ℤ) (sf : ℚ)
    (hsf : 0 ≤ sf) (l : ℤ) (a b : ℚ)
    (hN : linNice mn mx base maxT minL maxL sf = some (l, a, b)) :
    a ≤ mn + (mx - mn) * sf ∧ mx - (mx - mn) * sf ≤ b ∧
    (∃ ka : ℤ, a = ka * spacing base l) ∧ (∃ kb : ℤ, b = kb * spacing base l) ∧
    mn - spacing base l < a ∧ b < mx + spacing base l := by
  unfold linNice at hN
  cases hL : findLevel (linCount mn mx base true sf) maxT minL maxL 0 with
  | none => rw [hL] at hN; simp at hN
  | some l0 =>
    rw [hL] at hN
    have hs := spacing_pos base l
    have hsl : 0 ≤ (mx - mn) * sf := mul_nonneg (sub_nonneg.2 h) hsf
    change some (l0, (((mn + (mx - mn) * sf) / spacing base l0).floor : ℚ) * spacing base l0,
      (((mx - (mx - mn) * sf) / spacing base l0).ceil : ℚ) * spacing base l0) = _ at hN
    simp only [Option.some.injEq, Prod.mk.injEq] at hN
    obtain ⟨rfl, rfl, rfl⟩ := hN
    refine ⟨?_, ?_, ⟨_, rfl⟩, ⟨_, rfl⟩, ?_, ?_⟩
    · rw [← le_div_iff₀ hs]; exact Rat.floor_le _
    · rw [← div_le_iff₀ hs]; exact Rat.le_ceil
    · have := Rat.lt_floor_add_one ((mn + (mx - mn) * sf) / spacing base l0)
      rw [div_lt_iff₀ hs] at this
      push_cast at this
      linarith
    · have := Rat.ceil_lt (x := (mx - (mx - mn) * sf) / spacing base l0)
      rw [← sub_lt_iff_lt_add, lt_div_iff₀ hs] at this
      linarith

example : linNice 3 47 0 5 0 0 slackFactor = some (3, 0, 50) := by decide +kernel
example : (0 : ℚ) ≤ 3 + (47 - 3) * slackFactor ∧ 47 - (47 - 3) * slackFactor ≤ (50 : ℚ) ∧
    3 - spacing 0 3 < (0 : ℚ) ∧ (50 : ℚ) < 47 + spacing 0 3 :=
  let h := linNice_covers 3 47 (by norm_num) 0 5 0 0 slackFactor (by norm_num [slackFactor]) 3 0 50
    (by decide +kernel)
  ⟨h.1, h.2.1, h.2.2.2.2.1, h.2.2.2.2.2⟩

/-- For a proper domain and slack factor below `1/2`, the level chosen by `Nice` is the lowest
level of the effective range whose round-out count is at most `maxT`. -/
theorem linNice_level (mn mx : ℚ) (h : mn < mx) (base : ℕ) (maxT minL maxL : ℤ) (sf : ℚ)
    (hsf : 0 ≤ sf) (hsf2 : sf < 1 / 2) (l : ℤ) (a b : ℚ)
    (hN : linNice mn mx base maxT minL maxL sf = some (l, a, b)) :
    linCount mn mx base true sf l ≤ maxT ∧
    (effRange minL maxL).1 ≤ l ∧ l ≤ (effRange minL maxL).2 ∧
    ∀ l', (effRange minL maxL).1 ≤ l' → l' < l → maxT < linCount mn mx base true sf l' := by
  unfold linNice at hN
  cases hL : findLevel (linCount mn mx base true sf) maxT minL maxL 0 with
  | none => rw [hL] at hN; simp at hN
  | some l0 =>
    rw [hL] at hN
    have e : l0 = l := by
      have := congrArg (fun o : Option (ℤ × ℚ × ℚ) => o.map Prod.fst) hN
      simpa using this
    subst e
    rw [findLevel_eq_some_iff _ (linCount_antitone_roundOut mn mx h base sf hsf hsf2)] at hL
    exact ⟨hL.2.2.2.2.1, hL.2.2.1, hL.2.2.2.1, hL.2.2.2.2.2⟩

example : linCount 3 47 0 true slackFactor 3 ≤ 5 ∧ (5 : ℤ) < linCount 3 47 0 true slackFactor 2 :=
  let h := linNice_level 3 47 (by norm_num) 0 5 0 0 slackFactor (by norm_num [slackFactor])
    (by norm_num [slackFactor]) 3 0 50 (by decide +kernel)
  ⟨h.1, h.2.2.2 2 (by decide) (by decide)⟩

end MV.Scale
