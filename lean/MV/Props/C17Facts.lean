import MV.Props.FactsLib
/-! Source facts the C17 model relies on (checked against the facts regenerated from /repo on every run). -/
namespace MV.Facts

def expectedC17 : List (String × String) := [("lits:scale.TickOptions.FindLevel", "0 0 0 0 0 1 1000 1000"), ("lits:scale.Linear.spacingAtLevel", "0 1 1 1e-10 2 2 2 5"), ("lits:scale.Log.spacingAtLevel", "1e-10 2"), ("lits:scale.Linear.ebase", "0 0 1 10")]

/-- the constants and literals the C17 model mirrors are still what the source says -/
theorem facts_C17 : holdsAll expectedC17 = true := by decide


/-- State that outlives a call, as extracted from the source on this run: the package-level
variables of the packages this property's code lives in, the functions (other than `init`) that
assign to them or call methods on them, and the fields of the property's struct types. The model is
a pure function of the arguments and of these fields; a new variable, writer or field is state the
model does not know of. The digest-valued `shape:` entry covers everything the call graph
(resolved by go/types) reaches from the functions declared in the property's anchor files: per
function, method (with receiver kind), package variable and constant, its numeric literals, its comparison operators, the
package variables it reads and its writes through parameters or the receiver (including in-place
`sort.*`/`copy`/`append`). The entries behind the digest are in `shape_expected.txt` and in a
comment of the generated file. -/
def stateC17 : List (String × String) := [("globals:scale", ""), ("globalwrites:scale", ""), ("fields:scale.Linear", "Min:float64 Max:float64 Base:int Clamp:bool"), ("fields:scale.Log", "private:struct{} Min:float64 Max:float64 Base:int Clamp:bool"), ("fields:scale.TickOptions", "Max:int MinLevel:int MaxLevel:int"), ("fields:scale.linearTicker", "s:*Linear roundOut:bool"), ("fields:scale.logTicker", "s:*Log roundOut:bool"), ("shape:C17", "n=33 fnv64a=ad14cc897f66fd2e")]

/-- the source has exactly the package-level variables, writers and struct fields the model accounts for -/
theorem state_C17 : holdsAll stateC17 = true := by decide +kernel

end MV.Facts
