import MV.Props.FactsLib
/-! Source facts the C17 model relies on (checked against the facts regenerated from /repo on every run). -/
namespace MV.Facts

def expectedC17 : List (String × String) := [("lits:scale.TickOptions.FindLevel", "0 0 0 0 0 1 1000 1000"), ("lits:scale.Linear.spacingAtLevel", "0 1 1 1e-10 2 2 2 5"), ("lits:scale.Log.spacingAtLevel", "1e-10 2"), ("lits:scale.Linear.ebase", "0 0 1 10")]

/-- the constants and literals the C17 model mirrors are still what the source says -/
theorem facts_C17 : holdsAll expectedC17 = true := by decide

end MV.Facts
