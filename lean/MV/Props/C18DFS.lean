import Mathlib.Tactic
import MV.Model.Graph
import MV.Props.C18Reach
/-!
# C18 — depth-first traversal (`visit`, `euler`, `preOrder`, `postOrder`)

Property theorems about the executable DFS model in `MV/Model/Graph.lean`.
Helper results are `lemma`s, property-level results are `theorem`s.
-/
namespace MV.Graph

/-! ## specification vocabulary -/

-- `WF`, `Edge`, `Path` are shared with MV.Props.C18Reach

/-- well-nested (Dyck) event sequences -/
inductive Nested : List (Bool × Nat) → Prop
  | nil : Nested []
  | node (v : Nat) {inner rest : List (Bool × Nat)} :
      Nested inner → Nested rest → Nested ((true, v) :: (inner ++ (false, v) :: rest))

/-- Enter events of an event list -/
def ent (l : List (Bool × Nat)) : List Nat := l.filterMap fun (b, v) => if b then some v else none
/-- Exit events of an event list -/
def ext (l : List (Bool × Nat)) : List Nat := l.filterMap fun (b, v) => if b then none else some v

lemma preOrder_eq (g : G) (r : Nat) : preOrder g r = ent (euler g r) := rfl
lemma postOrder_eq (g : G) (r : Nat) : postOrder g r = ext (euler g r) := rfl

@[simp] lemma ent_nil : ent [] = [] := rfl
@[simp] lemma ext_nil : ext [] = [] := rfl
@[simp] lemma ent_cons_true (v : Nat) (l) : ent ((true, v) :: l) = v :: ent l := by
  simp [ent]
@[simp] lemma ent_cons_false (v : Nat) (l) : ent ((false, v) :: l) = ent l := by
  simp [ent]
@[simp] lemma ext_cons_true (v : Nat) (l) : ext ((true, v) :: l) = ext l := by
  simp [ext]
@[simp] lemma ext_cons_false (v : Nat) (l) : ext ((false, v) :: l) = v :: ext l := by
  simp [ext]
@[simp] lemma ent_append (a b) : ent (a ++ b) = ent a ++ ent b := by
  simp [ent]
@[simp] lemma ext_append (a b) : ext (a ++ b) = ext a ++ ext b := by
  simp [ext]

lemma Nested.append {a b : List (Bool × Nat)} (ha : Nested a) (hb : Nested b) : Nested (a ++ b) := by
  induction ha with
  | nil => simpa using hb
  | node v hi _ _ ih2 =>
    have := Nested.node v hi ih2
    simpa [List.append_assoc] using this

lemma Nested.ext_perm_ent {l : List (Bool × Nat)} (h : Nested l) : (ext l).Perm (ent l) := by
  induction h with
  | nil => simp
  | node v _ _ ih1 ih2 =>
    simp only [ext_cons_true, ext_append, ext_cons_false, ent_cons_true, ent_append, ent_cons_false]
    exact List.perm_middle.trans ((ih1.append ih2).cons v)

/-! ## unfolding `visit` -/

/-- one step of the successor loop -/
def step (g : G) (f : Nat) (s : DState) (w : Nat) : DState :=
  if s.seen w then s else visit g f w s

/-- the successor loop -/
def visitList (g : G) (f : Nat) (ws : List Nat) (s : DState) : DState := ws.foldl (step g f) s

lemma visit_zero (g : G) (v : Nat) (s : DState) : visit g 0 v s = s := rfl

lemma visit_succ (g : G) (f v : Nat) (s : DState) :
    visit g (f + 1) v s =
      ⟨(visitList g f (out g v) ⟨s.visited.setIfInBounds v true, (true, v) :: s.events⟩).visited,
       (false, v) :: (visitList g f (out g v)
          ⟨s.visited.setIfInBounds v true, (true, v) :: s.events⟩).events⟩ := rfl

@[simp] lemma visitList_nil (g : G) (f : Nat) (s : DState) : visitList g f [] s = s := rfl
@[simp] lemma visitList_cons (g : G) (f w : Nat) (ws : List Nat) (s : DState) :
    visitList g f (w :: ws) s = visitList g f ws (step g f s w) := rfl

lemma seen_mk (vis : Array Bool) (e : List (Bool × Nat)) (x : Nat) :
    (DState.mk vis e).seen x = vis.getD x false := rfl

lemma seen_set (s : DState) (v x : Nat) (e : List (Bool × Nat)) :
    (DState.mk (s.visited.setIfInBounds v true) e).seen x = true ↔
      (s.seen x = true ∨ (x = v ∧ v < s.visited.size)) := by
  unfold DState.seen
  simp only [Array.getD_eq_getD_getElem?, Array.getElem?_setIfInBounds]
  by_cases h : v = x
  · subst h
    by_cases hv : v < s.visited.size <;> simp [hv]
  · have h' : ¬ x = v := fun e => h e.symm
    simp [h, h']

/-! ## events: well-nestedness -/

lemma visit_events (g : G) : ∀ (f v : Nat) (s : DState),
    ∃ l, (visit g f v s).events = l.reverse ++ s.events ∧ Nested l ∧
      (f ≠ 0 → ∃ inner, l = (true, v) :: (inner ++ [(false, v)]) ∧ Nested inner) := by
  intro f
  induction f with
  | zero => intro v s; exact ⟨[], by simp [visit_zero], Nested.nil, by simp⟩
  | succ f ih =>
    have hl : ∀ (ws : List Nat) (s : DState),
        ∃ l, (visitList g f ws s).events = l.reverse ++ s.events ∧ Nested l := by
      intro ws
      induction ws with
      | nil => intro s; exact ⟨[], by simp, Nested.nil⟩
      | cons w ws ihw =>
        intro s
        obtain ⟨l2, h2, n2⟩ := ihw (step g f s w)
        by_cases hs : s.seen w
        · refine ⟨l2, ?_, n2⟩
          simp only [visitList_cons]
          rw [h2]; simp [step, hs]
        · obtain ⟨l1, h1, n1, _⟩ := ih w s
          refine ⟨l1 ++ l2, ?_, n1.append n2⟩
          simp only [visitList_cons]
          rw [h2]; simp [step, hs, h1]
    intro v s
    obtain ⟨inner, h1, n1⟩ := hl (out g v) ⟨s.visited.setIfInBounds v true, (true, v) :: s.events⟩
    refine ⟨(true, v) :: (inner ++ [(false, v)]), ?_, ?_, fun _ => ⟨inner, rfl, n1⟩⟩
    · rw [visit_succ]; simp [h1]
    · exact Nested.node v n1 Nested.nil

/-- **F1.** The Euler tour is `Enter root`, a well-nested (Dyck) sequence of Enter/Exit
events, `Exit root`.  (Holds for every graph and root, no well-formedness needed.) -/
theorem euler_balanced (g : G) (root : Nat) :
    ∃ inner, euler g root = (true, root) :: inner ++ [(false, root)] ∧ Nested inner := by
  obtain ⟨l, h1, _, h3⟩ := visit_events g (g.size + 1) root ⟨Array.replicate g.size false, []⟩
  obtain ⟨inner, rfl, hn⟩ := h3 (by omega)
  refine ⟨inner, ?_, hn⟩
  unfold euler
  rw [h1]; simp

/-- the whole Euler tour is a well-nested sequence -/
theorem euler_nested (g : G) (root : Nat) : Nested (euler g root) := by
  obtain ⟨inner, h, hn⟩ := euler_balanced g root
  rw [h]
  exact Nested.node root hn Nested.nil

/-- **F2c.** The post-order is a permutation of the pre-order. -/
theorem post_perm_pre (g : G) (root : Nat) : (postOrder g root).Perm (preOrder g root) := by
  rw [preOrder_eq, postOrder_eq]
  exact (euler_nested g root).ext_perm_ent

/-- **F4a.** The pre-order starts with the root. -/
theorem preOrder_head (g : G) (root : Nat) : (preOrder g root).head? = some root := by
  obtain ⟨inner, h, _⟩ := euler_balanced g root
  rw [preOrder_eq, h]; simp

/-- **F4b.** The post-order ends with the root. -/
theorem postOrder_last (g : G) (root : Nat) : (postOrder g root).getLast? = some root := by
  obtain ⟨inner, h, _⟩ := euler_balanced g root
  rw [postOrder_eq, h]; simp

/-! ## state lemmas: size and monotonicity of `visited` -/

lemma visit_size (g : G) : ∀ (f v : Nat) (s : DState),
    (visit g f v s).visited.size = s.visited.size := by
  intro f
  induction f with
  | zero => intro v s; rfl
  | succ f ih =>
    have hl : ∀ (ws : List Nat) (s : DState),
        (visitList g f ws s).visited.size = s.visited.size := by
      intro ws
      induction ws with
      | nil => intro s; rfl
      | cons w ws ihw =>
        intro s
        rw [visitList_cons, ihw]
        unfold step; split_ifs
        · rfl
        · exact ih w s
    intro v s
    rw [visit_succ]
    simp only [hl]
    simp

lemma visitList_size (g : G) (f : Nat) : ∀ (ws : List Nat) (s : DState),
    (visitList g f ws s).visited.size = s.visited.size := by
  intro ws
  induction ws with
  | nil => intro s; rfl
  | cons w ws ihw =>
    intro s
    rw [visitList_cons, ihw]
    unfold step; split_ifs
    · rfl
    · exact visit_size g f w s

lemma visit_mono (g : G) : ∀ (f v : Nat) (s : DState) (x : Nat),
    s.seen x = true → (visit g f v s).seen x = true := by
  intro f
  induction f with
  | zero => intro v s x h; exact h
  | succ f ih =>
    have hl : ∀ (ws : List Nat) (s : DState) (x : Nat),
        s.seen x = true → (visitList g f ws s).seen x = true := by
      intro ws
      induction ws with
      | nil => intro s x h; exact h
      | cons w ws ihw =>
        intro s x h
        rw [visitList_cons]
        apply ihw
        unfold step; split_ifs
        · exact h
        · exact ih w s x h
    intro v s x h
    rw [visit_succ, seen_mk, ← seen_mk _ (visitList g f (out g v)
      ⟨s.visited.setIfInBounds v true, (true, v) :: s.events⟩).events]
    apply hl
    rw [seen_set]; exact Or.inl h

lemma visitList_mono (g : G) (f : Nat) : ∀ (ws : List Nat) (s : DState) (x : Nat),
    s.seen x = true → (visitList g f ws s).seen x = true := by
  intro ws
  induction ws with
  | nil => intro s x h; exact h
  | cons w ws ihw =>
    intro s x h
    rw [visitList_cons]
    apply ihw
    unfold step; split_ifs
    · exact h
    · exact visit_mono g f w s x h

lemma step_mono (g : G) (f : Nat) (s : DState) (w x : Nat) (h : s.seen x = true) :
    (step g f s w).seen x = true := by
  unfold step; split_ifs
  · exact h
  · exact visit_mono g f w s x h

lemma step_size (g : G) (f : Nat) (s : DState) (w : Nat) :
    (step g f s w).visited.size = s.visited.size := by
  unfold step; split_ifs
  · rfl
  · exact visit_size g f w s

/-- abbreviation: the state after marking and entering `v` -/
def enter (s : DState) (v : Nat) : DState := ⟨s.visited.setIfInBounds v true, (true, v) :: s.events⟩

lemma visit_succ_seen (g : G) (f v : Nat) (s : DState) (x : Nat) :
    (visit g (f + 1) v s).seen x = (visitList g f (out g v) (enter s v)).seen x := rfl

lemma visit_succ_events (g : G) (f v : Nat) (s : DState) :
    (visit g (f + 1) v s).events = (false, v) :: (visitList g f (out g v) (enter s v)).events := rfl

lemma enter_seen (s : DState) (v x : Nat) :
    (enter s v).seen x = true ↔ (s.seen x = true ∨ (x = v ∧ v < s.visited.size)) := seen_set s v x _

lemma enter_size (s : DState) (v : Nat) : (enter s v).visited.size = s.visited.size := by
  simp [enter]

lemma enter_events (s : DState) (v : Nat) : (enter s v).events = (true, v) :: s.events := rfl

/-! ## Enter events are exactly the newly marked nodes, without repetition -/

lemma visit_spec (g : G) (hwf : WF g) : ∀ (f v : Nat) (s : DState),
    s.visited.size = g.size → v < g.size → ¬ s.seen v = true →
    ∃ l, (visit g f v s).events = l.reverse ++ s.events ∧ (ent l).Nodup ∧
      ∀ x, x ∈ ent l ↔ ((visit g f v s).seen x = true ∧ ¬ s.seen x = true) := by
  intro f
  induction f with
  | zero =>
    intro v s _ _ _
    refine ⟨[], by simp [visit_zero], by simp, ?_⟩
    intro x; simp [visit_zero]
  | succ f ih =>
    have hl : ∀ (ws : List Nat) (s : DState), s.visited.size = g.size → (∀ w ∈ ws, w < g.size) →
        ∃ l, (visitList g f ws s).events = l.reverse ++ s.events ∧ (ent l).Nodup ∧
          ∀ x, x ∈ ent l ↔ ((visitList g f ws s).seen x = true ∧ ¬ s.seen x = true) := by
      intro ws
      induction ws with
      | nil =>
        intro s _ _
        refine ⟨[], by simp, by simp, ?_⟩
        intro x; simp
      | cons w ws ihw =>
        intro s hs hws
        have hw : w < g.size := hws w (by simp)
        have hws' : ∀ w' ∈ ws, w' < g.size := fun w' h => hws w' (by simp [h])
        by_cases hsw : s.seen w = true
        · have hst : step g f s w = s := by simp [step, hsw]
          rw [visitList_cons, hst]
          exact ihw s hs hws'
        · have hst : step g f s w = visit g f w s := by simp [step, hsw]
          obtain ⟨l1, e1, nd1, m1⟩ := ih w s hs hw hsw
          obtain ⟨l2, e2, nd2, m2⟩ := ihw (visit g f w s) (by rw [visit_size, hs]) hws'
          rw [visitList_cons, hst]
          refine ⟨l1 ++ l2, ?_, ?_, ?_⟩
          · rw [e2, e1]; simp
          · rw [ent_append, List.nodup_append]
            refine ⟨nd1, nd2, ?_⟩
            intro a ha b hb hab
            subst hab
            exact ((m2 a).1 hb).2 ((m1 a).1 ha).1
          · intro x
            rw [ent_append, List.mem_append, m1, m2]
            constructor
            · rintro (⟨h1, h2⟩ | ⟨h1, h2⟩)
              · exact ⟨visitList_mono g f ws _ x h1, h2⟩
              · exact ⟨h1, fun h => h2 (visit_mono g f w s x h)⟩
            · rintro ⟨h1, h2⟩
              by_cases h3 : (visit g f w s).seen x = true
              · exact Or.inl ⟨h3, h2⟩
              · exact Or.inr ⟨h1, h3⟩
    intro v s hs hv hsv
    obtain ⟨inner, e1, nd1, m1⟩ := hl (out g v) (enter s v) (by rw [enter_size, hs])
      (fun w hw => hwf v hv w hw)
    have hvs : (enter s v).seen v = true := (enter_seen s v v).2 (Or.inr ⟨rfl, hs ▸ hv⟩)
    refine ⟨(true, v) :: (inner ++ [(false, v)]), ?_, ?_, ?_⟩
    · rw [visit_succ_events, e1, enter_events]; simp
    · simp only [ent_cons_true, ent_append, ent_cons_false, ent_nil, List.append_nil,
        List.nodup_cons]
      exact ⟨fun h => ((m1 v).1 h).2 hvs, nd1⟩
    · intro x
      simp only [ent_cons_true, ent_append, ent_cons_false, ent_nil, List.append_nil,
        List.mem_cons, visit_succ_seen]
      rw [m1]
      constructor
      · rintro (rfl | ⟨h1, h2⟩)
        · exact ⟨visitList_mono g f _ _ _ hvs, hsv⟩
        · exact ⟨h1, fun h => h2 ((enter_seen s v x).2 (Or.inl h))⟩
      · rintro ⟨h1, h2⟩
        by_cases h3 : (enter s v).seen x = true
        · rcases (enter_seen s v x).1 h3 with h | ⟨h, _⟩
          · exact absurd h h2
          · exact Or.inl h
        · exact Or.inr ⟨h1, h3⟩

/-- the initial DFS state -/
def init (g : G) : DState := ⟨Array.replicate g.size false, []⟩

lemma init_seen (g : G) (x : Nat) : ¬ (init g).seen x = true := by
  simp only [init, DState.seen, Array.getD_eq_getD_getElem?, Array.getElem?_replicate]
  split_ifs <;> simp

lemma init_size (g : G) : (init g).visited.size = g.size := by simp [init]

/-- the final DFS state -/
def final (g : G) (root : Nat) : DState := visit g (g.size + 1) root (init g)

lemma euler_eq (g : G) (root : Nat) : euler g root = (final g root).events.reverse := rfl

lemma mem_preOrder_seen (g : G) (hwf : WF g) (root : Nat) (hr : root < g.size) (x : Nat) :
    x ∈ preOrder g root ↔ (final g root).seen x = true := by
  obtain ⟨l, e, _, m⟩ := visit_spec g hwf (g.size + 1) root (init g) (init_size g) hr
    (init_seen g root)
  have : euler g root = l := by
    rw [euler_eq, final, e]; simp [init]
  rw [preOrder_eq, this, m]
  simp [init_seen, final]

/-- **F2a.** No node is entered twice. -/
theorem preOrder_nodup (g : G) (root : Nat) (hwf : WF g) (hr : root < g.size) :
    (preOrder g root).Nodup := by
  obtain ⟨l, e, nd, _⟩ := visit_spec g hwf (g.size + 1) root (init g) (init_size g) hr
    (init_seen g root)
  have : euler g root = l := by
    rw [euler_eq, final, e]; simp [init]
  rw [preOrder_eq, this]; exact nd

/-- **F2b.** No node is exited twice. -/
theorem postOrder_nodup (g : G) (root : Nat) (hwf : WF g) (hr : root < g.size) :
    (postOrder g root).Nodup :=
  (post_perm_pre g root).nodup_iff.2 (preOrder_nodup g root hwf hr)

/-! ## soundness: everything newly marked is reachable -/

lemma visit_sound (g : G) (hwf : WF g) : ∀ (f v : Nat) (s : DState), v < g.size →
    ∀ x, (visit g f v s).seen x = true → ¬ s.seen x = true → Path g v x := by
  intro f
  induction f with
  | zero => intro v s _ x h1 h2; exact absurd h1 h2
  | succ f ih =>
    have hl : ∀ (ws : List Nat) (s : DState), (∀ w ∈ ws, w < g.size) →
        ∀ x, (visitList g f ws s).seen x = true → ¬ s.seen x = true → ∃ w ∈ ws, Path g w x := by
      intro ws
      induction ws with
      | nil => intro s _ x h1 h2; exact absurd h1 h2
      | cons w ws ihw =>
        intro s hws x h1 h2
        have hw : w < g.size := hws w (by simp)
        have hws' : ∀ w' ∈ ws, w' < g.size := fun w' h => hws w' (by simp [h])
        rw [visitList_cons] at h1
        by_cases h3 : (step g f s w).seen x = true
        · have hst : step g f s w = visit g f w s := by
            unfold step; split_ifs with h
            · exfalso; apply h2; simpa [step, h] using h3
            · rfl
          rw [hst] at h3
          exact ⟨w, by simp, ih w s hw x h3 h2⟩
        · obtain ⟨w', hw', p⟩ := ihw _ hws' x h1 h3
          exact ⟨w', by simp [hw'], p⟩
    intro v s hv x h1 h2
    rw [visit_succ_seen] at h1
    by_cases h3 : (enter s v).seen x = true
    · rcases (enter_seen s v x).1 h3 with h | ⟨h, _⟩
      · exact absurd h h2
      · subst h; exact Relation.ReflTransGen.refl
    · obtain ⟨w, hw, p⟩ := hl (out g v) (enter s v) (fun w hw => hwf v hv w hw) x h1 h3
      exact Relation.ReflTransGen.head ⟨hv, hw⟩ p

/-- **F3 (soundness).** Every visited node is reachable from the root. -/
theorem mem_preOrder_path (g : G) (root : Nat) (hwf : WF g) (hr : root < g.size) (v : Nat)
    (h : v ∈ preOrder g root) : Path g root v := by
  rw [mem_preOrder_seen g hwf root hr] at h
  exact visit_sound g hwf _ root (init g) hr v h (init_seen g v)

/-! ## completeness: fuel never runs out, and newly marked nodes are fully explored -/

/-- number of unmarked nodes -/
def unseen (g : G) (s : DState) : Nat :=
  ((Finset.range g.size).filter fun x => ¬ s.seen x = true).card

lemma unseen_le_size (g : G) (s : DState) : unseen g s ≤ g.size := by
  unfold unseen
  calc _ ≤ (Finset.range g.size).card := Finset.card_filter_le _ _
    _ = g.size := Finset.card_range _

lemma unseen_mono (g : G) (s t : DState) (h : ∀ x, s.seen x = true → t.seen x = true) :
    unseen g t ≤ unseen g s := by
  unfold unseen
  apply Finset.card_le_card
  intro x hx
  simp only [Finset.mem_filter, Finset.mem_range] at hx ⊢
  exact ⟨hx.1, fun hs => hx.2 (h x hs)⟩

lemma unseen_lt (g : G) (s t : DState) (h : ∀ x, s.seen x = true → t.seen x = true)
    (v : Nat) (hv : v < g.size) (hsv : ¬ s.seen v = true) (htv : t.seen v = true) :
    unseen g t < unseen g s := by
  unfold unseen
  apply Finset.card_lt_card
  rw [Finset.ssubset_iff_of_subset]
  · exact ⟨v, by simp [hv, hsv], by simp [htv]⟩
  · intro x hx
    simp only [Finset.mem_filter, Finset.mem_range] at hx ⊢
    exact ⟨hx.1, fun hs => hx.2 (h x hs)⟩

lemma visit_closed (g : G) (hwf : WF g) : ∀ (f v : Nat) (s : DState),
    s.visited.size = g.size → v < g.size → ¬ s.seen v = true → unseen g s < f →
    (visit g f v s).seen v = true ∧
      ∀ x, (visit g f v s).seen x = true → ¬ s.seen x = true →
        ∀ y ∈ out g x, (visit g f v s).seen y = true := by
  intro f
  induction f with
  | zero => intro v s _ _ _ h; exact absurd h (Nat.not_lt_zero _)
  | succ f ih =>
    have hl : ∀ (ws : List Nat) (s : DState), s.visited.size = g.size → (∀ w ∈ ws, w < g.size) →
        unseen g s < f →
        (∀ w ∈ ws, (visitList g f ws s).seen w = true) ∧
          ∀ x, (visitList g f ws s).seen x = true → ¬ s.seen x = true →
            ∀ y ∈ out g x, (visitList g f ws s).seen y = true := by
      intro ws
      induction ws with
      | nil =>
        intro s _ _ _
        exact ⟨by simp, fun x h1 h2 => absurd h1 h2⟩
      | cons w ws ihw =>
        intro s hs hws hf
        have hw : w < g.size := hws w (by simp)
        have hws' : ∀ w' ∈ ws, w' < g.size := fun w' h => hws w' (by simp [h])
        have hf' : unseen g (step g f s w) < f :=
          lt_of_le_of_lt (unseen_mono g s _ (fun x h => step_mono g f s w x h)) hf
        obtain ⟨a1, a2⟩ := ihw (step g f s w) (by rw [step_size, hs]) hws' hf'
        simp only [visitList_cons]
        by_cases hsw : s.seen w = true
        · have hst : step g f s w = s := by simp [step, hsw]
          rw [hst] at a1 a2 ⊢
          refine ⟨?_, a2⟩
          intro w' hw'
          rcases List.mem_cons.1 hw' with rfl | h
          · exact visitList_mono g f ws s _ hsw
          · exact a1 w' h
        · have hst : step g f s w = visit g f w s := by simp [step, hsw]
          rw [hst] at a1 a2 ⊢
          obtain ⟨b1, b2⟩ := ih w s hs hw hsw hf
          refine ⟨?_, ?_⟩
          · intro w' hw'
            rcases List.mem_cons.1 hw' with rfl | h
            · exact visitList_mono g f ws _ _ b1
            · exact a1 w' h
          · intro x h1 h2 y hy
            by_cases h3 : (visit g f w s).seen x = true
            · exact visitList_mono g f ws _ _ (b2 x h3 h2 y hy)
            · exact a2 x h1 h3 y hy
    intro v s hs hv hsv hf
    have hvs : (enter s v).seen v = true := (enter_seen s v v).2 (Or.inr ⟨rfl, hs ▸ hv⟩)
    have hf' : unseen g (enter s v) < f := by
      have := unseen_lt g s (enter s v) (fun x h => (enter_seen s v x).2 (Or.inl h)) v hv hsv hvs
      omega
    obtain ⟨a1, a2⟩ := hl (out g v) (enter s v) (by rw [enter_size, hs])
      (fun w hw => hwf v hv w hw) hf'
    simp only [visit_succ_seen]
    refine ⟨visitList_mono g f _ _ _ hvs, ?_⟩
    intro x h1 h2 y hy
    by_cases h3 : (enter s v).seen x = true
    · rcases (enter_seen s v x).1 h3 with h | ⟨h, _⟩
      · exact absurd h h2
      · subst h; exact a1 y hy
    · exact a2 x h1 h3 y hy

/-- **F3 (completeness).** Every node reachable from the root is visited: the fuel
`g.size + 1` never runs out. -/
theorem path_mem_preOrder (g : G) (root : Nat) (hwf : WF g) (hr : root < g.size) (v : Nat)
    (h : Path g root v) : v ∈ preOrder g root := by
  rw [mem_preOrder_seen g hwf root hr]
  obtain ⟨c1, c2⟩ := visit_closed g hwf (g.size + 1) root (init g) (init_size g) hr
    (init_seen g root) (Nat.lt_succ_of_le (unseen_le_size g _))
  induction h with
  | refl => exact c1
  | tail _ hbc ih => exact c2 _ ih (init_seen g _) _ hbc.2

/-- **F3.** Exactly the nodes reachable from the root are visited. -/
theorem mem_preOrder_iff (g : G) (root : Nat) (hwf : WF g) (hr : root < g.size) (v : Nat) :
    v ∈ preOrder g root ↔ Path g root v :=
  ⟨mem_preOrder_path g root hwf hr v, path_mem_preOrder g root hwf hr v⟩

/-- **F3'.** Exactly the nodes reachable from the root are exited. -/
theorem mem_postOrder_iff (g : G) (root : Nat) (hwf : WF g) (hr : root < g.size) (v : Nat) :
    v ∈ postOrder g root ↔ Path g root v := by
  rw [(post_perm_pre g root).mem_iff]; exact mem_preOrder_iff g root hwf hr v

/-! ## first-successor order -/

lemma visitList_events (g : G) (f : Nat) : ∀ (ws : List Nat) (s : DState),
    ∃ l : List (Bool × Nat), (visitList g f ws s).events = l.reverse ++ s.events := by
  intro ws
  induction ws with
  | nil => intro s; exact ⟨[], by simp⟩
  | cons w ws ihw =>
    intro s
    obtain ⟨l2, h2⟩ := ihw (step g f s w)
    by_cases hs : s.seen w = true
    · exact ⟨l2, by rw [visitList_cons, h2]; simp [step, hs]⟩
    · obtain ⟨l1, h1, _, _⟩ := visit_events g f w s
      exact ⟨l1 ++ l2, by rw [visitList_cons, h2]; simp [step, hs, h1]⟩

/-- **F5.** Adjacency order is followed: if the first successor `w` of the root is not the
root itself, it is the second node entered. -/
theorem preOrder_second (g : G) (root w : Nat) (rest : List Nat) (hr : root < g.size)
    (ho : out g root = w :: rest) (hw : w ≠ root) : (preOrder g root)[1]? = some w := by
  obtain ⟨n, hn⟩ : ∃ n, g.size = n + 1 := ⟨g.size - 1, by omega⟩
  have hsw : ¬ (enter (init g) root).seen w = true := by
    rw [enter_seen]
    rintro (h | ⟨h, _⟩)
    · exact init_seen g w h
    · exact hw h
  obtain ⟨l1, h1, _, h1'⟩ := visit_events g (n + 1) w (enter (init g) root)
  obtain ⟨inner, rfl, _⟩ := h1' (by omega)
  obtain ⟨l2, h2⟩ := visitList_events g (n + 1) rest (visit g (n + 1) w (enter (init g) root))
  have he : euler g root =
      (true, root) :: (((true, w) :: (inner ++ [(false, w)])) ++ l2 ++ [(false, root)]) := by
    rw [euler_eq, final, hn, visit_succ_events, ho, visitList_cons]
    have hst : step g (n + 1) (enter (init g) root) w = visit g (n + 1) w (enter (init g) root) := by
      simp [step, hsw]
    rw [hst, h2, h1, enter_events]
    simp [init]
  rw [preOrder_eq, he]
  simp

/-! ## non-vacuity: a concrete graph

`0 → 1, 2`, `1 → 2`, `2 → 0, 3`, `3` has no successors, `4 → 0` (node 4 is unreachable from 0). -/

/-- example graph -/
def exGdfs : G := #[[1, 2], [2], [0, 3], [], [0]]

example : WF exGdfs := by decide
example : euler exGdfs 0 =
    [(true, 0), (true, 1), (true, 2), (true, 3), (false, 3), (false, 2), (false, 1), (false, 0)] := by
  decide
example : ∃ inner, euler exGdfs 0 = (true, 0) :: inner ++ [(false, 0)] ∧ Nested inner :=
  euler_balanced exGdfs 0
example : Nested (euler exGdfs 0) := euler_nested exGdfs 0
example : (preOrder exGdfs 0).Nodup := preOrder_nodup exGdfs 0 (by decide) (by decide)
example : (postOrder exGdfs 0).Nodup := postOrder_nodup exGdfs 0 (by decide) (by decide)
example : preOrder exGdfs 0 = [0, 1, 2, 3] ∧ postOrder exGdfs 0 = [3, 2, 1, 0] := by decide
example : (postOrder exGdfs 0).Perm (preOrder exGdfs 0) := post_perm_pre exGdfs 0
example : (preOrder exGdfs 0).head? = some 0 := preOrder_head exGdfs 0
example : (postOrder exGdfs 0).getLast? = some 0 := postOrder_last exGdfs 0
example : (preOrder exGdfs 0)[1]? = some 1 :=
  preOrder_second exGdfs 0 1 [2] (by decide) (by decide) (by decide)
/-- soundness used forwards: 3 is visited, hence reachable -/
example : Path exGdfs 0 3 := mem_preOrder_path exGdfs 0 (by decide) (by decide) 3 (by decide)
/-- completeness used backwards: 4 is not visited, hence not reachable from 0 -/
example : ¬ Path exGdfs 0 4 := by
  rw [← mem_preOrder_iff exGdfs 0 (by decide) (by decide)]; decide
/-- completeness used forwards on a path given edge by edge -/
example : 3 ∈ preOrder exGdfs 0 :=
  path_mem_preOrder exGdfs 0 (by decide) (by decide) 3
    (Relation.ReflTransGen.head (b := 2) ⟨by decide, by decide⟩
      (Relation.ReflTransGen.single ⟨by decide, by decide⟩))
example : 3 ∈ postOrder exGdfs 0 ↔ Path exGdfs 0 3 := mem_postOrder_iff exGdfs 0 (by decide) (by decide) 3
/-- well-formedness is needed for F2: an out-of-range successor is never marked, so it is
entered once per incoming edge -/
example : ¬ WF #[[5, 5]] ∧ preOrder #[[5, 5]] 0 = [0, 5, 5] := by decide
/-- from a root that reaches everything (4 → 0 → …) all five nodes are visited -/
example : preOrder exGdfs 4 = [4, 0, 1, 2, 3] := by decide

end MV.Graph
