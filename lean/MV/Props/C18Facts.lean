import MV.Props.FactsLib
/-! Source facts the C18 model relies on (checked against the facts regenerated from /repo on every run). -/
namespace MV.Facts

def expectedC18 : List (String × String) := [("lits:graphalg.NewNodeMarks", "1024 32"), ("lits:graphalg.NodeMarks.grow", "1 1 1 32"), ("lits:graphalg.NodeMarks.Test", "0 0 1 32 32 32")]

/-- the constants and literals the C18 model mirrors are still what the source says -/
theorem facts_C18 : holdsAll expectedC18 = true := by decide


/-- State that outlives a call, as extracted from the source on this run: the package-level
variables of the packages this property's code lives in, the functions (other than `init`) that
assign to them or call methods on them, and the fields of the property's struct types. The model is
a pure function of the arguments and of these fields; a new variable, writer or field is state the
model does not know of. The digest-valued entries cover, per package: every declared function and
method with its receiver kind (`funcs:`), every function-reads-package-variable pair (`reads:`) and
every write through a parameter or receiver, including in-place `sort.*`/`copy` (`pwrites:`); the
lists behind the digests are in `funcs_expected.txt` and in comments of the generated file. -/
def stateC18 : List (String × String) := [("globals:graph", ""), ("globals:graphalg", ""), ("globals:graphout", ""), ("globalwrites:graph", ""), ("globalwrites:graphalg", ""), ("globalwrites:graphout", ""), ("fields:graphalg.NodeMarks", "marks:[]uint32"), ("fields:graphalg.SCCGraph", "subnodes:[]int subnodeIndexes:[]int subnodeComponent:[]int out:[]int outIndexes:[]int"), ("fields:graphalg.Euler", "Enter:func(nint) Exit:func(nint)"), ("fields:graphalg.simplified", "indexes:[]int edges:[]int weights:[]float64"), ("fields:graph.bigraph", "(embedded):Graph preds:[][]int"), ("fields:graph.listSubgraph", "underlying:Graph nodes:[]listSubgraphNode"), ("fields:graph.listSubgraphNode", "out:[]int oldNode:int oldEdges:[]int"), ("fields:graphout.Dot", "Name:string Label:func(nodeint)string NodeAttrs:func(nodeint)[]DotAttr EdgeAttrs:func(node,edgeint)[]DotAttr"), ("fields:graphout.DotAttr", "Name:string Val:interface{}"), ("funcs:graph", "n=13 fnv64a=6d127aa916cf372a"), ("reads:graph", "n=0 fnv64a=cbf29ce484222325"), ("pwrites:graph", "n=0 fnv64a=cbf29ce484222325"), ("funcs:graphalg", "n=27 fnv64a=7bc26b7e444e3bd8"), ("reads:graphalg", "n=0 fnv64a=cbf29ce484222325"), ("pwrites:graphalg", "n=4 fnv64a=63704012c05b15a7"), ("funcs:graphout", "n=6 fnv64a=ef4b5ce9d193d85e"), ("reads:graphout", "n=0 fnv64a=cbf29ce484222325"), ("pwrites:graphout", "n=0 fnv64a=cbf29ce484222325")]

/-- the source has exactly the package-level variables, writers and struct fields the model accounts for -/
theorem state_C18 : holdsAll stateC18 = true := by decide +kernel

end MV.Facts
