import MV.Props.FactsLib
/-! Source facts the C18 model relies on (checked against the facts regenerated from /repo on every run). -/
namespace MV.Facts

def expectedC18 : List (String × String) := [("lits:graphalg.NewNodeMarks", "1024 32"), ("lits:graphalg.NodeMarks.grow", "1 1 1 32"), ("lits:graphalg.NodeMarks.Test", "0 0 1 32 32 32")]

/-- the constants and literals the C18 model mirrors are still what the source says -/
theorem facts_C18 : holdsAll expectedC18 = true := by decide

end MV.Facts
