import MV.Props.FactsLib
/-! Source facts the C18 model relies on (checked against the facts regenerated from /repo on every run). -/
namespace MV.Facts

def expectedC18 : List (String × String) := [("lits:graphalg.NewNodeMarks", "1024 32"), ("lits:graphalg.NodeMarks.grow", "1 1 1 32"), ("lits:graphalg.NodeMarks.Test", "0 0 1 32 32 32")]

/-- the constants and literals the C18 model mirrors are still what the source says -/
theorem facts_C18 : holdsAll expectedC18 = true := by decide


/-- State that outlives a call, as extracted from the source on this run: the package-level
variables of the packages this property's code lives in, the functions (other than `init`) that
assign to them or call methods on them, and the fields of the property's struct types. The model is
a pure function of the arguments and of these fields; a new variable, writer or field is state the
model does not know of. The digest-valued `shape:` entry covers everything the call graph
(resolved by go/types) reaches from the functions declared in the property's anchor files: per
function, method (with receiver kind), package variable and constant, its numeric literals, its comparison operators, the
package variables it reads and its writes through parameters or the receiver (including in-place
`sort.*`/`copy`/`append`). The entries behind the digest are in `shape_expected.txt` and in a
comment of the generated file. -/
def stateC18 : List (String × String) := [("globals:graph", ""), ("globals:graphalg", ""), ("globals:graphout", ""), ("globalwrites:graph", ""), ("globalwrites:graphalg", ""), ("globalwrites:graphout", ""), ("fields:graphalg.NodeMarks", "marks:[]uint32"), ("fields:graphalg.SCCGraph", "subnodes:[]int subnodeIndexes:[]int subnodeComponent:[]int out:[]int outIndexes:[]int"), ("fields:graphalg.Euler", "Enter:func(nint) Exit:func(nint)"), ("fields:graphalg.simplified", "indexes:[]int edges:[]int weights:[]float64"), ("fields:graph.bigraph", "(embedded):Graph preds:[][]int"), ("fields:graph.listSubgraph", "underlying:Graph nodes:[]listSubgraphNode"), ("fields:graph.listSubgraphNode", "out:[]int oldNode:int oldEdges:[]int"), ("fields:graphout.Dot", "Name:string Label:func(nodeint)string NodeAttrs:func(nodeint)[]DotAttr EdgeAttrs:func(node,edgeint)[]DotAttr"), ("fields:graphout.DotAttr", "Name:string Val:interface{}"), ("shape:C18", "n=42 fnv64a=c10447944d7bf105")]

/-- the source has exactly the package-level variables, writers and struct fields the model accounts for -/
theorem state_C18 : holdsAll stateC18 = true := by decide +kernel

end MV.Facts
