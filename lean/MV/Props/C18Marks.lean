import Mathlib.Tactic
import MV.Model.Graph
/-!
# C18 — NodeMarks: the bit-level model refines the set-of-naturals specification
-/
namespace MV.Graph

/-! ## abstraction and invariant -/

/-- Abstraction function: `i` is a member of the set represented by `m`. -/
def Marks.mem (m : Marks) (i : Nat) : Prop := m.test (i : Int) = true

/-- Well-formedness: every stored word is a 32-bit value. -/
def Marks.WF (m : Marks) : Prop := ∀ k, m.words.getD k 0 < 2 ^ 32

/-- bit `n` of a word array (word `n / 32`, bit `n % 32`), `false` out of range. -/
def wbit (ws : Array Nat) (n : Nat) : Bool := (ws.getD (n / 32) 0).testBit (n % 32)

/-- Side condition on operations: a `mark` index must be `< 2^69 = 32 * 2^64`
(the `grow` loop has 64 doublings of fuel). No condition on the other operations. -/
def MOp.small : MOp → Bool
  | .mark i => decide (i < 2 ^ 69)
  | _ => true

/-! ## helper lemmas -/

lemma getD_of_size_le (ws : Array Nat) (k : Nat) (h : ws.size ≤ k) : ws.getD k 0 = 0 := by
  simp [h]

lemma test_natCast (m : Marks) (n : Nat) : m.test (n : Int) = wbit m.words n := by
  unfold Marks.test wbit
  have h0 : ¬ ((n : Int) < 0) := by omega
  simp only [h0, if_false, Int.toNat_natCast]
  split
  · rename_i h
    rw [getD_of_size_le _ _ h]; simp
  · rfl

lemma test_neg (m : Marks) (i : Int) (h : i < 0) : m.test i = false := by
  unfold Marks.test; simp [h]

lemma mem_iff (m : Marks) (n : Nat) : m.mem n ↔ wbit m.words n = true := by
  unfold Marks.mem; rw [test_natCast]

lemma divmod_eq (i j : Nat) : j = i ↔ (j / 32 = i / 32 ∧ j % 32 = i % 32) := by omega

lemma pow2ge_ge (n : Nat) : ∀ f k, n ≤ k * 2 ^ f → n ≤ pow2ge n f k := by
  intro f
  induction f with
  | zero => intro k h; simpa [pow2ge] using h
  | succ f ih =>
    intro k h
    unfold pow2ge
    split
    · apply ih; rw [pow_succ] at h; linarith
    · omega

lemma grow_getD (m : Marks) (i k : Nat) : (m.grow i).words.getD k 0 = m.words.getD k 0 := by
  unfold Marks.grow
  simp only [Array.getD_eq_getD_getElem?, Array.getElem?_append, Array.getElem?_replicate]
  split
  · rfl
  · rename_i h
    have : m.words[k]? = none := by simp; omega
    rw [this]; split <;> rfl

lemma grow_size (m : Marks) (i : Nat) (hi : i < 2 ^ 69) : i / 32 < (m.grow i).words.size := by
  unfold Marks.grow
  have h := pow2ge_ge (i / 32 + 1) 64 1 (by omega)
  simp only [Array.size_append, Array.size_replicate]
  omega

lemma mark_getD (m : Marks) (i k : Nat) (hi : i < 2 ^ 69) :
    (m.mark i).words.getD k 0 =
      if k = i / 32 then m.words.getD (i / 32) 0 ||| 1 <<< (i % 32) else m.words.getD k 0 := by
  unfold Marks.mark
  have key : ∀ m' : Marks, (∀ k, m'.words.getD k 0 = m.words.getD k 0) → i / 32 < m'.words.size →
      (m'.words.setIfInBounds (i / 32) (m'.words.getD (i / 32) 0 ||| 1 <<< (i % 32))).getD k 0 =
      if k = i / 32 then m.words.getD (i / 32) 0 ||| 1 <<< (i % 32) else m.words.getD k 0 := by
    intro m' h1 h2
    rw [h1 (i / 32), ← h1 k]
    simp only [Array.getD_eq_getD_getElem?, Array.getElem?_setIfInBounds]
    by_cases hk : k = i / 32
    · subst hk; simp [h2]
    · have : ¬ (i / 32 = k) := fun h => hk h.symm
      simp [hk, this]
  split
  · exact key _ (grow_getD m i) (grow_size m i hi)
  · rename_i h; exact key m (fun _ => rfl) (by omega)

lemma wbit_mark (m : Marks) (i j : Nat) (hi : i < 2 ^ 69) :
    wbit (m.mark i).words j = (wbit m.words j || decide (j = i)) := by
  unfold wbit
  rw [mark_getD m i _ hi]
  by_cases h : j / 32 = i / 32
  · simp only [h, if_true, Nat.testBit_or, Nat.one_shiftLeft, Nat.testBit_two_pow]
    congr 1
    have := divmod_eq i j
    by_cases h2 : i % 32 = j % 32
    · have : j = i := by omega
      simp [h2, this]
    · have : j ≠ i := by omega
      simp [h2, this]
  · have : j ≠ i := by intro e; subst e; exact h rfl
    simp [h, this]

lemma testBit_sub_two_pow (w b c : Nat) (h : w.testBit b = true) :
    (w - 2 ^ b).testBit c = (w.testBit c && decide (c ≠ b)) := by
  have h1 : w / 2 ^ b % 2 = 1 := by
    rw [Nat.testBit_eq_decide_div_mod_eq] at h; simpa using h
  have h2 : w % 2 ^ (b + 1) = w % 2 ^ b + 2 ^ b := by
    rw [Nat.mod_pow_succ, h1, Nat.mul_one]
  have h3 : 2 ^ (b + 1) * (w / 2 ^ (b + 1)) + w % 2 ^ (b + 1) = w := Nat.div_add_mod _ _
  have h4 : w - 2 ^ b = 2 ^ (b + 1) * (w / 2 ^ (b + 1)) + w % 2 ^ b := by
    generalize 2 ^ (b + 1) * (w / 2 ^ (b + 1)) = A at *
    omega
  have hpos : 0 < 2 ^ b := by positivity
  have hlt : w % 2 ^ b < 2 ^ (b + 1) := by
    have := Nat.mod_lt w hpos
    rw [pow_succ]; omega
  rw [h4, Nat.testBit_two_pow_mul_add _ hlt, Nat.testBit_mod_two_pow, Nat.testBit_div_two_pow]
  split
  · by_cases hc : c = b
    · subst hc; simp
    · have : c < b := by omega
      simp [this, hc]
  · have e : c - (b + 1) + (b + 1) = c := by omega
    rw [e]
    have : c ≠ b := by omega
    simp [this]

lemma unmark_getD (m : Marks) (i k : Nat) :
    (m.unmark i).words.getD k 0 =
      if k = i / 32 then
        (if (m.words.getD (i / 32) 0).testBit (i % 32) then
          m.words.getD (i / 32) 0 - 2 ^ (i % 32) else m.words.getD (i / 32) 0)
      else m.words.getD k 0 := by
  unfold Marks.unmark
  split
  · rename_i h
    by_cases hk : k = i / 32
    · subst hk; simp [getD_of_size_le _ _ h]
    · simp [hk]
  · rename_i h
    simp only [Array.getD_eq_getD_getElem?, Array.getElem?_setIfInBounds, Nat.one_shiftLeft]
    by_cases hk : k = i / 32
    · subst hk
      have h' : i / 32 < m.words.size := by omega
      simp [h']
    · have : ¬ (i / 32 = k) := fun h => hk h.symm
      simp [hk, this]

lemma wbit_unmark (m : Marks) (i j : Nat) :
    wbit (m.unmark i).words j = (wbit m.words j && decide (j ≠ i)) := by
  unfold wbit
  rw [unmark_getD]
  by_cases h : j / 32 = i / 32
  · simp only [h, if_true]
    have := divmod_eq i j
    by_cases hb : (m.words.getD (i / 32) 0).testBit (i % 32) = true
    · simp only [hb, if_true]
      rw [testBit_sub_two_pow _ _ _ hb]
      congr 1
      by_cases h2 : j % 32 = i % 32
      · have : j = i := by omega
        simp [this]
      · have : j ≠ i := by omega
        simp [h2, this]
    · simp only [hb]
      by_cases h2 : j % 32 = i % 32
      · rw [h2]; simp at hb; simp [hb]
      · have : j ≠ i := by omega
        simp [this]
  · have : j ≠ i := by intro e; subst e; exact h rfl
    simp [h, this]

lemma new_WF : Marks.new.WF := by
  intro k
  unfold Marks.new
  simp only [Array.getD_eq_getD_getElem?, Array.getElem?_replicate]
  split <;> simp

lemma mark_WF (m : Marks) (i : Nat) (hi : i < 2 ^ 69) (h : m.WF) : (m.mark i).WF := by
  intro k
  rw [mark_getD m i k hi]
  split
  · apply Nat.or_lt_two_pow (h _)
    rw [Nat.one_shiftLeft]
    exact Nat.pow_lt_pow_right (by norm_num) (Nat.mod_lt _ (by norm_num))
  · exact h _

lemma unmark_WF (m : Marks) (i : Nat) (h : m.WF) : (m.unmark i).WF := by
  intro k
  rw [unmark_getD m i k]
  split
  · split
    · exact lt_of_le_of_lt (Nat.sub_le _ _) (h _)
    · exact h _
  · exact h _

lemma testBit_lt32 (w : Nat) (h : w < 2 ^ 32) (c : Nat) (hc : w.testBit c = true) : c < 32 := by
  by_contra hge
  have : w < 2 ^ c := lt_of_lt_of_le h (Nat.pow_le_pow_right (by norm_num) (by omega))
  rw [Nat.testBit_lt_two_pow this] at hc
  exact absurd hc (by simp)

lemma lowBit_spec (w : Nat) : ∀ f k, (∃ c, k ≤ c ∧ c < k + f ∧ w.testBit c = true) →
    w.testBit (lowBit w f k) = true ∧ k ≤ lowBit w f k ∧
      ∀ c, k ≤ c → w.testBit c = true → lowBit w f k ≤ c := by
  intro f
  induction f with
  | zero => rintro k ⟨c, h1, h2, _⟩; omega
  | succ f ih =>
    rintro k ⟨c, h1, h2, h3⟩
    unfold lowBit
    split
    · rename_i hk
      exact ⟨hk, le_refl _, fun c hc _ => hc⟩
    · rename_i hk
      have hck : c ≠ k := by intro e; subst e; exact hk h3
      obtain ⟨a1, a2, a3⟩ := ih (k + 1) ⟨c, by omega, by omega, h3⟩
      refine ⟨a1, by omega, fun c' hc' ht => ?_⟩
      have : c' ≠ k := by intro e; subst e; exact hk ht
      exact a3 c' (by omega) ht

lemma lowBit_word (b : Nat) (hb : b ≠ 0) (hlt : b < 2 ^ 32) :
    b.testBit (lowBit b 32 0) = true ∧ ∀ c, b.testBit c = true → lowBit b 32 0 ≤ c := by
  obtain ⟨c, hc⟩ := Nat.exists_testBit_of_ne_zero hb
  have := testBit_lt32 b hlt c hc
  obtain ⟨a1, _, a3⟩ := lowBit_spec b 32 0 ⟨c, by omega, by omega, hc⟩
  exact ⟨a1, fun c hc => a3 c (Nat.zero_le _) hc⟩

/-- `r` is the least index `≥ lo` whose bit is set. -/
def IsLeastFrom (ws : Array Nat) (lo r : Nat) : Prop :=
  wbit ws r = true ∧ lo ≤ r ∧ ∀ c, lo ≤ c → wbit ws c = true → r ≤ c

lemma scan_spec (ws : Array Nat) (hwf : ∀ k, ws.getD k 0 < 2 ^ 32) :
    ∀ f bi, ws.size ≤ bi + f →
      (scanWords ws f bi = -1 ∧ ∀ c, 32 * bi ≤ c → wbit ws c = false) ∨
      ∃ r : Nat, scanWords ws f bi = (r : Int) ∧ IsLeastFrom ws (32 * bi) r := by
  intro f
  induction f with
  | zero =>
    intro bi h
    left
    refine ⟨rfl, fun c hc => ?_⟩
    unfold wbit
    rw [getD_of_size_le _ _ (by omega)]; simp
  | succ f ih =>
    intro bi h
    unfold scanWords
    split
    · rename_i hge
      left
      refine ⟨rfl, fun c hc => ?_⟩
      unfold wbit
      rw [getD_of_size_le _ _ (by omega)]; simp
    · rename_i hlt
      simp only
      split
      · rename_i hb
        right
        obtain ⟨l1, l2⟩ := lowBit_word _ hb (hwf bi)
        have l3 := testBit_lt32 _ (hwf bi) _ l1
        refine ⟨_, rfl, ?_, by omega, fun c hc hbit => ?_⟩
        · unfold wbit
          have e1 : (32 * bi + lowBit (ws.getD bi 0) 32 0) / 32 = bi := by omega
          have e2 : (32 * bi + lowBit (ws.getD bi 0) 32 0) % 32 = lowBit (ws.getD bi 0) 32 0 := by omega
          rw [e1, e2]; exact l1
        · unfold wbit at hbit
          by_cases hcb : c / 32 = bi
          · rw [hcb] at hbit
            have := l2 _ hbit
            omega
          · omega
      · rename_i hb
        have hb0 : ws.getD bi 0 = 0 := by simpa using hb
        have hz : ∀ c, 32 * bi ≤ c → wbit ws c = true → 32 * (bi + 1) ≤ c := by
          intro c hc hbit
          by_contra hlt'
          have : c / 32 = bi := by omega
          unfold wbit at hbit
          rw [this, hb0] at hbit
          simp at hbit
        rcases ih (bi + 1) (by omega) with ⟨e, hall⟩ | ⟨r, e, hr1, hr2, hr3⟩
        · left
          refine ⟨e, fun c hc => ?_⟩
          by_contra hne
          have ht : wbit ws c = true := by simpa using hne
          have := hall c (hz c hc ht)
          rw [this] at ht; simp at ht
        · right
          exact ⟨r, e, hr1, by omega, fun c hc ht => hr3 c (hz c hc ht) ht⟩

/-- the body of `Marks.next` after the start index `j` has been computed -/
def nextFrom (ws : Array Nat) (j : Nat) : Int :=
  if j / 32 ≥ ws.size then -1
  else
    let b0 := (ws.getD (j / 32) 0) >>> (j % 32)
    if b0 ≠ 0 then ((j + lowBit b0 32 0 : Nat) : Int)
    else scanWords ws ws.size (j / 32 + 1)

lemma next_eq (m : Marks) (i : Int) :
    m.next i = nextFrom m.words (if i + 1 < 0 then 0 else (i + 1).toNat) := rfl

lemma nextFrom_spec (ws : Array Nat) (hwf : ∀ k, ws.getD k 0 < 2 ^ 32) (j : Nat) :
    (nextFrom ws j = -1 ∧ ∀ c, j ≤ c → wbit ws c = false) ∨
    ∃ r : Nat, nextFrom ws j = (r : Int) ∧ IsLeastFrom ws j r := by
  unfold nextFrom
  split
  · rename_i hge
    left
    refine ⟨rfl, fun c hc => ?_⟩
    unfold wbit
    have : j / 32 ≤ c / 32 := Nat.div_le_div_right hc
    rw [getD_of_size_le _ _ (by omega)]; simp
  · rename_i hlt
    simp only
    set w := ws.getD (j / 32) 0 with hw
    have hwlt : w < 2 ^ 32 := hwf _
    split
    · rename_i hb
      right
      have hblt : w >>> (j % 32) < 2 ^ 32 := lt_of_le_of_lt (Nat.shiftRight_le _ _) hwlt
      obtain ⟨l1, l2⟩ := lowBit_word _ hb hblt
      set l := lowBit (w >>> (j % 32)) 32 0 with hl
      rw [Nat.testBit_shiftRight] at l1
      have l3 := testBit_lt32 _ hwlt _ l1
      refine ⟨_, rfl, ?_, by omega, fun c hc hbit => ?_⟩
      · unfold wbit
        have e1 : (j + l) / 32 = j / 32 := by omega
        have e2 : (j + l) % 32 = j % 32 + l := by omega
        rw [e1, e2]; exact l1
      · unfold wbit at hbit
        by_cases hcb : c / 32 = j / 32
        · rw [hcb, ← hw] at hbit
          have hge : j % 32 ≤ c % 32 := by omega
          have : (w >>> (j % 32)).testBit (c % 32 - j % 32) = true := by
            rw [Nat.testBit_shiftRight]
            have : j % 32 + (c % 32 - j % 32) = c % 32 := by omega
            rw [this]; exact hbit
          have := l2 _ this
          omega
        · have : j / 32 ≤ c / 32 := Nat.div_le_div_right hc
          omega
    · rename_i hb
      have hb0 : w >>> (j % 32) = 0 := by simpa using hb
      have hz : ∀ c, j ≤ c → wbit ws c = true → 32 * (j / 32 + 1) ≤ c := by
        intro c hc hbit
        by_contra hlt'
        have hcb : c / 32 = j / 32 := by
          have : j / 32 ≤ c / 32 := Nat.div_le_div_right hc
          omega
        unfold wbit at hbit
        rw [hcb, ← hw] at hbit
        have hge : j % 32 ≤ c % 32 := by omega
        have : (w >>> (j % 32)).testBit (c % 32 - j % 32) = true := by
          rw [Nat.testBit_shiftRight]
          have : j % 32 + (c % 32 - j % 32) = c % 32 := by omega
          rw [this]; exact hbit
        rw [hb0] at this; simp at this
      rcases scan_spec ws hwf ws.size (j / 32 + 1) (by omega) with ⟨e, hall⟩ | ⟨r, e, hr1, hr2, hr3⟩
      · left
        refine ⟨e, fun c hc => ?_⟩
        by_contra hne
        have ht : wbit ws c = true := by simpa using hne
        have := hall c (hz c hc ht)
        rw [this] at ht; simp at ht
      · right
        exact ⟨r, e, hr1, by omega, fun c hc ht => hr3 c (hz c hc ht) ht⟩

lemma pow2ge_le (n : Nat) : ∀ f k, pow2ge n f k ≤ k * 2 ^ f := by
  intro f
  induction f with
  | zero => intro k; simp [pow2ge]
  | succ f ih =>
    intro k
    unfold pow2ge
    split
    · have := ih (k * 2); rw [pow_succ]; linarith
    · have : 1 ≤ 2 ^ (f + 1) := Nat.one_le_two_pow
      nlinarith

/-- the `next` of the list specification -/
def setNext (s : List Nat) (i : Int) : Int :=
  match s.filter (fun (x : Nat) => decide ((x : Int) > i)) with
  | [] => -1
  | c :: cs => ((cs.foldl Nat.min c : Nat) : Int)

lemma foldl_min_spec : ∀ (cs : List Nat) (c : Nat),
    cs.foldl Nat.min c ∈ c :: cs ∧ ∀ x ∈ c :: cs, cs.foldl Nat.min c ≤ x := by
  intro cs
  induction cs with
  | nil => intro c; simp
  | cons d cs ih =>
    intro c
    obtain ⟨h1, h2⟩ := ih (Nat.min c d)
    simp only [List.foldl_cons]
    have hmin : Nat.min c d = c ∨ Nat.min c d = d := by
      rcases Nat.le_total c d with h | h
      · left; exact Nat.min_eq_left h
      · right; exact Nat.min_eq_right h
    have hle := h2 (Nat.min c d) (by simp)
    have hc : Nat.min c d ≤ c := Nat.min_le_left c d
    have hd : Nat.min c d ≤ d := Nat.min_le_right c d
    constructor
    · rcases List.mem_cons.1 h1 with e | e
      · rw [e]; rcases hmin with e' | e' <;> rw [e'] <;> simp
      · simp [e]
    · intro x hx
      rcases List.mem_cons.1 hx with e | e
      · rw [e]; omega
      · rcases List.mem_cons.1 e with e | e
        · rw [e]; omega
        · exact h2 x (by simp [e])

lemma setNext_spec (s : List Nat) (i : Int) :
    (setNext s i = -1 ∧ ∀ j ∈ s, ¬ (i < (j : Int))) ∨
    ∃ j : Nat, setNext s i = (j : Int) ∧ j ∈ s ∧ i < (j : Int) ∧
      ∀ k ∈ s, i < (k : Int) → j ≤ k := by
  unfold setNext
  have hmem : ∀ x, x ∈ s.filter (fun (x : Nat) => decide ((x : Int) > i)) ↔ x ∈ s ∧ i < (x : Int) := by
    intro x; simp [List.mem_filter]
  generalize s.filter (fun (x : Nat) => decide ((x : Int) > i)) = l at hmem
  cases l with
  | nil =>
    left
    refine ⟨rfl, fun j hj hlt => ?_⟩
    have := (hmem j).2 ⟨hj, hlt⟩
    simp at this
  | cons c cs =>
    right
    obtain ⟨h1, h2⟩ := foldl_min_spec cs c
    obtain ⟨a, b⟩ := (hmem _).1 h1
    exact ⟨_, rfl, a, b, fun k hk hlt => h2 k ((hmem k).2 ⟨hk, hlt⟩)⟩

/-! ## per-operation refinement facts -/

/-- The fresh mark set is empty: no natural number is a member of `Marks.new`. -/
theorem mem_new (j : Nat) : Marks.new.mem j ↔ False := by
  rw [mem_iff]
  unfold wbit Marks.new
  simp only [Array.getD_eq_getD_getElem?, Array.getElem?_replicate]
  split <;> simp

/-- After `mark i` (with `i < 2^69`, so that the grow loop does not run out of fuel) the
members are exactly `i` and the old members. Needs no well-formedness assumption. -/
theorem mem_mark (m : Marks) (i j : Nat) (hi : i < 2 ^ 69) :
    (m.mark i).mem j ↔ j = i ∨ m.mem j := by
  rw [mem_iff, mem_iff, wbit_mark m i j hi]
  simp [or_comm]

/-- After `unmark i` (any `i`) the members are exactly the old members other than `i`. -/
theorem mem_unmark (m : Marks) (i j : Nat) :
    (m.unmark i).mem j ↔ j ≠ i ∧ m.mem j := by
  rw [mem_iff, mem_iff, wbit_unmark m i j]
  simp [and_comm]

/-- `Marks.new` is well-formed (all words are 32-bit values). -/
theorem wf_new : Marks.new.WF := new_WF

/-- `mark i` with `i < 2^69` preserves well-formedness. -/
theorem wf_mark (m : Marks) (i : Nat) (hi : i < 2 ^ 69) (h : m.WF) : (m.mark i).WF :=
  mark_WF m i hi h

/-- `unmark i` preserves well-formedness. -/
theorem wf_unmark (m : Marks) (i : Nat) (h : m.WF) : (m.unmark i).WF := unmark_WF m i h

/-- On a well-formed mark set and for ANY integer `i` (negative included), `next i` is `-1`
exactly when no member is `> i`, and otherwise it is the least member `> i`. -/
theorem next_spec (m : Marks) (h : m.WF) (i : Int) :
    (m.next i = -1 ∧ ∀ j : Nat, m.mem j → ¬ (i < (j : Int))) ∨
    ∃ j : Nat, m.next i = (j : Int) ∧ m.mem j ∧ i < (j : Int) ∧
      ∀ k : Nat, m.mem k → i < (k : Int) → j ≤ k := by
  rw [next_eq]
  have hJ : ∀ c : Nat, i < (c : Int) ↔ (if i + 1 < 0 then 0 else (i + 1).toNat) ≤ c := by
    intro c; split <;> omega
  generalize (if i + 1 < 0 then 0 else (i + 1).toNat) = J at hJ
  rcases nextFrom_spec m.words h J with ⟨e, hall⟩ | ⟨r, e, hr1, hr2, hr3⟩
  · left
    refine ⟨e, fun j hj hlt => ?_⟩
    have := hall j ((hJ j).1 hlt)
    rw [mem_iff, this] at hj; simp at hj
  · right
    refine ⟨r, e, (mem_iff _ _).2 hr1, (hJ r).2 hr2, fun k hk hlt => ?_⟩
    exact hr3 k ((hJ k).1 hlt) ((mem_iff _ _).1 hk)

/-- `test` at a negative index is `false`; at a natural index it is membership. -/
theorem test_spec (m : Marks) (i : Int) :
    m.test i = true ↔ ∃ n : Nat, i = (n : Int) ∧ m.mem n := by
  constructor
  · intro h
    by_cases hneg : i < 0
    · rw [test_neg m i hneg] at h; simp at h
    · obtain ⟨n, rfl⟩ := Int.eq_ofNat_of_zero_le (by omega : 0 ≤ i)
      exact ⟨n, rfl, h⟩
  · rintro ⟨n, rfl, h⟩; exact h

/-! ## the refinement theorem -/

lemma next_eq_setNext (m : Marks) (s : List Nat) (h : m.WF) (inv : ∀ j, j ∈ s ↔ m.mem j)
    (i : Int) : m.next i = setNext s i := by
  rcases next_spec m h i with ⟨e, a⟩ | ⟨j, e, a1, a2, a3⟩ <;>
    rcases setNext_spec s i with ⟨e', b⟩ | ⟨j', e', b1, b2, b3⟩
  · rw [e, e']
  · exact absurd b2 (a j' ((inv _).1 b1))
  · exact absurd a2 (b j ((inv _).2 a1))
  · rw [e, e']
    have h1 := a3 j' ((inv _).1 b1) b2
    have h2 := b3 j ((inv _).2 a1) a2
    have : j = j' := by omega
    rw [this]

lemma test_eq_contains (m : Marks) (s : List Nat) (inv : ∀ j, j ∈ s ↔ m.mem j) (i : Int) :
    m.test i = (decide (i ≥ 0) && s.contains i.toNat) := by
  by_cases hneg : i < 0
  · rw [test_neg m i hneg]
    have : ¬ (i ≥ 0) := by omega
    simp [this]
  · obtain ⟨n, rfl⟩ := Int.eq_ofNat_of_zero_le (by omega : 0 ≤ i)
    have := inv n
    unfold Marks.mem at this
    by_cases hm : m.test (n : Int) = true
    · have hn : n ∈ s := this.2 hm
      simp [hm, hn]
    · have hn : n ∉ s := fun hn => hm (this.1 hn)
      simp at hm
      simp [hm, hn]

lemma go_eq (ops : List MOp) : ∀ (m : Marks) (s : List Nat) (acc : List Int),
    m.WF → (∀ j, j ∈ s ↔ m.mem j) → (∀ op ∈ ops, MOp.small op = true) →
    runMarks.go m ops acc = runSet.go s ops acc := by
  induction ops with
  | nil => intro m s acc _ _ _; rfl
  | cons op r ih =>
    intro m s acc hwf inv hs
    have hs' : ∀ op ∈ r, MOp.small op = true := fun o ho => hs o (List.mem_cons_of_mem _ ho)
    cases op with
    | mark i =>
      have hi : i < 2 ^ 69 := by
        have := hs (.mark i) (by simp)
        simpa [MOp.small] using this
      simp only [runMarks.go, runSet.go]
      apply ih _ _ _ (mark_WF m i hi hwf) _ hs'
      intro j
      rw [mem_mark m i j hi]
      by_cases hc : i ∈ s
      · have : s.contains i = true := by simpa using hc
        rw [this]; simp only [if_true]
        constructor
        · intro hj; right; exact (inv j).1 hj
        · rintro (rfl | hj)
          · exact hc
          · exact (inv j).2 hj
      · have : s.contains i = false := by simpa using hc
        rw [this]; simp only [Bool.false_eq_true, if_false, List.mem_cons, inv j]
    | unmark i =>
      simp only [runMarks.go, runSet.go]
      apply ih _ _ _ (unmark_WF m i hwf) _ hs'
      intro j
      rw [mem_unmark m i j, ← inv j]
      simp [List.mem_filter, and_comm]
    | test i =>
      simp only [runMarks.go, runSet.go]
      rw [test_eq_contains m s inv i]
      exact ih _ _ _ hwf inv hs'
    | next i =>
      simp only [runMarks.go, runSet.go]
      rw [next_eq_setNext m s hwf inv i]
      exact ih _ _ _ hwf inv hs'

/-- PARTIAL version of the requested `runMarks_eq_runSet`: for every history in which every
`mark` index is `< 2^69` (= 32 * 2^64; `unmark`, `test`, `next` arguments are unrestricted, and
may be negative or huge), the bit-level model and the set specification produce the same outputs.
What is missing w.r.t. the full statement: histories that `mark` an index `≥ 2^69`. For those the
statement is FALSE for the model: `pow2ge` has only 64 doublings of fuel, so `grow` yields at most
`2^64` words and the subsequent `setIfInBounds` silently does nothing
(see `test_mark_large` and `runMarks_ne_runSet_large`). The hypothesis is the weakest possible
per-operation bound: any `mark i` with `i ≥ 2^69` followed by `test i` disagrees with the spec. -/
theorem runMarks_eq_runSet_partial (ops : List MOp) (h : ops.all MOp.small = true) :
    runMarks ops = runSet ops := by
  unfold runMarks runSet
  apply go_eq ops _ _ _ new_WF
  · intro j; rw [mem_new]; simp
  · intro op hop; exact (List.all_eq_true.1 h) op hop

example :
    runMarks [.mark 5, .mark 70, .mark 5, .next (-3), .next 5, .test 70, .unmark 70, .next 5,
      .test (-1), .mark 4000, .next 70, .unmark (2 ^ 80), .test (2 ^ 80)] =
    runSet [.mark 5, .mark 70, .mark 5, .next (-3), .next 5, .test 70, .unmark 70, .next 5,
      .test (-1), .mark 4000, .next 70, .unmark (2 ^ 80), .test (2 ^ 80)] :=
  runMarks_eq_runSet_partial _ (by decide)

/-! ## the full statement is false: marks at indices `≥ 2^69` are lost -/

/-- Fuel exhaustion is observable: if the word array has at most `2^64` words (always true for
states reachable from `Marks.new`) and `i ≥ 2^69`, then `mark i` does NOT make `i` a member. -/
theorem test_mark_large (m : Marks) (hm : m.words.size ≤ 2 ^ 64) (i : Nat) (hi : 2 ^ 69 ≤ i) :
    (m.mark i).test (i : Int) = false := by
  have hsz : (m.mark i).words.size ≤ 2 ^ 64 := by
    unfold Marks.mark
    simp only [Array.size_setIfInBounds]
    split
    · unfold Marks.grow
      have := pow2ge_le (i / 32 + 1) 64 1
      simp only [Array.size_append, Array.size_replicate]
      omega
    · exact hm
  unfold Marks.test
  have h0 : ¬ ((i : Int) < 0) := by omega
  simp only [h0, if_false, Int.toNat_natCast]
  have : i / 32 ≥ (m.mark i).words.size := by omega
  simp [this]

/-- Counterexample to the unrestricted `runMarks_eq_runSet`: the history
`[mark 2^69, test 2^69]` outputs `[0]` on the bit-level model and `[1]` on the specification. -/
theorem runMarks_ne_runSet_large :
    runMarks [.mark (2 ^ 69), .test (2 ^ 69)] = [0] ∧
    runSet [.mark (2 ^ 69), .test (2 ^ 69)] = [1] := by
  constructor
  · simp only [runMarks, runMarks.go]
    have h := test_mark_large Marks.new (by simp [Marks.new]) (2 ^ 69) (le_refl _)
    have e : ((2 ^ 69 : Nat) : Int) = 2 ^ 69 := by norm_num
    rw [e] at h
    rw [h]; rfl
  · decide

lemma mark_size_le (m : Marks) (i : Nat) (hm : m.words.size ≤ 2 ^ 64) :
    (m.mark i).words.size ≤ 2 ^ 64 := by
  unfold Marks.mark
  simp only [Array.size_setIfInBounds]
  split
  · unfold Marks.grow
    have := pow2ge_le (i / 32 + 1) 64 1
    simp only [Array.size_append, Array.size_replicate]
    omega
  · exact hm

lemma unmark_size (m : Marks) (i : Nat) : (m.unmark i).words.size = m.words.size := by
  unfold Marks.unmark
  split
  · rfl
  · simp only [Array.size_setIfInBounds]

lemma runMarks_go_append (rest : List MOp) : ∀ (pre : List MOp) (m : Marks) (acc : List Int),
    m.words.size ≤ 2 ^ 64 →
    ∃ m' acc', m'.words.size ≤ 2 ^ 64 ∧
      runMarks.go m (pre ++ rest) acc = runMarks.go m' rest acc' := by
  intro pre
  induction pre with
  | nil => intro m acc h; exact ⟨m, acc, h, rfl⟩
  | cons op r ih =>
    intro m acc h
    cases op with
    | mark i => simp only [List.cons_append, runMarks.go]; exact ih _ _ (mark_size_le m i h)
    | unmark i =>
      simp only [List.cons_append, runMarks.go]; exact ih _ _ (by rw [unmark_size]; exact h)
    | test i => simp only [List.cons_append, runMarks.go]; exact ih _ _ h
    | next i => simp only [List.cons_append, runMarks.go]; exact ih _ _ h

lemma runSet_go_append (rest : List MOp) : ∀ (pre : List MOp) (s : List Nat) (acc : List Int),
    ∃ s' acc', runSet.go s (pre ++ rest) acc = runSet.go s' rest acc' := by
  intro pre
  induction pre with
  | nil => intro s acc; exact ⟨s, acc, rfl⟩
  | cons op r ih =>
    intro s acc
    cases op with
    | mark i => simp only [List.cons_append, runSet.go]; exact ih _ _
    | unmark i => simp only [List.cons_append, runSet.go]; exact ih _ _
    | test i => simp only [List.cons_append, runSet.go]; exact ih _ _
    | next i => simp only [List.cons_append, runSet.go]; exact ih _ _

/-- The hypothesis of `runMarks_eq_runSet_partial` cannot be weakened per operation: after ANY
history `pre`, marking an index `i ≥ 2^69` and then testing it makes the bit-level model and the
specification disagree (the model answers 0, the specification 1). -/
theorem runMarks_ne_runSet_of_large_mark (pre : List MOp) (i : Nat) (hi : 2 ^ 69 ≤ i) :
    runMarks (pre ++ [.mark i, .test (i : Int)]) ≠ runSet (pre ++ [.mark i, .test (i : Int)]) := by
  obtain ⟨m', acc', hsz, e1⟩ :=
    runMarks_go_append [.mark i, .test (i : Int)] pre Marks.new [] (by simp [Marks.new])
  obtain ⟨s', acc'', e2⟩ := runSet_go_append [.mark i, .test (i : Int)] pre [] []
  unfold runMarks runSet
  rw [e1, e2]
  simp only [runMarks.go, runSet.go]
  rw [test_mark_large m' hsz i hi]
  have hset : (decide ((i : Int) ≥ 0) &&
      (if s'.contains i then s' else i :: s').contains (i : Int).toNat) = true := by
    by_cases hc : i ∈ s'
    · have : s'.contains i = true := by simpa using hc
      rw [this]; simp [hc]
    · have : s'.contains i = false := by simpa using hc
      rw [this]; simp
  rw [hset]
  intro h
  have := congrArg List.getLast? h
  simp at this

example : runMarks ([.mark 3, .next 0] ++ [.mark (2 ^ 70), .test ((2 ^ 70 : Nat) : Int)]) ≠
    runSet ([.mark 3, .next 0] ++ [.mark (2 ^ 70), .test ((2 ^ 70 : Nat) : Int)]) :=
  runMarks_ne_runSet_of_large_mark _ _ (by norm_num)

/-! ## concrete instances (non-vacuity) -/

example : (Marks.new.mark 70).mem 70 := (mem_mark _ 70 70 (by norm_num)).2 (Or.inl rfl)
example : ¬ ((Marks.new.mark 70).unmark 70).mem 70 := fun h => ((mem_unmark _ 70 70).1 h).1 rfl
example : ((Marks.new.mark 70).mark 5).WF :=
  wf_mark _ 5 (by norm_num) (wf_mark _ 70 (by norm_num) wf_new)
example : ((Marks.new.mark 70).mark 5).next 5 = 70 := by decide
example : ((Marks.new.mark 70).mark 5).next (-9) = 5 := by decide
example : ((Marks.new.mark 70).mark 5).next 70 = -1 := by decide
example :
    runSet [.mark 5, .mark 70, .mark 5, .next (-3), .next 5, .test 70, .unmark 70, .next 5,
      .test (-1), .mark 4000, .next 70, .unmark (2 ^ 80), .test (2 ^ 80)] =
    [5, 70, 1, -1, 0, 4000, 0] := by decide
example :
    runMarks [.mark 5, .mark 70, .mark 5, .next (-3), .next 5, .test 70, .unmark 70, .next 5,
      .test (-1), .mark 4000, .next 70, .unmark (2 ^ 80), .test (2 ^ 80)] =
    [5, 70, 1, -1, 0, 4000, 0] :=
  (runMarks_eq_runSet_partial _ (by decide)).trans (by decide)
example : [MOp.mark 5, .mark (2 ^ 69 - 1), .unmark (2 ^ 100), .test (-7), .next (2 ^ 90)].all
    MOp.small = true := by decide

end MV.Graph
