import Mathlib.Tactic
import MV.Model.Graph
/-!
# C18 (misc) — dot quoting, sortNat / Equal, transpose, SimplifyMulti, subgraphs

Property theorems (`theorem`, documented) about the executable models in
`MV/Model/Graph.lean`; helper results are `lemma`s.
-/

namespace MV.Graph

/-- the per-character escape used by `dotEscape` -/
def escChar (c : Char) : List Char :=
  if c == '\n' then ['\\', 'n']
  else if c == '\\' || c == '"' || c == '{' || c == '}' || c == '<' || c == '>' || c == '|' then ['\\', c]
  else [c]

lemma dotEscape_eq (s : List Char) : dotEscape s = '"' :: (s.flatMap escChar ++ ['"']) := by
  rfl

lemma go_escape (s : List Char) (acc : List Char) :
    dotUnescape.go (s.flatMap escChar ++ ['"']) acc = some (acc.reverse ++ s) := by
  induction s generalizing acc with
  | nil => simp [dotUnescape.go]
  | cons c s ih =>
    simp only [List.flatMap_cons, escChar]
    split_ifs with h1 h2
    · simp at h1
      subst h1
      simp [dotUnescape.go, ih]
    · have hn : c ≠ 'n' := by
        rintro rfl; simp at h2
      have hn' : c ≠ '\n' := by simpa using h1
      simp only [List.cons_append, List.nil_append]
      rw [dotUnescape.go.eq_3 _ _ _ hn, ih]; simp
    · simp only [Bool.or_eq_true, beq_iff_eq, not_or] at h2
      simp only [List.cons_append, List.nil_append]
      rw [dotUnescape.go.eq_5 _ _ _ (fun h => absurd h h2.1.1.1.1.1.2)
        (fun _ h => absurd h h2.1.1.1.1.1.1) (fun _ _ h => absurd h h2.1.1.1.1.1.1)
        (fun h => absurd h h2.1.1.1.1.1.2), ih]
      simp


/-- Quoting a string with `dotEscape` and reading it back with `dotUnescape` restores the
original string, for every string (all characters, including newline, backslash, quote,
braces, angle brackets and bar).  In particular `dotUnescape` accepts (consumes the whole of)
every output of `dotEscape`. -/
theorem dotUnescape_dotEscape (s : List Char) : dotUnescape (dotEscape s) = some s := by
  rw [dotEscape_eq]
  simp only [dotUnescape]
  rw [go_escape]; simp

example : dotUnescape (dotEscape "a\"b\\c\n{<|>}".toList) = some "a\"b\\c\n{<|>}".toList :=
  dotUnescape_dotEscape _

/-- `dotEscape` is injective: distinct strings get distinct quoted forms. -/
theorem dotEscape_injective : Function.Injective dotEscape := by
  intro a b h
  have := congrArg dotUnescape h
  simpa [dotUnescape_dotEscape] using this

example : dotEscape "a|b".toList ≠ dotEscape "a\\|b".toList :=
  fun h => absurd (dotEscape_injective h) (by decide)

/-- Scanner for the body of a quoted token: `true` iff the body contains no unescaped `"`
and does not end in a dangling backslash (a backslash always swallows the next character). -/
def noBareQuote : List Char → Bool
  | [] => true
  | '\\' :: _ :: r => noBareQuote r
  | ['\\'] => false
  | '"' :: _ => false
  | _ :: r => noBareQuote r

lemma noBareQuote_append_esc (c : Char) (r : List Char) :
    noBareQuote (escChar c ++ r) = noBareQuote r := by
  unfold escChar
  split_ifs with h1 h2
  · simp [noBareQuote]
  · simp [noBareQuote]
  · simp only [Bool.or_eq_true, beq_iff_eq, not_or] at h2
    simp only [List.cons_append, List.nil_append]
    rw [noBareQuote.eq_5]
    · intro _ _ h; exact absurd h h2.1.1.1.1.1.1
    · intro h; exact absurd h h2.1.1.1.1.1.1
    · intro h; exact absurd h h2.1.1.1.1.1.2

/-- The output of `dotEscape` is exactly one quoted token: an opening `"`, a body in which
every `"` is escaped (no bare quote, no dangling backslash — `noBareQuote`), and a closing `"`. -/
theorem dotEscape_one_token (s : List Char) :
    ∃ body, dotEscape s = '"' :: (body ++ ['"']) ∧ noBareQuote body = true := by
  refine ⟨s.flatMap escChar, dotEscape_eq s, ?_⟩
  induction s with
  | nil => simp [noBareQuote]
  | cons c s ih => rw [List.flatMap_cons, noBareQuote_append_esc]; exact ih

example : ∃ body, dotEscape "a\"b".toList = '"' :: (body ++ ['"']) ∧ noBareQuote body = true :=
  dotEscape_one_token _
example : noBareQuote "a\"b".toList = false := by decide
example : noBareQuote "a\\\"b".toList = true := by decide


/-! ## sortNat, graphEqual -/

lemma insertSorted_perm (x : Nat) (l : List Nat) : (insertSorted x l).Perm (x :: l) := by
  induction l with
  | nil => simp [insertSorted]
  | cons y r ih =>
    simp only [insertSorted]
    split_ifs
    · exact List.Perm.refl _
    · exact ((List.Perm.cons y ih).trans (List.Perm.swap x y r))

lemma insertSorted_sorted (x : Nat) (l : List Nat) (h : l.Pairwise (· ≤ ·)) :
    (insertSorted x l).Pairwise (· ≤ ·) := by
  induction l with
  | nil => simp [insertSorted]
  | cons y r ih =>
    simp only [insertSorted]
    split_ifs with hxy
    · refine List.Pairwise.cons ?_ h
      intro z hz
      rcases List.mem_cons.1 hz with rfl | hz
      · exact hxy
      · exact le_trans hxy (List.rel_of_pairwise_cons h hz)
    · rw [List.pairwise_cons] at h ⊢
      refine ⟨?_, ih h.2⟩
      intro z hz
      rcases List.mem_cons.1 ((insertSorted_perm x r).subset hz) with rfl | hz
      · omega
      · exact h.1 z hz

lemma foldl_insertSorted_perm (l acc : List Nat) :
    (l.foldl (fun acc x => insertSorted x acc) acc).Perm (acc ++ l) := by
  induction l generalizing acc with
  | nil => simp
  | cons x l ih =>
    simp only [List.foldl_cons]
    refine (ih _).trans ?_
    refine ((insertSorted_perm x acc).append_right l).trans ?_
    simpa using (List.perm_middle (a := x) (l₁ := acc) (l₂ := l)).symm

lemma foldl_insertSorted_sorted (l acc : List Nat) (h : acc.Pairwise (· ≤ ·)) :
    (l.foldl (fun acc x => insertSorted x acc) acc).Pairwise (· ≤ ·) := by
  induction l generalizing acc with
  | nil => simpa
  | cons x l ih => exact ih _ (insertSorted_sorted x acc h)

/-- `sortNat l` is a rearrangement of `l` (same elements with the same multiplicities). -/
theorem sortNat_perm (l : List Nat) : (sortNat l).Perm l := by
  simpa [sortNat] using foldl_insertSorted_perm l []

/-- `sortNat l` is in non-decreasing order. -/
theorem sortNat_sorted (l : List Nat) : (sortNat l).Pairwise (· ≤ ·) :=
  foldl_insertSorted_sorted l [] List.Pairwise.nil

example : sortNat [3, 1, 2, 1] = [1, 1, 2, 3] := by decide
example : (sortNat [3, 1, 2, 1]).Perm [3, 1, 2, 1] := sortNat_perm _
example : (sortNat [3, 1, 2, 1]).Pairwise (· ≤ ·) := sortNat_sorted _

lemma sortNat_eq_iff_perm (a b : List Nat) : sortNat a = sortNat b ↔ a.Perm b := by
  constructor
  · intro h
    exact (sortNat_perm a).symm.trans (h ▸ sortNat_perm b)
  · intro h
    have hp : (sortNat a).Perm (sortNat b) := (sortNat_perm a).trans (h.trans (sortNat_perm b).symm)
    exact hp.eq_of_pairwise (fun _ _ _ _ h1 h2 => le_antisymm h1 h2) (sortNat_sorted a) (sortNat_sorted b)

/-- `graphEqual` holds exactly when the two graphs have the same number of nodes and, node by
node, their adjacency lists are equal as multisets (same successors with the same
multiplicities, order ignored). -/
theorem graphEqual_iff (g1 g2 : G) :
    graphEqual g1 g2 = true ↔ g1.size = g2.size ∧ ∀ i < g1.size, (out g1 i).Perm (out g2 i) := by
  simp only [graphEqual, Bool.and_eq_true, beq_iff_eq, List.all_eq_true, List.mem_range,
    sortNat_eq_iff_perm]

example : graphEqual #[[1, 2, 1], [0]] #[[2, 1, 1], [0]] = true := by decide
example : graphEqual #[[1, 2, 1], [0]] #[[2, 1], [0]] = false := by decide
example : (out (#[[1, 2, 1], [0]] : G) 0).Perm (out (#[[2, 1, 1], [0]] : G) 0) :=
  ((graphEqual_iff _ _).1 (by decide)).2 0 (by decide)


/-! ## transpose -/

/-- The transpose has one in-list per node. -/
theorem transpose_length (g : G) : (transpose g).length = g.size := by
  simp [transpose]

lemma count_filterMap_src (l : List Nat) (v u u' : Nat) :
    (l.filterMap fun w => if w == v then some u' else none).count u =
      if u' = u then l.count v else 0 := by
  induction l with
  | nil => simp
  | cons w l ih =>
    simp only [beq_iff_eq] at ih ⊢
    by_cases hu : u' = u
    · subst hu
      by_cases hw : w = v <;> simp_all [List.filterMap_cons, List.count_cons]
    · by_cases hw : w = v <;> simp_all [List.filterMap_cons, List.count_cons]

lemma count_flatMap_range (n : Nat) (f : Nat → List Nat) (u : Nat) (c : Nat)
    (h : ∀ u', (f u').count u = if u' = u then c else 0) :
    ((List.range n).flatMap f).count u = if u < n then c else 0 := by
  induction n with
  | zero => simp
  | succ n ih =>
    rw [List.range_succ, List.flatMap_append, List.count_append, ih]
    simp only [List.flatMap_cons, List.flatMap_nil, List.append_nil, h]
    by_cases h1 : u < n
    · have : n ≠ u := by omega
      simp [h1, this]; omega
    · by_cases h2 : n = u
      · subst h2; simp
      · have : ¬ u < n + 1 := by omega
        simp [h1, h2, this]

/-- In is the transpose of Out with multiplicity (strong form, no well-formedness needed):
the number of times `u` occurs in the in-list of `v` equals the number of times `v` occurs
in the out-list of `u`. -/
theorem transpose_count' (g : G) (u v : Nat) (hu : u < g.size) (hv : v < g.size) :
    ((transpose g).getD v []).count u = (out g u).count v := by
  have : (transpose g).getD v [] =
      (List.range g.size).flatMap fun u => (out g u).filterMap fun w => if w == v then some u else none := by
    simp [transpose, List.getD, hv]
  rw [this, count_flatMap_range g.size _ u ((out g u).count v)]
  · simp [hu]
  · intro u'
    rw [count_filterMap_src]
    by_cases h : u' = u
    · subst h; simp
    · simp [h]

/-- In is the transpose of Out with multiplicity: for a well-formed graph (every successor
is a node) and nodes `u`, `v`, the number of times `u` occurs in the in-list of `v` equals the
number of times `v` occurs in the out-list of `u`.  (The well-formedness hypothesis is not
used by the proof; see `transpose_count'`.) -/
theorem transpose_count (g : G) (hwf : ∀ u < g.size, ∀ v ∈ out g u, v < g.size) (u v : Nat)
    (hu : u < g.size) (hv : v < g.size) :
    ((transpose g).getD v []).count u = (out g u).count v :=
  transpose_count' g u v hu hv

/-- decidable form of the well-formedness hypothesis -/
def wfB (g : G) : Bool := (List.range g.size).all fun u => (out g u).all fun v => decide (v < g.size)

lemma wfB_iff (g : G) : wfB g = true ↔ ∀ u < g.size, ∀ v ∈ out g u, v < g.size := by
  simp [wfB]

example : wfB #[[1, 1, 2], [0, 2], [2]] = true := by decide
example : transpose #[[1, 1, 2], [0, 2], [2]] = [[1], [0, 0], [0, 1, 2]] := by decide
example : ((transpose #[[1, 1, 2], [0, 2], [2]]).getD 1 []).count 0 = 2 := by
  rw [transpose_count _ ((wfB_iff _).1 (by decide)) 0 1 (by decide) (by decide)]; decide
example : (transpose #[[1, 1, 2], [0, 2], [2]]).length = 3 := transpose_length _
example : ((transpose #[[1, 1, 2], [0, 2], [2]]).getD 2 []).count 1 = (out #[[1, 1, 2], [0, 2], [2]] 1).count 2 :=
  transpose_count' _ 1 2 (by decide) (by decide)


/-! ## simplifyNode -/

/-- one step of the `simplifyNode` fold -/
def sstep (acc : List (Nat × Rat)) (p : Nat × Rat) : List (Nat × Rat) :=
  if acc.any (·.1 == p.1) then acc.map fun (o', w') => if o' == p.1 then (o', w' + p.2) else (o', w')
  else acc ++ [(p.1, p.2)]

lemma simplifyNode_eq (outs : List Nat) (ws : List Rat) :
    simplifyNode outs ws = (outs.zip ws).foldl sstep [] := by
  unfold simplifyNode
  congr 1

lemma sstep_keys (acc : List (Nat × Rat)) (p : Nat × Rat) :
    (sstep acc p).map (·.1) =
      if p.1 ∈ acc.map (·.1) then acc.map (·.1) else acc.map (·.1) ++ [p.1] := by
  unfold sstep
  by_cases h : p.1 ∈ acc.map (·.1)
  · have h' : acc.any (·.1 == p.1) = true := by
      simp only [List.mem_map] at h
      obtain ⟨a, ha, hap⟩ := h
      simp only [List.any_eq_true, beq_iff_eq]
      exact ⟨a, ha, hap⟩
    rw [if_pos h', if_pos h, List.map_map]
    apply List.map_congr_left
    rintro ⟨o', w'⟩ _
    simp only [Function.comp]
    split_ifs <;> rfl
  · have h' : ¬ acc.any (·.1 == p.1) = true := by
      intro hh
      apply h
      simp only [List.any_eq_true, beq_iff_eq] at hh
      obtain ⟨a, ha, hap⟩ := hh
      exact List.mem_map.2 ⟨a, ha, hap⟩
    rw [if_neg h', if_neg h]
    simp

lemma foldl_sstep_nodup (l acc : List (Nat × Rat)) (h : (acc.map (·.1)).Nodup) :
    ((l.foldl sstep acc).map (·.1)).Nodup := by
  induction l generalizing acc with
  | nil => simpa
  | cons p l ih =>
    simp only [List.foldl_cons]
    apply ih
    rw [sstep_keys]
    split_ifs with hp
    · exact h
    · exact List.Nodup.append h (by simp) (by simpa using hp)

lemma foldl_sstep_mem (l acc : List (Nat × Rat)) (o : Nat) :
    o ∈ (l.foldl sstep acc).map (·.1) ↔ o ∈ acc.map (·.1) ∨ o ∈ l.map (·.1) := by
  induction l generalizing acc with
  | nil => simp
  | cons p l ih =>
    simp only [List.foldl_cons, List.map_cons, List.mem_cons]
    rw [ih, sstep_keys]
    split_ifs with hp
    · constructor
      · rintro (h | h)
        · exact Or.inl h
        · exact Or.inr (Or.inr h)
      · rintro (h | rfl | h)
        · exact Or.inl h
        · exact Or.inl hp
        · exact Or.inr h
    · simp only [List.mem_append, List.mem_singleton]
      tauto

/-- Simplify lists every target once: the targets of the merged edge list are pairwise
distinct. -/
theorem simplifyNode_nodup (outs : List Nat) (ws : List Rat) :
    ((simplifyNode outs ws).map (·.1)).Nodup := by
  rw [simplifyNode_eq]
  exact foldl_sstep_nodup _ [] (by simp)

/-- Simplify keeps exactly the original targets: with one weight per edge
(`outs.length = ws.length`), `o` is a target of the merged list iff it is a target of the
original list. -/
theorem simplifyNode_targets (outs : List Nat) (ws : List Rat) (hlen : outs.length = ws.length)
    (o : Nat) : o ∈ (simplifyNode outs ws).map (·.1) ↔ o ∈ outs := by
  rw [simplifyNode_eq, foldl_sstep_mem, List.map_fst_zip (le_of_eq hlen)]
  simp

/-- weight recorded for target `o` (0 if absent) -/
def wt (l : List (Nat × Rat)) (o : Nat) : Rat := (l.lookup o).getD 0

/-- add `x` to the weight of key `k` -/
def bump (k : Nat) (x : Rat) (p : Nat × Rat) : Nat × Rat := if p.1 = k then (p.1, p.2 + x) else p

lemma bump_eq (k : Nat) (x : Rat) :
    (fun (p : Nat × Rat) => match p with | (o', w') => if o' == k then (o', w' + x) else (o', w')) = bump k x := by
  funext p
  obtain ⟨o', w'⟩ := p
  simp [bump]

lemma lookup_map_bump (acc : List (Nat × Rat)) (k o : Nat) (x : Rat) :
    (acc.map (bump k x)).lookup o =
      (acc.lookup o).map fun w' => if o = k then w' + x else w' := by
  induction acc with
  | nil => simp
  | cons a acc ih =>
    obtain ⟨o', w'⟩ := a
    rw [List.map_cons, List.lookup_cons]
    by_cases ho : o = o'
    · subst ho
      have h1 : (bump k x (o, w')).1 = o := by unfold bump; split_ifs <;> rfl
      rw [List.lookup_cons]
      simp only [h1, beq_self_eq_true, Option.map_some]
      unfold bump; split_ifs <;> rfl
    · have h1 : (bump k x (o', w')).1 = o' := by unfold bump; split_ifs <;> rfl
      have : (o == o') = false := by simpa using ho
      rw [List.lookup_cons]
      simp only [h1, this, ih]

lemma lookup_none_of_any_false (acc : List (Nat × Rat)) (k : Nat)
    (h : ¬ acc.any (·.1 == k) = true) : acc.lookup k = none := by
  induction acc with
  | nil => simp
  | cons a acc ih =>
    obtain ⟨o', w'⟩ := a
    simp only [List.any_cons, Bool.or_eq_true, beq_iff_eq, not_or] at h
    have : (k == o') = false := by simpa using (Ne.symm h.1)
    simp only [List.lookup_cons, this]
    exact ih (by simpa using h.2)

lemma lookup_some_of_any_true (acc : List (Nat × Rat)) (k : Nat)
    (h : acc.any (·.1 == k) = true) : ∃ w, acc.lookup k = some w := by
  induction acc with
  | nil => simp at h
  | cons a acc ih =>
    obtain ⟨o', w'⟩ := a
    by_cases hk : k = o'
    · subst hk; exact ⟨w', by simp [List.lookup_cons]⟩
    · have : (k == o') = false := by simpa using hk
      simp only [List.lookup_cons, this]
      apply ih
      simp only [List.any_cons, Bool.or_eq_true, beq_iff_eq] at h
      rcases h with h | h
      · exact absurd h.symm hk
      · simpa using h

lemma lookup_append_single (acc : List (Nat × Rat)) (k o : Nat) (x : Rat) :
    (acc ++ [(k, x)]).lookup o = (acc.lookup o).or (if o = k then some x else none) := by
  induction acc with
  | nil =>
    by_cases h : o = k
    · subst h; simp [List.lookup_cons]
    · have : (o == k) = false := by simpa using h
      simp [List.lookup_cons, this, h]
  | cons a acc ih =>
    obtain ⟨o', w'⟩ := a
    by_cases ho : o = o'
    · subst ho; simp [List.lookup_cons]
    · have : (o == o') = false := by simpa using ho
      simp only [List.cons_append, List.lookup_cons, this, ih]

lemma wt_sstep (acc : List (Nat × Rat)) (p : Nat × Rat) (o : Nat) :
    wt (sstep acc p) o = wt acc o + if p.1 = o then p.2 else 0 := by
  unfold wt sstep
  by_cases h : acc.any (·.1 == p.1) = true
  · rw [if_pos h, bump_eq, lookup_map_bump]
    by_cases hp : p.1 = o
    · subst hp
      obtain ⟨w, hw⟩ := lookup_some_of_any_true acc _ h
      simp [hw]
    · have : ¬ o = p.1 := fun h => hp h.symm
      simp only [this, if_false, hp, add_zero]
      cases acc.lookup o <;> simp
  · rw [if_neg h, lookup_append_single]
    by_cases hp : p.1 = o
    · subst hp
      simp [lookup_none_of_any_false acc _ h]
    · have : ¬ o = p.1 := fun h => hp h.symm
      simp [this, hp]

lemma wt_foldl (l acc : List (Nat × Rat)) (o : Nat) :
    wt (l.foldl sstep acc) o = wt acc o + ((l.filter (·.1 == o)).map (·.2)).sum := by
  induction l generalizing acc with
  | nil => simp
  | cons p l ih =>
    simp only [List.foldl_cons]
    rw [ih, wt_sstep]
    by_cases hp : p.1 = o
    · simp [List.filter_cons, hp, add_assoc]
    · simp [List.filter_cons, hp]

lemma lookup_of_mem_nodup (l : List (Nat × Rat)) (h : (l.map (·.1)).Nodup) (o : Nat) (w : Rat)
    (hm : (o, w) ∈ l) : l.lookup o = some w := by
  induction l with
  | nil => simp at hm
  | cons a l ih =>
    obtain ⟨o', w'⟩ := a
    simp only [List.map_cons, List.nodup_cons] at h
    rcases List.mem_cons.1 hm with heq | hm'
    · simp only [Prod.mk.injEq] at heq
      obtain ⟨rfl, rfl⟩ := heq
      simp [List.lookup_cons]
    · have hne : o ≠ o' := by
        rintro rfl
        exact h.1 (List.mem_map.2 ⟨(o, w), hm', rfl⟩)
      have : (o == o') = false := by simpa using hne
      simp only [List.lookup_cons, this]
      exact ih h.2 hm'

/-- Simplify sums the weights of parallel edges: if the merged list pairs target `o` with
weight `w`, then `w` is the sum of `ws[k]` over all positions `k` with `outs[k] = o`
(written as the sum of the second components of the pairs of `outs.zip ws` whose first
component is `o`).  With unit weights this is the multiplicity of `o` in `outs`. -/
theorem simplifyNode_weight (outs : List Nat) (ws : List Rat) (o : Nat) (w : Rat)
    (hm : (o, w) ∈ simplifyNode outs ws) :
    w = (((outs.zip ws).filter (·.1 == o)).map (·.2)).sum := by
  have h1 := lookup_of_mem_nodup _ (simplifyNode_nodup outs ws) o w hm
  have h2 := wt_foldl (outs.zip ws) [] o
  rw [← simplifyNode_eq] at h2
  simp only [wt, h1, Option.getD_some, List.lookup_nil, Option.getD_none, zero_add] at h2
  exact h2

/-- Every original target does get a weight in the merged list (so `simplifyNode_weight`
is not vacuous): for `o ∈ outs` the pair `(o, Σ ws[k] over outs[k] = o)` is in the result. -/
theorem simplifyNode_weight_mem (outs : List Nat) (ws : List Rat) (hlen : outs.length = ws.length)
    (o : Nat) (ho : o ∈ outs) :
    (o, (((outs.zip ws).filter (·.1 == o)).map (·.2)).sum) ∈ simplifyNode outs ws := by
  have := (simplifyNode_targets outs ws hlen o).2 ho
  obtain ⟨⟨o', w⟩, hm, rfl⟩ := List.mem_map.1 this
  rwa [← simplifyNode_weight outs ws _ w hm]

example : simplifyNode [2, 1, 2, 3, 1, 2] [1, 1, 1, 1, 1, 1] = [(2, 3), (1, 2), (3, 1)] := by
  norm_num [simplifyNode]
example : ((simplifyNode [2, 1, 2, 3, 1, 2] [1, 1, 1, 1, 1, 1]).map (·.1)).Nodup :=
  simplifyNode_nodup _ _
example : 3 ∈ (simplifyNode [2, 1, 2, 3, 1, 2] [1, 1, 1, 1, 1, 1]).map (·.1) :=
  (simplifyNode_targets _ _ rfl 3).2 (by decide)
example : (2, (3 : Rat)) ∈ simplifyNode [2, 1, 2, 3, 1, 2] [1, 1, 1, 1, 1, 1] := by
  norm_num [simplifyNode]
example : ((([2, 1, 2, 3, 1, 2].zip [(1 : Rat), 1/2, 1, 1, 1, 1]).filter (·.1 == 2)).map (·.2)).sum = 3 := by
  norm_num [List.filter_cons]
example : (3 : Rat) = ((([2, 1, 2, 3, 1, 2].zip [(1 : Rat), 1, 1, 1, 1, 1]).filter (·.1 == 2)).map (·.2)).sum :=
  simplifyNode_weight [2, 1, 2, 3, 1, 2] [1, 1, 1, 1, 1, 1] 2 3 (by norm_num [simplifyNode])
example : (1, ((([2, 1, 2, 3, 1, 2].zip [(1 : Rat), 1/2, 1, 1, 1/3, 1]).filter (·.1 == 1)).map (·.2)).sum) ∈
    simplifyNode [2, 1, 2, 3, 1, 2] [1, 1/2, 1, 1, 1/3, 1] :=
  simplifyNode_weight_mem _ _ rfl 1 (by decide)


/-! ## simplifyNode: first-occurrence order -/

lemma foldl_sstep_keys (l acc : List (Nat × Rat)) :
    (l.foldl sstep acc).map (·.1) =
      acc.map (·.1) ++ ((l.map (·.1)).filter fun o => !(acc.map (·.1)).contains o).eraseDups := by
  induction l generalizing acc with
  | nil => simp
  | cons p l ih =>
    simp only [List.foldl_cons, List.map_cons]
    rw [ih, sstep_keys]
    split_ifs with hp
    · have : (!(acc.map (·.1)).contains p.1) = false := by simpa using hp
      rw [List.filter_cons, this]
      simp
    · have : (!(acc.map (·.1)).contains p.1) = true := by simpa using hp
      rw [List.filter_cons, this]
      simp only [if_true, List.eraseDups_cons, List.append_assoc, List.singleton_append,
        List.filter_filter]
      congr 3
      apply List.filter_congr
      intro o _
      by_cases h : o = p.1 <;> by_cases h2 : o ∈ acc.map (·.1) <;> simp_all

/-- Simplify lists the targets in first-occurrence order: the targets of the merged list are
`outs` with later duplicates erased. -/
theorem simplifyNode_order (outs : List Nat) (ws : List Rat) (hlen : outs.length = ws.length) :
    (simplifyNode outs ws).map (·.1) = outs.eraseDups := by
  rw [simplifyNode_eq, foldl_sstep_keys, List.map_fst_zip (le_of_eq hlen)]
  simp

example : (simplifyNode [2, 1, 2, 3, 1, 2] [1, 1, 1, 1, 1, 1]).map (·.1) = [2, 1, 3] :=
  simplifyNode_order _ _ rfl

/-! ## subgraphKeep / subgraphRemove -/

/-- nodes kept by `subgraphRemove`: all nodes not listed in `rmNodes`, increasing -/
def keptNodes (g : G) (rmNodes : List Nat) : List Nat :=
  (List.range g.size).filter fun v => !rmNodes.contains v

/-- edge indices of `old` kept by `subgraphRemove`: target not removed, edge not removed -/
def keptIdx (g : G) (rmNodes : List Nat) (rmEdges : List (Nat × Nat)) (old : Nat) : List Nat :=
  (List.range (out g old).length).filter fun j =>
    !rmNodes.contains ((out g old).getD j 0) && !rmEdges.contains (old, j)

/-- edges kept by `subgraphRemove`, in node-major then edge-index order -/
def keptEdges (g : G) (rmNodes : List Nat) (rmEdges : List (Nat × Nat)) : List (Nat × Nat) :=
  (keptNodes g rmNodes).flatMap fun u => (keptIdx g rmNodes rmEdges u).map fun j => (u, j)

lemma filter_flatMap_fst (l : List Nat) (f : Nat → List Nat) (old : Nat) :
    (l.flatMap fun u => (f u).map fun j => (u, j)).filter (fun (p : Nat × Nat) => p.1 == old) =
      (l.filter (· == old)).flatMap fun u => (f u).map fun j => (u, j) := by
  induction l with
  | nil => simp
  | cons a l ih =>
    rw [List.flatMap_cons, List.filter_append, ih]
    by_cases h : a = old
    · subst h
      have : ((f a).map fun j => (a, j)).filter (fun (p : Nat × Nat) => p.1 == a) = (f a).map fun j => (a, j) := by
        rw [List.filter_eq_self]
        intro p hp
        obtain ⟨j, _, rfl⟩ := List.mem_map.1 hp
        simp
      rw [this]
      simp [List.filter_cons]
    · have : ((f a).map fun j => (a, j)).filter (fun (p : Nat × Nat) => p.1 == old) = [] := by
        rw [List.filter_eq_nil_iff]
        intro p hp
        obtain ⟨j, _, rfl⟩ := List.mem_map.1 hp
        simpa using h
      rw [this]
      simp [List.filter_cons, h]

lemma filter_flatMap_fst_nodup (l : List Nat) (hl : l.Nodup) (f : Nat → List Nat) (old : Nat)
    (hm : old ∈ l) :
    (l.flatMap fun u => (f u).map fun j => (u, j)).filter (fun (p : Nat × Nat) => p.1 == old) =
      (f old).map fun j => (old, j) := by
  rw [filter_flatMap_fst, List.filter_beq, List.count_eq_one_of_mem hl hm]
  simp

lemma keptNodes_nodup (g : G) (rmNodes : List Nat) : (keptNodes g rmNodes).Nodup :=
  List.Nodup.filter _ List.nodup_range

/-- `subgraphRemove` is `subgraphKeep` of the complement: removing nodes `rmNodes` and edges
`rmEdges` gives the same result as keeping the nodes not in `rmNodes` (increasing order) and
the edges `keptEdges` (node-major, then edge-index order; characterised by
`mem_keptEdges` and `keptEdges_sorted`). -/
theorem subgraphRemove_eq_keep (g : G) (rmNodes : List Nat) (rmEdges : List (Nat × Nat)) :
    subgraphRemove g rmNodes rmEdges =
      subgraphKeep g (keptNodes g rmNodes) (keptEdges g rmNodes rmEdges) := by
  unfold subgraphRemove subgraphKeep
  show (keptNodes g rmNodes).map _ = (keptNodes g rmNodes).map _
  apply List.map_congr_left
  intro old hold
  have hf : (keptEdges g rmNodes rmEdges).filter (fun (p : Nat × Nat) => p.1 == old) =
      (keptIdx g rmNodes rmEdges old).map fun j => (old, j) :=
    filter_flatMap_fst_nodup _ (keptNodes_nodup g rmNodes) _ old hold
  have hf' : (keptEdges g rmNodes rmEdges).filter (fun (x : Nat × Nat) => match x with | (u, _) => u == old) =
      (keptIdx g rmNodes rmEdges old).map fun j => (old, j) := hf
  simp only [hf', List.map_map]
  simp [keptNodes, keptIdx, Function.comp_def]

/-- Membership in `keptEdges`: exactly the `(u, j)` with `u` a kept node, `j` a valid edge
index of `u`, the target `out g u [j]` not removed, and the edge `(u, j)` not removed. -/
theorem mem_keptEdges (g : G) (rmNodes : List Nat) (rmEdges : List (Nat × Nat)) (u j : Nat) :
    (u, j) ∈ keptEdges g rmNodes rmEdges ↔
      u ∈ keptNodes g rmNodes ∧ j < (out g u).length ∧ (out g u).getD j 0 ∉ rmNodes ∧
        (u, j) ∉ rmEdges := by
  simp only [keptEdges, keptIdx, List.mem_flatMap, List.mem_map, List.mem_filter, List.mem_range,
    Prod.mk.injEq, Bool.and_eq_true, Bool.not_eq_true', List.contains_eq_mem, decide_eq_false_iff_not]
  constructor
  · rintro ⟨a, ha, b, ⟨hb, h1, h2⟩, rfl, rfl⟩
    exact ⟨ha, hb, h1, h2⟩
  · rintro ⟨ha, hb, h1, h2⟩
    exact ⟨u, ha, j, ⟨hb, h1, h2⟩, rfl, rfl⟩

/-- Membership in `keptNodes`: the nodes of `g` not listed in `rmNodes`. -/
theorem mem_keptNodes (g : G) (rmNodes : List Nat) (u : Nat) :
    u ∈ keptNodes g rmNodes ↔ u < g.size ∧ u ∉ rmNodes := by
  simp [keptNodes]

/-- `keptEdges` is listed in strictly increasing lexicographic order (node first, then edge
index), so together with `mem_keptEdges` it is uniquely determined. -/
theorem keptEdges_sorted (g : G) (rmNodes : List Nat) (rmEdges : List (Nat × Nat)) :
    (keptEdges g rmNodes rmEdges).Pairwise fun p q => p.1 < q.1 ∨ (p.1 = q.1 ∧ p.2 < q.2) := by
  unfold keptEdges
  rw [List.pairwise_flatMap]
  constructor
  · intro u _
    rw [List.pairwise_map]
    have : (keptIdx g rmNodes rmEdges u).Pairwise (· < ·) :=
      List.Pairwise.filter _ List.pairwise_lt_range
    exact this.imp fun h => Or.inr ⟨rfl, h⟩
  · have : (keptNodes g rmNodes).Pairwise (· < ·) :=
      List.Pairwise.filter _ List.pairwise_lt_range
    refine this.imp ?_
    intro a b hab p hp q hq
    obtain ⟨_, _, rfl⟩ := List.mem_map.1 hp
    obtain ⟨_, _, rfl⟩ := List.mem_map.1 hq
    exact Or.inl hab

example : subgraphRemove #[[1, 2, 1], [2, 0], [0, 1, 2]] [1] [(2, 0)] = [([1], 0, [1]), ([1], 2, [2])] := by
  decide
example : keptEdges #[[1, 2, 1], [2, 0], [0, 1, 2]] [1] [(2, 0)] = [(0, 1), (2, 2)] := by decide
example : subgraphRemove #[[1, 2, 1], [2, 0], [0, 1, 2]] [1] [(2, 0)] =
    subgraphKeep #[[1, 2, 1], [2, 0], [0, 1, 2]] [0, 2] [(0, 1), (2, 2)] :=
  subgraphRemove_eq_keep _ _ _
example : (2, 2) ∈ keptEdges #[[1, 2, 1], [2, 0], [0, 1, 2]] [1] [(2, 0)] :=
  (mem_keptEdges _ _ _ 2 2).2 ⟨(mem_keptNodes _ _ 2).2 (by decide), by decide, by decide, by decide⟩
example : (2, 0) ∉ keptEdges #[[1, 2, 1], [2, 0], [0, 1, 2]] [1] [(2, 0)] :=
  fun h => ((mem_keptEdges _ _ _ 2 0).1 h).2.2.2 (by decide)
example : (keptEdges #[[1, 2, 1], [2, 0], [0, 1, 2]] [1] [(2, 0)]).Pairwise
    fun p q => p.1 < q.1 ∨ (p.1 = q.1 ∧ p.2 < q.2) := keptEdges_sorted _ _ _

/-- NodeMap translates back to the original identifiers: the recorded old node of the `i`-th
new node is the `i`-th entry of `nodes`. -/
theorem subgraphKeep_nodeMap (g : G) (nodes : List Nat) (edges : List (Nat × Nat)) :
    (subgraphKeep g nodes edges).map (·.2.1) = nodes := by
  simp [subgraphKeep, Function.comp_def]

/-- Each new node has exactly one out-edge per recorded old edge index. -/
theorem subgraphKeep_out_length (g : G) (nodes : List Nat) (edges : List (Nat × Nat)) :
    ∀ r ∈ subgraphKeep g nodes edges, r.1.length = r.2.2.length := by
  intro r hr
  simp only [subgraphKeep, List.mem_map] at hr
  obtain ⟨old, _, rfl⟩ := hr
  simp

lemma indexOf_go_spec (l : List Nat) (x i k : Nat) (h : indexOf?.go x l i = some k) :
    i ≤ k ∧ l[k - i]? = some x := by
  induction l generalizing i with
  | nil => simp [indexOf?.go] at h
  | cons y r ih =>
    simp only [indexOf?.go] at h
    split_ifs at h with hy
    · simp only [Option.some.injEq] at h
      subst h
      simp only [beq_iff_eq] at hy
      simp [hy]
    · obtain ⟨h1, h2⟩ := ih (i + 1) h
      refine ⟨by omega, ?_⟩
      have : k - i = (k - (i + 1)) + 1 := by omega
      rw [this, List.getElem?_cons_succ]
      exact h2

lemma indexOf_go_some (l : List Nat) (x i : Nat) (h : x ∈ l) : ∃ k, indexOf?.go x l i = some k := by
  induction l generalizing i with
  | nil => simp at h
  | cons y r ih =>
    simp only [indexOf?.go]
    split_ifs with hy
    · exact ⟨i, rfl⟩
    · apply ih
      rcases List.mem_cons.1 h with rfl | h
      · simp at hy
      · exact h

/-- `indexOf?` finds a position holding `x`: if it answers `k` then `l[k] = x`. -/
theorem indexOf_spec (l : List Nat) (x k : Nat) (h : indexOf? l x = some k) : l[k]? = some x := by
  have := (indexOf_go_spec l x 0 k h).2
  simpa using this

/-- `indexOf?` succeeds on members. -/
theorem indexOf_some (l : List Nat) (x : Nat) (h : x ∈ l) : ∃ k, indexOf? l x = some k :=
  indexOf_go_some l x 0 h

/-- New edge targets translate back through NodeMap: in `subgraphKeep g nodes edges`, for the
new node built from `old`, the `k`-th new out-target `t'` and the `k`-th recorded old edge index
`e` satisfy `nodes[t'] = out g old [e]`, whenever that old target is itself a kept node. -/
theorem subgraphKeep_edge (g : G) (nodes : List Nat) (edges : List (Nat × Nat))
    (r : List Nat × Nat × List Nat) (hr : r ∈ subgraphKeep g nodes edges) (k : Nat)
    (hk : k < r.2.2.length) (hin : (out g r.2.1).getD (r.2.2.getD k 0) 0 ∈ nodes) :
    nodes[r.1.getD k 0]? = some ((out g r.2.1).getD (r.2.2.getD k 0) 0) := by
  simp only [subgraphKeep, List.mem_map] at hr
  obtain ⟨old, _, rfl⟩ := hr
  simp only [List.length_map] at hk
  generalize hes : edges.filter (fun x => match x with | (u, _) => u == old) = es at *
  have hmem : es[k] ∈ edges.filter (fun x => match x with | (u, _) => u == old) := by
    rw [hes]; exact List.getElem_mem hk
  rcases hek : es[k] with ⟨u, e⟩
  have hfst : u = old := by
    have := (List.mem_filter.1 hmem).2
    rw [hek] at this
    simpa using this
  subst hfst
  simp only [List.getD_eq_getElem?_getD, List.getElem?_map, List.getElem?_eq_getElem hk, hek,
    Option.map_some, Option.getD_some] at hin ⊢
  obtain ⟨t', ht'⟩ := indexOf_some nodes _ hin
  rw [ht', Option.getD_some]
  exact indexOf_spec _ _ _ ht'

example : subgraphKeep #[[1, 2, 1], [2, 0], [0, 1, 2]] [2, 0] [(0, 1), (2, 2), (2, 0)] =
    [([0, 1], 2, [2, 0]), ([0], 0, [1])] := by decide
example : (subgraphKeep #[[1, 2, 1], [2, 0], [0, 1, 2]] [2, 0] [(0, 1), (2, 2), (2, 0)]).map (·.2.1) = [2, 0] :=
  subgraphKeep_nodeMap _ _ _
example : ([2, 0] : List Nat)[([0, 1] : List Nat).getD 1 0]? = some ((out (#[[1, 2, 1], [2, 0], [0, 1, 2]] : G) 2).getD 0 0) :=
  subgraphKeep_edge #[[1, 2, 1], [2, 0], [0, 1, 2]] [2, 0] [(0, 1), (2, 2), (2, 0)]
    ([0, 1], 2, [2, 0]) (by decide) 1 (by decide) (by decide)

example : ∀ r ∈ subgraphKeep #[[1, 2, 1], [2, 0], [0, 1, 2]] [2, 0] [(0, 1), (2, 2), (2, 0)],
    r.1.length = r.2.2.length := subgraphKeep_out_length _ _ _
example : indexOf? [4, 7, 9, 7] 7 = some 1 := by decide
example : ([4, 7, 9, 7] : List Nat)[1]? = some 7 := indexOf_spec [4, 7, 9, 7] 7 1 (by decide)
example : ∃ k, indexOf? [4, 7, 9, 7] 9 = some k := indexOf_some _ _ (by decide)

end MV.Graph
