import Mathlib.Tactic
import MV.Model.Graph
/-!
# C18 — reachability closure decides paths; soundness of the SCC checker
-/
namespace MV.Graph

/-- valid graph: every successor id is a node id -/
def WF (g : G) : Prop := ∀ u < g.size, ∀ v ∈ out g u, v < g.size

instance (g : G) : Decidable (WF g) := by unfold WF; infer_instance

/-- `a → b` is an edge of `g` -/
def Edge (g : G) (a b : Nat) : Prop := a < g.size ∧ b ∈ out g a

instance (g : G) (a b : Nat) : Decidable (Edge g a b) := by unfold Edge; infer_instance

/-- reflexive-transitive closure of the edge relation -/
def Path (g : G) : Nat → Nat → Prop := Relation.ReflTransGen (Edge g)

/-! ## expand -/

lemma foldl_set_size (ws : List Nat) (a : Array Bool) :
    (ws.foldl (fun a w => a.setIfInBounds w true) a).size = a.size := by
  induction ws generalizing a with
  | nil => rfl
  | cons w ws ih => simp [ih]

lemma getD_set_true (a : Array Bool) (w v : Nat) :
    (a.setIfInBounds w true).getD v false = true ↔ a.getD v false = true ∨ (v < a.size ∧ v = w) := by
  simp only [Array.getD_eq_getD_getElem?, Array.getElem?_setIfInBounds]
  by_cases h : w = v
  · subst h
    by_cases h2 : w < a.size
    · simp [h2]
    · simp [h2]
  · simp [h]; omega

lemma foldl_set_getD (ws : List Nat) (a : Array Bool) (v : Nat) :
    (ws.foldl (fun a w => a.setIfInBounds w true) a).getD v false = true ↔
      a.getD v false = true ∨ (v < a.size ∧ v ∈ ws) := by
  induction ws generalizing a with
  | nil => simp
  | cons w ws ih =>
    simp only [List.foldl_cons, ih, getD_set_true, Array.size_setIfInBounds, List.mem_cons]
    tauto

lemma expand_aux (g : G) (s : Array Bool) (us : List Nat) (acc : Array Bool) (v : Nat) :
    (us.foldl (fun acc u => if s.getD u false then
        (out g u).foldl (fun a w => a.setIfInBounds w true) acc else acc) acc).size = acc.size ∧
    ((us.foldl (fun acc u => if s.getD u false then
        (out g u).foldl (fun a w => a.setIfInBounds w true) acc else acc) acc).getD v false = true ↔
      acc.getD v false = true ∨
        (v < acc.size ∧ ∃ u ∈ us, s.getD u false = true ∧ v ∈ out g u)) := by
  induction us generalizing acc with
  | nil => simp
  | cons u us ih =>
    simp only [List.foldl_cons]
    by_cases hu : s.getD u false = true
    · rw [if_pos hu]
      obtain ⟨h1, h2⟩ := ih ((out g u).foldl (fun a w => a.setIfInBounds w true) acc)
      refine ⟨by rw [h1, foldl_set_size], ?_⟩
      rw [h2, foldl_set_getD, foldl_set_size]
      simp only [List.mem_cons, exists_eq_or_imp, hu, true_and]
      tauto
    · rw [if_neg hu]
      obtain ⟨h1, h2⟩ := ih acc
      refine ⟨h1, ?_⟩
      rw [h2]
      simp only [List.mem_cons, exists_eq_or_imp, hu, false_and, false_or]
      simp

lemma expand_size (g : G) (s : Array Bool) : (expand g s).size = s.size :=
  (expand_aux g s (List.range g.size) s 0).1

lemma expand_getD (g : G) (s : Array Bool) (v : Nat) :
    (expand g s).getD v false = true ↔
      s.getD v false = true ∨ (v < s.size ∧ ∃ u, u < g.size ∧ s.getD u false = true ∧ v ∈ out g u) := by
  unfold expand
  rw [(expand_aux g s (List.range g.size) s v).2]
  simp [List.mem_range]

lemma iter_succ' {α} (f : α → α) (n : Nat) (a : α) : iter f (n + 1) a = f (iter f n a) := by
  induction n generalizing a with
  | zero => rfl
  | succ n ih => show iter f (n + 1) (f a) = _; rw [ih]; rfl

lemma iter_expand_size (g : G) (k : Nat) (s : Array Bool) : (iter (expand g) k s).size = s.size := by
  induction k with
  | zero => rfl
  | succ k ih => rw [iter_succ', expand_size, ih]

lemma iter_expand_mono (g : G) (k : Nat) (s : Array Bool) (v : Nat) (h : s.getD v false = true) :
    (iter (expand g) k s).getD v false = true := by
  induction k with
  | zero => exact h
  | succ k ih => rw [iter_succ', expand_getD]; exact Or.inl ih

lemma iter_expand_mono_le (g : G) (j k : Nat) (hjk : j ≤ k) (s : Array Bool) (v : Nat)
    (h : (iter (expand g) j s).getD v false = true) :
    (iter (expand g) k s).getD v false = true := by
  induction k, hjk using Nat.le_induction with
  | base => exact h
  | succ k _ ih => rw [iter_succ', expand_getD]; exact Or.inl ih

/-- the start set `{u}` -/
def start (g : G) (u : Nat) : Array Bool := (Array.replicate g.size false).setIfInBounds u true

lemma start_getD (g : G) (u v : Nat) (hu : u < g.size) : (start g u).getD v false = true ↔ v = u := by
  unfold start
  rw [getD_set_true]
  simp only [Array.getD_eq_getD_getElem?, Array.getElem?_replicate, Array.size_replicate]
  constructor
  · rintro (h | h)
    · split_ifs at h <;> simp at h
    · exact h.2
  · rintro rfl; exact Or.inr ⟨hu, rfl⟩

lemma start_size (g : G) (u : Nat) : (start g u).size = g.size := by simp [start]

/-- soundness of rounds: everything marked is reachable -/
lemma iter_sound (g : G) (u : Nat) (k : Nat) (s : Array Bool)
    (hs : ∀ v, s.getD v false = true → Path g u v) :
    ∀ v, (iter (expand g) k s).getD v false = true → Path g u v := by
  induction k with
  | zero => exact hs
  | succ k ih =>
    intro v hv
    rw [iter_succ', expand_getD] at hv
    rcases hv with hv | ⟨_, w, hw, hm, hvw⟩
    · exact ih v hv
    · exact Relation.ReflTransGen.tail (ih w hm) ⟨hw, hvw⟩

/-- closed under successors -/
def Closed (g : G) (s : Array Bool) : Prop :=
  ∀ a, a < g.size → s.getD a false = true → ∀ b ∈ out g a, s.getD b false = true

lemma closed_path (g : G) (s : Array Bool) (hc : Closed g s) (u v : Nat)
    (hu : s.getD u false = true) (hp : Path g u v) : s.getD v false = true := by
  induction hp with
  | refl => exact hu
  | tail _ hbc ih => exact hc _ hbc.1 ih _ hbc.2

/-- marked nodes as a finset -/
def marked (s : Array Bool) : Finset Nat := (Finset.range s.size).filter fun v => s.getD v false = true

lemma mem_marked (s : Array Bool) (v : Nat) : v ∈ marked s ↔ s.getD v false = true := by
  unfold marked
  simp only [Finset.mem_filter, Finset.mem_range, and_iff_right_iff_imp]
  intro h
  by_contra hlt
  simp [Array.getD_eq_getD_getElem?, Array.getElem?_eq_none (not_lt.mp hlt)] at h

lemma marked_card_le (s : Array Bool) : (marked s).card ≤ s.size := by
  unfold marked
  calc _ ≤ (Finset.range s.size).card := Finset.card_filter_le _ _
    _ = s.size := Finset.card_range _

lemma marked_expand_lt (g : G) (hwf : WF g) (s : Array Bool) (hsz : s.size = g.size) (hc : ¬ Closed g s) :
    (marked s).card < (marked (expand g s)).card := by
  apply Finset.card_lt_card
  rw [Finset.ssubset_iff_of_subset]
  · unfold Closed at hc
    push Not at hc
    obtain ⟨a, ha, hm, b, hb, hnb⟩ := hc
    refine ⟨b, ?_, ?_⟩
    · rw [mem_marked, expand_getD]
      exact Or.inr ⟨hsz ▸ hwf a ha b hb, a, ha, hm, hb⟩
    · rw [mem_marked]; exact hnb
  · intro v hv
    rw [mem_marked] at *
    rw [expand_getD]; exact Or.inl hv

lemma iter_closed_or_card (g : G) (hwf : WF g) (s : Array Bool) (hsz : s.size = g.size) (k : Nat) :
    (∃ j ≤ k, Closed g (iter (expand g) j s)) ∨ (marked s).card + k ≤ (marked (iter (expand g) k s)).card := by
  induction k with
  | zero => right; simp [iter]
  | succ k ih =>
    rcases ih with ⟨j, hj, hc⟩ | h
    · exact Or.inl ⟨j, by omega, hc⟩
    · by_cases hc : Closed g (iter (expand g) k s)
      · exact Or.inl ⟨k, by omega, hc⟩
      · right
        rw [iter_succ']
        have := marked_expand_lt g hwf _ (by rw [iter_expand_size, hsz]) hc
        omega

lemma reachSet_eq (g : G) (u : Nat) : reachSet g u = iter (expand g) g.size (start g u) := rfl

/-- **R1.** The executable closure (`g.size` rounds of successor expansion from `{u}`)
decides path reachability: `reachB g u v` is true exactly when there is a path
(reflexive-transitive closure of the edge relation) from `u` to `v`. -/
theorem reachB_iff_path (g : G) (hwf : WF g) (u v : Nat) (hu : u < g.size) :
    reachB g u v = true ↔ Path g u v := by
  unfold reachB
  rw [reachSet_eq]
  constructor
  · apply iter_sound
    intro w hw
    rw [start_getD g u w hu] at hw
    subst hw; exact Relation.ReflTransGen.refl
  · intro hp
    have huu : (start g u).getD u false = true := (start_getD g u u hu).2 rfl
    rcases iter_closed_or_card g hwf (start g u) (start_size g u) g.size with ⟨j, hj, hc⟩ | h
    · apply iter_expand_mono_le g j g.size hj
      exact closed_path g _ hc u v (iter_expand_mono g j _ u huu) hp
    · exfalso
      have h1 : 0 < (marked (start g u)).card :=
        Finset.card_pos.2 ⟨u, (mem_marked _ _).2 huu⟩
      have h2 := marked_card_le (iter (expand g) g.size (start g u))
      rw [iter_expand_size, start_size] at h2
      omega

example : reachB #[[1], [2], [0, 3], [], [3]] 0 3 = true ↔ Path #[[1], [2], [0, 3], [], [3]] 0 3 :=
  reachB_iff_path _ (by decide) 0 3 (by decide)

example : WF #[[1], [2], [0, 3], [], [3]] := by decide
/-- the hypothesis `WF g` cannot be dropped: a dangling successor id is a `Path` target
but is never marked -/
example : ¬ WF #[[5]] ∧ reachB #[[5]] 0 5 = false ∧ Path #[[5]] 0 5 :=
  ⟨by decide, by decide, Relation.ReflTransGen.single ⟨by decide, by decide⟩⟩
example : ¬ Path #[[1], [2], [0, 3], [], [3]] 0 4 := by
  rw [← reachB_iff_path _ (by decide) 0 4 (by decide)]; decide

/-! ## R2: the SCC checker -/

def compMap (n : Nat) (comps : List (List Nat)) : Array Nat :=
  (comps.foldl (fun (s : Array Nat × Nat) c => (c.foldl (fun a v => a.setIfInBounds v s.2) s.1, s.2 + 1))
    (Array.replicate n 0, 0)).1

lemma cm_do_eq (n : Nat) (comps : List (List Nat)) : (do
      let __s ← forIn comps (Array.replicate n 0, 0) fun c __s => do
          let __s_1 ← forIn c __s.1 fun v __s_1 => pure (ForInStep.yield (__s_1.setIfInBounds v __s.2))
          pure (ForInStep.yield (__s_1, __s.2 + 1))
      pure __s.1 : Id (Array Nat)).run = compMap n comps := by
  unfold compMap
  simp [List.forIn_pure_yield_eq_foldl]

lemma reachAll_getD (g : G) (u : Nat) (hu : u < g.size) : (reachAll g).getD u #[] = reachSet g u := by
  unfold reachAll
  simp [Array.getD_eq_getD_getElem?, hu]

lemma holdsSCC_none (g : G) (r : SCCRes) (h : holdsSCC g r = none) :
  sortNat r.comps.flatten = List.range g.size ∧ (∀ c ∈ r.comps, c ≠ []) ∧ 
  (∀ m, r.compOf = some m → m = (compMap g.size r.comps).toList) ∧
  (∀ u < g.size, ∀ v < g.size, ((compMap g.size r.comps).getD u 0 = (compMap g.size r.comps).getD v 0) ↔ (reachB g u v = true ∧ reachB g v u = true)) ∧
  (∀ u < g.size, ∀ v ∈ out g u, (compMap g.size r.comps).getD v 0 ≤ (compMap g.size r.comps).getD u 0) ∧
  (∀ outs, r.outs = some outs → outs.length = r.comps.length ∧ ∀ c < outs.length, outs.getD c [] = 
     dedupSorted (sortNat (((r.comps.getD c []).flatMap fun u => (out g u).map fun v => (compMap g.size r.comps).getD v 0).filter (· != c)))) := by
  unfold holdsSCC at h
  simp only [cm_do_eq] at h
  split_ifs at h with h1 h2 h3 h4 h5
  refine ⟨by simpa using h1, ?_, ?_, ?_, ?_, ?_⟩
  · intro c hc hce; apply h2; simp only [List.any_eq_true]; exact ⟨c, hc, by simp [hce]⟩
  · intro m hm; rw [hm] at h3; simpa using h3
  · intro u hu v hv
    simp only [Bool.not_eq_true', Bool.not_eq_false, List.all_eq_true, List.mem_range] at h4
    have := h4 u hu v hv
    rw [reachAll_getD g u hu, reachAll_getD g v hv] at this
    clear h4 h h1 h2 h3 h5
    unfold reachB
    generalize (reachSet g u).getD v false = a at *
    generalize (reachSet g v).getD u false = b at *
    generalize (compMap g.size r.comps).getD u 0 = x at *
    generalize (compMap g.size r.comps).getD v 0 = y at *
    cases a <;> cases b <;> simp at this ⊢ <;> exact this
  · intro u hu v hv
    simp only [Bool.not_eq_true', Bool.not_eq_false, List.all_eq_true, List.mem_range, decide_eq_true_eq] at h5
    exact h5 u hu v hv
  · intro outs ho
    rw [ho] at h
    simp only at h
    split_ifs at h with h6 h7
    refine ⟨by simpa using h6, ?_⟩
    intro c hc
    simp only [List.all_eq_true, List.mem_range, beq_iff_eq] at h7
    exact h7 c hc

/-! ### sorting helpers -/

lemma insertSorted_eq (x : Nat) (l : List Nat) : insertSorted x l = l.orderedInsert (· ≤ ·) x := by
  induction l with
  | nil => rfl
  | cons y r ih => simp only [insertSorted, List.orderedInsert_cons, ih]

lemma sortNat_aux (l acc : List Nat) :
    (l.foldl (fun acc x => insertSorted x acc) acc).Perm (l ++ acc) ∧
    (acc.Pairwise (· ≤ ·) → (l.foldl (fun acc x => insertSorted x acc) acc).Pairwise (· ≤ ·)) := by
  induction l generalizing acc with
  | nil => simp
  | cons x l ih =>
    simp only [List.foldl_cons]
    obtain ⟨h1, h2⟩ := ih (insertSorted x acc)
    constructor
    · refine h1.trans ?_
      rw [insertSorted_eq]
      have := List.perm_orderedInsert (· ≤ ·) x acc
      refine (List.Perm.append_left l this).trans ?_
      simp [List.perm_middle]
    · intro hacc
      apply h2
      rw [insertSorted_eq]
      exact hacc.orderedInsert x acc

lemma sortNat_perm (l : List Nat) : (sortNat l).Perm l := by
  have := (sortNat_aux l []).1
  simpa [sortNat] using this

lemma sortNat_sorted (l : List Nat) : (sortNat l).Pairwise (· ≤ ·) :=
  (sortNat_aux l []).2 List.Pairwise.nil

lemma mem_sortNat (l : List Nat) (x : Nat) : x ∈ sortNat l ↔ x ∈ l := (sortNat_perm l).mem_iff

lemma mem_dedupSorted (l : List Nat) (x : Nat) : x ∈ dedupSorted l ↔ x ∈ l := by
  induction l using dedupSorted.induct with
  | case1 => simp [dedupSorted]
  | case2 y => simp [dedupSorted]
  | case3 a b r hab ih =>
    rw [dedupSorted, if_pos hab, ih]
    simp only [beq_iff_eq] at hab
    subst hab; simp
  | case4 a b r hab ih =>
    rw [dedupSorted, if_neg hab]
    simp only [List.mem_cons] at ih ⊢
    rw [ih]

lemma dedupSorted_sorted (l : List Nat) (h : l.Pairwise (· ≤ ·)) : (dedupSorted l).Pairwise (· < ·) := by
  induction l using dedupSorted.induct with
  | case1 => simp [dedupSorted]
  | case2 y => simp [dedupSorted]
  | case3 a b r hab ih =>
    rw [dedupSorted, if_pos hab]
    exact ih (List.Pairwise.of_cons h)
  | case4 a b r hab ih =>
    rw [dedupSorted, if_neg hab]
    simp only [beq_iff_eq] at hab
    rw [List.pairwise_cons]
    refine ⟨?_, ih (List.Pairwise.of_cons h)⟩
    intro z hz
    rw [mem_dedupSorted] at hz
    rw [List.pairwise_cons] at h
    have h1 := h.1 b (by simp)
    have h2 : b ≤ z := by
      rcases List.mem_cons.1 hz with rfl | hz'
      · exact le_rfl
      · exact (List.pairwise_cons.1 h.2).1 z hz'
    omega

/-! ### the derived component map -/

lemma setk_getD (a : Array Nat) (w k v : Nat) :
    (a.setIfInBounds w k).getD v 0 = if v = w ∧ v < a.size then k else a.getD v 0 := by
  simp only [Array.getD_eq_getD_getElem?, Array.getElem?_setIfInBounds]
  by_cases h : w = v
  · subst h
    by_cases h2 : w < a.size
    · simp [h2]
    · simp [h2]
  · have : ¬ v = w := fun e => h e.symm
    simp [h, this]

lemma foldl_setk_size (c : List Nat) (k : Nat) (a : Array Nat) :
    (c.foldl (fun a v => a.setIfInBounds v k) a).size = a.size := by
  induction c generalizing a with
  | nil => rfl
  | cons w c ih => simp [ih]

lemma foldl_setk_getD (c : List Nat) (k : Nat) (a : Array Nat) (v : Nat) :
    (c.foldl (fun a v => a.setIfInBounds v k) a).getD v 0 =
      if v ∈ c ∧ v < a.size then k else a.getD v 0 := by
  induction c generalizing a with
  | nil => simp
  | cons w c ih =>
    simp only [List.foldl_cons, ih, setk_getD, Array.size_setIfInBounds, List.mem_cons]
    by_cases h1 : v ∈ c <;> by_cases h2 : v < a.size <;> by_cases h3 : v = w <;> simp [h1, h2, h3] <;>
      (try (intros; omega))

/-- one outer-loop step of the component-map construction -/
def cmStep (s : Array Nat × Nat) (c : List Nat) : Array Nat × Nat :=
  (c.foldl (fun a v => a.setIfInBounds v s.2) s.1, s.2 + 1)

lemma compMap_eq (n : Nat) (comps : List (List Nat)) :
    compMap n comps = (comps.foldl cmStep (Array.replicate n 0, 0)).1 := rfl

lemma compMap_aux (comps : List (List Nat)) (hd : comps.Pairwise List.Disjoint) (s : Array Nat × Nat) :
    (comps.foldl cmStep s).1.size = s.1.size ∧ ∀ v < s.1.size,
      (∀ j, v ∈ comps.getD j [] → (comps.foldl cmStep s).1.getD v 0 = s.2 + j) ∧
      (v ∉ comps.flatten → (comps.foldl cmStep s).1.getD v 0 = s.1.getD v 0) := by
  induction comps generalizing s with
  | nil => simp
  | cons c cs ih =>
    rw [List.pairwise_cons] at hd
    obtain ⟨h1, h2⟩ := ih hd.2 (cmStep s c)
    have hsz : (cmStep s c).1.size = s.1.size := foldl_setk_size _ _ _
    simp only [List.foldl_cons]
    refine ⟨by rw [h1, hsz], ?_⟩
    intro v hv
    obtain ⟨h3, h4⟩ := h2 v (by rw [hsz]; exact hv)
    constructor
    · intro j hj
      cases j with
      | zero =>
        simp only [List.getD_cons_zero] at hj
        have hnot : v ∉ cs.flatten := by
          intro hm
          obtain ⟨c', hc', hvc'⟩ := List.mem_flatten.1 hm
          exact hd.1 c' hc' hj hvc'
        rw [h4 hnot]
        simp only [cmStep, foldl_setk_getD, hj, hv, and_self, if_true, Nat.add_zero]
      | succ j =>
        simp only [List.getD_cons_succ] at hj
        rw [h3 j hj]
        simp only [cmStep]; omega
    · intro hnot
      simp only [List.flatten_cons, List.mem_append, not_or] at hnot
      rw [h4 hnot.2]
      simp only [cmStep, foldl_setk_getD, hnot.1, false_and, if_false]

/-- index of the (first) component of `r.comps` containing `v` -/
def compIdx (r : SCCRes) (v : Nat) : Nat := r.comps.findIdx (fun c => decide (v ∈ c))

lemma mem_getD_iff_findIdx (comps : List (List Nat)) (hnd : comps.flatten.Nodup) (v : Nat)
    (hv : v ∈ comps.flatten) (i : Nat) :
    v ∈ comps.getD i [] ↔ i = comps.findIdx (fun c => decide (v ∈ c)) := by
  obtain ⟨c, hc, hvc⟩ := List.mem_flatten.1 hv
  have hlt : comps.findIdx (fun c => decide (v ∈ c)) < comps.length :=
    List.findIdx_lt_length_of_exists ⟨c, hc, by simpa using hvc⟩
  have hk : v ∈ comps[comps.findIdx (fun c => decide (v ∈ c))] := by
    have := List.findIdx_getElem (w := hlt)
    simpa using this
  constructor
  · intro hi
    have hilt : i < comps.length := by
      by_contra hge
      have : comps[i]? = none := List.getElem?_eq_none (not_lt.mp hge)
      simp [List.getD_eq_getElem?_getD, this] at hi
    simp only [List.getD_eq_getElem?_getD, List.getElem?_eq_getElem hilt, Option.getD_some] at hi
    by_contra hne
    have hdis := (List.nodup_flatten.1 hnd).2
    rw [List.pairwise_iff_getElem] at hdis
    rcases lt_or_gt_of_ne hne with hl | hl
    · exact hdis _ _ hilt hlt hl hi hk
    · exact hdis _ _ hlt hilt hl hk hi
  · rintro rfl
    simp only [List.getD_eq_getElem?_getD, List.getElem?_eq_getElem hlt, Option.getD_some]
    exact hk

lemma flatten_perm_of_sort {comps : List (List Nat)} {n : Nat}
    (h : sortNat comps.flatten = List.range n) : comps.flatten.Perm (List.range n) := by
  rw [← h]; exact (sortNat_perm _).symm

lemma compMap_getD_eq_compIdx (g : G) (r : SCCRes)
    (h : sortNat r.comps.flatten = List.range g.size) (v : Nat) (hv : v < g.size) :
    (compMap g.size r.comps).getD v 0 = compIdx r v := by
  have hp := flatten_perm_of_sort h
  have hnd : r.comps.flatten.Nodup := hp.nodup_iff.2 List.nodup_range
  have hmem : v ∈ r.comps.flatten := hp.mem_iff.2 (List.mem_range.2 hv)
  have := (compMap_aux r.comps (List.nodup_flatten.1 hnd).2 (Array.replicate g.size 0, 0)).2 v
    (by simpa using hv)
  have h2 := this.1 (compIdx r v) ((mem_getD_iff_findIdx r.comps hnd v hmem _).2 rfl)
  rw [compMap_eq, h2]; simp

lemma mem_flatten_of_getD {comps : List (List Nat)} {i v : Nat} (h : v ∈ comps.getD i []) :
    v ∈ comps.flatten := by
  have hilt : i < comps.length := by
    by_contra hge
    have : comps[i]? = none := List.getElem?_eq_none (not_lt.mp hge)
    simp [List.getD_eq_getElem?_getD, this] at h
  simp only [List.getD_eq_getElem?_getD, List.getElem?_eq_getElem hilt, Option.getD_some] at h
  exact List.mem_flatten.2 ⟨_, List.getElem_mem hilt, h⟩

/-! ### property theorems for the SCC checker -/

/-- **R2(a).** If the checker accepts (`holdsSCC g r = none`) then the components
partition the node set: the concatenation of `r.comps` is a permutation of
`0..n-1`, no component is empty, and every node `v < n` lies in exactly one
component, namely the one with index `compIdx r v`. -/
theorem holdsSCC_partition (g : G) (r : SCCRes) (h : holdsSCC g r = none) :
    r.comps.flatten.Perm (List.range g.size) ∧ (∀ c ∈ r.comps, c ≠ []) ∧
    ∀ v < g.size, compIdx r v < r.comps.length ∧
      ∀ i, v ∈ r.comps.getD i [] ↔ i = compIdx r v := by
  obtain ⟨h1, h2, -⟩ := holdsSCC_none g r h
  have hp := flatten_perm_of_sort h1
  refine ⟨hp, h2, ?_⟩
  intro v hv
  have hnd : r.comps.flatten.Nodup := hp.nodup_iff.2 List.nodup_range
  have hmem : v ∈ r.comps.flatten := hp.mem_iff.2 (List.mem_range.2 hv)
  refine ⟨?_, mem_getD_iff_findIdx r.comps hnd v hmem⟩
  obtain ⟨c, hc, hvc⟩ := List.mem_flatten.1 hmem
  exact List.findIdx_lt_length_of_exists ⟨c, hc, by simpa using hvc⟩

/-- **R2(b).** If the checker accepts then two nodes have the same component
index exactly when they are mutually reachable by paths of `g`. -/
theorem holdsSCC_mutual (g : G) (hwf : WF g) (r : SCCRes) (h : holdsSCC g r = none)
    (u v : Nat) (hu : u < g.size) (hv : v < g.size) :
    compIdx r u = compIdx r v ↔ (Path g u v ∧ Path g v u) := by
  obtain ⟨h1, -, -, h4, -⟩ := holdsSCC_none g r h
  rw [← compMap_getD_eq_compIdx g r h1 u hu, ← compMap_getD_eq_compIdx g r h1 v hv, h4 u hu v hv,
    reachB_iff_path g hwf u v hu, reachB_iff_path g hwf v u hv]

/-- **R2(b), list form.** If the checker accepts then two nodes occur together in
some component list of `r.comps` exactly when they are mutually reachable. -/
theorem holdsSCC_mutual_mem (g : G) (hwf : WF g) (r : SCCRes) (h : holdsSCC g r = none)
    (u v : Nat) (hu : u < g.size) (hv : v < g.size) :
    (∃ c ∈ r.comps, u ∈ c ∧ v ∈ c) ↔ (Path g u v ∧ Path g v u) := by
  rw [← holdsSCC_mutual g hwf r h u v hu hv]
  obtain ⟨-, -, hpart⟩ := holdsSCC_partition g r h
  constructor
  · rintro ⟨c, hc, huc, hvc⟩
    obtain ⟨i, hi, rfl⟩ := List.getElem_of_mem hc
    have e : r.comps.getD i [] = r.comps[i] := by
      simp only [List.getD_eq_getElem?_getD, List.getElem?_eq_getElem hi, Option.getD_some]
    rw [← ((hpart u hu).2 i).1 (e ▸ huc), ← ((hpart v hv).2 i).1 (e ▸ hvc)]
  · intro e
    have hlt := (hpart u hu).1
    refine ⟨r.comps[compIdx r u], List.getElem_mem hlt, ?_, ?_⟩
    · have := ((hpart u hu).2 _).2 rfl
      simpa only [List.getD_eq_getElem?_getD, List.getElem?_eq_getElem hlt, Option.getD_some] using this
    · have := ((hpart v hv).2 _).2 e
      simpa only [List.getD_eq_getElem?_getD, List.getElem?_eq_getElem hlt, Option.getD_some] using this

/-- **R2(c).** If the checker accepts then component indices are a reverse
topological numbering: for every edge `u → v`, the index of `v`'s component is
at most the index of `u`'s component. -/
theorem holdsSCC_topo (g : G) (hwf : WF g) (r : SCCRes) (h : holdsSCC g r = none)
    (u v : Nat) (he : Edge g u v) : compIdx r v ≤ compIdx r u := by
  obtain ⟨h1, -, -, -, h5, -⟩ := holdsSCC_none g r h
  rw [← compMap_getD_eq_compIdx g r h1 u he.1, ← compMap_getD_eq_compIdx g r h1 v (hwf u he.1 v he.2)]
  exact h5 u he.1 v he.2

/-- **R2(d).** If the checker accepts and component out-lists are given
(`r.outs = some outs`) then there is one out-list per component and, for every
component index `c`, `outs[c]` is strictly increasing (sorted, duplicate-free) and
contains exactly the component indices `d ≠ c` entered by some edge `u → v`
with `u` in component `c` and `v` in component `d`. -/
theorem holdsSCC_edges (g : G) (hwf : WF g) (r : SCCRes) (h : holdsSCC g r = none)
    (outs : List (List Nat)) (ho : r.outs = some outs) :
    outs.length = r.comps.length ∧ ∀ c < r.comps.length,
      (outs.getD c []).Pairwise (· < ·) ∧
      ∀ d, d ∈ outs.getD c [] ↔
        (d ≠ c ∧ ∃ u ∈ r.comps.getD c [], ∃ v ∈ out g u, compIdx r v = d) := by
  obtain ⟨h1, -, -, -, -, h6⟩ := holdsSCC_none g r h
  obtain ⟨hlen, hout⟩ := h6 outs ho
  have hp := flatten_perm_of_sort h1
  refine ⟨hlen, ?_⟩
  intro c hc
  rw [hout c (hlen ▸ hc)]
  refine ⟨dedupSorted_sorted _ (sortNat_sorted _), ?_⟩
  intro d
  rw [mem_dedupSorted, mem_sortNat, List.mem_filter, List.mem_flatMap]
  simp only [List.mem_map, bne_iff_ne, ne_eq, decide_eq_true_eq]
  constructor
  · rintro ⟨⟨u, hu, v, hv, rfl⟩, hne⟩
    have hun : u < g.size := List.mem_range.1 (hp.mem_iff.1 (mem_flatten_of_getD hu))
    refine ⟨hne, u, hu, v, hv, ?_⟩
    exact (compMap_getD_eq_compIdx g r h1 v (hwf u hun v hv)).symm
  · rintro ⟨hne, u, hu, v, hv, rfl⟩
    have hun : u < g.size := List.mem_range.1 (hp.mem_iff.1 (mem_flatten_of_getD hu))
    refine ⟨⟨u, hu, v, hv, ?_⟩, hne⟩
    exact compMap_getD_eq_compIdx g r h1 v (hwf u hun v hv)

/-- **R2, component map.** If the checker accepts and a node→component map is
given (`r.compOf = some m`) then `m` lists `compIdx r v` for `v = 0..n-1`. -/
theorem holdsSCC_compOf (g : G) (r : SCCRes) (h : holdsSCC g r = none)
    (m : List Nat) (hm : r.compOf = some m) : m = (List.range g.size).map (compIdx r) := by
  obtain ⟨h1, -, h3, -⟩ := holdsSCC_none g r h
  rw [h3 m hm]
  have hsz : (compMap g.size r.comps).size = g.size := by
    rw [compMap_eq]
    have := (compMap_aux r.comps
      (List.nodup_flatten.1 ((flatten_perm_of_sort h1).nodup_iff.2 List.nodup_range)).2
      (Array.replicate g.size 0, 0)).1
    simpa using this
  apply List.ext_getElem
  · simp [hsz]
  · intro i hi1 hi2
    have hi : i < g.size := by simpa using hi2
    have := compMap_getD_eq_compIdx g r h1 i hi
    simp only [Array.getD_eq_getD_getElem?] at this
    simp only [Array.getElem_toList, List.getElem_map, List.getElem_range]
    rw [← this, Array.getElem?_eq_getElem (by omega)]
    rfl

/-- the example graph `0→1→2→0`, `2→3`, `4→3` and its (accepted) SCC result -/
def exG : G := #[[1], [2], [0, 3], [], [3]]
def exR : SCCRes := ⟨[[3], [0, 1, 2], [4]], some [1, 1, 1, 0, 2], some [[], [0], [0]]⟩

lemma exOK : holdsSCC exG exR = none := by with_unfolding_all decide

example : holdsSCC exG exR = none := exOK
example : WF exG := by decide
example : compIdx exR 0 = compIdx exR 2 ↔ (Path exG 0 2 ∧ Path exG 2 0) :=
  holdsSCC_mutual exG (by decide) exR exOK 0 2 (by decide) (by decide)
example : compIdx exR 3 ≤ compIdx exR 2 :=
  holdsSCC_topo exG (by decide) exR exOK 2 3 (by decide)
example := holdsSCC_partition exG exR exOK
example := holdsSCC_edges exG (by decide) exR exOK _ rfl
example := holdsSCC_compOf exG exR exOK _ rfl
example := holdsSCC_mutual_mem exG (by decide) exR exOK 0 3 (by decide) (by decide)

/-! ## R3: the definitional SCC partition -/

def reachT (g : G) (u v : Nat) : Bool := ((reachAll g).getD u #[]).getD v false
def rep (g : G) (u : Nat) : Nat := ((List.range g.size).find? fun v => reachT g u v && reachT g v u).getD u
def reps (g : G) : List Nat := (List.range g.size).filter fun u => rep g u == u
def key (g : G) (r : Nat) : Nat := ((reps g).filter fun s => reachT g r s).length
def insKey (g : G) (acc : List Nat) (r : Nat) : List Nat :=
  let (a, b) := acc.span (fun s => key g s ≤ key g r); a ++ [r] ++ b

lemma sccSpec_eq (g : G) : sccSpec g =
    ((reps g).foldl (insKey g) []).map fun r => (List.range g.size).filter fun u => rep g u == r := rfl

lemma insKey_perm (g : G) (acc : List Nat) (r : Nat) : (insKey g acc r).Perm (r :: acc) := by
  unfold insKey
  simp only [List.span_eq_takeWhile_dropWhile]
  simp only [List.append_assoc, List.singleton_append]
  refine List.perm_middle.trans ?_
  rw [List.takeWhile_append_dropWhile]

lemma foldl_insKey_perm (g : G) (l acc : List Nat) : (l.foldl (insKey g) acc).Perm (l ++ acc) := by
  induction l generalizing acc with
  | nil => simp
  | cons x l ih =>
    simp only [List.foldl_cons]
    refine (ih _).trans ?_
    refine (List.Perm.append_left l (insKey_perm g acc x)).trans ?_
    simp [List.perm_middle]

lemma mem_sccSpec (g : G) (c : List Nat) :
    c ∈ sccSpec g ↔ ∃ r ∈ reps g, c = (List.range g.size).filter fun u => rep g u == r := by
  rw [sccSpec_eq, List.mem_map]
  have hp := foldl_insKey_perm g (reps g) []
  simp only [List.append_nil] at hp
  constructor
  · rintro ⟨r, hr, rfl⟩; exact ⟨r, hp.mem_iff.1 hr, rfl⟩
  · rintro ⟨r, hr, rfl⟩; exact ⟨r, hp.mem_iff.2 hr, rfl⟩

lemma reachT_eq (g : G) (u v : Nat) (hu : u < g.size) : reachT g u v = reachB g u v := by
  unfold reachT reachB; rw [reachAll_getD g u hu]

/-- mutual reachability -/
def Mut (g : G) (u v : Nat) : Prop := Path g u v ∧ Path g v u

lemma Mut.symm {g : G} {u v : Nat} (h : Mut g u v) : Mut g v u := ⟨h.2, h.1⟩
lemma Mut.trans {g : G} {u v w : Nat} (h : Mut g u v) (h' : Mut g v w) : Mut g u w :=
  ⟨Relation.ReflTransGen.trans h.1 h'.1, Relation.ReflTransGen.trans h'.2 h.2⟩
lemma Mut.refl (g : G) (u : Nat) : Mut g u u := ⟨Relation.ReflTransGen.refl, Relation.ReflTransGen.refl⟩

lemma mutB_iff (g : G) (hwf : WF g) (u w : Nat) (hu : u < g.size) (hw : w < g.size) :
    (reachT g u w && reachT g w u) = true ↔ Mut g u w := by
  rw [reachT_eq g u w hu, reachT_eq g w u hw, Bool.and_eq_true,
    reachB_iff_path g hwf u w hu, reachB_iff_path g hwf w u hw]
  rfl

lemma find?_congr' {l : List Nat} {p q : Nat → Bool} (h : ∀ x ∈ l, p x = q x) :
    l.find? p = l.find? q := by
  induction l with
  | nil => rfl
  | cons a l ih =>
    simp only [List.find?_cons, h a (by simp)]
    rw [ih (fun x hx => h x (by simp [hx]))]

lemma rep_spec (g : G) (hwf : WF g) (u : Nat) (hu : u < g.size) :
    rep g u < g.size ∧ Mut g u (rep g u) := by
  unfold rep
  cases h : (List.range g.size).find? fun v => reachT g u v && reachT g v u with
  | none =>
    rw [List.find?_eq_none] at h
    exact absurd ((mutB_iff g hwf u u hu hu).2 (Mut.refl g u)) (h u (List.mem_range.2 hu))
  | some w =>
    have hw : w < g.size := List.mem_range.1 (List.mem_of_find?_eq_some h)
    exact ⟨hw, (mutB_iff g hwf u w hu hw).1 (List.find?_some (p := fun v => reachT g u v && reachT g v u) h)⟩

lemma rep_congr (g : G) (hwf : WF g) (u v : Nat) (hu : u < g.size) (hv : v < g.size)
    (h : Mut g u v) : rep g u = rep g v := by
  have hc : (List.range g.size).find? (fun w => reachT g u w && reachT g w u) =
      (List.range g.size).find? (fun w => reachT g v w && reachT g w v) := by
    apply find?_congr'
    intro w hw
    have hw' := List.mem_range.1 hw
    rw [Bool.eq_iff_iff, mutB_iff g hwf u w hu hw', mutB_iff g hwf v w hv hw']
    exact ⟨fun h' => h.symm.trans h', fun h' => h.trans h'⟩
  unfold rep
  rw [hc]
  cases h' : (List.range g.size).find? fun w => reachT g v w && reachT g w v with
  | none =>
    rw [List.find?_eq_none] at h'
    exact absurd ((mutB_iff g hwf v v hv hv).2 (Mut.refl g v)) (h' v (List.mem_range.2 hv))
  | some w => rfl

lemma rep_eq_iff (g : G) (hwf : WF g) (u v : Nat) (hu : u < g.size) (hv : v < g.size) :
    rep g u = rep g v ↔ Mut g u v := by
  constructor
  · intro e
    have h1 := (rep_spec g hwf u hu).2
    have h2 := (rep_spec g hwf v hv).2
    rw [← e] at h2
    exact h1.trans h2.symm
  · exact rep_congr g hwf u v hu hv

/-- **R3.** (non-vacuity of the SCC specification) Two nodes occur together in some
list of the definitional partition `sccSpec g` exactly when they are mutually
reachable by paths of `g`. -/
theorem sccSpec_mutual (g : G) (hwf : WF g) (u v : Nat) (hu : u < g.size) (hv : v < g.size) :
    (∃ c ∈ sccSpec g, u ∈ c ∧ v ∈ c) ↔ (Path g u v ∧ Path g v u) := by
  show _ ↔ Mut g u v
  rw [← rep_eq_iff g hwf u v hu hv]
  constructor
  · rintro ⟨c, hc, huc, hvc⟩
    obtain ⟨r, -, rfl⟩ := (mem_sccSpec g c).1 hc
    simp only [List.mem_filter, List.mem_range, beq_iff_eq] at huc hvc
    rw [huc.2, hvc.2]
  · intro e
    obtain ⟨hr, hm⟩ := rep_spec g hwf u hu
    refine ⟨_, (mem_sccSpec g _).2 ⟨rep g u, ?_, rfl⟩, ?_, ?_⟩
    · simp only [reps, List.mem_filter, List.mem_range, beq_iff_eq]
      exact ⟨hr, (rep_congr g hwf u _ hu hr hm).symm⟩
    · simp [hu]
    · simp [hv, e]

/-- every node lies in some list of `sccSpec g` -/
theorem sccSpec_cover (g : G) (hwf : WF g) (u : Nat) (hu : u < g.size) : ∃ c ∈ sccSpec g, u ∈ c := by
  obtain ⟨c, hc, h, -⟩ := (sccSpec_mutual g hwf u u hu hu).2 (Mut.refl g u)
  exact ⟨c, hc, h⟩

example : (∃ c ∈ sccSpec exG, 0 ∈ c ∧ 2 ∈ c) ↔ (Path exG 0 2 ∧ Path exG 2 0) :=
  sccSpec_mutual exG (by decide) 0 2 (by decide) (by decide)
example : sccSpec exG = [[3], [0, 1, 2], [4]] := by with_unfolding_all decide

end MV.Graph
