import Mathlib.Tactic
import MV.Model.Graph
import MV.Props.C18Reach
import MV.Props.C18DFS
/-!
# C18 — Tarjan's SCC algorithm (mirror of graphalg/scc.go) is correct
-/
namespace MV.Graph

/-! ## unfolding `connect` -/

/-- low value of a node (0 = unvisited) -/
def lw (st : TState) (v : Nat) : Nat := st.low.getD v 0
/-- component id of a node -/
def co (st : TState) (v : Nat) : Nat := st.compOf.getD v 0

/-- entering a node: number it and push it -/
def push (st : TState) (nid : Nat) : TState :=
  { st with low := st.low.setIfInBounds nid st.index, index := st.index + 1, stack := nid :: st.stack }

/-- record an out-edge to an already finished component -/
def record (st : TState) (oid pos : Nat) : TState :=
  { st with outStack := (st.compOf.getD oid 0, pos) :: st.outStack }

/-- one iteration of the successor loop -/
def cstep (g : G) (fuel pos : Nat) (acc : TState × Nat) (oid : Nat) : TState × Nat :=
  let st := if acc.1.low.getD oid 0 == 0 then connect g fuel oid acc.1 else acc.1
  (if st.low.getD oid 0 == sentinel g then record st oid pos else st,
   if st.low.getD oid 0 < acc.2 then st.low.getD oid 0 else acc.2)

/-- non-root exit: lower the low-link -/
def setLow (st : TState) (nid mn : Nat) : TState := { st with low := st.low.setIfInBounds nid mn }

/-- root exit: pop the component -/
def popc (g : G) (nid : Nat) (st : TState) : TState :=
  let members := ((st.stack.span (· != nid)).1 ++ [nid]).reverse
  let rest := (st.stack.span (· != nid)).2.drop 1
  { st with
    low := members.foldl (fun a v => a.setIfInBounds v (sentinel g)) st.low,
    stack := rest,
    comps := members :: st.comps,
    compOf := members.foldl (fun a v => a.setIfInBounds v st.comps.length) st.compOf,
    outStack := (st.outStack.span (fun e => e.2 ≥ rest.length)).2,
    outs := dedupSorted (sortNat ((st.outStack.span (fun e => e.2 ≥ rest.length)).1.map (·.1))) :: st.outs }

def finish (g : G) (nid myLow : Nat) (acc : TState × Nat) : TState :=
  if acc.2 < myLow then setLow acc.1 nid acc.2 else popc g nid acc.1

lemma connect_zero (g : G) (nid : Nat) (st : TState) : connect g 0 nid st = st := rfl

lemma connect_succ (g : G) (fuel nid : Nat) (st : TState) :
    connect g (fuel + 1) nid st =
      finish g nid st.index ((out g nid).foldl (cstep g fuel st.stack.length) (push st nid, st.index)) := by
  rfl


/-! ## basic facts about the primitive state updates -/

lemma span_append_of {α} (p : α → Bool) (l1 l2 : List α) (h1 : ∀ a ∈ l1, p a = true)
    (h2 : ∀ a ∈ l2.head?, p a = false) : (l1 ++ l2).span p = (l1, l2) := by
  rw [List.span_eq_takeWhile_dropWhile, List.takeWhile_append_of_pos h1,
    List.dropWhile_append_of_pos h1]
  cases l2 with
  | nil => simp
  | cons a l2 =>
    have : p a = false := h2 a (by simp)
    simp [this]

lemma lw_push (st : TState) (nid v : Nat) (h : nid < st.low.size) :
    lw (push st nid) v = if v = nid then st.index else lw st v := by
  unfold lw push
  simp only [setk_getD]
  by_cases hv : v = nid
  · subst hv; simp [h]
  · simp [hv]

lemma lw_setLow (st : TState) (nid mn v : Nat) (h : nid < st.low.size) :
    lw (setLow st nid mn) v = if v = nid then mn else lw st v := by
  unfold lw setLow
  simp only [setk_getD]
  by_cases hv : v = nid
  · subst hv; simp [h]
  · simp [hv]

lemma lw_lt_size (st : TState) (v : Nat) (h : lw st v ≠ 0) : v < st.low.size := by
  by_contra hge
  apply h
  unfold lw
  simp [Array.getD_eq_getD_getElem?, Array.getElem?_eq_none (not_lt.mp hge)]

/-- number of unvisited nodes -/
def unv (g : G) (st : TState) : Nat := ((Finset.range g.size).filter fun x => lw st x = 0).card

lemma unv_le_size (g : G) (st : TState) : unv g st ≤ g.size := by
  unfold unv
  calc _ ≤ (Finset.range g.size).card := Finset.card_filter_le _ _
    _ = g.size := Finset.card_range _

lemma unv_mono (g : G) (s t : TState) (h : ∀ x, lw s x ≠ 0 → lw t x ≠ 0) : unv g t ≤ unv g s := by
  unfold unv
  apply Finset.card_le_card
  intro x hx
  simp only [Finset.mem_filter, Finset.mem_range] at hx ⊢
  refine ⟨hx.1, ?_⟩
  by_contra hs
  exact h x hs hx.2

lemma unv_lt (g : G) (s t : TState) (h : ∀ x, lw s x ≠ 0 → lw t x ≠ 0)
    (v : Nat) (hv : v < g.size) (hsv : lw s v = 0) (htv : lw t v ≠ 0) : unv g t < unv g s := by
  unfold unv
  apply Finset.card_lt_card
  rw [Finset.ssubset_iff_of_subset]
  · exact ⟨v, by simp [hv, hsv], by simp [htv]⟩
  · intro x hx
    simp only [Finset.mem_filter, Finset.mem_range] at hx ⊢
    refine ⟨hx.1, ?_⟩
    by_contra hs
    exact h x hs hx.2

/-! ## the invariant -/

/-- the out-list `o` of a finished component `c` is right -/
def OutOK (g : G) (st : TState) (c o : List Nat) : Prop :=
  o.Pairwise (· < ·) ∧ ∀ d, d ∈ o ↔ ∃ u ∈ c, ∃ v ∈ out g u, co st v = d ∧ d ≠ co st u

/-- invariant of the algorithm; `gr` is the list of nodes whose `connect` call is active -/
structure Inv (g : G) (gr : List Nat) (st : TState) : Prop where
  lowsz : st.low.size = g.size
  cosz : st.compOf.size = g.size
  nodup : st.stack.Nodup
  onstack : ∀ v, v ∈ st.stack ↔ (lw st v ≠ 0 ∧ lw st v ≠ sentinel g)
  lowlt : ∀ v ∈ st.stack, lw st v < st.index
  idx1 : 1 ≤ st.index
  idx : st.index + unv g st ≤ g.size + 1
  spath : st.stack.Pairwise (fun a b => Path g b a)
  grsub : ∀ z ∈ gr, z ∈ st.stack
  wit : ∀ y ∈ st.stack, ∃ z ∈ gr, lw st z ≤ lw st y ∧ Path g y z
  b2w : ∀ u, lw st u ≠ 0 → u ∉ gr → ∀ v ∈ out g u, lw st v ≠ 0
  cflat : ∀ v, v ∈ st.comps.flatten ↔ lw st v = sentinel g
  cnodup : st.comps.flatten.Nodup
  cne : ∀ c ∈ st.comps, c ≠ []
  cof : ∀ cs1 c cs2, st.comps = cs1 ++ c :: cs2 → ∀ v ∈ c, co st v = cs2.length
  cstrong : ∀ c ∈ st.comps, ∀ u ∈ c, ∀ v ∈ c, Path g u v
  ctopo : ∀ u, lw st u = sentinel g → ∀ v ∈ out g u, lw st v = sentinel g ∧ co st v ≤ co st u
  opos : ∀ e ∈ st.outStack, e.2 < st.stack.length
  olen : st.outs.length = st.comps.length
  ook : ∀ cs1 c cs2, st.comps = cs1 ++ c :: cs2 → OutOK g st c (st.outs.getD cs1.length [])

lemma Inv.idx_lt {g : G} {gr : List Nat} {st : TState} (h : Inv g gr st) : st.index < sentinel g := by
  have := h.idx; unfold sentinel; omega

lemma OutOK_congr (g : G) (st st' : TState) (c o : List Nat)
    (hc : ∀ u ∈ c, lw st u = sentinel g)
    (htopo : ∀ u, lw st u = sentinel g → ∀ v ∈ out g u, lw st v = sentinel g ∧ co st v ≤ co st u)
    (hco : ∀ x, lw st x = sentinel g → co st' x = co st x) (h : OutOK g st c o) : OutOK g st' c o := by
  refine ⟨h.1, ?_⟩
  intro d
  rw [h.2 d]
  constructor
  · rintro ⟨u, hu, v, hv, rfl, hne⟩
    have h1 := hc u hu
    have h2 := (htopo u h1 v hv).1
    exact ⟨u, hu, v, hv, hco v h2, by rw [hco u h1]; exact hne⟩
  · rintro ⟨u, hu, v, hv, rfl, hne⟩
    have h1 := hc u hu
    have h2 := (htopo u h1 v hv).1
    exact ⟨u, hu, v, hv, (hco v h2).symm, by rw [hco u h1] at hne; exact hne⟩

lemma push_inv (g : G) (gr : List Nat) (st : TState) (nid : Nat) (h : Inv g gr st)
    (hn : nid < g.size) (h0 : lw st nid = 0) (hp : ∀ z ∈ gr, Path g z nid) :
    Inv g (nid :: gr) (push st nid) := by
  have hsz : nid < st.low.size := by rw [h.lowsz]; exact hn
  have hlw : ∀ v, lw (push st nid) v = if v = nid then st.index else lw st v :=
    fun v => lw_push st nid v hsz
  have hco : ∀ v, co (push st nid) v = co st v := fun v => rfl
  have hnotin : nid ∉ st.stack := by
    intro hm; exact ((h.onstack nid).1 hm).1 h0
  have hidx := h.idx_lt
  have hmono : ∀ x, lw st x ≠ 0 → lw (push st nid) x ≠ 0 := by
    intro x hx; rw [hlw]; split_ifs with e
    · have := h.idx1; omega
    · exact hx
  have hsent : ∀ v, lw (push st nid) v = sentinel g ↔ lw st v = sentinel g := by
    intro v; rw [hlw]; split_ifs with e
    · subst e; rw [h0]; constructor
      · intro e; omega
      · intro e; unfold sentinel at e; omega
    · rfl
  exact
  { lowsz := by simp [push, h.lowsz]
    cosz := h.cosz
    nodup := List.nodup_cons.2 ⟨hnotin, h.nodup⟩
    onstack := by
      intro v
      show v ∈ nid :: st.stack ↔ _
      rw [List.mem_cons, hlw]
      by_cases e : v = nid
      · subst e
        simp only [true_or, if_true, true_iff]
        have := h.idx1
        exact ⟨by omega, by omega⟩
      · simp only [e, false_or, if_false]; exact h.onstack v
    lowlt := by
      intro v hv
      show _ < st.index + 1
      rw [hlw]
      split_ifs with e
      · omega
      · rcases List.mem_cons.1 hv with hv | hv
        · exact absurd hv e
        · have := h.lowlt v hv; omega
    idx1 := by show 1 ≤ st.index + 1; omega
    idx := by
      show st.index + 1 + unv g (push st nid) ≤ g.size + 1
      have := unv_lt g st (push st nid) hmono nid hn h0 (by rw [hlw]; simp; have := h.idx1; omega)
      have := h.idx
      omega
    spath := by
      show (nid :: st.stack).Pairwise _
      rw [List.pairwise_cons]
      refine ⟨?_, h.spath⟩
      intro b hb
      obtain ⟨z, hz, -, hbz⟩ := h.wit b hb
      exact hbz.trans (hp z hz)
    grsub := by
      intro z hz
      show z ∈ nid :: st.stack
      rcases List.mem_cons.1 hz with rfl | hz
      · simp
      · exact List.mem_cons_of_mem _ (h.grsub z hz)
    wit := by
      intro y hy
      rcases List.mem_cons.1 hy with rfl | hy
      · exact ⟨y, by simp, le_rfl, Relation.ReflTransGen.refl⟩
      · obtain ⟨z, hz, hle, hyz⟩ := h.wit y hy
        refine ⟨z, by simp [hz], ?_, hyz⟩
        have hzn : z ≠ nid := fun e => hnotin (e ▸ h.grsub z hz)
        have hyn : y ≠ nid := fun e => hnotin (e ▸ hy)
        rw [hlw, hlw, if_neg hzn, if_neg hyn]; exact hle
    b2w := by
      intro u hu hug v hv
      have hun : u ≠ nid := fun e => hug (by simp [e])
      have hug' : u ∉ gr := fun e => hug (by simp [e])
      rw [hlw, if_neg hun] at hu
      exact hmono v (h.b2w u hu hug' v hv)
    cflat := by intro v; rw [hsent]; exact h.cflat v
    cnodup := h.cnodup
    cne := h.cne
    cof := h.cof
    cstrong := h.cstrong
    ctopo := by
      intro u hu v hv
      rw [hsent] at hu ⊢
      exact h.ctopo u hu v hv
    opos := by
      intro e he
      show e.2 < (nid :: st.stack).length
      have := h.opos e he
      simp; omega
    olen := h.olen
    ook := h.ook }

lemma record_inv (g : G) (gr : List Nat) (st : TState) (oid pos : Nat) (h : Inv g gr st)
    (hpos : pos < st.stack.length) : Inv g gr (record st oid pos) :=
  { lowsz := h.lowsz, cosz := h.cosz, nodup := h.nodup, onstack := h.onstack, lowlt := h.lowlt,
    idx1 := h.idx1, idx := h.idx, spath := h.spath, grsub := h.grsub, wit := h.wit, b2w := h.b2w,
    cflat := h.cflat, cnodup := h.cnodup, cne := h.cne, cof := h.cof, cstrong := h.cstrong,
    ctopo := h.ctopo,
    opos := by
      intro e he
      rcases List.mem_cons.1 he with rfl | he
      · exact hpos
      · exact h.opos e he
    olen := h.olen, ook := h.ook }

lemma setLow_inv (g : G) (gr : List Nat) (st : TState) (nid mn : Nat) (h : Inv g (nid :: gr) st)
    (hng : nid ∉ gr) (hmn0 : 0 < mn) (hmn : mn < lw st nid)
    (hw : ∃ z ∈ gr, lw st z ≤ mn ∧ Path g nid z) (hsucc : ∀ v ∈ out g nid, lw st v ≠ 0) :
    Inv g gr (setLow st nid mn) := by
  have hns : nid ∈ st.stack := h.grsub nid (by simp)
  have hsz : nid < st.low.size := lw_lt_size st nid ((h.onstack nid).1 hns).1
  have hlw : ∀ v, lw (setLow st nid mn) v = if v = nid then mn else lw st v :=
    fun v => lw_setLow st nid mn v hsz
  have hidx := h.idx_lt
  have hnl := h.lowlt nid hns
  have hzero : ∀ v, lw (setLow st nid mn) v = 0 ↔ lw st v = 0 := by
    intro v; rw [hlw]; split_ifs with e
    · subst e; constructor <;> intro e <;> omega
    · rfl
  have hsent : ∀ v, lw (setLow st nid mn) v = sentinel g ↔ lw st v = sentinel g := by
    intro v; rw [hlw]; split_ifs with e
    · subst e; constructor <;> intro e <;> omega
    · rfl
  exact
  { lowsz := by simp [setLow, h.lowsz]
    cosz := h.cosz
    nodup := h.nodup
    onstack := by
      intro v
      show v ∈ st.stack ↔ _
      rw [h.onstack v, ne_eq, ne_eq, ne_eq, ne_eq, hzero, hsent]
    lowlt := by
      intro v hv
      show _ < st.index
      rw [hlw]; split_ifs with e
      · omega
      · exact h.lowlt v hv
    idx1 := h.idx1
    idx := by
      show st.index + unv g (setLow st nid mn) ≤ g.size + 1
      have := unv_mono g st (setLow st nid mn) (fun x hx => by rw [ne_eq, hzero]; exact hx)
      have := h.idx
      omega
    spath := h.spath
    grsub := fun z hz => h.grsub z (by simp [hz])
    wit := by
      intro y hy
      obtain ⟨z', hz', hle', hp'⟩ := hw
      have hz'n : z' ≠ nid := fun e => hng (e ▸ hz')
      obtain ⟨z, hz, hle, hyz⟩ := h.wit y hy
      by_cases hyn : y = nid
      · subst hyn
        refine ⟨z', hz', ?_, hp'⟩
        rw [hlw, hlw, if_neg hz'n, if_pos rfl]; exact hle'
      · rcases List.mem_cons.1 hz with rfl | hzg
        · refine ⟨z', hz', ?_, hyz.trans hp'⟩
          rw [hlw, hlw, if_neg hz'n, if_neg hyn]; omega
        · have hzn : z ≠ nid := fun e => hng (e ▸ hzg)
          refine ⟨z, hzg, ?_, hyz⟩
          rw [hlw, hlw, if_neg hzn, if_neg hyn]; exact hle
    b2w := by
      intro u hu hug v hv
      rw [ne_eq, hzero] at hu ⊢
      by_cases hun : u = nid
      · subst hun; exact hsucc v hv
      · exact h.b2w u hu (by simp [hun, hug]) v hv
    cflat := by intro v; rw [hsent]; exact h.cflat v
    cnodup := h.cnodup
    cne := h.cne
    cof := h.cof
    cstrong := h.cstrong
    ctopo := by
      intro u hu v hv
      rw [hsent] at hu ⊢
      exact h.ctopo u hu v hv
    opos := h.opos
    olen := h.olen
    ook := h.ook }

/-- the state after popping, in terms of the decomposition of the two stacks -/
def popped (g : G) (st : TState) (nid : Nat) (new rest : List Nat) (newE oldE : List (Nat × Nat)) : TState :=
  { st with
    low := ((new ++ [nid]).reverse).foldl (fun a v => a.setIfInBounds v (sentinel g)) st.low,
    stack := rest,
    comps := (new ++ [nid]).reverse :: st.comps,
    compOf := ((new ++ [nid]).reverse).foldl (fun a v => a.setIfInBounds v st.comps.length) st.compOf,
    outStack := oldE,
    outs := dedupSorted (sortNat (newE.map (·.1))) :: st.outs }

lemma popc_eq (g : G) (st : TState) (nid : Nat) (new rest : List Nat) (newE oldE : List (Nat × Nat))
    (hstk : st.stack = new ++ nid :: rest) (hnn : nid ∉ new)
    (hos : st.outStack = newE ++ oldE)
    (hge : ∀ e ∈ newE, rest.length ≤ e.2) (hlt : ∀ e ∈ oldE, e.2 < rest.length) :
    popc g nid st = popped g st nid new rest newE oldE := by
  have h1 : st.stack.span (· != nid) = (new, nid :: rest) := by
    rw [hstk]
    apply span_append_of
    · intro a ha
      simp only [bne_iff_ne, ne_eq]
      rintro rfl; exact hnn ha
    · intro a ha
      simp only [List.head?_cons, Option.mem_def, Option.some.injEq] at ha
      subst ha; simp
  have h2 : st.outStack.span (fun e => decide (e.2 ≥ rest.length)) = (newE, oldE) := by
    rw [hos]
    apply span_append_of
    · intro a ha
      simpa using hge a ha
    · intro a ha
      have : a ∈ oldE := by
        cases oldE with
        | nil => simp at ha
        | cons b l => simp at ha; subst ha; simp
      have := hlt a this
      simp; omega
  unfold popc popped
  simp only [h1, List.drop_one, List.tail_cons, h2]

lemma Inv.co_lt {g : G} {gr : List Nat} {st : TState} (h : Inv g gr st) (v : Nat)
    (hv : lw st v = sentinel g) : co st v < st.comps.length := by
  obtain ⟨c, hc, hvc⟩ := List.mem_flatten.1 ((h.cflat v).2 hv)
  obtain ⟨s, t, e⟩ := List.append_of_mem hc
  rw [h.cof s c t e v hvc, e]
  simp; omega

lemma popped_inv (g : G) (gr : List Nat) (st : TState) (nid : Nat) (new rest : List Nat)
    (newE oldE : List (Nat × Nat)) (h : Inv g (nid :: gr) st)
    (hstk : st.stack = new ++ nid :: rest)
    (hgr : ∀ z ∈ gr, z ∈ rest)
    (hp : ∀ z ∈ gr, Path g z nid)
    (hlt : ∀ y ∈ rest, lw st y < lw st nid)
    (hsucc : ∀ v ∈ out g nid, lw st v ≠ 0)
    (hx : ∀ x, (x ∈ new ∨ x = nid) → ∀ y ∈ out g x, y ∉ rest)
    (hlt2 : ∀ e ∈ oldE, e.2 < rest.length)
    (hsound : ∀ e ∈ newE, ∃ u, (u ∈ new ∨ u = nid) ∧ ∃ v ∈ out g u, lw st v = sentinel g ∧ co st v = e.1)
    (hcompl : ∀ u, (u ∈ new ∨ u = nid) → ∀ v ∈ out g u, lw st v = sentinel g → co st v ∈ newE.map (·.1)) :
    Inv g gr (popped g st nid new rest newE oldE) ∧
    (∀ v, lw (popped g st nid new rest newE oldE) v =
      if v ∈ new ∨ v = nid then sentinel g else lw st v) ∧
    (∀ v, co (popped g st nid new rest newE oldE) v =
      if v ∈ new ∨ v = nid then st.comps.length else co st v) := by
  set st' := popped g st nid new rest newE oldE with hst'
  have hnd : (new ++ nid :: rest).Nodup := hstk ▸ h.nodup
  have hmem : ∀ v, v ∈ st.stack ↔ (v ∈ new ∨ v = nid) ∨ v ∈ rest := by
    intro v; rw [hstk]; simp [or_assoc]
  have hPstack : ∀ v, (v ∈ new ∨ v = nid) → v ∈ st.stack := fun v hv => (hmem v).2 (Or.inl hv)
  have hPrest : ∀ v, (v ∈ new ∨ v = nid) → v ∉ rest := by
    intro v hv hr
    rw [List.nodup_append] at hnd
    rcases hv with hv | rfl
    · exact hnd.2.2 v hv v (by simp [hr]) rfl
    · exact (List.nodup_cons.1 hnd.2.1).1 hr
  have hPsz : ∀ v, (v ∈ new ∨ v = nid) → v < st.low.size :=
    fun v hv => lw_lt_size st v ((h.onstack v).1 (hPstack v hv)).1
  have hM : ∀ v, v ∈ (new ++ [nid]).reverse ↔ (v ∈ new ∨ v = nid) := by
    intro v; simp [or_comm]
  have hlw : ∀ v, lw st' v = if v ∈ new ∨ v = nid then sentinel g else lw st v := by
    intro v
    show (((new ++ [nid]).reverse).foldl (fun a v => a.setIfInBounds v (sentinel g)) st.low).getD v 0 = _
    rw [foldl_setk_getD]
    by_cases hv : v ∈ new ∨ v = nid
    · have : v ∈ (new ++ [nid]).reverse := (hM v).2 hv
      rw [if_pos ⟨this, hPsz v hv⟩, if_pos hv]
    · have : v ∉ (new ++ [nid]).reverse := fun c => hv ((hM v).1 c)
      rw [if_neg (fun c => this c.1), if_neg hv]; rfl
  have hco : ∀ v, co st' v = if v ∈ new ∨ v = nid then st.comps.length else co st v := by
    intro v
    show (((new ++ [nid]).reverse).foldl (fun a v => a.setIfInBounds v st.comps.length) st.compOf).getD v 0 = _
    rw [foldl_setk_getD]
    by_cases hv : v ∈ new ∨ v = nid
    · have : v ∈ (new ++ [nid]).reverse := (hM v).2 hv
      rw [if_pos ⟨this, by rw [h.cosz, ← h.lowsz]; exact hPsz v hv⟩, if_pos hv]
    · have : v ∉ (new ++ [nid]).reverse := fun c => hv ((hM v).1 c)
      rw [if_neg (fun c => this c.1), if_neg hv]; rfl
  refine ⟨?_, hlw, hco⟩
  have hPlw : ∀ v, (v ∈ new ∨ v = nid) → lw st v ≠ 0 ∧ lw st v ≠ sentinel g :=
    fun v hv => (h.onstack v).1 (hPstack v hv)
  have hzero : ∀ v, lw st' v = 0 ↔ lw st v = 0 := by
    intro v; rw [hlw]; split_ifs with e
    · have := (hPlw v e).1
      constructor
      · intro e; unfold sentinel at e; omega
      · intro e; exact absurd e this
    · rfl
  have hsent : ∀ v, lw st' v = sentinel g ↔ ((v ∈ new ∨ v = nid) ∨ lw st v = sentinel g) := by
    intro v; rw [hlw]; split_ifs with e
    · simp [e]
    · simp [e]
  have hnidstack : nid ∈ st.stack := hPstack nid (Or.inr rfl)
  -- successors of popped nodes
  have hsuccP : ∀ u, (u ∈ new ∨ u = nid) → ∀ v ∈ out g u,
      (v ∈ new ∨ v = nid) ∨ lw st v = sentinel g := by
    intro u hu v hv
    have hvis : lw st v ≠ 0 := by
      rcases hu with hu | rfl
      · have hun : u ∉ nid :: gr := by
          intro hm
          rcases List.mem_cons.1 hm with rfl | hm
          · exact (List.nodup_append.1 hnd).2.2 u hu u (by simp) rfl
          · exact hPrest u (Or.inl hu) (hgr u hm)
        exact h.b2w u (hPlw u (Or.inl hu)).1 hun v hv
      · exact hsucc v hv
    by_cases hs : lw st v = sentinel g
    · exact Or.inr hs
    · have : v ∈ st.stack := (h.onstack v).2 ⟨hvis, hs⟩
      rcases (hmem v).1 this with hP | hr
      · exact Or.inl hP
      · exact absurd hr (hx u hu v hv)
  exact
  { lowsz := by
      show (((new ++ [nid]).reverse).foldl (fun a v => a.setIfInBounds v (sentinel g)) st.low).size = _
      rw [foldl_setk_size, h.lowsz]
    cosz := by
      show (((new ++ [nid]).reverse).foldl (fun a v => a.setIfInBounds v st.comps.length) st.compOf).size = _
      rw [foldl_setk_size, h.cosz]
    nodup := by
      show rest.Nodup
      exact (List.nodup_cons.1 (List.nodup_append.1 hnd).2.1).2
    onstack := by
      intro v
      show v ∈ rest ↔ _
      rw [ne_eq, ne_eq, hzero, hsent]
      by_cases hP : v ∈ new ∨ v = nid
      · simp [hP, hPrest v hP]
      · have := h.onstack v
        rw [hmem v] at this
        simp only [hP, false_or] at this ⊢
        exact this
    lowlt := by
      intro v hv
      show _ < st.index
      have hP : ¬ (v ∈ new ∨ v = nid) := fun hP => hPrest v hP hv
      rw [hlw, if_neg hP]
      exact h.lowlt v ((hmem v).2 (Or.inr hv))
    idx1 := h.idx1
    idx := by
      show st.index + unv g st' ≤ g.size + 1
      have := unv_mono g st st' (fun x hx => by rw [ne_eq, hzero]; exact hx)
      have := h.idx
      omega
    spath := by
      show rest.Pairwise _
      have := h.spath
      rw [hstk, List.pairwise_append] at this
      exact (List.pairwise_cons.1 this.2.1).2
    grsub := hgr
    wit := by
      intro y hy
      have hy' : y ∈ rest := hy
      obtain ⟨z, hz, hle, hyz⟩ := h.wit y ((hmem y).2 (Or.inr hy'))
      rcases List.mem_cons.1 hz with rfl | hzg
      · have := hlt y hy'; omega
      · refine ⟨z, hzg, ?_, hyz⟩
        rw [hlw, hlw, if_neg (fun hP => hPrest z hP (hgr z hzg)), if_neg (fun hP => hPrest y hP hy')]
        exact hle
    b2w := by
      intro u hu hug v hv
      rw [ne_eq, hzero] at hu ⊢
      by_cases hun : u = nid
      · subst hun; exact hsucc v hv
      · exact h.b2w u hu (by simp [hun, hug]) v hv
    cflat := by
      intro v
      show v ∈ ((new ++ [nid]).reverse :: st.comps).flatten ↔ _
      rw [hsent, List.flatten_cons, List.mem_append, h.cflat v, hM]
    cnodup := by
      show ((new ++ [nid]).reverse :: st.comps).flatten.Nodup
      rw [List.flatten_cons, List.nodup_append]
      refine ⟨?_, h.cnodup, ?_⟩
      · rw [List.nodup_reverse]
        have := (List.nodup_append.1 hnd)
        rw [List.nodup_append]
        refine ⟨this.1, by simp, ?_⟩
        intro a ha b hb
        simp only [List.mem_singleton] at hb
        subst hb
        exact fun e => this.2.2 a ha b (by simp) e
      · intro a ha b hb e
        subst e
        have hP : a ∈ new ∨ a = nid := (hM a).1 ha
        exact (hPlw a hP).2 ((h.cflat a).1 hb)
    cne := by
      intro c hc
      rcases List.mem_cons.1 hc with rfl | hc
      · simp
      · exact h.cne c hc
    cof := by
      intro cs1 c cs2 e v hv
      have e' : (new ++ [nid]).reverse :: st.comps = cs1 ++ c :: cs2 := e
      cases cs1 with
      | nil =>
        simp only [List.nil_append, List.cons.injEq] at e'
        obtain ⟨e1, e2⟩ := e'
        subst e1
        have hP : v ∈ new ∨ v = nid := (hM v).1 hv
        rw [hco, if_pos hP, e2]
      | cons c0 cs1 =>
        simp only [List.cons_append, List.cons.injEq] at e'
        obtain ⟨-, e2⟩ := e'
        have hs : lw st v = sentinel g :=
          (h.cflat v).1 (List.mem_flatten.2 ⟨c, by rw [e2]; simp, hv⟩)
        rw [hco, if_neg (fun hP => (hPlw v hP).2 hs)]
        exact h.cof cs1 c cs2 e2 v hv
    cstrong := by
      intro c hc u hu v hv
      rcases List.mem_cons.1 hc with rfl | hc
      · have hPu : u ∈ new ∨ u = nid := (hM u).1 hu
        have hPv : v ∈ new ∨ v = nid := (hM v).1 hv
        have h1 : Path g u nid := by
          obtain ⟨z, hz, -, huz⟩ := h.wit u (hPstack u hPu)
          rcases List.mem_cons.1 hz with rfl | hzg
          · exact huz
          · exact huz.trans (hp z hzg)
        have h2 : Path g nid v := by
          rcases hPv with hv | rfl
          · have := h.spath
            rw [hstk, List.pairwise_append] at this
            exact this.2.2 v hv nid (by simp)
          · exact Relation.ReflTransGen.refl
        exact h1.trans h2
      · exact h.cstrong c hc u hu v hv
    ctopo := by
      intro u hu v hv
      rw [hsent] at hu ⊢
      rcases hu with hP | hs
      · rcases hsuccP u hP v hv with hPv | hsv
        · refine ⟨Or.inl hPv, ?_⟩
          rw [hco, hco, if_pos hPv, if_pos hP]
        · refine ⟨Or.inr hsv, ?_⟩
          rw [hco, hco, if_neg (fun hPv => (hPlw v hPv).2 hsv), if_pos hP]
          exact (h.co_lt v hsv).le
      · have := h.ctopo u hs v hv
        refine ⟨Or.inr this.1, ?_⟩
        rw [hco, hco, if_neg (fun hPv => (hPlw v hPv).2 this.1), if_neg (fun hPu => (hPlw u hPu).2 hs)]
        exact this.2
    opos := hlt2
    olen := by
      show (_ :: st.outs).length = (_ :: st.comps).length
      simp [h.olen]
    ook := by
      intro cs1 c cs2 e
      have e' : (new ++ [nid]).reverse :: st.comps = cs1 ++ c :: cs2 := e
      show OutOK g st' c ((dedupSorted (sortNat (newE.map (·.1))) :: st.outs).getD cs1.length [])
      cases cs1 with
      | nil =>
        simp only [List.nil_append, List.cons.injEq] at e'
        obtain ⟨e1, e2⟩ := e'
        subst e1
        simp only [List.length_nil, List.getD_cons_zero]
        refine ⟨dedupSorted_sorted _ (sortNat_sorted _), ?_⟩
        intro d
        rw [mem_dedupSorted, mem_sortNat]
        constructor
        · intro hd
          obtain ⟨e, he, rfl⟩ := List.mem_map.1 hd
          obtain ⟨u, hPu, v, hv, hsv, hcv⟩ := hsound e he
          refine ⟨u, (hM u).2 hPu, v, hv, ?_, ?_⟩
          · rw [hco, if_neg (fun hPv => (hPlw v hPv).2 hsv)]; exact hcv
          · rw [hco, if_pos hPu, ← hcv]
            exact (h.co_lt v hsv).ne
        · rintro ⟨u, hu, v, hv, rfl, hne⟩
          have hPu : u ∈ new ∨ u = nid := (hM u).1 hu
          rw [hco u, if_pos hPu] at hne
          rcases hsuccP u hPu v hv with hPv | hsv
          · rw [hco, if_pos hPv] at hne; exact absurd rfl hne
          · rw [hco, if_neg (fun hPv => (hPlw v hPv).2 hsv)]
            exact hcompl u hPu v hv hsv
      | cons c0 cs1 =>
        simp only [List.cons_append, List.cons.injEq] at e'
        obtain ⟨-, e2⟩ := e'
        simp only [List.length_cons, List.getD_cons_succ]
        have hc : ∀ u ∈ c, lw st u = sentinel g := fun u hu =>
          (h.cflat u).1 (List.mem_flatten.2 ⟨c, by rw [e2]; simp, hu⟩)
        apply OutOK_congr g st st' c _ hc h.ctopo _ (h.ook cs1 c cs2 e2)
        intro x hx
        rw [hco, if_neg (fun hP => (hPlw x hP).2 hx)] }

/-! ## specification of one `connect` call -/

/-- what a call `connect nid` (from state `st` to `st'`) guarantees besides the invariant;
`new` are the nodes it leaves on the stack, `newE` the out-edge records it leaves -/
structure Post (g : G) (nid : Nat) (st st' : TState) (new : List Nat) (newE : List (Nat × Nat)) : Prop where
  frame : ∀ x, lw st x ≠ 0 → lw st' x = lw st x
  coframe : ∀ x, lw st x = sentinel g → co st' x = co st x
  vis : lw st' nid ≠ 0
  stk : st'.stack = new ++ st.stack
  fresh : ∀ x ∈ new, lw st x = 0
  xedge : ∀ x ∈ new, ∀ y ∈ out g x, y ∈ st.stack → lw st' nid ≤ lw st y
  ostk : st'.outStack = newE ++ st.outStack
  ogep : ∀ e ∈ newE, st.stack.length ≤ e.2
  osound : ∀ e ∈ newE, ∃ u ∈ new, ∃ v ∈ out g u, lw st' v = sentinel g ∧ co st' v = e.1
  ocompl : ∀ u ∈ new, ∀ v ∈ out g u, lw st' v = sentinel g → co st' v ∈ newE.map (·.1)

lemma Post.triv (g : G) (nid : Nat) (st : TState) (h : lw st nid ≠ 0) : Post g nid st st [] [] :=
  { frame := fun _ _ => rfl, coframe := fun _ _ => rfl, vis := h, stk := rfl,
    fresh := by simp, xedge := by simp, ostk := rfl, ogep := by simp, osound := by simp,
    ocompl := by simp }

/-- loop invariant of the successor loop of `connect nid` started in `st0` -/
structure Loop (g : G) (gr : List Nat) (nid : Nat) (st0 : TState) (done doneE : List Nat) (st : TState)
    (mn : Nat) (new : List Nat) (newE : List (Nat × Nat)) : Prop where
  inv : Inv g (nid :: gr) st
  frame : ∀ x, x ≠ nid → lw st0 x ≠ 0 → lw st x = lw st0 x
  coframe : ∀ x, lw st0 x = sentinel g → co st x = co st0 x
  lownid : lw st nid = st0.index
  unvlt : unv g st < unv g st0
  mnpos : 0 < mn
  mnle : mn ≤ st0.index
  mnwit : mn = st0.index ∨ ∃ z ∈ gr, lw st0 z ≤ mn ∧ Path g nid z
  donevis : ∀ y ∈ done, lw st y ≠ 0
  stk : st.stack = new ++ nid :: st0.stack
  fresh : ∀ x ∈ new, lw st0 x = 0
  xdone : ∀ y ∈ done, y ∈ st0.stack → mn ≤ lw st0 y
  xnew : ∀ x ∈ new, ∀ y ∈ out g x, y ∈ st0.stack → mn ≤ lw st0 y
  ostk : st.outStack = newE ++ st0.outStack
  ogep : ∀ e ∈ newE, st0.stack.length ≤ e.2
  osound : ∀ e ∈ newE, ∃ u, (u ∈ new ∨ u = nid) ∧ ∃ v ∈ out g u, lw st v = sentinel g ∧ co st v = e.1
  ocnew : ∀ u ∈ new, ∀ v ∈ out g u, lw st v = sentinel g → co st v ∈ newE.map (·.1)
  ocdone : ∀ v ∈ doneE, lw st v = sentinel g → co st v ∈ newE.map (·.1)
  esub : ∀ v ∈ doneE, v ∈ done

lemma loop_init (g : G) (gr : List Nat) (st0 : TState) (nid : Nat) (h : Inv g gr st0)
    (hn : nid < g.size) (h0 : lw st0 nid = 0) (hp : ∀ z ∈ gr, Path g z nid) :
    Loop g gr nid st0 [] [] (push st0 nid) st0.index [] [] := by
  have hsz : nid < st0.low.size := by rw [h.lowsz]; exact hn
  have hlw : ∀ v, lw (push st0 nid) v = if v = nid then st0.index else lw st0 v :=
    fun v => lw_push st0 nid v hsz
  exact
  { inv := push_inv g gr st0 nid h hn h0 hp
    frame := by intro x hx _; rw [hlw, if_neg hx]
    coframe := fun _ _ => rfl
    lownid := by rw [hlw, if_pos rfl]
    unvlt := by
      apply unv_lt g st0 (push st0 nid) _ nid hn h0
      · rw [hlw, if_pos rfl]; have := h.idx1; omega
      · intro x hx; rw [hlw]; split_ifs
        · have := h.idx1; omega
        · exact hx
    mnpos := h.idx1
    mnle := le_rfl
    mnwit := Or.inl rfl
    donevis := by simp
    stk := rfl
    fresh := by simp
    xdone := by simp
    xnew := by simp
    ostk := rfl
    ogep := by simp
    osound := by simp
    ocnew := by simp
    ocdone := by simp
    esub := by simp }

lemma loop_call (g : G) (gr : List Nat) (nid : Nat) (st0 : TState) (done doneE : List Nat)
    (st : TState) (mn : Nat) (new : List Nat) (newE : List (Nat × Nat))
    (oid : Nat) (sta : TState) (new2 : List Nat) (newE2 : List (Nat × Nat))
    (h0 : Inv g gr st0) (hnid0 : lw st0 nid = 0)
    (hL : Loop g gr nid st0 done doneE st mn new newE)
    (he : oid ∈ out g nid) (hn : nid < g.size)
    (hia : Inv g (nid :: gr) sta) (hP : Post g oid st sta new2 newE2) :
    Loop g gr nid st0 (done ++ [oid]) doneE sta (if lw sta oid < mn then lw sta oid else mn)
      (new2 ++ new) (newE2 ++ newE) := by
  have hnn : nid ∉ st0.stack := fun hm => ((h0.onstack nid).1 hm).1 hnid0
  have hnidst : lw st nid ≠ 0 := by rw [hL.lownid]; have := h0.idx1; omega
  -- low values of old visited nodes other than nid never change
  have hfr : ∀ x, x ≠ nid → lw st0 x ≠ 0 → lw sta x = lw st0 x := by
    intro x hx h; rw [hP.frame x (by rw [hL.frame x hx h]; exact h), hL.frame x hx h]
  have hstack0 : ∀ y ∈ st0.stack, y ≠ nid ∧ lw st0 y ≠ 0 ∧ y ∈ st.stack := by
    intro y hy
    refine ⟨fun e => hnn (e ▸ hy), ((h0.onstack y).1 hy).1, ?_⟩
    rw [hL.stk]; simp [hy]
  have hmn' : (if lw sta oid < mn then lw sta oid else mn) ≤ mn := by split_ifs <;> omega
  have hmn'' : (if lw sta oid < mn then lw sta oid else mn) ≤ lw sta oid := by split_ifs <;> omega
  exact
  { inv := hia
    frame := hfr
    coframe := by
      intro x hx
      have hxn : x ≠ nid := by rintro rfl; rw [hnid0] at hx; unfold sentinel at hx; omega
      have h1 : lw st x = sentinel g := by rw [hL.frame x hxn (by rw [hx]; unfold sentinel; omega), hx]
      rw [hP.coframe x h1, hL.coframe x hx]
    lownid := by rw [hP.frame nid hnidst, hL.lownid]
    unvlt := lt_of_le_of_lt (unv_mono g st sta (fun x hx => by rw [hP.frame x hx]; exact hx)) hL.unvlt
    mnpos := by
      have := hL.mnpos; have := hP.vis
      split_ifs <;> omega
    mnle := le_trans hmn' hL.mnle
    mnwit := by
      split_ifs with hlt
      · right
        have hlo : lw sta oid < st0.index := lt_of_lt_of_le hlt hL.mnle
        have hos : oid ∈ sta.stack := (hia.onstack oid).2 ⟨hP.vis, by have := h0.idx_lt; omega⟩
        obtain ⟨z, hz, hle, hoz⟩ := hia.wit oid hos
        rcases List.mem_cons.1 hz with rfl | hzg
        · rw [hP.frame z hnidst, hL.lownid] at hle; omega
        · have hz0 := hstack0 z (h0.grsub z hzg)
          refine ⟨z, hzg, ?_, Relation.ReflTransGen.head ⟨hn, he⟩ hoz⟩
          rw [← hfr z hz0.1 hz0.2.1]; exact hle
      · exact hL.mnwit
    donevis := by
      intro y hy
      rcases List.mem_append.1 hy with hy | hy
      · have := hL.donevis y hy
        rw [hP.frame y this]; exact this
      · simp only [List.mem_singleton] at hy; subst hy; exact hP.vis
    stk := by rw [hP.stk, hL.stk, List.append_assoc]
    fresh := by
      intro x hx
      rcases List.mem_append.1 hx with hx | hx
      · have h1 := hP.fresh x hx
        by_contra h2
        have hxn : x ≠ nid := by rintro rfl; exact hnidst h1
        rw [hL.frame x hxn h2] at h1; exact h2 h1
      · exact hL.fresh x hx
    xdone := by
      intro y hy hys
      rcases List.mem_append.1 hy with hy | hy
      · exact le_trans hmn' (hL.xdone y hy hys)
      · simp only [List.mem_singleton] at hy; subst hy
        have := hstack0 y hys
        rw [← hfr y this.1 this.2.1]; exact hmn''
    xnew := by
      intro x hx y hy hys
      rcases List.mem_append.1 hx with hx | hx
      · have := hstack0 y hys
        have h1 := hP.xedge x hx y hy this.2.2
        rw [hL.frame y this.1 this.2.1] at h1
        exact le_trans hmn'' h1
      · exact le_trans hmn' (hL.xnew x hx y hy hys)
    ostk := by rw [hP.ostk, hL.ostk, List.append_assoc]
    ogep := by
      intro e he
      rcases List.mem_append.1 he with he | he
      · have := hP.ogep e he
        rw [hL.stk] at this
        simp at this; omega
      · exact hL.ogep e he
    osound := by
      intro e he
      rcases List.mem_append.1 he with he | he
      · obtain ⟨u, hu, v, hv, h1, h2⟩ := hP.osound e he
        exact ⟨u, Or.inl (List.mem_append_left _ hu), v, hv, h1, h2⟩
      · obtain ⟨u, hu, v, hv, h1, h2⟩ := hL.osound e he
        refine ⟨u, ?_, v, hv, ?_, ?_⟩
        · rcases hu with hu | hu
          · exact Or.inl (List.mem_append_right _ hu)
          · exact Or.inr hu
        · rw [hP.frame v (by rw [h1]; unfold sentinel; omega), h1]
        · rw [hP.coframe v h1, h2]
    ocnew := by
      intro u hu v hv hs
      rw [List.map_append, List.mem_append]
      rcases List.mem_append.1 hu with hu | hu
      · exact Or.inl (hP.ocompl u hu v hv hs)
      · right
        have hus : u ∈ st.stack := by rw [hL.stk]; simp [hu]
        have hnd := hL.inv.nodup
        rw [hL.stk] at hnd
        have hug : u ∉ nid :: gr := by
          intro hm
          rcases List.mem_cons.1 hm with rfl | hm
          · exact (List.nodup_append.1 hnd).2.2 u hu u (by simp) rfl
          · exact (List.nodup_append.1 hnd).2.2 u hu u (by simp [h0.grsub u hm]) rfl
        have hvis := hL.inv.b2w u ((hL.inv.onstack u).1 hus).1 hug v hv
        have hs' : lw st v = sentinel g := by rw [← hP.frame v hvis]; exact hs
        rw [hP.coframe v hs']
        exact hL.ocnew u hu v hv hs'
    ocdone := by
      intro v hv hs
      rw [List.map_append, List.mem_append]
      right
      have hs' : lw st v = sentinel g := by
        rw [← hP.frame v (hL.donevis v (hL.esub v hv))]; exact hs
      rw [hP.coframe v hs']
      exact hL.ocdone v hv hs'
    esub := fun v hv => List.mem_append_left _ (hL.esub v hv) }

lemma loop_record (g : G) (gr : List Nat) (nid : Nat) (st0 : TState) (done doneE : List Nat)
    (st : TState) (mn : Nat) (new : List Nat) (newE : List (Nat × Nat)) (oid : Nat)
    (hL : Loop g gr nid st0 done doneE st mn new newE)
    (he : oid ∈ out g nid) (hod : oid ∈ done) :
    ∃ newE', Loop g gr nid st0 done (doneE ++ [oid])
      (if lw st oid == sentinel g then record st oid st0.stack.length else st) mn new newE' := by
  by_cases hs : lw st oid = sentinel g
  · have : (lw st oid == sentinel g) = true := by simpa using hs
    rw [if_pos this]
    refine ⟨(co st oid, st0.stack.length) :: newE, ?_⟩
    exact
    { inv := record_inv g (nid :: gr) st oid _ hL.inv (by rw [hL.stk]; simp; omega)
      frame := hL.frame
      coframe := hL.coframe
      lownid := hL.lownid
      unvlt := hL.unvlt
      mnpos := hL.mnpos
      mnle := hL.mnle
      mnwit := hL.mnwit
      donevis := hL.donevis
      stk := hL.stk
      fresh := hL.fresh
      xdone := hL.xdone
      xnew := hL.xnew
      ostk := by
        show (co st oid, st0.stack.length) :: st.outStack = _
        rw [hL.ostk]; rfl
      ogep := by
        intro e he
        rcases List.mem_cons.1 he with rfl | he
        · exact le_rfl
        · exact hL.ogep e he
      osound := by
        intro e he
        rcases List.mem_cons.1 he with rfl | he
        · exact ⟨nid, Or.inr rfl, oid, ‹_›, hs, rfl⟩
        · exact hL.osound e he
      ocnew := by
        intro u hu v hv hsv
        exact List.mem_map.2 (by
          obtain ⟨e, he, h⟩ := List.mem_map.1 (hL.ocnew u hu v hv hsv)
          exact ⟨e, List.mem_cons_of_mem _ he, h⟩)
      ocdone := by
        intro v hv hsv
        rcases List.mem_append.1 hv with hv | hv
        · obtain ⟨e, he, h⟩ := List.mem_map.1 (hL.ocdone v hv hsv)
          exact List.mem_map.2 ⟨e, List.mem_cons_of_mem _ he, h⟩
        · simp only [List.mem_singleton] at hv; subst hv
          exact List.mem_map.2 ⟨_, List.mem_cons_self, rfl⟩
      esub := by
        intro v hv
        rcases List.mem_append.1 hv with hv | hv
        · exact hL.esub v hv
        · simp only [List.mem_singleton] at hv; subst hv; exact hod }
  · have : ¬ (lw st oid == sentinel g) = true := by simpa using hs
    rw [if_neg this]
    refine ⟨newE, ?_⟩
    exact
    { hL with
      ocdone := by
        intro v hv hsv
        rcases List.mem_append.1 hv with hv | hv
        · exact hL.ocdone v hv hsv
        · simp only [List.mem_singleton] at hv; subst hv; exact absurd hsv hs
      esub := by
        intro v hv
        rcases List.mem_append.1 hv with hv | hv
        · exact hL.esub v hv
        · simp only [List.mem_singleton] at hv; subst hv; exact hod }

/-- the specification of `connect`, as an induction hypothesis -/
def ConnectSpec (g : G) (fuel : Nat) : Prop :=
  ∀ (nid : Nat) (st : TState) (gr : List Nat), Inv g gr st → nid < g.size → lw st nid = 0 →
    (∀ z ∈ gr, Path g z nid) → unv g st < fuel →
    ∃ new newE, Inv g gr (connect g fuel nid st) ∧ Post g nid st (connect g fuel nid st) new newE

lemma loop_all (g : G) (hwf : WF g) (fuel : Nat) (ih : ConnectSpec g fuel)
    (gr : List Nat) (nid : Nat) (st0 : TState) (h0 : Inv g gr st0) (hnid0 : lw st0 nid = 0)
    (hn : nid < g.size) (hp : ∀ z ∈ gr, Path g z nid) (hf : unv g st0 < fuel + 1) :
    ∀ (ws done : List Nat) (st : TState) (mn : Nat) (new : List Nat) (newE : List (Nat × Nat)),
      done ++ ws = out g nid → Loop g gr nid st0 done done st mn new newE →
      ∃ new' newE', Loop g gr nid st0 (out g nid) (out g nid)
        (ws.foldl (cstep g fuel st0.stack.length) (st, mn)).1
        (ws.foldl (cstep g fuel st0.stack.length) (st, mn)).2 new' newE' := by
  intro ws
  induction ws with
  | nil =>
    intro done st mn new newE hd hL
    simp only [List.append_nil] at hd
    subst hd
    exact ⟨new, newE, hL⟩
  | cons oid ws ihw =>
    intro done st mn new newE hd hL
    have he : oid ∈ out g nid := by rw [← hd]; simp
    have hoid : oid < g.size := hwf nid hn oid he
    have hd' : (done ++ [oid]) ++ ws = out g nid := by rw [← hd]; simp
    rw [List.foldl_cons]
    -- the state after the (possible) recursive call
    obtain ⟨sta, hsta, new2, newE2, hia, hP⟩ : ∃ sta,
        sta = (if st.low.getD oid 0 == 0 then connect g fuel oid st else st) ∧
        ∃ new2 newE2, Inv g (nid :: gr) sta ∧ Post g oid st sta new2 newE2 := by
      by_cases hv : lw st oid = 0
      · have : (st.low.getD oid 0 == 0) = true := by simpa [lw] using hv
        refine ⟨connect g fuel oid st, by rw [if_pos this], ?_⟩
        apply ih oid st (nid :: gr) hL.inv hoid hv
        · intro z hz
          rcases List.mem_cons.1 hz with rfl | hz
          · exact Relation.ReflTransGen.single ⟨hn, he⟩
          · exact (hp z hz).tail ⟨hn, he⟩
        · have := hL.unvlt; omega
      · have : ¬ (st.low.getD oid 0 == 0) = true := by simpa [lw] using hv
        exact ⟨st, by rw [if_neg this], [], [], hL.inv, Post.triv g oid st hv⟩
    have hL1 := loop_call g gr nid st0 done done st mn new newE oid sta new2 newE2 h0 hnid0 hL he hn hia hP
    obtain ⟨newE', hL2⟩ := loop_record g gr nid st0 (done ++ [oid]) done sta _ _ _ oid hL1 he (by simp)
    have hc : cstep g fuel st0.stack.length (st, mn) oid =
        (if lw sta oid == sentinel g then record sta oid st0.stack.length else sta,
         if lw sta oid < mn then lw sta oid else mn) := by
      rw [hsta]; rfl
    rw [hc]
    exact ihw (done ++ [oid]) _ _ _ _ hd' hL2

lemma connect_spec (g : G) (hwf : WF g) : ∀ fuel, ConnectSpec g fuel := by
  intro fuel
  induction fuel with
  | zero => intro nid st gr _ _ _ _ hf; exact absurd hf (Nat.not_lt_zero _)
  | succ fuel ih =>
    intro nid st0 gr h0 hn hnid0 hp hf
    rw [connect_succ]
    obtain ⟨new, newE, hL⟩ := loop_all g hwf fuel ih gr nid st0 h0 hnid0 hn hp hf (out g nid) []
      (push st0 nid) st0.index [] [] (by simp) (loop_init g gr st0 nid h0 hn hnid0 hp)
    generalize ((out g nid).foldl (cstep g fuel st0.stack.length) (push st0 nid, st0.index)) = acc at hL ⊢
    obtain ⟨st, mn⟩ := acc
    simp only at hL
    have hnn0 : nid ∉ st0.stack := fun hm => ((h0.onstack nid).1 hm).1 hnid0
    have hng : nid ∉ gr := fun hm => hnn0 (h0.grsub nid hm)
    have hidx := h0.idx_lt
    have hstack0 : ∀ y ∈ st0.stack, lw st y = lw st0 y := by
      intro y hy
      exact hL.frame y (fun e => hnn0 (e ▸ hy)) ((h0.onstack y).1 hy).1
    have hnd := hL.inv.nodup
    rw [hL.stk] at hnd
    have hnn : nid ∉ new := fun hm => (List.nodup_append.1 hnd).2.2 nid hm nid (by simp) rfl
    unfold finish
    simp only
    by_cases hlt : mn < st0.index
    · rw [if_pos hlt]
      have hsz : nid < st.low.size := by rw [hL.inv.lowsz]; exact hn
      have hlw : ∀ v, lw (setLow st nid mn) v = if v = nid then mn else lw st v :=
        fun v => lw_setLow st nid mn v hsz
      have hsent : ∀ v, lw (setLow st nid mn) v = sentinel g ↔ lw st v = sentinel g := by
        intro v; rw [hlw]; split_ifs with e
        · subst e; rw [hL.lownid]; constructor <;> intro e <;> omega
        · rfl
      refine ⟨new ++ [nid], newE, ?_, ?_⟩
      · apply setLow_inv g gr st nid mn hL.inv hng hL.mnpos (by rw [hL.lownid]; exact hlt)
        · rcases hL.mnwit with e | ⟨z, hz, hle, hpz⟩
          · omega
          · exact ⟨z, hz, by rw [hstack0 z (h0.grsub z hz)]; exact hle, hpz⟩
        · exact hL.donevis
      · exact
        { frame := by
            intro x hx
            have hxn : x ≠ nid := by rintro rfl; exact hx hnid0
            rw [hlw, if_neg hxn]; exact hL.frame x hxn hx
          coframe := hL.coframe
          vis := by rw [hlw, if_pos rfl]; have := hL.mnpos; omega
          stk := by
            show st.stack = _
            rw [hL.stk]; simp
          fresh := by
            intro x hx
            rcases List.mem_append.1 hx with hx | hx
            · exact hL.fresh x hx
            · simp only [List.mem_singleton] at hx; subst hx; exact hnid0
          xedge := by
            intro x hx y hy hys
            rw [hlw, if_pos rfl]
            rcases List.mem_append.1 hx with hx | hx
            · exact hL.xnew x hx y hy hys
            · simp only [List.mem_singleton] at hx; subst hx; exact hL.xdone y hy hys
          ostk := hL.ostk
          ogep := hL.ogep
          osound := by
            intro e he
            obtain ⟨u, hu, v, hv, h1, h2⟩ := hL.osound e he
            refine ⟨u, ?_, v, hv, (hsent v).2 h1, h2⟩
            rcases hu with hu | hu
            · exact List.mem_append_left _ hu
            · subst hu; simp
          ocompl := by
            intro u hu v hv hs
            rw [hsent] at hs
            rcases List.mem_append.1 hu with hu | hu
            · exact hL.ocnew u hu v hv hs
            · simp only [List.mem_singleton] at hu; subst hu; exact hL.ocdone v hv hs }
    · rw [if_neg hlt]
      have hmn : mn = st0.index := by have := hL.mnle; omega
      rw [popc_eq g st nid new st0.stack newE st0.outStack hL.stk hnn hL.ostk hL.ogep h0.opos]
      have hx : ∀ x, (x ∈ new ∨ x = nid) → ∀ y ∈ out g x, y ∉ st0.stack := by
        intro x hx y hy hys
        have h1 := h0.lowlt y hys
        have h2 : mn ≤ lw st0 y := by
          rcases hx with hx | rfl
          · exact hL.xnew x hx y hy hys
          · exact hL.xdone y hy hys
        omega
      obtain ⟨hinv, hlw, hco⟩ := popped_inv g gr st nid new st0.stack newE st0.outStack hL.inv hL.stk
        h0.grsub hp
        (by intro y hy; rw [hstack0 y hy, hL.lownid]; exact h0.lowlt y hy)
        hL.donevis hx h0.opos hL.osound
        (by
          intro u hu v hv hs
          rcases hu with hu | rfl
          · exact hL.ocnew u hu v hv hs
          · exact hL.ocdone v hv hs)
      have hnotP : ∀ x, lw st0 x ≠ 0 → ¬ (x ∈ new ∨ x = nid) := by
        intro x hx hP
        rcases hP with hP | hP
        · exact hx (hL.fresh x hP)
        · exact hx (hP ▸ hnid0)
      refine ⟨[], [], hinv, ?_⟩
      exact
      { frame := by
          intro x hx
          have hP := hnotP x hx
          rw [hlw, if_neg hP]
          exact hL.frame x (fun e => hP (Or.inr e)) hx
        coframe := by
          intro x hx
          rw [hco, if_neg (hnotP x (by rw [hx]; unfold sentinel; omega))]
          exact hL.coframe x hx
        vis := by rw [hlw, if_pos (Or.inr rfl)]; unfold sentinel; omega
        stk := rfl
        fresh := by simp
        xedge := by simp
        ostk := rfl
        ogep := by simp
        osound := by simp
        ocompl := by simp }

/-! ## the top-level loop -/

/-- initial state of `tarjan` -/
def tinit (g : G) : TState := ⟨Array.replicate g.size 0, [], 1, [], Array.replicate g.size 0, [], []⟩

/-- one iteration of the top-level loop -/
def tstep (g : G) (st : TState) (nid : Nat) : TState :=
  if st.low.getD nid 0 == 0 then connect g (g.size + 1) nid st else st

/-- final state of `tarjan` -/
def tfinal (g : G) : TState := (List.range g.size).foldl (tstep g) (tinit g)

lemma tarjan_eq (g : G) :
    tarjan g = ((tfinal g).comps.reverse, (tfinal g).compOf.toList, (tfinal g).outs.reverse) := rfl

lemma lw_tinit (g : G) (v : Nat) : lw (tinit g) v = 0 := by
  unfold lw tinit
  simp only [Array.getD_eq_getD_getElem?, Array.getElem?_replicate]
  split_ifs <;> rfl

lemma tinit_inv (g : G) : Inv g [] (tinit g) :=
  { lowsz := by simp [tinit]
    cosz := by simp [tinit]
    nodup := List.nodup_nil
    onstack := by
      intro v
      rw [lw_tinit]
      show v ∈ [] ↔ _
      simp
    lowlt := by intro v hv; exact absurd hv (by simp [tinit])
    idx1 := le_rfl
    idx := by
      show 1 + unv g (tinit g) ≤ g.size + 1
      have := unv_le_size g (tinit g); omega
    spath := List.Pairwise.nil
    grsub := by simp
    wit := by intro y hy; exact absurd hy (by simp [tinit])
    b2w := by intro u hu; exact absurd (lw_tinit g u) hu
    cflat := by
      intro v
      rw [lw_tinit]
      show v ∈ ([] : List (List Nat)).flatten ↔ _
      simp [sentinel]
    cnodup := by show ([] : List (List Nat)).flatten.Nodup; simp
    cne := by intro c hc; exact absurd hc (by simp [tinit])
    cof := by
      intro cs1 c cs2 e
      have : ([] : List (List Nat)) = cs1 ++ c :: cs2 := e
      simp at this
    cstrong := by intro c hc; exact absurd hc (by simp [tinit])
    ctopo := by
      intro u hu
      rw [lw_tinit] at hu; unfold sentinel at hu; omega
    opos := by intro e he; exact absurd he (by simp [tinit])
    olen := rfl
    ook := by
      intro cs1 c cs2 e
      have : ([] : List (List Nat)) = cs1 ++ c :: cs2 := e
      simp at this }

lemma tloop (g : G) (hwf : WF g) : ∀ (l : List Nat) (st : TState), Inv g [] st → (∀ x ∈ l, x < g.size) →
    Inv g [] (l.foldl (tstep g) st) ∧ (∀ x, lw st x ≠ 0 → lw (l.foldl (tstep g) st) x ≠ 0) ∧
    ∀ x ∈ l, lw (l.foldl (tstep g) st) x ≠ 0 := by
  intro l
  induction l with
  | nil => intro st h _; exact ⟨h, fun _ hx => hx, by simp⟩
  | cons nid l ih =>
    intro st h hl
    have hn : nid < g.size := hl nid (by simp)
    have hstep : Inv g [] (tstep g st nid) ∧ (∀ x, lw st x ≠ 0 → lw (tstep g st nid) x ≠ 0) ∧
        lw (tstep g st nid) nid ≠ 0 := by
      unfold tstep
      by_cases hv : lw st nid = 0
      · have : (st.low.getD nid 0 == 0) = true := by simpa [lw] using hv
        rw [if_pos this]
        obtain ⟨new, newE, hi, hP⟩ := connect_spec g hwf (g.size + 1) nid st [] h hn hv (by simp)
          (Nat.lt_succ_of_le (unv_le_size g st))
        exact ⟨hi, fun x hx => by rw [hP.frame x hx]; exact hx, hP.vis⟩
      · have : ¬ (st.low.getD nid 0 == 0) = true := by simpa [lw] using hv
        rw [if_neg this]
        exact ⟨h, fun _ hx => hx, hv⟩
    obtain ⟨a1, a2, a3⟩ := ih (tstep g st nid) hstep.1 (fun x hx => hl x (by simp [hx]))
    rw [List.foldl_cons]
    refine ⟨a1, fun x hx => a2 x (hstep.2.1 x hx), ?_⟩
    intro x hx
    rcases List.mem_cons.1 hx with rfl | hx
    · exact a2 x hstep.2.2
    · exact a3 x hx

lemma Inv.stack_nil {g : G} {st : TState} (h : Inv g [] st) : st.stack = [] := by
  apply List.eq_nil_iff_forall_not_mem.2
  intro y hy
  obtain ⟨z, hz, -⟩ := h.wit y hy
  simp at hz

lemma tfinal_inv (g : G) (hwf : WF g) :
    Inv g [] (tfinal g) ∧ ∀ x, x < g.size ↔ lw (tfinal g) x = sentinel g := by
  obtain ⟨h, -, h3⟩ := tloop g hwf (List.range g.size) (tinit g) (tinit_inv g) (by simp)
  change Inv g [] (tfinal g) at h
  change ∀ x ∈ List.range g.size, lw (tfinal g) x ≠ 0 at h3
  refine ⟨h, ?_⟩
  intro x
  constructor
  · intro hx
    have hv := h3 x (List.mem_range.2 hx)
    by_contra hs
    have : x ∈ (tfinal g).stack := (h.onstack x).2 ⟨hv, hs⟩
    rw [h.stack_nil] at this
    simp at this
  · intro hs
    have := lw_lt_size (tfinal g) x (by rw [hs]; unfold sentinel; omega)
    rw [h.lowsz] at this; exact this

/-! ## from the final state to the checker -/

lemma getD_append_length {α} (l1 : List α) (a : α) (l2 : List α) (d : α) :
    (l1 ++ a :: l2).getD l1.length d = a := by
  simp [List.getD_eq_getElem?_getD]

lemma eq_of_sorted_mem (l1 l2 : List Nat) (h1 : l1.Pairwise (· < ·)) (h2 : l2.Pairwise (· < ·))
    (h : ∀ d, d ∈ l1 ↔ d ∈ l2) : l1 = l2 := by
  apply List.Perm.eq_of_pairwise (le := (· < ·)) _ h1 h2
  · exact (List.perm_ext_iff_of_nodup (h1.imp ne_of_lt) (h2.imp ne_of_lt)).2 h
  · intro a b _ _ hab hba; omega

lemma mem_of_mem_getD {l : List (List Nat)} {i v : Nat} (h : v ∈ l.getD i []) : l.getD i [] ∈ l := by
  have hilt : i < l.length := by
    by_contra hge
    have : l[i]? = none := List.getElem?_eq_none (not_lt.mp hge)
    simp [List.getD_eq_getElem?_getD, this] at h
  simp only [List.getD_eq_getElem?_getD, List.getElem?_eq_getElem hilt, Option.getD_some]
  exact List.getElem_mem hilt

lemma split_at {α} (l : List α) (i : Nat) (hi : i < l.length) :
    ∃ l1 a l2, l = l1 ++ a :: l2 ∧ l1.length = i := by
  refine ⟨l.take i, l[i], l.drop (i + 1), ?_, by simp; omega⟩
  simp

lemma co_mono_path (g : G) (st : TState) (gr : List Nat) (h : Inv g gr st) (u v : Nat) (hp : Path g u v)
    (hu : lw st u = sentinel g) : lw st v = sentinel g ∧ co st v ≤ co st u := by
  induction hp with
  | refl => exact ⟨hu, le_rfl⟩
  | tail _ hbc ih =>
    have := h.ctopo _ ih.1 _ hbc.2
    exact ⟨this.1, le_trans this.2 ih.2⟩

/-- the claimed result built from a final state -/
def resOf (st : TState) : SCCRes := ⟨st.comps.reverse, some st.compOf.toList, some st.outs.reverse⟩

/-- facts about a final state: everything is assigned and nothing is active -/
structure Final (g : G) (st : TState) : Prop where
  inv : Inv g [] st
  all : ∀ x, x < g.size ↔ lw st x = sentinel g

lemma Final.perm {g : G} {st : TState} (hF : Final g st) :
    st.comps.reverse.flatten.Perm (List.range g.size) := by
  refine (List.reverse_perm st.comps).flatten.trans ?_
  rw [List.perm_ext_iff_of_nodup hF.inv.cnodup List.nodup_range]
  intro a
  rw [hF.inv.cflat, ← hF.all, List.mem_range]

lemma Final.sort {g : G} {st : TState} (hF : Final g st) :
    sortNat st.comps.reverse.flatten = List.range g.size := by
  apply List.Perm.eq_of_pairwise (le := (· ≤ ·)) _ (sortNat_sorted _)
    (List.pairwise_lt_range.imp le_of_lt) ((sortNat_perm _).trans hF.perm)
  intro a b _ _ hab hba; omega

lemma Final.compIdx_eq {g : G} {st : TState} (hF : Final g st) (v : Nat) (hv : v < g.size) :
    compIdx (resOf st) v = co st v := by
  have hp := hF.perm
  have hnd : (resOf st).comps.flatten.Nodup := hp.nodup_iff.2 List.nodup_range
  have hmem : v ∈ (resOf st).comps.flatten := hp.mem_iff.2 (List.mem_range.2 hv)
  obtain ⟨c, hc, hvc⟩ := List.mem_flatten.1 ((hF.inv.cflat v).2 ((hF.all v).1 hv))
  obtain ⟨cs1, cs2, e⟩ := List.append_of_mem hc
  rw [hF.inv.cof cs1 c cs2 e v hvc]
  symm
  apply (mem_getD_iff_findIdx (resOf st).comps hnd v hmem cs2.length).1
  have : (resOf st).comps = cs2.reverse ++ c :: cs1.reverse := by
    show st.comps.reverse = _
    rw [e]; simp
  rw [this]
  have := getD_append_length cs2.reverse c cs1.reverse []
  rw [List.length_reverse] at this
  rw [this]; exact hvc

lemma Final.cm_eq {g : G} {st : TState} (hF : Final g st) (v : Nat) (hv : v < g.size) :
    (compMap g.size st.comps.reverse).getD v 0 = co st v := by
  rw [← hF.compIdx_eq v hv]
  exact compMap_getD_eq_compIdx g (resOf st) hF.sort v hv

lemma Final.cm_size {g : G} {st : TState} (hF : Final g st) :
    (compMap g.size st.comps.reverse).size = g.size := by
  rw [compMap_eq]
  have := (compMap_aux st.comps.reverse
    (List.nodup_flatten.1 (hF.perm.nodup_iff.2 List.nodup_range)).2
    (Array.replicate g.size 0, 0)).1
  simpa using this

lemma Final.mutual {g : G} {st : TState} (hF : Final g st) (u v : Nat) (hu : u < g.size) (hv : v < g.size) :
    co st u = co st v ↔ (Path g u v ∧ Path g v u) := by
  constructor
  · intro e
    rw [← hF.compIdx_eq u hu, ← hF.compIdx_eq v hv] at e
    have hp := hF.perm
    have hnd : (resOf st).comps.flatten.Nodup := hp.nodup_iff.2 List.nodup_range
    have hmu : u ∈ (resOf st).comps.flatten := hp.mem_iff.2 (List.mem_range.2 hu)
    have hmv : v ∈ (resOf st).comps.flatten := hp.mem_iff.2 (List.mem_range.2 hv)
    have h1 := (mem_getD_iff_findIdx (resOf st).comps hnd u hmu _).2 rfl
    have h2 := (mem_getD_iff_findIdx (resOf st).comps hnd v hmv _).2 rfl
    change u ∈ (resOf st).comps.getD (compIdx (resOf st) u) [] at h1
    change v ∈ (resOf st).comps.getD (compIdx (resOf st) v) [] at h2
    rw [← e] at h2
    have hc : (resOf st).comps.getD (compIdx (resOf st) u) [] ∈ st.comps :=
      List.mem_reverse.1 (mem_of_mem_getD h1)
    exact ⟨hF.inv.cstrong _ hc u h1 v h2, hF.inv.cstrong _ hc v h2 u h1⟩
  · rintro ⟨h1, h2⟩
    have a := co_mono_path g st [] hF.inv u v h1 ((hF.all u).1 hu)
    have b := co_mono_path g st [] hF.inv v u h2 ((hF.all v).1 hv)
    omega

lemma Final.topo {g : G} {st : TState} (hF : Final g st) (u v : Nat) (hu : u < g.size) (hv : v ∈ out g u) :
    co st v ≤ co st u := (hF.inv.ctopo u ((hF.all u).1 hu) v hv).2

lemma holds_of_final (g : G) (hwf : WF g) (st : TState) (hF : Final g st) :
    holdsSCC g (resOf st) = none := by
  have h := hF.inv
  unfold holdsSCC resOf
  simp only [cm_do_eq]
  split_ifs with h1 h2 h3 h4 h5 h6 h7
  · simp only [bne_iff_ne, ne_eq] at h1; exact h1 hF.sort
  · simp only [List.any_eq_true, List.mem_reverse, List.isEmpty_iff] at h2
    obtain ⟨c, hc, e⟩ := h2; exact h.cne c hc e
  · simp only [bne_iff_ne, ne_eq] at h3
    apply h3
    apply List.ext_getElem
    · simp [hF.cm_size, h.cosz]
    · intro i hi1 hi2
      have hi : i < g.size := by simpa [h.cosz] using hi1
      have := hF.cm_eq i hi
      simp only [Array.getD_eq_getD_getElem?, co] at this
      simp only [Array.getElem_toList]
      rw [Array.getElem?_eq_getElem (by rw [hF.cm_size]; exact hi),
        Array.getElem?_eq_getElem (by rw [h.cosz]; exact hi)] at this
      simpa using this.symm
  · have : ((List.range g.size).all fun u => (List.range g.size).all fun v =>
        ((compMap g.size st.comps.reverse).getD u 0 == (compMap g.size st.comps.reverse).getD v 0) ==
          (((reachAll g).getD u #[]).getD v false && ((reachAll g).getD v #[]).getD u false)) = true := by
      simp only [List.all_eq_true, List.mem_range]
      intro u hu v hv
      have e1 : ((reachAll g).getD u #[]).getD v false = reachB g u v := by rw [reachAll_getD g u hu]; rfl
      have e2 : ((reachAll g).getD v #[]).getD u false = reachB g v u := by rw [reachAll_getD g v hv]; rfl
      rw [e1, e2, hF.cm_eq u hu, hF.cm_eq v hv, beq_iff_eq, Bool.eq_iff_iff, beq_iff_eq, Bool.and_eq_true,
        reachB_iff_path g hwf u v hu, reachB_iff_path g hwf v u hv]
      exact hF.mutual u v hu hv
    rw [this] at h4; simp at h4
  · have : ((List.range g.size).all fun u => (out g u).all fun v =>
        decide ((compMap g.size st.comps.reverse).getD v 0 ≤ (compMap g.size st.comps.reverse).getD u 0)) = true := by
      simp only [List.all_eq_true, List.mem_range, decide_eq_true_eq]
      intro u hu v hv
      rw [hF.cm_eq u hu, hF.cm_eq v (hwf u hu v hv)]
      exact hF.topo u v hu hv
    rw [this] at h5; simp at h5
  · simp [h.olen] at h6
  · rfl
  · apply h7
    simp only [List.all_eq_true, List.mem_range, beq_iff_eq]
    intro c hc
    have hc' : c < st.comps.reverse.length := by simpa [h.olen] using hc
    obtain ⟨l1, cc, l2, e, hl1⟩ := split_at st.comps.reverse c hc'
    have ecomps : st.comps = l2.reverse ++ cc :: l1.reverse := by
      have := congrArg List.reverse e
      simpa using this
    have hok := h.ook l2.reverse cc l1.reverse ecomps
    have hlen : st.outs.length = l2.length + 1 + l1.length := by
      rw [h.olen, ecomps]; simp; omega
    have e1 : st.outs.reverse.getD c [] = st.outs.getD l2.reverse.length [] := by
      simp only [List.getD_eq_getElem?_getD, List.length_reverse]
      rw [List.getElem?_reverse (by omega)]
      congr 2; omega
    have e2 : st.comps.reverse.getD c [] = cc := by
      rw [e, ← hl1]; exact getD_append_length l1 cc l2 []
    rw [e1, e2]
    apply eq_of_sorted_mem _ _ hok.1 (dedupSorted_sorted _ (sortNat_sorted _))
    intro d
    rw [hok.2 d, mem_dedupSorted, mem_sortNat, List.mem_filter, List.mem_flatMap]
    simp only [List.mem_map, bne_iff_ne, ne_eq]
    have hcc : ∀ u ∈ cc, u < g.size ∧ co st u = c := by
      intro u hu
      have hs : lw st u = sentinel g :=
        (h.cflat u).1 (List.mem_flatten.2 ⟨cc, by rw [ecomps]; simp, hu⟩)
      refine ⟨(hF.all u).2 hs, ?_⟩
      rw [h.cof _ _ _ ecomps u hu]; simp [hl1]
    constructor
    · rintro ⟨u, hu, v, hv, rfl, hne⟩
      obtain ⟨hun, hcu⟩ := hcc u hu
      exact ⟨⟨u, hu, v, hv, hF.cm_eq v (hwf u hun v hv)⟩, by rw [← hcu]; exact hne⟩
    · rintro ⟨⟨u, hu, v, hv, rfl⟩, hne⟩
      obtain ⟨hun, hcu⟩ := hcc u hu
      rw [hF.cm_eq v (hwf u hun v hv)] at hne ⊢
      exact ⟨u, hu, v, hv, rfl, by rw [hcu]; exact hne⟩


lemma tfinal_final (g : G) (hwf : WF g) : Final g (tfinal g) :=
  ⟨(tfinal_inv g hwf).1, (tfinal_inv g hwf).2⟩

/-! ## property theorems -/

/-- the output of `tarjan g`, packaged as a claimed SCC result for the checker -/
def tarjanRes (g : G) : SCCRes := ⟨(tarjan g).1, some (tarjan g).2.1, some (tarjan g).2.2⟩

lemma tarjanRes_eq (g : G) : tarjanRes g = resOf (tfinal g) := rfl

/-- **T0 (full correctness).** For every well-formed graph, the output of the mirrored Tarjan
routine (components in creation order, node→component list, per-component out-lists) is accepted
by the proved-sound SCC checker `holdsSCC`: it is a partition into non-empty components, two nodes
share a component iff they are mutually reachable, component numbers are a reverse topological
order, the node→component list agrees with the components, and every out-list is the sorted
duplicate-free list of the other components entered by an edge. -/
theorem tarjan_holds (g : G) (hwf : WF g) :
    holdsSCC g ⟨(tarjan g).1, some (tarjan g).2.1, some (tarjan g).2.2⟩ = none :=
  holds_of_final g hwf (tfinal g) (tfinal_final g hwf)

example : holdsSCC exG (tarjanRes exG) = none := tarjan_holds exG (by decide)
/-- the concrete output on the example graph `0→1→2→0`, `2→3`, `4→3` -/
example : tarjan exG = ([[3], [0, 1, 2], [4]], [1, 1, 1, 0, 2], [[], [0], [0]]) := by decide
/-- well-formedness is needed: a dangling successor id is never marked visited and the
partition clause fails -/
example : ¬ WF #[[5]] ∧ holdsSCC #[[5]] (tarjanRes #[[5]]) ≠ none := by
  constructor <;> decide

/-- **S1 (termination / fuel).** The recursion-depth fuel `g.size + 1` suffices: at the end of the
run every node has been visited and assigned to a component (its `low` entry is the sentinel) and
the node stack is empty. -/
theorem tarjan_run_complete (g : G) (hwf : WF g) :
    (tfinal g).stack = [] ∧ ∀ v < g.size, lw (tfinal g) v = sentinel g :=
  ⟨(tfinal_inv g hwf).1.stack_nil, fun v hv => ((tfinal_inv g hwf).2 v).1 hv⟩

example : (tfinal exG).stack = [] ∧ ∀ v < exG.size, lw (tfinal exG) v = sentinel exG :=
  tarjan_run_complete exG (by decide)

/-- **S1 (partition).** The components returned by `tarjan` form a partition of the node set:
their concatenation is a permutation of `0..n-1`, no component is empty, and every node lies in
exactly one component, the one with index `compIdx (tarjanRes g) v`. -/
theorem tarjan_partition (g : G) (hwf : WF g) :
    (tarjan g).1.flatten.Perm (List.range g.size) ∧ (∀ c ∈ (tarjan g).1, c ≠ []) ∧
    ∀ v < g.size, compIdx (tarjanRes g) v < (tarjan g).1.length ∧
      ∀ i, v ∈ (tarjan g).1.getD i [] ↔ i = compIdx (tarjanRes g) v :=
  holdsSCC_partition g (tarjanRes g) (tarjan_holds g hwf)

example := tarjan_partition exG (by decide)

/-- **S2 (soundness of components).** Two nodes that `tarjan` puts into the same component are
mutually reachable. -/
theorem tarjan_comp_mutual_sound (g : G) (hwf : WF g) (c : List Nat) (hc : c ∈ (tarjan g).1)
    (u v : Nat) (hu : u ∈ c) (hv : v ∈ c) : Path g u v ∧ Path g v u := by
  have hp := (tarjan_partition g hwf).1
  have hun : u < g.size := List.mem_range.1 (hp.mem_iff.1 (List.mem_flatten.2 ⟨c, hc, hu⟩))
  have hvn : v < g.size := List.mem_range.1 (hp.mem_iff.1 (List.mem_flatten.2 ⟨c, hc, hv⟩))
  exact (holdsSCC_mutual_mem g hwf (tarjanRes g) (tarjan_holds g hwf) u v hun hvn).1 ⟨c, hc, hu, hv⟩

example : Path exG 0 2 ∧ Path exG 2 0 :=
  tarjan_comp_mutual_sound exG (by decide) [0, 1, 2] (by decide) 0 2 (by decide) (by decide)

/-- **S3 (completeness of components).** Two mutually reachable nodes are put into the same
component by `tarjan`. -/
theorem tarjan_comp_mutual_complete (g : G) (hwf : WF g) (u v : Nat) (hu : u < g.size) (hv : v < g.size)
    (h : Path g u v ∧ Path g v u) : ∃ c ∈ (tarjan g).1, u ∈ c ∧ v ∈ c :=
  (holdsSCC_mutual_mem g hwf (tarjanRes g) (tarjan_holds g hwf) u v hu hv).2 h

example : ∃ c ∈ (tarjan exG).1, 0 ∈ c ∧ 2 ∈ c :=
  tarjan_comp_mutual_complete exG (by decide) 0 2 (by decide) (by decide)
    ⟨Relation.ReflTransGen.head (b := 1) ⟨by decide, by decide⟩
      (Relation.ReflTransGen.single ⟨by decide, by decide⟩),
     Relation.ReflTransGen.single ⟨by decide, by decide⟩⟩

/-- **S2+S3.** Two nodes get the same component index from `tarjan` exactly when they are
mutually reachable by paths of `g`. -/
theorem tarjan_mutual (g : G) (hwf : WF g) (u v : Nat) (hu : u < g.size) (hv : v < g.size) :
    compIdx (tarjanRes g) u = compIdx (tarjanRes g) v ↔ (Path g u v ∧ Path g v u) :=
  holdsSCC_mutual g hwf (tarjanRes g) (tarjan_holds g hwf) u v hu hv

example : compIdx (tarjanRes exG) 0 = compIdx (tarjanRes exG) 2 ↔ (Path exG 0 2 ∧ Path exG 2 0) :=
  tarjan_mutual exG (by decide) 0 2 (by decide) (by decide)
/-- used backwards: 3 and 2 are in different components, so they are not mutually reachable -/
example : ¬ (Path exG 2 3 ∧ Path exG 3 2) := by
  rw [← tarjan_mutual exG (by decide) 2 3 (by decide) (by decide)]; decide

/-- **S2+S3, list form.** Two nodes occur together in one of the component lists returned by
`tarjan` exactly when they are mutually reachable. -/
theorem tarjan_mutual_mem (g : G) (hwf : WF g) (u v : Nat) (hu : u < g.size) (hv : v < g.size) :
    (∃ c ∈ (tarjan g).1, u ∈ c ∧ v ∈ c) ↔ (Path g u v ∧ Path g v u) :=
  holdsSCC_mutual_mem g hwf (tarjanRes g) (tarjan_holds g hwf) u v hu hv

example := tarjan_mutual_mem exG (by decide) 0 3 (by decide) (by decide)

/-- **S4 (reverse topological numbering).** Component indices assigned by `tarjan` never increase
along an edge: for every edge `u → v`, the component of `v` was created no later than that of `u`. -/
theorem tarjan_topo (g : G) (hwf : WF g) (u v : Nat) (he : Edge g u v) :
    compIdx (tarjanRes g) v ≤ compIdx (tarjanRes g) u :=
  holdsSCC_topo g hwf (tarjanRes g) (tarjan_holds g hwf) u v he

example : compIdx (tarjanRes exG) 3 ≤ compIdx (tarjanRes exG) 2 :=
  tarjan_topo exG (by decide) 2 3 (by decide)

/-- **S4, path form.** Component indices never increase along a path. -/
theorem tarjan_topo_path (g : G) (hwf : WF g) (u v : Nat) (hp : Path g u v) :
    compIdx (tarjanRes g) v ≤ compIdx (tarjanRes g) u := by
  induction hp with
  | refl => exact le_rfl
  | tail _ hbc ih => exact le_trans (tarjan_topo g hwf _ _ hbc) ih

example : compIdx (tarjanRes exG) 3 ≤ compIdx (tarjanRes exG) 0 :=
  tarjan_topo_path exG (by decide) 0 3
    (Relation.ReflTransGen.head (b := 1) ⟨by decide, by decide⟩
      (Relation.ReflTransGen.head (b := 2) ⟨by decide, by decide⟩
        (Relation.ReflTransGen.single ⟨by decide, by decide⟩)))

/-- **Component map.** The node→component list returned by `tarjan` lists, for `v = 0..n-1`,
the index of the component containing `v`. -/
theorem tarjan_compOf (g : G) (hwf : WF g) :
    (tarjan g).2.1 = (List.range g.size).map (compIdx (tarjanRes g)) :=
  holdsSCC_compOf g (tarjanRes g) (tarjan_holds g hwf) _ rfl

example : (tarjan exG).2.1 = (List.range exG.size).map (compIdx (tarjanRes exG)) :=
  tarjan_compOf exG (by decide)

/-- **S5 (out-lists).** `tarjan` returns one out-list per component, and the out-list of
component `c` is strictly increasing (sorted, duplicate-free) and contains exactly the indices
`d ≠ c` of components entered by some edge `u → v` with `u` in component `c`. -/
theorem tarjan_edges (g : G) (hwf : WF g) :
    (tarjan g).2.2.length = (tarjan g).1.length ∧ ∀ c < (tarjan g).1.length,
      ((tarjan g).2.2.getD c []).Pairwise (· < ·) ∧
      ∀ d, d ∈ (tarjan g).2.2.getD c [] ↔
        (d ≠ c ∧ ∃ u ∈ (tarjan g).1.getD c [], ∃ v ∈ out g u, compIdx (tarjanRes g) v = d) :=
  holdsSCC_edges g hwf (tarjanRes g) (tarjan_holds g hwf) _ rfl

example := tarjan_edges exG (by decide)

end MV.Graph
