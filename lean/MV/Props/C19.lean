import Mathlib.Tactic
import MV.Props.C18Reach
/-!
# C19 — dominators: the deletion-based executable definition is "lies on every path"
-/
namespace MV.Graph

lemma rtg_mono {r p : Nat → Nat → Prop} (h : ∀ a b, r a b → p a b) {a b : Nat}
    (hab : Relation.ReflTransGen r a b) : Relation.ReflTransGen p a b := by
  induction hab with
  | refl => exact Relation.ReflTransGen.refl
  | tail _ hbc ih => exact Relation.ReflTransGen.tail ih (h _ _ hbc)

/-! ## walks -/

/-- `p` is the vertex list of a walk from `a` to `b` along edges of `g`:
it starts with `a`, ends with `b`, and consecutive elements are edges. -/
def IsWalk (g : G) (a b : Nat) (p : List Nat) : Prop :=
  p.head? = some a ∧ p.getLast? = some b ∧ List.IsChain (Edge g) p

lemma not_isWalk_nil (g : G) (a b : Nat) : ¬ IsWalk g a b [] := by
  simp [IsWalk]

lemma isWalk_singleton (g : G) (a b x : Nat) : IsWalk g a b [x] ↔ x = a ∧ x = b := by
  simp [IsWalk]

lemma isWalk_cons_cons (g : G) (a b x y : Nat) (r : List Nat) :
    IsWalk g a b (x :: y :: r) ↔ x = a ∧ Edge g x y ∧ IsWalk g y b (y :: r) := by
  simp only [IsWalk, List.head?_cons, Option.some.injEq, List.getLast?_cons_cons,
    List.isChain_cons_cons, true_and]
  tauto

lemma IsWalk.head_mem {g : G} {a b : Nat} {p : List Nat} (h : IsWalk g a b p) : a ∈ p :=
  List.mem_of_mem_head? (by rw [h.1]; rfl)

lemma IsWalk.last_mem {g : G} {a b : Nat} {p : List Nat} (h : IsWalk g a b p) : b ∈ p :=
  List.mem_of_getLast? h.2.1

/-- edges into nodes other than `d` -/
def AvE (g : G) (d a b : Nat) : Prop := Edge g a b ∧ b ≠ d

/-- paths all of whose nodes except possibly the first avoid `d` -/
def Av (g : G) (d : Nat) : Nat → Nat → Prop := Relation.ReflTransGen (AvE g d)

lemma Av.path {g : G} {d a b : Nat} (h : Av g d a b) : Path g a b :=
  rtg_mono (fun _ _ h => h.1) h

lemma walk_of_av (g : G) (d x y : Nat) (h : Av g d x y) (hx : x ≠ d) :
    ∃ p, IsWalk g x y p ∧ d ∉ p := by
  induction h using Relation.ReflTransGen.head_induction_on with
  | refl => exact ⟨[y], (isWalk_singleton g y y y).2 ⟨rfl, rfl⟩, by simpa using hx.symm⟩
  | @head a c hac _ ih =>
    obtain ⟨p, hp, hd⟩ := ih hac.2
    cases p with
    | nil => exact absurd hp (not_isWalk_nil g _ _)
    | cons z r =>
      have hz : z = c := by
        have := hp.1; simpa using this
      subst hz
      refine ⟨a :: z :: r, (isWalk_cons_cons g a y a z r).2 ⟨rfl, hac.1, hp⟩, ?_⟩
      simp only [List.mem_cons, not_or] at hd ⊢
      exact ⟨hx.symm, hd⟩

lemma av_of_walk (g : G) (d : Nat) (p : List Nat) (x y : Nat) (h : IsWalk g x y p) (hd : d ∉ p) :
    Av g d x y := by
  induction p generalizing x with
  | nil => exact absurd h (not_isWalk_nil g _ _)
  | cons z r ih =>
    cases r with
    | nil =>
      obtain ⟨rfl, rfl⟩ := (isWalk_singleton g x y z).1 h
      exact Relation.ReflTransGen.refl
    | cons w r =>
      obtain ⟨rfl, he, hw⟩ := (isWalk_cons_cons g x y z w r).1 h
      simp only [List.mem_cons, not_or] at hd
      have := ih w hw (by simp only [List.mem_cons, not_or]; exact hd.2)
      exact Relation.ReflTransGen.head ⟨he, fun e => hd.2.1 e.symm⟩ this

lemma walk_of_path (g : G) (x y : Nat) (h : Path g x y) : ∃ p, IsWalk g x y p := by
  induction h using Relation.ReflTransGen.head_induction_on with
  | refl => exact ⟨[y], (isWalk_singleton g y y y).2 ⟨rfl, rfl⟩⟩
  | @head a c hac _ ih =>
    obtain ⟨p, hp⟩ := ih
    cases p with
    | nil => exact absurd hp (not_isWalk_nil g _ _)
    | cons z r =>
      have hz : z = c := by
        have := hp.1; simpa using this
      subst hz
      exact ⟨a :: z :: r, (isWalk_cons_cons g a y a z r).2 ⟨rfl, hac, hp⟩⟩

lemma path_of_walk (g : G) (p : List Nat) (x y : Nat) (h : IsWalk g x y p) : Path g x y := by
  induction p generalizing x with
  | nil => exact absurd h (not_isWalk_nil g _ _)
  | cons z r ih =>
    cases r with
    | nil =>
      obtain ⟨rfl, rfl⟩ := (isWalk_singleton g x y z).1 h
      exact Relation.ReflTransGen.refl
    | cons w r =>
      obtain ⟨rfl, he, hw⟩ := (isWalk_cons_cons g x y z w r).1 h
      exact Relation.ReflTransGen.head he (ih w hw)

/-- `Path` is exactly "there is a walk" (sanity link between the two notions). -/
theorem path_iff_walk (g : G) (x y : Nat) : Path g x y ↔ ∃ p, IsWalk g x y p :=
  ⟨walk_of_path g x y, fun ⟨p, hp⟩ => path_of_walk g p x y hp⟩

/-- every walk from `root` to `v` meets `d`, in relational form -/
lemma all_walks_iff (g : G) (root d v : Nat) :
    (∀ p : List Nat, IsWalk g root v p → d ∈ p) ↔ (d = v ∨ root = d ∨ ¬ Av g d root v) := by
  constructor
  · intro h
    by_contra hc
    simp only [not_or, not_not] at hc
    obtain ⟨p, hp, hd⟩ := walk_of_av g d root v hc.2.2 hc.2.1
    exact hd (h p hp)
  · rintro (rfl | rfl | h) p hp
    · exact hp.last_mem
    · exact hp.head_mem
    · by_contra hd
      exact h (av_of_walk g d p root v hp hd)

/-! ## the graph with `d` deleted -/

/-- `g` with node `d` removed: its out-list emptied and `d` filtered from all lists -/
def delG (g : G) (d : Nat) : G := g.mapIdx fun i l => if i == d then [] else l.filter (· != d)

lemma delG_size (g : G) (d : Nat) : (delG g d).size = g.size := by simp [delG]

lemma out_delG (g : G) (d a : Nat) :
    out (delG g d) a = if a = d then [] else (out g a).filter (· != d) := by
  unfold out delG
  simp only [Array.getD_eq_getD_getElem?, Array.getElem?_mapIdx]
  cases h : g[a]? with
  | none => simp
  | some l => simp

lemma edge_delG (g : G) (d a b : Nat) : Edge (delG g d) a b ↔ Edge g a b ∧ a ≠ d ∧ b ≠ d := by
  unfold Edge
  rw [delG_size, out_delG]
  by_cases h : a = d
  · simp [h]
  · simp [h, List.mem_filter]; tauto

lemma wf_delG (g : G) (hwf : WF g) (d : Nat) : WF (delG g d) := by
  intro u hu v hv
  rw [delG_size] at hu ⊢
  have : Edge (delG g d) u v := ⟨by rw [delG_size]; exact hu, hv⟩
  rw [edge_delG] at this
  exact hwf u hu v this.1.2

lemma path_delG_iff (g : G) (d root v : Nat) (hrd : root ≠ d) :
    Path (delG g d) root v ↔ Av g d root v := by
  constructor
  · intro h
    exact rtg_mono
      (fun a b hab => ⟨((edge_delG g d a b).1 hab).1, ((edge_delG g d a b).1 hab).2.2⟩) h
  · intro h
    have : v ≠ d ∧ Path (delG g d) root v := by
      induction h with
      | refl => exact ⟨hrd, Relation.ReflTransGen.refl⟩
      | tail _ hbc ih =>
        exact ⟨hbc.2, Relation.ReflTransGen.tail ih.2 ((edge_delG g d _ _).2 ⟨hbc.1, ih.1, hbc.2⟩)⟩
    exact this.2

lemma reachAvoid_getD (g : G) (hwf : WF g) (root d v : Nat) (hr : root < g.size) :
    (reachAvoid g root d).getD v false = true ↔ (root ≠ d ∧ Av g d root v) := by
  unfold reachAvoid
  by_cases h : root = d
  · subst h
    simp only [Array.getD_eq_getD_getElem?, Array.getElem?_replicate, beq_self_eq_true, if_true]
    split_ifs <;> simp
  · have hb : (root == d) = false := by simpa using h
    rw [hb]
    simp only [Bool.false_eq_true, if_false]
    have := reachB_iff_path (delG g d) (wf_delG g hwf d) root v (by rw [delG_size]; exact hr)
    unfold reachB delG at this
    rw [this]
    have h2 := path_delG_iff g d root v h
    unfold delG at h2
    rw [h2]
    simp [h]

lemma mkCtx_rs (g : G) (root v : Nat) : (mkCtx g root).rs.getD v false = reachB g root v := rfl

lemma mkCtx_av (g : G) (root d : Nat) (hd : d < g.size) :
    (mkCtx g root).av.getD d #[] = reachAvoid g root d := by
  unfold mkCtx
  simp [Array.getD_eq_getD_getElem?, hd]

/-- dominance in relational form -/
def Dom (g : G) (root d v : Nat) : Prop :=
  Path g root v ∧ Path g root d ∧ (d = v ∨ root = d ∨ ¬ Av g d root v)

lemma reachB_lt (g : G) (u v : Nat) (h : reachB g u v = true) : v < g.size := by
  unfold reachB at h
  by_contra hge
  have hsz : (reachSet g u).size = g.size := by
    rw [reachSet_eq, iter_expand_size, start_size]
  simp [Array.getD_eq_getD_getElem?, Array.getElem?_eq_none (by omega : (reachSet g u).size ≤ v)] at h

lemma dom_iff_Dom (g : G) (hwf : WF g) (root d v : Nat) (hr : root < g.size) :
    (mkCtx g root).dom d v = true ↔ Dom g root d v := by
  unfold DomCtx.dom Dom
  rw [mkCtx_rs, mkCtx_rs, Bool.and_eq_true, Bool.and_eq_true]
  by_cases hd : reachB g root d = true
  · have hdn := reachB_lt g root d hd
    rw [mkCtx_av g root d hdn, reachB_iff_path g hwf root v hr, reachB_iff_path g hwf root d hr]
    have := reachAvoid_getD g hwf root d v hr
    simp only [Bool.or_eq_true, beq_iff_eq, Bool.not_eq_true', ← Bool.not_eq_true, this]
    tauto
  · have : ¬ Path g root d := fun hp => hd ((reachB_iff_path g hwf root d hr).2 hp)
    simp [hd, this]

/-- **D1.** The deletion-based executable definition of dominance coincides with
"`d` lies on every path from the root to `v`": `(mkCtx g root).dom d v` is true
exactly when `v` and `d` are reachable from `root` and every walk (vertex list of
consecutive edges) from `root` to `v` contains `d`. -/
theorem dom_iff_all_paths (g : G) (hwf : WF g) (root d v : Nat) (hr : root < g.size)
    (hd : d < g.size) (hv : v < g.size) :
    (mkCtx g root).dom d v = true ↔
      (Path g root v ∧ Path g root d ∧ ∀ p : List Nat, IsWalk g root v p → d ∈ p) := by
  rw [dom_iff_Dom g hwf root d v hr, all_walks_iff]
  rfl

example : WF exG := by decide
example : (mkCtx exG 0).dom 2 3 = true ↔
    (Path exG 0 3 ∧ Path exG 0 2 ∧ ∀ p : List Nat, IsWalk exG 0 3 p → 2 ∈ p) :=
  dom_iff_all_paths exG (by decide) 0 2 3 (by decide) (by decide) (by decide)
example : (mkCtx exG 0).dom 2 3 = true := by with_unfolding_all decide

/-! ## D2: order properties, relational form -/

/-- paths whose nodes except possibly the first avoid both `a` and `b` -/
def Av2 (g : G) (a b : Nat) : Nat → Nat → Prop :=
  Relation.ReflTransGen (fun u w => Edge g u w ∧ w ≠ a ∧ w ≠ b)

lemma Av2.left {g : G} {a b x y : Nat} (h : Av2 g a b x y) : Av g a x y :=
  rtg_mono (fun _ _ h => ⟨h.1, h.2.1⟩) h
lemma Av2.right {g : G} {a b x y : Nat} (h : Av2 g a b x y) : Av g b x y :=
  rtg_mono (fun _ _ h => ⟨h.1, h.2.2⟩) h

lemma av_split (g : G) (a b x y : Nat) (h : Av g a x y) : Av2 g a b x y ∨ Av g a x b := by
  induction h with
  | refl => exact Or.inl Relation.ReflTransGen.refl
  | @tail y' z _ hyz ih =>
    rcases ih with ih | ih
    · by_cases hz : z = b
      · subst hz; exact Or.inr (Relation.ReflTransGen.tail ih.left hyz)
      · exact Or.inl (Relation.ReflTransGen.tail ih ⟨hyz.1, hyz.2, hz⟩)
    · exact Or.inr ih

lemma first_hit (g : G) (a b x y : Nat) (hab : a ≠ b) (h : Path g x y) :
    Av2 g a b x y ∨ Av g b x a ∨ Av g a x b := by
  induction h with
  | refl => exact Or.inl Relation.ReflTransGen.refl
  | @tail y' z _ hyz ih =>
    rcases ih with ih | ih | ih
    · by_cases hza : z = a
      · subst hza; exact Or.inr (Or.inl (Relation.ReflTransGen.tail ih.right ⟨hyz, hab⟩))
      · by_cases hzb : z = b
        · subst hzb; exact Or.inr (Or.inr (Relation.ReflTransGen.tail ih.left ⟨hyz, hab.symm⟩))
        · exact Or.inl (Relation.ReflTransGen.tail ih ⟨hyz, hza, hzb⟩)
    · exact Or.inr (Or.inl ih)
    · exact Or.inr (Or.inr ih)

lemma last_hit (g : G) (a b x v : Nat) (h : Path g x v) :
    Av2 g a b x v ∨ Av2 g a b a v ∨ Av2 g a b b v := by
  induction h using Relation.ReflTransGen.head_induction_on with
  | refl => exact Or.inl Relation.ReflTransGen.refl
  | @head x y hxy _ ih =>
    rcases ih with ih | ih | ih
    · by_cases hya : y = a
      · subst hya; exact Or.inr (Or.inl ih)
      · by_cases hyb : y = b
        · subst hyb; exact Or.inr (Or.inr ih)
        · exact Or.inl (Relation.ReflTransGen.head ⟨hxy, hya, hyb⟩ ih)
    · exact Or.inr (Or.inl ih)
    · exact Or.inr (Or.inr ih)

lemma Dom.refl' {g : G} {root v : Nat} (h : Path g root v) : Dom g root v v := ⟨h, h, Or.inl rfl⟩

lemma Dom.of_root {g : G} {root v : Nat} (h : Path g root v) : Dom g root root v :=
  ⟨h, Relation.ReflTransGen.refl, Or.inr (Or.inl rfl)⟩

lemma Dom.eq_root {g : G} {root d : Nat} (h : Dom g root d root) : d = root := by
  rcases h.2.2 with h | h | h
  · exact h
  · exact h.symm
  · exact absurd Relation.ReflTransGen.refl h

lemma Dom.trans' {g : G} {root a b c : Nat} (hab : Dom g root a b) (hbc : Dom g root b c) :
    Dom g root a c := by
  refine ⟨hbc.1, hab.2.1, ?_⟩
  by_contra hcon
  simp only [not_or, not_not] at hcon
  obtain ⟨hac, hra, hav⟩ := hcon
  rcases hab.2.2 with h | h | h
  · subst h
    rcases hbc.2.2 with h | h | h
    · exact hac h
    · exact hra h
    · exact h hav
  · exact hra h
  · rcases av_split g a b root c hav with h2 | h2
    · rcases hbc.2.2 with h3 | h3 | h3
      · subst h3; exact h hav
      · subst h3; exact h Relation.ReflTransGen.refl
      · exact h3 h2.right
    · exact h h2

lemma Dom.antisymm' {g : G} {root a b : Nat} (hab : Dom g root a b) (hba : Dom g root b a) :
    a = b := by
  by_contra hne
  by_cases hra : root = a
  · subst hra; exact hne hba.eq_root.symm
  by_cases hrb : root = b
  · subst hrb; exact hne hab.eq_root
  have h1 : ¬ Av g a root b := by
    rcases hab.2.2 with h | h | h
    · exact absurd h hne
    · exact absurd h hra
    · exact h
  have h2 : ¬ Av g b root a := by
    rcases hba.2.2 with h | h | h
    · exact absurd h.symm hne
    · exact absurd h hrb
    · exact h
  rcases first_hit g a b root a hne hab.2.1 with h | h | h
  · rcases Relation.ReflTransGen.cases_tail h with h' | ⟨c, _, hc⟩
    · exact hra h'.symm
    · exact hc.2.1 rfl
  · exact h2 h
  · exact h1 h

lemma Dom.chain {g : G} {root a b v : Nat} (hav : Dom g root a v) (hbv : Dom g root b v)
    (ha : a ≠ v) (hb : b ≠ v) : Dom g root a b ∨ Dom g root b a := by
  by_cases hab : a = b
  · subst hab; exact Or.inl (Dom.refl' hav.2.1)
  have key : ∀ {a b : Nat}, Dom g root a v → Dom g root b v → b ≠ v → Av2 g a b a v →
      Dom g root b a := by
    intro a b hav hbv hb h
    refine ⟨hav.2.1, hbv.2.1, ?_⟩
    by_contra hcon
    simp only [not_or, not_not] at hcon
    obtain ⟨_, hrb, hav'⟩ := hcon
    have : Av g b root v := Relation.ReflTransGen.trans hav' h.right
    rcases hbv.2.2 with h3 | h3 | h3
    · exact hb h3
    · exact hrb h3
    · exact h3 this
  rcases last_hit g a b root v hav.1 with h | h | h
  · exfalso
    have hra : root = a := by
      rcases hav.2.2 with h3 | h3 | h3
      · exact absurd h3 ha
      · exact h3
      · exact absurd h.left h3
    have hrb : root = b := by
      rcases hbv.2.2 with h3 | h3 | h3
      · exact absurd h3 hb
      · exact h3
      · exact absurd h.right h3
    exact hab (hra.symm.trans hrb)
  · exact Or.inr (key hav hbv hb h)
  · refine Or.inl (key hbv hav ha ?_)
    exact rtg_mono (fun _ _ h => ⟨h.1, h.2.2, h.2.1⟩) h

/-! ## D2: order properties of the executable `dom` -/

lemma sdom_iff (c : DomCtx) (d v : Nat) : c.sdom d v = true ↔ d ≠ v ∧ c.dom d v = true := by
  simp [DomCtx.sdom]

lemma dom_lt (g : G) (root d v : Nat) (h : (mkCtx g root).dom d v = true) :
    d < g.size ∧ v < g.size := by
  unfold DomCtx.dom at h
  rw [mkCtx_rs, mkCtx_rs, Bool.and_eq_true, Bool.and_eq_true] at h
  exact ⟨reachB_lt g root d h.1.2, reachB_lt g root v h.1.1⟩

/-- **D2 (reflexive).** Every node reachable from the root dominates itself. -/
theorem dom_refl (g : G) (hwf : WF g) (root v : Nat) (hr : root < g.size) (h : Path g root v) :
    (mkCtx g root).dom v v = true :=
  (dom_iff_Dom g hwf root v v hr).2 (Dom.refl' h)

/-- **D2 (root).** The root dominates every node reachable from it. -/
theorem dom_root (g : G) (hwf : WF g) (root v : Nat) (hr : root < g.size) (h : Path g root v) :
    (mkCtx g root).dom root v = true :=
  (dom_iff_Dom g hwf root root v hr).2 (Dom.of_root h)

/-- **D2 (transitive).** If `a` dominates `b` and `b` dominates `c` then `a` dominates `c`. -/
theorem dom_trans (g : G) (hwf : WF g) (root a b c : Nat) (hr : root < g.size)
    (hab : (mkCtx g root).dom a b = true) (hbc : (mkCtx g root).dom b c = true) :
    (mkCtx g root).dom a c = true := by
  rw [dom_iff_Dom g hwf root _ _ hr] at *
  exact hab.trans' hbc

/-- **D2 (antisymmetric).** If `a` dominates `b` and `b` dominates `a` then `a = b`. -/
theorem dom_antisymm (g : G) (hwf : WF g) (root a b : Nat) (hr : root < g.size)
    (hab : (mkCtx g root).dom a b = true) (hba : (mkCtx g root).dom b a = true) : a = b := by
  rw [dom_iff_Dom g hwf root _ _ hr] at *
  exact hab.antisymm' hba

/-- **D2 (only reachable nodes).** Dominance only relates nodes reachable from the root. -/
theorem dom_reachable (g : G) (hwf : WF g) (root d v : Nat) (hr : root < g.size)
    (h : (mkCtx g root).dom d v = true) : Path g root d ∧ Path g root v := by
  rw [dom_iff_Dom g hwf root _ _ hr] at h
  exact ⟨h.2.1, h.1⟩

example : (mkCtx exG 0).dom 0 3 = true :=
  dom_root exG (by decide) 0 3 (by decide)
    ((reachB_iff_path exG (by decide) 0 3 (by decide)).1 (by with_unfolding_all decide))

/-! ## D3: the dominator chain and immediate dominators -/

/-- **D3 (chain lemma).** Two strict dominators of the same node are comparable:
if `a` and `b` both strictly dominate `v` then `a` dominates `b` or `b` dominates `a`. -/
theorem dom_chain (g : G) (hwf : WF g) (root a b v : Nat) (hr : root < g.size)
    (ha : (mkCtx g root).sdom a v = true) (hb : (mkCtx g root).sdom b v = true) :
    (mkCtx g root).dom a b = true ∨ (mkCtx g root).dom b a = true := by
  rw [sdom_iff] at ha hb
  simp only [dom_iff_Dom g hwf root _ _ hr] at *
  exact Dom.chain ha.2 hb.2 ha.1 hb.1

/-- `d` is an immediate dominator of `v`: a strict dominator of `v` that every
other strict dominator of `v` dominates. -/
def IsIdom (g : G) (root d v : Nat) : Prop :=
  (mkCtx g root).sdom d v = true ∧
    ∀ e, (mkCtx g root).sdom e v = true → e = d ∨ (mkCtx g root).dom e d = true

/-- **D3.** Every reachable node other than the root has exactly one immediate
dominator: a strict dominator `d` such that every strict dominator `e` of `v`
is `d` itself or dominates `d`. -/
theorem idom_exists_unique (g : G) (hwf : WF g) (root v : Nat) (hr : root < g.size)
    (hvr : v ≠ root) (hreach : Path g root v) : ∃! d, IsIdom g root d v := by
  classical
  set c := mkCtx g root with hc
  let S : Finset Nat := (Finset.range g.size).filter fun d => c.sdom d v = true
  let f : Nat → Nat := fun d => ((Finset.range g.size).filter fun e => c.dom e d = true).card
  have hne : S.Nonempty := by
    refine ⟨root, ?_⟩
    simp only [S, Finset.mem_filter, Finset.mem_range]
    exact ⟨hr, (sdom_iff c root v).2 ⟨fun e => hvr e.symm, dom_root g hwf root v hr hreach⟩⟩
  obtain ⟨d, hdS, hmax⟩ := Finset.exists_max_image S f hne
  have hd : c.sdom d v = true := (Finset.mem_filter.1 hdS).2
  have hex : IsIdom g root d v := by
    refine ⟨hd, ?_⟩
    intro e he
    by_cases hed : e = d
    · exact Or.inl hed
    right
    rcases dom_chain g hwf root e d v hr he hd with h | h
    · exact h
    · exfalso
      have heS : e ∈ S := by
        simp only [S, Finset.mem_filter, Finset.mem_range]
        exact ⟨(dom_lt g root e v ((sdom_iff c e v).1 he).2).1, he⟩
      have hlt : f d < f e := by
        apply Finset.card_lt_card
        rw [Finset.ssubset_iff_of_subset]
        · refine ⟨e, ?_, ?_⟩
          · simp only [Finset.mem_filter, Finset.mem_range]
            have hpe := (dom_reachable g hwf root d e hr h).2
            exact ⟨(dom_lt g root d e h).2, dom_refl g hwf root e hr hpe⟩
          · simp only [Finset.mem_filter, Finset.mem_range, not_and]
            intro _ hed'
            exact hed (dom_antisymm g hwf root e d hr hed' h)
        · intro x hx
          simp only [Finset.mem_filter, Finset.mem_range] at hx ⊢
          exact ⟨hx.1, dom_trans g hwf root x d e hr hx.2 h⟩
      exact absurd (hmax e heS) (not_le.2 hlt)
  refine ⟨d, hex, ?_⟩
  intro d' hd'
  rcases hex.2 d' hd'.1 with h | h
  · exact h
  · rcases hd'.2 d hex.1 with h' | h'
    · exact h'.symm
    · exact dom_antisymm g hwf root d' d hr h h'

/-- the entry of `idomSpec` at `v` -/
def idomEntry (g : G) (root v : Nat) : Int :=
  let c := mkCtx g root
  if v == root || !c.rs.getD v false then (-1 : Int)
  else
    let sd := (List.range c.n).filter fun d => c.sdom d v
    match sd.find? (fun d => sd.all fun e => e == d || c.dom e d) with
    | some d => (d : Int)
    | none => -2

lemma idomSpec_eq (g : G) (root : Nat) :
    idomSpec g root = (List.range g.size).map (idomEntry g root) := rfl

lemma idomEntry_unreach (g : G) (hwf : WF g) (root v : Nat) (hr : root < g.size)
    (h : v = root ∨ ¬ Path g root v) : idomEntry g root v = -1 := by
  unfold idomEntry
  simp only [mkCtx_rs]
  have hcond : (v == root || !reachB g root v) = true := by
    rcases h with h | h
    · simp [h]
    · have : reachB g root v = false := by
        rw [← Bool.not_eq_true, reachB_iff_path g hwf root v hr]; exact h
      simp [this]
  simp only [hcond, ↓reduceIte]

lemma idomEntry_reach (g : G) (hwf : WF g) (root v : Nat) (hr : root < g.size)
    (hvr : v ≠ root) (hreach : Path g root v) :
    ∃ d, IsIdom g root d v ∧ idomEntry g root v = (d : Int) := by
  obtain ⟨d0, hd0, huniq⟩ := idom_exists_unique g hwf root v hr hvr hreach
  unfold idomEntry
  simp only [mkCtx_rs]
  have hrb : reachB g root v = true := (reachB_iff_path g hwf root v hr).2 hreach
  have hcond : (v == root || !reachB g root v) = false := by simp [hvr, hrb]
  simp only [hcond, Bool.false_eq_true, ↓reduceIte]
  have hn : (mkCtx g root).n = g.size := rfl
  simp only [hn]
  have hmem : ∀ e, e ∈ (List.range g.size).filter (fun d => (mkCtx g root).sdom d v) ↔
      (mkCtx g root).sdom e v = true := by
    intro e
    simp only [List.mem_filter, List.mem_range, and_iff_right_iff_imp]
    intro he
    exact (dom_lt g root e v ((sdom_iff _ e v).1 he).2).1
  have hP : ∀ d, (((List.range g.size).filter (fun d => (mkCtx g root).sdom d v)).all
      fun e => e == d || (mkCtx g root).dom e d) = true ↔
      ∀ e, (mkCtx g root).sdom e v = true → e = d ∨ (mkCtx g root).dom e d = true := by
    intro d
    simp only [List.all_eq_true, hmem, Bool.or_eq_true, beq_iff_eq]
  cases hf : ((List.range g.size).filter (fun d => (mkCtx g root).sdom d v)).find?
      (fun d => ((List.range g.size).filter (fun d => (mkCtx g root).sdom d v)).all
        fun e => e == d || (mkCtx g root).dom e d) with
  | none =>
    exfalso
    rw [List.find?_eq_none] at hf
    exact hf d0 ((hmem d0).2 hd0.1) ((hP d0).2 hd0.2)
  | some d =>
    have h1 := List.find?_some hf
    have h2 := List.mem_of_find?_eq_some hf
    exact ⟨d, ⟨(hmem d).1 h2, (hP d).1 h1⟩, rfl⟩

lemma idomSpec_getD (g : G) (root v : Nat) (hv : v < g.size) :
    (idomSpec g root).getD v (-1) = idomEntry g root v := by
  rw [idomSpec_eq]
  simp [List.getD_eq_getElem?_getD, hv]

/-- **D3.** `idomSpec g root` has one entry per node. -/
theorem idomSpec_length (g : G) (root : Nat) : (idomSpec g root).length = g.size := by
  simp [idomSpec_eq]

/-- **D3.** The "impossible" marker `-2` never occurs in `idomSpec g root`. -/
theorem idomSpec_ne_neg2 (g : G) (hwf : WF g) (root : Nat) (hr : root < g.size) :
    (-2 : Int) ∉ idomSpec g root := by
  rw [idomSpec_eq, List.mem_map]
  rintro ⟨v, _, hv⟩
  by_cases h : v = root ∨ ¬ Path g root v
  · rw [idomEntry_unreach g hwf root v hr h] at hv; omega
  · simp only [not_or, not_not] at h
    obtain ⟨d, _, hd⟩ := idomEntry_reach g hwf root v hr h.1 h.2
    rw [hd] at hv; omega

/-- **D3.** The entry of `idomSpec g root` at `v` is `-1` for the root and for
unreachable nodes; for every other node it is the unique immediate dominator `d`
(a strict dominator of `v` dominated by every other strict dominator of `v`), as an `Int`. -/
theorem idomSpec_spec (g : G) (hwf : WF g) (root v : Nat) (hr : root < g.size) (hv : v < g.size) :
    ((v = root ∨ ¬ Path g root v) → (idomSpec g root).getD v (-1) = -1) ∧
    (v ≠ root → Path g root v →
      ∃ d : Nat, (idomSpec g root).getD v (-1) = (d : Int) ∧ IsIdom g root d v ∧
        ∀ d', IsIdom g root d' v → d' = d) := by
  rw [idomSpec_getD g root v hv]
  refine ⟨idomEntry_unreach g hwf root v hr, ?_⟩
  intro hvr hreach
  obtain ⟨d, hd, he⟩ := idomEntry_reach g hwf root v hr hvr hreach
  refine ⟨d, he, hd, ?_⟩
  intro d' hd'
  exact (idom_exists_unique g hwf root v hr hvr hreach).unique hd' hd

/-- **D3.** The entry of `idomSpec g root` at `v` is `-1` exactly for the root and
for nodes not reachable from the root. -/
theorem idomSpec_neg1_iff (g : G) (hwf : WF g) (root v : Nat) (hr : root < g.size)
    (hv : v < g.size) :
    (idomSpec g root).getD v (-1) = -1 ↔ (v = root ∨ ¬ Path g root v) := by
  obtain ⟨h1, h2⟩ := idomSpec_spec g hwf root v hr hv
  refine ⟨?_, h1⟩
  intro h
  by_contra hc
  simp only [not_or, not_not] at hc
  obtain ⟨d, hd, -⟩ := h2 hc.1 hc.2
  rw [hd] at h; omega

example : idomSpec exG 0 = [-1, 0, 1, 2, -1] := by with_unfolding_all decide
example := idomSpec_spec exG (by decide) 0 3 (by decide) (by decide)
example := idom_exists_unique exG (by decide) 0 3 (by decide) (by decide)
  ((reachB_iff_path exG (by decide) 0 3 (by decide)).1 (by with_unfolding_all decide))

/-! ## D4: children lists of the dominator tree -/

lemma domChildren_getD (idom : List Int) (p : Nat) (hp : p < idom.length) :
    (domChildren idom).getD p [] =
      (List.range idom.length).filter fun (c : Nat) => idom.getD c (-1) == (p : Int) := by
  unfold domChildren
  simp [List.getD_eq_getElem?_getD, hp]

/-- **D4.** `c` is listed as a child of `p` in `domChildren idom` exactly when `c` is a
node whose `idom` entry is `p`. -/
theorem domChildren_spec (idom : List Int) (p c : Nat) (hp : p < idom.length) :
    c ∈ (domChildren idom).getD p [] ↔ c < idom.length ∧ idom.getD c (-1) = (p : Int) := by
  rw [domChildren_getD idom p hp]
  simp [List.mem_filter]

/-- **D4.** Every children list of `domChildren idom` is strictly increasing. -/
theorem domChildren_sorted (idom : List Int) (p : Nat) :
    ((domChildren idom).getD p []).Pairwise (· < ·) := by
  by_cases hp : p < idom.length
  · rw [domChildren_getD idom p hp]
    exact List.Pairwise.filter _ List.pairwise_lt_range
  · have : (domChildren idom)[p]? = none := by
      apply List.getElem?_eq_none
      simp [domChildren]; omega
    simp [List.getD_eq_getElem?_getD, this]

/-- **D4.** `domChildren idom` has one list per node. -/
theorem domChildren_length (idom : List Int) : (domChildren idom).length = idom.length := by
  simp [domChildren]

example : domChildren (idomSpec exG 0) = [[1], [2], [3], [], []] := by with_unfolding_all decide
example : 3 ∈ (domChildren [-1, 0, 1, 2, -1]).getD 2 [] :=
  (domChildren_spec [-1, 0, 1, 2, -1] 2 3 (by decide)).2 ⟨by decide, by decide⟩

/-! ## D5: dominance frontier -/

/-- **D5.** `y` is in the dominance frontier list of `x` in `dfSpec g root` exactly when
`x` and `y` are reachable from the root, some reachable predecessor `p` of `y`
(edge `p → y`) is dominated by `x`, and `x` does not strictly dominate `y`. -/
theorem dfSpec_spec (g : G) (hwf : WF g) (root x y : Nat) (hr : root < g.size) (hx : x < g.size) :
    y ∈ (dfSpec g root).getD x [] ↔
      (Path g root x ∧ Path g root y ∧
        (∃ p, Path g root p ∧ Edge g p y ∧ (mkCtx g root).dom x p = true) ∧
        ¬ (mkCtx g root).sdom x y = true) := by
  unfold dfSpec
  have hn : (mkCtx g root).n = g.size := rfl
  simp only [hn, mkCtx_rs]
  simp only [List.getD_eq_getElem?_getD, List.getElem?_map, List.getElem?_range hx, Option.map_some,
    Option.getD_some]
  by_cases hrx : reachB g root x = true
  · have hpx := (reachB_iff_path g hwf root x hr).1 hrx
    simp only [hrx, Bool.not_true, Bool.false_eq_true, if_false, List.mem_filter, List.mem_range,
      Bool.and_eq_true, List.any_eq_true, List.contains_iff_mem, Bool.not_eq_true']
    constructor
    · rintro ⟨hy, ⟨hry, p, hp, ⟨hrp, hyp⟩, hd⟩, hs⟩
      refine ⟨hpx, (reachB_iff_path g hwf root y hr).1 hry,
        ⟨p, (reachB_iff_path g hwf root p hr).1 hrp, ⟨hp, hyp⟩, hd⟩, ?_⟩
      rw [hs]; simp
    · rintro ⟨_, hpy, ⟨p, hpp, he, hd⟩, hs⟩
      have hry := (reachB_iff_path g hwf root y hr).2 hpy
      refine ⟨reachB_lt g root y hry, ⟨hry, p, he.1, ⟨(reachB_iff_path g hwf root p hr).2 hpp, he.2⟩, hd⟩, ?_⟩
      simpa using hs
  · have hpx : ¬ Path g root x := fun h => hrx ((reachB_iff_path g hwf root x hr).2 h)
    simp [hrx, hpx]

/-- **D5.** `dfSpec g root` has one list per node. -/
theorem dfSpec_length (g : G) (root : Nat) : (dfSpec g root).length = g.size := by
  simp [dfSpec]; rfl

/-- a diamond with a back edge: `0→1, 0→2, 1→3, 2→3, 3→1` -/
def exD : G := #[[1, 2], [3], [3], [1]]
example : WF exD := by decide
example : dfSpec exD 0 = [[], [3], [3], [1]] := by with_unfolding_all decide
example := dfSpec_spec exD (by decide) 0 2 3 (by decide) (by decide)
example : idomSpec exD 0 = [-1, 0, 0, 0] := by with_unfolding_all decide

end MV.Graph
