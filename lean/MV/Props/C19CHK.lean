import Mathlib.Tactic
import MV.Props.C19
import MV.Props.C18DFS
/-!
# C19 (CHK) — the Cooper–Harvey–Kennedy dominator routine and the dominance-frontier routine

Mirrors `idomCHK` / `domFrontierCHK` of `MV/Model/Graph.lean` (graphalg/dom.go).

Property-level results (`theorem`s, all in namespace `MV.Graph`):
* `idomCHK_eq_spec` (G1): `idomCHK g root = idomSpec g root` for well-formed `g`, root in range —
  including convergence within the pass fuel `g.size + 3`, also on irreducible graphs;
* `domFrontierCHK_spec`, `domFrontierCHK_nodup`, `dfSpec_indeg` (G2 / D1);
* `intersect_nca` (D4), `chk_fixpoint_correct_partial` (D2, corrected), `chk_converged`,
  `chkIter_fuel_irrelevant` (D3).
Helper definitions and `lemma`s live in the sub-namespace `MV.Graph.CHK`.

Proof idea for G1.  The `idom` array is read as a tree (`Up A x c`: `c` is on the parent chain of
`x`).  The loop invariant `Inv` says: parent pointers increase the post-order number; every chain
stays inside the chain of chosen later-exited predecessors (DFS parents); every true dominator of
`x` is on the chain of `x` (`l1`, with the companion `l2`); a recomputed parent is never below the
stored one (`ca`), which together with `nest` gives monotonicity: chains only shrink; and after
pass `k` every chain element of `x` lies on every walk from the root to `x` with fewer than `k`
edges (`u`).  After `g.size + 1` passes the last clause makes every chain element a dominator.
-/
namespace MV.Graph
namespace CHK

/-! ## transpose: membership and length -/

lemma transpose_getD' (g : G) (v : Nat) (hv : v < g.size) :
    (transpose g).getD v [] =
      (List.range g.size).flatMap fun u =>
        (out g u).filterMap fun w => if w == v then some u else none := by
  simp [transpose, List.getD, hv]

lemma mem_transpose (g : G) (u v : Nat) (hv : v < g.size) :
    u ∈ (transpose g).getD v [] ↔ Edge g u v := by
  rw [transpose_getD' g v hv]
  simp only [List.mem_flatMap, List.mem_range, List.mem_filterMap, Edge]
  constructor
  · rintro ⟨a, ha, w, hw, h⟩
    by_cases hwv : w = v
    · subst hwv; simp at h; subst h; exact ⟨ha, hw⟩
    · have : (w == v) = false := by simpa using hwv
      simp [this] at h
  · rintro ⟨hu, hm⟩
    exact ⟨u, hu, v, hm, by simp⟩

lemma foldl_add_eq_sum (l : List Nat) (a : Nat) : l.foldl (· + ·) a = a + l.sum := by
  induction l generalizing a with
  | nil => simp
  | cons x l ih => simp [ih]; omega

lemma length_filterMap_src (l : List Nat) (v u : Nat) :
    (l.filterMap fun w => if w == v then some u else none).length = (l.filter (· == v)).length := by
  induction l with
  | nil => simp
  | cons w l ih =>
    simp only [beq_iff_eq] at ih ⊢
    by_cases h : w = v <;> simp_all [List.filterMap_cons, List.filter_cons]

lemma transpose_root_length (g : G) (root : Nat) (hr : root < g.size) :
    ((transpose g).getD root []).length = rootInDeg g root := by
  rw [transpose_getD' g root hr, rootInDeg, foldl_add_eq_sum, List.length_flatMap]
  simp only [length_filterMap_src, Nat.zero_add]

/-! ## Prop-level facts on dominance -/

lemma path_lt (g : G) (hwf : WF g) (root v : Nat) (hr : root < g.size) (h : Path g root v) :
    v < g.size :=
  reachB_lt g root v ((reachB_iff_path g hwf root v hr).2 h)

lemma av_self (g : G) (d root : Nat) (h : Av g d root d) : root = d := by
  rcases Relation.ReflTransGen.cases_tail h with h' | ⟨c, _, hc⟩
  · exact h'.symm
  · exact absurd rfl hc.2

/-- a dominator of `b` other than `b` dominates every reachable predecessor of `b` -/
lemma _root_.MV.Graph.Dom.pred {g : G} {root d b p : Nat} (h : Dom g root d b) (hdb : d ≠ b)
    (hp : Path g root p) (he : Edge g p b) : Dom g root d p := by
  refine ⟨hp, h.2.1, ?_⟩
  rcases h.2.2 with h1 | h1 | h1
  · exact absurd h1 hdb
  · exact Or.inr (Or.inl h1)
  · right; right
    intro hav
    exact h1 (Relation.ReflTransGen.tail hav ⟨he, fun e => hdb e.symm⟩)

/-- a node dominating all reachable predecessors of a reachable non-root node `b` dominates `b` -/
lemma _root_.MV.Graph.Dom.of_preds {g : G} {root a b : Nat} (hb : Path g root b) (hbr : b ≠ root)
    (h : ∀ p, Path g root p → Edge g p b → Dom g root a p) : Dom g root a b := by
  obtain ⟨p0, hp0, he0⟩ : ∃ p, Path g root p ∧ Edge g p b := by
    rcases Relation.ReflTransGen.cases_tail hb with h' | ⟨c, hc, hcb⟩
    · exact absurd h' hbr
    · exact ⟨c, hc, hcb⟩
  refine ⟨hb, (h p0 hp0 he0).2.1, ?_⟩
  by_cases hra : root = a
  · exact Or.inr (Or.inl hra)
  right; right
  intro hav
  rcases Relation.ReflTransGen.cases_tail hav with h' | ⟨c, hc, hcb⟩
  · exact hbr h'
  · have hd := h c (Av.path hc) hcb.1
    rcases hd.2.2 with h1 | h1 | h1
    · subst h1; exact hra (av_self g a root hc)
    · exact hra h1
    · exact h1 hc

lemma isIdom_iff (g : G) (hwf : WF g) (root d v : Nat) (hr : root < g.size) :
    IsIdom g root d v ↔
      d ≠ v ∧ Dom g root d v ∧ ∀ e, e ≠ v → Dom g root e v → Dom g root e d := by
  unfold IsIdom
  simp only [sdom_iff, dom_iff_Dom g hwf root _ _ hr]
  constructor
  · rintro ⟨⟨h1, h2⟩, h3⟩
    refine ⟨h1, h2, fun e he hev => ?_⟩
    rcases h3 e ⟨he, hev⟩ with h | h
    · subst h; exact Dom.refl' h2.2.1
    · exact h
  · rintro ⟨h1, h2, h3⟩
    exact ⟨⟨h1, h2⟩, fun e he => Or.inr (h3 e he.1 he.2)⟩

/-- the immediate dominator as a function -/
def tid (g : G) (root v : Nat) : Nat := (idomEntry g root v).toNat

lemma tid_spec (g : G) (hwf : WF g) (root v : Nat) (hr : root < g.size) (hvr : v ≠ root)
    (hp : Path g root v) :
    idomEntry g root v = (tid g root v : Int) ∧ tid g root v ≠ v ∧ Dom g root (tid g root v) v ∧
      ∀ e, e ≠ v → Dom g root e v → Dom g root e (tid g root v) := by
  obtain ⟨d, hd, he⟩ := idomEntry_reach g hwf root v hr hvr hp
  have : tid g root v = d := by simp [tid, he]
  rw [this]
  exact ⟨he, (isIdom_iff g hwf root d v hr).1 hd⟩

lemma dom_tid_iff (g : G) (hwf : WF g) (root v x : Nat) (hr : root < g.size) (hvr : v ≠ root)
    (hp : Path g root v) : Dom g root x v ↔ x = v ∨ Dom g root x (tid g root v) := by
  obtain ⟨_, h2, h3, h4⟩ := tid_spec g hwf root v hr hvr hp
  constructor
  · intro h
    by_cases hx : x = v
    · exact Or.inl hx
    · exact Or.inr (h4 x hx h)
  · rintro (h | h)
    · subst h; exact Dom.refl' hp
    · exact h.trans' h3

/-- number of dominators -/
noncomputable def dp (g : G) (root v : Nat) : Nat := by
  classical exact ((Finset.range g.size).filter fun e => Dom g root e v).card

lemma dp_le (g : G) (root v : Nat) : dp g root v ≤ g.size := by
  classical
  unfold dp
  calc _ ≤ (Finset.range g.size).card := Finset.card_filter_le _ _
    _ = g.size := Finset.card_range _

lemma dp_tid_lt (g : G) (hwf : WF g) (root v : Nat) (hr : root < g.size) (hvr : v ≠ root)
    (hp : Path g root v) : dp g root (tid g root v) < dp g root v := by
  classical
  obtain ⟨_, h2, h3, h4⟩ := tid_spec g hwf root v hr hvr hp
  unfold dp
  apply Finset.card_lt_card
  rw [Finset.ssubset_iff_of_subset]
  · refine ⟨v, ?_, ?_⟩
    · simp only [Finset.mem_filter, Finset.mem_range]
      exact ⟨path_lt g hwf root v hr hp, Dom.refl' hp⟩
    · simp only [Finset.mem_filter, Finset.mem_range, not_and]
      intro _ hd
      exact h2 (h3.antisymm' hd)
  · intro x hx
    simp only [Finset.mem_filter, Finset.mem_range] at hx ⊢
    exact ⟨hx.1, hx.2.trans' h3⟩

lemma dp_pos (g : G) (hwf : WF g) (root v : Nat) (hr : root < g.size) (hp : Path g root v) :
    0 < dp g root v := by
  classical
  unfold dp
  apply Finset.card_pos.2
  exact ⟨v, by simp only [Finset.mem_filter, Finset.mem_range]; exact ⟨path_lt g hwf root v hr hp, Dom.refl' hp⟩⟩

/-! ## the runner walk -/

/-- nodes visited by the runner walk -/
def walkL (idom : Array Int) (bdom : Int) : Nat → Int → List Nat
  | 0, _ => []
  | f + 1, runner =>
    if runner == bdom || runner < 0 then []
    else runner.toNat :: walkL idom bdom f (idom.getD runner.toNat (-1))

lemma dfWalk_size (idom : Array Int) (b : Nat) (bdom : Int) (f : Nat) (runner : Int)
    (df : Array (List Nat)) : (dfWalk idom b bdom f runner df).size = df.size := by
  induction f generalizing runner df with
  | zero => rfl
  | succ f ih =>
    unfold dfWalk
    split_ifs
    · rfl
    · simp only [ih]
      split_ifs <;> simp

lemma getD_setL (a : Array (List Nat)) (r x : Nat) (v : List Nat) :
    (a.setIfInBounds r v).getD x [] = if x = r ∧ r < a.size then v else a.getD x [] := by
  simp only [Array.getD_eq_getD_getElem?, Array.getElem?_setIfInBounds]
  by_cases h : r = x
  · subst h
    by_cases hr : r < a.size
    · simp [hr]
    · simp [hr]
  · have h' : ¬ x = r := fun e => h e.symm
    simp [h, h']

lemma dfWalk_getD (idom : Array Int) (b : Nat) (bdom : Int) (f : Nat) (runner : Int)
    (df : Array (List Nat)) (x : Nat) :
    (dfWalk idom b bdom f runner df).getD x [] =
      if x ∈ walkL idom bdom f runner ∧ b ∉ df.getD x [] ∧ x < df.size
      then df.getD x [] ++ [b] else df.getD x [] := by
  induction f generalizing runner df with
  | zero => simp [dfWalk, walkL]
  | succ f ih =>
    unfold dfWalk walkL
    by_cases hc : (runner == bdom || runner < 0) = true
    · simp [hc]
    · simp only [hc, Bool.false_eq_true, if_false]
      rw [ih]
      generalize hW : walkL idom bdom f (idom.getD runner.toNat (-1)) = W
      generalize hr : runner.toNat = r
      by_cases hcb : ((df.getD r []).contains b) = true
      · simp only [hcb, if_true]
        have hb : b ∈ df.getD r [] := by simpa using hcb
        by_cases hx : x = r
        · subst hx
          rw [if_neg (by tauto), if_neg (by tauto)]
        · have : x ∈ r :: W ↔ x ∈ W := by simp [hx]
          simp only [this]
      · simp only [hcb, Bool.false_eq_true, if_false]
        have hb : b ∉ df.getD r [] := by simpa using hcb
        rw [getD_setL, Array.size_setIfInBounds]
        by_cases hx : x = r
        · subst hx
          by_cases hlt : x < df.size
          · have h1 : (x = x ∧ x < df.size) := ⟨rfl, hlt⟩
            rw [if_pos h1, if_neg (by simp), if_pos ⟨by simp, hb, hlt⟩]
          · have h1 : ¬ (x = x ∧ x < df.size) := fun h => hlt h.2
            rw [if_neg h1, if_neg (by tauto), if_neg (by tauto)]
        · have h1 : ¬ (x = r ∧ r < df.size) := fun h => hx h.1
          have : x ∈ r :: W ↔ x ∈ W := by simp [hx]
          rw [if_neg h1]
          simp only [this]

lemma dfWalk_mem (idom : Array Int) (b : Nat) (bdom : Int) (f : Nat) (runner : Int)
    (df : Array (List Nat)) (x y : Nat) (hx : x < df.size) :
    y ∈ (dfWalk idom b bdom f runner df).getD x [] ↔
      y ∈ df.getD x [] ∨ (y = b ∧ x ∈ walkL idom bdom f runner) := by
  rw [dfWalk_getD]
  by_cases h : (x ∈ walkL idom bdom f runner ∧ b ∉ df.getD x [] ∧ x < df.size)
  · rw [if_pos h]
    simp only [List.mem_append, List.mem_singleton]
    constructor
    · rintro (h1 | h1)
      · exact Or.inl h1
      · exact Or.inr ⟨h1, h.1⟩
    · rintro (h1 | h1)
      · exact Or.inl h1
      · exact Or.inr h1.1
  · rw [if_neg h]
    constructor
    · exact Or.inl
    · rintro (h1 | ⟨rfl, h1⟩)
      · exact h1
      · by_contra hc
        exact h ⟨h1, hc, hx⟩

lemma dfWalk_nodup (idom : Array Int) (b : Nat) (bdom : Int) (f : Nat) (runner : Int)
    (df : Array (List Nat)) (x : Nat) (h : (df.getD x []).Nodup) :
    ((dfWalk idom b bdom f runner df).getD x []).Nodup := by
  rw [dfWalk_getD]
  by_cases hc : (x ∈ walkL idom bdom f runner ∧ b ∉ df.getD x [] ∧ x < df.size)
  · rw [if_pos hc, List.nodup_append]
    refine ⟨h, by simp, ?_⟩
    intro a ha c hc' hac
    simp only [List.mem_singleton] at hc'
    subst hc' hac
    exact hc.2.1 ha
  · rw [if_neg hc]; exact h

/-! ### the walk over the true immediate-dominator array -/

lemma walkL_neg (idom : Array Int) (bdom : Int) (f : Nat) (r : Int) (h : r < 0) :
    walkL idom bdom f r = [] := by
  cases f with
  | zero => rfl
  | succ f => unfold walkL; simp [h]

lemma walkL_root (g : G) (hwf : WF g) (root : Nat) (hr : root < g.size) (A : Array Int)
    (hA : ∀ v < g.size, A.getD v (-1) = idomEntry g root v) (x : Nat) :
    ∀ (f r : Nat), Path g root r → dp g root r ≤ f →
      (x ∈ walkL A (-1) f (r : Int) ↔ Dom g root x r) := by
  intro f
  induction f with
  | zero =>
    intro r hp hd
    have := dp_pos g hwf root r hr hp
    omega
  | succ f ih =>
    intro r hp hd
    have hrn := path_lt g hwf root r hr hp
    unfold walkL
    have h1 : ((r : Int) == -1 || decide ((r : Int) < 0)) = false := by
      simp only [Bool.or_eq_false_iff, beq_eq_false_iff_ne, decide_eq_false_iff_not]
      omega
    simp only [h1, Bool.false_eq_true, if_false, Int.toNat_natCast, List.mem_cons]
    rw [hA r hrn]
    by_cases hrr : r = root
    · subst hrr
      rw [idomEntry_unreach g hwf r r hr (Or.inl rfl), walkL_neg _ _ _ _ (by omega)]
      simp only [List.not_mem_nil, or_false]
      constructor
      · rintro rfl; exact Dom.refl' hp
      · exact Dom.eq_root
    · obtain ⟨e1, e2, e3, e4⟩ := tid_spec g hwf root r hr hrr hp
      rw [e1, ih _ e3.2.1 (by have := dp_tid_lt g hwf root r hr hrr hp; omega)]
      exact (dom_tid_iff g hwf root r x hr hrr hp).symm

lemma walkL_dom (g : G) (hwf : WF g) (root : Nat) (hr : root < g.size) (A : Array Int)
    (hA : ∀ v < g.size, A.getD v (-1) = idomEntry g root v) (x d : Nat) :
    ∀ (f r : Nat), dp g root r ≤ f → Dom g root d r →
      (x ∈ walkL A (d : Int) f (r : Int) ↔ (Dom g root x r ∧ ¬ Dom g root x d)) := by
  intro f
  induction f with
  | zero =>
    intro r hd hdr
    have := dp_pos g hwf root r hr hdr.1
    omega
  | succ f ih =>
    intro r hd hdr
    have hp := hdr.1
    have hrn := path_lt g hwf root r hr hp
    unfold walkL
    by_cases hrd : r = d
    · subst hrd
      simp only [beq_self_eq_true, Bool.true_or, if_true, List.not_mem_nil, false_iff]
      tauto
    · have h1 : ((r : Int) == (d : Int) || decide ((r : Int) < 0)) = false := by
        simp only [Bool.or_eq_false_iff, beq_eq_false_iff_ne, decide_eq_false_iff_not]
        omega
      simp only [h1, Bool.false_eq_true, if_false, Int.toNat_natCast, List.mem_cons]
      rw [hA r hrn]
      have hrr : r ≠ root := by
        rintro rfl
        exact hrd hdr.eq_root.symm
      obtain ⟨e1, e2, e3, e4⟩ := tid_spec g hwf root r hr hrr hp
      have hd' : Dom g root d (tid g root r) := e4 d (fun e => hrd e.symm) hdr
      rw [e1, ih _ (by have := dp_tid_lt g hwf root r hr hrr hp; omega) hd',
        dom_tid_iff g hwf root r x hr hrr hp]
      constructor
      · rintro (rfl | ⟨h2, h3⟩)
        · exact ⟨Or.inl rfl, fun h => hrd (h.antisymm' hdr)⟩
        · exact ⟨Or.inr h2, h3⟩
      · rintro ⟨h2 | h2, h3⟩
        · exact Or.inl h2
        · exact Or.inr ⟨h2, h3⟩

/-! ### the two loops of `domFrontierCHK` -/

/-- body of the loop over predecessors -/
def dfInner (idom : Array Int) (n root b : Nat) (bdom : Int) (df : Array (List Nat)) (p : Nat) :
    Array (List Nat) :=
  if idom.getD p (-1) == -1 && p != root then df else dfWalk idom b bdom (n + 2) (p : Int) df

/-- body of the loop over nodes -/
def dfOuter (g : G) (root : Nat) (idom : Array Int) (df : Array (List Nat)) (b : Nat) :
    Array (List Nat) :=
  if ((transpose g).getD b []).length < 2 then df
  else if idom.getD b (-1) == -1 && b != root then df
  else ((transpose g).getD b []).foldl (dfInner idom g.size root b (idom.getD b (-1))) df

lemma domFrontierCHK_eq (g : G) (root : Nat) (idomL : List Int) :
    domFrontierCHK g root idomL =
      ((List.range g.size).foldl (dfOuter g root idomL.toArray) (Array.replicate g.size [])).toList :=
  rfl

/-- predecessor `p` is not skipped -/
def okP (idom : Array Int) (root p : Nat) : Prop := ¬ (idom.getD p (-1) = -1 ∧ p ≠ root)

lemma dfInner_size (idom : Array Int) (n root b : Nat) (bdom : Int) (df : Array (List Nat)) (p : Nat) :
    (dfInner idom n root b bdom df p).size = df.size := by
  unfold dfInner; split_ifs
  · rfl
  · exact dfWalk_size _ _ _ _ _ _

lemma dfInner_mem (idom : Array Int) (n root b : Nat) (bdom : Int) (df : Array (List Nat)) (p : Nat)
    (x y : Nat) (hx : x < df.size) :
    y ∈ (dfInner idom n root b bdom df p).getD x [] ↔
      y ∈ df.getD x [] ∨ (y = b ∧ okP idom root p ∧ x ∈ walkL idom bdom (n + 2) (p : Int)) := by
  unfold dfInner okP
  by_cases h : (idom.getD p (-1) == -1 && p != root) = true
  · rw [if_pos h]
    have h' : idom.getD p (-1) = -1 ∧ p ≠ root := by simpa using h
    constructor
    · exact Or.inl
    · rintro (h1 | ⟨_, h2, _⟩)
      · exact h1
      · exact absurd h' h2
  · rw [if_neg h, dfWalk_mem _ _ _ _ _ _ _ _ hx]
    have h' : ¬ (idom.getD p (-1) = -1 ∧ p ≠ root) := by simpa using h
    constructor
    · rintro (h1 | ⟨h1, h2⟩)
      · exact Or.inl h1
      · exact Or.inr ⟨h1, h', h2⟩
    · rintro (h1 | ⟨h1, _, h2⟩)
      · exact Or.inl h1
      · exact Or.inr ⟨h1, h2⟩

lemma dfInner_nodup (idom : Array Int) (n root b : Nat) (bdom : Int) (df : Array (List Nat)) (p : Nat)
    (x : Nat) (h : (df.getD x []).Nodup) : ((dfInner idom n root b bdom df p).getD x []).Nodup := by
  unfold dfInner; split_ifs
  · exact h
  · exact dfWalk_nodup _ _ _ _ _ _ _ h

lemma inner_fold (idom : Array Int) (n root b : Nat) (bdom : Int) (ps : List Nat) :
    ∀ (df : Array (List Nat)),
      (ps.foldl (dfInner idom n root b bdom) df).size = df.size ∧
      ∀ x, x < df.size →
        ((df.getD x []).Nodup → ((ps.foldl (dfInner idom n root b bdom) df).getD x []).Nodup) ∧
        ∀ y, y ∈ (ps.foldl (dfInner idom n root b bdom) df).getD x [] ↔
          y ∈ df.getD x [] ∨
            (y = b ∧ ∃ p ∈ ps, okP idom root p ∧ x ∈ walkL idom bdom (n + 2) (p : Int)) := by
  induction ps with
  | nil => intro df; simp
  | cons p ps ih =>
    intro df
    simp only [List.foldl_cons]
    obtain ⟨h1, h2⟩ := ih (dfInner idom n root b bdom df p)
    rw [dfInner_size] at h1 h2
    refine ⟨h1, fun x hx => ?_⟩
    obtain ⟨h3, h4⟩ := h2 x hx
    refine ⟨fun hn => h3 (dfInner_nodup _ _ _ _ _ _ _ _ hn), fun y => ?_⟩
    rw [h4, dfInner_mem _ _ _ _ _ _ _ _ _ hx]
    simp only [List.mem_cons, exists_eq_or_imp]
    tauto

/-- `x` receives `b` in the frontier loop -/
def dfR (g : G) (root : Nat) (idom : Array Int) (x b : Nat) : Prop :=
  2 ≤ ((transpose g).getD b []).length ∧ okP idom root b ∧
    ∃ p ∈ (transpose g).getD b [], okP idom root p ∧
      x ∈ walkL idom (idom.getD b (-1)) (g.size + 2) (p : Int)

lemma dfOuter_spec (g : G) (root : Nat) (idom : Array Int) (df : Array (List Nat)) (b : Nat) :
    (dfOuter g root idom df b).size = df.size ∧
      ∀ x, x < df.size →
        ((df.getD x []).Nodup → ((dfOuter g root idom df b).getD x []).Nodup) ∧
        ∀ y, y ∈ (dfOuter g root idom df b).getD x [] ↔
          y ∈ df.getD x [] ∨ (y = b ∧ dfR g root idom x b) := by
  unfold dfOuter dfR
  by_cases h1 : ((transpose g).getD b []).length < 2
  · rw [if_pos h1]
    refine ⟨rfl, fun x _ => ⟨id, fun y => ?_⟩⟩
    constructor
    · exact Or.inl
    · rintro (h | ⟨_, h, _⟩)
      · exact h
      · omega
  · rw [if_neg h1]
    by_cases h2 : (idom.getD b (-1) == -1 && b != root) = true
    · rw [if_pos h2]
      have h' : idom.getD b (-1) = -1 ∧ b ≠ root := by simpa using h2
      refine ⟨rfl, fun x _ => ⟨id, fun y => ?_⟩⟩
      constructor
      · exact Or.inl
      · rintro (h | ⟨_, _, h, _⟩)
        · exact h
        · exact absurd h' h
    · rw [if_neg h2]
      have h' : okP idom root b := by unfold okP; simpa using h2
      obtain ⟨e1, e2⟩ := inner_fold idom g.size root b (idom.getD b (-1)) ((transpose g).getD b []) df
      refine ⟨e1, fun x hx => ⟨(e2 x hx).1, fun y => ?_⟩⟩
      rw [(e2 x hx).2]
      constructor
      · rintro (h | ⟨h3, h4⟩)
        · exact Or.inl h
        · exact Or.inr ⟨h3, by omega, h', h4⟩
      · rintro (h | ⟨h3, _, _, h4⟩)
        · exact Or.inl h
        · exact Or.inr ⟨h3, h4⟩

lemma outer_fold (g : G) (root : Nat) (idom : Array Int) (l : List Nat) :
    ∀ (df : Array (List Nat)),
      (l.foldl (dfOuter g root idom) df).size = df.size ∧
      ∀ x, x < df.size →
        ((df.getD x []).Nodup → ((l.foldl (dfOuter g root idom) df).getD x []).Nodup) ∧
        ∀ y, y ∈ (l.foldl (dfOuter g root idom) df).getD x [] ↔
          y ∈ df.getD x [] ∨ (y ∈ l ∧ dfR g root idom x y) := by
  induction l with
  | nil => intro df; simp
  | cons b l ih =>
    intro df
    simp only [List.foldl_cons]
    obtain ⟨h1, h2⟩ := ih (dfOuter g root idom df b)
    obtain ⟨o1, o2⟩ := dfOuter_spec g root idom df b
    rw [o1] at h1 h2
    refine ⟨h1, fun x hx => ?_⟩
    obtain ⟨h3, h4⟩ := h2 x hx
    obtain ⟨o3, o4⟩ := o2 x hx
    refine ⟨fun hn => h3 (o3 hn), fun y => ?_⟩
    rw [h4, o4]
    simp only [List.mem_cons]
    constructor
    · rintro ((h | ⟨rfl, h⟩) | ⟨h5, h6⟩)
      · exact Or.inl h
      · exact Or.inr ⟨Or.inl rfl, h⟩
      · exact Or.inr ⟨Or.inr h5, h6⟩
    · rintro (h | ⟨rfl | h5, h6⟩)
      · exact Or.inl (Or.inl h)
      · exact Or.inl (Or.inr ⟨rfl, h6⟩)
      · exact Or.inr ⟨h5, h6⟩

lemma domFrontierCHK_getD (g : G) (root : Nat) (idomL : List Int) (x : Nat) (hx : x < g.size) :
    ((domFrontierCHK g root idomL).getD x []).Nodup ∧
      ∀ y, y ∈ (domFrontierCHK g root idomL).getD x [] ↔
        (y < g.size ∧ dfR g root idomL.toArray x y) := by
  obtain ⟨h1, h2⟩ := outer_fold g root idomL.toArray (List.range g.size) (Array.replicate g.size [])
  have hx' : x < (Array.replicate g.size ([] : List Nat)).size := by simpa using hx
  obtain ⟨h3, h4⟩ := h2 x hx'
  have he : (domFrontierCHK g root idomL).getD x [] =
      ((List.range g.size).foldl (dfOuter g root idomL.toArray) (Array.replicate g.size [])).getD x [] := by
    rw [domFrontierCHK_eq]
    simp [Array.getD_eq_getD_getElem?, List.getD_eq_getElem?_getD]
  have h0 : (Array.replicate g.size ([] : List Nat)).getD x [] = [] := by
    simp [Array.getD_eq_getD_getElem?, hx]
  rw [he]
  refine ⟨h3 (by rw [h0]; exact List.nodup_nil), fun y => ?_⟩
  rw [h4, h0]
  simp

/-! ### D1: the frontier routine on the true immediate-dominator array -/

lemma idomSpec_toArray_getD (g : G) (root v : Nat) (hv : v < g.size) :
    (idomSpec g root).toArray.getD v (-1) = idomEntry g root v := by
  rw [← idomSpec_getD g root v hv]
  simp [Array.getD_eq_getD_getElem?, List.getD_eq_getElem?_getD]

lemma okP_spec (g : G) (hwf : WF g) (root p : Nat) (hr : root < g.size) (hp : p < g.size) :
    okP (idomSpec g root).toArray root p ↔ Path g root p := by
  unfold okP
  rw [idomSpec_toArray_getD g root p hp, ← idomSpec_getD g root p hp,
    idomSpec_neg1_iff g hwf root p hr hp]
  constructor
  · intro h
    by_contra hc
    exact h ⟨Or.inr hc, fun e => hc (e ▸ Relation.ReflTransGen.refl)⟩
  · rintro h ⟨h1 | h1, h2⟩
    · exact h2 h1
    · exact h1 h

lemma walk_sem (g : G) (hwf : WF g) (root x y p : Nat) (hr : root < g.size)
    (hy : Path g root y) (hp : Path g root p) (he : Edge g p y) :
    x ∈ walkL (idomSpec g root).toArray ((idomSpec g root).toArray.getD y (-1)) (g.size + 2) (p : Int) ↔
      (Dom g root x p ∧ ¬ (x ≠ y ∧ Dom g root x y)) := by
  have hA := idomSpec_toArray_getD g root
  have hyn := path_lt g hwf root y hr hy
  have hdp : dp g root p ≤ g.size + 2 := by have := dp_le g root p; omega
  rw [hA y hyn]
  by_cases hyr : y = root
  · subst hyr
    rw [idomEntry_unreach g hwf y y hr (Or.inl rfl), walkL_root g hwf y hr _ hA x _ p hp hdp]
    constructor
    · intro h; exact ⟨h, fun h2 => h2.1 h2.2.eq_root⟩
    · exact fun h => h.1
  · obtain ⟨e1, e2, e3, e4⟩ := tid_spec g hwf root y hr hyr hy
    have hd : Dom g root (tid g root y) p := e3.pred e2 hp he
    rw [e1, walkL_dom g hwf root hr _ hA x _ _ p hdp hd]
    have : (x ≠ y ∧ Dom g root x y) ↔ Dom g root x (tid g root y) := by
      constructor
      · rintro ⟨h1, h2⟩; exact e4 x h1 h2
      · intro h
        refine ⟨?_, h.trans' e3⟩
        rintro rfl
        exact e2 (e3.antisymm' h)
    rw [this]

/-- a reachable non-root node in some dominance frontier has at least two incoming edges -/
lemma indeg_ge_two (g : G) (hwf : WF g) (root x y p : Nat) (hr : root < g.size) (hyr : y ≠ root)
    (hy : Path g root y) (hp : Path g root p) (he : Edge g p y) (hx : Dom g root x p)
    (hns : ¬ (x ≠ y ∧ Dom g root x y)) : 2 ≤ ((transpose g).getD y []).length := by
  have hyn := path_lt g hwf root y hr hy
  by_contra hlt
  have hall : ∀ u, Edge g u y → u = p := by
    intro u hu
    have h1 := (mem_transpose g u y hyn).2 hu
    have h2 := (mem_transpose g p y hyn).2 he
    generalize (transpose g).getD y [] = ps at h1 h2 hlt
    match ps, h1, h2, hlt with
    | [], h1, _, _ => simp at h1
    | [a], h1, h2, _ =>
      simp only [List.mem_singleton] at h1 h2
      rw [h1, h2]
    | a :: b :: r, _, _, hlt => simp at hlt
  have hpy : Dom g root p y := Dom.of_preds hy hyr (fun u hu hue => by
    rw [hall u hue]; exact Dom.refl' hp)
  have hxy : Dom g root x y := hx.trans' hpy
  have hxe : x = y := by
    by_contra hne
    exact hns ⟨hne, hxy⟩
  subst hxe
  have hpe : p = x := hpy.antisymm' hx
  subst hpe
  have : ∀ v, Path g root v → v ≠ p := by
    intro v hv
    induction hv with
    | refl => exact fun e => hyr e.symm
    | tail _ hbc ih =>
      intro e
      subst e
      exact ih (hall _ hbc)
  exact this p hy rfl

end CHK
open CHK

/-- **D1 / G2.** The Go dominance-frontier routine, run on the true immediate-dominator array
`idomSpec g root`, lists `y` in the frontier of `x` exactly when the definitional frontier
`dfSpec` does, except that the root is omitted when it has fewer than two incoming edges
(counted with multiplicity, from all nodes). -/
theorem domFrontierCHK_spec (g : G) (hwf : WF g) (root x y : Nat) (hr : root < g.size)
    (hx : x < g.size) :
    y ∈ (domFrontierCHK g root (idomSpec g root)).getD x [] ↔
      (y ∈ (dfSpec g root).getD x [] ∧ (y = root → 2 ≤ rootInDeg g root)) := by
  rw [(domFrontierCHK_getD g root (idomSpec g root) x hx).2 y, dfSpec_spec g hwf root x y hr hx]
  simp only [sdom_iff, dom_iff_Dom g hwf root _ _ hr]
  constructor
  · rintro ⟨hy, h2, hoky, p, hp, hokp, hw⟩
    have hpe := (mem_transpose g p y hy).1 hp
    have hpy := (okP_spec g hwf root y hr hy).1 hoky
    have hpp := (okP_spec g hwf root p hr hpe.1).1 hokp
    have := (walk_sem g hwf root x y p hr hpy hpp hpe).1 hw
    refine ⟨⟨this.1.2.1, hpy, ⟨p, hpp, hpe, this.1⟩, this.2⟩, ?_⟩
    rintro rfl
    rw [← transpose_root_length g y hr]; exact h2
  · rintro ⟨⟨_, hpy, ⟨p, hpp, hpe, hd⟩, hns⟩, hroot⟩
    have hy := path_lt g hwf root y hr hpy
    refine ⟨hy, ?_, (okP_spec g hwf root y hr hy).2 hpy, p, (mem_transpose g p y hy).2 hpe,
      (okP_spec g hwf root p hr hpe.1).2 hpp, (walk_sem g hwf root x y p hr hpy hpp hpe).2 ⟨hd, hns⟩⟩
    by_cases hyr : y = root
    · subst hyr
      rw [transpose_root_length g y hr]; exact hroot rfl
    · exact indeg_ge_two g hwf root x y p hr hyr hpy hpp hpe hd hns

namespace CHK

end CHK
open CHK

/-- **D1.** A non-root node occurring in a definitional dominance frontier has at least two
incoming edges (with multiplicity), so the Go routine's "fewer than two predecessors" shortcut
only ever matters for the root. -/
theorem dfSpec_indeg (g : G) (hwf : WF g) (root x y : Nat) (hr : root < g.size) (hx : x < g.size)
    (hyr : y ≠ root) (h : y ∈ (dfSpec g root).getD x []) :
    2 ≤ ((transpose g).getD y []).length := by
  rw [dfSpec_spec g hwf root x y hr hx] at h
  simp only [sdom_iff, dom_iff_Dom g hwf root _ _ hr] at h
  obtain ⟨_, hpy, ⟨p, hpp, hpe, hd⟩, hns⟩ := h
  exact indeg_ge_two g hwf root x y p hr hyr hpy hpp hpe hd hns

namespace CHK

end CHK
open CHK

/-- **D1.** Every frontier list produced by the Go routine is duplicate-free (for any `idom` input). -/
theorem domFrontierCHK_nodup (g : G) (root : Nat) (idomL : List Int) (x : Nat) :
    ((domFrontierCHK g root idomL).getD x []).Nodup := by
  by_cases hx : x < g.size
  · exact (domFrontierCHK_getD g root idomL x hx).1
  · have hl : (domFrontierCHK g root idomL).length = g.size := by
      rw [domFrontierCHK_eq]
      simp [(outer_fold g root idomL.toArray (List.range g.size) (Array.replicate g.size [])).1]
    have : (domFrontierCHK g root idomL)[x]? = none := List.getElem?_eq_none (by omega)
    simp [List.getD_eq_getElem?_getD, this]

namespace CHK

example : WF exD := by decide
example : domFrontierCHK exD 0 (idomSpec exD 0) = [[], [3], [3], [1]] := by
  with_unfolding_all decide
example : (3 ∈ (domFrontierCHK exD 0 (idomSpec exD 0)).getD 2 [] ↔
    (3 ∈ (dfSpec exD 0).getD 2 [] ∧ ((3 : Nat) = 0 → 2 ≤ rootInDeg exD 0))) :=
  domFrontierCHK_spec exD (by decide) 0 2 3 (by decide) (by decide)

/-! ## DFS: every non-root node is exited before one of its predecessors -/

lemma visit_parent (g : G) (hwf : WF g) : ∀ (f v : Nat) (s : DState), v < g.size →
    ∃ l, (visit g f v s).events = l.reverse ++ s.events ∧
      ∀ x ∈ ext l, x ≠ v → ∃ u, Edge g u x ∧ List.Sublist [x, u] (ext l) := by
  intro f
  induction f with
  | zero => intro v s _; exact ⟨[], by simp [visit_zero], by simp⟩
  | succ f ih =>
    have hl : ∀ (v : Nat), v < g.size → ∀ (ws : List Nat) (s : DState), (∀ w ∈ ws, w ∈ out g v) →
        ∃ l, (visitList g f ws s).events = l.reverse ++ s.events ∧
          ∀ x ∈ ext l, (∃ u, Edge g u x ∧ List.Sublist [x, u] (ext l)) ∨ Edge g v x := by
      intro v hv ws
      induction ws with
      | nil => intro s _; exact ⟨[], by simp, by simp⟩
      | cons w ws ihw =>
        intro s hws
        have hw : w ∈ out g v := hws w (by simp)
        have hws' : ∀ w' ∈ ws, w' ∈ out g v := fun w' h => hws w' (by simp [h])
        obtain ⟨l2, h2, q2⟩ := ihw (step g f s w) hws'
        by_cases hs : s.seen w = true
        · refine ⟨l2, ?_, q2⟩
          simp only [visitList_cons]
          rw [h2]; simp [step, hs]
        · obtain ⟨l1, h1, q1⟩ := ih w s (hwf v hv w hw)
          refine ⟨l1 ++ l2, ?_, ?_⟩
          · simp only [visitList_cons]
            rw [h2]; simp [step, hs, h1]
          · intro x hx
            rw [ext_append, List.mem_append] at hx
            rw [ext_append]
            rcases hx with hx | hx
            · by_cases hxw : x = w
              · subst hxw; exact Or.inr ⟨hv, hw⟩
              · obtain ⟨u, hu, hsub⟩ := q1 x hx hxw
                exact Or.inl ⟨u, hu, hsub.trans (List.sublist_append_left _ _)⟩
            · rcases q2 x hx with ⟨u, hu, hsub⟩ | h
              · exact Or.inl ⟨u, hu, hsub.trans (List.sublist_append_right _ _)⟩
              · exact Or.inr h
    intro v s hv
    obtain ⟨inner, h1, q1⟩ := hl v hv (out g v) ⟨s.visited.setIfInBounds v true, (true, v) :: s.events⟩
      (fun w hw => hw)
    refine ⟨(true, v) :: (inner ++ [(false, v)]), ?_, ?_⟩
    · rw [visit_succ]; simp [h1]
    · intro x hx hxv
      simp only [ext_cons_true, ext_append, ext_cons_false, ext_nil, List.mem_append,
        List.mem_singleton] at hx ⊢
      rcases hx with hx | hx
      · rcases q1 x hx with ⟨u, hu, hsub⟩ | h
        · exact ⟨u, hu, hsub.trans (List.sublist_append_left _ _)⟩
        · refine ⟨v, h, ?_⟩
          have : List.Sublist [x] (ext inner) := List.singleton_sublist.2 hx
          exact this.append (List.Sublist.refl [v])
      · exact absurd hx hxv

lemma postOrder_parent (g : G) (hwf : WF g) (root : Nat) (hr : root < g.size) (x : Nat)
    (hx : x ∈ postOrder g root) (hxr : x ≠ root) :
    ∃ u, Edge g u x ∧ List.Sublist [x, u] (postOrder g root) := by
  obtain ⟨l, e, q⟩ := visit_parent g hwf (g.size + 1) root (init g) hr
  have : euler g root = l := by
    rw [euler_eq, final, e]; simp [init]
  rw [postOrder_eq, this] at hx ⊢
  exact q x hx hxr

lemma idxOf_lt_of_sublist (l : List Nat) (hn : l.Nodup) (x u : Nat) (h : List.Sublist [x, u] l) :
    l.idxOf x < l.idxOf u := by
  induction l with
  | nil => simp at h
  | cons a l ih =>
    rw [List.nodup_cons] at hn
    cases h with
    | cons _ h' =>
      have hx : x ∈ l := h'.subset (by simp)
      have hu : u ∈ l := h'.subset (by simp)
      have hax : a ≠ x := fun e => hn.1 (e ▸ hx)
      have hau : a ≠ u := fun e => hn.1 (e ▸ hu)
      rw [List.idxOf_cons_ne _ hax, List.idxOf_cons_ne _ hau]
      exact Nat.succ_lt_succ (ih hn.2 h')
    | cons_cons _ h' =>
      have hu : u ∈ l := h'.subset (by simp)
      have hxu : x ≠ u := fun e => hn.1 (e ▸ hu)
      rw [List.idxOf_cons_self, List.idxOf_cons_ne _ hxu]
      exact Nat.succ_pos _

/-! ## the post-order number array -/

lemma getD_setN (a : Array Nat) (r x v : Nat) :
    (a.setIfInBounds r v).getD x 0 = if x = r ∧ r < a.size then v else a.getD x 0 := by
  simp only [Array.getD_eq_getD_getElem?, Array.getElem?_setIfInBounds]
  by_cases h : r = x
  · subst h
    by_cases hr : r < a.size
    · simp [hr]
    · simp [hr]
  · have h' : ¬ x = r := fun e => h e.symm
    simp [h, h']

lemma poNum_fold (l : List Nat) : ∀ (s : Nat) (a : Array Nat), l.Nodup → (∀ v ∈ l, v < a.size) →
    ∀ x, ((l.zip (List.range' s l.length)).foldl (fun a (p : Nat × Nat) => a.setIfInBounds p.1 p.2) a).getD x 0 =
      if x ∈ l then s + l.idxOf x else a.getD x 0 := by
  induction l with
  | nil => intro s a _ _ x; simp
  | cons b l ih =>
    intro s a hn hlt x
    rw [List.nodup_cons] at hn
    simp only [List.length_cons, List.range'_succ, List.zip_cons_cons, List.foldl_cons]
    rw [ih (s + 1) _ hn.2 (fun v hv => by
      rw [Array.size_setIfInBounds]; exact hlt v (by simp [hv]))]
    by_cases hx : x ∈ l
    · have hbx : b ≠ x := fun e => hn.1 (e ▸ hx)
      rw [if_pos hx, if_pos (by simp [hx]), List.idxOf_cons_ne _ hbx]
      omega
    · rw [if_neg hx, getD_setN]
      by_cases hxb : x = b
      · subst hxb
        rw [if_pos ⟨rfl, hlt x (by simp)⟩, if_pos (by simp), List.idxOf_cons_self]
        omega
      · rw [if_neg (fun h => hxb h.1), if_neg (by simp [hx, hxb])]

/-- the post-order number array of `idomCHK` -/
def poNumArr (g : G) (root : Nat) : Array Nat :=
  ((postOrder g root).zip (List.range (postOrder g root).length)).foldl
    (fun a (p : Nat × Nat) => a.setIfInBounds p.1 p.2) (Array.replicate g.size 0)

lemma mem_postOrder_lt (g : G) (hwf : WF g) (root : Nat) (hr : root < g.size) (v : Nat)
    (h : v ∈ postOrder g root) : v < g.size :=
  path_lt g hwf root v hr ((mem_postOrder_iff g root hwf hr v).1 h)

lemma poNumArr_getD (g : G) (hwf : WF g) (root : Nat) (hr : root < g.size) (x : Nat)
    (hx : x ∈ postOrder g root) : (poNumArr g root).getD x 0 = (postOrder g root).idxOf x := by
  unfold poNumArr
  rw [List.range_eq_range', poNum_fold _ 0 _ (postOrder_nodup g root hwf hr)
    (fun v hv => by simpa using mem_postOrder_lt g hwf root hr v hv), if_pos hx]
  omega

/-! ## the partial dominator tree stored in an `Array Int` -/

/-- post-order number read from the array -/
def pnum (P : Array Nat) (x : Nat) : Nat := P.getD x 0

/-- node `x` has been given a parent -/
def proc (A : Array Int) (x : Nat) : Prop := A.getD x (-1) ≠ -1

/-- parent pointer -/
def par (A : Array Int) (x : Nat) : Nat := (A.getD x (-1)).toNat

/-- `c` is on the parent chain of `x` -/
def Up (A : Array Int) : Nat → Nat → Prop := Relation.ReflTransGen (fun u v => par A u = v)

/-- properties of the numbering and of a chosen "forward predecessor" function -/
structure PO (g : G) (root : Nat) (P : Array Nat) (π : Nat → Nat) : Prop where
  inj : ∀ x y, Path g root x → Path g root y → pnum P x = pnum P y → x = y
  lt_root : ∀ x, Path g root x → x ≠ root → pnum P x < pnum P root
  root_lt : pnum P root < g.size
  par_edge : ∀ x, Path g root x → x ≠ root → Edge g (π x) x
  par_path : ∀ x, Path g root x → x ≠ root → Path g root (π x)
  par_lt : ∀ x, Path g root x → x ≠ root → pnum P x < pnum P (π x)

/-- tree invariant of the `idom` array -/
structure TI (g : G) (root : Nat) (P : Array Nat) (A : Array Int) : Prop where
  hsize : A.size = g.size
  hroot : A.getD root (-1) = (root : Int)
  hpath : ∀ x, proc A x → Path g root x
  hnat : ∀ x, proc A x → A.getD x (-1) = (par A x : Int)
  hpp : ∀ x, proc A x → proc A (par A x)
  hplt : ∀ x, proc A x → x ≠ root → pnum P x < pnum P (par A x)

lemma proc_lt {A : Array Int} {x : Nat} (h : proc A x) : x < A.size := by
  by_contra hc
  apply h
  simp [Array.getD_eq_getD_getElem?, Array.getElem?_eq_none (not_lt.1 hc)]

lemma getD_irrel (A : Array Int) (x : Nat) (d d' : Int) (h : x < A.size) :
    A.getD x d = A.getD x d' := by
  simp [Array.getD_eq_getD_getElem?, h]

section
variable {g : G} {root : Nat} {P : Array Nat} {π : Nat → Nat} {A : Array Int}

lemma TI.par_root (hT : TI g root P A) : par A root = root := by
  simp [par, hT.hroot]

lemma TI.proc_root (hT : TI g root P A) : proc A root := by
  unfold proc; rw [hT.hroot]; omega

lemma PO.le_root (hP : PO g root P π) {x : Nat} (hx : Path g root x) : pnum P x ≤ pnum P root := by
  by_cases h : x = root
  · rw [h]
  · exact (hP.lt_root x hx h).le

lemma TI.up_proc (hT : TI g root P A) {x c : Nat} (hx : proc A x) (h : Up A x c) : proc A c := by
  induction h with
  | refl => exact hx
  | tail _ hbc ih => rw [← hbc]; exact hT.hpp _ ih

lemma TI.up_lt (hT : TI g root P A) {x c : Nat} (hx : proc A x) (h : Up A x c) :
    x = c ∨ pnum P x < pnum P c := by
  induction h with
  | refl => exact Or.inl rfl
  | @tail c' c hxc' hbc ih =>
    have hc' := hT.up_proc hx hxc'
    by_cases hr : c' = root
    · have : c = c' := by rw [← hbc, hr, hT.par_root]
      rw [this]; exact ih
    · have := hT.hplt c' hc' hr
      rw [hbc] at this
      rcases ih with ih | ih
      · rw [ih]; exact Or.inr this
      · exact Or.inr (lt_trans ih this)

lemma TI.up_le (hT : TI g root P A) {x c : Nat} (hx : proc A x) (h : Up A x c) :
    pnum P x ≤ pnum P c := by
  rcases hT.up_lt hx h with h | h
  · rw [h]
  · exact h.le

lemma TI.up_antisymm (hT : TI g root P A) {x c : Nat} (hx : proc A x) (h : Up A x c)
    (h' : Up A c x) : x = c := by
  rcases hT.up_lt hx h with h1 | h1
  · exact h1
  · rcases hT.up_lt (hT.up_proc hx h) h' with h2 | h2
    · exact h2.symm
    · omega

lemma up_head {x c : Nat} (h : Up A x c) : x = c ∨ Up A (par A x) c := by
  rcases Relation.ReflTransGen.cases_head h with h | ⟨y, hy, h⟩
  · exact Or.inl h
  · rw [← hy] at h; exact Or.inr h

lemma up_step (x : Nat) : Up A x (par A x) := Relation.ReflTransGen.single rfl

lemma up_total {x c d : Nat} (h1 : Up A x c) (h2 : Up A x d) : Up A c d ∨ Up A d c :=
  Relation.ReflTransGen.total_of_right_unique (fun _ _ _ h h' => h.symm.trans h') h1 h2

lemma TI.up_root_eq (hT : TI g root P A) {c : Nat} (h : Up A root c) : c = root := by
  induction h with
  | refl => rfl
  | tail _ hbc ih => rw [← hbc, ih, hT.par_root]

lemma TI.up_root (hT : TI g root P A) (hP : PO g root P π) :
    ∀ (d x : Nat), proc A x → pnum P root - pnum P x ≤ d → Up A x root := by
  intro d
  induction d with
  | zero =>
    intro x hx hd
    by_cases hr : x = root
    · rw [hr]; exact Relation.ReflTransGen.refl
    · have := hP.lt_root x (hT.hpath x hx) hr; omega
  | succ d ih =>
    intro x hx hd
    by_cases hr : x = root
    · rw [hr]; exact Relation.ReflTransGen.refl
    · have h1 := hT.hplt x hx hr
      exact Relation.ReflTransGen.head rfl (ih (par A x) (hT.hpp x hx) (by omega))

lemma TI.up_root' (hT : TI g root P A) (hP : PO g root P π) {x : Nat} (hx : proc A x) :
    Up A x root := hT.up_root hP _ x hx le_rfl

/-! ### `intersect` computes the nearest common ancestor -/

lemma intersect_spec (hT : TI g root P A) (hP : PO g root P π) :
    ∀ (f b1 b2 : Nat), proc A b1 → proc A b2 →
      (pnum P root - pnum P b1) + (pnum P root - pnum P b2) < f →
      Up A b1 (intersect A P f b1 b2) ∧ Up A b2 (intersect A P f b1 b2) ∧
        ∀ c, Up A b1 c → Up A b2 c → Up A (intersect A P f b1 b2) c := by
  intro f
  induction f with
  | zero => intro b1 b2 _ _ h; omega
  | succ f ih =>
    intro b1 b2 h1 h2 hf
    unfold intersect
    by_cases he : b1 = b2
    · subst he
      simp only [beq_self_eq_true, if_true]
      exact ⟨Relation.ReflTransGen.refl, Relation.ReflTransGen.refl, fun c hc _ => hc⟩
    · have hb : (b1 == b2) = false := by simpa using he
      simp only [hb, Bool.false_eq_true, if_false]
      have hp1 := hT.hpath b1 h1
      have hp2 := hT.hpath b2 h2
      have hl1 := hP.le_root hp1
      have hl2 := hP.le_root hp2
      have e1 : (A.getD b1 0).toNat = par A b1 := by
        unfold par; rw [getD_irrel A b1 0 (-1) (proc_lt h1)]
      have e2 : (A.getD b2 0).toNat = par A b2 := by
        unfold par; rw [getD_irrel A b2 0 (-1) (proc_lt h2)]
      by_cases hlt : P.getD b1 0 < P.getD b2 0
      · rw [if_pos hlt, e1]
        have hlt' : pnum P b1 < pnum P b2 := hlt
        have hr1 : b1 ≠ root := by rintro rfl; omega
        have hpl := hT.hplt b1 h1 hr1
        obtain ⟨i1, i2, i3⟩ := ih (par A b1) b2 (hT.hpp b1 h1) h2 (by omega)
        refine ⟨Relation.ReflTransGen.head rfl i1, i2, fun c hc1 hc2 => ?_⟩
        rcases up_head hc1 with hc | hc
        · subst hc
          have := hT.up_le h2 hc2
          omega
        · exact i3 c hc hc2
      · rw [if_neg hlt, e2]
        have hlt' : pnum P b2 < pnum P b1 := by
          have h3 : ¬ pnum P b1 < pnum P b2 := hlt
          have h4 : pnum P b1 ≠ pnum P b2 := fun e => he (hP.inj b1 b2 hp1 hp2 e)
          omega
        have hr2 : b2 ≠ root := by rintro rfl; omega
        have hpl := hT.hplt b2 h2 hr2
        obtain ⟨i1, i2, i3⟩ := ih b1 (par A b2) h1 (hT.hpp b2 h2) (by omega)
        refine ⟨i1, Relation.ReflTransGen.head rfl i2, fun c hc1 hc2 => ?_⟩
        rcases up_head hc2 with hc | hc
        · subst hc
          have := hT.up_le h1 hc1
          omega
        · exact i3 c hc1 hc

/-! ### the fold over predecessors computes the nearest common ancestor of the processed ones -/

/-- one step of the fold computing the new parent -/
def niStep (g : G) (P : Array Nat) (A : Array Int) (cur : Int) (p : Nat) : Int :=
  if A.getD p (-1) == -1 then cur
  else if cur == -1 then (p : Int)
  else ((intersect A P (2 * g.size + 2) p cur.toNat : Nat) : Int)

/-- the new parent of a node with predecessor list `ps` -/
def newIdom (g : G) (P : Array Nat) (A : Array Int) (ps : List Nat) : Int :=
  ps.foldl (niStep g P A) (-1)

lemma ni_fold (hT : TI g root P A) (hP : PO g root P π) :
    ∀ (ps : List Nat) (cur : Int), (cur = -1 ∨ ∃ m : Nat, cur = (m : Int) ∧ proc A m) →
      ((ps.foldl (niStep g P A) cur = -1 ∨
          ∃ m : Nat, ps.foldl (niStep g P A) cur = (m : Int) ∧ proc A m)) ∧
      (ps.foldl (niStep g P A) cur = -1 ↔ (cur = -1 ∧ ∀ p ∈ ps, ¬ proc A p)) ∧
      ∀ m : Nat, ps.foldl (niStep g P A) cur = (m : Int) →
        ∀ c, Up A m c ↔ ((∀ m0 : Nat, cur = (m0 : Int) → Up A m0 c) ∧
          ∀ p ∈ ps, proc A p → Up A p c) := by
  intro ps
  induction ps with
  | nil =>
    intro cur hcur
    refine ⟨hcur, by simp, fun m hm c => ?_⟩
    simp only [List.foldl_nil] at hm
    constructor
    · intro h
      refine ⟨fun m0 h0 => ?_, by simp⟩
      have : m0 = m := by omega
      rw [this]; exact h
    · intro h; exact h.1 m hm
  | cons p ps ih =>
    intro cur hcur
    simp only [List.foldl_cons]
    by_cases hp : proc A p
    · have hpb : (A.getD p (-1) == -1) = false := by simpa [proc] using hp
      rcases hcur with hc | ⟨m0, hm0, hpm0⟩
      · have hst : niStep g P A cur p = (p : Int) := by
          unfold niStep; rw [hpb, hc]; simp
        rw [hst]
        obtain ⟨i1, i2, i3⟩ := ih (p : Int) (Or.inr ⟨p, rfl, hp⟩)
        refine ⟨i1, ?_, fun m hm c => ?_⟩
        · rw [i2]
          constructor
          · intro h; omega
          · intro h; exact absurd hp (h.2 p (by simp))
        · rw [i3 m hm c]
          constructor
          · rintro ⟨h1, h2⟩
            refine ⟨fun m0 h0 => by omega, fun q hq hqp => ?_⟩
            rcases List.mem_cons.1 hq with rfl | hq
            · exact h1 _ rfl
            · exact h2 q hq hqp
          · rintro ⟨_, h2⟩
            refine ⟨fun m0 h0 => ?_, fun q hq hqp => h2 q (by simp [hq]) hqp⟩
            have : m0 = p := by omega
            rw [this]; exact h2 p (by simp) hp
      · have hcb : (cur == -1) = false := by
          rw [hm0]; simp only [beq_eq_false_iff_ne]; omega
        have hst : niStep g P A cur p =
            ((intersect A P (2 * g.size + 2) p m0 : Nat) : Int) := by
          unfold niStep; rw [hpb, hcb]; simp [hm0]
        have hfuel : (pnum P root - pnum P p) + (pnum P root - pnum P m0) < 2 * g.size + 2 := by
          have := hP.root_lt; omega
        obtain ⟨j1, j2, j3⟩ := intersect_spec hT hP _ p m0 hp hpm0 hfuel
        rw [hst]
        set i := intersect A P (2 * g.size + 2) p m0 with hi
        have hpi : proc A i := hT.up_proc hp j1
        obtain ⟨i1, i2, i3⟩ := ih (i : Int) (Or.inr ⟨i, rfl, hpi⟩)
        refine ⟨i1, ?_, fun m hm c => ?_⟩
        · rw [i2]
          constructor
          · intro h; omega
          · intro h; omega
        · rw [i3 m hm c]
          constructor
          · rintro ⟨h1, h2⟩
            have hic : Up A i c := h1 i rfl
            refine ⟨fun m1 h1' => ?_, fun q hq hqp => ?_⟩
            · have : m1 = m0 := by omega
              rw [this]; exact j2.trans hic
            · rcases List.mem_cons.1 hq with rfl | hq
              · exact j1.trans hic
              · exact h2 q hq hqp
          · rintro ⟨h1, h2⟩
            refine ⟨fun m1 h1' => ?_, fun q hq hqp => h2 q (by simp [hq]) hqp⟩
            have : m1 = i := by omega
            rw [this]
            exact j3 c (h2 p (by simp) hp) (h1 m0 hm0)
    · have hpb : (A.getD p (-1) == -1) = true := by
        unfold proc at hp; simpa using hp
      have hst : niStep g P A cur p = cur := by unfold niStep; rw [hpb]; simp
      rw [hst]
      obtain ⟨i1, i2, i3⟩ := ih cur hcur
      refine ⟨i1, ?_, fun m hm c => ?_⟩
      · rw [i2]
        constructor
        · rintro ⟨h1, h2⟩
          refine ⟨h1, fun q hq => ?_⟩
          rcases List.mem_cons.1 hq with rfl | hq
          · exact hp
          · exact h2 q hq
        · rintro ⟨h1, h2⟩
          exact ⟨h1, fun q hq => h2 q (by simp [hq])⟩
      · rw [i3 m hm c]
        constructor
        · rintro ⟨h1, h2⟩
          refine ⟨h1, fun q hq hqp => ?_⟩
          rcases List.mem_cons.1 hq with rfl | hq
          · exact absurd hqp hp
          · exact h2 q hq hqp
        · rintro ⟨h1, h2⟩
          exact ⟨h1, fun q hq hqp => h2 q (by simp [hq]) hqp⟩

lemma newIdom_spec (hT : TI g root P A) (hP : PO g root P π) (ps : List Nat) :
    (newIdom g P A ps = -1 ∨ ∃ m : Nat, newIdom g P A ps = (m : Int) ∧ proc A m) ∧
    (newIdom g P A ps = -1 ↔ ∀ p ∈ ps, ¬ proc A p) ∧
    ∀ m : Nat, newIdom g P A ps = (m : Int) →
      ∀ c, Up A m c ↔ ∀ p ∈ ps, proc A p → Up A p c := by
  obtain ⟨i1, i2, i3⟩ := ni_fold hT hP ps (-1) (Or.inl rfl)
  refine ⟨i1, ?_, fun m hm c => ?_⟩
  · unfold newIdom; rw [i2]; simp
  · unfold newIdom at hm
    rw [i3 m hm c]
    constructor
    · exact fun h => h.2
    · exact fun h => ⟨fun m0 h0 => by omega, h⟩

end

/-! ## effect of one parent update on the chains -/

/-- set the parent of `b` to `a` -/
def upd (A : Array Int) (b a : Nat) : Array Int := A.setIfInBounds b (a : Int)

lemma upd_getD (A : Array Int) (b a x : Nat) (hb : b < A.size) :
    (upd A b a).getD x (-1) = if x = b then (a : Int) else A.getD x (-1) := by
  unfold upd
  simp only [Array.getD_eq_getD_getElem?, Array.getElem?_setIfInBounds]
  by_cases h : b = x
  · subst h; simp [hb]
  · have h' : ¬ x = b := fun e => h e.symm
    simp [h, h']

lemma upd_proc (A : Array Int) (b a x : Nat) (hb : b < A.size) :
    proc (upd A b a) x ↔ (x = b ∨ proc A x) := by
  unfold proc
  rw [upd_getD A b a x hb]
  by_cases h : x = b
  · simp [h]
  · simp [h]

lemma upd_par (A : Array Int) (b a x : Nat) (hb : b < A.size) :
    par (upd A b a) x = if x = b then a else par A x := by
  unfold par
  rw [upd_getD A b a x hb]
  by_cases h : x = b <;> simp [h]

/-- hypotheses of an update step -/
structure UpdH (g : G) (root : Nat) (P : Array Nat) (π : Nat → Nat) (A : Array Int) (b a : Nat) :
    Prop where
  hT : TI g root P A
  hP : PO g root P π
  hb : Path g root b
  hbn : b < g.size
  hbr : b ≠ root
  ha : proc A a
  hlt : pnum P b < pnum P a
  hM : proc A b → Up A b a

section
variable {g : G} {root : Nat} {P : Array Nat} {π : Nat → Nat} {A : Array Int} {b a : Nat}

lemma UpdH.bsz (h : UpdH g root P π A b a) : b < A.size := by rw [h.hT.hsize]; exact h.hbn

lemma UpdH.par_b (h : UpdH g root P π A b a) : par (upd A b a) b = a := by
  rw [upd_par A b a b h.bsz, if_pos rfl]

lemma UpdH.par_ne (h : UpdH g root P π A b a) {x : Nat} (hx : x ≠ b) :
    par (upd A b a) x = par A x := by
  rw [upd_par A b a x h.bsz, if_neg hx]

lemma UpdH.not_up_ab (h : UpdH g root P π A b a) : ¬ Up A a b := by
  intro hu
  have := h.hT.up_le h.ha hu
  have := h.hlt
  omega

lemma UpdH.ti (h : UpdH g root P π A b a) : TI g root P (upd A b a) := by
  have hb := h.bsz
  refine ⟨?_, ?_, ?_, ?_, ?_, ?_⟩
  · unfold upd; rw [Array.size_setIfInBounds]; exact h.hT.hsize
  · rw [upd_getD A b a root hb, if_neg (fun e => h.hbr e.symm)]; exact h.hT.hroot
  · intro x hx
    rcases (upd_proc A b a x hb).1 hx with rfl | hx
    · exact h.hb
    · exact h.hT.hpath x hx
  · intro x hx
    rw [upd_getD A b a x hb, upd_par A b a x hb]
    by_cases hxb : x = b
    · simp [hxb]
    · rw [if_neg hxb, if_neg hxb]
      rcases (upd_proc A b a x hb).1 hx with h1 | h1
      · exact absurd h1 hxb
      · exact h.hT.hnat x h1
  · intro x hx
    rw [upd_par A b a x hb, upd_proc A b a _ hb]
    by_cases hxb : x = b
    · rw [if_pos hxb]; exact Or.inr h.ha
    · rw [if_neg hxb]
      rcases (upd_proc A b a x hb).1 hx with h1 | h1
      · exact absurd h1 hxb
      · exact Or.inr (h.hT.hpp x h1)
  · intro x hx hxr
    rw [upd_par A b a x hb]
    by_cases hxb : x = b
    · rw [if_pos hxb, hxb]; exact h.hlt
    · rw [if_neg hxb]
      rcases (upd_proc A b a x hb).1 hx with h1 | h1
      · exact absurd h1 hxb
      · exact h.hT.hplt x h1 hxr

/-- chains of nodes not below `b` are unchanged (→) -/
lemma UpdH.f1a (h : UpdH g root P π A b a) {y c : Nat} (hu : Up (upd A b a) y c) :
    ¬ Up A y b → Up A y c := by
  induction hu using Relation.ReflTransGen.head_induction_on with
  | refl => intro _; exact Relation.ReflTransGen.refl
  | @head y y' hyy' _ ih =>
    intro hn
    have hyb : y ≠ b := by rintro rfl; exact hn Relation.ReflTransGen.refl
    rw [h.par_ne hyb] at hyy'
    have hn' : ¬ Up A y' b := fun h' => hn (Relation.ReflTransGen.head hyy' h')
    exact Relation.ReflTransGen.head hyy' (ih hn')

/-- chains of nodes not below `b` are unchanged (←) -/
lemma UpdH.f1b (h : UpdH g root P π A b a) {y c : Nat} (hu : Up A y c) :
    ¬ Up A y b → Up (upd A b a) y c := by
  induction hu using Relation.ReflTransGen.head_induction_on with
  | refl => intro _; exact Relation.ReflTransGen.refl
  | @head y y' hyy' _ ih =>
    intro hn
    have hyb : y ≠ b := by rintro rfl; exact hn Relation.ReflTransGen.refl
    have hn' : ¬ Up A y' b := fun h' => hn (Relation.ReflTransGen.head hyy' h')
    have : par (upd A b a) y = y' := by rw [h.par_ne hyb]; exact hyy'
    exact Relation.ReflTransGen.head this (ih hn')

lemma UpdH.f1 (h : UpdH g root P π A b a) {y c : Nat} (hn : ¬ Up A y b) :
    Up (upd A b a) y c ↔ Up A y c :=
  ⟨fun hu => h.f1a hu hn, fun hu => h.f1b hu hn⟩

/-- the new chain of `b` -/
lemma UpdH.f2 (h : UpdH g root P π A b a) {c : Nat} :
    Up (upd A b a) b c ↔ (c = b ∨ Up A a c) := by
  constructor
  · intro hu
    rcases up_head hu with h1 | h1
    · exact Or.inl h1.symm
    · rw [h.par_b] at h1
      exact Or.inr ((h.f1 h.not_up_ab).1 h1)
  · rintro (rfl | h1)
    · exact Relation.ReflTransGen.refl
    · exact Relation.ReflTransGen.head h.par_b ((h.f1 h.not_up_ab).2 h1)

/-- the segment from `x` up to `b` is kept -/
lemma UpdH.f3 (h : UpdH g root P π A b a) {x c : Nat} (hu : Up A x c) :
    proc A x → Up A c b → Up (upd A b a) x c := by
  induction hu using Relation.ReflTransGen.head_induction_on with
  | refl => intro _ _; exact Relation.ReflTransGen.refl
  | @head y y' hyy' hy'c ih =>
    intro hy hcb
    by_cases hyb : y = b
    · subst hyb
      have : y = c := h.hT.up_antisymm hy (Relation.ReflTransGen.head hyy' hy'c) hcb
      subst this
      exact Relation.ReflTransGen.refl
    · have : par (upd A b a) y = y' := by rw [h.par_ne hyb]; exact hyy'
      have hy' : proc A y' := by rw [← hyy']; exact h.hT.hpp y hy
      exact Relation.ReflTransGen.head this (ih hy' hcb)

/-- nodes below `b` inherit the new chain of `b` -/
lemma UpdH.f3' (h : UpdH g root P π A b a) {x c : Nat} (hx : proc A x) (hxb : Up A x b)
    (hac : Up A a c) : Up (upd A b a) x c :=
  (h.f3 hxb hx Relation.ReflTransGen.refl).trans (h.f2.2 (Or.inr hac))

/-- chains only shrink -/
lemma UpdH.f4 (h : UpdH g root P π A b a) {x c : Nat} (hu : Up (upd A b a) x c) :
    proc A x → Up A x c := by
  induction hu using Relation.ReflTransGen.head_induction_on with
  | refl => intro _; exact Relation.ReflTransGen.refl
  | @head y y' hyy' _ ih =>
    intro hy
    by_cases hyb : y = b
    · subst hyb
      rw [h.par_b] at hyy'
      subst hyy'
      exact (h.hM hy).trans (ih h.ha)
    · rw [h.par_ne hyb] at hyy'
      have hy' : proc A y' := by rw [← hyy']; exact h.hT.hpp y hy
      exact Relation.ReflTransGen.head hyy' (ih hy')

end

/-! ## the invariant of the iteration -/

/-- chain of chosen forward predecessors -/
def PUp (root : Nat) (π : Nat → Nat) : Nat → Nat → Prop :=
  Relation.ReflTransGen (fun u v => u ≠ root ∧ π u = v)

lemma PO.pup {g : G} {root : Nat} {P : Array Nat} {π : Nat → Nat} (hP : PO g root P π)
    {u c : Nat} (h : PUp root π u c) (hu : Path g root u) :
    Path g root c ∧ pnum P u ≤ pnum P c := by
  induction h with
  | refl => exact ⟨hu, le_rfl⟩
  | tail _ hbc ih =>
    obtain ⟨h1, h2⟩ := ih
    rw [← hbc.2]
    exact ⟨hP.par_path _ h1 hbc.1, le_trans h2 (hP.par_lt _ h1 hbc.1).le⟩

lemma isWalk_snoc (g : G) : ∀ (w : List Nat) (a b : Nat), IsWalk g a b w → 2 ≤ w.length →
    ∃ w' p, w = w' ++ [b] ∧ IsWalk g a p w' ∧ Edge g p b := by
  intro w
  induction w with
  | nil => intro a b h; exact absurd h (not_isWalk_nil g _ _)
  | cons z r ih =>
    intro a b h hl
    cases r with
    | nil => simp at hl
    | cons y r =>
      obtain ⟨rfl, he, hw⟩ := (isWalk_cons_cons g a b z y r).1 h
      cases r with
      | nil =>
        obtain ⟨_, rfl⟩ := (isWalk_singleton g y b y).1 hw
        exact ⟨[z], z, rfl, (isWalk_singleton g z z z).2 ⟨rfl, rfl⟩, he⟩
      | cons y' r =>
        obtain ⟨w', p, e, hw', hp⟩ := ih y b hw (by simp)
        cases w' with
        | nil => simp at e
        | cons y2 r2 =>
          have hy2 : y2 = y := by
            have := hw'.1; simpa using this
          refine ⟨z :: y2 :: r2, p, by rw [List.cons_append, ← e], ?_, hp⟩
          rw [isWalk_cons_cons]
          exact ⟨rfl, hy2 ▸ he, hy2 ▸ hw'⟩

/-- the loop invariant: pass number `k`, nodes with post-order number `≥ θ` already treated -/
structure Inv (g : G) (root : Nat) (P : Array Nat) (π : Nat → Nat) (k θ : Nat) (A : Array Int) :
    Prop where
  ti : TI g root P A
  r1 : ∀ x, Path g root x → (θ ≤ pnum P x ∨ 2 ≤ k) → proc A x
  r2 : ∀ x, proc A x → x ≠ root → proc A (π x)
  anc : ∀ x c, proc A x → Up A x c → PUp root π x c
  ca : ∀ b, proc A b → b ≠ root → ∀ c, (∀ p, Edge g p b → proc A p → Up A p c) →
    pnum P (par A b) ≤ pnum P c
  nest : ∀ u, Path g root u → θ ≤ pnum P u → u ≠ root → ∀ c, Up A u c → c = u ∨ Up A (π u) c
  l1 : ∀ x d, proc A x → Dom g root d x → Up A x d
  l2 : ∀ x c d, proc A x → Up A x c → Up A c d → Dom g root d x → Dom g root d c
  u : ∀ x, proc A x → ∀ w, IsWalk g root x w →
    ((w.length ≤ k ∧ θ ≤ pnum P x) ∨ w.length + 1 ≤ k) → ∀ c, Up A x c → c ∈ w

section
variable {g : G} {root : Nat} {P : Array Nat} {π : Nat → Nat} {A : Array Int} {k θ : Nat}

lemma Inv.nestPath (hI : Inv g root P π k θ A) (hP : PO g root P π) {u c : Nat}
    (h : PUp root π u c) :
    Path g root u → θ ≤ pnum P u → ∀ e, Up A u e → pnum P e < pnum P c ∨ Up A c e := by
  induction h using Relation.ReflTransGen.head_induction_on with
  | refl => intro _ _ e he; exact Or.inr he
  | @head u u' huu' hu'c ih =>
    intro hu hθ e he
    obtain ⟨hur, hπ⟩ := huu'
    have hlt := hP.par_lt u hu hur
    have hpp := hP.par_path u hu hur
    rw [hπ] at hlt hpp
    rcases hI.nest u hu hθ hur e he with h1 | h1
    · left
      rw [h1]
      exact lt_of_lt_of_le hlt (hP.pup hu'c hpp).2
    · rw [hπ] at h1
      exact ih hpp (by omega) e h1

/-- the value computed for `b` and the hypotheses of the update -/
lemma Inv.step_updH (hwf : WF g) (hr : root < g.size) (hP : PO g root P π)
    (hI : Inv g root P π k θ A) {b : Nat} (hb : Path g root b) (hbr : b ≠ root)
    (hθ : pnum P b + 1 = θ) :
    ∃ a : Nat, newIdom g P A ((transpose g).getD b []) = (a : Int) ∧
      (∀ c, Up A a c ↔ ∀ p, Edge g p b → proc A p → Up A p c) ∧
      Up A (π b) a ∧ UpdH g root P π A b a := by
  have hbn := path_lt g hwf root b hr hb
  have hπe := hP.par_edge b hb hbr
  have hπp := hP.par_path b hb hbr
  have hπl := hP.par_lt b hb hbr
  have hπproc : proc A (π b) := hI.r1 _ hπp (Or.inl (by omega))
  obtain ⟨s1, s2, s3⟩ := newIdom_spec hI.ti hP ((transpose g).getD b [])
  rcases s1 with s1 | ⟨a, ha, hpa⟩
  · exfalso
    exact (s2.1 s1) (π b) ((mem_transpose g _ b hbn).2 hπe) hπproc
  · have hspec : ∀ c, Up A a c ↔ ∀ p, Edge g p b → proc A p → Up A p c := by
      intro c
      rw [s3 a ha c]
      constructor
      · intro h p hp; exact h p ((mem_transpose g p b hbn).2 hp)
      · intro h p hp; exact h p ((mem_transpose g p b hbn).1 hp)
    have hπa : Up A (π b) a := (hspec a).1 Relation.ReflTransGen.refl _ hπe hπproc
    have hlt : pnum P b < pnum P a := lt_of_lt_of_le hπl (hI.ti.up_le hπproc hπa)
    refine ⟨a, ha, hspec, hπa, ⟨hI.ti, hP, hb, hbn, hbr, hpa, hlt, ?_⟩⟩
    intro hpb
    have h1 : pnum P (par A b) ≤ pnum P a := hI.ca b hpb hbr a ((hspec a).1 Relation.ReflTransGen.refl)
    have h2 : PUp root π b (par A b) := hI.anc b _ hpb (up_step b)
    have h3 : PUp root π (π b) (par A b) := by
      rcases Relation.ReflTransGen.cases_head h2 with h | ⟨y, hy, h⟩
      · exfalso
        have := hI.ti.hplt b hpb hbr
        rw [← h] at this; omega
      · rw [← hy.2] at h; exact h
    rcases hI.nestPath hP h3 hπp (by omega) a hπa with h4 | h4
    · omega
    · exact Relation.ReflTransGen.head rfl h4

/-- the invariant after treating `b` -/
lemma Inv.step_inv (hP : PO g root P π)
    (hI : Inv g root P π k θ A) {b a : Nat} (hb : Path g root b) (hbr : b ≠ root)
    (hθ : pnum P b + 1 = θ)
    (hspec : ∀ c, Up A a c ↔ ∀ p, Edge g p b → proc A p → Up A p c)
    (hπa : Up A (π b) a) (hU : UpdH g root P π A b a) :
    Inv g root P π k (θ - 1) (upd A b a) := by
  have hbs := hU.bsz
  have hπe := hP.par_edge b hb hbr
  have hπp := hP.par_path b hb hbr
  have hπl := hP.par_lt b hb hbr
  have hπproc : proc A (π b) := hI.r1 _ hπp (Or.inl (by omega))
  have hproc' : ∀ x, proc (upd A b a) x ↔ (x = b ∨ proc A x) := fun x => upd_proc A b a x hbs
  -- a node with the same number as `b` is `b`
  have hpn : ∀ x, Path g root x → x ≠ b → θ - 1 ≤ pnum P x → θ ≤ pnum P x := by
    intro x hx hxb hle
    have : pnum P x ≠ pnum P b := fun e => hxb (hP.inj x b hx hb e)
    omega
  -- nodes with larger number are not below `b`
  have hnb : ∀ x, proc A x → pnum P b < pnum P x → ¬ Up A x b := by
    intro x hx hlt hu
    have := hI.ti.up_le hx hu; omega
  -- dominators of `b` are above the new parent
  have hLb : ∀ d, Dom g root d b → d ≠ b → Up A a d := by
    intro d hd hdb
    rw [hspec]
    intro p hp hpp
    exact hI.l1 p d hpp (hd.pred hdb (hI.ti.hpath p hpp) hp)
  refine ⟨hU.ti, ?_, ?_, ?_, ?_, ?_, ?_, ?_, ?_⟩
  · -- r1
    intro x hx hc
    rw [hproc']
    by_cases hxb : x = b
    · exact Or.inl hxb
    · right
      rcases hc with hc | hc
      · exact hI.r1 x hx (Or.inl (hpn x hx hxb hc))
      · exact hI.r1 x hx (Or.inr hc)
  · -- r2
    intro x hx hxr
    rw [hproc'] at hx ⊢
    rcases hx with rfl | hx
    · exact Or.inr hπproc
    · exact Or.inr (hI.r2 x hx hxr)
  · -- anc
    intro x c hx hu
    by_cases hpx : proc A x
    · exact hI.anc x c hpx (hU.f4 hu hpx)
    · have hxb : x = b := by
        rcases (hproc' x).1 hx with h | h
        · exact h
        · exact absurd h hpx
      subst hxb
      rcases hU.f2.1 hu with rfl | h
      · exact Relation.ReflTransGen.refl
      · have h1 : PUp root π x (π x) := Relation.ReflTransGen.single ⟨hbr, rfl⟩
        exact h1.trans ((hI.anc _ _ hπproc hπa).trans (hI.anc _ _ hU.ha h))
  · -- ca
    intro b' hb' hb'r c hprem
    by_cases hbb : b' = b
    · subst hbb
      rw [hU.par_b]
      have : Up A a c := by
        rw [hspec]
        intro p hp hpp
        exact hU.f4 (hprem p hp ((hproc' p).2 (Or.inr hpp))) hpp
      exact hI.ti.up_le hU.ha this
    · rw [hU.par_ne hbb]
      have hpb' : proc A b' := by
        rcases (hproc' b').1 hb' with h | h
        · exact absurd h hbb
        · exact h
      apply hI.ca b' hpb' hb'r c
      intro p hp hpp
      exact hU.f4 (hprem p hp ((hproc' p).2 (Or.inr hpp))) hpp
  · -- nest
    intro u hu hθu hur c huc
    by_cases hub : u = b
    · subst hub
      rcases hU.f2.1 huc with h | h
      · exact Or.inl h
      · right
        exact (hU.f1 (hnb _ hπproc hπl)).2 (hπa.trans h)
    · have hθu' := hpn u hu hub hθu
      have hpu : proc A u := hI.r1 u hu (Or.inl hθu')
      have hltu : pnum P b < pnum P u := by omega
      have huc' : Up A u c := (hU.f1 (hnb u hpu hltu)).1 huc
      rcases hI.nest u hu hθu' hur c huc' with h | h
      · exact Or.inl h
      · right
        have hπu := hP.par_lt u hu hur
        have hπup : proc A (π u) := hI.r2 u hpu hur
        exact (hU.f1 (hnb _ hπup (by omega))).2 h
  · -- l1
    intro x d hx hd
    by_cases hxb : x = b
    · subst hxb
      by_cases hdb : d = x
      · rw [hdb]; exact Relation.ReflTransGen.refl
      · exact hU.f2.2 (Or.inr (hLb d hd hdb))
    · have hpx : proc A x := by
        rcases (hproc' x).1 hx with h | h
        · exact absurd h hxb
        · exact h
      have hxd := hI.l1 x d hpx hd
      by_cases hxub : Up A x b
      · rcases up_total hxd hxub with h | h
        · exact hU.f3 hxd hpx h
        · by_cases hdb : d = b
          · rw [hdb]; exact hU.f3 hxub hpx Relation.ReflTransGen.refl
          · have hdb' : Dom g root d b := hI.l2 x b d hpx hxub h hd
            exact hU.f3' hpx hxub (hLb d hdb' hdb)
      · exact (hU.f1 hxub).2 hxd
  · -- l2
    intro x c d hx hxc hcd hd
    by_cases hpx : proc A x
    · have h1 := hU.f4 hxc hpx
      have hpc := hI.ti.up_proc hpx h1
      exact hI.l2 x c d hpx h1 (hU.f4 hcd hpc) hd
    · have hxb : x = b := by
        rcases (hproc' x).1 hx with h | h
        · exact h
        · exact absurd h hpx
      subst hxb
      rcases hU.f2.1 hxc with rfl | h
      · exact hd
      · have hpc := hI.ti.up_proc hU.ha h
        have h2 := hU.f4 hcd hpc
        have hpd := hI.ti.up_proc hpc h2
        have hdx : d ≠ x := by rintro rfl; exact hpx hpd
        have hdπ : Dom g root d (π x) := hd.pred hdx hπp hπe
        exact hI.l2 (π x) c d hπproc (hπa.trans h) h2 hdπ
  · -- u
    intro x hx w hw hc c hxc
    by_cases hxb : x = b
    · subst hxb
      rcases hU.f2.1 hxc with rfl | h
      · exact hw.last_mem
      · have hlen : w.length ≤ k := by
          rcases hc with hc | hc
          · exact hc.1
          · omega
        have h2 : 2 ≤ w.length := by
          match w, hw with
          | [], hw => exact absurd hw (not_isWalk_nil g _ _)
          | [z], hw =>
            obtain ⟨h1, h2⟩ := (isWalk_singleton g root x z).1 hw
            exact absurd (h2.symm.trans h1) hbr
          | _ :: _ :: _, _ => simp
        obtain ⟨w', p, e, hw', hpe⟩ := isWalk_snoc g w root x hw h2
        have hpp : Path g root p := path_of_walk g w' root p hw'
        have hprocp : proc A p := hI.r1 p hpp (Or.inr (by omega))
        have hlen' : w'.length + 1 = w.length := by rw [e]; simp
        have := hI.u p hprocp w' hw' (Or.inr (by omega)) c
          (((hspec a).1 Relation.ReflTransGen.refl p hpe hprocp).trans h)
        rw [e]; exact List.mem_append_left _ this
    · have hpx : proc A x := by
        rcases (hproc' x).1 hx with h | h
        · exact absurd h hxb
        · exact h
      apply hI.u x hpx w hw ?_ c (hU.f4 hxc hpx)
      rcases hc with hc | hc
      · exact Or.inl ⟨hc.1, hpn x (hI.ti.hpath x hpx) hxb hc.2⟩
      · exact Or.inr hc

end

/-! ## walks: members are reachable; shortening to a duplicate-free walk -/

lemma walk_mem_path (g : G) (root : Nat) : ∀ (w : List Nat) (a b : Nat), Path g root a →
    IsWalk g a b w → ∀ v ∈ w, Path g root v := by
  intro w
  induction w with
  | nil => intro a b _ h; exact absurd h (not_isWalk_nil g _ _)
  | cons z r ih =>
    intro a b ha h v hv
    cases r with
    | nil =>
      obtain ⟨rfl, _⟩ := (isWalk_singleton g a b z).1 h
      simp only [List.mem_singleton] at hv
      rw [hv]; exact ha
    | cons y r =>
      obtain ⟨rfl, he, hw⟩ := (isWalk_cons_cons g a b z y r).1 h
      rcases List.mem_cons.1 hv with rfl | hv
      · exact ha
      · exact ih y b (Relation.ReflTransGen.tail ha he) hw v hv

lemma walk_suffix (g : G) : ∀ (w : List Nat) (y b a : Nat), IsWalk g y b w → a ∈ w →
    ∃ q, IsWalk g a b q ∧ q <:+ w := by
  intro w
  induction w with
  | nil => intro y b a h; exact absurd h (not_isWalk_nil g _ _)
  | cons z r ih =>
    intro y b a h ha
    by_cases haz : a = z
    · have : z = y := by have := h.1; simpa using this
      refine ⟨z :: r, ?_, List.suffix_refl _⟩
      rw [haz, this]; rw [this] at h; exact h
    · have har : a ∈ r := by
        rcases List.mem_cons.1 ha with h1 | h1
        · exact absurd h1 haz
        · exact h1
      cases r with
      | nil => simp at har
      | cons y' r' =>
        obtain ⟨_, _, hw⟩ := (isWalk_cons_cons g y b z y' r').1 h
        obtain ⟨q, hq, hs⟩ := ih y' b a hw har
        exact ⟨q, hq, hs.trans (List.suffix_cons _ _)⟩

lemma walk_shorten (g : G) : ∀ (w : List Nat) (a b : Nat), IsWalk g a b w →
    ∃ q, IsWalk g a b q ∧ q.Nodup ∧ q ⊆ w := by
  intro w
  induction w with
  | nil => intro a b h; exact absurd h (not_isWalk_nil g _ _)
  | cons z r ih =>
    intro a b h
    cases r with
    | nil => exact ⟨[z], h, by simp, List.Subset.refl _⟩
    | cons y r =>
      obtain ⟨rfl, he, hw⟩ := (isWalk_cons_cons g a b z y r).1 h
      obtain ⟨q', hq', hn', hs'⟩ := ih y b hw
      by_cases hz : z ∈ q'
      · obtain ⟨q, hq, hsuf⟩ := walk_suffix g q' y b z hq' hz
        refine ⟨q, hq, hn'.sublist hsuf.sublist, ?_⟩
        intro v hv
        exact List.mem_cons_of_mem _ (hs' (hsuf.subset hv))
      · cases q' with
        | nil => exact absurd hq' (not_isWalk_nil g _ _)
        | cons y2 r2 =>
          have hy2 : y2 = y := by have := hq'.1; simpa using this
          subst hy2
          refine ⟨z :: y2 :: r2, (isWalk_cons_cons g z b z y2 r2).2 ⟨rfl, he, hq'⟩,
            List.nodup_cons.2 ⟨hz, hn'⟩, ?_⟩
          intro v hv
          rcases List.mem_cons.1 hv with rfl | hv
          · simp
          · exact List.mem_cons_of_mem _ (hs' hv)

lemma nodup_length_le (l : List Nat) (n : Nat) (hn : l.Nodup) (hlt : ∀ v ∈ l, v < n) :
    l.length ≤ n := by
  classical
  rw [← List.toFinset_card_of_nodup hn, ← Finset.card_range n]
  apply Finset.card_le_card
  intro v hv
  simp only [List.mem_toFinset] at hv
  simpa using hlt v hv

section
variable {g : G} {root : Nat} {P : Array Nat} {π : Nat → Nat} {A : Array Int} {k θ : Nat}

/-- after enough passes every chain element is a true dominator -/
lemma Inv.correct (hwf : WF g) (hr : root < g.size) (hI : Inv g root P π k θ A)
    (hk : g.size + 1 ≤ k) : ∀ x c, proc A x → Up A x c → Dom g root c x := by
  intro x c hx hxc
  have hpx := hI.ti.hpath x hx
  have hpc := hI.ti.hpath c (hI.ti.up_proc hx hxc)
  by_contra hnd
  have h3 : ¬ (c = x ∨ root = c ∨ ¬ Av g c root x) := fun h => hnd ⟨hpx, hpc, h⟩
  simp only [not_or, not_not] at h3
  obtain ⟨w, hw, hcw⟩ := walk_of_av g c root x h3.2.2 h3.2.1
  obtain ⟨q, hq, hqn, hqs⟩ := walk_shorten g w root x hw
  have hlen : q.length ≤ g.size := nodup_length_le q g.size hqn (fun v hv =>
    path_lt g hwf root v hr (walk_mem_path g root q root x Relation.ReflTransGen.refl hq v hv))
  exact hcw (hqs (hI.u x hx q hq (Or.inr (by omega)) c hxc))

/-- from one pass to the next -/
lemma Inv.next (hP : PO g root P π) (hI : Inv g root P π k 0 A) :
    Inv g root P π (k + 1) (pnum P root) A := by
  refine ⟨hI.ti, ?_, hI.r2, hI.anc, hI.ca, ?_, hI.l1, hI.l2, ?_⟩
  · intro x hx _
    exact hI.r1 x hx (Or.inl (Nat.zero_le _))
  · intro u hu hθ hur
    have := hP.lt_root u hu hur
    omega
  · intro x hx w hw hc c hxc
    rcases hc with hc | hc
    · have hxr : x = root := by
        by_contra hne
        have := hP.lt_root x (hI.ti.hpath x hx) hne
        omega
      subst hxr
      rw [hI.ti.up_root_eq hxc]
      exact hw.head_mem
    · exact hI.u x hx w hw (Or.inl ⟨by omega, Nat.zero_le _⟩) c hxc

end

/-! ## one pass as a fold -/

/-- body of the loop of `chkPass` -/
def chkStep (g : G) (preds : List (List Nat)) (root : Nat) (P : Array Nat)
    (acc : Array Int × Bool) (b : Nat) : Array Int × Bool :=
  if b == root then acc else
    if acc.1.getD b (-1) != newIdom g P acc.1 (preds.getD b []) then
      (acc.1.setIfInBounds b (newIdom g P acc.1 (preds.getD b [])), true)
    else acc

lemma chkPass_eq (g : G) (preds : List (List Nat)) (root : Nat) (rpo : List Nat) (P : Array Nat)
    (A : Array Int) :
    chkPass g preds root rpo P A = rpo.foldl (chkStep g preds root P) (A, false) := by
  rfl

lemma chkIter_succ (g : G) (preds : List (List Nat)) (root : Nat) (rpo : List Nat) (P : Array Nat)
    (f : Nat) (A : Array Int) :
    chkIter g preds root rpo P (f + 1) A =
      if (chkPass g preds root rpo P A).2 then
        chkIter g preds root rpo P f (chkPass g preds root rpo P A).1
      else (chkPass g preds root rpo P A).1 := by
  rfl

lemma upd_same (A : Array Int) (b a : Nat) (h : A.getD b (-1) = (a : Int)) : upd A b a = A := by
  unfold upd
  apply Array.ext
  · exact Array.size_setIfInBounds
  · intro i h1 h2
    rw [Array.getElem_setIfInBounds h2]
    split_ifs with hbi
    · subst hbi
      rw [← h]
      simp [Array.getD_eq_getD_getElem?, h2]
    · rfl

/-- nodes in decreasing post-order number, consecutive, starting just below `θ` -/
def Desc (g : G) (root : Nat) (P : Array Nat) : List Nat → Nat → Prop
  | [], _ => True
  | b :: l, θ => Path g root b ∧ b ≠ root ∧ pnum P b + 1 = θ ∧ Desc g root P l (θ - 1)

section
variable {g : G} {root : Nat} {P : Array Nat} {π : Nat → Nat} {k : Nat}

lemma chkStep_spec (hwf : WF g) (hr : root < g.size) (hP : PO g root P π) {θ : Nat} {A : Array Int}
    (hI : Inv g root P π k θ A) (ch : Bool) {b : Nat} (hb : Path g root b) (hbr : b ≠ root)
    (hθ : pnum P b + 1 = θ) :
    Inv g root P π k (θ - 1) (chkStep g (transpose g) root P (A, ch) b).1 ∧
      ((chkStep g (transpose g) root P (A, ch) b).2 = false →
        (chkStep g (transpose g) root P (A, ch) b).1 = A ∧ ch = false) := by
  obtain ⟨a, ha, hspec, hπa, hU⟩ := hI.step_updH hwf hr hP hb hbr hθ
  have hinv := hI.step_inv hP hb hbr hθ hspec hπa hU
  have hb1 : (b == root) = false := by simpa using hbr
  have hval : chkStep g (transpose g) root P (A, ch) b =
      if A.getD b (-1) = (a : Int) then (A, ch) else (upd A b a, true) := by
    unfold chkStep upd
    simp only [hb1, Bool.false_eq_true, if_false, ha]
    by_cases hne : A.getD b (-1) = (a : Int)
    · have : (A.getD b (-1) != (a : Int)) = false := by simpa using hne
      rw [if_pos hne, this]; rfl
    · have : (A.getD b (-1) != (a : Int)) = true := by simpa using hne
      rw [if_neg hne, this]; rfl
  rw [hval]
  by_cases hne : A.getD b (-1) = (a : Int)
  · rw [if_pos hne]
    rw [upd_same A b a hne] at hinv
    exact ⟨hinv, fun h => ⟨rfl, h⟩⟩
  · rw [if_neg hne]
    exact ⟨hinv, fun h => Bool.noConfusion h⟩

lemma pass_fold (hwf : WF g) (hr : root < g.size) (hP : PO g root P π) :
    ∀ (l : List Nat) (θ : Nat) (A : Array Int) (ch : Bool), Desc g root P l θ →
      Inv g root P π k θ A →
      Inv g root P π k (θ - l.length) (l.foldl (chkStep g (transpose g) root P) (A, ch)).1 ∧
        ((l.foldl (chkStep g (transpose g) root P) (A, ch)).2 = false →
          (l.foldl (chkStep g (transpose g) root P) (A, ch)).1 = A ∧ ch = false) := by
  intro l
  induction l with
  | nil => intro θ A ch _ hI; exact ⟨by simpa using hI, fun h => ⟨rfl, h⟩⟩
  | cons b l ih =>
    intro θ A ch hd hI
    obtain ⟨hb, hbr, hθ, hd'⟩ := hd
    obtain ⟨s1, s2⟩ := chkStep_spec hwf hr hP hI ch hb hbr hθ
    simp only [List.foldl_cons, List.length_cons]
    generalize hst : chkStep g (transpose g) root P (A, ch) b = st at s1 s2
    obtain ⟨A1, ch1⟩ := st
    obtain ⟨i1, i2⟩ := ih (θ - 1) A1 ch1 hd' s1
    refine ⟨by rw [show θ - (l.length + 1) = θ - 1 - l.length by omega]; exact i1, fun h => ?_⟩
    obtain ⟨e1, e2⟩ := i2 h
    obtain ⟨e3, e4⟩ := s2 e2
    exact ⟨e1.trans e3, e4⟩

end

/-! ## the numbering produced by the DFS satisfies `PO` -/

/-- a chosen predecessor exited later (the DFS parent, or any such predecessor) -/
noncomputable def dfsPar (g : G) (root : Nat) (x : Nat) : Nat := by
  classical
  exact if h : ∃ u, Edge g u x ∧ List.Sublist [x, u] (postOrder g root) then Classical.choose h else 0

lemma dfsPar_spec (g : G) (hwf : WF g) (root : Nat) (hr : root < g.size) (x : Nat)
    (hx : Path g root x) (hxr : x ≠ root) :
    Edge g (dfsPar g root x) x ∧ List.Sublist [x, dfsPar g root x] (postOrder g root) := by
  classical
  have h := postOrder_parent g hwf root hr x ((mem_postOrder_iff g root hwf hr x).2 hx) hxr
  unfold dfsPar
  rw [dif_pos h]
  exact Classical.choose_spec h

lemma postOrder_split (g : G) (root : Nat) : ∃ ys, postOrder g root = ys ++ [root] :=
  List.getLast?_eq_some_iff.1 (postOrder_last g root)

lemma pnum_po (g : G) (hwf : WF g) (root : Nat) (hr : root < g.size) (x : Nat)
    (hx : x ∈ postOrder g root) : pnum (poNumArr g root) x = (postOrder g root).idxOf x :=
  poNumArr_getD g hwf root hr x hx

lemma po_dfs (g : G) (hwf : WF g) (root : Nat) (hr : root < g.size) :
    PO g root (poNumArr g root) (dfsPar g root) := by
  obtain ⟨ys, hys⟩ := postOrder_split g root
  have hnd := postOrder_nodup g root hwf hr
  have hmem := fun v => mem_postOrder_iff g root hwf hr v
  have hrootmem : root ∈ postOrder g root := by rw [hys]; simp
  have hroot_notin : root ∉ ys := by
    rw [hys] at hnd
    have := List.nodup_append.1 hnd
    intro h
    exact this.2.2 root h root (by simp) rfl
  have hpr : pnum (poNumArr g root) root = ys.length := by
    rw [pnum_po g hwf root hr root hrootmem, hys, List.idxOf_append_of_notMem hroot_notin]
    simp
  have hlen : ys.length + 1 ≤ g.size := by
    have := nodup_length_le (postOrder g root) g.size hnd
      (fun v hv => mem_postOrder_lt g hwf root hr v hv)
    rw [hys] at this; simpa using this
  refine ⟨?_, ?_, ?_, ?_, ?_, ?_⟩
  · intro x y hx hy h
    have hx' := (hmem x).2 hx
    have hy' := (hmem y).2 hy
    rw [pnum_po g hwf root hr x hx', pnum_po g hwf root hr y hy'] at h
    exact (List.idxOf_inj hx').1 h
  · intro x hx hxr
    have hx' := (hmem x).2 hx
    rw [hpr, pnum_po g hwf root hr x hx']
    have hxy : x ∈ ys := by
      rw [hys] at hx'
      rcases List.mem_append.1 hx' with h | h
      · exact h
      · simp at h; exact absurd h hxr
    rw [hys, List.idxOf_append_of_mem hxy]
    exact List.idxOf_lt_length_of_mem hxy
  · rw [hpr]; omega
  · intro x hx hxr
    exact (dfsPar_spec g hwf root hr x hx hxr).1
  · intro x hx hxr
    have h := (dfsPar_spec g hwf root hr x hx hxr).2
    exact (hmem _).1 (h.subset (by simp))
  · intro x hx hxr
    have h := (dfsPar_spec g hwf root hr x hx hxr).2
    have hx' := (hmem x).2 hx
    have hu' : dfsPar g root x ∈ postOrder g root := h.subset (by simp)
    rw [pnum_po g hwf root hr x hx', pnum_po g hwf root hr _ hu']
    exact idxOf_lt_of_sublist _ hnd _ _ h

lemma desc_reverse (g : G) (root : Nat) (P : Array Nat) : ∀ (l : List Nat),
    (∀ i (hi : i < l.length), Path g root l[i] ∧ l[i] ≠ root ∧ pnum P l[i] = i) →
    Desc g root P l.reverse l.length := by
  intro l
  induction l using List.reverseRecOn with
  | nil => intro _; trivial
  | append_singleton l x ih =>
    intro h
    rw [List.reverse_append, List.length_append]
    simp only [List.reverse_cons, List.reverse_nil, List.nil_append, List.singleton_append,
      List.length_cons, List.length_nil, Nat.zero_add]
    have hx := h l.length (by simp)
    simp only [List.getElem_concat_length] at hx
    refine ⟨hx.1, hx.2.1, by rw [hx.2.2], ?_⟩
    rw [Nat.add_sub_cancel]
    apply ih
    intro i hi
    have := h i (by simp; omega)
    rw [List.getElem_append_left hi] at this
    exact this

lemma rpo_desc (g : G) (hwf : WF g) (root : Nat) (hr : root < g.size) :
    ∃ ys, (postOrder g root).reverse = root :: ys ∧
      Desc g root (poNumArr g root) ys (pnum (poNumArr g root) root) ∧
      ys.length = pnum (poNumArr g root) root := by
  obtain ⟨ys, hys⟩ := postOrder_split g root
  have hnd := postOrder_nodup g root hwf hr
  have hrootmem : root ∈ postOrder g root := by rw [hys]; simp
  have hroot_notin : root ∉ ys := by
    rw [hys] at hnd
    have := List.nodup_append.1 hnd
    intro h
    exact this.2.2 root h root (by simp) rfl
  have hpr : pnum (poNumArr g root) root = ys.length := by
    rw [pnum_po g hwf root hr root hrootmem, hys, List.idxOf_append_of_notMem hroot_notin]
    simp
  refine ⟨ys.reverse, by rw [hys]; simp, ?_, by rw [hpr]; simp⟩
  rw [hpr]
  apply desc_reverse
  intro i hi
  have hmemi : ys[i] ∈ postOrder g root := by rw [hys]; exact List.mem_append_left _ (List.getElem_mem hi)
  refine ⟨(mem_postOrder_iff g root hwf hr _).1 hmemi, fun e => hroot_notin (e ▸ List.getElem_mem hi), ?_⟩
  rw [pnum_po g hwf root hr _ hmemi]
  have hi' : i < (postOrder g root).length := by rw [hys]; simp; omega
  have : ys[i] = (postOrder g root)[i] := by
    simp only [hys]; rw [List.getElem_append_left hi]
  rw [this]
  exact hnd.idxOf_getElem i hi'

/-! ## a whole pass, the iteration, and the result -/

section
variable {g : G} {root : Nat} {k : Nat}

/-- the pass of `idomCHK` -/
def passCHK (g : G) (root : Nat) (A : Array Int) : Array Int × Bool :=
  chkPass g (transpose g) root (postOrder g root).reverse (poNumArr g root) A

lemma pass_spec (hwf : WF g) (hr : root < g.size) {A : Array Int}
    (hI : Inv g root (poNumArr g root) (dfsPar g root) k (pnum (poNumArr g root) root) A) :
    Inv g root (poNumArr g root) (dfsPar g root) k 0 (passCHK g root A).1 ∧
      ((passCHK g root A).2 = false → (passCHK g root A).1 = A) := by
  obtain ⟨ys, e1, hd, hl⟩ := rpo_desc g hwf root hr
  unfold passCHK
  rw [chkPass_eq, e1, List.foldl_cons]
  have h0 : chkStep g (transpose g) root (poNumArr g root) (A, false) root = (A, false) := by
    unfold chkStep; simp
  rw [h0]
  obtain ⟨i1, i2⟩ := pass_fold (k := k) hwf hr (po_dfs g hwf root hr) ys _ A false hd hI
  rw [hl, Nat.sub_self] at i1
  exact ⟨i1, fun h => (i2 h).1⟩

/-- initial array -/
def initCHK (g : G) (root : Nat) : Array Int :=
  (Array.replicate g.size (-1 : Int)).setIfInBounds root (root : Int)

lemma initCHK_getD (hr : root < g.size) (x : Nat) :
    (initCHK g root).getD x (-1) = if x = root then (root : Int) else -1 := by
  unfold initCHK
  simp only [Array.getD_eq_getD_getElem?, Array.getElem?_setIfInBounds, Array.size_replicate,
    Array.getElem?_replicate]
  by_cases h : root = x
  · subst h; simp [hr]
  · have h' : ¬ x = root := fun e => h e.symm
    simp only [h, h', if_false]
    split_ifs <;> simp

lemma initCHK_proc (hr : root < g.size) (x : Nat) : proc (initCHK g root) x ↔ x = root := by
  unfold proc
  rw [initCHK_getD hr]
  by_cases h : x = root
  · simp [h]
  · simp [h]

lemma init_inv (hwf : WF g) (hr : root < g.size) :
    Inv g root (poNumArr g root) (dfsPar g root) 1 (pnum (poNumArr g root) root) (initCHK g root) := by
  have hP := po_dfs g hwf root hr
  have hpr := initCHK_proc (g := g) hr
  have hparr : par (initCHK g root) root = root := by
    unfold par; rw [initCHK_getD hr, if_pos rfl]; simp
  have hT : TI g root (poNumArr g root) (initCHK g root) := by
    refine ⟨by simp [initCHK], by rw [initCHK_getD hr, if_pos rfl], ?_, ?_, ?_, ?_⟩
    · intro x hx; rw [(hpr x).1 hx]; exact Relation.ReflTransGen.refl
    · intro x hx; rw [(hpr x).1 hx, hparr, initCHK_getD hr, if_pos rfl]
    · intro x hx; rw [(hpr x).1 hx, hparr]; exact (hpr root).2 rfl
    · intro x hx hxr; exact absurd ((hpr x).1 hx) hxr
  have hxr : ∀ x, Path g root x → pnum (poNumArr g root) root ≤ pnum (poNumArr g root) x → x = root := by
    intro x hx hle
    by_contra hne
    have := hP.lt_root x hx hne
    omega
  refine ⟨hT, ?_, ?_, ?_, ?_, ?_, ?_, ?_, ?_⟩
  · intro x hx hc
    rcases hc with hc | hc
    · exact (hpr x).2 (hxr x hx hc)
    · omega
  · intro x hx hne; exact absurd ((hpr x).1 hx) hne
  · intro x c hx hxc
    rw [(hpr x).1 hx] at hxc ⊢
    rw [hT.up_root_eq hxc]; exact Relation.ReflTransGen.refl
  · intro b hb hne; exact absurd ((hpr b).1 hb) hne
  · intro u hu hle hne; exact absurd (hxr u hu hle) hne
  · intro x d hx hd
    rw [(hpr x).1 hx] at hd ⊢
    rw [hd.eq_root]; exact Relation.ReflTransGen.refl
  · intro x c d hx hxc hcd hd
    rw [(hpr x).1 hx] at hxc hd
    rw [hT.up_root_eq hxc]; exact hd
  · intro x hx w hw _ c hxc
    rw [(hpr x).1 hx] at hxc
    rw [hT.up_root_eq hxc]; exact hw.head_mem

/-- the final array is the dominator tree -/
def Good (g : G) (root : Nat) (A : Array Int) : Prop :=
  ∃ k, 2 ≤ k ∧
    Inv g root (poNumArr g root) (dfsPar g root) k (pnum (poNumArr g root) root) A ∧
    ∀ x c, proc A x → Up A x c → Dom g root c x

lemma fix_inv (hwf : WF g) (hr : root < g.size) {A : Array Int}
    (hfix : (passCHK g root A).1 = A) :
    ∀ j, Inv g root (poNumArr g root) (dfsPar g root) k (pnum (poNumArr g root) root) A →
      Inv g root (poNumArr g root) (dfsPar g root) (k + j) (pnum (poNumArr g root) root) A := by
  intro j
  induction j with
  | zero => intro h; exact h
  | succ j ih =>
    intro h
    have h1 := (pass_spec hwf hr (ih h)).1
    rw [hfix] at h1
    exact h1.next (po_dfs g hwf root hr)

lemma chkIter_good (hwf : WF g) (hr : root < g.size) :
    ∀ (f k : Nat) (A : Array Int), 1 ≤ k →
      Inv g root (poNumArr g root) (dfsPar g root) k (pnum (poNumArr g root) root) A →
      g.size + 1 ≤ k + f →
      Good g root (chkIter g (transpose g) root (postOrder g root).reverse (poNumArr g root) f A) := by
  intro f
  induction f with
  | zero =>
    intro k A hk hI hf
    exact ⟨k, by omega, hI, hI.correct hwf hr (by omega)⟩
  | succ f ih =>
    intro k A hk hI hf
    rw [chkIter_succ]
    obtain ⟨p1, p2⟩ := pass_spec hwf hr hI
    change Good g root (if (passCHK g root A).2 then
      chkIter g (transpose g) root (postOrder g root).reverse (poNumArr g root) f (passCHK g root A).1
      else (passCHK g root A).1)
    by_cases hch : (passCHK g root A).2 = true
    · rw [if_pos hch]
      exact ih (k + 1) _ (by omega) (p1.next (po_dfs g hwf root hr)) (by omega)
    · rw [if_neg hch]
      have hfix := p2 (by simpa using hch)
      rw [hfix]
      have hbig := fix_inv (k := k) hwf hr hfix (g.size + 1) hI
      exact ⟨k + (g.size + 1), by omega, hbig, hbig.correct hwf hr (by omega)⟩

end

lemma idomCHK_eq (g : G) (root : Nat) :
    idomCHK g root =
      ((chkIter g (transpose g) root (postOrder g root).reverse (poNumArr g root) (g.size + 3)
        (initCHK g root)).setIfInBounds root (-1)).toList := by
  rfl

lemma good_par (g : G) (hwf : WF g) (root : Nat) (hr : root < g.size) (A : Array Int)
    (hG : Good g root A) (v : Nat) (hv : Path g root v) (hvr : v ≠ root) :
    A.getD v (-1) = (tid g root v : Int) := by
  obtain ⟨k, hk, hI, hC⟩ := hG
  have hpv : proc A v := hI.r1 v hv (Or.inr hk)
  obtain ⟨e1, e2, e3, e4⟩ := tid_spec g hwf root v hr hvr hv
  have hq : Dom g root (par A v) v := hC v _ hpv (up_step v)
  have hqv : par A v ≠ v := by
    have := hI.ti.hplt v hpv hvr
    intro e; rw [e] at this; omega
  have h1 : Up A v (tid g root v) := hI.l1 v _ hpv e3
  have h2 : Up A (par A v) (tid g root v) := by
    rcases up_head h1 with h | h
    · exact absurd h.symm e2
    · exact h
  have h3 : Dom g root (tid g root v) (par A v) := hC _ _ (hI.ti.hpp v hpv) h2
  have h4 : Dom g root (par A v) (tid g root v) := e4 _ hqv hq
  rw [hI.ti.hnat v hpv, h4.antisymm' h3]

end CHK
open CHK

/-- **G1.** The Cooper–Harvey–Kennedy routine (mirror of the Go code, with its pass fuel
`g.size + 3` and `intersect` fuel `2 * g.size + 2`) computes exactly the definitional immediate
dominators: for a well-formed graph and a root in range, `idomCHK g root = idomSpec g root`
(`-1` for the root and for unreachable nodes). In particular the iteration converges within the
fuel, also on irreducible graphs. -/
theorem idomCHK_eq_spec (g : G) (hwf : WF g) (root : Nat) (hr : root < g.size) :
    idomCHK g root = idomSpec g root := by
  have hG := chkIter_good hwf hr (g.size + 3) 1 (initCHK g root) le_rfl (init_inv hwf hr) (by omega)
  rw [idomCHK_eq]
  set R := chkIter g (transpose g) root (postOrder g root).reverse (poNumArr g root) (g.size + 3)
    (initCHK g root) with hR
  obtain ⟨k, hk, hI, hC⟩ := id hG
  have hsz : R.size = g.size := hI.ti.hsize
  apply List.ext_getElem
  · simp [hsz, idomSpec_length]
  · intro v h1 h2
    have hv : v < g.size := by simpa [hsz] using h1
    have hrhs : (idomSpec g root)[v] = idomEntry g root v := by
      rw [← idomSpec_getD g root v hv]
      simp [List.getD_eq_getElem?_getD, h2]
    rw [hrhs]
    simp only [Array.getElem_toList]
    rw [Array.getElem_setIfInBounds (by rw [hsz]; exact hv)]
    by_cases hvr : root = v
    · rw [if_pos hvr, idomEntry_unreach g hwf root v hr (Or.inl hvr.symm)]
    · rw [if_neg hvr]
      have hget : R[v]'(by rw [hsz]; exact hv) = R.getD v (-1) := by
        simp [Array.getD_eq_getD_getElem?, hsz, hv]
      rw [hget]
      by_cases hp : Path g root v
      · rw [good_par g hwf root hr R hG v hp (fun e => hvr e.symm),
          (tid_spec g hwf root v hr (fun e => hvr e.symm) hp).1]
      · rw [idomEntry_unreach g hwf root v hr (Or.inr hp)]
        by_contra hne
        exact hp (hI.ti.hpath v hne)

namespace CHK

example : WF exD := by decide
example : idomCHK exD 0 = idomSpec exD 0 := idomCHK_eq_spec exD (by decide) 0 (by decide)
example : idomCHK exD 0 = [-1, 0, 0, 0] := by with_unfolding_all decide

section
variable {g : G} {root : Nat} {P : Array Nat} {π : Nat → Nat} {A : Array Int}

/-- parent property ⟹ every chain element is a dominator -/
lemma parent_prop_sound (hT : TI g root P A)
    (hpar : ∀ b p, Path g root b → b ≠ root → Path g root p → Edge g p b → Up A p (par A b)) :
    ∀ x c, proc A x → Up A x c → Dom g root c x := by
  intro x c hx hxc
  have hpx := hT.hpath x hx
  have hpc := hT.hpath c (hT.up_proc hx hxc)
  by_contra hnd
  have h3 : ¬ (c = x ∨ root = c ∨ ¬ Av g c root x) := fun h => hnd ⟨hpx, hpc, h⟩
  simp only [not_or, not_not] at h3
  obtain ⟨_, hrc, hav⟩ := h3
  have key : ∀ y, Av g c root y → ¬ Up A y c := by
    intro y hy
    induction hy with
    | refl => intro h; exact hrc (hT.up_root_eq h).symm
    | @tail y z hry hyz ih =>
      intro hzc
      have hz : Path g root z := Relation.ReflTransGen.tail (Av.path hry) hyz.1
      have hzr : z ≠ root := by
        rintro rfl
        exact hrc (hT.up_root_eq hzc).symm
      rcases up_head hzc with h | h
      · exact hyz.2 h
      · exact ih ((hpar z y hz hzr (Av.path hry) hyz.1).trans h)
  exact key x hav hxc

lemma par_eq_tid (hwf : WF g) (hr : root < g.size) (hT : TI g root P A)
    (hlow : ∀ x d, proc A x → Dom g root d x → Up A x d)
    (hC : ∀ x c, proc A x → Up A x c → Dom g root c x)
    (v : Nat) (hpv : proc A v) (hvr : v ≠ root) : A.getD v (-1) = (tid g root v : Int) := by
  have hv := hT.hpath v hpv
  obtain ⟨e1, e2, e3, e4⟩ := tid_spec g hwf root v hr hvr hv
  have hq : Dom g root (par A v) v := hC v _ hpv (up_step v)
  have hqv : par A v ≠ v := by
    have := hT.hplt v hpv hvr
    intro e; rw [e] at this; omega
  have h1 : Up A v (tid g root v) := hlow v _ hpv e3
  have h2 : Up A (par A v) (tid g root v) := by
    rcases up_head h1 with h | h
    · exact absurd h.symm e2
    · exact h
  have h3 : Dom g root (tid g root v) (par A v) := hC _ _ (hT.hpp v hpv) h2
  have h4 : Dom g root (par A v) (tid g root v) := e4 _ hqv hq
  rw [hT.hnat v hpv, h4.antisymm' h3]

lemma toList_eq_spec (hwf : WF g) (hr : root < g.size) (hT : TI g root P A)
    (hpe : ∀ v, Path g root v → v ≠ root → A.getD v (-1) = (tid g root v : Int)) :
    (A.setIfInBounds root (-1)).toList = idomSpec g root := by
  have hsz : A.size = g.size := hT.hsize
  apply List.ext_getElem
  · simp [hsz, idomSpec_length]
  · intro v h1 h2
    have hv : v < g.size := by simpa [hsz] using h1
    have hrhs : (idomSpec g root)[v] = idomEntry g root v := by
      rw [← idomSpec_getD g root v hv]
      simp [List.getD_eq_getElem?_getD, h2]
    rw [hrhs]
    simp only [Array.getElem_toList]
    rw [Array.getElem_setIfInBounds (by rw [hsz]; exact hv)]
    by_cases hvr : root = v
    · rw [if_pos hvr, idomEntry_unreach g hwf root v hr (Or.inl hvr.symm)]
    · rw [if_neg hvr]
      have hget : A[v]'(by rw [hsz]; exact hv) = A.getD v (-1) := by
        simp [Array.getD_eq_getD_getElem?, hsz, hv]
      rw [hget]
      by_cases hp : Path g root v
      · rw [hpe v hp (fun e => hvr e.symm),
          (tid_spec g hwf root v hr (fun e => hvr e.symm) hp).1]
      · rw [idomEntry_unreach g hwf root v hr (Or.inr hp)]
        by_contra hne
        exact hp (hT.hpath v hne)

end

end CHK
open CHK

/-- **D4.** `intersect` (with the fuel `2 * g.size + 2` used by the pass) returns the nearest
common ancestor of two processed nodes in the partial dominator tree stored in `A`: whenever the
parent pointers of `A` strictly increase the post-order number and lead to the root (`TI`), the
result `m` lies on the parent chains of both `b1` and `b2`, and every common chain element `c`
lies on the chain of `m`. -/
theorem intersect_nca {g : G} {root : Nat} {P : Array Nat} {π : Nat → Nat} {A : Array Int}
    (hT : TI g root P A) (hP : PO g root P π) (b1 b2 : Nat)
    (h1 : proc A b1) (h2 : proc A b2) :
    Up A b1 (intersect A P (2 * g.size + 2) b1 b2) ∧ Up A b2 (intersect A P (2 * g.size + 2) b1 b2) ∧
      ∀ c, Up A b1 c → Up A b2 c → Up A (intersect A P (2 * g.size + 2) b1 b2) c := by
  apply intersect_spec hT hP
  · exact h1
  · exact h2
  · have := hP.root_lt; omega

namespace CHK

end CHK
open CHK

/-- **D2 (corrected form).** Partial correctness of the fixed point.  Let `A` be an `idom` array
whose parent pointers strictly increase the post-order number and lead to the root (`TI`, which
also says that exactly reachable nodes may carry a parent and `A[root] = root`), in which every
reachable node has a parent, and such that
* (parent property) for every reachable `b ≠ root`, `A[b]` lies on the parent chain of every
  reachable predecessor of `b` — this is what a pass reporting "no change" establishes, and
* (over-approximation) every true dominator of a node lies on its parent chain — the invariant
  the iteration maintains because it approaches the solution from above.
Then `A` with the root entry reset to `-1` is exactly `idomSpec g root`.
The second hypothesis cannot be dropped: the literal statement "every tree-shaped fixed point of
the equations is the dominator tree" is false, see the example below. -/
theorem chk_fixpoint_correct_partial {g : G} {root : Nat} {P : Array Nat} {A : Array Int}
    (hwf : WF g) (hr : root < g.size) (hT : TI g root P A)
    (hall : ∀ x, Path g root x → proc A x)
    (hpar : ∀ b p, Path g root b → b ≠ root → Path g root p → Edge g p b → Up A p (par A b))
    (hlow : ∀ x d, proc A x → Dom g root d x → Up A x d) :
    (A.setIfInBounds root (-1)).toList = idomSpec g root := by
  have hC := parent_prop_sound hT hpar
  exact toList_eq_spec hwf hr hT (fun v hv hvr => par_eq_tid hwf hr hT hlow hC v (hall v hv) hvr)

namespace CHK

/-- Counterexample to the literal D2: on `0 → 1 → 2 → 3 → 2` the array `[0, 0, 0, 2]` (node `2`
hanging directly below the root) is a tree with increasing post-order numbers on which a pass
reports no change, yet the dominator tree is `[-1, 0, 1, 2]`. -/
example :
    chkPass #[[1], [2], [3], [2]] (transpose #[[1], [2], [3], [2]]) 0
        (postOrder #[[1], [2], [3], [2]] 0).reverse (poNumArr #[[1], [2], [3], [2]] 0) #[0, 0, 0, 2]
      = (#[0, 0, 0, 2], false) ∧
    idomSpec #[[1], [2], [3], [2]] 0 = [-1, 0, 1, 2] ∧
    poNumArr #[[1], [2], [3], [2]] 0 = #[3, 2, 1, 0] := by
  refine ⟨?_, ?_, ?_⟩ <;> with_unfolding_all decide

/-! ## D3: convergence within the fuel -/

section
variable {g : G} {root : Nat}

lemma good_newIdom (hwf : WF g) (hr : root < g.size) {A : Array Int} (hG : Good g root A)
    {b : Nat} (hb : Path g root b) (hbr : b ≠ root) :
    newIdom g (poNumArr g root) A ((transpose g).getD b []) = A.getD b (-1) := by
  have hP := po_dfs g hwf root hr
  obtain ⟨k, hk, hI, hC⟩ := id hG
  have hbn := path_lt g hwf root b hr hb
  have hπe := hP.par_edge b hb hbr
  have hπp := hP.par_path b hb hbr
  have hπl := hP.par_lt b hb hbr
  have hπproc : proc A (dfsPar g root b) := hI.r1 _ hπp (Or.inr hk)
  obtain ⟨e1, e2, e3, e4⟩ := tid_spec g hwf root b hr hbr hb
  obtain ⟨s1, s2, s3⟩ := newIdom_spec hI.ti hP ((transpose g).getD b [])
  rcases s1 with s1 | ⟨a, ha, hpa⟩
  · exfalso
    exact (s2.1 s1) _ ((mem_transpose g _ b hbn).2 hπe) hπproc
  · have hspec : ∀ c, Up A a c ↔ ∀ p, Edge g p b → proc A p → Up A p c := by
      intro c
      rw [s3 a ha c]
      constructor
      · intro h p hp; exact h p ((mem_transpose g p b hbn).2 hp)
      · intro h p hp; exact h p ((mem_transpose g p b hbn).1 hp)
    have hπa : Up A (dfsPar g root b) a := (hspec a).1 Relation.ReflTransGen.refl _ hπe hπproc
    have hab : a ≠ b := by
      have := hI.ti.up_le hπproc hπa
      intro e; rw [e] at this; omega
    have h1 : Up A a (tid g root b) := by
      rw [hspec]
      intro p hp hpp
      exact hI.l1 p _ hpp (e3.pred e2 (hI.ti.hpath p hpp) hp)
    have h2 : Dom g root a b := Dom.of_preds hb hbr (fun p hp hpe =>
      hC p a (hI.r1 p hp (Or.inr hk)) ((hspec a).1 Relation.ReflTransGen.refl p hpe
        (hI.r1 p hp (Or.inr hk))))
    have h3 : Dom g root a (tid g root b) := e4 a hab h2
    have h4 : Dom g root (tid g root b) a := hC a _ hpa h1
    rw [ha, good_par g hwf root hr A hG b hb hbr, h3.antisymm' h4]

lemma desc_mem {P : Array Nat} : ∀ (l : List Nat) (θ : Nat), Desc g root P l θ →
    ∀ b ∈ l, Path g root b ∧ b ≠ root := by
  intro l
  induction l with
  | nil => intro _ _ b hb; simp at hb
  | cons x l ih =>
    intro θ hd b hb
    rcases List.mem_cons.1 hb with rfl | hb
    · exact ⟨hd.1, hd.2.1⟩
    · exact ih (θ - 1) hd.2.2.2 b hb

lemma good_pass (hwf : WF g) (hr : root < g.size) {A : Array Int} (hG : Good g root A) :
    passCHK g root A = (A, false) := by
  obtain ⟨ys, e1, hd, -⟩ := rpo_desc g hwf root hr
  unfold passCHK
  rw [chkPass_eq, e1, List.foldl_cons]
  have h0 : chkStep g (transpose g) root (poNumArr g root) (A, false) root = (A, false) := by
    unfold chkStep; simp
  rw [h0]
  have hmem := desc_mem ys _ hd
  clear hd e1
  induction ys with
  | nil => rfl
  | cons b l ih =>
    rw [List.foldl_cons]
    have hb := hmem b (by simp)
    have hstep : chkStep g (transpose g) root (poNumArr g root) (A, false) b = (A, false) := by
      unfold chkStep
      have hb1 : (b == root) = false := by simpa using hb.2
      simp only [hb1, Bool.false_eq_true, if_false, good_newIdom hwf hr hG hb.1 hb.2, bne_self_eq_false]
    rw [hstep]
    exact ih (fun x hx => hmem x (by simp [hx]))

lemma good_unique (hwf : WF g) (hr : root < g.size) {A B : Array Int} (hA : Good g root A)
    (hB : Good g root B) : A = B := by
  obtain ⟨k, hk, hI, hC⟩ := id hA
  obtain ⟨k', hk', hI', hC'⟩ := id hB
  have hsA := hI.ti.hsize
  have hsB := hI'.ti.hsize
  have key : ∀ v, v < g.size → A.getD v (-1) = B.getD v (-1) := by
    intro v hv
    by_cases hvr : v = root
    · rw [hvr, hI.ti.hroot, hI'.ti.hroot]
    · by_cases hp : Path g root v
      · rw [good_par g hwf root hr A hA v hp hvr, good_par g hwf root hr B hB v hp hvr]
      · have h1 : A.getD v (-1) = -1 := by
          by_contra hne; exact hp (hI.ti.hpath v hne)
        have h2 : B.getD v (-1) = -1 := by
          by_contra hne; exact hp (hI'.ti.hpath v hne)
        rw [h1, h2]
  apply Array.ext
  · rw [hsA, hsB]
  · intro i h1 h2
    have := key i (by rw [← hsA]; exact h1)
    simpa [Array.getD_eq_getD_getElem?, h1, h2] using this

end

end CHK
open CHK

/-- **D3.** The iteration has converged when `idomCHK` stops: one more pass over the array
returned by `chkIter` with the fuel `g.size + 3` used by `idomCHK` changes nothing and reports
`changed = false`.  (So the fuel is not what stops the loop; see also `chkIter_fuel_irrelevant`.) -/
theorem chk_converged (g : G) (hwf : WF g) (root : Nat) (hr : root < g.size) :
    chkPass g (transpose g) root (postOrder g root).reverse (poNumArr g root)
        (chkIter g (transpose g) root (postOrder g root).reverse (poNumArr g root) (g.size + 3)
          (initCHK g root)) =
      (chkIter g (transpose g) root (postOrder g root).reverse (poNumArr g root) (g.size + 3)
          (initCHK g root), false) :=
  good_pass hwf hr
    (chkIter_good hwf hr (g.size + 3) 1 (initCHK g root) le_rfl (init_inv hwf hr) (by omega))

namespace CHK

end CHK
open CHK

/-- **D3.** At most `g.size` passes are ever needed: running `chkIter` with any fuel
`f ≥ g.size` gives the same array as with the fuel `g.size + 3` of `idomCHK` (the known bound
`d(G) + 3` with loop connectedness `d(G) < g.size`, here obtained as: after pass `k` every chain
element of `x` lies on every walk from the root to `x` with fewer than `k` edges). -/
theorem chkIter_fuel_irrelevant (g : G) (hwf : WF g) (root : Nat) (hr : root < g.size) (f : Nat)
    (hf : g.size ≤ f) :
    chkIter g (transpose g) root (postOrder g root).reverse (poNumArr g root) f (initCHK g root) =
      chkIter g (transpose g) root (postOrder g root).reverse (poNumArr g root) (g.size + 3)
        (initCHK g root) :=
  good_unique hwf hr
    (chkIter_good hwf hr f 1 (initCHK g root) le_rfl (init_inv hwf hr) (by omega))
    (chkIter_good hwf hr (g.size + 3) 1 (initCHK g root) le_rfl (init_inv hwf hr) (by omega))

namespace CHK

example := chk_converged exD (by decide) 0 (by decide)
example := chkIter_fuel_irrelevant exD (by decide) 0 (by decide) 4 (by decide)
example : chkIter exD (transpose exD) 0 (postOrder exD 0).reverse (poNumArr exD 0) 4 (initCHK exD 0)
    = #[0, 0, 0, 0] := by with_unfolding_all decide

lemma good_parent_prop {g : G} {root : Nat} (hwf : WF g) (hr : root < g.size) {A : Array Int}
    (hG : Good g root A) :
    ∀ b p, Path g root b → b ≠ root → Path g root p → Edge g p b → Up A p (par A b) := by
  intro b p hb hbr hp he
  obtain ⟨k, hk, hI, hC⟩ := id hG
  obtain ⟨e1, e2, e3, e4⟩ := tid_spec g hwf root b hr hbr hb
  have : par A b = tid g root b := by
    unfold par; rw [good_par g hwf root hr A hG b hb hbr]; simp
  rw [this]
  exact hI.l1 p _ (hI.r1 p hp (Or.inr hk)) (e3.pred e2 hp he)

/-- the hypotheses of `chk_fixpoint_correct_partial` are satisfiable: they hold for the array
computed by the iteration on the diamond-with-back-edge graph `exD` -/
example : ((chkIter exD (transpose exD) 0 (postOrder exD 0).reverse (poNumArr exD 0) 7
    (initCHK exD 0)).setIfInBounds 0 (-1)).toList = idomSpec exD 0 := by
  have hG := chkIter_good (g := exD) (root := 0) (by decide) (by decide) 7 1 _ le_rfl
    (init_inv (by decide) (by decide)) (by decide)
  obtain ⟨k, hk, hI, hC⟩ := id hG
  exact chk_fixpoint_correct_partial (by decide) (by decide) hI.ti
    (fun x hx => hI.r1 x hx (Or.inr hk)) (good_parent_prop (by decide) (by decide) hG) hI.l1

/-- `intersect_nca` on the final array of `exD`: the result for the two branch nodes `1`, `2`
is below every common chain element -/
example : ∀ c,
    Up (chkIter exD (transpose exD) 0 (postOrder exD 0).reverse (poNumArr exD 0) 7 (initCHK exD 0)) 1 c →
    Up (chkIter exD (transpose exD) 0 (postOrder exD 0).reverse (poNumArr exD 0) 7 (initCHK exD 0)) 2 c →
    Up (chkIter exD (transpose exD) 0 (postOrder exD 0).reverse (poNumArr exD 0) 7 (initCHK exD 0))
      (intersect (chkIter exD (transpose exD) 0 (postOrder exD 0).reverse (poNumArr exD 0) 7
        (initCHK exD 0)) (poNumArr exD 0) (2 * exD.size + 2) 1 2) c := by
  have hG := chkIter_good (g := exD) (root := 0) (by decide) (by decide) 7 1 _ le_rfl
    (init_inv (by decide) (by decide)) (by decide)
  obtain ⟨k, hk, hI, hC⟩ := id hG
  have h1 : Path exD 0 1 := (reachB_iff_path exD (by decide) 0 1 (by decide)).1 (by with_unfolding_all decide)
  have h2 : Path exD 0 2 := (reachB_iff_path exD (by decide) 0 2 (by decide)).1 (by with_unfolding_all decide)
  exact (intersect_nca hI.ti (po_dfs exD (by decide) 0 (by decide)) 1 2
    (hI.r1 1 h1 (Or.inr hk)) (hI.r1 2 h2 (Or.inr hk))).2.2

/-- G1 on an irreducible graph (two-entry loop `1 ⇄ 2` entered from `0` at both nodes) -/
example : idomCHK #[[1, 2], [2], [1]] 0 = idomSpec #[[1, 2], [2], [1]] 0 :=
  idomCHK_eq_spec _ (by decide) 0 (by decide)
example : idomCHK #[[1, 2], [2], [1]] 0 = [-1, 0, 0] := by with_unfolding_all decide

/-- the only discrepancy in G2: a root with exactly one incoming edge (`0 ⇄ 1`, root `0`) is in
the definitional frontiers of `0` and `1` but is skipped by the Go routine -/
example : dfSpec #[[1], [0]] 0 = [[0], [0]] ∧
    domFrontierCHK #[[1], [0]] 0 (idomSpec #[[1], [0]] 0) = [[], []] ∧
    rootInDeg #[[1], [0]] 0 = 1 := by
  refine ⟨?_, ?_, ?_⟩ <;> with_unfolding_all decide

end CHK
end MV.Graph
