import MV.Props.FactsLib
/-! Structural facts C19 relies on, re-extracted from /repo on every run. -/
namespace MV.Facts

/-- State that outlives a call, as extracted from the source on this run: the package-level
variables of the packages this property's code lives in, the functions (other than `init`) that
assign to them or call methods on them, and the fields of the property's struct types. The model is
a pure function of the arguments and of these fields; a new variable, writer or field is state the
model does not know of. -/
def stateC19 : List (String × String) := [("globals:graph", ""), ("globals:graphalg", ""), ("globalwrites:graph", ""), ("globalwrites:graphalg", ""), ("fields:graphalg.DomTree", "idom:[]int children:[][]int"), ("funcs:graph", "n=13 fnv64a=91fcf3f7fdaf1da6"), ("funcs:graphalg", "n=27 fnv64a=e894f2184af9a92e")]

/-- the source has exactly the package-level variables, writers and struct fields the model accounts for -/
theorem state_C19 : holdsAll stateC19 = true := by decide +kernel

end MV.Facts
