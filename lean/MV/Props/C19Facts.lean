import MV.Props.FactsLib
/-! Structural facts C19 relies on, re-extracted from /repo on every run. -/
namespace MV.Facts

/-- State that outlives a call, as extracted from the source on this run: the package-level
variables of the packages this property's code lives in, the functions (other than `init`) that
assign to them or call methods on them, and the fields of the property's struct types. The model is
a pure function of the arguments and of these fields; a new variable, writer or field is state the
model does not know of. The digest-valued `shape:` entry covers everything the call graph
(resolved by go/types) reaches from the functions declared in the property's anchor files: per
function, method (with receiver kind), package variable and constant, its numeric literals, its comparison operators, the
package variables it reads and its writes through parameters or the receiver (including in-place
`sort.*`/`copy`/`append`). The entries behind the digest are in `shape_expected.txt` and in a
comment of the generated file. -/
def stateC19 : List (String × String) := [("globals:graph", ""), ("globals:graphalg", ""), ("globalwrites:graph", ""), ("globalwrites:graphalg", ""), ("fields:graphalg.DomTree", "idom:[]int children:[][]int"), ("shape:C19", "n=25 fnv64a=5786b74b7c11dcf6")]

/-- the source has exactly the package-level variables, writers and struct fields the model accounts for -/
theorem state_C19 : holdsAll stateC19 = true := by decide +kernel

end MV.Facts
