import MV.Props.FactsLib
/-! Structural facts C19 relies on, re-extracted from /repo on every run. -/
namespace MV.Facts

/-- State that outlives a call, as extracted from the source on this run: the package-level
variables of the packages this property's code lives in, the functions (other than `init`) that
assign to them or call methods on them, and the fields of the property's struct types. The model is
a pure function of the arguments and of these fields; a new variable, writer or field is state the
model does not know of. The digest-valued entries cover, per package: every declared function and
method with its receiver kind (`funcs:`), every function-reads-package-variable pair (`reads:`) and
every write through a parameter or receiver, including in-place `sort.*`/`copy` (`pwrites:`); the
lists behind the digests are in `funcs_expected.txt` and in comments of the generated file. -/
def stateC19 : List (String × String) := [("globals:graph", ""), ("globals:graphalg", ""), ("globalwrites:graph", ""), ("globalwrites:graphalg", ""), ("fields:graphalg.DomTree", "idom:[]int children:[][]int"), ("funcs:graph", "n=13 fnv64a=6d127aa916cf372a"), ("reads:graph", "n=0 fnv64a=cbf29ce484222325"), ("pwrites:graph", "n=0 fnv64a=cbf29ce484222325"), ("funcs:graphalg", "n=27 fnv64a=7bc26b7e444e3bd8"), ("reads:graphalg", "n=0 fnv64a=cbf29ce484222325"), ("pwrites:graphalg", "n=4 fnv64a=63704012c05b15a7")]

/-- the source has exactly the package-level variables, writers and struct fields the model accounts for -/
theorem state_C19 : holdsAll stateC19 = true := by decide +kernel

end MV.Facts
