import Mathlib.Tactic
import MV.Model.Purity
/-!
# C20 — purity, determinism, interleaving independence (heap machine)

These are true of the model by construction; the content of C20 is in the
correspondence (observed write sets, bitwise repeatability, concurrent replay
under the race detector).
-/
namespace MV.Purity

variable {Val Out : Type}

/-- A non-mutating call leaves the whole heap unchanged. -/
theorem step_pure_frame (sem : Sem Val Out) (s : Heap Val) (c : Call) (h : mutating c.name = false) :
    (step sem s c).1 = s := by
  unfold step; simp [h]

/-- A mutating call changes at most its receiver (argument 0). -/
theorem step_mut_frame (sem : Sem Val Out) (s : Heap Val) (c : Call) (i : Nat)
    (hi : ∀ r, c.args.head? = some r → i ≠ r) : (step sem s c).1 i = s i := by
  unfold step
  split
  · cases hargs : c.args with
    | nil => simp
    | cons r rest =>
      have := hi r (by simp [hargs])
      simp [this]
  · rfl

/-- The result of a call depends only on the values of its named arguments: heaps that
agree on the arguments give the same output — so a repeated call returns the same result
whatever was called in between, as long as its arguments were not written. -/
theorem step_out_deterministic (sem : Sem Val Out) (s t : Heap Val) (c : Call)
    (h : ∀ i ∈ c.args, s i = t i) : (step sem s c).2 = (step sem t c).2 := by
  have hm : c.args.map s = c.args.map t := List.map_congr_left h
  unfold step
  simp only [hm]
  split
  · cases c.args <;> rfl
  · rfl

/-- Running any list of non-mutating calls leaves the heap unchanged and yields, call for
call, the outputs each call gives on the initial heap. -/
theorem run_pure (sem : Sem Val Out) (s : Heap Val) (cs : List Call)
    (h : ∀ c ∈ cs, mutating c.name = false) :
    run sem s cs = (s, cs.map fun c => (step sem s c).2) := by
  induction cs with
  | nil => rfl
  | cons c cs ih =>
    have hc := h c (List.mem_cons_self ..)
    have hs : (step sem s c).1 = s := step_pure_frame sem s c hc
    simp only [run, List.map_cons]
    have := ih (fun c' hc' => h c' (List.mem_cons_of_mem _ hc'))
    rw [show step sem s c = ((step sem s c).1, (step sem s c).2) from rfl]
    simp only [hs, this]

/-- Interleaving independence: for any two (hence any number of) threads of non-mutating
calls, every interleaving `zs` of their call lists (any permutation of the concatenation)
produces for each call exactly the output of the sequential run. -/
theorem interleaving_outputs (sem : Sem Val Out) (s : Heap Val) (xs ys zs : List Call)
    (hperm : zs.Perm (xs ++ ys))
    (hx : ∀ c ∈ xs, mutating c.name = false) (hy : ∀ c ∈ ys, mutating c.name = false) :
    (run sem s zs).1 = s ∧ (run sem s zs).2 = zs.map fun c => (step sem s c).2 := by
  have hz : ∀ c ∈ zs, mutating c.name = false := by
    intro c hc
    have := hperm.subset hc
    rcases List.mem_append.mp this with h | h
    · exact hx c h
    · exact hy c h
  rw [run_pure sem s zs hz]
  exact ⟨rfl, rfl⟩

/-- Non-vacuity: `Mean` is not a mutator, `S.Sort` is. -/
example : mutating "Mean" = false ∧ mutating "S.Sort" = true := by decide

end MV.Purity
