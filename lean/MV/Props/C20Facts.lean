import MV.Props.FactsLib
/-! Exported entry points exercised by the C20 op table still exist in the source. -/
namespace MV.Facts

def apiC20 : List String := ["stats.MannWhitneyUTest", "stats.Sample.Quantile", "stats.Sample.Sort", "stats.Sample.Copy", "stats.QuantileCIResult.SampleCI", "stats.KDE.PDF", "stats.KDE.CDF", "stats.KDE.Bounds", "stats.UDist.CDF", "fit.LOESS", "fit.PolynomialRegression", "graph.SubgraphRemove", "graph.Equal", "graphalg.SCC", "graphalg.IDom", "graphalg.DomFrontier", "graphalg.PreOrder", "graphalg.Reverse", "vec.Sum", "vec.Map", "vec.Concat", "scale.Linear.Nice", "scale.Log.Nice", "stats.StreamStats.Add", "stats.StreamStats.Combine", "graphalg.NodeMarks.Mark", "graphalg.NodeMarks.Unmark"]

/-- every entry point of the C20 op table is still exported by the library -/
theorem facts_C20 : apiHas apiC20 = true := by decide


/-- State that outlives a call, as extracted from the source on this run: the package-level
variables of the packages this property's code lives in, the functions (other than `init`) that
assign to them or call methods on them, and the fields of the property's struct types. The model is
a pure function of the arguments and of these fields; a new variable, writer or field is state the
model does not know of. The digest-valued entries cover, per package: every declared function and
method with its receiver kind (`funcs:`), every function-reads-package-variable pair (`reads:`) and
every write through a parameter or receiver, including in-place `sort.*`/`copy` (`pwrites:`); the
lists behind the digests are in `funcs_expected.txt` and in comments of the generated file. -/
def stateC20 : List (String × String) := [("globals:stats", "ErrMismatchedSamples ErrSampleSize ErrSamplesEqual ErrZeroVariance MannWhitneyExactLimit MannWhitneyTiesExactLimit StdNormal _KDEBoundaryMethod_index _KDEKernel_index _LocationHypothesis_index inf nan quantileCIApproxThreshold"), ("globals:mathx", "nan smallFact"), ("globals:vec", ""), ("globals:fit", ""), ("globals:scale", ""), ("globals:graph", ""), ("globals:graphalg", ""), ("globals:graphout", ""), ("globalwrites:stats", "MannWhitneyUTest:StdNormal.CDF"), ("globalwrites:mathx", ""), ("globalwrites:vec", ""), ("globalwrites:fit", ""), ("globalwrites:scale", ""), ("globalwrites:graph", ""), ("globalwrites:graphalg", ""), ("globalwrites:graphout", ""), ("fields:stats.Sample", "Xs:[]float64 Weights:[]float64 Sorted:bool"), ("fields:stats.KDE", "Sample:Sample Kernel:KDEKernel Bandwidth:float64 BoundaryMethod:KDEBoundaryMethod BoundaryMin:float64 BoundaryMax:float64"), ("fields:stats.UDist", "N1:int N2:int T:[]int"), ("fields:stats.StreamStats", "Count:uint Total:float64 Min:float64 Max:float64 mean:float64 meanOfSquares:float64 vM2:float64"), ("fields:stats.LinearHist", "min:float64 max:float64 delta:float64 low:uint high:uint bins:[]uint"), ("fields:scale.Linear", "Min:float64 Max:float64 Base:int Clamp:bool"), ("fields:scale.Log", "private:struct{} Min:float64 Max:float64 Base:int Clamp:bool"), ("fields:graphalg.NodeMarks", "marks:[]uint32"), ("fields:fit.PolynomialRegressionResult", "Coefficients:[]float64 F:func(xfloat64)float64"), ("funcs:stats", "n=117 fnv64a=f105f997db64badb"), ("reads:stats", "n=25 fnv64a=8314b76793c8b23b"), ("pwrites:stats", "n=12 fnv64a=4e7a6b5338e6d373"), ("funcs:mathx", "n=13 fnv64a=721c592b642cc9ba"), ("reads:mathx", "n=2 fnv64a=0b5c58057d585a6b"), ("pwrites:mathx", "n=0 fnv64a=cbf29ce484222325"), ("funcs:vec", "n=6 fnv64a=d885ec76a92e6ea6"), ("reads:vec", "n=0 fnv64a=cbf29ce484222325"), ("pwrites:vec", "n=0 fnv64a=cbf29ce484222325"), ("funcs:fit", "n=7 fnv64a=f65a921a2a760cf0"), ("reads:fit", "n=0 fnv64a=cbf29ce484222325"), ("pwrites:fit", "n=2 fnv64a=d9d8e72bd50da078"), ("funcs:scale", "n=30 fnv64a=3b5173cc62d6c994"), ("reads:scale", "n=0 fnv64a=cbf29ce484222325"), ("pwrites:scale", "n=5 fnv64a=057ec4379b47763f"), ("funcs:graph", "n=13 fnv64a=6d127aa916cf372a"), ("reads:graph", "n=0 fnv64a=cbf29ce484222325"), ("pwrites:graph", "n=0 fnv64a=cbf29ce484222325"), ("funcs:graphalg", "n=27 fnv64a=7bc26b7e444e3bd8"), ("reads:graphalg", "n=0 fnv64a=cbf29ce484222325"), ("pwrites:graphalg", "n=4 fnv64a=63704012c05b15a7"), ("funcs:graphout", "n=6 fnv64a=ef4b5ce9d193d85e"), ("reads:graphout", "n=0 fnv64a=cbf29ce484222325"), ("pwrites:graphout", "n=0 fnv64a=cbf29ce484222325")]

/-- the source has exactly the package-level variables, writers and struct fields the model accounts for -/
theorem state_C20 : holdsAll stateC20 = true := by decide +kernel

end MV.Facts
