import MV.Props.FactsLib
/-! Exported entry points exercised by the C20 op table still exist in the source. -/
namespace MV.Facts

def apiC20 : List String := ["stats.MannWhitneyUTest", "stats.Sample.Quantile", "stats.Sample.Sort", "stats.Sample.Copy", "stats.QuantileCIResult.SampleCI", "stats.KDE.PDF", "stats.KDE.CDF", "stats.KDE.Bounds", "stats.UDist.CDF", "fit.LOESS", "fit.PolynomialRegression", "graph.SubgraphRemove", "graph.Equal", "graphalg.SCC", "graphalg.IDom", "graphalg.DomFrontier", "graphalg.PreOrder", "graphalg.Reverse", "vec.Sum", "vec.Map", "vec.Concat", "scale.Linear.Nice", "scale.Log.Nice", "stats.StreamStats.Add", "stats.StreamStats.Combine", "graphalg.NodeMarks.Mark", "graphalg.NodeMarks.Unmark"]

/-- every entry point of the C20 op table is still exported by the library -/
theorem facts_C20 : apiHas apiC20 = true := by decide


/-- State that outlives a call, as extracted from the source on this run: the package-level
variables of the packages this property's code lives in, the functions (other than `init`) that
assign to them or call methods on them, and the fields of the property's struct types. The model is
a pure function of the arguments and of these fields; a new variable, writer or field is state the
model does not know of. The digest-valued `shape:` entry covers everything the call graph
(resolved by go/types) reaches from the functions declared in the property's anchor files: per
function, method (with receiver kind), package variable and constant, its numeric literals, its comparison operators, the
package variables it reads and its writes through parameters or the receiver (including in-place
`sort.*`/`copy`/`append`). The entries behind the digest are in `shape_expected.txt` and in a
comment of the generated file. -/
def stateC20 : List (String × String) := [("globals:stats", "ErrMismatchedSamples ErrSampleSize ErrSamplesEqual ErrZeroVariance MannWhitneyExactLimit MannWhitneyTiesExactLimit StdNormal _KDEBoundaryMethod_index _KDEKernel_index _LocationHypothesis_index inf nan quantileCIApproxThreshold"), ("globals:mathx", "nan smallFact"), ("globals:vec", ""), ("globals:fit", ""), ("globals:scale", ""), ("globals:graph", ""), ("globals:graphalg", ""), ("globals:graphout", ""), ("globalwrites:stats", "MannWhitneyUTest:StdNormal.CDF"), ("globalwrites:mathx", ""), ("globalwrites:vec", ""), ("globalwrites:fit", ""), ("globalwrites:scale", ""), ("globalwrites:graph", ""), ("globalwrites:graphalg", ""), ("globalwrites:graphout", ""), ("fields:stats.Sample", "Xs:[]float64 Weights:[]float64 Sorted:bool"), ("fields:stats.KDE", "Sample:Sample Kernel:KDEKernel Bandwidth:float64 BoundaryMethod:KDEBoundaryMethod BoundaryMin:float64 BoundaryMax:float64"), ("fields:stats.UDist", "N1:int N2:int T:[]int"), ("fields:stats.StreamStats", "Count:uint Total:float64 Min:float64 Max:float64 mean:float64 meanOfSquares:float64 vM2:float64"), ("fields:stats.LinearHist", "min:float64 max:float64 delta:float64 low:uint high:uint bins:[]uint"), ("fields:scale.Linear", "Min:float64 Max:float64 Base:int Clamp:bool"), ("fields:scale.Log", "private:struct{} Min:float64 Max:float64 Base:int Clamp:bool"), ("fields:graphalg.NodeMarks", "marks:[]uint32"), ("fields:fit.PolynomialRegressionResult", "Coefficients:[]float64 F:func(xfloat64)float64"), ("shape:C20", "n=249 fnv64a=461733b92b642870")]

/-- the source has exactly the package-level variables, writers and struct fields the model accounts for -/
theorem state_C20 : holdsAll stateC20 = true := by decide +kernel

end MV.Facts
