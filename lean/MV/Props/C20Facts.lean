import MV.Props.FactsLib
/-! Exported entry points exercised by the C20 op table still exist in the source. -/
namespace MV.Facts

def apiC20 : List String := ["stats.MannWhitneyUTest", "stats.Sample.Quantile", "stats.Sample.Sort", "stats.Sample.Copy", "stats.QuantileCIResult.SampleCI", "stats.KDE.PDF", "stats.KDE.CDF", "stats.KDE.Bounds", "stats.UDist.CDF", "fit.LOESS", "fit.PolynomialRegression", "graph.SubgraphRemove", "graph.Equal", "graphalg.SCC", "graphalg.IDom", "graphalg.DomFrontier", "graphalg.PreOrder", "graphalg.Reverse", "vec.Sum", "vec.Map", "vec.Concat", "scale.Linear.Nice", "scale.Log.Nice", "stats.StreamStats.Add", "stats.StreamStats.Combine", "graphalg.NodeMarks.Mark", "graphalg.NodeMarks.Unmark"]

/-- every entry point of the C20 op table is still exported by the library -/
theorem facts_C20 : apiHas apiC20 = true := by decide


/-- State that outlives a call, as extracted from the source on this run: the package-level
variables of the packages this property's code lives in, the functions (other than `init`) that
assign to them or call methods on them, and the fields of the property's struct types. The model is
a pure function of the arguments and of these fields; a new variable, writer or field is state the
model does not know of. -/
def stateC20 : List (String × String) := [("globals:stats", "ErrMismatchedSamples ErrSampleSize ErrSamplesEqual ErrZeroVariance MannWhitneyExactLimit MannWhitneyTiesExactLimit StdNormal _KDEBoundaryMethod_index _KDEKernel_index _LocationHypothesis_index inf nan quantileCIApproxThreshold"), ("globals:mathx", "nan smallFact"), ("globals:vec", ""), ("globals:fit", ""), ("globals:scale", ""), ("globals:graph", ""), ("globals:graphalg", ""), ("globals:graphout", ""), ("globalwrites:stats", "MannWhitneyUTest:StdNormal.CDF"), ("globalwrites:mathx", ""), ("globalwrites:vec", ""), ("globalwrites:fit", ""), ("globalwrites:scale", ""), ("globalwrites:graph", ""), ("globalwrites:graphalg", ""), ("globalwrites:graphout", ""), ("fields:stats.Sample", "Xs:[]float64 Weights:[]float64 Sorted:bool"), ("fields:stats.KDE", "Sample:Sample Kernel:KDEKernel Bandwidth:float64 BoundaryMethod:KDEBoundaryMethod BoundaryMin:float64 BoundaryMax:float64"), ("fields:stats.UDist", "N1:int N2:int T:[]int"), ("fields:stats.StreamStats", "Count:uint Total:float64 Min:float64 Max:float64 mean:float64 meanOfSquares:float64 vM2:float64"), ("fields:stats.LinearHist", "min:float64 max:float64 delta:float64 low:uint high:uint bins:[]uint"), ("fields:scale.Linear", "Min:float64 Max:float64 Base:int Clamp:bool"), ("fields:scale.Log", "private:struct{} Min:float64 Max:float64 Base:int Clamp:bool"), ("fields:graphalg.NodeMarks", "marks:[]uint32"), ("fields:fit.PolynomialRegressionResult", "Coefficients:[]float64 F:func(xfloat64)float64"), ("funcs:stats", "n=117 fnv64a=80a50d6f629bd21b"), ("funcs:mathx", "n=13 fnv64a=721c592b642cc9ba"), ("funcs:vec", "n=6 fnv64a=d885ec76a92e6ea6"), ("funcs:fit", "n=7 fnv64a=2b973b271185ef06"), ("funcs:scale", "n=30 fnv64a=1f1f5241e57ecbaa"), ("funcs:graph", "n=13 fnv64a=91fcf3f7fdaf1da6"), ("funcs:graphalg", "n=27 fnv64a=e894f2184af9a92e"), ("funcs:graphout", "n=6 fnv64a=ef4b5ce9d193d85e")]

/-- the source has exactly the package-level variables, writers and struct fields the model accounts for -/
theorem state_C20 : holdsAll stateC20 = true := by decide +kernel

end MV.Facts
