import MV.Props.FactsLib
/-! Exported entry points exercised by the C20 op table still exist in the source. -/
namespace MV.Facts

def apiC20 : List String := ["stats.MannWhitneyUTest", "stats.Sample.Quantile", "stats.Sample.Sort", "stats.Sample.Copy", "stats.QuantileCIResult.SampleCI", "stats.KDE.PDF", "stats.KDE.CDF", "stats.KDE.Bounds", "stats.UDist.CDF", "fit.LOESS", "fit.PolynomialRegression", "graph.SubgraphRemove", "graph.Equal", "graphalg.SCC", "graphalg.IDom", "graphalg.DomFrontier", "graphalg.PreOrder", "graphalg.Reverse", "vec.Sum", "vec.Map", "vec.Concat", "scale.Linear.Nice", "scale.Log.Nice", "stats.StreamStats.Add", "stats.StreamStats.Combine", "graphalg.NodeMarks.Mark", "graphalg.NodeMarks.Unmark"]

/-- every entry point of the C20 op table is still exported by the library -/
theorem facts_C20 : apiHas apiC20 = true := by decide

end MV.Facts
