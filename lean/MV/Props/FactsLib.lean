import MV.Generated.Facts
/-!
Regenerated facts: `MV.Generated.facts` is rewritten from /repo's source on every
run by tools/extract; each property states which constants and literals its model
relies on, and proves (by evaluation) that the current source still has them.
-/
namespace MV.Facts

def lookup (k : String) : Option String := (MV.Generated.facts.find? fun p => p.1 == k).map (·.2)

/-- every expected (key, value) pair is present in the generated facts -/
def holdsAll (expected : List (String × String)) : Bool := expected.all fun (k, v) => lookup k == some v

/-- every listed exported function still exists -/
def apiHas (names : List String) : Bool := names.all fun n => MV.Generated.api.contains n

end MV.Facts
