import MV.Driver.Stream
import MV.Driver.Graph
import MV.Driver.MWU
import MV.Driver.Discrete
import MV.Driver.Hist
import MV.Driver.Sample
import MV.Driver.Scale
import MV.Driver.QCI
import MV.Driver.InvCDF
import MV.Driver.Fit
import MV.Driver.KDE
import MV.Driver.TTest
import MV.Driver.Dists
import MV.Driver.Purity
open MV

/-- ops whose handler models panics itself -/
def panicAware : List String := []

def dispatchOp (ins outs : List J) : Verdict :=
  match ins with
  | .atom "st" :: rest => Stream.handle rest outs
  | .atom "ud" :: rest => MWU.handleUD rest outs
  | .atom "mwu" :: rest => MWU.handleMWU rest outs
  | .atom "bin" :: rest => Discrete.handleBin rest outs
  | .atom "lh" :: rest => Hist.handleLin rest outs
  | .atom "smp" :: rest => Sample.handle rest outs
  | .atom "sc" :: rest => Scale.handleScale rest outs
  | .atom "qci" :: rest => QCI.handleQCI rest outs
  | .atom "inv" :: rest => InvCDF.handleInv rest outs
  | .atom "lls" :: rest => Fit.handleLLS rest outs
  | .atom "kde" :: rest => KDE.handleKDE rest outs
  | .atom "tt" :: rest => TTest.handleTT rest outs
  | .atom "nd" :: rest => Dists.handleND rest outs
  | .atom "pure" :: rest => Purity.handle rest outs
  | .atom "td" :: rest => Dists.handleTD rest outs
  | .atom "dd" :: rest => Dists.handleDD rest outs
  | .atom "mx" :: rest => Dists.handleMX rest outs
  | .atom "meanci" :: rest => TTest.handleMeanCI rest outs
  | .atom "bw" :: rest => KDE.handleBW rest outs
  | .atom "preg" :: rest => Fit.handlePReg rest outs
  | .atom "loess" :: rest => Fit.handleLoess rest outs
  | .atom "rnd" :: rest => InvCDF.handleRnd rest outs
  | .atom "sci" :: rest => QCI.handleSCI rest outs
  | .atom "findlevel" :: rest => Scale.handleFindLevel rest outs
  | .atom "lticks" :: rest => Scale.handleLinTicks rest outs
  | .atom "lnice" :: rest => Scale.handleLinNice rest outs
  | .atom "gticks" :: rest => Scale.handleLogTicks rest outs
  | .atom "gnice" :: rest => Scale.handleLogNice rest outs
  | .atom "vec" :: rest => Sample.handleVec rest outs
  | .atom "gh" :: rest => Hist.handleLog rest outs
  | .atom "hyp" :: rest => Discrete.handleHyp rest outs
  -- the exported variable stats.StdNormal reassigned: no state of the model (no modelled result reads it)
  | [.atom "stdnormal", _, _] => if outs.map J.render == ["set"] then .ok "set-stdnormal" else .badOp "stdnormal"
  | .atom op :: rest =>
    if Graph.ops.contains op then Graph.handle op rest outs
    else .badOp s!"unknown op {op}"
  | _ => .badOp "empty line"

def dispatch (ts : List J) : Verdict :=
  let (ins, outs) := splitArrow ts
  -- a panic or a time-out of the real code is a failure unless a handler models it
  let crashed := match outs with
    | [.atom s] => if s.startsWith "panic:" || s == "timeout" then some s else none
    | _ => none
  match crashed, ins with
  | _, .atom op :: rest =>
    if Graph.ops.contains op && !Graph.wellFormed op rest then .badOp s!"{op}: ill-formed input (outside the entry point's contract)" else
    match crashed with
    | none => dispatchOp ins outs
    | some s =>
      if s.startsWith "panic:the_library_wrote_past" then .fail "caller-storage" s!"{s.drop 6}" else
      if panicAware.contains op then dispatchOp ins outs else .fail "panic" s!"real code did not return: {s}"
  | _, _ => dispatchOp ins outs

partial def loop (h : IO.FS.Stream) (out : IO.FS.Stream) : IO Unit := do
  let line ← h.getLine
  if line.isEmpty then return ()
  let v := match parseLine line.toList [] with
    | some ts => if ts.isEmpty then Verdict.skip "blank" else dispatch ts
    | none => Verdict.badOp "parse"
  out.putStrLn (String.ofList (v.render.toList.map fun c => if c == '\n' || c == '\r' then ' ' else c))
  loop h out

def main : IO Unit := do
  let stdin ← IO.getStdin
  let stdout ← IO.getStdout
  loop stdin stdout
