module extract

go 1.22
