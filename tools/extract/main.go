// extract: go/ast fact extractor. Usage: extract <repo> <out.lean>
// Emits MV/Generated/Facts.lean: named package-level constants/variables with literal values,
// the numeric literals of a curated list of functions (sorted multiset), and the list of exported
// functions and methods (for C20's coverage table).
package main

import (
	"fmt"
	"go/ast"
	"go/parser"
	"go/token"
	"go/types"
	"os"
	"path/filepath"
	"sort"
	"strings"
)

var curated = map[string]bool{
	"stats.BandwidthScott": true, "stats.BandwidthSilverman": true, "stats.KDE.Bounds": true,
	"stats.Sample.Quantile": true, "stats.InvCDF": true, "stats.QuantileCI": true,
	"stats.HistogramQuantile": true, "stats.NormalDist.Bounds": true, "stats.TDist.Bounds": true,
	"stats.UDist.Step": true, "stats.MeanCI": true,
	"scale.TickOptions.FindLevel": true, "scale.Linear.spacingAtLevel": true, "scale.Log.spacingAtLevel": true,
	"scale.Linear.ebase":    true,
	"graphalg.NewNodeMarks": true, "graphalg.NodeMarks.grow": true, "graphalg.NodeMarks.Test": true,
	"fit.LOESS": true, "mathx.Choose": true,
}

func recvName(fd *ast.FuncDecl) string {
	if fd.Recv == nil || len(fd.Recv.List) == 0 {
		return ""
	}
	t := fd.Recv.List[0].Type
	if s, ok := t.(*ast.StarExpr); ok {
		t = s.X
	}
	if id, ok := t.(*ast.Ident); ok {
		return id.Name
	}
	return ""
}

func fieldsOf(fl *ast.FieldList) []*ast.Field {
	if fl == nil {
		return nil
	}
	return fl.List
}

func litText(e ast.Expr) (string, bool) {
	switch v := e.(type) {
	case *ast.BasicLit:
		if v.Kind == token.INT || v.Kind == token.FLOAT {
			return v.Value, true
		}
	case *ast.UnaryExpr:
		if v.Op == token.SUB {
			if s, ok := litText(v.X); ok {
				return "-" + s, true
			}
		}
	}
	return "", false
}

func main() {
	repo, out := os.Args[1], os.Args[2]
	facts := map[string]string{}
	files := map[string][]*ast.File{}
	funcLists := map[string]string{} // readable lists behind digest-valued facts
	var api []string
	fset := token.NewFileSet()
	filepath.Walk(repo, func(path string, info os.FileInfo, err error) error {
		if err != nil || info.IsDir() || !strings.HasSuffix(path, ".go") || strings.HasSuffix(path, "_test.go") {
			return nil
		}
		if strings.Contains(path, "/cmd/") || strings.Contains(path, "/internal/") || strings.Contains(path, "/.git/") {
			return nil
		}
		f, err := parser.ParseFile(fset, path, nil, 0)
		if err != nil {
			fmt.Fprintln(os.Stderr, "parse error:", err)
			os.Exit(1)
		}
		pkg := f.Name.Name
		files[pkg] = append(files[pkg], f)
		for _, d := range f.Decls {
			switch dd := d.(type) {
			case *ast.GenDecl:
				if dd.Tok != token.CONST && dd.Tok != token.VAR {
					continue
				}
				for _, sp := range dd.Specs {
					vs := sp.(*ast.ValueSpec)
					for i, nm := range vs.Names {
						if i < len(vs.Values) {
							if s, ok := litText(vs.Values[i]); ok {
								facts[pkg+"."+nm.Name] = s
							}
						}
					}
				}
			case *ast.FuncDecl:
				name := dd.Name.Name
				if r := recvName(dd); r != "" {
					name = r + "." + name
				}
				full := pkg + "." + name
				if dd.Name.IsExported() && (dd.Recv == nil || ast.IsExported(recvName(dd))) {
					api = append(api, full)
				}
				if curated[full] && dd.Body != nil {
					var lits []string
					ast.Inspect(dd.Body, func(n ast.Node) bool {
						if bl, ok := n.(*ast.BasicLit); ok && (bl.Kind == token.INT || bl.Kind == token.FLOAT) {
							lits = append(lits, bl.Value)
						}
						return true
					})
					sort.Strings(lits)
					facts["lits:"+full] = strings.Join(lits, " ")
				}
			}
		}
		return nil
	})
	// state that outlives a call: package-level variables, the functions (other than init) that
	// assign to them, and the fields of every struct type
	for pkg, fs := range files {
		globals := map[string]bool{}
		for _, f := range fs {
			for _, d := range f.Decls {
				gd, ok := d.(*ast.GenDecl)
				if !ok {
					continue
				}
				for _, sp := range gd.Specs {
					switch v := sp.(type) {
					case *ast.ValueSpec:
						if gd.Tok == token.VAR {
							for _, nm := range v.Names {
								if nm.Name != "_" {
									globals[nm.Name] = true
								}
							}
						}
					case *ast.TypeSpec:
						if st, ok := v.Type.(*ast.StructType); ok {
							var fields []string
							for _, fl := range st.Fields.List {
								ty := strings.Join(strings.Fields(types.ExprString(fl.Type)), "")
								if len(fl.Names) == 0 {
									fields = append(fields, "(embedded):"+ty)
								}
								for _, nm := range fl.Names {
									fields = append(fields, nm.Name+":"+ty)
								}
							}
							facts["fields:"+pkg+"."+v.Name.Name] = strings.Join(fields, " ")
						}
					}
				}
			}
		}
		var gl []string
		for g := range globals {
			gl = append(gl, g)
		}
		sort.Strings(gl)
		facts["globals:"+pkg] = strings.Join(gl, " ")
		writes := map[string]bool{}
		for _, f := range fs {
			for _, d := range f.Decls {
				fd, ok := d.(*ast.FuncDecl)
				if !ok || fd.Body == nil || (fd.Recv == nil && fd.Name.Name == "init") {
					continue
				}
				name := fd.Name.Name
				if r := recvName(fd); r != "" {
					name = r + "." + name
				}
				// names declared inside the function shadow globals: collect them roughly
				local := map[string]bool{}
				ast.Inspect(fd, func(n ast.Node) bool {
					switch v := n.(type) {
					case *ast.AssignStmt:
						if v.Tok == token.DEFINE {
							for _, l := range v.Lhs {
								if id, ok := l.(*ast.Ident); ok {
									local[id.Name] = true
								}
							}
						}
					case *ast.ValueSpec:
						for _, nm := range v.Names {
							local[nm.Name] = true
						}
					case *ast.Field:
						for _, nm := range v.Names {
							local[nm.Name] = true
						}
					case *ast.RangeStmt:
						if v.Tok == token.DEFINE {
							for _, e := range []ast.Expr{v.Key, v.Value} {
								if id, ok := e.(*ast.Ident); ok {
									local[id.Name] = true
								}
							}
						}
					}
					return true
				})
				root := func(e ast.Expr) string {
					for {
						switch v := e.(type) {
						case *ast.Ident:
							return v.Name
						case *ast.IndexExpr:
							e = v.X
						case *ast.SelectorExpr:
							e = v.X
						case *ast.StarExpr:
							e = v.X
						case *ast.ParenExpr:
							e = v.X
						default:
							return ""
						}
					}
				}
				note := func(e ast.Expr) {
					if r := root(e); r != "" && globals[r] && !local[r] {
						writes[name+":"+r] = true
					}
				}
				ast.Inspect(fd.Body, func(n ast.Node) bool {
					switch v := n.(type) {
					case *ast.AssignStmt:
						if v.Tok != token.DEFINE {
							for _, l := range v.Lhs {
								note(l)
							}
						}
					case *ast.IncDecStmt:
						note(v.X)
					case *ast.UnaryExpr:
						if v.Op == token.AND {
							note(v.X)
						}
					case *ast.CallExpr: // method calls on a global (mutex, pool, map helpers)
						if se, ok := v.Fun.(*ast.SelectorExpr); ok {
							if id, ok := se.X.(*ast.Ident); ok && globals[id.Name] && !local[id.Name] {
								writes[name+":"+id.Name+"."+se.Sel.Name] = true
							}
						}
					}
					return true
				})
			}
		}
		var wl []string
		for wv := range writes {
			wl = append(wl, wv)
		}
		sort.Strings(wl)
		facts["globalwrites:"+pkg] = strings.Join(wl, " ")
	}
	// typed pass: per-property shape of the reachable code, and the constant dictionary
	if len(os.Args) > 3 {
		dictDir := ""
		if len(os.Args) > 4 {
			dictDir = os.Args[4]
		}
		sf, sl, err := shapePass(repo, os.Args[3], dictDir)
		if err != nil {
			fmt.Fprintln(os.Stderr, "shape pass:", err)
			os.Exit(1)
		}
		for k, v := range sf {
			facts[k] = v
		}
		for k, v := range sl {
			funcLists[k] = v
		}
	}
	var keys []string
	for k := range facts {
		keys = append(keys, k)
	}
	sort.Strings(keys)
	sort.Strings(api)
	var b strings.Builder
	b.WriteString("-- generated by tools/extract from /repo on every run; do not edit\nnamespace MV.Generated\n\n")
	b.WriteString("def facts : List (String × String) := [\n")
	for i, k := range keys {
		sep := ","
		if i == len(keys)-1 {
			sep = ""
		}
		fmt.Fprintf(&b, "  (%q, %q)%s\n", k, facts[k], sep)
	}
	b.WriteString("]\n\n")
	var fl []string
	for k := range funcLists {
		fl = append(fl, k)
	}
	sort.Strings(fl)
	for _, k := range fl {
		fmt.Fprintf(&b, "-- %s = %s\n", k, funcLists[k])
	}
	b.WriteString("\ndef api : List String := [\n")
	for i, a := range api {
		sep := ","
		if i == len(api)-1 {
			sep = ""
		}
		fmt.Fprintf(&b, "  %q%s\n", a, sep)
	}
	b.WriteString("]\n\nend MV.Generated\n")
	os.WriteFile(out, []byte(b.String()), 0644)
}
