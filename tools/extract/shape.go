package main

// Typed pass: the "shape" of the code each property's anchor files reach through the call graph.
//
// For every function, method and package-level variable of the module an entry
//
//	pkg.[*]Recv.name|L=<numeric literals>|C=<comparison operators>|R=<package variables read>|W=<writes through parameters>
//
// is computed (go/types resolves identifiers, so a local that shadows a global is not a read and
// a method call goes to the method of the receiver's type; a call through an interface goes to
// every module method of that name whose receiver implements the interface). Per property the
// roots are all functions declared in the property's anchor files (properties.jsonl); the fact
// shape:Cxx is a digest of the sorted entries of everything reachable from them. A new cutoff,
// fast path, helper, reader of an exported variable, writer through an argument or change of
// receiver kind in code the property depends on changes the digest; code the property cannot
// reach does not.
//
// The numeric constants of the reachable code (literals and folded constant expressions) are
// also written out as a dictionary for the generators (sizes, thresholds, break points).

import (
	"encoding/json"
	"fmt"
	"go/ast"
	"go/constant"
	"go/importer"
	"go/parser"
	"go/token"
	"go/types"
	"hash/fnv"
	"os"
	"path/filepath"
	"sort"
	"strconv"
	"strings"
)

const modPath = "github.com/aclements/go-moremath"

// properties quantified over every exported function and method (C20: purity and race freedom of the API)
var wholeAPI = map[string]bool{"C20": true}

type shapeNode struct {
	key    string
	lits   []string
	cmps   []string // comparison operators (boundary conditions: < vs <=, == vs !=)
	reads  map[string]bool
	pw     map[string]bool
	callee map[types.Object]bool
	consts map[string]bool // dictionary: literals and folded constant expressions
	file   string          // path relative to the repository root
}

type modImporter struct {
	pkgs map[string]*types.Package
	std  types.Importer
}

func (m *modImporter) Import(path string) (*types.Package, error) {
	if p, ok := m.pkgs[path]; ok {
		return p, nil
	}
	if strings.HasPrefix(path, modPath) {
		return nil, fmt.Errorf("module package %s not loaded yet", path)
	}
	return m.std.Import(path)
}

func shapePass(repo, propsFile, dictDir string) (map[string]string, map[string]string, error) {
	fset := token.NewFileSet()
	type pkgSrc struct {
		path  string
		files []*ast.File
		names []string
	}
	srcs := map[string]*pkgSrc{}
	err := filepath.Walk(repo, func(path string, info os.FileInfo, err error) error {
		if err != nil || info.IsDir() || !strings.HasSuffix(path, ".go") || strings.HasSuffix(path, "_test.go") {
			return nil
		}
		if strings.Contains(path, "/cmd/") || strings.Contains(path, "/internal/") || strings.Contains(path, "/.git/") {
			return nil
		}
		f, err := parserParse(fset, path)
		if err != nil {
			return err
		}
		if hasBuildIgnore(f) {
			return nil
		}
		rel, _ := filepath.Rel(repo, filepath.Dir(path))
		ip := modPath
		if rel != "." {
			ip = modPath + "/" + filepath.ToSlash(rel)
		}
		if srcs[ip] == nil {
			srcs[ip] = &pkgSrc{path: ip}
		}
		srcs[ip].files = append(srcs[ip].files, f)
		relFile, _ := filepath.Rel(repo, path)
		srcs[ip].names = append(srcs[ip].names, filepath.ToSlash(relFile))
		return nil
	})
	if err != nil {
		return nil, nil, err
	}
	imp := &modImporter{pkgs: map[string]*types.Package{}, std: importer.ForCompiler(fset, "source", nil)}
	info := &types.Info{Uses: map[*ast.Ident]types.Object{}, Defs: map[*ast.Ident]types.Object{},
		Types: map[ast.Expr]types.TypeAndValue{}, Selections: map[*ast.SelectorExpr]*types.Selection{},
		Implicits: map[ast.Node]types.Object{}}
	// type-check in dependency order (retry until no progress)
	pending := map[string]*pkgSrc{}
	for k, v := range srcs {
		pending[k] = v
	}
	for len(pending) > 0 {
		progress := false
		var keys []string
		for k := range pending {
			keys = append(keys, k)
		}
		sort.Strings(keys)
		var lastErr error
		for _, k := range keys {
			ps := pending[k]
			ready := true
			for _, f := range ps.files {
				for _, im := range f.Imports {
					p := strings.Trim(im.Path.Value, "\"")
					if strings.HasPrefix(p, modPath) && imp.pkgs[p] == nil {
						if _, ours := srcs[p]; ours {
							ready = false
						}
					}
				}
			}
			if !ready {
				continue
			}
			conf := types.Config{Importer: imp, Error: func(error) {}}
			pkg, err := conf.Check(ps.path, fset, ps.files, info)
			if err != nil {
				lastErr = err
			}
			imp.pkgs[ps.path] = pkg
			delete(pending, k)
			progress = true
		}
		if !progress {
			return nil, nil, fmt.Errorf("cannot order packages for type checking: %v", lastErr)
		}
	}

	short := func(p *types.Package) string {
		if p == nil {
			return ""
		}
		return p.Name()
	}
	nodes := map[types.Object]*shapeNode{}
	byFile := map[string][]types.Object{}
	var methods []*types.Func // module methods, for interface dispatch
	isModObj := func(o types.Object) bool {
		return o != nil && o.Pkg() != nil && strings.HasPrefix(o.Pkg().Path(), modPath)
	}
	isPkgVar := func(o types.Object) bool {
		v, ok := o.(*types.Var)
		return ok && isModObj(o) && !v.IsField() && v.Parent() == v.Pkg().Scope()
	}
	collect := func(n *shapeNode, body ast.Node, params map[types.Object]bool) {
		var rootObj func(e ast.Expr) types.Object
		rootObj = func(e ast.Expr) types.Object {
			for {
				switch v := e.(type) {
				case *ast.Ident:
					return info.Uses[v]
				case *ast.IndexExpr:
					e = v.X
				case *ast.SliceExpr:
					e = v.X
				case *ast.SelectorExpr:
					e = v.X
				case *ast.StarExpr:
					e = v.X
				case *ast.ParenExpr:
					e = v.X
				case *ast.TypeAssertExpr:
					e = v.X
				case *ast.UnaryExpr:
					if v.Op != token.AND {
						return nil
					}
					e = v.X
				default:
					return nil
				}
			}
		}
		// local names bound to (part of) a parameter stand for it: x := p.(T), q := &p.f, s := p[i:j],
		// and the variable of a type switch on a parameter
		if params != nil && body != nil {
			for pass := 0; pass < 2; pass++ {
				ast.Inspect(body, func(x ast.Node) bool {
					switch v := x.(type) {
					case *ast.AssignStmt:
						if v.Tok == token.DEFINE && len(v.Lhs) >= 1 && len(v.Rhs) == 1 {
							if o := rootObj(v.Rhs[0]); o != nil && params[o] {
								if id, ok := v.Lhs[0].(*ast.Ident); ok {
									if d := info.Defs[id]; d != nil {
										if _, basic := d.Type().Underlying().(*types.Basic); !basic {
											params[d] = true
										}
									}
								}
							}
						}
					case *ast.TypeSwitchStmt:
						if as, ok := v.Assign.(*ast.AssignStmt); ok && len(as.Rhs) == 1 {
							if o := rootObj(as.Rhs[0]); o != nil && params[o] {
								for _, cl := range v.Body.List {
									if io := info.Implicits[cl]; io != nil {
										params[io] = true
									}
								}
							}
						}
					}
					return true
				})
			}
		}
		// state behind a closure: assignments, inside a function literal, to (something rooted at) a variable
		// declared outside that literal but inside the enclosing function. A returned closure that writes such a
		// variable keeps state between - and shares it among concurrent - calls.
		if body != nil {
			var lits []*ast.FuncLit
			ast.Inspect(body, func(x ast.Node) bool {
				if fl, ok := x.(*ast.FuncLit); ok {
					lits = append(lits, fl)
				}
				return true
			})
			for _, fl := range lits {
				capNote := func(e ast.Expr) {
					o := rootObj(e)
					v, ok := o.(*types.Var)
					if !ok || v.IsField() || v.Pkg() == nil || v.Parent() == v.Pkg().Scope() {
						return
					}
					if v.Pos() < fl.Pos() || v.Pos() > fl.End() {
						n.pw["cap:"+v.Name()] = true
					}
				}
				ast.Inspect(fl.Body, func(x ast.Node) bool {
					switch v := x.(type) {
					case *ast.AssignStmt:
						if v.Tok != token.DEFINE {
							for _, l := range v.Lhs {
								capNote(l)
							}
						}
					case *ast.IncDecStmt:
						capNote(v.X)
					}
					return true
				})
			}
		}
		pnote := func(e ast.Expr, how string) {
			if _, plain := e.(*ast.Ident); plain && how == "" {
				return
			}
			if o := rootObj(e); o != nil && params[o] {
				n.pw[how+o.Name()] = true
			}
		}
		ast.Inspect(body, func(x ast.Node) bool {
			switch v := x.(type) {
			case *ast.BasicLit:
				if v.Kind == token.INT || v.Kind == token.FLOAT {
					n.lits = append(n.lits, v.Value)
				}
			case *ast.BinaryExpr:
				switch v.Op {
				case token.LSS, token.LEQ, token.GTR, token.GEQ, token.EQL, token.NEQ:
					n.cmps = append(n.cmps, v.Op.String())
				}
			case *ast.Ident:
				o := info.Uses[v]
				if isPkgVar(o) {
					n.reads[short(o.Pkg())+"."+o.Name()] = true
					n.callee[o] = true
				}
				if f, ok := o.(*types.Func); ok && isModObj(o) {
					n.callee[f] = true
				}
			case *ast.AssignStmt:
				if v.Tok != token.DEFINE {
					for _, l := range v.Lhs {
						pnote(l, "")
					}
				}
			case *ast.IncDecStmt:
				pnote(v.X, "")
			case *ast.CallExpr:
				callee := strings.Join(strings.Fields(types.ExprString(v.Fun)), "")
				if (callee == "copy" || callee == "append" || strings.HasPrefix(callee, "sort.")) && len(v.Args) > 0 {
					pnote(v.Args[0], callee+"@")
				}
				// a pointer-receiver method of the module called on (something reached from) a parameter
				if se, ok := v.Fun.(*ast.SelectorExpr); ok {
					if f, ok := info.Uses[se.Sel].(*types.Func); ok && isModObj(f) {
						if sig := f.Type().(*types.Signature); sig.Recv() != nil {
							if _, ptr := sig.Recv().Type().(*types.Pointer); ptr {
								pnote(se.X, f.Name()+"()@")
							}
						}
					}
				}
			}
			if e, ok := x.(ast.Expr); ok {
				if tv, ok := info.Types[e]; ok && tv.Value != nil {
					if k := tv.Value.Kind(); k == constant.Int || k == constant.Float {
						n.consts[tv.Value.ExactString()] = true
					}
				}
			}
			return true
		})
	}
	for _, ps := range srcs {
		pkg := imp.pkgs[ps.path]
		for i, f := range ps.files {
			for _, d := range f.Decls {
				switch dd := d.(type) {
				case *ast.FuncDecl:
					obj := info.Defs[dd.Name]
					if obj == nil {
						continue
					}
					name := dd.Name.Name
					if r := recvName(dd); r != "" {
						name = r + "." + name
						if _, ptr := dd.Recv.List[0].Type.(*ast.StarExpr); ptr {
							name = "*" + name
						}
						methods = append(methods, obj.(*types.Func))
					}
					n := &shapeNode{key: short(pkg) + "." + name, reads: map[string]bool{}, pw: map[string]bool{},
						callee: map[types.Object]bool{}, consts: map[string]bool{}, file: ps.names[i]}
					params := map[types.Object]bool{}
					for _, fl := range append(append([]*ast.Field{}, fieldsOf(dd.Recv)...), fieldsOf(dd.Type.Params)...) {
						for _, nm := range fl.Names {
							if o := info.Defs[nm]; o != nil {
								params[o] = true
							}
						}
					}
					if dd.Body != nil {
						collect(n, dd.Body, params)
					}
					nodes[obj] = n
					byFile[ps.names[i]] = append(byFile[ps.names[i]], obj)
				case *ast.GenDecl:
					if dd.Tok != token.VAR && dd.Tok != token.CONST {
						continue
					}
					for _, sp := range dd.Specs {
						vs := sp.(*ast.ValueSpec)
						for j, nm := range vs.Names {
							obj := info.Defs[nm]
							if obj == nil || nm.Name == "_" {
								continue
							}
							kind := "var "
							if dd.Tok == token.CONST {
								kind = "const "
							}
							n := &shapeNode{key: short(pkg) + "." + kind + nm.Name, reads: map[string]bool{}, pw: map[string]bool{},
								callee: map[types.Object]bool{}, consts: map[string]bool{}, file: ps.names[i]}
							if j < len(vs.Values) {
								collect(n, vs.Values[j], nil)
							} else if len(vs.Values) == 1 {
								collect(n, vs.Values[0], nil)
							}
							if c, ok := obj.(*types.Const); ok {
								if k := c.Val().Kind(); k == constant.Int || k == constant.Float {
									n.consts[c.Val().ExactString()] = true
									n.lits = append(n.lits, "="+c.Val().ExactString())
								}
							}
							nodes[obj] = n
							byFile[ps.names[i]] = append(byFile[ps.names[i]], obj)
						}
					}
				}
			}
		}
	}
	// uses of package-level constants count as edges too (their value is part of the shape)
	// -- handled through info.Uses in collect for vars; add constants:
	for _, ps := range srcs {
		for _, f := range ps.files {
			for _, d := range f.Decls {
				fd, ok := d.(*ast.FuncDecl)
				if !ok || fd.Body == nil {
					continue
				}
				n := nodes[info.Defs[fd.Name]]
				if n == nil {
					continue
				}
				ast.Inspect(fd.Body, func(x ast.Node) bool {
					if id, ok := x.(*ast.Ident); ok {
						if c, ok := info.Uses[id].(*types.Const); ok && isModObj(c) && c.Parent() == c.Pkg().Scope() {
							n.callee[c] = true
						}
					}
					return true
				})
			}
		}
	}
	// interface dispatch: a use of an interface method reaches every module method of that name whose
	// receiver (or pointer to it) implements the interface
	expand := func(o types.Object) []types.Object {
		f, ok := o.(*types.Func)
		if !ok {
			return []types.Object{o}
		}
		sig := f.Type().(*types.Signature)
		if sig.Recv() == nil {
			return []types.Object{o}
		}
		it, ok := sig.Recv().Type().Underlying().(*types.Interface)
		if !ok {
			return []types.Object{o}
		}
		var out []types.Object
		for _, m := range methods {
			if m.Name() != f.Name() {
				continue
			}
			rt := m.Type().(*types.Signature).Recv().Type()
			base := rt
			if p, ok := rt.(*types.Pointer); ok {
				base = p.Elem()
			}
			if types.Implements(base, it) || types.Implements(types.NewPointer(base), it) {
				out = append(out, m)
			}
		}
		return out
	}
	entry := func(n *shapeNode) string {
		l := append([]string{}, n.lits...)
		sort.Strings(l)
		set := func(m map[string]bool) string {
			var s []string
			for k := range m {
				s = append(s, k)
			}
			sort.Strings(s)
			return strings.Join(s, ",")
		}
		c := append([]string{}, n.cmps...)
		sort.Strings(c)
		return n.key + "|L=" + strings.Join(l, ",") + "|C=" + strings.Join(c, "") + "|R=" + set(n.reads) + "|W=" + set(n.pw)
	}

	facts := map[string]string{}
	lists := map[string]string{}
	pf, err := os.Open(propsFile)
	if err != nil {
		return nil, nil, err
	}
	defer pf.Close()
	dec := json.NewDecoder(pf)
	if dictDir != "" {
		os.MkdirAll(dictDir, 0755)
	}
	for dec.More() {
		var p struct {
			ID      string `json:"id"`
			Anchors struct {
				Files []string `json:"files"`
			} `json:"anchors"`
		}
		if err := dec.Decode(&p); err != nil {
			return nil, nil, err
		}
		seen := map[types.Object]bool{}
		var queue []types.Object
		// a property about the whole exported surface (its harness drives every entry point of every package)
		// takes every file of the library as a root
		if wholeAPI[p.ID] {
			p.Anchors.Files = p.Anchors.Files[:0]
			for f := range byFile {
				p.Anchors.Files = append(p.Anchors.Files, f)
			}
			sort.Strings(p.Anchors.Files)
		}
		for _, f := range p.Anchors.Files {
			for _, o := range byFile[f] {
				if !seen[o] {
					seen[o] = true
					queue = append(queue, o)
				}
			}
		}
		for len(queue) > 0 {
			o := queue[0]
			queue = queue[1:]
			n := nodes[o]
			if n == nil {
				continue
			}
			for c := range n.callee {
				for _, t := range expand(c) {
					if !seen[t] && nodes[t] != nil {
						seen[t] = true
						queue = append(queue, t)
					}
				}
			}
		}
		var entries []string
		dict := map[string]bool{}
		for o := range seen {
			if n := nodes[o]; n != nil {
				entries = append(entries, entry(n))
				for c := range n.consts {
					dict[c] = true
				}
			}
		}
		sort.Strings(entries)
		hh := fnv.New64a()
		hh.Write([]byte(strings.Join(entries, " ")))
		facts["shape:"+p.ID] = fmt.Sprintf("n=%d fnv64a=%016x", len(entries), hh.Sum64())
		lists["shape:"+p.ID] = strings.Join(entries, " ")
		if dictDir != "" {
			var dl []string
			for c := range dict {
				v := constant.MakeFromLiteral(c, token.FLOAT, 0)
				if strings.Contains(c, "/") {
					parts := strings.SplitN(c, "/", 2)
					v = constant.BinaryOp(constant.MakeFromLiteral(parts[0], token.INT, 0), token.QUO, constant.ToFloat(constant.MakeFromLiteral(parts[1], token.INT, 0)))
				}
				f, _ := constant.Float64Val(v)
				dl = append(dl, strconv.FormatFloat(f, 'g', -1, 64))
			}
			sort.Strings(dl)
			os.WriteFile(filepath.Join(dictDir, p.ID+".txt"), []byte(strings.Join(dl, "\n")+"\n"), 0644)
		}
	}
	return facts, lists, nil
}

func parserParse(fset *token.FileSet, path string) (*ast.File, error) {
	return parser.ParseFile(fset, path, nil, parser.ParseComments)
}

// files excluded from the default build (//go:build ignore, or a tag such as verif) are not part of the library
func hasBuildIgnore(f *ast.File) bool {
	for _, cg := range f.Comments {
		if cg.Pos() > f.Package {
			break
		}
		for _, c := range cg.List {
			if strings.HasPrefix(c.Text, "//go:build ") || strings.HasPrefix(c.Text, "// +build ") {
				return true
			}
		}
	}
	return false
}
