module go2lean

go 1.22
