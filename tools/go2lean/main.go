// go2lean translates a small, fixed list of pure integer functions of the
// library into Lean definitions (MV/Generated/Code.lean). It is run on every
// check; MV/Props/C02Gen.lean proves that the translated definitions equal the
// hand-written model functions, so a change to one of these Go functions
// either cannot be translated any more (the tool fails, which the check reports
// as a broken obligation) or breaks a proof.
//
// Supported subset (anything else is an error, never a guess):
//   - parameters and results of type int, bool, []int; a value receiver whose
//     fields are used read-only (each used field becomes a parameter)
//   - statements: x := e, x = e, x op= e, x++/x--, if/else, return,
//     `for k := a; k <= b; k++`, `for k := a; k < b; k++`, `for k := b; k > a; k--`
//     (k not assigned in the body, no return inside), `for _, x := range xs`
//     whose body is a single `if cond { return c }` (translated to any) or
//     contains no return
//   - expressions: integer literals, identifiers, + - * (no division), unary -,
//     comparisons, && || !, len(xs), xs[i], calls of other translated functions
//
// Integers are unbounded Int in Lean (the model's convention: overflow is outside
// the properties); slices are Array Int read with getD … 0.
package main

import (
	"fmt"
	"go/ast"
	"go/parser"
	"go/token"
	"os"
	"path/filepath"
	"sort"
	"strings"
)

type target struct{ dir, recv, name string }

var targets = []target{
	{"stats", "", "maxint"},
	{"stats", "", "minint"},
	{"stats", "", "sumint"},
	{"stats", "UDist", "hasTies"},
	{"stats", "", "twoUmin"},
	{"stats", "", "twoUmax"},
}

var translated = map[string]bool{}

func fail(format string, a ...interface{}) {
	fmt.Fprintf(os.Stderr, "go2lean: "+format+"\n", a...)
	os.Exit(1)
}

type fn struct {
	name   string
	params []string // "x : Int"
	ret    string
	body   string
}

type ctx struct {
	fset   *token.FileSet
	recv   string            // receiver variable name
	fields map[string]string // receiver field -> Lean type
	types  map[string]string // variable -> Lean type
}

func leanType(e ast.Expr) string {
	switch t := e.(type) {
	case *ast.Ident:
		switch t.Name {
		case "int":
			return "Int"
		case "bool":
			return "Bool"
		}
	case *ast.ArrayType:
		if t.Len == nil {
			if id, ok := t.Elt.(*ast.Ident); ok && id.Name == "int" {
				return "Array Int"
			}
		}
	}
	fail("unsupported type %T", e)
	return ""
}

func (c *ctx) expr(e ast.Expr) string {
	switch v := e.(type) {
	case *ast.BasicLit:
		if v.Kind != token.INT {
			fail("unsupported literal %s", v.Value)
		}
		return "(" + v.Value + " : Int)"
	case *ast.Ident:
		switch v.Name {
		case "true", "false":
			return v.Name
		}
		return v.Name
	case *ast.ParenExpr:
		return "(" + c.expr(v.X) + ")"
	case *ast.UnaryExpr:
		switch v.Op {
		case token.SUB:
			return "(-" + c.expr(v.X) + ")"
		case token.NOT:
			return "(!" + c.expr(v.X) + ")"
		}
	case *ast.BinaryExpr:
		ops := map[token.Token]string{token.ADD: "+", token.SUB: "-", token.MUL: "*",
			token.LSS: "<", token.LEQ: "≤", token.GTR: ">", token.GEQ: "≥", token.EQL: "==", token.NEQ: "!=",
			token.LAND: "&&", token.LOR: "||"}
		op, ok := ops[v.Op]
		if !ok {
			fail("unsupported operator %s", v.Op)
		}
		l, r := c.expr(v.X), c.expr(v.Y)
		switch v.Op {
		case token.LSS, token.LEQ, token.GTR, token.GEQ:
			return "(decide (" + l + " " + op + " " + r + "))"
		}
		return "(" + l + " " + op + " " + r + ")"
	case *ast.IndexExpr:
		return "(" + c.expr(v.X) + ".getD (" + c.expr(v.Index) + ").toNat 0)"
	case *ast.SelectorExpr:
		if id, ok := v.X.(*ast.Ident); ok && id.Name == c.recv && c.recv != "" {
			if _, ok := c.fields[v.Sel.Name]; !ok {
				fail("receiver field %s has no known type", v.Sel.Name)
			}
			return v.Sel.Name
		}
	case *ast.CallExpr:
		if id, ok := v.Fun.(*ast.Ident); ok {
			if id.Name == "len" && len(v.Args) == 1 {
				return "((" + c.expr(v.Args[0]) + ".size : Nat) : Int)"
			}
			if translated[id.Name] {
				var as []string
				for _, a := range v.Args {
					as = append(as, c.expr(a))
				}
				return "(" + id.Name + " " + strings.Join(as, " ") + ")"
			}
		}
	}
	fail("unsupported expression %T at %s", e, c.fset.Position(e.Pos()))
	return ""
}

// assigned collects identifiers assigned (not declared) in stmts.
func assigned(stmts []ast.Stmt, out map[string]bool) {
	for _, s := range stmts {
		ast.Inspect(s, func(n ast.Node) bool {
			switch v := n.(type) {
			case *ast.AssignStmt:
				if v.Tok != token.DEFINE {
					for _, l := range v.Lhs {
						if id, ok := l.(*ast.Ident); ok {
							out[id.Name] = true
						}
					}
				}
			case *ast.IncDecStmt:
				if id, ok := v.X.(*ast.Ident); ok {
					out[id.Name] = true
				}
			}
			return true
		})
	}
}

func hasReturn(stmts []ast.Stmt) bool {
	found := false
	for _, s := range stmts {
		ast.Inspect(s, func(n ast.Node) bool {
			if _, ok := n.(*ast.ReturnStmt); ok {
				found = true
			}
			return true
		})
	}
	return found
}

// block translates stmts followed by the continuation `rest` (a Lean expression
// producer for what follows; nil at the end of the function, where a return is required).
func (c *ctx) block(stmts []ast.Stmt, ind string, tail func() string) string {
	if len(stmts) == 0 {
		if tail == nil {
			fail("function body ends without return")
		}
		return tail()
	}
	s, rest := stmts[0], stmts[1:]
	next := func() string { return c.block(rest, ind, tail) }
	switch v := s.(type) {
	case *ast.ReturnStmt:
		if len(v.Results) != 1 {
			fail("unsupported return")
		}
		return ind + c.expr(v.Results[0])
	case *ast.AssignStmt:
		if len(v.Lhs) != 1 || len(v.Rhs) != 1 {
			fail("unsupported assignment")
		}
		id, ok := v.Lhs[0].(*ast.Ident)
		if !ok {
			fail("assignment to a non-variable")
		}
		rhs := c.expr(v.Rhs[0])
		switch v.Tok {
		case token.DEFINE, token.ASSIGN:
			if v.Tok == token.DEFINE {
				c.types[id.Name] = "Int"
			}
		case token.ADD_ASSIGN:
			rhs = "(" + id.Name + " + " + rhs + ")"
		case token.SUB_ASSIGN:
			rhs = "(" + id.Name + " - " + rhs + ")"
		case token.MUL_ASSIGN:
			rhs = "(" + id.Name + " * " + rhs + ")"
		default:
			fail("unsupported assignment operator %s", v.Tok)
		}
		return ind + "let " + id.Name + " : Int := " + rhs + "\n" + next()
	case *ast.IncDecStmt:
		id, ok := v.X.(*ast.Ident)
		if !ok {
			fail("unsupported inc/dec")
		}
		op := "+"
		if v.Tok == token.DEC {
			op = "-"
		}
		return ind + "let " + id.Name + " : Int := " + id.Name + " " + op + " 1\n" + next()
	case *ast.IfStmt:
		if v.Init != nil {
			fail("if with init")
		}
		cond := c.expr(v.Cond)
		// branches that return: `if c { return e }` + rest
		if hasReturn(v.Body.List) {
			thn := c.block(v.Body.List, ind+"  ", nil)
			var els string
			if v.Else != nil {
				eb, ok := v.Else.(*ast.BlockStmt)
				if !ok {
					fail("else-if")
				}
				els = c.block(append(append([]ast.Stmt{}, eb.List...), rest...), ind+"  ", tail)
			} else {
				els = c.block(rest, ind+"  ", tail)
			}
			return ind + "if " + cond + " then\n" + thn + "\n" + ind + "else\n" + els
		}
		// branches that only assign: thread the assigned variables
		vars := map[string]bool{}
		assigned(v.Body.List, vars)
		var elseList []ast.Stmt
		if v.Else != nil {
			eb, ok := v.Else.(*ast.BlockStmt)
			if !ok {
				fail("else-if")
			}
			elseList = eb.List
			assigned(elseList, vars)
		}
		names := sortedKeys(vars)
		tup := tuple(names)
		ret := func() string { return ind + "  " + tup }
		thn := c.block(v.Body.List, ind+"  ", ret)
		els := c.block(elseList, ind+"  ", ret)
		return ind + "let " + tup + " := (if " + cond + " then\n" + thn + "\n" + ind + "else\n" + els + ")\n" + next()
	case *ast.RangeStmt:
		if v.Key != nil {
			if id, ok := v.Key.(*ast.Ident); !ok || id.Name != "_" {
				fail("range with index")
			}
		}
		x, ok := v.Value.(*ast.Ident)
		if !ok {
			fail("range without value")
		}
		xs := c.expr(v.X)
		if hasReturn(v.Body.List) {
			// only: for _, x := range xs { if cond { return const } } ; return other
			if len(v.Body.List) == 1 {
				if is, ok := v.Body.List[0].(*ast.IfStmt); ok && is.Else == nil && len(is.Body.List) == 1 {
					if r, ok := is.Body.List[0].(*ast.ReturnStmt); ok && len(r.Results) == 1 {
						return ind + "if " + xs + ".any (fun " + x.Name + " => " + c.expr(is.Cond) + ") then\n" + ind + "  " + c.expr(r.Results[0]) + "\n" + ind + "else\n" + c.block(rest, ind+"  ", tail)
					}
				}
			}
			fail("unsupported return inside range loop")
		}
		vars := map[string]bool{}
		assigned(v.Body.List, vars)
		names := sortedKeys(vars)
		tup := tuple(names)
		body := c.block(v.Body.List, ind+"    ", func() string { return ind + "    " + tup })
		return ind + "let " + tup + " := " + xs + ".foldl (fun " + tup + " " + x.Name + " =>\n" + body + ") " + tup + "\n" + next()
	case *ast.ForStmt:
		init, ok := v.Init.(*ast.AssignStmt)
		if !ok || init.Tok != token.DEFINE || len(init.Lhs) != 1 {
			fail("unsupported for-init")
		}
		k := init.Lhs[0].(*ast.Ident).Name
		start := c.expr(init.Rhs[0])
		cond, ok := v.Cond.(*ast.BinaryExpr)
		if !ok {
			fail("unsupported for-cond")
		}
		if id, ok := cond.X.(*ast.Ident); !ok || id.Name != k {
			fail("for-cond does not test the loop variable")
		}
		bound := c.expr(cond.Y)
		post, ok := v.Post.(*ast.IncDecStmt)
		if !ok {
			fail("unsupported for-post")
		}
		if id, ok := post.X.(*ast.Ident); !ok || id.Name != k {
			fail("for-post does not step the loop variable")
		}
		vars := map[string]bool{}
		assigned(v.Body.List, vars)
		if vars[k] || hasReturn(v.Body.List) {
			fail("loop variable assigned or return inside for loop")
		}
		var ks string
		switch {
		case post.Tok == token.INC && cond.Op == token.LEQ: // start..bound
			ks = "(intUp " + start + " (" + bound + " + 1))"
		case post.Tok == token.INC && cond.Op == token.LSS: // start..bound-1
			ks = "(intUp " + start + " " + bound + ")"
		case post.Tok == token.DEC && cond.Op == token.GTR: // start down to bound+1
			ks = "(intDown " + start + " " + bound + ")"
		default:
			fail("unsupported loop shape")
		}
		names := sortedKeys(vars)
		tup := tuple(names)
		body := c.block(v.Body.List, ind+"    ", func() string { return ind + "    " + tup })
		return ind + "let " + tup + " := " + ks + ".foldl (fun " + tup + " " + k + " =>\n" + body + ") " + tup + "\n" + next()
	}
	fail("unsupported statement %T at %s", s, c.fset.Position(s.Pos()))
	return ""
}

func sortedKeys(m map[string]bool) []string {
	var ks []string
	for k := range m {
		ks = append(ks, k)
	}
	sort.Strings(ks)
	return ks
}

func tuple(names []string) string {
	switch len(names) {
	case 0:
		return "()"
	case 1:
		return names[0]
	}
	return "(" + strings.Join(names, ", ") + ")"
}

func main() {
	repo, out := os.Args[1], os.Args[2]
	fset := token.NewFileSet()
	var defs []string
	structs := map[string]*ast.StructType{}
	pkgs := map[string]map[string]*ast.File{}
	for _, t := range targets {
		if pkgs[t.dir] != nil {
			continue
		}
		pkgs[t.dir] = map[string]*ast.File{}
		matches, _ := filepath.Glob(filepath.Join(repo, t.dir, "*.go"))
		for _, m := range matches {
			if strings.HasSuffix(m, "_test.go") {
				continue
			}
			f, err := parser.ParseFile(fset, m, nil, 0)
			if err != nil {
				fail("%v", err)
			}
			pkgs[t.dir][m] = f
			for _, d := range f.Decls {
				if gd, ok := d.(*ast.GenDecl); ok {
					for _, sp := range gd.Specs {
						if ts, ok := sp.(*ast.TypeSpec); ok {
							if st, ok := ts.Type.(*ast.StructType); ok {
								structs[t.dir+"."+ts.Name.Name] = st
							}
						}
					}
				}
			}
		}
	}
	for _, t := range targets {
		var found *ast.FuncDecl
		for _, f := range pkgs[t.dir] {
			for _, d := range f.Decls {
				fd, ok := d.(*ast.FuncDecl)
				if !ok || fd.Name.Name != t.name {
					continue
				}
				recv := ""
				if fd.Recv != nil && len(fd.Recv.List) == 1 {
					if id, ok := fd.Recv.List[0].Type.(*ast.Ident); ok {
						recv = id.Name
					}
				}
				if recv == t.recv {
					found = fd
				}
			}
		}
		if found == nil {
			fail("function %s.%s not found", t.dir, t.name)
		}
		c := &ctx{fset: fset, fields: map[string]string{}, types: map[string]string{}}
		var params []string
		if found.Recv != nil {
			if len(found.Recv.List[0].Names) == 1 {
				c.recv = found.Recv.List[0].Names[0].Name
			}
			st := structs[t.dir+"."+t.recv]
			if st == nil {
				fail("receiver type %s not found", t.recv)
			}
			used := map[string]bool{}
			ast.Inspect(found.Body, func(n ast.Node) bool {
				if se, ok := n.(*ast.SelectorExpr); ok {
					if id, ok := se.X.(*ast.Ident); ok && id.Name == c.recv {
						used[se.Sel.Name] = true
					}
				}
				return true
			})
			for _, fl := range st.Fields.List {
				for _, nm := range fl.Names {
					if used[nm.Name] {
						ty := leanType(fl.Type)
						c.fields[nm.Name] = ty
						params = append(params, "("+nm.Name+" : "+ty+")")
					}
				}
			}
		}
		for _, p := range found.Type.Params.List {
			ty := leanType(p.Type)
			for _, nm := range p.Names {
				c.types[nm.Name] = ty
				params = append(params, "("+nm.Name+" : "+ty+")")
			}
		}
		if found.Type.Results == nil || len(found.Type.Results.List) != 1 {
			fail("%s: exactly one result expected", t.name)
		}
		ret := leanType(found.Type.Results.List[0].Type)
		body := c.block(found.Body.List, "  ", nil)
		defs = append(defs, fmt.Sprintf("/-- translated from %s/%s -/\ndef %s %s : %s :=\n%s\n", t.dir, t.name, t.name, strings.Join(params, " "), ret, body))
		translated[t.name] = true
	}
	var b strings.Builder
	b.WriteString("-- generated by tools/go2lean from /repo on every run; do not edit\nnamespace MV.Generated.Code\n\n")
	b.WriteString("/-- a, a+1, …, b-1 -/\ndef intUp (a b : Int) : List Int := (List.range (b - a).toNat).map fun (i : Nat) => a + (i : Int)\n\n")
	b.WriteString("/-- a, a-1, …, b+1 -/\ndef intDown (a b : Int) : List Int := (List.range (a - b).toNat).map fun (i : Nat) => a - (i : Int)\n\n")
	b.WriteString(strings.Join(defs, "\n"))
	b.WriteString("\nend MV.Generated.Code\n")
	if err := os.WriteFile(out, []byte(b.String()), 0644); err != nil {
		fail("%v", err)
	}
}
