#!/usr/bin/env python3
"""Maintenance helper, run by hand on an UNCHANGED tree only (never by a check): rewrites the
digest-valued shape fact (shape:Cxx) expected by MV/Props/CxxFacts.lean and the readable sidecar
MV/Props/shape_expected.txt from a freshly generated MV/Generated/Facts.lean.
usage: update_state_facts.py <Generated/Facts.lean> <dict dir>"""
import re, sys, os, glob
gen = open(sys.argv[1]).read()
pair = re.compile(r'\("((?:[^"\\]|\\.)*)", "((?:[^"\\]|\\.)*)"\)')
have = dict(pair.findall(gen))
root = os.path.join(os.path.dirname(os.path.abspath(__file__)), "..", "lean", "MV", "Props")
for f in sorted(glob.glob(os.path.join(root, "C??Facts.lean"))):
    s = open(f).read()
    m = re.search(r"(def stateC\d\d : List \(String × String\) := \[)(.*)(\]\n)", s)
    if not m:
        continue
    items = pair.findall(m.group(2))
    keys = [k for k, _ in items]
    prop = os.path.basename(f)[:3]
    out = [(k, v) for k, v in items if not k.startswith(("funcs:", "reads:", "pwrites:", "shape:"))]
    out.append(("shape:" + prop, have["shape:" + prop]))
    body = ", ".join('("%s", "%s")' % kv for kv in out)
    s = s[:m.start()] + m.group(1) + body + m.group(3) + s[m.end():]
    open(f, "w").write(s)
with open(os.path.join(root, "shape_expected.txt"), "w") as o:
    for k, v in re.findall(r"^-- (shape:\S+) = (.*)$", gen, flags=re.M):
        o.write(f"{k} = {v}\n")
with open(os.path.join(root, "dict_expected.txt"), "w") as o:
    for f in sorted(glob.glob(os.path.join(sys.argv[2], "C??.txt"))):
        o.write(os.path.basename(f)[:3] + " = " + " ".join(l.strip() for l in open(f) if l.strip()) + "\n")
